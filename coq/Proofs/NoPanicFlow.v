(* NoPanicFlow.v (C08 f, second part): the builder never panics.

   Besides [code_emit] (NoPanicBuild.v) the builder has three panic outcomes: [backpatch]
   outside the code, [backpatch_jump] on an instruction that is not a jump, [i_def_end] on a
   dictionary entry that is not a function.  They are excluded by the invariant [BI]:

     - every entry of the flow stack points at instructions of its kind inside the code
       (jumps for if / else / while / break / of / endof / ':', any instruction for do),
       and at a function entry of the dictionary; no two entries share a position;
     - for every open context, the entries below its flow mark point below its code mark
       and its dictionary mark (so the truncations of context_close / build_unwind never
       cut under a live entry), and the flow marks of nested contexts are ordered.

   [BI] holds of the boot state, is kept by every API call, and from a state satisfying it
   eval / compile never return the panic outcome. *)
From Xeh Require Import Model.Prelude Model.Bits Model.Codec Model.Cell Model.Lexer Model.Fmt
                        Model.Vm Model.Words Model.Build.
From Xeh Require Import Proofs.VmFrame Proofs.VmLimits Proofs.NoPanic Proofs.NoPanicBuild.
From Coq Require Import Sorted.
Local Notation length := List.length.
Local Open Scope list_scope.

#[local] Arguments Z.add : simpl never.
#[local] Arguments Z.sub : simpl never.
#[local] Arguments Z.mul : simpl never.
#[local] Arguments Z.ltb : simpl never.
#[local] Arguments Z.leb : simpl never.
#[local] Arguments Z.eqb : simpl never.
#[local] Arguments Z.of_nat : simpl never.
#[local] Arguments Z.to_nat : simpl never.

(* ---------- lists ---------- *)
Lemma NoDup_app_iff {A} (a b : list A) :
  NoDup (a ++ b) <-> NoDup a /\ NoDup b /\ (forall x, In x a -> ~ In x b).
Proof.
  induction a as [|x a IH]; cbn [app].
  - split; [intros H; repeat split; [constructor|exact H|intros x []]|intros (_ & H & _); exact H].
  - rewrite !NoDup_cons_iff, IH. split.
    + intros (H1 & H2 & H3 & H4). repeat split; try assumption.
      * intros C. apply H1. apply in_or_app. left. exact C.
      * intros y [<-|Hy] C; [apply H1; apply in_or_app; right; exact C|exact (H4 y Hy C)].
    + intros ((H1 & H2) & H3 & H4). repeat split; try assumption.
      * intros C. apply in_app_or in C. destruct C as [C|C]; [exact (H1 C)|].
        exact (H4 x (or_introl eq_refl) C).
      * intros y Hy. apply H4. right. exact Hy.
Qed.

Lemma lastn_app {A} (n : nat) (a b : list A) : n <= length b -> lastn n (a ++ b) = lastn n b.
Proof.
  intros H. unfold lastn. rewrite app_length.
  replace (length a + length b - n) with (length a + (length b - n)) by lia.
  rewrite skipn_app. rewrite skipn_all2 by lia. cbn [app]. f_equal. lia.
Qed.

Lemma lastn_all {A} (n : nat) (l : list A) : length l <= n -> lastn n l = l.
Proof. intros H. unfold lastn. replace (length l - n) with 0 by lia. reflexivity. Qed.

Lemma lastn_length {A} (n : nat) (l : list A) : length (lastn n l) = Nat.min n (length l).
Proof. unfold lastn. rewrite skipn_length. lia. Qed.

Lemma lastn_split {A} (n : nat) (l : list A) : l = firstn (length l - n) l ++ lastn n l.
Proof. unfold lastn. symmetry. apply firstn_skipn. Qed.

Lemma lastn_lastn {A} (n m : nat) (l : list A) : n <= m -> lastn n (lastn m l) = lastn n l.
Proof.
  intros H. destruct (le_lt_dec (length l) m) as [Hl|Hl].
  - rewrite (lastn_all m l) by lia. reflexivity.
  - rewrite (lastn_split m l) at 2.
    rewrite lastn_app; [reflexivity|]. rewrite lastn_length. lia.
Qed.

Lemma nth_error_list_set_eq {A} : forall (l : list A) i v, i < length l ->
  nth_error (list_set l i v) i = Some v.
Proof.
  induction l as [|x l IH]; intros [|i] v H; cbn [length] in H; try lia; cbn [list_set nth_error]; auto.
  apply IH. lia.
Qed.

Lemma nth_error_list_set_neq {A} : forall (l : list A) i j v, i <> j ->
  nth_error (list_set l i v) j = nth_error l j.
Proof.
  induction l as [|x l IH]; intros [|i] [|j] v H; cbn [list_set nth_error]; auto; try lia.
Qed.

Lemma nth_error_firstn_lt {A} : forall (l : list A) n p, p < n ->
  nth_error (firstn n l) p = nth_error l p.
Proof.
  induction l as [|x l IH]; intros [|n] [|p] H; try lia; cbn [firstn nth_error]; auto.
  apply IH. lia.
Qed.

(* ---------- what a flow entry points at ---------- *)
Definition is_jump (op : opcode) : bool :=
  match op with OJump _ | OJumpIf _ | OJumpIfNot _ | OCaseOf _ => true | _ => false end.

Definition is_dfun (e : dentry) : bool :=
  match dent e with DFun _ _ _ => true | _ => false end.

(* positions that will be backpatched as a jump / as any instruction; dictionary index *)
Definition fjumps (f : flow) : list nat :=
  match f with
  | FIf o | FElse o | FWhile o | FBreak o | FCaseOf o | FCaseEndOf o => [o]
  | FFun _ st _ => [st]
  | _ => []
  end.
Definition fother (f : flow) : list nat := match f with FDo o _ => [o] | _ => [] end.
Definition fpos (f : flow) : list nat := fjumps f ++ fother f.
Definition fdict (f : flow) : list nat := match f with FFun di _ _ => [di] | _ => [] end.

Definition jump_at (c : list opcode) (p : nat) : Prop :=
  exists op, nth_error c p = Some op /\ is_jump op = true.
Definition dfun_at (d : list dentry) (i : nat) : Prop :=
  exists e, nth_error d i = Some e /\ is_dfun e = true.

(* the flow stack against code and dictionary *)
Definition FL (c : list opcode) (d : list dentry) (fl : list flow) : Prop :=
  NoDup (flat_map fpos fl) /\
  (forall p, In p (flat_map fjumps fl) -> jump_at c p) /\
  (forall p, In p (flat_map fother fl) -> p < length c) /\
  (forall i, In i (flat_map fdict fl) -> dfun_at d i).

Lemma in_fpos_cases f p : In p (fpos f) <-> In p (fjumps f) \/ In p (fother f).
Proof. unfold fpos. apply in_app_iff. Qed.

Lemma in_flat_fpos fl p :
  In p (flat_map fpos fl) <-> In p (flat_map fjumps fl) \/ In p (flat_map fother fl).
Proof.
  rewrite !in_flat_map. split.
  - intros (f & Hf & Hp). apply in_fpos_cases in Hp. destruct Hp; [left|right]; eauto.
  - intros [(f & Hf & Hp)|(f & Hf & Hp)]; exists f; (split; [exact Hf|]);
      apply in_fpos_cases; [left|right]; exact Hp.
Qed.

Lemma jump_at_lt c p : jump_at c p -> p < length c.
Proof. intros (op & H & _). apply nth_error_Some. rewrite H. discriminate. Qed.

Lemma FL_pos_lt c d fl p : FL c d fl -> In p (flat_map fpos fl) -> p < length c.
Proof.
  intros (_ & H2 & H3 & _) Hp. apply in_flat_fpos in Hp. destruct Hp as [Hp|Hp].
  - apply jump_at_lt. apply H2. exact Hp.
  - apply H3. exact Hp.
Qed.

Lemma FL_nil c d : FL c d [].
Proof. repeat split; cbn; try constructor; intros ? []. Qed.

Lemma jump_at_app c l p : jump_at c p -> jump_at (c ++ l) p.
Proof.
  intros (op & H & J). exists op. split; [|exact J].
  rewrite nth_error_app1; [exact H|]. apply nth_error_Some. rewrite H. discriminate.
Qed.

Lemma dfun_at_app d l i : dfun_at d i -> dfun_at (d ++ l) i.
Proof.
  intros (e & H & J). exists e. split; [|exact J].
  rewrite nth_error_app1; [exact H|]. apply nth_error_Some. rewrite H. discriminate.
Qed.

Lemma FL_app_code c d fl l : FL c d fl -> FL (c ++ l) d fl.
Proof.
  intros (H1 & H2 & H3 & H4). repeat split; try assumption.
  - intros p Hp. apply jump_at_app. apply H2. exact Hp.
  - intros p Hp. rewrite app_length. specialize (H3 p Hp). lia.
Qed.

Lemma FL_app_dict c d fl l : FL c d fl -> FL c (d ++ l) fl.
Proof.
  intros (H1 & H2 & H3 & H4). repeat split; try assumption.
  intros i Hi. apply dfun_at_app. apply H4. exact Hi.
Qed.

(* a new entry *)
Lemma FL_push c d fl f :
  FL c d fl -> NoDup (fpos f) -> (forall p, In p (fpos f) -> ~ In p (flat_map fpos fl)) ->
  (forall p, In p (fjumps f) -> jump_at c p) -> (forall p, In p (fother f) -> p < length c) ->
  (forall i, In i (fdict f) -> dfun_at d i) ->
  FL c d (f :: fl).
Proof.
  intros (H1 & H2 & H3 & H4) N D J O F. unfold FL. cbn [flat_map]. repeat split.
  - apply NoDup_app_iff. repeat split; assumption.
  - intros p Hp. apply in_app_or in Hp. destruct Hp; auto.
  - intros p Hp. apply in_app_or in Hp. destruct Hp; auto.
  - intros i Hi. apply in_app_or in Hi. destruct Hi; auto.
Qed.

Lemma FL_push_plain c d fl f : FL c d fl -> fpos f = [] -> fdict f = [] -> FL c d (f :: fl).
Proof.
  intros H E1 E2. assert (E3 : fjumps f = [] /\ fother f = []).
  { unfold fpos in E1. apply app_eq_nil in E1. exact E1. }
  destruct E3 as [E3 E4]. apply FL_push; try exact H; rewrite ?E1, ?E2, ?E3, ?E4;
    try constructor; intros ? [].
Qed.

(* an entry goes away (from anywhere in the stack); what we know about it *)
Lemma FL_remove c d a f b :
  FL c d (a ++ f :: b) ->
  FL c d (a ++ b) /\
  (forall p, In p (fjumps f) -> jump_at c p) /\ (forall p, In p (fother f) -> p < length c) /\
  (forall i, In i (fdict f) -> dfun_at d i) /\
  (forall p, In p (fpos f) -> ~ In p (flat_map fpos (a ++ b))).
Proof.
  intros (H1 & H2 & H3 & H4).
  rewrite !flat_map_app in *. cbn [flat_map] in *.
  assert (Inc : forall (g : flow -> list nat) x,
            In x (flat_map g a ++ flat_map g b) -> In x (flat_map g a ++ g f ++ flat_map g b)).
  { intros g x Hx. apply in_app_or in Hx. apply in_or_app.
    destruct Hx; [left; assumption|right; apply in_or_app; right; assumption]. }
  assert (Inf : forall (g : flow -> list nat) x, In x (g f) -> In x (flat_map g a ++ g f ++ flat_map g b)).
  { intros g x Hx. apply in_or_app. right. apply in_or_app. left. exact Hx. }
  apply NoDup_app_iff in H1. destruct H1 as (N1 & N2 & N3).
  apply NoDup_app_iff in N2. destruct N2 as (N4 & N5 & N6).
  split; [|split; [|split; [|split]]].
  - repeat split.
    + rewrite flat_map_app. apply NoDup_app_iff. repeat split; try assumption.
      intros x Hx C. apply (N3 x Hx). apply in_or_app. right. exact C.
    + intros p Hp. rewrite flat_map_app in Hp. apply H2, Inc, Hp.
    + intros p Hp. rewrite flat_map_app in Hp. apply H3, Inc, Hp.
    + intros i Hi. rewrite flat_map_app in Hi. apply H4, Inc, Hi.
  - intros p Hp. apply H2, Inf, Hp.
  - intros p Hp. apply H3, Inf, Hp.
  - intros i Hi. apply H4, Inf, Hi.
  - intros p Hp C. apply in_app_or in C. destruct C as [C|C].
    + apply (N3 p C). apply in_or_app. left. exact Hp.
    + exact (N6 p Hp C).
Qed.

Lemma FL_tail c d a b : FL c d (a ++ b) -> FL c d b.
Proof.
  induction a as [|f a IH]; cbn [app]; [auto|].
  intros H. apply IH. exact (proj1 (FL_remove c d [] f (a ++ b) H)).
Qed.

(* the code is patched *)
Lemma jump_at_set_other c p q op : p <> q -> jump_at c p -> jump_at (list_set c q op) p.
Proof.
  intros Hne (o & H & J). exists o. split; [|exact J].
  rewrite nth_error_list_set_neq by congruence. exact H.
Qed.

Lemma FL_patch_jump c d fl q op :
  FL c d fl -> is_jump op = true -> FL (list_set c q op) d fl.
Proof.
  intros (H1 & H2 & H3 & H4) J. repeat split; try assumption.
  - intros p Hp. destruct (Nat.eq_dec p q) as [->|Hne].
    + exists op. split; [|exact J]. apply nth_error_list_set_eq. apply jump_at_lt with (c := c).
      apply H2. exact Hp.
    + apply jump_at_set_other; [exact Hne|apply H2; exact Hp].
  - intros p Hp. rewrite list_set_length. apply H3. exact Hp.
Qed.

Lemma FL_patch_free c d fl q op :
  FL c d fl -> ~ In q (flat_map fjumps fl) -> FL (list_set c q op) d fl.
Proof.
  intros (H1 & H2 & H3 & H4) Hq. repeat split; try assumption.
  - intros p Hp. apply jump_at_set_other; [|apply H2; exact Hp]. intros ->. exact (Hq Hp).
  - intros p Hp. rewrite list_set_length. apply H3. exact Hp.
Qed.

(* a patched instruction that was not a jump (late binding) is not the target of an entry *)
Lemma FL_patch_nonjump c d fl q old op :
  FL c d fl -> nth_error c q = Some old -> is_jump old = false -> FL (list_set c q op) d fl.
Proof.
  intros H Hq Hj. apply FL_patch_free; [exact H|].
  intros C. destruct H as (_ & H2 & _). destruct (H2 q C) as (o & E & J). congruence.
Qed.

(* the code is cut above every entry *)
Lemma FL_firstn_code c d fl n :
  FL c d fl -> (forall p, In p (flat_map fpos fl) -> p < n) -> FL (firstn n c) d fl.
Proof.
  intros H Hn. pose proof H as (H1 & H2 & H3 & H4). repeat split; try assumption.
  - intros p Hp. destruct (H2 p Hp) as (o & E & J). exists o. split; [|exact J].
    assert (p < n) by (apply Hn, in_flat_fpos; left; exact Hp).
    rewrite nth_error_firstn_lt by assumption. exact E.
  - intros p Hp. rewrite firstn_length.
    assert (p < n) by (apply Hn, in_flat_fpos; right; exact Hp). specialize (H3 p Hp). lia.
Qed.

(* the dictionary changes above / beside every entry *)
Lemma FL_dict_same c d d' fl :
  FL c d fl -> (forall i, In i (flat_map fdict fl) -> dfun_at d i -> dfun_at d' i) -> FL c d' fl.
Proof.
  intros (H1 & H2 & H3 & H4) Hd. repeat split; try assumption.
  intros i Hi. apply Hd; [exact Hi|apply H4; exact Hi].
Qed.

Lemma dfun_at_set d i j e' :
  dfun_at d i -> (forall e, nth_error d j = Some e -> is_dfun e = true -> is_dfun e' = true) ->
  dfun_at (list_set d j e') i.
Proof.
  intros (e & E & J) He. destruct (Nat.eq_dec j i) as [->|Hne].
  - exists e'. split; [|eapply He; eassumption]. apply nth_error_list_set_eq.
    apply nth_error_Some. rewrite E. discriminate.
  - exists e. split; [|exact J]. rewrite nth_error_list_set_neq by exact Hne. exact E.
Qed.

(* the locals of a function entry change *)
Lemma set_fun_locals_maps (g : flow -> list nat) :
  (forall d st l l', g (FFun d st l) = g (FFun d st l')) ->
  forall fl ls, flat_map g (set_fun_locals fl ls) = flat_map g fl.
Proof.
  intros Hg. induction fl as [|f fl IH]; intros ls; cbn [set_fun_locals flat_map]; [reflexivity|].
  destruct f; cbn [flat_map]; rewrite ?IH; try reflexivity. f_equal. apply Hg.
Qed.

Lemma set_fun_locals_length : forall fl ls, length (set_fun_locals fl ls) = length fl.
Proof.
  induction fl as [|f fl IH]; intros ls; cbn [set_fun_locals length]; [reflexivity|].
  destruct f; cbn [length]; rewrite ?IH; reflexivity.
Qed.

Lemma FL_set_fun_locals c d act rest ls :
  FL c d (act ++ rest) -> FL c d (set_fun_locals act ls ++ rest).
Proof.
  unfold FL. rewrite !flat_map_app.
  rewrite !(set_fun_locals_maps fpos), !(set_fun_locals_maps fjumps),
          !(set_fun_locals_maps fother), !(set_fun_locals_maps fdict) by reflexivity.
  auto.
Qed.

(* ---------- contexts against the flow stack ---------- *)
Definition CT (fl : list flow) (c : ctx) : Prop :=
  fs_len c <= length fl /\
  forall f, In f (lastn (fs_len c) fl) ->
    (forall p, In p (fpos f) -> p < cs_len c) /\ (forall i, In i (fdict f) -> i < di_len c).

Definition chain (cs : list ctx) : Prop :=
  StronglySorted (fun a b => fs_len b <= fs_len a) cs.

Definition BIf (c : list opcode) (d : list dentry) (fl : list flow) (cs : list ctx) : Prop :=
  FL c d fl /\ Forall (CT fl) cs /\ chain cs.

Definition BI (s : state) : Prop :=
  cd_inv s /\ BIf (code s) (dict s) (flows s) (cx s :: nested s).

Lemma chain_head_max c0 cs c : chain (c0 :: cs) -> In c (c0 :: cs) -> fs_len c <= fs_len c0.
Proof.
  intros H [<-|Hc]; [lia|]. apply StronglySorted_inv in H. destruct H as [_ H].
  rewrite Forall_forall in H. apply H. exact Hc.
Qed.

Lemma chain_tail c0 cs : chain (c0 :: cs) -> chain cs.
Proof. intros H. apply StronglySorted_inv in H. exact (proj1 H). Qed.

Lemma chain_cons c0 cs : chain cs -> (forall c, In c cs -> fs_len c <= fs_len c0) -> chain (c0 :: cs).
Proof. intros H1 H2. constructor; [exact H1|]. rewrite Forall_forall. exact H2. Qed.

(* the stack changes above the marks *)
Lemma CT_pending a a' rest c : CT (a ++ rest) c -> fs_len c <= length rest -> CT (a' ++ rest) c.
Proof.
  intros [H1 H2] Hl. split; [rewrite app_length; lia|].
  intros f Hf. apply H2. rewrite lastn_app in * by exact Hl. exact Hf.
Qed.

Lemma Forall_CT_pending a a' rest cs :
  Forall (CT (a ++ rest)) cs -> (forall c, In c cs -> fs_len c <= length rest) ->
  Forall (CT (a' ++ rest)) cs.
Proof.
  rewrite !Forall_forall. intros H Hl c Hc. eapply CT_pending; [apply H; exact Hc|apply Hl; exact Hc].
Qed.

Definition marks (c : ctx) : nat * nat * nat := (fs_len c, cs_len c, di_len c).

Lemma CT_marks fl c c' : marks c' = marks c -> CT fl c -> CT fl c'.
Proof.
  unfold marks, CT. intros E. injection E as -> -> ->. auto.
Qed.

(* the pending part of the flow stack and the part below the mark of the current context *)
Lemma flows_split s : fs_len (cx s) <= length (flows s) ->
  flows s = pending s ++ lastn (fs_len (cx s)) (flows s) /\
  length (lastn (fs_len (cx s)) (flows s)) = fs_len (cx s).
Proof.
  intros H. split; [apply lastn_split|]. rewrite lastn_length. lia.
Qed.

Lemma BI_marks_le s c : BI s -> In c (cx s :: nested s) ->
  fs_len c <= fs_len (cx s) /\ fs_len (cx s) <= length (flows s).
Proof.
  intros (_ & _ & HC & HS) Hc. split; [eapply chain_head_max; eassumption|].
  inversion HC as [|? ? [H _] _]; subst. exact H.
Qed.

(* a new state whose flow stack differs from that of [s] above the mark only *)
Lemma BI_pending s s' a' :
  BI s -> cd_inv s' -> cx s' = cx s -> nested s' = nested s ->
  flows s' = a' ++ lastn (fs_len (cx s)) (flows s) ->
  FL (code s') (dict s') (flows s') -> BI s'.
Proof.
  intros HB Hcd Ecx Ene Efl HF. pose proof HB as (_ & _ & HC & HS).
  split; [exact Hcd|]. split; [exact HF|]. rewrite Ecx, Ene. split; [|exact HS].
  rewrite Efl.
  destruct (flows_split s) as [E1 E2]; [apply (BI_marks_le s (cx s) HB); left; reflexivity|].
  rewrite E1 in HC. eapply Forall_CT_pending; [exact HC|].
  intros c Hc. rewrite E2. apply (BI_marks_le s c HB Hc).
Qed.

(* ---------- results ---------- *)
Definition good {A} (r : res A) : Prop := r <> RPanic /\ res_all BI r.
Definition bip {A} (m : M A) : Prop := forall s, BI s -> good (m s).

Lemma good_ok {A} (a : A) s : BI s -> good (ROk a s).
Proof. intros H. split; [discriminate|exact H]. Qed.
Lemma good_err {A} k p s : BI s -> good (@RErr A k p s).
Proof. intros H. split; [discriminate|exact H]. Qed.
Lemma good_unsup {A} : good (@RUnsup A).
Proof. split; [discriminate|exact I]. Qed.

Lemma good_bind {A B} (m : M A) (f : A -> M B) s :
  good (m s) -> (forall a s1, m s = ROk a s1 -> BI s1 -> good (f a s1)) -> good (bind m f s).
Proof.
  intros [H1 H2] Hf. unfold bind. destruct (m s) as [a s1|k p s1| |] eqn:E; cbn [res_all] in H2.
  - apply Hf; [reflexivity|exact H2].
  - apply good_err. exact H2.
  - contradiction.
  - apply good_unsup.
Qed.

Lemma bip_bind {A B} (m : M A) (f : A -> M B) : bip m -> (forall a, bip (f a)) -> bip (bind m f).
Proof. intros Hm Hf s Hs. apply good_bind; [apply Hm; exact Hs|]. intros a s1 _ H1. apply Hf. exact H1. Qed.

Lemma bip_get_bind {B} (k : state -> M B) : (forall s, BI s -> good (k s s)) -> bip (bind get k).
Proof. intros H s Hs. unfold bind, get. apply H. exact Hs. Qed.

Lemma bip_ret A (a : A) : bip (ret a).
Proof. intros s H. apply good_ok. exact H. Qed.
Lemma bip_fail A k p : bip (@fail A k p).
Proof. intros s H. apply good_err. exact H. Qed.
Lemma bip_unsup A : bip (@unsup A).
Proof. intros s H. apply good_unsup. Qed.

(* ---------- steps that do not touch what BI talks about ---------- *)
Definition core (s : state) := (code s, dbg s, dict s, flows s, cx s, nested s).

Lemma BI_core s s' : core s' = core s -> BI s -> BI s'.
Proof.
  unfold core. intros E. injection E as E1 E2 E3 E4 E5 E6.
  unfold BI, cd_inv. rewrite E1, E2, E3, E4, E5, E6. auto.
Qed.

Definition corep {A} (m : M A) : Prop :=
  forall s, m s <> RPanic /\ res_all (fun s' => core s' = core s) (m s).

Lemma corep_bip {A} (m : M A) : corep m -> bip m.
Proof.
  intros H s Hs. destruct (H s) as [H1 H2]. split; [exact H1|].
  destruct (m s); cbn [res_all] in *; auto; eapply BI_core; eauto.
Qed.

Lemma corep_ret A (a : A) : corep (ret a).
Proof. intros s. split; [discriminate|reflexivity]. Qed.
Lemma corep_fail A k p : corep (@fail A k p).
Proof. intros s. split; [discriminate|reflexivity]. Qed.
Lemma corep_unsup A : corep (@unsup A).
Proof. intros s. split; [discriminate|exact I]. Qed.
Lemma corep_bind A B (m : M A) (f : A -> M B) : corep m -> (forall a, corep (f a)) -> corep (bind m f).
Proof.
  intros Hm Hf s. unfold bind. destruct (Hm s) as [H1 H2].
  destruct (m s) as [a s1|k p s1| |]; cbn [res_all] in *; try (split; [discriminate|auto]).
  - destruct (Hf a s1) as [H3 H4]. split; [exact H3|].
    destruct (f a s1); cbn [res_all] in *; auto; congruence.
  - contradiction.
Qed.
Lemma corep_get : corep get.
Proof. intros s. split; [discriminate|reflexivity]. Qed.

(* ---------- running code keeps BI ---------- *)
Definition P_fn {A} (m : M A) : Prop :=
  forall s, res_all (fun s' => flows s' = flows s /\ nested s' = nested s /\
                               marks (cx s') = marks (cx s)) (m s).

Ltac fn_prim :=
  let s := fresh "s" in
  intro s; destruct_state s;
  cbv [push_data pop_data top_data swap_data rot_data over_data push_return pop_return top_frame
       push_loop pop_loop loop_next loop_set_items push_special pop_special get_var set_var
       init_local set_ip next_ip print modify ret fail unsup panic
       add_rstep limit_reached data_depth ip set_ip_raw
       set_ds set_rs set_loops set_special set_heap set_cx set_rlog set_out set_stopping
       dict heap code dbg sources input ds rs flows loops special cx nested meter insn_limit
       heap_limit stack_limit rlog out last_tok stopping];
  break_matches;
  cbv [res_all]; try exact I; repeat split; reflexivity.

Lemma wl_fn : forall A (m : M A), wl m -> P_fn m.
Proof.
  induction 1; try (fn_prim; fail).
  - intro s. unfold bind. specialize (IHwl s).
    destruct (m s) as [a s1 | k p s1 | |]; cbn [res_all] in *; auto.
    specialize (H1 a s1). destruct IHwl as (A1 & A2 & A3).
    destruct (f a s1); cbn [res_all] in *; auto; destruct H1 as (B1 & B2 & B3);
      repeat split; congruence.
  - intro s. unfold bind, get. apply H0.
Qed.

Lemma BI_frame s s' :
  BI s -> code s' = code s -> dbg s' = dbg s -> dict s' = dict s -> flows s' = flows s ->
  nested s' = nested s -> marks (cx s') = marks (cx s) -> BI s'.
Proof.
  intros (Hcd & HF & HC & HS) E1 E2 E3 E4 E5 E6.
  unfold BI, BIf, cd_inv. rewrite E1, E2, E3, E4, E5.
  split; [exact Hcd|]. split; [exact HF|].
  inversion HC as [|? ? H0 HC']; subst. split.
  - constructor; [eapply CT_marks; eassumption|exact HC'].
  - apply chain_cons; [eapply chain_tail; exact HS|].
    intros c Hc. unfold marks in E6. injection E6 as -> _ _.
    apply (chain_head_max _ _ c HS). right. exact Hc.
Qed.

Lemma wl_BI : forall A (m : M A), wl m -> forall s, BI s -> res_all BI (m s).
Proof.
  intros A m Hw s Hs.
  pose proof (wl_lim A m Hw s) as H1. pose proof (wl_dbg A m Hw s) as H2.
  pose proof (wl_fn A m Hw s) as H3.
  destruct (m s); cbn [res_all] in *; auto;
    destruct H1 as (_ & _ & _ & _ & _ & Hc & Hd & _); destruct H3 as (F1 & F2 & F3);
    eapply BI_frame; eauto.
Qed.

Lemma BI_set_code s c' :
  BI s -> length c' = length (code s) -> FL c' (dict s) (flows s) -> BI (set_code s c').
Proof.
  intros (Hcd & HF & HC & HS) El HF'. split; [|split; [exact HF'|split; assumption]].
  unfold cd_inv in *. cbn [set_code code dbg]. lia.
Qed.

Lemma BI_patch_jump s q op : BI s -> is_jump op = true -> BI (set_code s (list_set (code s) q op)).
Proof.
  intros H J. apply BI_set_code; [exact H|apply list_set_length|].
  apply FL_patch_jump; [apply H|exact J].
Qed.

Lemma BI_patch_free s q op :
  BI s -> ~ In q (flat_map fjumps (flows s)) -> BI (set_code s (list_set (code s) q op)).
Proof.
  intros H J. apply BI_set_code; [exact H|apply list_set_length|].
  apply FL_patch_free; [apply H|exact J].
Qed.

Lemma BI_patch_nonjump s q old op :
  BI s -> nth_error (code s) q = Some old -> is_jump old = false ->
  BI (set_code s (list_set (code s) q op)).
Proof.
  intros H E J. apply BI_set_code; [exact H|apply list_set_length|].
  eapply FL_patch_nonjump; [apply H|exact E|exact J].
Qed.

Section Run.
  Variable fo : fops.

  Lemma far_BI : forall s, BI s -> res_all BI (fetch_and_run (native_fn fo) s).
  Proof.
    intros s Hs. pose proof (far_spec_holds (native_fn fo) s) as FS.
    assert (X : forall i o s1, BI s1 -> res_all BI (exec_op (native_fn fo) i o s1)).
    { intros i o s1 H1. apply wl_BI; [apply wl_exec_op; apply native_wl|exact H1]. }
    assert (M0 : forall z, BI (set_meter s z)) by (intros z; eapply BI_core; [|exact Hs]; reflexivity).
    inversion FS as [ | | op Hm Hn Hr Hx | name Hm Hn Hd Hx | name e Hm Hn Hd Hm2 Hx | name e Hm Hn Hd Hm2 Hx ];
      cbn [res_all]; try exact I; try exact Hs.
    - apply X. apply M0.
    - eapply BI_core with (s := set_code s (list_set (code s) (ip s) (resolve_op e))); [reflexivity|].
      eapply BI_patch_nonjump; [exact Hs|exact Hn|reflexivity].
    - apply X.
      eapply BI_core with (s := set_code s (list_set (code s) (ip s) (resolve_op e))); [reflexivity|].
      eapply BI_patch_nonjump; [exact Hs|exact Hn|reflexivity].
  Qed.

  Lemma run_BI : forall fuel s, BI s ->
    match run (native_fn fo) fuel s with Some r => res_all BI r | None => True end.
  Proof.
    induction fuel as [|f IH]; intros s Hs; cbn [run]; [exact I|].
    destruct (is_running s); [|exact Hs].
    pose proof (far_BI s Hs) as H.
    destruct (fetch_and_run (native_fn fo) s) as [u s1|k p s1| |]; cbn [res_all] in *;
      [apply IH; exact H|exact H|exact I|exact I].
  Qed.

  Lemma bip_run_m rf : bip (run_m fo rf).
  Proof.
    intros s Hs. unfold run_m, nf. pose proof (run_BI rf s Hs) as H.
    pose proof (run_no_panic fo rf s) as N.
    destruct (run (native_fn fo) rf s) as [r|]; [|apply good_unsup].
    split; [intros E; apply N; rewrite E; reflexivity|exact H].
  Qed.
End Run.

(* ---------- the primitives of the builder ---------- *)
Lemma cd_of_BI s : BI s -> cd_inv s.
Proof. intros H. apply H. Qed.

(* code_emit always succeeds under BI *)
Lemma code_emit_run op s : cd_inv s ->
  exists s1, code_emit op s = ROk tt s1 /\ code s1 = code s ++ [op] /\ dict s1 = dict s /\
             flows s1 = flows s /\ cx s1 = cx s /\ nested s1 = nested s /\ cd_inv s1.
Proof.
  intros H. pose proof (code_emit_cd op s H) as Hc. unfold cd_inv in H. unfold code_emit in *.
  cbv zeta in *.
  destruct (length (code s) <? length (dbg s))%nat eqn:E1.
  - eexists. split; [reflexivity|]. repeat split. exact Hc.
  - destruct (length (code s) =? length (dbg s))%nat eqn:E2.
    + eexists. split; [reflexivity|]. repeat split. exact Hc.
    + apply Nat.ltb_ge in E1. apply Nat.eqb_neq in E2. lia.
Qed.

Lemma BI_emit s s1 op :
  BI s -> code s1 = code s ++ [op] -> dict s1 = dict s -> flows s1 = flows s -> cx s1 = cx s ->
  nested s1 = nested s -> cd_inv s1 -> BI s1.
Proof.
  intros (_ & HF & HC & HS) E1 E2 E3 E4 E5 Hcd. unfold BI, BIf. rewrite E1, E2, E3, E4, E5.
  split; [exact Hcd|]. split; [apply FL_app_code; exact HF|split; assumption].
Qed.

Lemma bip_code_emit op : bip (code_emit op).
Proof.
  intros s Hs. destruct (code_emit_run op s (cd_of_BI s Hs)) as (s1 & E & E1 & E2 & E3 & E4 & E5 & Hcd).
  rewrite E. apply good_ok. eapply BI_emit; eassumption.
Qed.

(* entries that point at nothing *)
Lemma BI_push_plain s f : BI s -> fpos f = [] -> fdict f = [] -> BI (set_flows s (f :: flows s)).
Proof.
  intros HB E1 E2.
  destruct (flows_split s) as [S1 S2]; [apply (BI_marks_le s (cx s) HB); left; reflexivity|].
  apply (BI_pending s _ (f :: pending s)); [exact HB|apply HB|reflexivity|reflexivity| |].
  - cbn [set_flows flows]. rewrite S1 at 1. reflexivity.
  - cbn [set_flows flows code dict]. apply FL_push_plain; [apply HB|exact E1|exact E2].
Qed.

Lemma bip_push_flow_plain f : fpos f = [] -> fdict f = [] -> bip (push_flow f).
Proof. intros E1 E2 s Hs. unfold push_flow, modify. apply good_ok. apply BI_push_plain; assumption. Qed.

(* what is known about an entry taken off the stack *)
Definition facts (f : flow) (c : list opcode) (d : list dentry) (fl : list flow) : Prop :=
  (forall p, In p (fjumps f) -> jump_at c p) /\ (forall p, In p (fother f) -> p < length c) /\
  (forall i, In i (fdict f) -> dfun_at d i) /\
  (forall p, In p (fpos f) -> ~ In p (flat_map fpos fl)).

(* an entry above the mark goes away *)
Lemma BI_remove_pending s a f b :
  BI s -> pending s = a ++ f :: b ->
  BI (set_flows s (a ++ b ++ lastn (fs_len (cx s)) (flows s))) /\
  facts f (code s) (dict s) (a ++ b ++ lastn (fs_len (cx s)) (flows s)).
Proof.
  intros HB Ep.
  destruct (flows_split s) as [S1 S2]; [apply (BI_marks_le s (cx s) HB); left; reflexivity|].
  set (rest := lastn (fs_len (cx s)) (flows s)) in *.
  assert (HF : FL (code s) (dict s) (a ++ f :: (b ++ rest))).
  { destruct HB as (_ & HF & _). rewrite S1, Ep in HF. rewrite <- app_assoc in HF. exact HF. }
  destruct (FL_remove _ _ _ _ _ HF) as (HF' & F1 & F2 & F3 & F4).
  split; [|repeat split; assumption].
  apply (BI_pending s _ (a ++ b)); [exact HB|apply HB|reflexivity|reflexivity| |].
  - cbn [set_flows flows]. rewrite app_assoc. reflexivity.
  - cbn [set_flows flows code dict]. exact HF'.
Qed.

Lemma pop_flow_spec s : BI s ->
  (pop_flow s = ROk None s) \/
  (exists f fl, flows s = f :: fl /\ pop_flow s = ROk (Some f) (set_flows s fl) /\
                BI (set_flows s fl) /\ facts f (code s) (dict s) fl).
Proof.
  intros HB. unfold pop_flow. destruct (flows s) as [|f fl] eqn:E; [left; reflexivity|].
  destruct (fs_len (cx s) <? length (f :: fl))%nat eqn:El; [|left; reflexivity].
  right. exists f, fl. split; [reflexivity|]. split; [reflexivity|].
  apply Nat.ltb_lt in El.
  assert (Ep : pending s = [] ++ f :: firstn (length fl - fs_len (cx s)) fl).
  { unfold pending. rewrite E. cbn [length] in *.
    replace (S (length fl) - fs_len (cx s)) with (S (length fl - fs_len (cx s))) by lia.
    reflexivity. }
  destruct (BI_remove_pending s _ _ _ HB Ep) as [B F]. cbn [app] in B, F.
  assert (Efl : firstn (length fl - fs_len (cx s)) fl ++ lastn (fs_len (cx s)) (flows s) = fl).
  { rewrite E. unfold lastn. cbn [length] in *.
    replace (S (length fl) - fs_len (cx s)) with (S (length fl - fs_len (cx s))) by lia.
    cbn [skipn]. apply firstn_skipn. }
  rewrite Efl in B, F. split; assumption.
Qed.

Lemma take_cond_split : forall l f l', take_cond l = Some (f, l') ->
  exists a b, l = a ++ f :: b /\ l' = a ++ b.
Proof.
  induction l as [|x l IH]; intros f l' H; cbn [take_cond] in H; [discriminate|].
  destruct x; try discriminate;
    try (injection H as <- <-; exists [], l; split; reflexivity).
  destruct (take_cond l) as [[g r']|] eqn:E; [|discriminate]. injection H as <- <-.
  destruct (IH _ _ eq_refl) as (a & b & -> & ->).
  exists (FBreak o :: a), b. split; reflexivity.
Qed.

Lemma take_cond_kind : forall l f l', take_cond l = Some (f, l') ->
  match f with FIf _ | FElse _ | FCase | FCaseOf _ | FCaseEndOf _ => True | _ => False end.
Proof.
  induction l as [|x l IH]; intros f l' H; cbn [take_cond] in H; [discriminate|].
  destruct x; try discriminate; try (injection H as <- <-; exact I).
  destruct (take_cond l) as [[g r']|] eqn:E; [|discriminate]. injection H as <- <-.
  eapply IH. reflexivity.
Qed.

Lemma take_spec s : BI s ->
  (take_first_cond_flow s = ROk None s) \/
  (exists f fl, take_first_cond_flow s = ROk (Some f) (set_flows s fl) /\
                BI (set_flows s fl) /\ facts f (code s) (dict s) fl).
Proof.
  intros HB. unfold take_first_cond_flow. cbv zeta.
  destruct (take_cond (pending s)) as [[f act']|] eqn:E; [|left; reflexivity].
  right. destruct (take_cond_split _ _ _ E) as (a & b & Ea & ->).
  destruct (BI_remove_pending s _ _ _ HB Ea) as [B F].
  assert (Er : skipn (length (pending s)) (flows s) = lastn (fs_len (cx s)) (flows s)).
  { unfold lastn, pending. f_equal. rewrite firstn_length.
    pose proof (BI_marks_le s (cx s) HB (or_introl eq_refl)). lia. }
  rewrite Er. rewrite <- app_assoc. eexists _, _. split; [reflexivity|]. split; assumption.
Qed.

Lemma BI_pos_lt s p : BI s -> In p (flat_map fpos (flows s)) -> p < length (code s).
Proof. intros (_ & HF & _) Hp. eapply FL_pos_lt; eassumption. Qed.

Lemma jump_at_patch c p q op : jump_at c p -> is_jump op = true -> jump_at (list_set c q op) p.
Proof.
  intros H J. destruct (Nat.eq_dec p q) as [->|Hne].
  - exists op. split; [|exact J]. apply nth_error_list_set_eq. eapply jump_at_lt; exact H.
  - apply jump_at_set_other; assumption.
Qed.

Lemma jump_at_last c op : is_jump op = true -> jump_at (c ++ [op]) (length c).
Proof.
  intros J. exists op. split; [|exact J]. rewrite nth_error_app2 by lia.
  rewrite Nat.sub_diag. reflexivity.
Qed.

(* an entry pointing at the instruction just emitted / about to be emitted *)
Lemma FL_emit_push c d fl f op :
  FL c d fl -> NoDup (fpos f) -> (forall p, In p (fpos f) -> p = length c) ->
  (fjumps f <> [] -> is_jump op = true) -> (forall i, In i (fdict f) -> dfun_at d i) ->
  FL (c ++ [op]) d (f :: fl).
Proof.
  intros HF N P J D. apply FL_push; [apply FL_app_code; exact HF|exact N| | | |exact D].
  - intros p Hp C. rewrite (P p Hp) in C. pose proof (FL_pos_lt _ _ _ _ HF C). lia.
  - intros p Hp. rewrite (P p (proj2 (in_fpos_cases f p) (or_introl Hp))).
    apply jump_at_last. apply J. intros E. rewrite E in Hp. exact Hp.
  - intros p Hp. rewrite (P p (proj2 (in_fpos_cases f p) (or_intror Hp))).
    rewrite app_length. cbn [length]. lia.
Qed.

(* the general push: the state already contains what the entry points at *)
Lemma BI_push s f :
  BI s -> NoDup (fpos f) -> (forall p, In p (fpos f) -> ~ In p (flat_map fpos (flows s))) ->
  (forall p, In p (fjumps f) -> jump_at (code s) p) ->
  (forall p, In p (fother f) -> p < length (code s)) ->
  (forall i, In i (fdict f) -> dfun_at (dict s) i) ->
  BI (set_flows s (f :: flows s)).
Proof.
  intros HB N D J O F.
  destruct (flows_split s) as [S1 S2]; [apply (BI_marks_le s (cx s) HB); left; reflexivity|].
  apply (BI_pending s _ (f :: pending s)); [exact HB|apply HB|reflexivity|reflexivity| |].
  - cbn [set_flows flows]. rewrite S1 at 1. reflexivity.
  - cbn [set_flows flows code dict]. apply FL_push; try assumption. apply HB.
Qed.

Lemma backpatch_jump_run org offs s : jump_at (code s) org ->
  exists op', is_jump op' = true /\
    backpatch_jump org offs s = ROk tt (set_code s (list_set (code s) org op')).
Proof.
  intros H. pose proof (jump_at_lt _ _ H) as Hl. destruct H as (op & E & J).
  unfold backpatch_jump. rewrite E.
  destruct op; try discriminate J; unfold backpatch;
    (replace (org <? length (code s))%nat with true by (symmetry; apply Nat.ltb_lt; exact Hl));
    eexists; (split; [|reflexivity]); reflexivity.
Qed.

Lemma backpatch_run org op s : org < length (code s) ->
  backpatch org op s = ROk tt (set_code s (list_set (code s) org op)).
Proof.
  intros H. unfold backpatch.
  replace (org <? length (code s))%nat with true by (symmetry; apply Nat.ltb_lt; exact H). reflexivity.
Qed.

(* ---------- stepping through a word ---------- *)
Ltac bget := unfold bind at 1; unfold get at 1; cbv beta iota.
Ltac brun E := unfold bind at 1; rewrite E; cbv beta iota.

Lemma push_flow_eq f s : push_flow f s = ROk tt (set_flows s (f :: flows s)).
Proof. reflexivity. Qed.

Lemma dict_insert_eq name e s :
  dict_insert name e s = ROk (length (dict s)) (set_dict s (dict s ++ [mkdent name e])).
Proof. reflexivity. Qed.

(* the final state of "push an entry and emit the instruction it points at" (either order) *)
Lemma BI_push_emit_fields s s2 f op :
  BI s -> code s2 = code s ++ [op] -> dict s2 = dict s -> flows s2 = f :: flows s ->
  cx s2 = cx s -> nested s2 = nested s -> cd_inv s2 ->
  NoDup (fpos f) -> (forall p, In p (fpos f) -> p = length (code s)) ->
  (fjumps f <> [] -> is_jump op = true) -> (forall i, In i (fdict f) -> dfun_at (dict s) i) ->
  BI s2.
Proof.
  intros HB E1 E2 E3 E4 E5 Hcd N P J D.
  destruct (flows_split s) as [S1 S2]; [apply (BI_marks_le s (cx s) HB); left; reflexivity|].
  apply (BI_pending s _ (f :: pending s)); try assumption.
  - rewrite E3. rewrite S1 at 1. reflexivity.
  - rewrite E1, E2, E3. apply FL_emit_push; try assumption. apply HB.
Qed.

Lemma good_push_emit s f op :
  BI s -> NoDup (fpos f) -> (forall p, In p (fpos f) -> p = length (code s)) ->
  (fjumps f <> [] -> is_jump op = true) -> (forall i, In i (fdict f) -> dfun_at (dict s) i) ->
  good ((push_flow f ;; code_emit op) s).
Proof.
  intros HB N P J D. brun push_flow_eq.
  destruct (code_emit_run op (set_flows s (f :: flows s)) (cd_of_BI s HB))
    as (s1 & E & E1 & E2 & E3 & E4 & E5 & Hcd).
  rewrite E. apply good_ok.
  apply (BI_push_emit_fields s s1 f op); [exact HB|exact E1|exact E2|exact E3|exact E4|exact E5|
                                          exact Hcd|exact N|exact P|exact J|exact D].
Qed.

Lemma good_emit_push s f op :
  BI s -> NoDup (fpos f) -> (forall p, In p (fpos f) -> p = length (code s)) ->
  (fjumps f <> [] -> is_jump op = true) -> (forall i, In i (fdict f) -> dfun_at (dict s) i) ->
  good ((code_emit op ;; push_flow f) s).
Proof.
  intros HB N P J D.
  destruct (code_emit_run op s (cd_of_BI s HB)) as (s1 & E & E1 & E2 & E3 & E4 & E5 & Hcd).
  brun E. rewrite push_flow_eq. apply good_ok.
  eapply (BI_push_emit_fields s _ f op); try eassumption; cbn [set_flows code dict flows cx nested];
    try assumption.
  rewrite E3. reflexivity.
Qed.

(* backpatching a jump at a position known to hold one *)
Lemma backpatch_jump_good org offs s : BI s -> jump_at (code s) org ->
  exists s1, backpatch_jump org offs s = ROk tt s1 /\ BI s1 /\
    flows s1 = flows s /\ dict s1 = dict s /\ cx s1 = cx s /\ nested s1 = nested s /\
    length (code s1) = length (code s) /\ (forall p, jump_at (code s) p -> jump_at (code s1) p).
Proof.
  intros HB HJ. destruct (backpatch_jump_run org offs s HJ) as (op' & J & E).
  eexists. split; [exact E|]. split; [apply BI_patch_jump; assumption|].
  cbn [set_code flows dict cx nested code]. repeat split.
  - apply list_set_length.
  - intros p Hp. apply jump_at_patch; assumption.
Qed.

Lemma BI_set_dict s d' :
  BI s -> (forall i, dfun_at (dict s) i -> dfun_at d' i) -> BI (set_dict s d').
Proof.
  intros (Hcd & HF & HC & HS) Hd. split; [exact Hcd|]. split; [|split; assumption].
  cbn [set_dict code dict flows]. eapply FL_dict_same; [exact HF|]. intros i _. apply Hd.
Qed.

Lemma bip_dict_insert name e : bip (dict_insert name e).
Proof.
  intros s HB. rewrite dict_insert_eq. apply good_ok. apply BI_set_dict; [exact HB|].
  intros i. apply dfun_at_app.
Qed.

Lemma bip_pop_flow : bip pop_flow.
Proof.
  intros s HB. destruct (pop_flow_spec s HB) as [E|(f & fl & _ & E & B & _)]; rewrite E;
    apply good_ok; assumption.
Qed.

Lemma bip_take : bip take_first_cond_flow.
Proof.
  intros s HB. destruct (take_spec s HB) as [E|(f & fl & E & B & _)]; rewrite E;
    apply good_ok; assumption.
Qed.

(* contexts *)
Lemma bip_context_open m : bip (context_open m).
Proof.
  intros s HB. unfold context_open. cbv zeta. apply good_ok.
  pose proof HB as (Hcd & HF & HC & HS).
  split; [exact Hcd|]. cbn [set_nested set_cx code dict flows cx nested].
  split; [exact HF|]. split.
  - constructor; [|exact HC]. split; [cbn [fs_len]; lia|]. cbn [fs_len cs_len di_len].
    intros f Hf. rewrite lastn_all in Hf by lia. split.
    + intros p Hp. unfold code_origin. eapply FL_pos_lt; [exact HF|].
      apply in_flat_map. exists f. split; assumption.
    + intros i Hi. destruct HF as (_ & _ & _ & H4).
      destruct (H4 i) as (e & E & _); [apply in_flat_map; exists f; split; assumption|].
      apply nth_error_Some. rewrite E. discriminate.
  - apply chain_cons; [exact HS|]. intros c Hc. cbn [fs_len].
    destruct (BI_marks_le s c HB Hc). lia.
Qed.

(* ---------- steps that keep the core ---------- *)
Lemma corep_pop_data : corep pop_data.
Proof.
  intros s. unfold pop_data. destruct (ds s); [split; [discriminate|reflexivity]|].
  destruct (_ <? _)%nat; (split; [discriminate|]); cbn [res_all]; [|reflexivity].
  unfold add_rstep. cbn [rlog set_ds]. destruct (rlog s); reflexivity.
Qed.

Lemma corep_pop_n : forall n, corep (pop_n n).
Proof.
  induction n; cbn [pop_n]; [apply corep_ret|].
  apply corep_bind; [apply corep_pop_data|intros _; exact IHn].
Qed.

Lemma corep_vec_collect p : corep (vec_collect_till_ptr p).
Proof.
  unfold vec_collect_till_ptr. apply corep_bind; [apply corep_get|]. intros s0. cbv zeta.
  destruct (_ <? _)%nat; [apply corep_fail|].
  apply corep_bind; [apply corep_pop_n|intros _; apply corep_ret].
Qed.

Lemma corep_join_str_vec sep v : corep (join_str_vec sep v).
Proof. unfold join_str_vec. destruct (join_cells 40 sep v); [apply corep_ret|apply corep_unsup]. Qed.

Lemma corep_alloc_heap v : corep (alloc_heap v).
Proof.
  intros s. unfold alloc_heap. destruct (mode_eqb _ _); [split; [discriminate|reflexivity]|].
  destruct (limit_reached _ _); (split; [discriminate|reflexivity]).
Qed.

Lemma corep_intern_source buf : corep (intern_source buf).
Proof. intros s. split; [discriminate|reflexivity]. Qed.

Section Tokens.
  Variable pr : string -> option Z.

  Lemma corep_next_token : forall fuel, corep (next_token pr fuel).
  Proof.
    induction fuel as [|f IH]; intros s; cbn [next_token]; [split; [discriminate|exact I]|].
    destruct (input s) as [|il rest]; [split; [discriminate|reflexivity]|]. cbv zeta.
    destruct (lex_next_nonws _ _) as [t l'].
    destruct t; try (split; [discriminate|try reflexivity; exact I]).
    - destruct (IH (set_input (set_last_tok (set_input s (mkinlex (in_src il) l' :: rest))
                                            (Some (in_src il, lstart l', lpos l'))) rest)) as [H1 H2].
      split; [exact H1|]. destruct (next_token pr f _); cbn [res_all] in *; auto.
    - destruct (pr text); (split; [discriminate|reflexivity]).
  Qed.

  Lemma corep_get_token : corep (get_token pr).
  Proof. intros s. unfold get_token. apply corep_next_token. Qed.

  Lemma corep_next_name : corep (next_name pr).
  Proof.
    intros s. unfold next_name. cbv zeta. destruct (corep_get_token s) as [H1 H2].
    destruct (get_token pr s) as [t s1|k p s1| |]; cbn [res_all] in *;
      try (split; [discriminate|auto]); try contradiction.
    - destruct t; (split; [discriminate|]); cbn [res_all]; try exact H2;
        destruct (last_tok s); exact H2.
  Qed.
End Tokens.

(* ---------- what running code leaves alone ---------- *)
Definition fr (s s' : state) : Prop :=
  flows s' = flows s /\ nested s' = nested s /\ marks (cx s') = marks (cx s) /\
  dict s' = dict s /\ length (code s') = length (code s).

Lemma fr_refl s : fr s s.
Proof. repeat split. Qed.
Lemma fr_trans a b c : fr a b -> fr b c -> fr a c.
Proof. unfold fr. intros (A1 & A2 & A3 & A4 & A5) (B1 & B2 & B3 & B4 & B5). repeat split; congruence. Qed.

Lemma wl_fr : forall A (m : M A), wl m -> forall s, res_all (fr s) (m s).
Proof.
  intros A m Hw s. pose proof (wl_lim A m Hw s) as H1. pose proof (wl_fn A m Hw s) as H3.
  destruct (m s); cbn [res_all] in *; auto;
    destruct H1 as (_ & _ & _ & _ & _ & Hc & Hd & _); destruct H3 as (F1 & F2 & F3);
    repeat split; congruence.
Qed.

Section Run2.
  Variable fo : fops.

  Lemma far_fr : forall s, res_all (fr s) (fetch_and_run (native_fn fo) s).
  Proof.
    intros s. pose proof (far_spec_holds (native_fn fo) s) as FS.
    assert (X : forall i o s1, fr s s1 -> res_all (fr s) (exec_op (native_fn fo) i o s1)).
    { intros i o s1 H1. pose proof (wl_fr _ _ (wl_exec_op _ (native_wl fo) i o) s1) as H.
      destruct (exec_op (native_fn fo) i o s1); cbn [res_all] in *; auto; eapply fr_trans; eauto. }
    inversion FS; cbn [res_all]; try exact I; try apply fr_refl; try (repeat split; fail).
    - apply X. repeat split.
    - repeat split. cbn [set_code set_meter code]. apply list_set_length.
    - apply X. repeat split. cbn [set_code set_meter code]. apply list_set_length.
  Qed.

  Lemma run_fr : forall fuel s,
    match run (native_fn fo) fuel s with Some r => res_all (fr s) r | None => True end.
  Proof.
    induction fuel as [|f IH]; intros s; cbn [run]; [exact I|].
    destruct (is_running s); [|apply fr_refl].
    pose proof (far_fr s) as H.
    destruct (fetch_and_run (native_fn fo) s) as [u s1|k p s1| |]; cbn [res_all] in *; auto.
    specialize (IH s1). destruct (run (native_fn fo) f s1) as [r|]; [|exact I].
    destruct r; cbn [res_all] in *; auto; eapply fr_trans; eauto.
  Qed.

  Lemma run_m_fr rf s : res_all (fr s) (run_m fo rf s).
  Proof.
    unfold run_m, nf. pose proof (run_fr rf s) as H.
    destruct (run (native_fn fo) rf s); [exact H|exact I].
  Qed.
End Run2.

(* ---------- purge_dict keeps the entries below its start ---------- *)
Lemma swap_remove_last_spec : forall l lst l',
  swap_remove_last l = Some (lst, l') -> l = l' ++ [lst].
Proof.
  induction l as [|x l IH]; intros lst l' H; cbn [swap_remove_last] in H; [discriminate|].
  destruct l as [|y l].
  - injection H as <- <-. reflexivity.
  - destruct (swap_remove_last (y :: l)) as [[z r]|] eqn:E; [|discriminate].
    injection H as <- <-. rewrite (IH _ _ eq_refl). reflexivity.
Qed.

Lemma purge_dict_below : forall fuel d i j, j < i ->
  nth_error (purge_dict fuel d i) j = nth_error d j.
Proof.
  induction fuel as [|f IH]; intros d i j Hj; cbn [purge_dict]; [reflexivity|].
  destruct (nth_error d i) as [e|] eqn:Ei; [|reflexivity].
  destruct (dent e); [apply IH; lia| |];
    (destruct (swap_remove_last d) as [[lst d']|] eqn:Es; [|reflexivity];
     apply swap_remove_last_spec in Es;
     assert (Hl : i < length d) by (apply nth_error_Some; rewrite Ei; discriminate);
     rewrite Es, app_length in Hl; cbn [length] in Hl;
     assert (E0 : nth_error d j = nth_error d' j) by (rewrite Es; apply nth_error_app1; lia);
     destruct (i =? length d')%nat;
     [rewrite IH by lia; symmetry; exact E0
     |rewrite IH by lia; rewrite nth_error_list_set_neq by lia; symmetry; exact E0]).
Qed.

(* ---------- leaving a context ---------- *)
Lemma chain_drop2 a b r : chain (a :: b :: r) -> chain (a :: r).
Proof.
  intros H. apply chain_cons; [eapply chain_tail, chain_tail; exact H|].
  intros c Hc. apply (chain_head_max _ _ c H). right. right. exact Hc.
Qed.

Lemma BI_set_nested_tail s prev rest :
  BI s -> nested s = prev :: rest -> BI (set_nested s rest).
Proof.
  intros (Hcd & HF & HC & HS) E. rewrite E in HC, HS.
  split; [exact Hcd|]. cbn [set_nested code dict flows cx nested]. split; [exact HF|]. split.
  - inversion HC as [|? ? H0 HC']; subst. inversion HC' as [|? ? H1 HC'']; subst.
    constructor; assumption.
  - eapply chain_drop2; exact HS.
Qed.

(* the popped context is put back after a run that failed (the run keeps flows, nesting and marks) *)
Lemma BI_put_back s s1 prev rest :
  BI s -> nested s = prev :: rest -> BI s1 -> flows s1 = flows s -> nested s1 = rest ->
  marks (cx s1) = marks (cx s) -> BI (set_nested s1 (prev :: nested s1)).
Proof.
  intros (_ & _ & HC & HS) E (Hcd1 & HF1 & HC1 & HS1) Ef En Em. rewrite E in HC, HS.
  split; [exact Hcd1|]. cbn [set_nested code dict flows cx nested]. split; [exact HF1|].
  rewrite En in *. inversion HC as [|? ? H0 HC']; subst. inversion HC' as [|? ? H1 HC'']; subst.
  inversion HC1 as [|? ? G0 G1]; subst. split.
  - constructor; [exact G0|]. constructor; [rewrite Ef; exact H1|exact G1].
  - apply chain_cons; [eapply chain_tail; exact HS|].
    intros c Hc. unfold marks in Em. injection Em as Em _ _. rewrite Em.
    apply (chain_head_max _ _ c HS). right. exact Hc.
Qed.

(* the state [s4] keeps the flow stack of [s], whose enclosing contexts were prev :: rest *)
Lemma BI_leave s s4 prev prev' rest :
  BI s -> nested s = prev :: rest -> BI s4 -> flows s4 = flows s -> nested s4 = rest ->
  marks prev' = marks prev -> BI (set_cx s4 prev').
Proof.
  intros (_ & _ & HC & HS) E (Hcd & HF & HC4 & HS4) Ef En Em. rewrite E in HC, HS.
  split; [exact Hcd|]. cbn [set_cx code dict flows cx nested]. split; [exact HF|].
  rewrite Ef, En. inversion HC as [|? ? H0 HC']; subst. inversion HC' as [|? ? H1 HC'']; subst.
  split.
  - constructor; [eapply CT_marks; eassumption|exact HC''].
  - apply chain_cons; [eapply chain_tail, chain_tail; exact HS|].
    intros c Hc. unfold marks in Em. injection Em as -> _ _.
    apply (chain_head_max _ _ c (chain_tail _ _ HS)). right. exact Hc.
Qed.

Lemma no_pending_all s : BI s -> has_pending_flow s = false ->
  forall f, In f (flows s) ->
    (forall p, In p (fpos f) -> p < cs_len (cx s)) /\ (forall i, In i (fdict f) -> i < di_len (cx s)).
Proof.
  intros (_ & _ & HC & _) Hp f Hf. inversion HC as [|? ? [H0 H1] _]; subst.
  unfold has_pending_flow in Hp. apply Nat.ltb_ge in Hp.
  apply H1. rewrite lastn_all by lia. exact Hf.
Qed.

Section Close2.
  Variable fo : fops.
  Variable rf : nat.

  Lemma emit_results_good : forall fuel s, BI s ->
    emit_results fuel s <> RPanic /\
    res_all (fun s' => BI s' /\ flows s' = flows s /\ nested s' = nested s) (emit_results fuel s).
  Proof.
    induction fuel as [|f IH]; intros s HB; cbn [emit_results];
      [split; [discriminate|split; [exact HB|split; reflexivity]]|].
    destruct (ds_len (cx s) <? length (ds s))%nat;
      [|split; [discriminate|split; [exact HB|split; reflexivity]]].
    destruct (corep_pop_data s) as [N1 C1].
    destruct (pop_data s) as [v s1|k p s1| |]; cbn [res_all] in *; try contradiction.
    - assert (B1 : BI s1) by (eapply BI_core; eassumption).
      unfold core in C1. injection C1 as C1 C2 C3 C4 C5 C6.
      unfold code_emit_value.
      destruct (code_emit_run (load_value_opcode v) s1 (cd_of_BI s1 B1))
        as (s2 & E & E1 & E2 & E3 & E4 & E5 & Hcd).
      rewrite E.
      assert (B2 : BI s2) by (eapply BI_emit; eassumption).
      destruct (IH s2 B2) as [N2 R2]. split; [exact N2|].
      destruct (emit_results f s2); cbn [res_all] in *; auto;
        destruct R2 as (R & R' & R''); (split; [exact R|split; congruence]).
    - split; [discriminate|]. split; [eapply BI_core; eassumption|].
      unfold core in C1. injection C1 as C1 C2 C3 C4 C5 C6. split; assumption.
    - split; [discriminate|exact I].
  Qed.

  Lemma context_close_good s :
    BI s -> (cmode (cx s) = MMeta -> has_pending_flow s = false) -> good (context_close fo rf s).
  Proof.
    intros HB Hp. unfold context_close.
    destruct (nested s) as [|prev rest] eqn:En; [apply good_err; exact HB|]. cbv zeta.
    pose proof (BI_set_nested_tail s prev rest HB En) as B0.
    set (s0 := set_nested s rest) in *.
    change (cx s0) with (cx s).
    destruct (cmode (cx s)) eqn:Em.
    - (* MCompile *)
      apply good_ok. eapply (BI_leave s s0 prev prev rest); try eassumption; reflexivity.
    - (* MEval *)
      destruct (bip_run_m fo rf s0 B0) as [N R]. pose proof (run_m_fr fo rf s0) as F.
      assert (Fin : forall s1, BI s1 -> fr s0 s1 ->
                BI (set_cx s1 (if mode_eqb (cmode prev) MEval then set_ctx_ip prev (ip s1) else prev))).
      { intros s1 B1 (F1 & F2 & _). eapply (BI_leave s s1 prev _ rest); try eassumption.
        destruct (mode_eqb (cmode prev) MEval); reflexivity. }
      destruct (run_m fo rf s0) as [u s1|k p s1| |]; cbn [res_all] in *.
      + apply good_ok. apply Fin; assumption.
      + apply good_err. apply Fin; assumption.
      + contradiction.
      + apply good_unsup.
    - (* MMeta *)
      specialize (Hp eq_refl).
      destruct (bip_run_m fo rf s0 B0) as [N R]. pose proof (run_m_fr fo rf s0) as F.
      destruct (run_m fo rf s0) as [u s1|k p s1| |]; cbn [res_all] in *;
        [|apply good_err; destruct F as (F1 & F2 & F3 & _);
          apply (BI_put_back s s1 prev rest HB En R F1 F2 F3)|contradiction|apply good_unsup].
      destruct F as (F1 & F2 & F3 & F4 & F5).
      assert (Hp1 : has_pending_flow s1 = false).
      { unfold has_pending_flow in *. rewrite F1. unfold marks in F3. injection F3 as -> _ _. exact Hp. }
      pose proof (no_pending_all s1 R Hp1) as All.
      set (s2 := set_dbg (set_code s1 (firstn (cs_len (cx s1)) (code s1)))
                         (firstn (cs_len (cx s1)) (dbg s1))).
      assert (B2 : BI s2).
      { pose proof R as (Hcd & HF & HC & HS). split; [apply trunc_cd; exact Hcd|].
        split; [|split; assumption]. cbn [set_dbg set_code code dict flows].
        apply FL_firstn_code; [exact HF|]. intros p Hp2. apply in_flat_map in Hp2.
        destruct Hp2 as (f & Hf & Hpf). apply (proj1 (All f Hf)). exact Hpf. }
      set (s3 := set_dict s2 (purge_dict (S (length (dict s2))) (dict s2) (di_len (cx s1)))).
      assert (B3 : BI s3).
      { pose proof B2 as (Hcd & HF & HC & HS). split; [exact Hcd|]. split; [|split; assumption].
        unfold s3. cbn [set_dict code dict flows]. eapply FL_dict_same; [exact HF|].
        intros i Hi (e & E & J). exists e. split; [|exact J].
        rewrite purge_dict_below; [exact E|].
        apply in_flat_map in Hi. destruct Hi as (f & Hf & Hif). apply (proj2 (All f Hf)). exact Hif. }
      assert (Fl3 : flows s3 = flows s /\ nested s3 = rest) by (split; assumption).
      destruct Fl3 as [Fl3 Ne3].
      match goal with |- context [if ?b then _ else _] => destruct b end.
      + destruct (emit_results_good (S (length (ds s3))) s3 B3) as [N4 R4].
        destruct (emit_results (S (length (ds s3))) s3) as [u4 s4|k4 p4 s4| |]; cbn [res_all] in *.
        * apply good_ok. destruct R4 as (B4 & G1 & G2).
          eapply (BI_leave s s4 prev prev rest); try eassumption; try reflexivity; congruence.
        * apply good_err. apply R4.
        * contradiction.
        * apply good_unsup.
      + apply good_ok. eapply (BI_leave s s3 prev prev rest); try eassumption; reflexivity.
  Qed.
End Close2.

(* ---------- unwinding a failed build ---------- *)
Lemma BI_pop_ctx s prev rest :
  BI s -> nested s = prev :: rest -> BI (set_cx (set_nested s rest) prev).
Proof.
  intros (Hcd & HF & HC & HS) E. rewrite E in HC, HS.
  split; [exact Hcd|]. cbn [set_cx set_nested code dict flows cx nested]. split; [exact HF|].
  inversion HC as [|? ? H0 HC']; subst. split; [exact HC'|eapply chain_tail; exact HS].
Qed.

Lemma leave_contexts_BI : forall fuel depth s, BI s -> BI (leave_contexts fuel depth s).
Proof.
  induction fuel as [|f IH]; intros depth s HB; cbn [leave_contexts]; [exact HB|].
  destruct (S depth <? length (nested s))%nat; [|exact HB].
  destruct (nested s) as [|prev rest] eqn:E; [exact HB|].
  apply IH. apply BI_pop_ctx; assumption.
Qed.

Definition unwind_core (s : state) : state :=
  let c := cx s in
  set_dict (set_flows (set_dbg (set_code s (firstn (cs_len c) (code s))) (firstn (cs_len c) (dbg s)))
                      (lastn (fs_len c) (flows s)))
           (firstn (di_len c) (dict s)).

Lemma BI_unwind_core s : BI s -> BI (unwind_core s).
Proof.
  intros HB. pose proof HB as (Hcd & HF & HC & HS).
  inversion HC as [|? ? [L0 P0] HC']; subst.
  set (c := cx s) in *. set (fl' := lastn (fs_len c) (flows s)).
  assert (Lfl : length fl' = fs_len c) by (unfold fl'; rewrite lastn_length; lia).
  split; [|split; [|split]].
  - unfold unwind_core, cd_inv in *. cbn [set_dict set_flows set_dbg set_code code dbg].
    rewrite !firstn_length. lia.
  - unfold unwind_core. cbn [set_dict set_flows set_dbg set_code code dict flows]. fold c. fold fl'.
    assert (HF1 : FL (code s) (dict s) fl').
    { rewrite (lastn_split (fs_len c) (flows s)) in HF. eapply FL_tail. exact HF. }
    assert (Pos : forall f, In f fl' -> (forall p, In p (fpos f) -> p < cs_len c) /\
                                        (forall i, In i (fdict f) -> i < di_len c)) by exact P0.
    eapply FL_dict_same; [apply FL_firstn_code; [exact HF1|]|].
    + intros p Hp. apply in_flat_map in Hp. destruct Hp as (f & Hf & Hpf). exact (proj1 (Pos f Hf) p Hpf).
    + intros i Hi (e & E & J). exists e. split; [|exact J].
      rewrite nth_error_firstn_lt; [exact E|].
      apply in_flat_map in Hi. destruct Hi as (f & Hf & Hif). exact (proj2 (Pos f Hf) i Hif).
  - unfold unwind_core. cbn [set_dict set_flows set_dbg set_code flows cx nested]. fold c. fold fl'.
    constructor.
    + split; [lia|]. rewrite lastn_all by lia. exact P0.
    + rewrite Forall_forall in *. intros c' Hc'. destruct (HC' c' Hc') as [L1 P1].
      assert (fs_len c' <= fs_len c) by (apply (chain_head_max _ _ c' HS); right; exact Hc').
      split; [lia|]. unfold fl'. rewrite lastn_lastn by assumption. exact P1.
  - exact HS.
Qed.

Lemma build_unwind_BI depth inputs dsl heapl s : BI s -> BI (build_unwind depth inputs dsl heapl s).
Proof.
  intros HB. unfold build_unwind. cbv zeta.
  set (s0 := set_input s _).
  assert (B0 : BI s0) by (eapply BI_core; [|exact HB]; reflexivity).
  set (s1 := leave_contexts _ depth s0).
  assert (B1 : BI s1) by (apply leave_contexts_BI; exact B0).
  pose proof (BI_unwind_core s1 B1) as B3.
  match goal with
  | |- BI (match nested ?s5 with _ => _ end) =>
    assert (B5 : BI s5) by (eapply BI_core; [|exact B3]; reflexivity); set (t5 := s5) in *
  end.
  destruct (nested t5) as [|prev rest] eqn:E; [exact B5|].
  destruct (depth <? length (prev :: rest))%nat; [|exact B5].
  apply BI_pop_ctx; assumption.
Qed.

(* ---------- more stepping lemmas ---------- *)
Lemma emit_run_BI op s : BI s ->
  exists s1, code_emit op s = ROk tt s1 /\ BI s1 /\ code s1 = code s ++ [op] /\
             dict s1 = dict s /\ flows s1 = flows s /\ cx s1 = cx s /\ nested s1 = nested s.
Proof.
  intros HB. destruct (code_emit_run op s (cd_of_BI s HB)) as (s1 & E & E1 & E2 & E3 & E4 & E5 & Hcd).
  exists s1. split; [exact E|]. split; [eapply BI_emit; eassumption|]. repeat split; assumption.
Qed.

Lemma push_emit_run s f op :
  BI s -> NoDup (fpos f) -> (forall p, In p (fpos f) -> p = length (code s)) ->
  (fjumps f <> [] -> is_jump op = true) -> (forall i, In i (fdict f) -> dfun_at (dict s) i) ->
  exists s2, code_emit op (set_flows s (f :: flows s)) = ROk tt s2 /\ BI s2 /\
             code s2 = code s ++ [op] /\ dict s2 = dict s /\ flows s2 = f :: flows s /\
             cx s2 = cx s /\ nested s2 = nested s.
Proof.
  intros HB N P J D.
  destruct (code_emit_run op (set_flows s (f :: flows s)) (cd_of_BI s HB))
    as (s1 & E & E1 & E2 & E3 & E4 & E5 & Hcd).
  exists s1. split; [exact E|]. split; [|repeat split; assumption].
  apply (BI_push_emit_fields s s1 f op); assumption.
Qed.

Lemma good_bind_corep {A B} (m : M A) (f : A -> M B) s :
  corep m -> BI s -> (forall a s1, core s1 = core s -> BI s1 -> good (f a s1)) -> good (bind m f s).
Proof.
  intros Hm HB Hf. destruct (Hm s) as [N C]. apply good_bind.
  - apply (corep_bip m Hm). exact HB.
  - intros a s1 E B1. apply Hf; [|exact B1]. rewrite E in C. exact C.
Qed.

Lemma core_fields s s' : core s' = core s ->
  code s' = code s /\ dict s' = dict s /\ flows s' = flows s /\ cx s' = cx s /\ nested s' = nested s.
Proof. unfold core. intros E. injection E as E1 E2 E3 E4 E5 E6. repeat split; assumption. Qed.

Lemma bip_wl_np {A} (m : M A) : wl m -> np m -> bip m.
Proof. intros Hw Hn s HB. split; [apply Hn|apply wl_BI; assumption]. Qed.

Lemma bip_get_bind' {B} (k : state -> M B) : (forall s0, BI s0 -> bip (k s0)) -> bip (bind get k).
Proof. intros H. apply bip_get_bind. intros s Hs. apply H; exact Hs. Qed.

Lemma bip_put s' : BI s' -> bip (put s').
Proof. intros H s _. apply good_ok. exact H. Qed.

Lemma facts_jump_notin f c d fl p :
  facts f c d fl -> In p (fpos f) -> ~ In p (flat_map fjumps fl).
Proof.
  intros (_ & _ & _ & FN) Hp C. apply (FN p Hp). apply in_flat_fpos. left. exact C.
Qed.

Lemma good_bpj org offs s : BI s -> jump_at (code s) org -> good (backpatch_jump org offs s).
Proof.
  intros HB J. destruct (backpatch_jump_good org offs s HB J) as (s1 & E & B & _).
  rewrite E. apply good_ok. exact B.
Qed.

Lemma good_bind_bpj {B} org offs (f : unit -> M B) s :
  BI s -> jump_at (code s) org ->
  (forall s1, BI s1 -> flows s1 = flows s -> dict s1 = dict s -> cx s1 = cx s -> nested s1 = nested s ->
              length (code s1) = length (code s) ->
              (forall p, jump_at (code s) p -> jump_at (code s1) p) -> good (f tt s1)) ->
  good (bind (backpatch_jump org offs) f s).
Proof.
  intros HB J Hf. destruct (backpatch_jump_good org offs s HB J) as (s1 & E & B1 & F1 & D1 & X1 & N1 & L1 & JP).
  unfold bind. rewrite E. apply Hf; assumption.
Qed.

(* ---------- the stepwise tactic ---------- *)
Ltac bip_prim :=
  lazymatch goal with
  | |- bip (ret _) => apply bip_ret
  | |- bip (fail _ _) => apply bip_fail
  | |- bip unsup => apply bip_unsup
  | |- bip (code_emit _) => apply bip_code_emit
  | |- bip pop_flow => apply bip_pop_flow
  | |- bip take_first_cond_flow => apply bip_take
  | |- bip (dict_insert _ _) => apply bip_dict_insert
  | |- bip (context_open _) => apply bip_context_open
  | |- bip (intern_source _) => apply corep_bip, corep_intern_source
  | |- bip (alloc_heap _) => apply corep_bip, corep_alloc_heap
  | |- bip (get_token _) => apply corep_bip, corep_get_token
  | |- bip (next_name _) => apply corep_bip, corep_next_name
  | |- bip pop_data => apply corep_bip, corep_pop_data
  | |- bip (vec_collect_till_ptr _) => apply corep_bip, corep_vec_collect
  | |- bip (join_str_vec _ _) => apply corep_bip, corep_join_str_vec
  | |- bip (run_m _ _) => apply bip_run_m
  | |- bip (push_return _) => apply bip_wl_np; [apply wl_push_return|apply np_push_return]
  | |- bip (set_ip _) => apply bip_wl_np; [apply wl_set_ip|apply np_set_ip]
  | |- bip (push_flow _) => apply bip_push_flow_plain; reflexivity
  end.

Create HintDb bipdb.

Ltac bip_step :=
  cbv beta zeta;
  first
    [ bip_prim
    | solve [ auto 2 with bipdb nocore ]
    | lazymatch goal with
      | |- bip (bind get _) => apply bip_get_bind'; intros ? ?
      | |- bip (bind _ _) => apply bip_bind; [ | intro ]
      | |- bip (match ?x with _ => _ end) => destruct x eqn:?
      | |- bip (put _) => apply bip_put
      | |- bip ?m => let h := head_of m in unfold h
      end ].

Ltac bip_solve := repeat bip_step.

(* ---------- the immediate words ---------- *)
Lemma single_nodup (p : nat) : NoDup [p].
Proof. constructor; [intros []|constructor]. Qed.

Lemma bip_i_if : bip i_if.
Proof.
  intros s HB. unfold i_if. bget. unfold code_origin.
  apply good_push_emit; [exact HB|apply single_nodup| |reflexivity|intros i []].
  intros p [<-|[]]. reflexivity.
Qed.

Lemma bip_i_of : bip i_of.
Proof.
  intros s HB. unfold i_of. bget. unfold code_origin.
  apply good_push_emit; [exact HB|apply single_nodup| |reflexivity|intros i []].
  intros p [<-|[]]. reflexivity.
Qed.

Lemma bip_i_while : bip i_while.
Proof.
  intros s HB. unfold i_while. bget. unfold code_origin.
  apply good_emit_push; [exact HB|apply single_nodup| |reflexivity|intros i []].
  intros p [<-|[]]. reflexivity.
Qed.

Lemma bip_i_do : bip i_do.
Proof.
  intros s HB. unfold i_do. bget. unfold code_origin.
  apply good_emit_push; [exact HB|apply single_nodup| |intros C; exfalso; apply C; reflexivity|intros i []].
  intros p [<-|[]]. reflexivity.
Qed.

Lemma bip_i_break : bip i_break.
Proof.
  intros s HB. unfold i_break. bget.
  destruct (negb _); [apply good_err; exact HB|]. unfold code_origin.
  apply good_emit_push; [exact HB|apply single_nodup| |reflexivity|intros i []].
  intros p [<-|[]]. reflexivity.
Qed.

Lemma bip_i_else : bip i_else.
Proof.
  intros s HB. unfold i_else.
  destruct (take_spec s HB) as [E|(f & fl & E & B & (FJ & FO & FD & FN))]; brun E;
    [apply good_err; exact HB|].
  destruct f; try (apply good_err; exact B).
  set (s1 := set_flows s fl) in *.
  bget. brun push_flow_eq. unfold code_origin.
  destruct (push_emit_run s1 (FElse (length (code s1))) (OJump 0) B (single_nodup _))
    as (s2 & E2 & B2 & C2 & _); [intros p [<-|[]]; reflexivity|reflexivity|intros i []|].
  brun E2. bget.
  assert (J : jump_at (code s2) o) by (rewrite C2; apply jump_at_app; apply FJ; left; reflexivity).
  apply good_bpj; assumption.
Qed.

Lemma bip_i_then : bip i_then.
Proof.
  intros s HB. unfold i_then.
  destruct (take_spec s HB) as [E|(f & fl & E & B & (FJ & FO & FD & FN))]; brun E;
    [apply good_err; exact HB|].
  destruct f; try (apply good_err; exact B); bget;
    (apply good_bpj; [exact B|apply FJ; left; reflexivity]).
Qed.

Lemma bip_endcase_loop : forall fuel org, bip (endcase_loop fuel org).
Proof.
  induction fuel as [|f IH]; intros org s HB; cbn [endcase_loop]; [apply good_unsup|].
  destruct (take_spec s HB) as [E|(g & fl & E & B & (FJ & FO & FD & FN))]; brun E;
    [apply good_err; exact HB|].
  destruct g; try (apply good_err; exact B).
  - apply good_ok. exact B.
  - apply good_bind_bpj; [exact B|apply FJ; left; reflexivity|].
    intros s3 B3 _ _ _ _ _ _. apply IH. exact B3.
Qed.

Lemma bip_i_endcase : bip i_endcase.
Proof. unfold i_endcase. apply bip_get_bind'. intros s0 _. apply bip_endcase_loop. Qed.

Lemma bip_i_endof : bip i_endof.
Proof.
  intros s HB. unfold i_endof.
  destruct (take_spec s HB) as [E|(f & fl & E & B & (FJ & FO & FD & FN))]; brun E;
    [apply good_err; exact HB|].
  destruct f; try (apply good_err; exact B).
  set (s1 := set_flows s fl) in *. bget. cbv zeta. unfold code_origin.
  destruct (emit_run_BI (OJump 0) s1 B) as (s2 & E2 & B2 & C2 & D2 & F2 & X2 & N2).
  brun E2. bget.
  assert (J : jump_at (code s2) o) by (rewrite C2; apply jump_at_app; apply FJ; left; reflexivity).
  apply good_bind_bpj; [exact B2|exact J|]. intros s3 B3 F3 D3 X3 N3 L3 JP.
  rewrite push_flow_eq. apply good_ok.
  apply BI_push; [exact B3|apply single_nodup| | |intros p []|intros i []].
  - intros p [<-|[]] C. rewrite F3, F2 in C. pose proof (BI_pos_lt s1 _ B C). lia.
  - intros p [<-|[]]. apply JP. rewrite C2. apply jump_at_last. reflexivity.
Qed.

Lemma bip_repeat_loop : forall fuel, bip (repeat_loop fuel).
Proof.
  induction fuel as [|f IH]; intros s HB; cbn [repeat_loop]; [apply good_unsup|].
  destruct (pop_flow_spec s HB) as [E|(g & fl & Efl & E & B & (FJ & FO & FD & FN))]; brun E;
    [apply good_err; exact HB|].
  set (s1 := set_flows s fl) in *.
  destruct g; try (apply good_err; exact B).
  - (* FBegin *) bget. apply bip_code_emit. exact B.
  - (* FWhile *)
    destruct (pop_flow_spec s1 B) as [E2|(g2 & fl2 & Efl2 & E2 & B2 & _)]; brun E2;
      [apply good_err; exact B|].
    destruct g2; try (apply good_err; exact B2).
    bget.
    apply good_bind_bpj; [exact B2|apply FJ; left; reflexivity|].
    intros s3 B3 _ _ _ _ _ _. apply bip_code_emit. exact B3.
  - (* FBreak *)
    bget.
    apply good_bind_bpj; [exact B|apply FJ; left; reflexivity|].
    intros s3 B3 _ _ _ _ _ _. apply IH. exact B3.
Qed.

Lemma bip_i_repeat : bip i_repeat.
Proof. unfold i_repeat. apply bip_get_bind'. intros s0 _. apply bip_repeat_loop. Qed.

Lemma bip_i_open f w : fpos f = [] -> fdict f = [] -> bip (i_open f w).
Proof.
  intros E1 E2. unfold i_open, emit_native.
  apply bip_bind; [apply bip_push_flow_plain; assumption|intros _; apply bip_code_emit].
Qed.

Lemma bip_i_def_begin_named name : bip (i_def_begin_named name).
Proof.
  intros s HB. unfold i_def_begin_named. bget. cbv zeta. unfold code_origin.
  destruct (emit_run_BI (OJump 0) s HB) as (s1 & E1 & B1 & C1 & D1 & F1 & X1 & N1).
  brun E1. bget. brun dict_insert_eq. rewrite push_flow_eq. apply good_ok.
  set (e := mkdent name (DFun false (FInterp (length (code s1))) None)).
  assert (B2 : BI (set_dict s1 (dict s1 ++ [e]))).
  { apply BI_set_dict; [exact B1|]. intros i. apply dfun_at_app. }
  apply (BI_push (set_dict s1 (dict s1 ++ [e]))); [exact B2|apply single_nodup| | |intros p []|].
  - intros p [<-|[]] C. cbn [set_dict flows] in C. rewrite F1 in C.
    pose proof (BI_pos_lt s _ HB C). lia.
  - intros p [<-|[]]. cbn [set_dict code]. rewrite C1. apply jump_at_last. reflexivity.
  - intros i [<-|[]]. cbn [set_dict dict]. exists e. split; [|reflexivity].
    rewrite nth_error_app2 by lia. rewrite Nat.sub_diag. reflexivity.
Qed.

Lemma bip_i_def_end : bip i_def_end.
Proof.
  intros s HB. unfold i_def_end.
  destruct (pop_flow_spec s HB) as [E|(g & fl & Efl & E & B & (FJ & FO & FD & FN))]; brun E;
    [apply good_err; exact HB|].
  set (s1 := set_flows s fl) in *.
  destruct g; try (apply good_err; exact B).
  destruct (emit_run_BI ORet s1 B) as (s2 & E2 & B2 & C2 & D2 & F2 & X2 & N2).
  brun E2. bget. cbv zeta.
  destruct (FD dict_idx (or_introl eq_refl)) as (e & Ee & Je).
  assert (Ee2 : nth_error (dict s2) dict_idx = Some e) by (rewrite D2; exact Ee).
  rewrite Ee2. unfold set_dict_len. rewrite Ee2.
  unfold is_dfun in Je. destruct (dent e) eqn:Ed; try discriminate Je.
  unfold put at 1. unfold bind at 1. cbv beta iota.
  set (d' := list_set (dict s2) dict_idx _).
  assert (B3 : BI (set_dict s2 d')).
  { apply BI_set_dict; [exact B2|]. intros i Hi. apply dfun_at_set; [exact Hi|].
    intros e0 _ _. reflexivity. }
  assert (J : jump_at (code (set_dict s2 d')) start).
  { cbn [set_dict code]. rewrite C2. apply jump_at_app. apply FJ. left. reflexivity. }
  apply good_bpj; assumption.
Qed.

Lemma loop_loop_good loop_org stop_org : forall fuel s,
  BI s -> loop_org < length (code s) -> ~ In loop_org (flat_map fjumps (flows s)) ->
  good (loop_loop fuel loop_org stop_org s).
Proof.
  induction fuel as [|f IH]; intros s HB Hl Hn; cbn [loop_loop]; [apply good_unsup|].
  destruct (pop_flow_spec s HB) as [E|(g & fl & Efl & E & B & Fc)]; brun E;
    [apply good_err; exact HB|].
  pose proof Fc as (FJ & FO & FD & FN).
  set (s1 := set_flows s fl) in *.
  assert (Hn1 : ~ In loop_org (flat_map fjumps fl)).
  { intros C. apply Hn. rewrite Efl. cbn [flat_map]. apply in_or_app. right. exact C. }
  destruct g; try (apply good_err; exact B).
  - (* FBreak *)
    assert (Ho : o < length (code s1)) by (apply jump_at_lt, FJ; left; reflexivity).
    brun (backpatch_run o (OBreak (jump_offset o stop_org)) s1 Ho).
    apply IH.
    + apply BI_patch_free; [exact B|]. apply (facts_jump_notin _ _ _ _ _ Fc). left. reflexivity.
    + cbn [set_code code]. rewrite list_set_length. exact Hl.
    + exact Hn1.
  - (* FDo *)
    assert (Ho : for_org < length (code s1)) by (apply FO; left; reflexivity).
    brun (backpatch_run for_org (ODo (jump_offset for_org stop_org)) s1 Ho).
    set (s2 := set_code s1 _).
    assert (B2 : BI s2).
    { apply BI_patch_free; [exact B|]. apply (facts_jump_notin _ _ _ _ _ Fc). left. reflexivity. }
    assert (Hl2 : loop_org < length (code s2)) by (unfold s2; cbn [set_code code]; rewrite list_set_length; exact Hl).
    rewrite (backpatch_run loop_org _ s2 Hl2). apply good_ok.
    apply BI_patch_free; [exact B2|exact Hn1].
Qed.

Lemma bip_i_loop : bip i_loop.
Proof.
  intros s HB. unfold i_loop. bget. cbv zeta. unfold code_origin.
  destruct (emit_run_BI (OLoop 0) s HB) as (s1 & E1 & B1 & C1 & D1 & F1 & X1 & N1).
  brun E1. apply loop_loop_good; [exact B1| |].
  - rewrite C1, app_length. cbn [length]. lia.
  - rewrite F1. intros C. assert (In (length (code s)) (flat_map fpos (flows s))) by (apply in_flat_fpos; left; exact C).
    pose proof (BI_pos_lt s _ HB H). lia.
Qed.

Section Words.
  Variable fo : fops.
  Variable pr : string -> option Z.
  Variable rf : nat.

  Lemma bip_i_late : bip (i_late pr).
  Proof.
    intros s HB. unfold i_late. bget. cbv zeta. unfold code_origin.
    destruct (emit_run_BI (OJump 0) s HB) as (s1 & E1 & B1 & C1 & D1 & F1 & X1 & N1).
    brun E1. apply good_bind_corep; [apply corep_next_name|exact B1|].
    intros name s2 Cr B2. destruct (core_fields _ _ Cr) as (C2 & _).
    bget. destruct (emit_run_BI (OResolve name) s2 B2) as (s3 & E3 & B3 & C3 & _).
    brun E3. destruct (emit_run_BI ORet s3 B3) as (s4 & E4 & B4 & C4 & _).
    brun E4. bget.
    apply good_bind_bpj; [exact B4| |].
    - rewrite C4, C3, C2, C1. apply jump_at_app, jump_at_app, jump_at_last. reflexivity.
    - intros s5 B5 _ _ _ _ _ _.
      apply (bip_bind _ _ (bip_dict_insert _ _) (fun _ => bip_ret _ tt)). exact B5.
  Qed.

  Lemma BI_set_dict_entry s i e' :
    BI s -> is_dfun e' = true \/ (forall e, nth_error (dict s) i = Some e -> is_dfun e = false) ->
    BI (set_dict s (list_set (dict s) i e')).
  Proof.
    intros HB H. apply BI_set_dict; [exact HB|]. intros j Hj. apply dfun_at_set; [exact Hj|].
    intros e Ee Je. destruct H as [H|H]; [exact H|]. rewrite (H e Ee) in Je. discriminate.
  Qed.

  Lemma bip_i_immediate : bip i_immediate.
  Proof.
    unfold i_immediate. bip_solve.
    apply BI_set_dict_entry; [assumption|]. left. reflexivity.
  Qed.

  Lemma bip_i_const : bip (i_const pr).
  Proof.
    unfold i_const. bip_solve.
    apply BI_set_dict_entry; [assumption|]. right.
    intros e0 E0. unfold is_dfun.
    match goal with
    | H1 : nth_error (dict ?s) ?p = Some ?e, H2 : dent ?e = DConst _ |- _ =>
      rewrite H1 in E0; injection E0 as <-; rewrite H2; reflexivity
    end.
  Qed.

  Lemma BI_set_locals s ls :
    BI s ->
    BI (set_flows s (set_fun_locals (pending s) ls ++ skipn (length (pending s)) (flows s))).
  Proof.
    intros HB.
    destruct (flows_split s) as [S1 S2]; [apply (BI_marks_le s (cx s) HB); left; reflexivity|].
    assert (Er : skipn (length (pending s)) (flows s) = lastn (fs_len (cx s)) (flows s)).
    { unfold lastn, pending. f_equal. rewrite firstn_length.
      pose proof (BI_marks_le s (cx s) HB (or_introl eq_refl)). lia. }
    rewrite Er.
    apply (BI_pending s _ (set_fun_locals (pending s) ls)); [exact HB|apply HB|reflexivity|reflexivity|reflexivity|].
    cbn [set_flows code dict flows]. apply FL_set_fun_locals. rewrite <- S1. apply HB.
  Qed.

  Lemma bip_build_local_variable name : bip (build_local_variable name).
  Proof.
    unfold build_local_variable. bip_solve. apply BI_set_locals. assumption.
  Qed.

  Lemma bip_build_global_variable name : bip (build_global_variable name).
  Proof. unfold build_global_variable. bip_solve. Qed.

  Lemma bip_i_nested_end : bip (i_nested_end fo rf).
  Proof.
    intros s HB. unfold i_nested_end. bget.
    destruct (negb _); [apply good_err; exact HB|].
    destruct (has_pending_flow s) eqn:Ep; [apply good_err; exact HB|].
    apply context_close_good; [exact HB|intros _; exact Ep].
  Qed.

  Lemma bip_i_nested_inject : bip (i_nested_inject fo rf).
  Proof.
    intros s HB. unfold i_nested_inject. bget.
    destruct (negb _); [apply good_err; exact HB|].
    destruct (has_pending_flow s) eqn:Ep; [apply good_err; exact HB|].
    apply good_bind_corep; [apply corep_vec_collect|exact HB|]. intros v s1 C1 B1.
    apply good_bind_corep; [apply corep_join_str_vec|exact B1|]. intros t s2 C2 B2.
    apply good_bind.
    - apply context_close_good; [exact B2|]. intros _.
      destruct (core_fields _ _ C2) as (_ & _ & F2 & X2 & _).
      destruct (core_fields _ _ C1) as (_ & _ & F1 & X1 & _).
      unfold has_pending_flow in *. rewrite F2, X2, F1, X1. exact Ep.
    - intros _ s3 _ B3. apply (corep_bip _ (corep_intern_source t)). exact B3.
  Qed.
End Words.

(* ---------- let patterns ---------- *)
Section Let2.
  Variable pr : string -> option Z.

  Lemma bip_emit_native w : bip (emit_native w).
  Proof. unfold emit_native. apply bip_code_emit. Qed.
  Lemma bip_code_emit_value v : bip (code_emit_value v).
  Proof. unfold code_emit_value. apply bip_code_emit. Qed.
  Lemma bip_build_let_named w : bip (build_let_named w).
  Proof.
    unfold build_let_named. pose proof bip_build_local_variable. pose proof bip_build_global_variable.
    bip_solve.
  Qed.
  Lemma bip_build_let_match v : bip (build_let_match v).
  Proof. pose proof bip_emit_native. pose proof bip_code_emit_value. unfold build_let_match. bip_solve. Qed.
  Lemma bip_let_vec_next i : bip (let_vec_next i).
  Proof. pose proof bip_emit_native. pose proof bip_code_emit_value. unfold let_vec_next. bip_solve. Qed.

  Lemma bip_build_let : forall f,
    bip (build_let_in pr f) /\ bip (build_let_tags pr f) /\ bip (build_let_map pr f) /\
    (forall i, bip (build_let_vec pr f i)).
  Proof.
    induction f as [|f (IHin & IHtags & IHmap & IHvec)].
    - split; [|split; [|split]]; try intros i; apply bip_unsup.
    - pose proof bip_emit_native as HE. pose proof bip_code_emit_value as HV.
      pose proof bip_let_vec_next as HN. pose proof bip_build_let_named as HNm.
      pose proof bip_build_let_match as HM.
      assert (Hmap : bip (build_let_map pr (S f))).
      { rewrite build_let_map_S. apply bip_bind; [apply bip_emit_native|intros _].
        generalize (S f) as k. induction k as [|k IHk]; cbn [let_map_go]; [apply bip_unsup|].
        fold (let_map_go pr f) in *. bip_solve. }
      assert (Hvec : forall i, bip (build_let_vec pr (S f) i)).
      { intros i. rewrite build_let_vec_S. revert i.
        generalize (S f) as k. induction k as [|k IHk]; intros i; cbn [let_vec_go]; [apply bip_unsup|].
        fold (let_vec_go pr f) in *. bip_solve. }
      assert (Htags : bip (build_let_tags pr (S f))) by (cbn [build_let_tags]; bip_solve).
      assert (Hin : bip (build_let_in pr (S f))) by (cbn [build_let_in]; bip_solve).
      split; [|split; [|split]]; assumption.
  Qed.

  Lemma bip_build_let_in f : bip (build_let_in pr f).
  Proof. exact (proj1 (bip_build_let f)). Qed.
End Let2.

(* ---------- enum ---------- *)
Lemma lastn_cons_cases {A} (k : nat) (x : A) (r : list A) :
  lastn k (x :: r) = if (k <=? length r)%nat then lastn k r else x :: r.
Proof.
  unfold lastn. cbn [length]. destruct (k <=? length r)%nat eqn:E.
  - apply Nat.leb_le in E. replace (S (length r) - k) with (S (length r - k)) by lia. reflexivity.
  - apply Nat.leb_gt in E. replace (S (length r) - k) with 0 by lia. reflexivity.
Qed.

(* the fields of the enum entry on top of the flow stack change: it points at nothing *)
Lemma BI_enum_top s n f f' r :
  BI s -> flows s = FEnum n f :: r -> BI (set_flows s (FEnum n f' :: r)).
Proof.
  intros (Hcd & HF & HC & HS) E. split; [exact Hcd|].
  cbn [set_flows code dict flows cx nested]. rewrite E in HF, HC. split; [exact HF|]. split; [|exact HS].
  eapply Forall_impl; [|exact HC]. intros c [H1 H2]. split; [exact H1|].
  intros g Hg. rewrite lastn_cons_cases in Hg. specialize (H2 g). rewrite lastn_cons_cases in H2.
  destruct (fs_len c <=? length r)%nat; [exact (H2 Hg)|].
  destruct Hg as [<-|Hg]; [split; intros ? []|apply H2; right; exact Hg].
Qed.

Section Enum2.
  Variable fo : fops.
  Variable pr : string -> option Z.
  Variable rf : nat.

  Lemma bip_m_xint c : bip (m_xint c).
  Proof. unfold m_xint. destruct (value c); first [apply bip_ret|apply bip_fail]. Qed.

  Lemma bip_i_nested_begin : bip i_nested_begin.
  Proof. unfold i_nested_begin. apply bip_context_open. Qed.

  Lemma bip_def_immediate name nat : bip (def_immediate name nat).
  Proof. unfold def_immediate. bip_solve. Qed.

  Lemma bip_i_enum : bip (i_enum pr).
  Proof. pose proof bip_i_nested_begin. pose proof bip_def_immediate. unfold i_enum. bip_solve. Qed.

  Lemma bip_enum_add_field nm val : bip (enum_add_field nm val).
  Proof.
    unfold enum_add_field. apply bip_get_bind'. intros s0 B0.
    destruct (flows s0) as [|f r] eqn:E; [apply bip_fail|].
    destruct f; try apply bip_fail.
    destruct (val fields) as [v|]; [|apply bip_fail].
    apply bip_bind; [apply bip_put; eapply BI_enum_top; eassumption|intros _].
    apply bip_bind; [apply bip_dict_insert|intros _]. apply bip_i_nested_begin.
  Qed.

  Lemma bip_i_enum_field : bip (i_enum_field fo pr rf).
  Proof.
    pose proof (bip_i_nested_end fo rf). pose proof bip_enum_add_field.
    unfold i_enum_field. bip_solve.
  Qed.

  Lemma bip_i_enum_field_set : bip (i_enum_field_set fo pr rf).
  Proof.
    pose proof (bip_i_nested_end fo rf). pose proof bip_enum_add_field. pose proof bip_m_xint.
    unfold i_enum_field_set. bip_solve.
  Qed.

  Lemma bip_i_endenum : bip (i_endenum fo rf).
  Proof. pose proof (bip_i_nested_end fo rf). unfold i_endenum. bip_solve. Qed.
End Enum2.

(* ---------- the table of immediate words, build1, eval / compile ---------- *)
Section Top2.
  Variable fo : fops.
  Variable pr : string -> option Z.
  Variable rf : nat.

  Lemma bip_immediate_fn : forall fuel name w, immediate_fn fo pr rf fuel name = Some w -> bip w.
  Proof.
    intros fuel name w H. unfold immediate_fn in H. cbv zeta in H.
    eapply table_find_Forall with (P := fun m => bip m); [|exact H].
    pose proof (bip_build_let_in pr fuel) as HL.
    pose proof bip_emit_native as HE. pose proof bip_code_emit_value as HV.
    pose proof bip_i_if. pose proof bip_i_else. pose proof bip_i_then. pose proof bip_i_of.
    pose proof bip_i_endof. pose proof bip_i_endcase. pose proof bip_i_while. pose proof bip_i_break.
    pose proof bip_i_repeat. pose proof bip_i_def_end. pose proof (bip_i_late pr).
    pose proof bip_i_immediate. pose proof (bip_i_const pr). pose proof bip_i_do. pose proof bip_i_loop.
    pose proof (bip_i_nested_end fo rf). pose proof (bip_i_nested_inject fo rf).
    pose proof bip_i_def_begin_named. pose proof bip_build_local_variable.
    pose proof bip_build_global_variable.
    pose proof (bip_i_enum pr). pose proof (bip_i_enum_field fo pr rf).
    pose proof (bip_i_enum_field_set fo pr rf). pose proof (bip_i_endenum fo rf).
    repeat (apply Forall_cons;
            [ cbn [snd]; first [ apply bip_i_open; reflexivity | bip_solve ] | ]).
    apply Forall_nil.
  Qed.

  Lemma bip_run_immediate fuel f : bip (run_immediate fo pr rf fuel f).
  Proof.
    unfold run_immediate. destruct f as [x|name].
    - bip_solve.
    - destruct (immediate_fn fo pr rf fuel name) as [w|] eqn:E; [|apply bip_unsup].
      eapply bip_immediate_fn. exact E.
  Qed.

  Lemma bip_build_word fuel name : bip (build_word fo pr rf fuel name).
  Proof. pose proof (bip_run_immediate fuel). unfold build_word. bip_solve. Qed.

  (* build1 returns normally only with no pending structure *)
  Definition goodq (r : res unit) : Prop :=
    good r /\ (forall u s', r = ROk u s' -> has_pending_flow s' = false).

  Lemma goodq_bind {A} (m : M A) (f : A -> M unit) s :
    bip m -> BI s -> (forall a s1, BI s1 -> goodq (f a s1)) -> goodq (bind m f s).
  Proof.
    intros Hm HB Hf. destruct (Hm s HB) as [N R]. unfold bind.
    destruct (m s) as [a s1|k p s1| |]; cbn [res_all] in R.
    - apply Hf. exact R.
    - split; [apply good_err; exact R|discriminate].
    - contradiction.
    - split; [apply good_unsup|discriminate].
  Qed.

  Lemma goodq_err k p s : BI s -> goodq (RErr k p s).
  Proof. intros H. split; [apply good_err; exact H|discriminate]. Qed.

  Lemma build1_goodq : forall fuel depth s, BI s -> goodq (build1 fo pr rf fuel depth s).
  Proof.
    induction fuel as [|f IH]; intros depth s HB; cbn [build1]; [split; [apply good_unsup|discriminate]|].
    unfold bind at 1. unfold get at 1. cbv beta iota.
    apply goodq_bind; [|exact HB|].
    { destruct (_ && _); [apply bip_run_m|apply bip_ret]. }
    intros _ s1 B1. apply goodq_bind; [apply corep_bip, corep_get_token|exact B1|].
    intros t s2 B2. destruct t as [|w|c].
    - (* BEnd *)
      unfold bind at 1. unfold get at 1. cbv beta iota.
      destruct (negb _); [apply goodq_err; exact B2|].
      destruct (has_pending_flow s2) eqn:Ep; [apply goodq_err; exact B2|].
      split; [apply good_ok; exact B2|]. intros u s' E. injection E as _ <-. exact Ep.
    - (* BWord *)
      unfold bind at 1. unfold get at 1. cbv beta iota.
      destruct (top_function_flow s2) as [[[di st] ls]|].
      + destruct (rposition ls w 0 None).
        * apply goodq_bind; [apply bip_code_emit|exact B2|]. intros _ s3 B3. apply IH. exact B3.
        * apply goodq_bind; [apply bip_build_word|exact B2|]. intros _ s3 B3. apply IH. exact B3.
      + apply goodq_bind; [apply bip_build_word|exact B2|]. intros _ s3 B3. apply IH. exact B3.
    - (* BLit *)
      apply goodq_bind; [apply bip_code_emit_value|exact B2|]. intros _ s3 B3. apply IH. exact B3.
  Qed.

  Theorem build_from_source_good : forall fuel src m s,
    BI s -> good (build_from_source fo pr rf fuel src m s).
  Proof.
    intros fuel src m s HB. unfold build_from_source. cbv zeta.
    assert (H1 : bip (context_open m ;; intern_source src)).
    { apply bip_bind; [apply bip_context_open|intros _; apply corep_bip, corep_intern_source]. }
    destruct (H1 s HB) as [N1 R1].
    destruct ((context_open m ;; intern_source src) s) as [u s1|k p s1| |]; cbn [res_all] in R1;
      [|apply good_err; exact R1|contradiction|apply good_unsup].
    destruct (build1_goodq fuel (length (nested s1)) s1 R1) as [[N2 R2] Q2].
    destruct (build1 fo pr rf fuel (length (nested s1)) s1) as [u2 s2|k p s2| |]; cbn [res_all] in R2.
    - apply context_close_good; [exact R2|]. intros _. eapply Q2. reflexivity.
    - apply good_err. apply build_unwind_BI. exact R2.
    - contradiction.
    - apply good_unsup.
  Qed.

  Theorem eval_good : forall fuel src s, BI s -> good (eval fo pr rf fuel src s).
  Proof. intros. apply build_from_source_good. assumption. Qed.

  Theorem compile_good : forall fuel src s, BI s -> good (compile fo pr rf fuel src s).
  Proof. intros. apply build_from_source_good. assumption. Qed.
End Top2.

(* ---------- reverse stepping keeps BI ---------- *)
Definition frb (s s' : state) : Prop :=
  code s' = code s /\ dbg s' = dbg s /\ dict s' = dict s /\ flows s' = flows s /\
  nested s' = nested s /\ marks (cx s') = marks (cx s).

Lemma frb_BI s s' : frb s s' -> BI s -> BI s'.
Proof. intros (A1 & A2 & A3 & A4 & A5 & A6) HB. eapply BI_frame; eassumption. Qed.

Lemma frb_refl s : frb s s.
Proof. repeat split. Qed.
Lemma frb_trans a b c : frb a b -> frb b c -> frb a c.
Proof.
  unfold frb. intros (A1 & A2 & A3 & A4 & A5 & A6) (B1 & B2 & B3 & B4 & B5 & B6).
  repeat split; congruence.
Qed.

Lemma frb_core s s' : core s' = core s -> frb s s'.
Proof. unfold core. intros E. injection E as E1 E2 E3 E4 E5 E6. repeat split; congruence. Qed.

Lemma reverse_changes_frb : forall r s, res_all (frb s) (reverse_changes r s).
Proof.
  intros r s. destruct r; unfold reverse_changes;
    try (repeat match goal with
                | |- context [match ?x with _ => _ end] => destruct x
                end; cbn [res_all]; try exact I; repeat split; fail).
  destruct (corep_pop_data s) as [_ C].
  destruct (pop_data s); cbn [res_all] in *; auto; apply frb_core; exact C.
Qed.

Lemma log_pop_frb s r s' : log_pop s = Some (r, s') -> frb s s'.
Proof.
  unfold log_pop. destruct (rlog s) as [[|r0 l]|]; try discriminate.
  intros E. injection E as <- <-. repeat split.
Qed.

Lemma add_rstep_frb r s : frb s (add_rstep r s).
Proof. unfold add_rstep. destruct (rlog s); repeat split. Qed.

Lemma rnext_loop_frb : forall fuel s, res_all (frb s) (rnext_loop fuel s).
Proof.
  induction fuel as [|f IH]; intros s; cbn [rnext_loop]; [apply frb_refl|].
  destruct (log_pop s) as [[r s']|] eqn:E; [|apply frb_refl].
  pose proof (log_pop_frb _ _ _ E) as F0.
  destruct r; try (cbn [res_all]; eapply frb_trans; [exact F0|apply add_rstep_frb]);
    match goal with
    | |- context [reverse_changes ?r s'] =>
      pose proof (reverse_changes_frb r s') as H1;
      destruct (reverse_changes r s') as [u s2|? ? s2| |]; cbn [res_all] in *;
      [specialize (IH s2); destruct (rnext_loop f s2); cbn [res_all] in *; try exact I;
       (eapply frb_trans; [exact F0|eapply frb_trans; eassumption])
      |eapply frb_trans; eassumption
      |exact I|exact I]
    end.
Qed.

Lemma rnext_frb : forall s, res_all (frb s) (rnext s).
Proof.
  intros s. unfold rnext. destruct (log_pop s) as [[r s']|] eqn:E; [|apply rnext_loop_frb].
  pose proof (log_pop_frb _ _ _ E) as F0.
  pose proof (reverse_changes_frb r s') as H1.
  destruct (reverse_changes r s') as [u s2|? ? s2| |]; cbn [res_all] in *;
    [|eapply frb_trans; eassumption|exact I|exact I].
  pose proof (rnext_loop_frb (S (log_len s2)) s2) as H2.
  destruct (rnext_loop (S (log_len s2)) s2); cbn [res_all] in *; try exact I;
    (eapply frb_trans; [exact F0|eapply frb_trans; eassumption]).
Qed.

Theorem rnext_BI : forall s, BI s -> res_all BI (rnext s).
Proof.
  intros s HB. pose proof (rnext_frb s) as H.
  destruct (rnext s); cbn [res_all] in *; auto; eapply frb_BI; eassumption.
Qed.

(* ---------- API call sequences ---------- *)
From Xeh Require Import Model.Boot.

Lemma BI_boot : BI boot.
Proof.
  split; [unfold cd_inv; cbn; lia|]. cbn [boot code dict flows cx nested].
  split; [apply FL_nil|]. split.
  - constructor; [|constructor]. split; [cbn; lia|]. intros f Hf. cbn in Hf. contradiction.
  - constructor; [constructor|constructor].
Qed.

Section Api2.
  Variable fo : fops.
  Variable pr : string -> option Z.

  Theorem api_BI : forall s, api_reach fo pr s -> BI s.
  Proof.
    intros s H. apply H; clear s H.
    - exact BI_boot.
    - intros s rf bf src s' IH E.
      exact (res_state_all _ _ _ (proj2 (eval_good fo pr rf bf src s IH)) E).
    - intros s rf bf src s' IH E.
      exact (res_state_all _ _ _ (proj2 (compile_good fo pr rf bf src s IH)) E).
    - intros s s' IH E. unfold next in E. destruct (is_running s).
      + exact (res_state_all _ _ _ (far_BI fo s IH) E).
      + cbn [res_state] in E. injection E as <-. exact IH.
    - intros s fuel r s' IH E1 E2. pose proof (run_BI fo fuel s IH) as H. rewrite E1 in H.
      exact (res_state_all _ _ _ H E2).
    - intros s s' IH E. exact (res_state_all _ _ _ (rnext_BI s IH) E).
    - intros s i h k IH. eapply BI_core; [|exact IH]. reflexivity.
    - intros s l IH. eapply BI_core; [|exact IH]. reflexivity.
  Qed.

  (* no source text submitted in a reachable state makes eval or compile panic *)
  Theorem api_eval_no_panic : forall s, api_reach fo pr s ->
    forall rf bf src, eval fo pr rf bf src s <> RPanic /\ compile fo pr rf bf src s <> RPanic.
  Proof.
    intros s H rf bf src. pose proof (api_BI s H) as HB. split.
    - exact (proj1 (eval_good fo pr rf bf src s HB)).
    - exact (proj1 (compile_good fo pr rf bf src s HB)).
  Qed.
End Api2.

(* every API call in every reachable state *)
Theorem api_no_panic : forall fo pr s, api_reach fo pr s ->
  (forall rf bf src, eval fo pr rf bf src s <> RPanic /\ compile fo pr rf bf src s <> RPanic) /\
  next (native_fn fo) s <> RPanic /\
  (forall fuel, run (native_fn fo) fuel s <> Some RPanic) /\
  rnext s <> RPanic.
Proof.
  intros fo pr s H. split; [apply api_eval_no_panic; exact H|].
  split; [apply next_no_panic|]. split; [intros fuel; apply run_no_panic|apply rnext_no_panic].
Qed.

(* the invariant is an inductive invariant of the API (stated without naming it) *)
Theorem builder_invariant_exists : forall fo pr, exists Inv : state -> Prop,
  Inv boot /\
  (forall s rf bf src, Inv s ->
     eval fo pr rf bf src s <> RPanic /\ res_all Inv (eval fo pr rf bf src s) /\
     compile fo pr rf bf src s <> RPanic /\ res_all Inv (compile fo pr rf bf src s)) /\
  (forall s, Inv s -> res_all Inv (next (native_fn fo) s)) /\
  (forall s fuel, Inv s -> match run (native_fn fo) fuel s with Some r => res_all Inv r | None => True end) /\
  (forall s, Inv s -> res_all Inv (rnext s)).
Proof.
  intros fo pr. exists BI. split; [exact BI_boot|]. split; [|split; [|split]].
  - intros s rf bf src HB.
    destruct (eval_good fo pr rf bf src s HB) as [A B].
    destruct (compile_good fo pr rf bf src s HB) as [C D]. repeat split; assumption.
  - intros s HB. unfold next. destruct (is_running s); [apply far_BI; exact HB|exact HB].
  - intros s fuel HB. apply run_BI. exact HB.
  - intros s HB. apply rnext_BI. exact HB.
Qed.
