(* CursorProgress.v: when a read succeeds.  If the requested bits are inside the input (and
   within the width limit of the word) and the data stack has room, the read returns normally. *)
From Xeh Require Import Model.Prelude Model.Bits Model.Codec Model.Cell Model.Lexer Model.Fmt
                        Model.Vm Model.Words.
From Xeh Require Import Proofs.BitsBasic Proofs.BitsLists Proofs.BitsMirror Proofs.BitsProofs
                        Proofs.CodecBasic Proofs.CodecProofs Proofs.VmStep Proofs.CursorDefs
                        Proofs.CursorProofs.
From Coq Require Import ZifyBool ZifyNat ZifyN.
Local Notation length := List.length.

#[local] Arguments Z.add : simpl never.
#[local] Arguments Z.sub : simpl never.
#[local] Arguments Z.mul : simpl never.
#[local] Arguments Z.ltb : simpl never.
#[local] Arguments Z.leb : simpl never.
#[local] Arguments Z.eqb : simpl never.
#[local] Arguments Z.of_nat : simpl never.
#[local] Arguments Z.to_nat : simpl never.
#[local] Arguments Z.pow : simpl never.

Definition ENone : ekind -> option cell -> state -> Prop := fun _ _ _ => False.

(* the state after a successful read: result on top, offset advanced, nothing else *)
Definition after_read (s s' : state) (off n : Z) (d : list cell) (v : cell) : Prop :=
  st s s' (v :: d) (list_set (heap s) R_OFFSET (cint (off + n))).

Section Progress.
  Variables (s : state) (inp : cbs) (off : Z).
  Hypothesis Hcur : cursor s inp off.

  Let Hm : notmeta s := proj1 Hcur.
  Let Hc : hcursor (heap s) inp off := proj2 Hcur.

  Lemma core_ok n (mk : cbs -> cell) s1 d :
    st s s1 d (heap s) ->
    (0 <= n)%Z -> (off + n <= Z.of_nat (cend inp))%Z ->
    limit_reached (stack_limit s) (length d) = false ->
    wp (push_data (mk (sub inp off n)) ;; move_offset_checked (Z.of_nat (cend (sub inp off n)))) s1
       (fun _ s' => after_read s s' off n d (mk (sub inp off n))) ENone False.
  Proof.
    intros Hst Hn Hfit Hroom.
    eapply wp_commit; [exact Hst|exact Hm|exact Hc|exact Hn|exact Hfit| |].
    - intros _ s' Hs'. exact Hs'.
    - intros Hlim. congruence.
  Qed.

  Lemma read_bits_ok n s1 d :
    st s s1 d (heap s) -> (0 <= n)%Z -> (off + n <= Z.of_nat (cend inp))%Z ->
    limit_reached (stack_limit s) (length d) = false ->
    wp (read_bits n) s1 (fun _ s' => after_read s s' off n d (CBits (sub inp off n))) ENone False.
  Proof.
    intros Hst Hn Hfit Hroom. unfold read_bits. apply wp_bind. eapply wp_peek_bits; eauto.
    - intros _ _. apply (core_ok n (fun b => CBits b)); auto.
    - intros Hbad. apply Hbad. auto.
  Qed.

  Lemma clen_sub n : (0 <= n)%Z -> clen (sub inp off n) = Z.to_nat n.
  Proof.
    intros Hn. unfold sub, clen. cbn [cstart cend]. destruct Hc as (_ & _ & _ & _ & _ & ?). lia.
  Qed.

  Lemma read_unsigned_ok n o s1 d :
    st s s1 d (heap s) -> (0 <= n <= 127)%Z -> (off + n <= Z.of_nat (cend inp))%Z ->
    limit_reached (stack_limit s) (length d) = false ->
    wp (read_unsigned n o) s1
       (fun _ s' => after_read s s' off n d
                      (with_tags (cint (to_uint o (sub inp off n))) (num_tags (sub inp off n) o)))
       ENone False.
  Proof.
    intros Hst Hn Hfit Hroom. unfold read_unsigned. apply wp_bind. eapply wp_peek_bits; eauto.
    - intros _ _. rewrite clen_sub by lia.
      replace (127 <? Z.to_nat n) with false by lia.
      apply (core_ok n (fun b => with_tags (cint (to_uint o b)) (num_tags b o))); auto. lia.
    - intros Hbad. apply Hbad. split; [lia|auto].
  Qed.

  Lemma read_signed_ok n o s1 d :
    st s s1 d (heap s) -> (0 <= n <= 128)%Z -> (off + n <= Z.of_nat (cend inp))%Z ->
    limit_reached (stack_limit s) (length d) = false ->
    wp (read_signed n o) s1
       (fun _ s' => after_read s s' off n d
                      (with_tags (cint (to_int o (sub inp off n))) (num_tags (sub inp off n) o)))
       ENone False.
  Proof.
    intros Hst Hn Hfit Hroom. unfold read_signed. apply wp_bind. eapply wp_peek_bits; eauto.
    - intros _ _. rewrite clen_sub by lia.
      replace (128 <? Z.to_nat n) with false by lia.
      apply (core_ok n (fun b => with_tags (cint (to_int o b)) (num_tags b o))); auto. lia.
    - intros Hbad. apply Hbad. split; [lia|auto].
  Qed.

  Lemma read_f32_ok fo o s1 d :
    st s s1 d (heap s) -> (off + 32 <= Z.of_nat (cend inp))%Z ->
    limit_reached (stack_limit s) (length d) = false ->
    wp (read_float fo 32 o) s1
       (fun _ s' => after_read s s' off 32 d
                      (with_tags (CReal (f_of_f32 fo (to_fbits 4 o (sub inp off 32))))
                                 (num_tags (sub inp off 32) o)))
       ENone False.
  Proof.
    intros Hst Hfit Hroom. unfold read_float. apply wp_bind. eapply wp_peek_bits; eauto.
    - intros _ _. change (32 =? 32)%Z with true. cbv iota.
      apply (core_ok 32 (fun b => with_tags (CReal (f_of_f32 fo (to_fbits 4 o b))) (num_tags b o))); auto. lia.
    - intros Hbad. apply Hbad. split; [lia|auto].
  Qed.

  Lemma read_f64_ok fo o s1 d :
    st s s1 d (heap s) -> (off + 64 <= Z.of_nat (cend inp))%Z ->
    limit_reached (stack_limit s) (length d) = false ->
    wp (read_float fo 64 o) s1
       (fun _ s' => after_read s s' off 64 d
                      (with_tags (CReal (to_fbits 8 o (sub inp off 64))) (num_tags (sub inp off 64) o)))
       ENone False.
  Proof.
    intros Hst Hfit Hroom. unfold read_float. apply wp_bind. eapply wp_peek_bits; eauto.
    - intros _ _. change (64 =? 32)%Z with false. change (64 =? 64)%Z with true. cbv iota.
      apply (core_ok 64 (fun b => with_tags (CReal (to_fbits 8 o b)) (num_tags b o))); auto. lia.
    - intros Hbad. apply Hbad. split; [lia|auto].
  Qed.
End Progress.

(* after a successful read the cursor is at off + n, over the same input *)
Lemma after_read_cursor s s' inp off n d v :
  cursor s inp off -> (0 <= n)%Z -> (off + n <= Z.of_nat (cend inp))%Z ->
  after_read s s' off n d v -> cursor s' inp (off + n).
Proof.
  intros Hcur Hn Hfit (Hd & Hh & Hs). split; [eapply sim_notmeta; eauto; apply Hcur|].
  rewrite Hh. apply (hcursor_set_offset _ _ off); [apply Hcur|].
  destruct Hcur as (_ & _ & _ & _ & _ & _ & ?). lia.
Qed.

(* ---------- user-level forms: a read inside the input, with room on the stack, succeeds ---------- *)
Section Succeeds.
  Variables (s : state) (inp : cbs) (off : Z).
  Hypothesis Hcur : cursor s inp off.
  Hypothesis Hroom : limit_reached (stack_limit s) (length (ds s)) = false.

  Lemma read_bits_succeeds n :
    (0 <= n)%Z -> (off + n <= Z.of_nat (cend inp))%Z ->
    exists s', read_bits n s = ROk tt s'.
  Proof.
    intros Hn Hfit.
    pose proof (read_bits_ok s inp off Hcur n s (ds s) (st_init s) Hn Hfit Hroom) as H.
    apply wp_total in H. destruct H as ([] & s' & Hrun & _). eauto.
  Qed.

  Lemma read_unsigned_succeeds n o :
    (0 <= n <= 127)%Z -> (off + n <= Z.of_nat (cend inp))%Z ->
    exists s', read_unsigned n o s = ROk tt s'.
  Proof.
    intros Hn Hfit.
    pose proof (read_unsigned_ok s inp off Hcur n o s (ds s) (st_init s) Hn Hfit Hroom) as H.
    apply wp_total in H. destruct H as ([] & s' & Hrun & _). eauto.
  Qed.

  Lemma read_signed_succeeds n o :
    (0 <= n <= 128)%Z -> (off + n <= Z.of_nat (cend inp))%Z ->
    exists s', read_signed n o s = ROk tt s'.
  Proof.
    intros Hn Hfit.
    pose proof (read_signed_ok s inp off Hcur n o s (ds s) (st_init s) Hn Hfit Hroom) as H.
    apply wp_total in H. destruct H as ([] & s' & Hrun & _). eauto.
  Qed.

  Lemma read_float_succeeds fo n o :
    n = 32%Z \/ n = 64%Z -> (off + n <= Z.of_nat (cend inp))%Z ->
    exists s', read_float fo n o s = ROk tt s'.
  Proof.
    intros [-> | ->] Hfit.
    - pose proof (read_f32_ok s inp off Hcur fo o s (ds s) (st_init s) Hfit Hroom) as H.
      apply wp_total in H. destruct H as ([] & s' & Hrun & _). eauto.
    - pose proof (read_f64_ok s inp off Hcur fo o s (ds s) (st_init s) Hfit Hroom) as H.
      apply wp_total in H. destruct H as ([] & s' & Hrun & _). eauto.
  Qed.
End Succeeds.

(* ---------- the named failures of C06 (b), exactly ---------- *)
Lemma wp_fails {A} (m : M A) s (E : ekind -> option cell -> state -> Prop) :
  wp m s (fun _ _ => False) E False -> exists k p s', m s = RErr k p s' /\ E k p s'.
Proof. unfold wp. destruct (m s); try contradiction. eauto. Qed.

Section Failures.
  Variables (s : state) (inp : cbs) (off : Z).
  Hypothesis Hcur : cursor s inp off.

  Let Hm : notmeta s := proj1 Hcur.
  Let Hc : hcursor (heap s) inp off := proj2 Hcur.

  Definition same_state (k0 : ekind) : ekind -> option cell -> state -> Prop :=
    fun k p s' => k = k0 /\ p = None /\ s' = s.

  Lemma unpack_same (m : M unit) k0 :
    wp m s (fun _ _ => False) (same_state k0) False -> m s = RErr k0 None s.
  Proof.
    intros H. apply wp_fails in H. destruct H as (k & p & s' & Hrun & -> & -> & ->). exact Hrun.
  Qed.

  (* a read past the end (or of a negative count): the read error, the state is untouched *)
  Lemma read_past_end n :
    ~ ((0 <= n)%Z /\ (off + n <= Z.of_nat (cend inp))%Z) ->
    read_bits n s = RErr ERead None s /\
    (forall o, read_unsigned n o s = RErr ERead None s) /\
    (forall o, read_signed n o s = RErr ERead None s) /\
    (forall fo o, read_float fo n o s = RErr ERead None s).
  Proof.
    intros Hbad.
    assert (Hpeek : forall (k : cbs -> M unit),
               wp (bind (peek_bits n) k) s (fun _ _ => False) (same_state ERead) False).
    { intros k. apply wp_bind. eapply wp_peek_bits; eauto using st_init.
      - intros H1 H2. exfalso. apply Hbad. auto.
      - intros _. repeat split. }
    split; [|split; [|split]]; intros; apply unpack_same; apply Hpeek.
  Qed.

  (* a float of a width other than 32 or 64 inside the input: the float-length error *)
  Lemma float_bad_length fo n o :
    (0 <= n)%Z -> (off + n <= Z.of_nat (cend inp))%Z -> n <> 32%Z -> n <> 64%Z ->
    read_float fo n o s = RErr EFloatLen None s.
  Proof.
    intros Hn Hfit H32 H64. apply unpack_same. unfold read_float. apply wp_bind.
    eapply wp_peek_bits; eauto using st_init.
    - intros _ _. replace (n =? 32)%Z with false by lia. replace (n =? 64)%Z with false by lia.
      apply wp_fail. repeat split.
    - intros Hbad. exfalso. apply Hbad. auto.
  Qed.

  (* an unsigned read wider than 127 bits / a signed read wider than 128: the overflow error *)
  Lemma read_too_wide n o :
    (0 <= n)%Z -> (off + n <= Z.of_nat (cend inp))%Z ->
    ((127 < n)%Z -> read_unsigned n o s = RErr EOverflow None s) /\
    ((128 < n)%Z -> read_signed n o s = RErr EOverflow None s).
  Proof.
    intros Hn Hfit. split; intros Hw; apply unpack_same.
    - unfold read_unsigned. apply wp_bind. eapply wp_peek_bits; eauto using st_init.
      + intros _ _. rewrite (clen_sub s inp off Hcur n Hn).
        replace (127 <? Z.to_nat n) with true by lia. apply wp_fail. repeat split.
      + intros Hbad. exfalso. apply Hbad. auto.
    - unfold read_signed. apply wp_bind. eapply wp_peek_bits; eauto using st_init.
      + intros _ _. rewrite (clen_sub s inp off Hcur n Hn).
        replace (128 <? Z.to_nat n) with true by lia. apply wp_fail. repeat split.
      + intros Hbad. exfalso. apply Hbad. auto.
  Qed.

  (* a result refused by the data-stack limit: the limit error, and the state is untouched -
     in particular the offset has not moved (the push comes before the move) *)
  Lemma limit_refused n :
    limit_reached (stack_limit s) (length (ds s)) = true ->
    (0 <= n)%Z -> (off + n <= Z.of_nat (cend inp))%Z ->
    read_bits n s = RErr ELimit None s /\
    ((n <= 127)%Z -> forall o, read_unsigned n o s = RErr ELimit None s) /\
    ((n <= 128)%Z -> forall o, read_signed n o s = RErr ELimit None s) /\
    (n = 32%Z \/ n = 64%Z -> forall fo o, read_float fo n o s = RErr ELimit None s).
  Proof.
    intros Hlim Hn Hfit.
    assert (Hc' : forall v, wp (push_data v ;; move_offset_checked (Z.of_nat (cend (sub inp off n)))) s
                            (fun _ _ => False) (same_state ELimit) False).
    { intros v. eapply wp_commit; [apply st_init|exact Hm|exact Hc|exact Hn|exact Hfit| |].
      - intros Hroom. congruence.
      - intros _. repeat split. }
    split; [|split; [|split]].
    - apply unpack_same. unfold read_bits. apply wp_bind. eapply wp_peek_bits; [apply st_init|exact Hm|exact Hc| |].
      + intros _ _. apply Hc'.
      + intros Hbad. exfalso. apply Hbad. auto.
    - intros Hw o. apply unpack_same. unfold read_unsigned. apply wp_bind.
      eapply wp_peek_bits; [apply st_init|exact Hm|exact Hc| |].
      + intros _ _. rewrite (clen_sub s inp off Hcur n Hn).
        replace (127 <? Z.to_nat n) with false by lia. apply Hc'.
      + intros Hbad. exfalso. apply Hbad. auto.
    - intros Hw o. apply unpack_same. unfold read_signed. apply wp_bind.
      eapply wp_peek_bits; [apply st_init|exact Hm|exact Hc| |].
      + intros _ _. rewrite (clen_sub s inp off Hcur n Hn).
        replace (128 <? Z.to_nat n) with false by lia. apply Hc'.
      + intros Hbad. exfalso. apply Hbad. auto.
    - intros Hw fo o. apply unpack_same. unfold read_float. apply wp_bind.
      eapply wp_peek_bits; [apply st_init|exact Hm|exact Hc| |].
      + intros _ _. destruct Hw as [-> | ->].
        * change (32 =? 32)%Z with true. cbv iota. apply Hc'.
        * change (64 =? 32)%Z with false. change (64 =? 64)%Z with true. cbv iota. apply Hc'.
      + intros Hbad. exfalso. apply Hbad. auto.
  Qed.

  (* seek outside the input: the seek error; only the argument is gone *)
  Lemma seek_out_of_range c rest n :
    ds s = c :: rest -> ds_len (cx s) < length (ds s) -> is_usize c n ->
    ~ (Z.of_nat (cstart inp) <= n <= Z.of_nat (cend inp))%Z ->
    exists s', w_seek s = RErr ESeek None s' /\ ds s' = rest /\ heap s' = heap s /\ sim s s'.
  Proof.
    intros Hd Hlen Hn Hbad.
    assert (Hwp : wp w_seek s (fun _ _ => False)
                     (fun k p s' => k = ESeek /\ p = None /\ st s s' rest (heap s)) False).
    { unfold w_seek, with_size. apply wp_bind.
      eapply (wp_pop_data_ok c rest s s (heap s)); [rewrite <- Hd; apply st_init|rewrite <- Hd; exact Hlen|].
      intros s1 Hs1. apply wp_bind. apply wp_m_usize.
      - intros z Hz. destruct Hn as (Hv & _). destruct Hz as (Hv' & _). rewrite Hv in Hv'.
        injection Hv' as <-. eapply wp_move_offset; [exact Hs1|exact Hm|exact Hc| |].
        + intros Hin. exfalso. auto.
        + intros _. auto.
      - intros Hno. exfalso. apply (Hno n). exact Hn. }
    apply wp_fails in Hwp. destruct Hwp as (k & p & s' & Hrun & -> & -> & Hd' & Hh' & Hs'). eauto.
  Qed.

  (* magic on bits that differ from the pattern: the match error; only the argument is gone *)
  Lemma magic_mismatch c rest pat :
    ds s = c :: rest -> ds_len (cx s) < length (ds s) -> value c = CBits pat ->
    (off + Z.of_nat (clen pat) <= Z.of_nat (cend inp))%Z ->
    eq_with (sub inp off (Z.of_nat (clen pat))) pat = false ->
    exists s', w_magic s = RErr EMatch None s' /\ ds s' = rest /\ heap s' = heap s /\ sim s s'.
  Proof.
    intros Hd Hlen Hv Hfit Hne.
    assert (Hwp : wp w_magic s (fun _ _ => False)
                     (fun k p s' => k = EMatch /\ p = None /\ st s s' rest (heap s)) False).
    { unfold w_magic. apply wp_bind.
      eapply (wp_pop_data_ok c rest s s (heap s)); [rewrite <- Hd; apply st_init|rewrite <- Hd; exact Hlen|].
      intros s1 Hs1. apply wp_bind. apply wp_m_bits.
      - intros b Hb. rewrite Hv in Hb. injection Hb as <-.
        apply wp_bind. eapply wp_peek_bits; [exact Hs1|exact Hm|exact Hc| |].
        + intros _ _. rewrite Hne. cbn [negb]. apply wp_fail. auto.
        + intros Hbad. exfalso. apply Hbad. split; [lia|exact Hfit].
      - intros Hno. exfalso. eapply Hno; eauto. }
    apply wp_fails in Hwp. destruct Hwp as (k & p & s' & Hrun & -> & -> & Hd' & Hh' & Hs'). eauto.
  Qed.
End Failures.
