(* SnapshotProofs.v (C03, interpreter level): in the model every container of [state] is a
   value, so a clone of a state IS the state, and evaluation is a function of
   (state, source) only.  These lemmas are true by construction; they are stated so that the
   correspondence check has something to compare the real clone()/eval() against. *)
From Xeh Require Import Model.Prelude Model.Bits Model.Codec Model.Cell Model.Lexer Model.Fmt
                        Model.Vm Model.Words Model.Build.
Local Notation length := List.length.

Definition clone_state (s : state) : state := s.

(* the state an eval call leaves behind (result or error); the state itself if the call is
   outside the model *)
Definition eval_state (fo : fops) (pr : string -> option Z) (rf bf : nat)
           (s : state) (src : string) : state :=
  match res_state (eval fo pr rf bf src s) with Some s' => s' | None => s end.

Definition run_path (fo : fops) (pr : string -> option Z) (rf bf : nat)
           (srcs : list string) (s : state) : state :=
  fold_left (eval_state fo pr rf bf) srcs s.

Lemma eval_functional : forall fo pr rf bf src s1 s2,
  s1 = s2 -> eval fo pr rf bf src s1 = eval fo pr rf bf src s2.
Proof. intros. subst. reflexivity. Qed.

(* replaying a source on a clone gives what it gives on the original *)
Lemma eval_on_clone : forall fo pr rf bf src s,
  eval fo pr rf bf src (clone_state s) = eval fo pr rf bf src s.
Proof. reflexivity. Qed.

(* a snapshot is not changed by later activity on the original *)
Lemma snapshot_unchanged : forall fo pr rf bf srcs s,
  let snap := clone_state s in
  let s' := run_path fo pr rf bf srcs s in
  snap = s /\ run_path fo pr rf bf srcs snap = s'.
Proof. intros. split; reflexivity. Qed.

(* clone trees: the state of a node depends only on the path from the root; a clone taken
   after the prefix [p] and driven through [q] is where the original gets by [p ++ q] *)
Lemma clone_tree : forall fo pr rf bf p q s,
  run_path fo pr rf bf (p ++ q) s = run_path fo pr rf bf q (clone_state (run_path fo pr rf bf p s)).
Proof. intros. unfold run_path, clone_state. apply fold_left_app. Qed.
