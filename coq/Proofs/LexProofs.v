(* C16 / C17(a): the lexer lemmas.  The proofs live in the helper files; this file
   collects them, states the refutations of the three statements that are false for
   byte strings that are not UTF-8, and re-exports everything.

   Proved with the statements of Props/C16.v:
     lex_total, lex_tiles, lex_progress, int_from_str_radix_spec, print_read_int,
     print_read_bitstr, hex_negative_refuted.
   False as stated (counterexamples below), proved under [valid_utf8 s = true]:
     lex_reaches_end  -> lex_reaches_end_weak
     word_text        -> word_text_weak        (the substring half holds unconditionally:
                                                word_text_substring)
     token_location_spec -> token_location_spec_weak
                            (exact unconditional form: token_location_exact,
                             exact condition: token_location_spec_iff) *)
From Xeh Require Import Model.Prelude Model.Bits Model.Cell Model.Lexer Model.Fmt Proofs.BitsProofs.
From Xeh Require Export Proofs.LexLoc Proofs.LexBasic Proofs.LexNext Proofs.LexNum Proofs.LexAll
  Proofs.LexPrintInt Proofs.LexPrintBits.
Local Open Scope string_scope.

(* ---------- refutations of the unrestricted statements ---------- *)

(* a lone UTF-8 lead byte: the lexer advances by the announced width 2 over a 1-byte text *)
Theorem lex_reaches_end_refuted :
  ~ (forall s pre a b,
       lex_string s = (pre ++ [(TEnd, a, b)])%list -> a = String.length s /\ b = String.length s).
Proof.
  intros H. destruct lex_reaches_end_counterexample as [E L].
  destruct (H _ _ _ _ E) as [A _]. rewrite L in A. discriminate.
Qed.

(* lead byte followed by a space: the space is swallowed as the "second byte" of the character *)
Theorem word_text_refuted :
  ~ (forall s w a b,
       In (TWord w, a, b) (lex_string s) -> w = substring_of s a b /\ no_ws w = true).
Proof.
  intros H. destruct word_text_counterexample as [I N].
  destruct (H _ _ _ _ I) as [_ W]. rewrite N in W. discriminate.
Qed.

(* a lone lead byte: the line end is reported one past the end of the text *)
Theorem token_location_spec_refuted :
  ~ (forall s p, s <> EmptyString -> p <= String.length s ->
       token_location s p = (spec_line s p, spec_col s p, spec_line_start s p, spec_line_end s p)).
Proof.
  intros H. destruct token_location_spec_counterexample as (A & B & C).
  exact (C (H _ _ A B)).
Qed.

(* the validity predicate accepts real UTF-8 (curly quotes, a 2-byte and a 4-byte character)
   and rejects truncated or stray bytes *)
Example valid_utf8_accepts :
  valid_utf8 (ldq ++ "a" ++ String (ascii_of_N 195) (String (ascii_of_N 169) "")
                  ++ String (ascii_of_N 240) (String (ascii_of_N 159) (String (ascii_of_N 152) (String (ascii_of_N 128) "")))
                  ++ rdq) = true.
Proof. vm_compute. reflexivity. Qed.
Example valid_utf8_rejects :
  valid_utf8 (String (ascii_of_N 195) "") = false /\ valid_utf8 (String (ascii_of_N 169) "") = false /\
  valid_utf8 (String (ascii_of_N 226) (String (ascii_of_N 128) "a")) = false.
Proof. vm_compute. auto. Qed.

(* ---------- statement pins ---------- *)

Check lex_total : forall s, exists pre t a b,
  lex_string s = (pre ++ [(t, a, b)])%list /\ is_final t = true /\
  Forall (fun x => is_final (fst (fst x)) = false) pre.
Check lex_tiles : forall s, tiles 0 (lex_string s).
Check lex_progress : forall s t a b,
  In (t, a, b) (lex_string s) -> is_final t = false -> a < b.
Check int_from_str_radix_spec : forall (neg : bool) (radix : N) (ds : list N) (body : string),
  (2 <= radix <= 36)%N -> ds <> [] -> Forall (fun d => (d < radix)%N) ds ->
  body = fold_right (fun d acc => String (digit_char false d) acc) EmptyString ds ->
  let v := (if neg then - digits_value (Z.of_N radix) ds 0 else digits_value (Z.of_N radix) ds 0)%Z in
  int_from_str_radix ((if neg then "-" else "") ++ body) radix = if in_i128 v then Some v else None.
Check print_read_int : forall z, in_i128 z = true ->
  let txt := fmt_int fmt_default z in
  lex_string txt = [(TLit (CInt z), 0, String.length txt); (TEnd, String.length txt, String.length txt)].
Check print_read_bitstr : forall b, wf b ->
  let txt := fmt_bitstr b in
  exists b', lex_string txt = [(TLit (CBits b'), 0, String.length txt); (TEnd, String.length txt, String.length txt)]
             /\ wf b' /\ abs b' = abs b.
Check hex_negative_refuted :
  exists z, in_i128 z = true /\
    let txt := fmt_int (fl_set_base fmt_default 16) z in
    forall n, lex_string txt <> [(TLit (CInt z), 0, n); (TEnd, n, n)].
Check lex_reaches_end_weak : forall s pre a b, valid_utf8 s = true ->
  lex_string s = (pre ++ [(TEnd, a, b)])%list -> a = String.length s /\ b = String.length s.
Check word_text_weak : forall s w a b, valid_utf8 s = true ->
  In (TWord w, a, b) (lex_string s) -> w = substring_of s a b /\ no_ws w = true.
Check word_text_substring : forall s w a b,
  In (TWord w, a, b) (lex_string s) -> w = substring_of s a b.
Check token_location_spec_weak : forall s p,
  valid_utf8 s = true -> s <> EmptyString -> p <= String.length s ->
  token_location s p = (spec_line s p, spec_col s p, spec_line_start s p, spec_line_end s p).
