(* WordRun.v: running the primitives of a native word on a state whose data stack starts
   with the operands: what is returned and what the state left behind is.  The state is
   described exactly: the data stack, and the entries the word adds to the reverse log
   when the machine is recording ([with_log]); nothing else changes. *)
From Xeh Require Import Model.Prelude Model.Bits Model.Cell Model.Vm.
Local Notation length := List.length.

(* [new] (newest first) is put on top of the reverse log, if there is one *)
Definition with_log (new : list rstep) (s : state) : state :=
  match rlog s with Some l => set_rlog s (Some (new ++ l)%list) | None => s end.

Ltac destruct_state s :=
  destruct s as [d0 h0 c0 g0 so0 in0 st0 rs0 fl0 lo0 sp0 cx0 ne0 me0 il0 hl0 sl0 rl0 ou0 lt0 sg0].

Ltac state_crush :=
  cbv [with_log add_rstep set_ds set_rlog erase_log
       dict heap code dbg sources input ds rs flows loops special cx nested meter insn_limit
       heap_limit stack_limit rlog out last_tok stopping app];
  try reflexivity.

Lemma with_log_nil s : with_log [] s = s.
Proof. destruct_state s. destruct rl0; state_crush. Qed.

Lemma with_log_fields l s :
  ds (with_log l s) = ds s /\ cx (with_log l s) = cx s /\ stack_limit (with_log l s) = stack_limit s /\
  heap (with_log l s) = heap s /\ dict (with_log l s) = dict s /\ code (with_log l s) = code s /\
  rs (with_log l s) = rs s /\ loops (with_log l s) = loops s /\ special (with_log l s) = special s /\
  out (with_log l s) = out s /\ meter (with_log l s) = meter s /\ nested (with_log l s) = nested s.
Proof. destruct_state s. destruct rl0; state_crush; repeat split. Qed.

Lemma with_log_erase l s : erase_log (with_log l s) = erase_log s.
Proof. destruct_state s. destruct rl0; state_crush. Qed.

Lemma with_log_rlog l s :
  rlog (with_log l s) = match rlog s with Some old => Some (l ++ old)%list | None => None end.
Proof. destruct_state s. destruct rl0; state_crush. Qed.

Lemma set_ds_fields s v :
  ds (set_ds s v) = v /\ cx (set_ds s v) = cx s /\ stack_limit (set_ds s v) = stack_limit s /\
  heap (set_ds s v) = heap s /\ dict (set_ds s v) = dict s /\ code (set_ds s v) = code s /\
  rs (set_ds s v) = rs s /\ loops (set_ds s v) = loops s /\ special (set_ds s v) = special s /\
  out (set_ds s v) = out s /\ meter (set_ds s v) = meter s /\ nested (set_ds s v) = nested s /\
  rlog (set_ds s v) = rlog s.
Proof. destruct_state s. state_crush; repeat split. Qed.

Lemma set_ds_same s : set_ds s (ds s) = s.
Proof. destruct_state s. reflexivity. Qed.

(* popping *)
Lemma pop_data_run s c r : ds s = c :: r -> ds_len (cx s) <= length r ->
  pop_data s = ROk c (set_ds (with_log [RPushData c] s) r).
Proof.
  intros Hd Hm. unfold pop_data. rewrite Hd.
  replace (ds_len (cx s) <? length (c :: r)) with true
    by (symmetry; apply Nat.ltb_lt; cbn [List.length]; lia).
  f_equal; destruct_state s; destruct rl0; state_crush.
Qed.

Lemma pop_data_under s : length (ds s) <= ds_len (cx s) -> pop_data s = RErr EUnderflow None s.
Proof.
  intros H. unfold pop_data. destruct (ds s) as [|c r] eqn:E; [reflexivity|].
  replace (ds_len (cx s) <? length (c :: r)) with false; [reflexivity|].
  symmetry. apply Nat.ltb_ge. assumption.
Qed.

Lemma top_data_run s c r : ds s = c :: r -> ds_len (cx s) <= length r -> top_data s = ROk c s.
Proof.
  intros Hd Hm. unfold top_data. rewrite Hd.
  replace (ds_len (cx s) <? length (c :: r)) with true
    by (symmetry; apply Nat.ltb_lt; cbn [List.length]; lia).
  reflexivity.
Qed.

Lemma run_pop1 {A} (k : cell -> M A) s a rest :
  ds s = a :: rest -> ds_len (cx s) <= length rest ->
  (let* x := pop_data in k x) s = k a (set_ds (with_log [RPushData a] s) rest).
Proof. intros Hd Hm. unfold bind. rewrite (pop_data_run s a rest Hd Hm). reflexivity. Qed.

Lemma run_pop2 {A} (k : cell -> cell -> M A) s a b rest :
  ds s = b :: a :: rest -> ds_len (cx s) <= length rest ->
  (let* y := pop_data in let* x := pop_data in k x y) s
  = k a b (set_ds (with_log [RPushData a; RPushData b] s) rest).
Proof.
  intros Hd Hm. unfold bind.
  rewrite (pop_data_run s b (a :: rest) Hd) by (cbn [List.length]; lia).
  rewrite (pop_data_run _ a rest).
  - f_equal; destruct_state s; destruct rl0; state_crush.
  - destruct_state s. destruct rl0; state_crush.
  - destruct_state s. destruct rl0; cbn in *; assumption.
Qed.

(* pushing on a state reached by popping *)
Lemma run_push s l c rest : limit_reached (stack_limit s) (length rest) = false ->
  push_data c (set_ds (with_log l s) rest) = ROk tt (set_ds (with_log (RPopData :: l) s) (c :: rest)).
Proof.
  intros H. unfold push_data.
  replace (limit_reached (stack_limit (set_ds (with_log l s) rest)) (length (ds (set_ds (with_log l s) rest))))
    with false.
  - f_equal; destruct_state s; destruct rl0; state_crush.
  - rewrite <- H. destruct_state s. destruct rl0; state_crush.
Qed.

Lemma run_push_limit s l c rest : limit_reached (stack_limit s) (length rest) = true ->
  push_data c (set_ds (with_log l s) rest) = RErr ELimit None (set_ds (with_log l s) rest).
Proof.
  intros H. unfold push_data.
  replace (limit_reached (stack_limit (set_ds (with_log l s) rest)) (length (ds (set_ds (with_log l s) rest))))
    with true; [reflexivity|].
  rewrite <- H. destruct_state s. destruct rl0; state_crush.
Qed.

Lemma push_data_run s c : limit_reached (stack_limit s) (length (ds s)) = false ->
  push_data c s = ROk tt (set_ds (with_log [RPopData] s) (c :: ds s)).
Proof.
  intros H. unfold push_data. rewrite H. f_equal; destruct_state s; destruct rl0; state_crush.
Qed.

Lemma push_data_err s c k p s' : push_data c s = RErr k p s' ->
  k = ELimit /\ p = None /\ s' = s /\ limit_reached (stack_limit s) (length (ds s)) = true.
Proof.
  unfold push_data. destruct (limit_reached (stack_limit s) (length (ds s))) eqn:E; [|discriminate].
  intros H. injection H as <- <- <-. auto.
Qed.

(* the state after a word that popped its operands and pushed a result differs from the
   initial state in the data stack and the reverse log only *)
Lemma result_erase l s v : erase_log (set_ds (with_log l s) v) = set_ds (erase_log s) v.
Proof. destruct_state s. destruct rl0; state_crush. Qed.

Lemma result_frame l s v :
  erase_log (set_ds (with_log l s) v) = set_ds (erase_log s) v /\
  rlog (set_ds (with_log l s) v) = match rlog s with Some old => Some (l ++ old)%list | None => None end.
Proof.
  split; [apply result_erase|]. destruct_state s. destruct rl0;
    cbv [with_log set_ds set_rlog dict heap code dbg sources input ds rs flows loops special cx nested
         meter insn_limit heap_limit stack_limit rlog out last_tok stopping]; reflexivity.
Qed.
