(* F64IeeeCmp.v: the comparison of real patterns in the model (f64_pcmp / f64_key, used by the
   words < <= > >= == <> and zero? positive? negative?) is IEEE comparison: Flocq's Bcompare. *)
From Coq Require Import ZArith Reals Lia Lra Psatz ZifyBool.
From Flocq Require Import Core.Core IEEE754.BinarySingleNaN IEEE754.Binary IEEE754.Bits.
From Xeh Require Import Model.Prelude Model.Bits Model.Cell Model.Vm Model.F64c Model.Words Model.Boot Model.F64.
From Xeh Require Import Proofs.WordRun Proofs.ArithNum Proofs.ArithProofs Proofs.F64cProofs Proofs.F64Ieee.
Local Open Scope Z_scope.

Lemma pcmp_pos (m1 m2 : Z) : 0 < m1 -> 0 < m2 -> Pcompare (Z.to_pos m1) (Z.to_pos m2) Eq = (m1 ?= m2).
Proof. intros H1 H2. change (Pcompare (Z.to_pos m1) (Z.to_pos m2) Eq) with (Pos.compare (Z.to_pos m1) (Z.to_pos m2)). symmetry. apply Z2Pos.inj_compare; assumption. Qed.

Lemma mag_compare E1 M1 E2 M2 : 0 <= E1 < 2047 -> 0 <= M1 < 2 ^ 52 -> 0 <= E2 < 2047 -> 0 <= M2 < 2 ^ 52 ->
  (E1 * 2 ^ 52 + M1 ?= E2 * 2 ^ 52 + M2) =
  match (if E1 =? 0 then -1074 else E1 - 1075) ?= (if E2 =? 0 then -1074 else E2 - 1075) with
  | Lt => Lt | Gt => Gt
  | Eq => (if E1 =? 0 then M1 else 2 ^ 52 + M1) ?= (if E2 =? 0 then M2 else 2 ^ 52 + M2)
  end.
Proof.
  intros H1 H2 H3 H4. rewrite p52 in *.
  destruct (Z.eqb_spec E1 0), (Z.eqb_spec E2 0);
  repeat match goal with |- context [?a ?= ?b] => destruct (Z.compare_spec a b) end; try reflexivity; lia.
Qed.

Lemma pcmp_flocq p q : f64_pat p -> f64_pat q ->
  f64_pcmp p q = b64_compare (b64_of_bits p) (b64_of_bits q).
Proof.
  intros Hp Hq. unfold f64_pcmp, b64_compare, Bcompare, BinarySingleNaN.Bcompare.
  rewrite (key_fields p Hp), (key_fields q Hq).
  destruct (f64_decompose p Hp) as (_ & Ep & Mp). destruct (f64_decompose q Hq) as (_ & Eq & Mq).
  pose proof (is_zero_fields p Hp) as Zp. pose proof (is_zero_fields q Hq) as Zq.
  destruct (b64_cases p Hp) as [(Z1 & B1)|[(E1 & M1 & B1)|[(N1 & pl1 & H1 & B1)|(F1 & Z1 & H1 & B1)]]];
  destruct (b64_cases q Hq) as [(Z2 & B2)|[(E2 & M2 & B2)|[(N2 & pl2 & H2 & B2)|(F2 & Z2 & H2 & B2)]]];
  rewrite B1, B2; cbn [B2BSN BinarySingleNaN.B2SF SpecFloat.SFcompare];
  try (rewrite N1; reflexivity); try (rewrite N2, Bool.orb_true_r; reflexivity).
  all: unfold f64_is_nan in *.
  all: rewrite ?Zp, ?Zq in *.
  all: try (replace ((f64_exp p =? 2047) && negb (f64_man p =? 0) || (f64_exp q =? 2047) && negb (f64_man q =? 0)) with false by lia).
  all: try solve [ f_equal; rewrite p52 in *; destruct (f64_neg p), (f64_neg q);
    match goal with |- (?a ?= ?b) = _ => destruct (Z.compare_spec a b) end; try reflexivity; lia ].
  f_equal.
  assert (P1 : 0 < f64_mant p) by (unfold f64_mant; rewrite p52 in *; destruct (Z.eqb_spec (f64_exp p) 0); lia).
  assert (P2 : 0 < f64_mant q) by (unfold f64_mant; rewrite p52 in *; destruct (Z.eqb_spec (f64_exp q) 0); lia).
  change (Pos.compare_cont Datatypes.Eq (Z.to_pos (f64_mant p)) (Z.to_pos (f64_mant q)))
    with (Pos.compare (Z.to_pos (f64_mant p)) (Z.to_pos (f64_mant q))).
  rewrite <- Z2Pos.inj_compare by assumption.
  pose proof (mag_compare (f64_exp p) (f64_man p) (f64_exp q) (f64_man q) ltac:(lia) Mp ltac:(lia) Mq) as MC.
  fold (f64_ex p) (f64_ex q) (f64_mant p) (f64_mant q) in MC.
  set (A := f64_exp p * 2 ^ 52 + f64_man p) in *. set (B := f64_exp q * 2 ^ 52 + f64_man q) in *.
  assert (0 < A) by (unfold A; rewrite p52 in *; lia). assert (0 < B) by (unfold B; rewrite p52 in *; lia).
  destruct (f64_neg p), (f64_neg q).
  - rewrite Z.compare_opp, Z.compare_antisym, MC. destruct (f64_ex p ?= f64_ex q); reflexivity.
  - destruct (Z.compare_spec (- A) B); try reflexivity; lia.
  - destruct (Z.compare_spec A (- B)); try reflexivity; lia.
  - rewrite MC. reflexivity.
Qed.

(* finite operands: the order of the real values *)
Lemma pcmp_real p q : f64_pat p -> f64_pat q -> f64_exp p <> 2047 -> f64_exp q <> 2047 ->
  f64_pcmp p q = Some (Rcompare (fval p) (fval q)) /\
  (f64_key p ?= f64_key q) = Rcompare (fval p) (fval q).
Proof.
  intros Hp Hq Fp Fq.
  assert (E : f64_pcmp p q = Some (Rcompare (fval p) (fval q))).
  { rewrite pcmp_flocq by assumption. unfold b64_compare.
    rewrite Bcompare_correct by (apply fin_true; assumption). reflexivity. }
  split; [exact E|].
  unfold f64_pcmp in E.
  destruct (f64_is_nan p || f64_is_nan q); [discriminate E|]. now injection E.
Qed.

Lemma pcmp_none p q : f64_pcmp p q = None <-> f64_is_nan p || f64_is_nan q = true.
Proof. unfold f64_pcmp. destruct (f64_is_nan p || f64_is_nan q); split; congruence. Qed.

Lemma key_zero s : f64_key (f64_zero s) = 0.
Proof. destruct s; reflexivity. Qed.

Lemma key_bounds p : f64_pat p -> f64_is_nan p = false ->
  f64_key (f64_inf true) <= f64_key p <= f64_key (f64_inf false) /\
  (f64_exp p <> 2047 -> f64_key (f64_inf true) < f64_key p < f64_key (f64_inf false)).
Proof.
  intros Hp N. rewrite (key_fields p Hp).
  destruct (f64_decompose p Hp) as (_ & He & Hm). unfold f64_is_nan in N.
  change (f64_key (f64_inf true)) with (- (2047 * 2 ^ 52)). change (f64_key (f64_inf false)) with (2047 * 2 ^ 52).
  rewrite p52 in *. destruct (f64_neg p); lia.
Qed.

(* the sign tests on a finite pattern *)
Lemma sign_tests_real_value r : f64_pat r -> f64_exp r <> 2047 ->
  f64_is_zero r = Req_bool (fval r) 0 /\ f64_pos r = Rlt_bool 0 (fval r) /\ f64_negv r = Rlt_bool (fval r) 0.
Proof.
  intros Hr Fr.
  destruct (pcmp_real r (f64_zero false) Hr (zero_pat false) Fr ltac:(cbn; lia)) as (_ & K).
  rewrite key_zero in K. change (fval (f64_zero false)) with (B2R 53 1024 (b64_of_bits 0)) in K.
  replace (B2R 53 1024 (b64_of_bits 0)) with 0%R in K by reflexivity.
  assert (N : f64_is_nan r = false).
  { unfold f64_is_nan. destruct (Z.eqb_spec (f64_exp r) 2047); [contradiction|reflexivity]. }
  unfold f64_pos, f64_negv. rewrite N. cbn [negb andb].
  assert (Zr : f64_is_zero r = (f64_key r =? 0)).
  { rewrite (key_fields r Hr), (is_zero_fields r Hr). destruct (f64_decompose r Hr) as (_ & He & Hm).
    rewrite p52 in *. destruct (f64_neg r); lia. }
  rewrite Zr. unfold Req_bool, Rlt_bool. rewrite (Rcompare_sym 0 (fval r)), <- K.
  destruct (Z.compare_spec (f64_key r) 0); cbn [CompOpp]; repeat split; lia.
Qed.

(* unordered operands: the comparison words treat them as equal *)
Lemma cmp_real_nan f s a b rest x y :
  args2 s a b rest -> room s rest -> value a = CReal x -> value b = CReal y ->
  f64_is_nan x || f64_is_nan y = true ->
  w_cmp f s = ok2 s a b rest (CFlag (f Eq)).
Proof.
  intros [Hd Hm] Hr Ha Hb N. unfold w_cmp. unfold bind at 1. unfold compare_cells.
  rewrite (run_pop2 _ s a b rest Hd Hm). rewrite Hb. unfold m_real. rewrite Ha.
  unfold bind, ret. unfold f64_pcmp. rewrite N. apply run_push. exact Hr.
Qed.

(* min / max: a NaN operand is ignored; on finite operands the smaller / larger real value *)
Lemma minmax_nan x y :
  (f64_is_nan x = true -> fl_min x y = y /\ fl_max x y = y) /\
  (f64_is_nan x = false -> f64_is_nan y = true -> fl_min x y = x /\ fl_max x y = x).
Proof.
  unfold fl_min, fl_max. split.
  - intros ->. split; reflexivity.
  - intros -> ->. split; reflexivity.
Qed.

Lemma minmax_real x y : f64_pat x -> f64_pat y -> f64_exp x <> 2047 -> f64_exp y <> 2047 ->
  (fl_min x y = x \/ fl_min x y = y) /\ (fl_max x y = x \/ fl_max x y = y) /\
  fval (fl_min x y) = Rmin (fval x) (fval y) /\ fval (fl_max x y) = Rmax (fval x) (fval y).
Proof.
  intros Hx Hy Fx Fy.
  destruct (pcmp_real x y Hx Hy Fx Fy) as (_ & K).
  assert (Nx : f64_is_nan x = false) by (unfold f64_is_nan; destruct (Z.eqb_spec (f64_exp x) 2047); [contradiction|reflexivity]).
  assert (Ny : f64_is_nan y = false) by (unfold f64_is_nan; destruct (Z.eqb_spec (f64_exp y) 2047); [contradiction|reflexivity]).
  unfold fl_min, fl_max. rewrite Nx, Ny.
  destruct (Z.compare_spec (f64_key x) (f64_key y)) as [E|L|G]; symmetry in K.
  - apply Rcompare_Eq_inv in K.
    replace (f64_key x <? f64_key y) with false by lia. replace (f64_key y <? f64_key x) with false by lia.
    rewrite <- K. rewrite Rmin_left, Rmax_left by lra.
    destruct (f64_neg x); repeat split; auto.
  - apply Rcompare_Lt_inv in K.
    replace (f64_key x <? f64_key y) with true by lia. replace (f64_key y <? f64_key x) with false by lia.
    rewrite Rmin_left, Rmax_right by lra. repeat split; auto.
  - apply Rcompare_Gt_inv in K.
    replace (f64_key x <? f64_key y) with false by lia. replace (f64_key y <? f64_key x) with true by lia.
    rewrite Rmin_right, Rmax_left by lra. repeat split; auto.
Qed.

(* the comparison words on finite reals, by value *)
Lemma cmp_real_value f s a b rest x y :
  args2 s a b rest -> room s rest -> value a = CReal x -> value b = CReal y ->
  f64_pat x -> f64_pat y -> f64_exp x <> 2047 -> f64_exp y <> 2047 ->
  w_cmp f s = ok2 s a b rest (CFlag (f (Rcompare (fval x) (fval y)))).
Proof.
  intros A R Va Vb Hx Hy Fx Fy.
  destruct (pcmp_real x y Hx Hy Fx Fy) as (_ & K). rewrite <- K.
  apply cmp_real; try assumption.
  - unfold f64_is_nan. destruct (Z.eqb_spec (f64_exp x) 2047); [contradiction|reflexivity].
  - unfold f64_is_nan. destruct (Z.eqb_spec (f64_exp y) 2047); [contradiction|reflexivity].
Qed.
