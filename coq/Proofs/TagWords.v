(* TagWords.v: every native word outside the tag/formatting words commutes with stripping. *)
From Xeh Require Import Model.Prelude Model.Bits Model.Codec Model.Cell Model.Lexer Model.Fmt
                        Model.Vm Model.BaseN Model.Words Proofs.BitsProofs Proofs.CellProofs Proofs.CollProofs
                        Proofs.TagProofs Proofs.TagSim.
From Coq Require Import Sorting.Sorted ZifyBool ZifyNat ZifyN.
Local Notation length := List.length.

#[local] Arguments Z.add : simpl never.
#[local] Arguments Z.sub : simpl never.
#[local] Arguments Z.mul : simpl never.
#[local] Arguments Z.ltb : simpl never.
#[local] Arguments Z.leb : simpl never.
#[local] Arguments Z.eqb : simpl never.
#[local] Arguments Z.of_nat : simpl never.
#[local] Arguments Z.to_nat : simpl never.

Notation simw w := (sim eq w w).

(* ---------- helpers ---------- *)
Lemma sim_vector_get : forall v v' i, lrel v v' -> sim crel (vector_get v i) (vector_get v' i).
Proof. intros. sim_go. Qed.
#[export] Hint Resolve sim_vector_get : simdb.

Lemma sim_push_all : forall v v', lrel v v' -> sim eq (push_all v) (push_all v').
Proof.
  induction v as [| x r IH]; intros v' H.
  - apply lrel_nil_inv_l in H. subst. apply sim_ret_eq.
  - pose proof (lrel_shape _ _ H) as Sh. destruct v' as [| x' r']; try contradiction.
    destruct Sh as [Hx Hr]. cbn [push_all]. eapply sim_bind; [apply sim_push_data; assumption|].
    intros. apply IH. assumption.
Qed.
#[export] Hint Resolve sim_push_all : simdb.

Lemma sim_pop_n : forall n, sim eq (pop_n n) (pop_n n).
Proof. induction n; cbn [pop_n]; [apply sim_ret_eq|]. eapply sim_bind; [apply sim_pop_data|]. intros; assumption. Qed.
#[export] Hint Resolve sim_pop_n : simdb.

Lemma sim_vec_collect : forall ptr, sim lrel (vec_collect_till_ptr ptr) (vec_collect_till_ptr ptr).
Proof.
  intro ptr. unfold vec_collect_till_ptr. apply sim_get_bind. intros s1 s2 H. cbv zeta.
  rewrite (srel_ds_length _ _ H). destruct (length (ds s2) <? ptr); [apply sim_fail; reflexivity|].
  eapply sim_bind; [apply sim_pop_n|]. intros _ _ _. apply sim_ret.
  apply lrel_rev, lrel_firstn, srel_ds. assumption.
Qed.

Lemma sim_map_collect : forall ptr, sim mrel (map_collect_till_ptr ptr) (map_collect_till_ptr ptr).
Proof.
  intro ptr. unfold map_collect_till_ptr. apply sim_get_bind. intros s1 s2 H. cbv zeta.
  rewrite (srel_ds_length _ _ H). destruct (length (ds s2) <? ptr); [apply sim_fail; reflexivity|].
  destruct (negb ((length (ds s2) - ptr) mod 2 =? 0)); [apply sim_fail; reflexivity|].
  eapply sim_bind; [apply sim_pop_n|]. intros _ _ _. apply sim_ret.
  apply pairs_insert_rel; [| apply mrel_nil]. apply lrel_rev, lrel_firstn, srel_ds. assumption.
Qed.
#[export] Hint Resolve sim_vec_collect sim_map_collect : simdb.

(* ---------- core and collection words ---------- *)
Lemma sim_w_equal : simw w_equal. Proof. sim_go. Qed.
Lemma sim_w_is_nil : simw w_is_nil.
Proof.
  unfold w_is_nil. eapply sim_bind; [apply sim_pop_data|]. intros a a' Ha.
  rewrite (crel_eqb (value a) (value a') CNil CNil (crel_value _ _ Ha) crel_nil). sim_go.
Qed.
Lemma sim_w_drop : simw w_drop. Proof. sim_go. Qed.
Lemma sim_w_length : simw w_length. Proof. sim_go. Qed.
Lemma sim_w_nth : simw w_nth. Proof. sim_go. Qed.
Lemma sim_w_get : simw w_get. Proof. sim_go. Qed.
Lemma sim_w_reverse : simw w_reverse. Proof. sim_go. Qed.
Lemma sim_w_push : simw w_push. Proof. sim_go. Qed.
Lemma sim_w_sort : simw w_sort. Proof. sim_go. Qed.
Lemma sim_w_insert : simw w_insert. Proof. sim_go. Qed.
Lemma sim_w_remove : simw w_remove. Proof. sim_go. Qed.
Lemma sim_w_slice : simw w_slice. Proof. sim_go. Qed.
Lemma sim_w_unbox : simw w_unbox. Proof. sim_go. Qed.
Lemma sim_w_collect : simw w_collect.
Proof.
  unfold w_collect. eapply sim_bind; [apply sim_pop_data|]. intros c c' Hc.
  eapply sim_bind; [apply sim_m_usize; assumption|]. intros n ? <-.
  apply sim_get_bind. intros s1 s2 H.
  rewrite (data_depth_srel _ _ H), (srel_ds_length _ _ H).
  destruct (Z.of_nat (data_depth s2) <? n)%Z; sim_go.
Qed.
Lemma sim_w_depth : simw w_depth.
Proof.
  unfold w_depth. apply sim_get_bind. intros s1 s2 H. rewrite (data_depth_srel _ _ H). sim_go.
Qed.
Lemma sim_w_vec_begin : simw w_vec_begin.
Proof.
  unfold w_vec_begin. apply sim_get_bind. intros s1 s2 H. rewrite (srel_ds_length _ _ H). sim_go.
Qed.
Lemma sim_w_vec_end : simw w_vec_end. Proof. sim_go. Qed.
Lemma sim_w_map_end : simw w_map_end. Proof. sim_go. Qed.
Lemma sim_w_error : simw w_error. Proof. sim_go. Qed.
Lemma sim_w_assert : simw w_assert. Proof. sim_go. Qed.
Lemma sim_w_assert_eq : simw w_assert_eq. Proof. sim_go. Qed.
Lemma sim_w_exit : simw w_exit. Proof. sim_go. Qed.
Lemma sim_w_newline : simw w_newline. Proof. sim_go. Qed.
Lemma sim_w_foreach_init : simw w_foreach_init. Proof. sim_go. Qed.
Lemma sim_w_let_map_begin : simw w_let_map_begin. Proof. sim_go. Qed.
Lemma sim_w_let_map_end : simw w_let_map_end. Proof. sim_go. Qed.
Lemma sim_w_let_map_lookup : simw w_let_map_lookup. Proof. sim_go. Qed.
Lemma sim_w_let_vec_len : simw w_let_vec_len. Proof. sim_go. Qed.
Lemma sim_w_let_vec_any_len : simw w_let_vec_any_len. Proof. sim_go. Qed.
Lemma sim_w_let_vec_at : simw w_let_vec_at. Proof. sim_go. Qed.
Lemma sim_w_let_vec_rest : simw w_let_vec_rest. Proof. sim_go. Qed.

(* loops *)
Lemma active_loops_rel : forall s1 s2, srel s1 s2 -> looprel (active_loops s1) (active_loops s2).
Proof.
  intros s1 s2 H. unfold active_loops. rewrite (srel_cx _ _ H), (srel_loops_length _ _ H).
  destruct (srel_looprel _ _ H) as (E & A & B). split.
  - rewrite <- !firstn_map, E. reflexivity.
  - split; eapply Forall_incl; eauto using incl_firstn.
Qed.

Lemma looprel_nth : forall a b n, looprel a b ->
  orel (fun l l' => crel (l_items l) (l_items l') /\ l_start l = l_start l' /\ l_end l = l_end l')
       (nth_error a n) (nth_error b n).
Proof.
  induction a as [| l r IH]; intros b n H; pose proof (looprel_shape _ _ H) as Sh;
    destruct b as [| l' r']; try contradiction.
  - destruct n; exact I.
  - destruct Sh as [Hl Hr]. destruct n; cbn; auto.
Qed.

Lemma sim_w_counter : forall n, simw (w_counter n).
Proof.
  intro n. unfold w_counter. apply sim_get_bind. intros s1 s2 H.
  pose proof (looprel_nth _ _ n (active_loops_rel _ _ H)) as N.
  destruct (nth_error (active_loops s1) n) as [l|], (nth_error (active_loops s2) n) as [l'|];
    cbn [orel] in N; try contradiction; [| sim_go].
  destruct N as (Hi & Hs & He). rewrite Hs. sim_go.
Qed.

Lemma sim_w_foreach_next : simw w_foreach_next.
Proof.
  unfold w_foreach_next. apply sim_get_bind. intros s1 s2 H.
  pose proof (looprel_shape _ _ (active_loops_rel _ _ H)) as Sh.
  destruct (active_loops s1) as [| l r], (active_loops s2) as [| l' r']; try contradiction; [sim_go|].
  destruct Sh as [(Hi & Hs & He) _]. rewrite Hs. sim_go.
Qed.

(* ---------- arithmetic, logic, type tests ---------- *)
Section Arith.
  Variable fo : fops.
  Lemma sim_w_add : simw (w_add fo). Proof. sim_go. Qed.
  Lemma sim_w_sub : simw (w_sub fo). Proof. sim_go. Qed.
  Lemma sim_w_mul : simw (w_mul fo). Proof. sim_go. Qed.
  Lemma sim_w_div : simw (w_div fo). Proof. sim_go. Qed.
  Lemma sim_w_rem : simw (w_rem fo). Proof. sim_go. Qed.
  Lemma sim_w_neg : simw w_neg. Proof. sim_go. Qed.
  Lemma sim_w_abs : simw w_abs. Proof. sim_go. Qed.
  Lemma sim_w_cmp : forall f, simw (w_cmp f). Proof. intro. sim_go. Qed.
  Lemma sim_w_min : simw (w_min fo). Proof. sim_go. Qed.
  Lemma sim_w_max : simw (w_max fo). Proof. sim_go. Qed.
  Lemma sim_w_logic : forall f, simw (w_logic f). Proof. intro. sim_go. Qed.
  Lemma sim_w_not : simw w_not. Proof. sim_go. Qed.
  Lemma sim_arith_int : forall f, simw (arith_int f). Proof. intro. sim_go. Qed.
  Lemma sim_w_bnot : simw w_bnot. Proof. sim_go. Qed.
  Lemma sim_w_popcnt : simw w_popcnt. Proof. sim_go. Qed.
  Lemma sim_w_into_real : simw (w_into_real fo). Proof. sim_go. Qed.
  Lemma sim_w_into_int : simw (w_into_int fo). Proof. sim_go. Qed.
  Lemma sim_w_round : simw (w_round fo). Proof. sim_go. Qed.
  Lemma sim_w_sign_test : forall f g, simw (w_sign_test f g). Proof. intros. sim_go. Qed.

  Lemma sim_w_is : forall f, (forall v v', vrel v v' -> f v = f v') -> simw (w_is f).
  Proof.
    intros f Hf. unfold w_is. eapply sim_bind; [apply sim_pop_data|]. intros a a' Ha.
    rewrite (Hf _ _ (crel_vrel _ _ Ha)). sim_go.
  Qed.

  (* ---------- bit-string module ---------- *)
  Lemma sim_current_input : sim eq current_input current_input. Proof. sim_go. Qed.
  Lemma sim_current_offset : sim eq current_offset current_offset. Proof. sim_go. Qed.
  Lemma sim_current_big : sim eq current_big current_big. Proof. sim_go. Qed.
  Lemma sim_current_order : sim eq current_order current_order. Proof. sim_go. Qed.
  Lemma sim_move_offset : forall p, sim eq (move_offset_checked p) (move_offset_checked p). Proof. intro. sim_go. Qed.
  Lemma sim_peek_bits : forall n, sim eq (peek_bits n) (peek_bits n). Proof. intro. sim_go. Qed.
  Lemma sim_rest_bits : sim eq rest_bits rest_bits. Proof. sim_go. Qed.
  Hint Resolve sim_current_input sim_current_offset sim_current_big sim_current_order sim_move_offset
       sim_peek_bits sim_rest_bits : simdb.

  Lemma sim_read_bits : forall n, simw (read_bits n). Proof. intro. sim_go. Qed.
  Lemma sim_read_unsigned : forall n o, simw (read_unsigned n o). Proof. intros. sim_go. Qed.
  Lemma sim_read_signed : forall n o, simw (read_signed n o). Proof. intros. sim_go. Qed.
  Lemma sim_read_float : forall n o, simw (read_float fo n o). Proof. intros. sim_go. Qed.
  Lemma sim_pack_int : forall n o, simw (pack_int n o). Proof. intros. sim_go. Qed.
  Lemma sim_pack_float : forall n o, simw (pack_float fo n o). Proof. intros. sim_go. Qed.
  Hint Resolve sim_read_bits sim_read_unsigned sim_read_signed sim_read_float sim_pack_int sim_pack_float : simdb.

  Lemma sim_with_order : forall f, (forall o, simw (f o)) -> simw (with_order f).
  Proof. intros f H. unfold with_order. eapply sim_bind; [apply sim_current_order|]. intros o ? <-. apply H. Qed.
  Lemma sim_with_size : forall f, (forall n, simw (f n)) -> simw (with_size f).
  Proof.
    intros f H. unfold with_size. eapply sim_bind; [apply sim_pop_data|]. intros c c' Hc.
    eapply sim_bind; [apply sim_m_usize; assumption|]. intros n ? <-. apply H.
  Qed.

  Lemma sim_w_open_bitstr : simw w_open_bitstr. Proof. sim_go. Qed.
  Lemma sim_w_units : forall k, simw (w_units k). Proof. intro. sim_go. Qed.
  Lemma sim_w_seek : simw w_seek. Proof. sim_go. Qed.
  Lemma sim_w_remain : simw w_remain. Proof. sim_go. Qed.
  Lemma sim_w_find : simw w_find. Proof. sim_go. Qed.
  Lemma sim_w_bitstr_len : simw w_bitstr_len. Proof. sim_go. Qed.
  Lemma sim_w_bitstr_append : simw w_bitstr_append. Proof. sim_go. Qed.
  Lemma sim_w_bitstr_not : simw w_bitstr_not. Proof. sim_go. Qed.
  Lemma sim_w_bitstr_zip : forall f, simw (w_bitstr_zip f). Proof. intro. sim_go. Qed.
  Lemma sim_w_hex_to_bitstr : simw w_hex_to_bitstr. Proof. sim_go. Qed.
  Lemma sim_w_bitstr_to_hex : simw w_bitstr_to_hex. Proof. sim_go. Qed.
  Lemma sim_w_set_order : forall b, simw (w_set_order b). Proof. intro. sim_go. Qed.
  Lemma sim_w_magic : simw w_magic. Proof. sim_go. Qed.
  Lemma sim_w_emit : simw w_emit. Proof. sim_go. Qed.
  Lemma sim_nulbytestr_read : sim eq nulbytestr_read nulbytestr_read. Proof. sim_go. Qed.
  Lemma sim_w_nulbytestr : simw w_nulbytestr. Proof. sim_go. Qed.
  Lemma sim_w_cstr : simw w_cstr. Proof. sim_go. Qed.

  (* >bitstr walks nested vectors *)
  Definition bcv_rel (r r' : outcome cbs * option cell) : Prop :=
    fst r = fst r' /\ option_map strip (snd r) = option_map strip (snd r').

  Lemma bcv_unfold : forall f v acc,
    bitstr_concat_vec (S f) v acc =
    match v with
    | [] => (Ok acc, None)
    | x :: r =>
      match value x with
      | CInt i => if ((0 <=? i) && (i <=? 255))%Z
                  then bitstr_concat_vec (S f) r (Bits.append false acc (from_bytes [Z.to_N i]))
                  else (Err EOverflow, None)
      | CStr t => bitstr_concat_vec (S f) r (Bits.append false acc (from_bytes (bytes_of_string t)))
      | CBits b => bitstr_concat_vec (S f) r (Bits.append false acc b)
      | CVec v2 =>
        match bitstr_concat_vec f v2 (mkcbs 0 0 []) with
        | (Ok b2, _) => bitstr_concat_vec (S f) r (Bits.append false acc b2)
        | e => e
        end
      | other => (Err EType, Some other)
      end
    end.
  Proof. intros f v acc. destruct v; reflexivity. Qed.

  Lemma bcv_sim : forall f v v' acc, lrel v v' -> bcv_rel (bitstr_concat_vec f v acc) (bitstr_concat_vec f v' acc).
  Proof.
    induction f as [| f IHf]; intros v v' acc H; [split; reflexivity|].
    revert v' acc H. induction v as [| x r IHv]; intros v' acc H.
    - apply lrel_nil_inv_l in H. subst. split; reflexivity.
    - pose proof (lrel_shape _ _ H) as Sh. destruct v' as [| x' r']; try contradiction.
      destruct Sh as [Hx Hr]. rewrite !bcv_unfold.
      pose proof (crel_vrel _ _ Hx) as V. pose proof (vrel_strip _ _ V) as S. revert V S.
      generalize (value x) (value x'). intros y y' V S.
      destruct V; try (split; [reflexivity | cbn; f_equal; exact S]); auto.
      + destruct ((0 <=? z) && (z <=? 255))%Z; auto. split; reflexivity.
      + pose proof (IHf l l' (mkcbs 0 0 []) H0) as [E1 E2].
        destruct (bitstr_concat_vec f l (mkcbs 0 0 [])) as [o p], (bitstr_concat_vec f l' (mkcbs 0 0 [])) as [o' p'].
        cbn [fst snd] in *. subst o'. destruct o; auto; split; auto.
  Qed.

  Lemma sim_bitstr_concat : forall c c', crel c c' -> sim eq (bitstr_concat c) (bitstr_concat c').
  Proof.
    intros c c' H. unfold bitstr_concat. by_vrel_go H; try (sim_go; fail).
    pose proof (bcv_sim 40 l l' (mkcbs 0 0 []) H0) as [E1 E2].
    destruct (bitstr_concat_vec 40 l (mkcbs 0 0 [])) as [o p], (bitstr_concat_vec 40 l' (mkcbs 0 0 [])) as [o' p'].
    cbn [fst snd] in *. subst o'. destruct o; [apply sim_ret_eq | apply sim_fail; assumption | apply sim_unsup].
  Qed.
  Hint Resolve sim_bitstr_concat : simdb.
  Lemma sim_into_bitstr : sim eq into_bitstr into_bitstr. Proof. sim_go. Qed.
  Hint Resolve sim_into_bitstr : simdb.
  Lemma sim_w_into_bitstr : simw w_into_bitstr. Proof. sim_go. Qed.
  Lemma sim_w_encode : forall e, simw (w_encode e). Proof. intro. sim_go. Qed.
  Lemma sim_w_decode : forall d, simw (w_decode d).
  Proof.
    intro d. unfold w_decode. apply sim_get_bind. intros s1 s2 H.
    rewrite (srel_cx _ _ H), (srel_ds_length _ _ H). sim_go.
  Qed.
End Arith.

#[export] Hint Resolve sim_current_input sim_current_offset sim_current_big sim_current_order sim_move_offset
  sim_peek_bits sim_rest_bits sim_read_bits sim_read_unsigned sim_read_signed sim_read_float sim_pack_int
  sim_pack_float sim_bitstr_concat sim_into_bitstr sim_nulbytestr_read : simdb.

(* ---------- the tag words that only write tags also commute ---------- *)
Lemma sim_w_with_tags : simw w_with_tags. Proof. sim_go. Qed.
Lemma sim_w_insert_tag : simw w_insert_tag. Proof. sim_go. Qed.
Lemma sim_w_remove_tag : simw w_remove_tag. Proof. sim_go. Qed.
Lemma sim_w_tagmap_end : simw w_tagmap_end.
Proof. unfold w_tagmap_end. eapply sim_bind; [apply sim_w_map_end|]. intros. apply sim_w_with_tags. Qed.

(* ---------- the table ---------- *)
(* words that READ tags: the tag accessors, the formatting-flag words, the printing words that
   honour the #fmt tag, and close-bitstr, which keeps the saved offset in a tag *)
Definition tag_readers : list string :=
  ["tags"; "get-tag"; "%fmt-base"; "%fmt-prefix"; "%fmt-tags"; "%fmt-upcase";
   "print"; "println"; ".s"; "concat"; "join"; "str>number"; "close-bitstr"]%string.
Definition tag_reader (w : string) : bool := existsb (String.eqb w) tag_readers.

#[export] Hint Resolve sim_w_equal sim_w_is_nil sim_w_collect sim_w_depth sim_w_vec_begin sim_w_counter
  sim_w_foreach_next sim_w_decode sim_w_tagmap_end : simdb.

Ltac word_sim :=
  cbn [snd];
  first [ solve [ sim_go ]
        | solve [ apply sim_w_is; intros ? ? []; reflexivity ]
        | solve [ apply sim_with_size; intro; sim_go ]
        | solve [ apply sim_with_size; intro; apply sim_with_order; intro; sim_go ] ].

Lemma sim_word_table : forall fo,
  Forall (fun nw => tag_reader (fst nw) = true \/ simw (snd nw)) (word_table fo).
Proof.
  intro fo. unfold word_table.
  repeat (apply Forall_cons; [ first [ left; reflexivity | right; word_sim ] | ]).
  apply Forall_nil.
Qed.

Lemma sim_sized_word : forall fo name w, sized_word fo name = Some w -> simw w.
Proof.
  intros fo name w H. unfold sized_word in H. cbv beta zeta in H.
  repeat match type of H with
         | context [if ?b then _ else _] =>
           destruct b; cbv beta iota in H;
           [ injection H as <-;
             first [ solve [ sim_go ] | solve [ apply sim_with_order; intro; sim_go ] ] | ]
         end.
  discriminate.
Qed.

Lemma table_find_named : forall (P : string -> M unit -> Prop) t name w,
  Forall (fun nw => P (fst nw) (snd nw)) t -> table_find t name = Some w -> P name w.
Proof.
  induction t as [| [n x] r IH]; intros name w HF H; cbn [table_find] in H.
  - discriminate.
  - inversion HF; subst. destruct (String.eqb n name) eqn:E.
    + injection H as <-. apply String.eqb_eq in E. subst. assumption.
    + eapply IH; eauto.
Qed.

Lemma sized_not_reader : forall fo name w, sized_word fo name = Some w -> tag_reader name = false.
Proof.
  intros fo name w H. unfold sized_word in H. cbv beta zeta in H.
  repeat match type of H with
         | context [if ?b then _ else _] =>
           let E := fresh "E" in
           destruct b eqn:E; cbv beta iota in H;
           [ clear H;
             repeat match type of E with
                    | (_ || _)%bool = true => apply Bool.orb_true_iff in E; destruct E as [E|E]
                    end;
             apply String.eqb_eq in E; subst name; reflexivity | clear E ]
         end.
  discriminate.
Qed.

(* every native word that does not read tags is a simulation *)
Theorem native_sim : forall fo w f, native_fn fo w = Some f -> tag_reader w = false -> sim eq f f.
Proof.
  intros fo w f H Hx. unfold native_fn in H.
  destruct (table_find (word_table fo) w) eqn:E.
  - injection H as <-.
    pose proof (table_find_named (fun n x => tag_reader n = true \/ simw x) _ _ _ (sim_word_table fo) E) as [T|T];
      [congruence | exact T].
  - eapply sim_sized_word; eauto.
Qed.

Lemma rrel_res_strip : forall A (r1 r2 : res A), rrel eq r1 r2 -> res_strip r1 = res_strip r2.
Proof.
  intros A r1 r2 H. destruct r1, r2; cbn in *; try contradiction; auto.
  - destruct H as [-> [E _]]. rewrite E. reflexivity.
  - destruct H as (-> & Ep & [E _]). rewrite E, Ep. reflexivity.
Qed.

(* the main theorem: strip first or strip afterwards, the result is the same
   (same kind of result, same error kind, payload and final state equal after stripping) *)
Theorem strip_commutes : forall fo w f s,
  native_fn fo w = Some f -> tag_reader w = false -> tagwf_state s ->
  res_strip (f s) = res_strip (f (strip_state s)).
Proof.
  intros fo w f s H Hx Hs. apply rrel_res_strip.
  apply (native_sim fo w f H Hx). apply srel_strip. assumption.
Qed.

(* more generally: any two states that agree after stripping *)
Theorem strip_commutes_rel : forall fo w f s1 s2,
  native_fn fo w = Some f -> tag_reader w = false ->
  tagwf_state s1 -> tagwf_state s2 -> strip_state s1 = strip_state s2 ->
  res_strip (f s1) = res_strip (f s2).
Proof.
  intros fo w f s1 s2 H Hx H1 H2 E. apply rrel_res_strip.
  apply (native_sim fo w f H Hx). split; auto.
Qed.

(* the hypothesis is an invariant: these words never build a doubly wrapped value *)
Theorem native_preserves_tagwf : forall fo w f s,
  native_fn fo w = Some f -> tag_reader w = false -> tagwf_state s ->
  match f s with
  | ROk _ s' => tagwf_state s'
  | RErr _ _ s' => tagwf_state s'
  | _ => True
  end.
Proof.
  intros fo w f s H Hx Hs.
  pose proof (native_sim fo w f H Hx s s (conj eq_refl (conj Hs Hs))) as R.
  destruct (f s); cbn in R; auto.
  - destruct R as [_ (_ & T & _)]. exact T.
  - destruct R as (_ & _ & (_ & T & _)). exact T.
Qed.

(* the table entries the theorem speaks about, and the ones it leaves out *)
Definition covered_words (fo : fops) : list string :=
  filter (fun w => negb (tag_reader w)) (map fst (word_table fo)).

(* ---------- the words left out do read tags ---------- *)
Definition ex_state (d h : list cell) : state :=
  mkstate [] h [] [] [] [] d [] [] [] [] (mkctx 0 0 0 0 0 0 0 0 MEval) [] 0%Z None None None None EmptyString None false.

Definition ex_tagged : cell := CTag [(CStr "k", CInt 7)] (CInt 1).

Definition top_of {A} (r : res A) : option cell :=
  match r with ROk _ s => hd_error (ds s) | _ => None end.

Example tags_reads_tags :
  let s := ex_state [ex_tagged] [] in
  top_of (res_strip (w_tags s)) = Some (CMap [(CStr "k", CInt 7)]) /\
  top_of (res_strip (w_tags (strip_state s))) = Some CNil.
Proof. vm_compute. auto. Qed.

Example get_tag_reads_tags :
  let s := ex_state [CStr "k"; ex_tagged] [] in
  top_of (res_strip (w_get_tag s)) = Some (CInt 7) /\
  top_of (res_strip (w_get_tag (strip_state s))) = Some CNil.
Proof. vm_compute. auto. Qed.

(* print honours the #fmt tag: base 16 with prefix *)
Example print_reads_tags :
  let s := ex_state [CTag [(fmt_tag_name, CInt (16 + 256))] (CInt 255)] [] in
  option_map out (res_state (w_print s)) = Some "0xff"%string /\
  option_map out (res_state (w_print (strip_state s))) = Some "255"%string.
Proof. vm_compute. auto. Qed.

(* close-bitstr restores the offset it saved in a tag of the stashed input: with the heap
   stripped the offset is lost *)
Definition ex_bits : cell := CBits (mkcbs 0 16 [1%N; 2%N]).
Definition ex_close_state : state :=
  ex_state [] [CInt 0; ex_bits; CInt 0; CVec [CTag [(CStr "offset", CInt 8)] ex_bits]; CNil; CInt 0].

Example close_bitstr_reads_tags :
  tagwf_state ex_close_state /\
  option_map (fun s => nth_error (heap s) R_OFFSET) (res_state (res_strip (w_close_bitstr ex_close_state)))
    = Some (Some (CInt 8)) /\
  option_map (fun s => nth_error (heap s) R_OFFSET) (res_state (res_strip (w_close_bitstr (strip_state ex_close_state))))
    = Some (Some (CInt 0)).
Proof.
  split; [| vm_compute; auto].
  unfold tagwf_state, ex_close_state, ex_state. cbn.
  repeat split; repeat constructor; cbn; auto.
Qed.

Theorem close_bitstr_not_commuting :
  exists s, tagwf_state s /\ res_strip (w_close_bitstr s) <> res_strip (w_close_bitstr (strip_state s)).
Proof.
  exists ex_close_state. destruct close_bitstr_reads_tags as (T & A & B). split; auto.
  intro E. rewrite E in A. rewrite A in B. discriminate.
Qed.

(* ---------- the statement with the exclusion list of the design note ---------- *)
Definition design_excluded : list string :=
  ["tags"; "with-tags"; "insert-tag"; "remove-tag"; "get-tag"; "%tagmap-end";
   "%fmt-base"; "%fmt-prefix"; "%fmt-tags"; "%fmt-upcase";
   "print"; "println"; ".s"; "concat"; "join"; "str>number"]%string.

Definition strip_commutes_full : Prop :=
  forall fo w f s, native_fn fo w = Some f -> ~ In w design_excluded -> tagwf_state s ->
                   res_strip (f s) = res_strip (f (strip_state s)).

Definition dummy_fops : fops :=
  mkfops (fun a _ => a) (fun a _ => a) (fun a _ => a) (fun a _ => a) (fun a _ => a) (fun a _ => a) (fun a _ => a)
         (fun a => a) (fun a => a) (fun a => a) (fun a => a) (fun a => a).

(* FALSE as it stands: close-bitstr is not in the list but reads the "offset" tag it stashed *)
Theorem strip_commutes_full_refuted : ~ strip_commutes_full.
Proof.
  intro H. destruct close_bitstr_not_commuting as (s & Hs & Hne). apply Hne.
  apply (H dummy_fops "close-bitstr"%string w_close_bitstr s); auto.
  cbn. intuition discriminate.
Qed.

Lemma tag_reader_design : forall w, tag_reader w = true -> In w design_excluded \/ w = "close-bitstr"%string.
Proof.
  intros w H. unfold tag_reader in H. apply existsb_exists in H. destruct H as (x & Hx & E).
  apply String.eqb_eq in E. subst x. cbn in Hx. cbn. intuition.
Qed.

(* ... and true for every other word *)
Theorem strip_commutes_full_partial : forall fo w f s,
  native_fn fo w = Some f -> ~ In w design_excluded -> w <> "close-bitstr"%string -> tagwf_state s ->
  res_strip (f s) = res_strip (f (strip_state s)).
Proof.
  intros fo w f s H Hx Hc Hs. eapply strip_commutes; eauto.
  destruct (tag_reader w) eqn:E; auto. apply tag_reader_design in E. tauto.
Qed.

(* a concrete run: tagged arguments at depth 0, 1 and 2 *)
Definition ex_t : list (cell * cell) := [(CStr "k", CInt 7)].
Definition ex_args_state : state :=
  ex_state [CTag ex_t (CInt 1); CTag [(fmt_tag_name, CInt 16)] (CVec [CTag ex_t (CInt 0); CVec [CTag ex_t (CStr "x")]])] [].

Example strip_commutes_nonvacuous : forall fo,
  tagwf_state ex_args_state /\ native_fn fo "nth"%string = Some w_nth /\ tag_reader "nth"%string = false /\
  top_of (w_nth ex_args_state) = Some (CVec [CTag ex_t (CStr "x")]) /\
  top_of (w_nth (strip_state ex_args_state)) = Some (CVec [CStr "x"]) /\
  res_strip (w_nth ex_args_state) = res_strip (w_nth (strip_state ex_args_state)).
Proof.
  intro fo. split; [| split; [reflexivity | split; [reflexivity | vm_compute; repeat split; reflexivity]]].
  unfold tagwf_state, ex_args_state, ex_state. cbn [ds heap loops]. repeat split; ok_tac.
Qed.
