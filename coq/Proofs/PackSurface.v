(* PackSurface.v: C07 at the level of source text: the byte order is switched with
   `big` / `little` between fields and every width is a literal in front of
   int! uint! float! int uint float bits. *)
From Xeh Require Import Model.Prelude Model.Bits Model.Codec Model.Cell Model.Lexer Model.Fmt
                        Model.Vm Model.Words.
From Xeh Require Import Proofs.BitsBasic Proofs.BitsLists Proofs.BitsMirror Proofs.BitsProofs
                        Proofs.CodecBasic Proofs.CodecProofs Proofs.VmStep Proofs.CursorDefs
                        Proofs.CursorProofs Proofs.CursorProgress Proofs.PackDefs Proofs.PackProofs
                        Proofs.PackBuild.
From Coq Require Import ZifyBool ZifyNat ZifyN.
Local Notation length := List.length.

#[local] Arguments Z.add : simpl never.
#[local] Arguments Z.sub : simpl never.
#[local] Arguments Z.mul : simpl never.
#[local] Arguments Z.ltb : simpl never.
#[local] Arguments Z.leb : simpl never.
#[local] Arguments Z.eqb : simpl never.
#[local] Arguments Z.of_nat : simpl never.
#[local] Arguments Z.to_nat : simpl never.
#[local] Arguments Z.pow : simpl never.

(* heaps that differ at most in the byte-order cell *)
Definition hsame (h h' : list cell) : Prop :=
  length h' = length h /\ forall a, a <> R_BIG -> nth_error h' a = nth_error h a.

Lemma hsame_refl h : hsame h h.
Proof. split; auto. Qed.

Lemma hsame_trans a b c : hsame a b -> hsame b c -> hsame a c.
Proof. intros (L1 & H1) (L2 & H2). split; [congruence|]. intros x Hx. rewrite H2, H1; auto. Qed.

Lemma hsame_set_big h c : hsame h (list_set h R_BIG c).
Proof. split; [apply list_set_len|]. intros a Ha. apply nth_list_set_other. auto. Qed.

Lemma hsame_cursor h h' inp off : hcursor h inp off -> hsame h h' -> hcursor h' inp off.
Proof.
  intros (Hl & Hi & Ho & Hrest) (L & H). unfold hcursor, h_input, h_offset in *.
  rewrite L, !H by (unfold R_INPUT, R_OFFSET, R_BIG; lia). auto.
Qed.

Lemma hsame_stash h h' : hsame h h' -> h_stash h' = h_stash h.
Proof. intros (_ & H). unfold h_stash. rewrite H by (unfold R_STASH, R_BIG; lia). reflexivity. Qed.


Definition order_cell (o : order) : cell := cint (if big_flag o then 1 else 0).

Lemma order_of_flag o h : 6 <= length h -> h_order (list_set h R_BIG (order_cell o)) = Some o.
Proof.
  intros Hl. unfold h_order. rewrite nth_list_set_same by (unfold R_BIG; lia).
  destruct o; reflexivity.
Qed.

(* ---------- the building blocks ---------- *)
Lemma wp_set_order o s0 s d h (Q : unit -> state -> Prop) (E : ekind -> option cell -> state -> Prop) (U : Prop) :
  st s0 s d h -> notmeta s0 -> 6 <= length h ->
  (forall s', st s0 s' d (list_set h R_BIG (order_cell o)) -> Q tt s') ->
  wp (w_set_order (big_flag o)) s Q E U.
Proof.
  intros Hst Hm Hl HQ. unfold w_set_order. eapply wp_set_var; eauto. unfold R_BIG. lia.
Qed.

Lemma wp_m_usize_ok c z s (Q : Z -> state -> Prop) (E : ekind -> option cell -> state -> Prop) (U : Prop) :
  is_usize c z -> Q z s -> wp (m_usize c) s Q E U.
Proof.
  intros Hz HQ. apply wp_m_usize.
  - intros z' (Hv' & _). destruct Hz as (Hv & _). rewrite Hv in Hv'. injection Hv' as <-. exact HQ.
  - intros Hno. exfalso. apply (Hno z). exact Hz.
Qed.

(* a literal width in front of a sized word *)
Lemma wp_lit_size w (f : Z -> M unit) s0 s d h (Q : unit -> state -> Prop)
      (E : ekind -> option cell -> state -> Prop) (U : Prop) :
  st s0 s d h -> limit_reached (stack_limit s0) (length d) = false ->
  ds_len (cx s0) <= length d -> (Z.of_nat w < two64)%Z ->
  (forall s', st s0 s' d h -> wp (f (Z.of_nat w)) s' Q E U) ->
  wp (push_data (cnat w) ;; with_size f) s Q E U.
Proof.
  intros Hst Hroom Hmark Hw HQ. apply wp_bind. eapply wp_push_data_ok; [exact Hst|exact Hroom|].
  intros s1 Hs1. unfold with_size. apply wp_bind.
  eapply wp_pop_data_ok; [exact Hs1|cbn [length]; lia|]. intros s2 Hs2.
  apply wp_bind. apply (wp_m_usize_ok _ (Z.of_nat w)).
  - split; [reflexivity|lia].
  - apply HQ. exact Hs2.
Qed.

Lemma wp_with_order_known (f : order -> M unit) o s0 s d h (Q : unit -> state -> Prop)
      (E : ekind -> option cell -> state -> Prop) (U : Prop) :
  st s0 s d h -> notmeta s0 -> h_order h = Some o ->
  wp (f o) s Q E U -> wp (with_order f) s Q E U.
Proof.
  intros Hst Hm Ho HQ. unfold with_order, current_order, current_big.
  unfold h_order in Ho. destruct (nth_error h R_BIG) as [c|] eqn:Ec; [|discriminate].
  injection Ho as <-.
  apply wp_bind. apply wp_bind. apply wp_bind. eapply wp_get_var; [exact Hst|exact Hm|exact Ec|].
  exact HQ.
Qed.

(* running [w_set_order] *)
Lemma set_order_ok o s : notmeta s -> 6 <= length (heap s) ->
  exists s1, w_set_order (big_flag o) s = ROk tt s1 /\
             st s s1 (ds s) (list_set (heap s) R_BIG (order_cell o)).
Proof.
  intros Hm Hl.
  assert (Hwp : wp (w_set_order (big_flag o)) s
                   (fun _ s1 => st s s1 (ds s) (list_set (heap s) R_BIG (order_cell o)))
                   (fun _ _ _ => False) False).
  { eapply wp_set_order; eauto using st_init. }
  apply wp_total in Hwp. destruct Hwp as ([] & s1 & H1 & H2). eauto.
Qed.

Section SurfaceRead.
  Variable fo : fops.

  (* the result of reading one field from source text: the value on top, the cursor advanced,
     the stash untouched *)
  Definition src_read_post (s s' : state) (inp : cbs) (off : Z) (f : field) (v : cell) : Prop :=
    ds s' = v :: ds s /\ sim s s' /\
    cursor s' inp (off + Z.of_nat (width f)) /\ h_stash (heap s') = h_stash (heap s) /\
    field_value fo f v.

  (* order-switched, width-literal numeric read; [rd] is one of the three numeric readers *)
  Lemma src_numeric (rd : Z -> order -> M unit) (mk : cbs -> order -> cell) s inp off w o :
    cursor s inp off -> ds_len (cx s) <= length (ds s) ->
    limit_reached (stack_limit s) (length (ds s)) = false ->
    (Z.of_nat w < two64)%Z -> (off + Z.of_nat w <= Z.of_nat (cend inp))%Z ->
    (forall sb, cursor sb inp off -> forall s1 d, st sb s1 d (heap sb) ->
        limit_reached (stack_limit sb) (length d) = false ->
        wp (rd (Z.of_nat w) o) s1
           (fun _ s' => after_read sb s' off (Z.of_nat w) d (mk (sub inp off (Z.of_nat w)) o))
           ENone False) ->
    exists s', (w_set_order (big_flag o) ;; push_data (cnat w) ;;
                with_size (fun n => with_order (rd n))) s = ROk tt s' /\
               ds s' = mk (sub inp off (Z.of_nat w)) o :: ds s /\ sim s s' /\
               cursor s' inp (off + Z.of_nat w) /\ h_stash (heap s') = h_stash (heap s).
  Proof.
    intros Hcur Hmark Hroom Hw Hfit Hrd.
    pose proof Hcur as (Hm & Hc). assert (Hl : 6 <= length (heap s)) by (destruct Hc as (? & _); assumption).
    destruct (set_order_ok o s Hm Hl) as (s1 & Hrun1 & Hd1 & Hh1 & Hs1).
    assert (Hcur1 : cursor s1 inp off).
    { split; [eapply sim_notmeta; eauto|]. rewrite Hh1. eapply hsame_cursor; [exact Hc|apply hsame_set_big]. }
    assert (Hwp : wp (push_data (cnat w) ;; with_size (fun n => with_order (rd n))) s1
                     (fun _ s' => after_read s1 s' off (Z.of_nat w) (ds s1)
                                    (mk (sub inp off (Z.of_nat w)) o))
                     ENone False).
    { eapply wp_lit_size; [apply st_init| | |exact Hw|].
      - rewrite (sim_slim _ _ Hs1), Hd1. exact Hroom.
      - rewrite (sim_cx _ _ Hs1), Hd1. exact Hmark.
      - intros s2 Hs2. eapply wp_with_order_known; [exact Hs2|apply Hcur1| |].
        + rewrite Hh1. apply order_of_flag. exact Hl.
        + apply (Hrd s1 Hcur1 s2 (ds s1) Hs2). rewrite (sim_slim _ _ Hs1), Hd1. exact Hroom. }
    apply wp_total in Hwp. destruct Hwp as ([] & s' & Hrun & Hafter).
    pose proof (after_read_cursor s1 s' inp off (Z.of_nat w) _ _ Hcur1 ltac:(lia) Hfit Hafter) as Hcur'.
    destruct Hafter as (Hd' & Hh' & Hs').
    exists s'. split; [unfold bind at 1; rewrite Hrun1; exact Hrun|].
    split; [rewrite Hd', Hd1; reflexivity|]. split; [eapply sim_trans; eauto|]. split; [exact Hcur'|].
    rewrite Hh', h_stash_set_offset, Hh1. apply hsame_stash. apply hsame_set_big.
  Qed.

  Lemma src_bits s inp off w :
    cursor s inp off -> ds_len (cx s) <= length (ds s) ->
    limit_reached (stack_limit s) (length (ds s)) = false ->
    (off + Z.of_nat w <= Z.of_nat (cend inp))%Z ->
    exists s', (push_data (cnat w) ;; with_size read_bits) s = ROk tt s' /\
               ds s' = CBits (sub inp off (Z.of_nat w)) :: ds s /\ sim s s' /\
               cursor s' inp (off + Z.of_nat w) /\ h_stash (heap s') = h_stash (heap s).
  Proof.
    intros Hcur Hmark Hroom Hfit.
    assert (Hw : (Z.of_nat w < two64)%Z).
    { destruct Hcur as (_ & _ & _ & _ & _ & Hb & Hr). lia. }
    assert (Hwp : wp (push_data (cnat w) ;; with_size read_bits) s
                     (fun _ s' => after_read s s' off (Z.of_nat w) (ds s) (CBits (sub inp off (Z.of_nat w))))
                     ENone False).
    { eapply wp_lit_size; [apply st_init|exact Hroom|exact Hmark|exact Hw|].
      intros s2 Hs2. apply (read_bits_ok s inp off Hcur (Z.of_nat w) s2 (ds s) Hs2); auto. lia. }
    apply wp_total in Hwp. destruct Hwp as ([] & s' & Hrun & Hafter).
    pose proof (after_read_cursor s s' inp off (Z.of_nat w) _ _ Hcur ltac:(lia) Hfit Hafter) as Hcur'.
    destruct Hafter as (Hd' & Hh' & Hs').
    exists s'. split; [exact Hrun|]. split; [exact Hd'|]. split; [exact Hs'|]. split; [exact Hcur'|].
    rewrite Hh'. apply h_stash_set_offset.
  Qed.

  Lemma read_src_ok s inp off f tail :
    cursor s inp off -> field_rd_ok f ->
    rest_of inp off = (field_bits fo f ++ tail)%list ->
    ds_len (cx s) <= length (ds s) ->
    limit_reached (stack_limit s) (length (ds s)) = false ->
    exists s' v, read_src fo f s = ROk tt s' /\ src_read_post s s' inp off f v.
  Proof.
    intros Hcur (Hok & Hrd) Hrest Hmark Hroom.
    pose proof Hcur as (Hm & Hl & Hi & Ho & Hw & Hb & Hr).
    pose proof (field_bits_length fo f Hok) as Hlen.
    assert (Hfit : (off + Z.of_nat (width f) <= Z.of_nat (cend inp))%Z).
    { pose proof (rest_of_length inp off Hr) as Hrl. rewrite Hrest, app_length, Hlen in Hrl. lia. }
    destruct (sub_spec inp off (Z.of_nat (width f)) Hw ltac:(lia) ltac:(lia) Hfit) as (Hsw & Hsa & Hsl).
    assert (Hslice : abs (sub inp off (Z.of_nat (width f))) = field_bits fo f).
    { rewrite Hsa, slice_bits_rest, Hrest, Nat2Z.id. apply firstn_app_exact. exact Hlen. }
    unfold src_read_post.
    destruct f as [w [|] o v|o v|o v|b|t|l]; cbn [read_src width] in *.
    - destruct (src_numeric read_signed
                  (fun b o => with_tags (cint (to_int o b)) (num_tags b o)) s inp off w o Hcur Hmark Hroom
                  ltac:(unfold two64; lia) Hfit) as (s' & Hrun & Hd' & Hs' & Hcur' & Hst').
      { intros sb Hcb s1 d Hs1 Hroom1. apply (read_signed_ok sb inp off Hcb (Z.of_nat w) o s1 d Hs1); auto. lia. }
      eexists s', _. split; [exact Hrun|]. split; [exact Hd'|]. split; [exact Hs'|].
      split; [exact Hcur'|]. split; [exact Hst'|].
      cbn [field_value with_tags value]. unfold cint. cbn [value]. f_equal. apply roundtrip_signed; auto.
    - destruct (src_numeric read_unsigned
                  (fun b o => with_tags (cint (to_uint o b)) (num_tags b o)) s inp off w o Hcur Hmark Hroom
                  ltac:(unfold two64; lia) Hfit) as (s' & Hrun & Hd' & Hs' & Hcur' & Hst').
      { intros sb Hcb s1 d Hs1 Hroom1. apply (read_unsigned_ok sb inp off Hcb (Z.of_nat w) o s1 d Hs1); auto. lia. }
      eexists s', _. split; [exact Hrun|]. split; [exact Hd'|]. split; [exact Hs'|].
      split; [exact Hcur'|]. split; [exact Hst'|].
      cbn [field_value with_tags value]. unfold cint. cbn [value]. f_equal. apply roundtrip_unsigned; auto. lia.
    - destruct (src_numeric (read_float fo)
                  (fun b o => with_tags (CReal (f_of_f32 fo (to_fbits 4 o b))) (num_tags b o)) s inp off 32 o
                  Hcur Hmark Hroom ltac:(unfold two64; lia) Hfit) as (s' & Hrun & Hd' & Hs' & Hcur' & Hst').
      { intros sb Hcb s1 d Hs1 Hroom1. apply (read_f32_ok sb inp off Hcb fo o s1 d Hs1); auto. }
      eexists s', _. split; [exact Hrun|]. split; [exact Hd'|]. split; [exact Hs'|].
      split; [exact Hcur'|]. split; [exact Hst'|].
      cbn [field_value with_tags value]. f_equal. f_equal. apply float_roundtrip.
      + change (Z.of_nat (8 * 4)) with 32%Z. apply Z.mod_pos_bound. reflexivity.
      + exact Hsw.
      + change (2 ^ 32)%Z with (2 ^ Z.of_nat (8 * 4))%Z. rewrite from_fbits_mod. exact Hslice.
    - destruct (src_numeric (read_float fo)
                  (fun b o => with_tags (CReal (to_fbits 8 o b)) (num_tags b o)) s inp off 64 o
                  Hcur Hmark Hroom ltac:(unfold two64; lia) Hfit) as (s' & Hrun & Hd' & Hs' & Hcur' & Hst').
      { intros sb Hcb s1 d Hs1 Hroom1. apply (read_f64_ok sb inp off Hcb fo o s1 d Hs1); auto. }
      eexists s', _. split; [exact Hrun|]. split; [exact Hd'|]. split; [exact Hs'|].
      split; [exact Hcur'|]. split; [exact Hst'|].
      cbn [field_value with_tags value]. f_equal. apply float_roundtrip.
      + change (Z.of_nat (8 * 8)) with 64%Z. apply Z.mod_pos_bound. reflexivity.
      + exact Hsw.
      + change (2 ^ 64)%Z with (2 ^ Z.of_nat (8 * 8))%Z. rewrite from_fbits_mod. exact Hslice.
    - destruct (src_bits s inp off (clen b) Hcur Hmark Hroom Hfit) as (s' & Hrun & Hd' & Hs' & Hcur' & Hst').
      eexists s', _. split; [exact Hrun|]. split; [exact Hd'|]. split; [exact Hs'|].
      split; [exact Hcur'|]. split; [exact Hst'|]. cbn [field_value]. eexists. split; [reflexivity|]. auto.
    - destruct (src_bits s inp off _ Hcur Hmark Hroom Hfit) as (s' & Hrun & Hd' & Hs' & Hcur' & Hst').
      eexists s', _. split; [exact Hrun|]. split; [exact Hd'|]. split; [exact Hs'|].
      split; [exact Hcur'|]. split; [exact Hst'|]. cbn [field_value]. eexists. split; [reflexivity|]. auto.
    - destruct (src_bits s inp off _ Hcur Hmark Hroom Hfit) as (s' & Hrun & Hd' & Hs' & Hcur' & Hst').
      eexists s', _. split; [exact Hrun|]. split; [exact Hd'|]. split; [exact Hs'|].
      split; [exact Hcur'|]. split; [exact Hst'|]. cbn [field_value]. eexists. split; [reflexivity|]. auto.
  Qed.

  Theorem parse_fields_src : forall fs s inp off tail,
    cursor s inp off -> Forall field_rd_ok fs ->
    rest_of inp off = (fields_bits fo fs ++ tail)%list ->
    ds_len (cx s) <= length (ds s) -> room s (length fs) ->
    exists s' vals, read_fields_src fo fs s = ROk tt s' /\
      ds s' = (rev vals ++ ds s)%list /\ Forall2 (field_value fo) fs vals /\
      cursor s' inp (off + Z.of_nat (total_width fs)) /\
      rest_of inp (off + Z.of_nat (total_width fs)) = tail /\
      sim s s' /\ h_stash (heap s') = h_stash (heap s).
  Proof.
    induction fs as [|f fs IH]; intros s inp off tail Hcur Hok Hrest Hmark Hroom.
    - exists s, []. cbn [read_fields_src total_width fold_right rev app].
      replace (off + Z.of_nat 0)%Z with off by lia.
      split; [reflexivity|]. split; [reflexivity|]. split; [constructor|]. split; [exact Hcur|].
      split; [exact Hrest|]. split; [apply sim_refl|reflexivity].
    - inversion Hok as [|? ? Hf Hfs]; subst.
      unfold fields_bits in Hrest. cbn [flat_map] in Hrest. rewrite <- app_assoc in Hrest.
      assert (Hroom0 : limit_reached (stack_limit s) (length (ds s)) = false).
      { specialize (Hroom 0 ltac:(cbn [length]; lia)). rewrite Nat.add_0_r in Hroom. exact Hroom. }
      destruct (read_src_ok s inp off f _ Hcur Hf Hrest Hmark Hroom0)
        as (s1 & v & Hrun1 & Hd1 & Hs1 & Hcur1 & Hst1 & Hval).
      pose proof Hcur as (_ & _ & _ & _ & _ & _ & Hr).
      assert (Hlen : length (field_bits fo f) = width f) by (apply field_bits_length; apply Hf).
      assert (Hrest1 : rest_of inp (off + Z.of_nat (width f)) = (fields_bits fo fs ++ tail)%list).
      { rewrite rest_of_advance by lia. rewrite Hrest. apply skipn_app_exact. exact Hlen. }
      assert (Hroom1 : room s1 (length fs)).
      { intros j Hj. rewrite (sim_slim _ _ Hs1), Hd1. cbn [length].
        specialize (Hroom (S j) ltac:(cbn [length]; lia)).
        replace (S (length (ds s)) + j) with (length (ds s) + S j) by lia. exact Hroom. }
      destruct (IH s1 inp _ tail Hcur1 Hfs Hrest1
                   ltac:(rewrite (sim_cx _ _ Hs1), Hd1; cbn [length]; lia) Hroom1)
        as (s' & vals & Hrun & Hd' & Hvals & Hcur' & Hrest' & Hs' & Hst').
      exists s', (v :: vals). cbn [read_fields_src]. unfold bind at 1. rewrite Hrun1.
      split; [exact Hrun|].
      change (total_width (f :: fs)) with (width f + total_width fs).
      replace (off + Z.of_nat (width f + total_width fs))%Z
        with (off + Z.of_nat (width f) + Z.of_nat (total_width fs))%Z by lia.
      split; [rewrite Hd', Hd1; cbn [rev]; rewrite <- app_assoc; reflexivity|].
      split; [constructor; assumption|]. split; [exact Hcur'|]. split; [exact Hrest'|].
      split; [eapply sim_trans; eauto|congruence].
  Qed.
End SurfaceRead.

(* ---------- construction from source text ---------- *)
Section SurfaceBuild.
  Variable fo : fops.

  Lemma pack_src_ok s f :
    notmeta s -> 6 <= length (heap s) ->
    field_pk_ok f -> ds_len (cx s) <= length (ds s) ->
    limit_reached (stack_limit s) (length (ds s)) = false ->
    limit_reached (stack_limit s) (S (length (ds s))) = false ->
    exists s', pack_src fo f s = ROk tt s' /\
               ds s' = field_item fo f :: ds s /\ hsame (heap s) (heap s') /\ sim s s'.
  Proof.
    intros Hm Hl Hpk Hmark Hroom0 Hroom1.
    assert (Hnum : forall o (arg : cell) (w : nat) (pk : Z -> order -> M unit) (res : cbs),
               (Z.of_nat w < two64)%Z ->
               (forall s0 s1 d h, st s0 s1 (arg :: d) h -> ds_len (cx s0) <= length d ->
                                  limit_reached (stack_limit s0) (length d) = false ->
                                  wp (pk (Z.of_nat w) o) s1 (fun _ s' => st s0 s' (CBits res :: d) h)
                                     (fun _ _ _ => False) False) ->
               exists s', (w_set_order (big_flag o) ;; push_data arg ;; push_data (cnat w) ;;
                           with_size (fun n => with_order (pk n))) s = ROk tt s' /\
                          ds s' = CBits res :: ds s /\ hsame (heap s) (heap s') /\ sim s s').
    { intros o arg w pk res Hw Hpkw.
      assert (Hwp : wp (w_set_order (big_flag o) ;; push_data arg ;; push_data (cnat w) ;;
                        with_size (fun n => with_order (pk n))) s
                       (fun _ s' => st s s' (CBits res :: ds s) (list_set (heap s) R_BIG (order_cell o)))
                       (fun _ _ _ => False) False).
      { apply wp_bind. eapply wp_set_order; [apply st_init|exact Hm|exact Hl|]. intros s1 Hs1.
        apply wp_bind. eapply wp_push_data_ok; [exact Hs1|exact Hroom0|]. intros s2 Hs2.
        eapply wp_lit_size; [exact Hs2|exact Hroom1|cbn [length]; lia|exact Hw|].
        intros s3 Hs3. eapply wp_with_order_known; [exact Hs3|exact Hm| |].
        - apply order_of_flag. exact Hl.
        - apply (Hpkw s s3 (ds s) _ Hs3 Hmark Hroom0). }
      apply wp_total in Hwp. destruct Hwp as ([] & s' & Hrun & Hd' & Hh' & Hs').
      exists s'. split; [exact Hrun|]. split; [exact Hd'|]. split; [rewrite Hh'; apply hsame_set_big|exact Hs']. }
    destruct f as [w sg o v|o v|o v|b|t|l]; cbn [pack_src field_item pack_field].
    - unfold field_pk_ok in Hpk.
      apply (Hnum o (CInt v) w pack_int (from_int v w o)); [unfold pack_limit, two64 in *; lia|].
      intros s0 s1 d h Hs1 Hmk Hrm. unfold pack_int. apply wp_bind.
      eapply wp_pop_data_ok; [exact Hs1|cbn [length]; lia|]. intros s2 Hs2.
      apply wp_bind. apply wp_m_xint.
      + intros z Hz. cbn [value] in Hz. injection Hz as <-.
        replace (pack_limit <? Z.of_nat w)%Z with false by lia. rewrite Nat2Z.id.
        eapply wp_push_data_ok; [exact Hs2|exact Hrm|]. auto.
      + intros Hn. exfalso. eapply Hn; reflexivity.
    - apply (Hnum o (CReal v) 32 (pack_float fo) (from_fbits 4 o (f_to_f32 fo v))); [reflexivity|].
      intros s0 s1 d h Hs1 Hmk Hrm. unfold pack_float. apply wp_bind.
      eapply wp_pop_data_ok; [exact Hs1|cbn [length]; lia|]. intros s2 Hs2.
      apply wp_bind. apply wp_m_real.
      + intros z Hz. cbn [value] in Hz. injection Hz as <-.
        change (Z.of_nat 32 =? 32)%Z with true. cbv iota.
        eapply wp_push_data_ok; [exact Hs2|exact Hrm|]. auto.
      + intros Hn. exfalso. eapply Hn; reflexivity.
    - apply (Hnum o (CReal v) 64 (pack_float fo) (from_fbits 8 o v)); [reflexivity|].
      intros s0 s1 d h Hs1 Hmk Hrm. unfold pack_float. apply wp_bind.
      eapply wp_pop_data_ok; [exact Hs1|cbn [length]; lia|]. intros s2 Hs2.
      apply wp_bind. apply wp_m_real.
      + intros z Hz. cbn [value] in Hz. injection Hz as <-.
        change (Z.of_nat 64 =? 32)%Z with false. change (Z.of_nat 64 =? 64)%Z with true. cbv iota.
        eapply wp_push_data_ok; [exact Hs2|exact Hrm|]. auto.
      + intros Hn. exfalso. eapply Hn; reflexivity.
    - assert (Hwp : wp (push_data (CBits b)) s (fun _ s' => st s s' (CBits b :: ds s) (heap s))
                       (fun _ _ _ => False) False)
        by (eapply wp_push_data_ok; [apply st_init|exact Hroom0|auto]).
      apply wp_total in Hwp. destruct Hwp as ([] & s' & Hrun & Hd' & Hh' & Hs').
      exists s'. split; [exact Hrun|]. split; [exact Hd'|]. split; [rewrite Hh'; apply hsame_refl|exact Hs'].
    - assert (Hwp : wp (push_data (CStr t)) s (fun _ s' => st s s' (CStr t :: ds s) (heap s))
                       (fun _ _ _ => False) False)
        by (eapply wp_push_data_ok; [apply st_init|exact Hroom0|auto]).
      apply wp_total in Hwp. destruct Hwp as ([] & s' & Hrun & Hd' & Hh' & Hs').
      exists s'. split; [exact Hrun|]. split; [exact Hd'|]. split; [rewrite Hh'; apply hsame_refl|exact Hs'].
    - set (it := CVec (map (fun x => CInt (Z.of_N x)) l)).
      assert (Hwp : wp (push_data it) s (fun _ s' => st s s' (it :: ds s) (heap s))
                       (fun _ _ _ => False) False)
        by (eapply wp_push_data_ok; [apply st_init|exact Hroom0|auto]).
      apply wp_total in Hwp. destruct Hwp as ([] & s' & Hrun & Hd' & Hh' & Hs').
      exists s'. split; [exact Hrun|]. split; [exact Hd'|]. split; [rewrite Hh'; apply hsame_refl|exact Hs'].
  Qed.

  Lemma push_fields_src_ok : forall fs s,
    notmeta s -> 6 <= length (heap s) ->
    Forall field_pk_ok fs -> ds_len (cx s) <= length (ds s) -> room s (S (length fs)) ->
    exists s', push_fields_src fo fs s = ROk tt s' /\
               ds s' = (rev (map (field_item fo) fs) ++ ds s)%list /\ hsame (heap s) (heap s') /\ sim s s'.
  Proof.
    induction fs as [|f fs IH]; intros s Hm Hl Hpk Hmark Hroom.
    - exists s. cbn [push_fields_src map rev app]. split; [reflexivity|]. split; [reflexivity|].
      split; [apply hsame_refl|apply sim_refl].
    - inversion Hpk as [|? ? Hf Hfs]; subst.
      assert (Hroom0 : limit_reached (stack_limit s) (length (ds s)) = false).
      { specialize (Hroom 0 ltac:(cbn [length]; lia)). rewrite Nat.add_0_r in Hroom. exact Hroom. }
      assert (Hroom1 : limit_reached (stack_limit s) (S (length (ds s))) = false).
      { specialize (Hroom 1 ltac:(cbn [length]; lia)). rewrite Nat.add_1_r in Hroom. exact Hroom. }
      destruct (pack_src_ok s f Hm Hl Hf Hmark Hroom0 Hroom1) as (s1 & Hrun1 & Hd1 & Hh1 & Hs1).
      assert (Hroom' : room s1 (S (length fs))).
      { intros j Hj. rewrite (sim_slim _ _ Hs1), Hd1. cbn [length].
        specialize (Hroom (S j) ltac:(cbn [length]; lia)).
        replace (S (length (ds s)) + j) with (length (ds s) + S j) by lia. exact Hroom. }
      destruct (IH s1 (sim_notmeta _ _ Hs1 Hm) ltac:(destruct Hh1 as (L & _); lia) Hfs
                   ltac:(rewrite (sim_cx _ _ Hs1), Hd1; cbn [length]; lia) Hroom')
        as (s' & Hrun & Hd' & Hh' & Hs').
      exists s'. split; [cbn [push_fields_src]; unfold bind at 1; rewrite Hrun1; exact Hrun|].
      split; [rewrite Hd', Hd1; cbn [map rev]; rewrite <- app_assoc; reflexivity|].
      split; [eapply hsame_trans; eauto|eapply sim_trans; eauto].
  Qed.

  Theorem build_src_ok : forall fs s,
    notmeta s -> 6 <= length (heap s) ->
    Forall field_ok fs -> Forall field_pk_ok fs ->
    ds_len (cx s) <= length (ds s) -> ss_ptr (cx s) <= length (special s) ->
    (forall j, j <= S (length fs) -> limit_reached (stack_limit s) (length (ds s) + j) = false) ->
    exists s' p, build_src fo fs s = ROk tt s' /\
                 ds s' = CBits p :: ds s /\ hsame (heap s) (heap s') /\ sim s s' /\
                 wf p /\ abs p = fields_bits fo fs /\ clen p = total_width fs /\ cstart p = 0.
  Proof.
    intros fs s Hm Hl Hok Hpk Hmark Hsp Hroom.
    set (sA := set_special (add_rstep RPopSpecial s) (length (ds s) :: special s)).
    assert (HA : w_vec_begin s = ROk tt sA) by reflexivity.
    assert (HdA : ds sA = ds s) by (unfold sA; cbn [ds set_special]; apply ds_add_rstep).
    assert (HhA : heap sA = heap s) by (unfold sA; cbn [heap set_special]; apply heap_add_rstep).
    assert (HcA : core sA = set_special (core s) (length (ds s) :: special s)).
    { unfold sA. change (core (set_special (add_rstep RPopSpecial s) (length (ds s) :: special s)))
        with (set_special (core (add_rstep RPopSpecial s)) (length (ds s) :: special s)).
      rewrite core_add_rstep. reflexivity. }
    assert (HcxA : cx sA = cx s) by (apply (f_equal cx) in HcA; exact HcA).
    assert (HlA : stack_limit sA = stack_limit s) by (apply (f_equal stack_limit) in HcA; exact HcA).
    destruct (push_fields_src_ok fs sA) as (sB & HB & HdB & HhB & HsB); auto.
    { unfold notmeta. rewrite HcxA. exact Hm. }
    { rewrite HhA. exact Hl. }
    { rewrite HcxA, HdA. exact Hmark. }
    { intros j Hj. rewrite HlA, HdA. apply Hroom. lia. }
    assert (HspB : special sB = length (ds s) :: special s).
    { pose proof (f_equal special HsB) as H. rewrite HcA in H. exact H. }
    set (items := map (field_item fo) fs) in *.
    set (sC0 := set_special sB (special s)).
    assert (HC : exists sD, w_vec_end sB = ROk tt sD /\ ds sD = CVec items :: ds s /\
                            heap sD = heap sB /\ sim s sD).
    { unfold w_vec_end.
      assert (Hpop : pop_special sB = ROk (Some (length (ds s))) (add_rstep (RPushSpecial (length (ds s))) sC0)).
      { unfold pop_special. rewrite HspB. rewrite (sim_cx _ _ HsB), HcxA. cbn [length].
        replace (ss_ptr (cx s) <? S (length (special s))) with true by lia. reflexivity. }
      set (sC := add_rstep (RPushSpecial (length (ds s))) sC0) in *.
      assert (HdC : ds sC = (rev items ++ ds s)%list).
      { unfold sC. rewrite ds_add_rstep. unfold sC0. cbn [ds set_special]. rewrite HdB, HdA. reflexivity. }
      assert (HhC : heap sC = heap sB).
      { unfold sC. rewrite heap_add_rstep. unfold sC0. reflexivity. }
      assert (HsC : sim s sC).
      { unfold sim, sC. rewrite core_add_rstep. unfold sC0.
        change (core (set_special sB (special s))) with (set_special (core sB) (special s)).
        unfold sim in HsB. rewrite HsB, HcA. reflexivity. }
      assert (Hwp : wp (let* v := vec_collect_till_ptr (length (ds s)) in push_data (CVec v)) sC
                       (fun _ s' => st s s' (CVec items :: ds s) (heap sB)) (fun _ _ _ => False) False).
      { apply wp_bind. unfold vec_collect_till_ptr. apply wp_get. rewrite HdC.
        rewrite app_length, rev_length.
        replace (length items + length (ds s) <? length (ds s)) with false by lia.
        replace (length items + length (ds s) - length (ds s)) with (length (rev items))
          by (rewrite rev_length; lia).
        rewrite firstn_app_exact by reflexivity. rewrite rev_involutive.
        apply wp_bind. eapply wp_conseq; [apply (pop_n_ok (rev items) s sC (ds s) (heap sB))| | |].
        - repeat split; auto.
        - exact Hmark.
        - intros u s1 Hs1. apply wp_ret. eapply wp_push_data_ok; [exact Hs1| |auto].
          specialize (Hroom 0 ltac:(lia)). rewrite Nat.add_0_r in Hroom. exact Hroom.
        - auto.
        - auto. }
      apply wp_total in Hwp. destruct Hwp as ([] & sD & HD & HdD & HhD & HsD).
      exists sD. split; [|auto]. unfold bind at 1. rewrite Hpop. exact HD. }
    destruct HC as (sD & HD & HdD & HhD & HsD).
    destruct (into_bitstr_fields fo sD fs (CVec items) (ds s) Hok HdD eq_refl) as (s' & p & Hrun & Hd' & Hh' & Hs' & Hp).
    { rewrite (sim_cx _ _ HsD), HdD. cbn [length]. lia. }
    { rewrite (sim_slim _ _ HsD). specialize (Hroom 0 ltac:(lia)). rewrite Nat.add_0_r in Hroom. exact Hroom. }
    exists s', p. split.
    - unfold build_src, bind. rewrite HA, HB, HD. exact Hrun.
    - split; [exact Hd'|]. split; [rewrite Hh', HhD, <- HhA; exact HhB|].
      split; [eapply sim_trans; eauto|exact Hp].
  Qed.

  (* the source-level round trip:
       [ big|little v w int! ... ] >bitstr open-bitstr  big|little w int ...  remain *)
  Theorem source_roundtrip : forall fs s inp0 off0 v,
    cursor s inp0 off0 -> h_stash (heap s) = Some v ->
    Forall field_rd_ok fs -> (Z.of_nat (total_width fs) < two64)%Z ->
    ds_len (cx s) <= length (ds s) -> ss_ptr (cx s) <= length (special s) ->
    (forall j, j <= S (length fs) -> limit_reached (stack_limit s) (length (ds s) + j) = false) ->
    exists s' vals e,
      (build_src fo fs ;; parse_back_src fo fs) s = ROk tt s' /\
      ds s' = (CInt 0 :: rev vals ++ ds s)%list /\ Forall2 (field_value fo) fs vals /\
      (exists p, cursor s' p (Z.of_nat (cend p)) /\ abs p = fields_bits fo fs /\
                 clen p = total_width fs) /\
      h_stash (heap s') = Some (v ++ [e])%list /\
      entry_input e = Some inp0 /\ entry_offset e = Some off0.
  Proof.
    intros fs s inp0 off0 v Hcur Hv Hrd Htw Hmark Hsp Hroom.
    pose proof Hcur as (Hm & Hc). assert (Hl : 6 <= length (heap s)) by (destruct Hc as (? & _); assumption).
    assert (Hok : Forall field_ok fs).
    { eapply Forall_impl; [|exact Hrd]. intros f (H & _). exact H. }
    assert (Hpk : Forall field_pk_ok fs).
    { eapply Forall_impl; [|exact Hrd]. intros f (_ & H). destruct f as [w [|] o x| | | | |]; cbn; auto;
        unfold pack_limit; lia. }
    destruct (build_src_ok fs s Hm Hl Hok Hpk Hmark Hsp Hroom)
      as (s1 & p & Hrun1 & Hd1 & Hh1 & Hs1 & Hpw & Hpa & Hpl & Hpc).
    assert (Hcur1 : cursor s1 inp0 off0).
    { split; [eapply sim_notmeta; eauto|]. eapply hsame_cursor; eauto. }
    assert (Hv1 : h_stash (heap s1) = Some v) by (rewrite (hsame_stash _ _ Hh1); exact Hv).
    assert (Hcend : cend p = total_width fs).
    { unfold clen in Hpl. destruct Hpw as (? & _). lia. }
    (* open *)
    destruct (open_ok s1 inp0 off0 v (CBits p) (ds s) p Hcur1 Hv1 Hd1 eq_refl)
      as (s2 & e & Hrun2 & Hd2 & Hh2 & He1 & He2 & Hs2).
    { rewrite (sim_cx _ _ Hs1), Hd1. cbn [length]. lia. }
    assert (Hl1 : 6 <= length (heap s1)) by (destruct Hh1 as (L & _); lia).
    assert (Hcur2 : cursor s2 p (Z.of_nat (cstart p))).
    { split; [eapply sim_notmeta; eauto; apply Hcur1|]. rewrite Hh2.
      destruct (heap3_facts (heap s1) (cnat (cstart p)) (CBits p) (CVec (v ++ [e])) Hl1)
        as (H1 & H2 & H3 & H4 & _).
      unfold hcursor. rewrite H1. split; [exact Hl1|].
      split; [|split; [|split; [exact Hpw|split; [lia|]]]].
      - unfold h_input. rewrite H3. reflexivity.
      - unfold h_offset. rewrite H2. reflexivity.
      - destruct Hpw as (? & _). lia. }
    assert (Hst2 : h_stash (heap s2) = Some (v ++ [e])%list).
    { rewrite Hh2. destruct (heap3_facts (heap s1) (cnat (cstart p)) (CBits p) (CVec (v ++ [e])) Hl1)
        as (_ & _ & _ & H4 & _). unfold h_stash. rewrite H4. reflexivity. }
    assert (Hrest2 : rest_of p (Z.of_nat (cstart p)) = (fields_bits fo fs ++ [])%list).
    { unfold rest_of. rewrite Nat2Z.id, Nat.sub_diag. cbn [skipn]. rewrite app_nil_r. exact Hpa. }
    assert (Hsim2 : sim s s2) by (eapply sim_trans; eauto).
    destruct (parse_fields_src fo fs s2 p _ [] Hcur2 Hrd Hrest2)
      as (s3 & vals & Hrun3 & Hd3 & Hvals & Hcur3 & _ & Hs3 & Hst3).
    { rewrite (sim_cx _ _ Hsim2), Hd2. exact Hmark. }
    { intros j Hj. rewrite (sim_slim _ _ Hsim2), Hd2. apply Hroom. lia. }
    replace (Z.of_nat (cstart p) + Z.of_nat (total_width fs))%Z with (Z.of_nat (cend p)) in Hcur3 by lia.
    destruct (remain_ok s3 p _ Hcur3) as (s4 & Hrun4 & Hd4 & Hh4 & Hs4).
    { rewrite (sim_slim _ _ Hs3), (sim_slim _ _ Hsim2), Hd3, Hd2, app_length, rev_length.
      rewrite <- (Forall2_len _ _ _ Hvals). rewrite Nat.add_comm. apply Hroom. lia. }
    exists s4, vals, e. split.
    - unfold bind at 1. rewrite Hrun1. unfold parse_back_src, bind. rewrite Hrun2, Hrun3. exact Hrun4.
    - split; [rewrite Hd4, Hd3, Hd2; unfold cint; f_equal; f_equal; lia|].
      split; [exact Hvals|]. split.
      + exists p. split; [|auto]. split; [eapply sim_notmeta; eauto; apply Hcur3|]. rewrite Hh4. apply Hcur3.
      + split; [rewrite Hh4, Hst3; exact Hst2|auto].
  Qed.
End SurfaceBuild.
