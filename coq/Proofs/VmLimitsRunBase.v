(* VmLimitsRunBase.v (C14): a refinement [wlx] of the predicate [wl] of VmFrame.v:
   programs built from the logging primitives that
     - never raise [ELimit] themselves (so a limit error can only come from [push_data]), and
     - read the state only through fields other than the reverse log, the meter and the limits.
   Every native word and every instruction is such a program. *)
From Xeh Require Import Model.Prelude Model.Bits Model.Codec Model.Cell Model.Lexer Model.Fmt
                        Model.Vm Model.Words Proofs.VmFrame.
Local Notation length := List.length.

#[local] Arguments Z.add : simpl never.
#[local] Arguments Z.sub : simpl never.
#[local] Arguments Z.mul : simpl never.
#[local] Arguments Z.ltb : simpl never.
#[local] Arguments Z.leb : simpl never.
#[local] Arguments Z.eqb : simpl never.
#[local] Arguments Z.of_nat : simpl never.
#[local] Arguments Z.to_nat : simpl never.

Inductive wlx : forall {A : Type}, M A -> Prop :=
| wlx_ret : forall A (a : A), wlx (ret a)
| wlx_fail : forall A k p, k <> ELimit -> wlx (@fail A k p)
| wlx_unsup : forall A, wlx (@unsup A)
| wlx_panic : forall A, wlx (@panic A)
| wlx_bind : forall A B (m : M A) (f : A -> M B), wlx m -> (forall a, wlx (f a)) -> wlx (bind m f)
| wlx_get_bind : forall B (k : state -> M B),
    (forall s0, wlx (k s0)) ->
    (forall s0 l s, k (set_rlog s0 l) s = k s0 s) ->
    (forall s0 i h c s, k (set_limits s0 i h c) s = k s0 s) ->
    (forall s0 m s, k (set_meter s0 m) s = k s0 s) ->
    wlx (bind get k)
| wlx_set_stopping : forall b, wlx (modify (fun s => set_stopping s b))
| wlx_push_data : forall c, wlx (push_data c)
| wlx_pop_data : wlx pop_data
| wlx_top_data : wlx top_data
| wlx_swap_data : wlx swap_data
| wlx_rot_data : wlx rot_data
| wlx_over_data : wlx over_data
| wlx_push_return : forall f, wlx (push_return f)
| wlx_pop_return : wlx pop_return
| wlx_top_frame : wlx top_frame
| wlx_push_loop : forall l, wlx (push_loop l)
| wlx_pop_loop : wlx pop_loop
| wlx_loop_next : wlx loop_next
| wlx_loop_set_items : forall c, wlx (loop_set_items c)
| wlx_push_special : forall p, wlx (push_special p)
| wlx_pop_special : wlx pop_special
| wlx_get_var : forall a, wlx (get_var a)
| wlx_set_var : forall a v, wlx (set_var a v)
| wlx_init_local : forall i v, wlx (init_local i v)
| wlx_set_ip : forall n, wlx (set_ip n)
| wlx_next_ip : wlx next_ip
| wlx_print : forall msg, wlx (print msg).

Lemma wlx_wl : forall A (m : M A), wlx m -> wl m.
Proof.
  induction 1; try (constructor; auto; fail).
Qed.

Ltac wlx_prim :=
  lazymatch goal with
  | |- wlx (ret _) => apply wlx_ret
  | |- wlx (fail _ _) => apply wlx_fail; discriminate
  | |- wlx unsup => apply wlx_unsup
  | |- wlx panic => apply wlx_panic
  | |- wlx (modify (fun s => set_stopping s _)) => apply wlx_set_stopping
  | |- wlx (push_data _) => apply wlx_push_data
  | |- wlx pop_data => apply wlx_pop_data
  | |- wlx top_data => apply wlx_top_data
  | |- wlx swap_data => apply wlx_swap_data
  | |- wlx rot_data => apply wlx_rot_data
  | |- wlx over_data => apply wlx_over_data
  | |- wlx (push_return _) => apply wlx_push_return
  | |- wlx pop_return => apply wlx_pop_return
  | |- wlx top_frame => apply wlx_top_frame
  | |- wlx (push_loop _) => apply wlx_push_loop
  | |- wlx pop_loop => apply wlx_pop_loop
  | |- wlx loop_next => apply wlx_loop_next
  | |- wlx (loop_set_items _) => apply wlx_loop_set_items
  | |- wlx (push_special _) => apply wlx_push_special
  | |- wlx pop_special => apply wlx_pop_special
  | |- wlx (get_var _) => apply wlx_get_var
  | |- wlx (set_var _ _) => apply wlx_set_var
  | |- wlx (init_local _ _) => apply wlx_init_local
  | |- wlx (set_ip _) => apply wlx_set_ip
  | |- wlx next_ip => apply wlx_next_ip
  | |- wlx (print _) => apply wlx_print
  end.

Create HintDb wlxdb.

Ltac wlx_step :=
  cbv beta zeta;
  first
    [ wlx_prim
    | solve [ auto 2 with wlxdb nocore ]
    | lazymatch goal with
      | |- wlx (bind get _) =>
        apply wlx_get_bind; [ intro | intros; reflexivity | intros; reflexivity | intros; reflexivity ]
      | |- wlx (bind _ _) => apply wlx_bind; [ | intro ]
      | |- wlx (match ?x with _ => _ end) => destruct x
      | |- wlx ?m => let h := head_of m in unfold h
      end ].

Ltac wlx_solve := repeat wlx_step.

Lemma wlx_pop_n : forall n, wlx (pop_n n).
Proof. induction n; cbn [pop_n]; wlx_solve. Qed.
#[export] Hint Resolve wlx_pop_n : wlxdb.

Lemma wlx_push_all : forall l, wlx (push_all l).
Proof. induction l; cbn [push_all]; wlx_solve. Qed.
#[export] Hint Resolve wlx_push_all : wlxdb.

(* the only [fail] whose kind is computed: >bitstr reports EOverflow or EType *)
Lemma bitstr_concat_vec_kind : forall fuel v acc k p,
  bitstr_concat_vec fuel v acc = (Err k, p) -> k = EOverflow \/ k = EType.
Proof.
  induction fuel as [|f IH]; intros v acc k p H; cbn [bitstr_concat_vec] in H; [discriminate|].
  revert acc H. induction v as [|x r IHv]; intros acc H; [discriminate|].
  cbv beta iota fix in H. fold bitstr_concat_vec in H.
  destruct (value x) eqn:Ev; try (injection H as <- _; auto; fail).
  - destruct ((0 <=? _)%Z && (_ <=? 255)%Z); [ apply IHv in H; exact H | injection H as <- _; auto ].
  - apply IHv in H; exact H.
  - destruct (bitstr_concat_vec f _ _) as [[b2|k2|] p2] eqn:E2; cbv beta iota in H.
    + apply IHv in H; exact H.
    + injection H as <- _. eapply IH; eauto.
    + discriminate.
  - apply IHv in H; exact H.
Qed.

Lemma wlx_bitstr_concat : forall c, wlx (bitstr_concat c).
Proof.
  intro c. unfold bitstr_concat.
  destruct (value c); try (unfold type_not_supported; wlx_solve; fail).
  destruct (bitstr_concat_vec 40 _ _) as [[b|k|] p] eqn:E; try (wlx_solve; fail).
  apply wlx_fail. apply bitstr_concat_vec_kind in E. destruct E as [-> | ->]; discriminate.
Qed.
#[export] Hint Resolve wlx_bitstr_concat : wlxdb.

Lemma wlx_word_table : forall fo, Forall (fun nw => wlx (snd nw)) (word_table fo).
Proof.
  intro fo. unfold word_table.
  repeat (apply Forall_cons; [ cbn [snd]; wlx_solve | ]).
  apply Forall_nil.
Qed.

Lemma wlx_sized_word : forall fo name w, sized_word fo name = Some w -> wlx w.
Proof.
  intros fo name w H. unfold sized_word in H. cbv beta zeta in H.
  repeat match type of H with
         | context [if ?b then _ else _] =>
           destruct b; cbv beta iota in H;
           [ injection H as <-; wlx_solve | ]
         end.
  discriminate.
Qed.

Theorem native_wlx : forall fo w f, native_fn fo w = Some f -> wlx f.
Proof.
  intros fo w f H. unfold native_fn in H.
  destruct (table_find (word_table fo) w) eqn:E.
  - injection H as <-. eapply table_find_Forall with (P := fun m => wlx m); [ apply wlx_word_table | exact E ].
  - eapply wlx_sized_word; eauto.
Qed.

Lemma wlx_exec_op : forall (nf : natives),
  (forall w f, nf w = Some f -> wlx f) ->
  forall ip0 op, wlx (exec_op nf ip0 op).
Proof.
  intros nf Hnf ip0 op. destruct op; cbn [exec_op];
    try (wlx_solve; fail).
  destruct (nf w) eqn:E; wlx_solve. eapply Hnf; eauto.
Qed.
