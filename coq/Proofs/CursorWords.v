(* CursorWords.v: the word-level statements of C06 (a) (b): what every reading word returns,
   how far it advances, and what a failure leaves behind. *)
From Xeh Require Import Model.Prelude Model.Bits Model.Codec Model.Cell Model.Lexer Model.Fmt
                        Model.Vm Model.Words.
From Xeh Require Import Proofs.BitsBasic Proofs.BitsLists Proofs.BitsMirror Proofs.BitsProofs
                        Proofs.CodecBasic Proofs.CodecProofs Proofs.VmStep Proofs.CursorDefs
                        Proofs.CursorProofs.
From Coq Require Import ZifyBool ZifyNat ZifyN.
Local Notation length := List.length.

#[local] Arguments Z.add : simpl never.
#[local] Arguments Z.sub : simpl never.
#[local] Arguments Z.mul : simpl never.
#[local] Arguments Z.ltb : simpl never.
#[local] Arguments Z.leb : simpl never.
#[local] Arguments Z.eqb : simpl never.
#[local] Arguments Z.of_nat : simpl never.
#[local] Arguments Z.to_nat : simpl never.
#[local] Arguments Z.pow : simpl never.

Lemma wp_behaves (m : M unit) s (Q : state -> Prop) (E : ekind -> state -> Prop) :
  wp m s (fun _ s' => Q s') (fun k _ s' => E k s') False -> behaves (m s) Q E.
Proof. unfold wp, behaves. destruct (m s); auto. Qed.

Lemma behaves_wp (m : M unit) s (Q : state -> Prop) (E : ekind -> state -> Prop) :
  behaves (m s) Q E -> wp m s (fun _ s' => Q s') (fun k _ s' => E k s') False.
Proof. unfold wp, behaves. destruct (m s); auto. Qed.

Lemma behaves_conseq r (Q Q' : state -> Prop) (E E' : ekind -> state -> Prop) :
  behaves r Q E -> (forall s', Q s' -> Q' s') -> (forall k s', E k s' -> E' k s') -> behaves r Q' E'.
Proof. unfold behaves. destruct r; auto. Qed.

Section Words.
  Variables (s : state) (inp : cbs) (off : Z).
  Hypothesis Hcur : cursor s inp off.

  Let Hc : hcursor (heap s) inp off := proj2 Hcur.
  Let Hw : wf inp. Proof. destruct Hc as (_ & _ & _ & ? & _). assumption. Qed.
  Let Hr : (Z.of_nat (cstart inp) <= off <= Z.of_nat (cend inp))%Z.
  Proof. destruct Hc as (_ & _ & _ & _ & _ & ?). assumption. Qed.

  Lemma to_uint_sub o n : (0 <= n <= 128)%Z -> (off + n <= Z.of_nat (cend inp))%Z ->
    to_uint o (sub inp off n) = spec_uint o (slice_bits inp off n).
  Proof.
    intros Hn Hfit. destruct (sub_spec inp off n Hw ltac:(lia) ltac:(lia) Hfit) as (Hsw & Hsa & Hsl).
    rewrite to_uint_spec by (auto; lia). rewrite Hsa. reflexivity.
  Qed.

  Lemma to_int_sub o n : (0 <= n <= 128)%Z -> (off + n <= Z.of_nat (cend inp))%Z ->
    to_int o (sub inp off n) = spec_int o (slice_bits inp off n).
  Proof.
    intros Hn Hfit. destruct (sub_spec inp off n Hw ltac:(lia) ltac:(lia) Hfit) as (Hsw & Hsa & Hsl).
    rewrite to_int_spec by (auto; lia). rewrite Hsa. reflexivity.
  Qed.

  Lemma to_fbits_sub k o n : (0 <= n)%Z -> (off + n <= Z.of_nat (cend inp))%Z ->
    to_fbits k o (sub inp off n) = fbits_of k o (slice_bits inp off n).
  Proof.
    intros Hn Hfit. destruct (sub_spec inp off n Hw ltac:(lia) ltac:(lia) Hfit) as (Hsw & Hsa & Hsl).
    rewrite to_fbits_spec by auto. rewrite Hsa. reflexivity.
  Qed.

  (* ----- generic forms, from any intermediate state ----- *)
  Lemma bits_gen n s1 d args ar :
    st s s1 d (heap s) -> ds s = args ++ d -> length args <= ar ->
    wp (read_bits n) s1 (fun _ s' => bits_read s s' inp off n d) (EF s ar) False.
  Proof.
    intros Hst Ha Hl. eapply wp_conseq; [eapply read_bits_core; eauto| |auto|auto].
    intros _ s' (Hd & Hcu). exists (sub inp off n).
    pose proof Hd as (Hn & Hfit & Hrest).
    destruct (sub_spec inp off n Hw ltac:(lia) Hn Hfit) as (Hsw & Hsa & _).
    split; [exact Hd|]. split; [exact Hcu|]. split; [exact Hsw|]. split; [exact Hsa|reflexivity].
  Qed.

  Lemma unsigned_gen n o s1 d args ar :
    st s s1 d (heap s) -> ds s = args ++ d -> length args <= ar ->
    wp (read_unsigned n o) s1
       (fun _ s' => (n <= 127)%Z /\ num_read s s' inp off n d o (spec_uint o (slice_bits inp off n)))
       (EF s ar) False.
  Proof.
    intros Hst Ha Hl. eapply wp_conseq; [eapply read_unsigned_core; eauto| |auto|auto].
    intros _ s' (Hn & Hd & Hcu). split; [exact Hn|]. eexists. split; [exact Hd|]. split; [exact Hcu|].
    destruct Hd as (Hn0 & Hfit & _). split; [|reflexivity].
    cbn [with_tags value cint]. rewrite to_uint_sub by lia. reflexivity.
  Qed.

  Lemma signed_gen n o s1 d args ar :
    st s s1 d (heap s) -> ds s = args ++ d -> length args <= ar ->
    wp (read_signed n o) s1
       (fun _ s' => (n <= 128)%Z /\ num_read s s' inp off n d o (spec_int o (slice_bits inp off n)))
       (EF s ar) False.
  Proof.
    intros Hst Ha Hl. eapply wp_conseq; [eapply read_signed_core; eauto| |auto|auto].
    intros _ s' (Hn & Hd & Hcu). split; [exact Hn|]. eexists. split; [exact Hd|]. split; [exact Hcu|].
    destruct Hd as (Hn0 & Hfit & _). split; [|reflexivity].
    cbn [with_tags value cint]. rewrite to_int_sub by lia. reflexivity.
  Qed.

  Lemma float_gen fo n o s1 d args ar :
    st s s1 d (heap s) -> ds s = args ++ d -> length args <= ar ->
    wp (read_float fo n o) s1
       (fun _ s' => exists pat, float_pat fo n o (slice_bits inp off n) pat /\
                                real_read s s' inp off n d o pat)
       (EF s ar) False.
  Proof.
    intros Hst Ha Hl. eapply wp_conseq; [eapply read_float_core; eauto| |auto|auto].
    intros _ s' (pat & Hp & Hd & Hcu). exists pat.
    pose proof Hd as (Hn0 & Hfit & _). split.
    - unfold float_pat. rewrite <- !to_fbits_sub by lia. exact Hp.
    - eexists. split; [exact Hd|]. split; [exact Hcu|]. split; reflexivity.
  Qed.

  (* ----- wrappers ----- *)
  Lemma sized (f : Z -> M unit) (P : Z -> list cell -> state -> Prop) :
    (forall n c r s1, ds s = c :: r -> st s s1 r (heap s) ->
                      wp (f n) s1 (fun _ s' => P n r s') (EF s 1) False) ->
    behaves (with_size f s)
            (fun s' => exists c rest n, ds s = c :: rest /\ is_usize c n /\ P n rest s')
            (fun _ => fail_frame 1 s).
  Proof.
    intros H. apply wp_behaves. eapply wp_with_size; [apply st_init| | |].
    - intros c r n s2 Hd Hn Hs2. eapply wp_conseq; [eapply (H n c r); eauto| |auto|auto].
      intros u s' HP. exists c, r, n. auto.
    - eapply (frame_intro s 1 _ (ds s) []); eauto using st_init.
    - intros c r s2 k p Hd _ Hs2 Hk. eapply (frame_intro s 1 _ r [c]); eauto.
  Qed.

  Lemma ordered (f : order -> M unit) (P : order -> state -> Prop) s1 d ar :
    st s s1 d (heap s) ->
    (forall o, wp (f o) s1 (fun _ s' => P o s') (EF s ar) False) ->
    wp (with_order f) s1 (fun _ s' => exists o, h_order (heap s) = Some o /\ P o s') (EF s ar) False.
  Proof.
    intros Hst H. eapply wp_with_order; eauto.
    intros o Ho. eapply wp_conseq; [apply H| |auto|auto]. intros u s' HP. eauto.
  Qed.

  (* ----- the words ----- *)
  Lemma bits_word :
    behaves (with_size read_bits s)
            (fun s' => exists c rest n, ds s = c :: rest /\ is_usize c n /\ bits_read s s' inp off n rest)
            (fun _ => fail_frame 1 s).
  Proof.
    apply (sized read_bits (fun n r s' => bits_read s s' inp off n r)).
    intros n c r s1 Hd Hs1. eapply (bits_gen n s1 r [c] 1); eauto.
  Qed.

  Lemma bytes_word :
    behaves (with_size (fun n => read_bits (n * 8)) s)
            (fun s' => exists c rest n, ds s = c :: rest /\ is_usize c n /\
                                        bits_read s s' inp off (n * 8) rest)
            (fun _ => fail_frame 1 s).
  Proof.
    apply (sized (fun n => read_bits (n * 8)) (fun n r s' => bits_read s s' inp off (n * 8) r)).
    intros n c r s1 Hd Hs1. eapply (bits_gen (n * 8)%Z s1 r [c] 1); eauto.
  Qed.

  Lemma unsigned_word n o :
    behaves (read_unsigned n o s)
            (fun s' => (n <= 127)%Z /\
                       num_read s s' inp off n (ds s) o (spec_uint o (slice_bits inp off n)))
            (fun _ => fail_frame 0 s).
  Proof.
    apply wp_behaves. eapply (unsigned_gen n o s (ds s) [] 0); eauto using st_init.
  Qed.

  Lemma signed_word n o :
    behaves (read_signed n o s)
            (fun s' => (n <= 128)%Z /\
                       num_read s s' inp off n (ds s) o (spec_int o (slice_bits inp off n)))
            (fun _ => fail_frame 0 s).
  Proof.
    apply wp_behaves. eapply (signed_gen n o s (ds s) [] 0); eauto using st_init.
  Qed.

  Lemma float_word fo n o :
    behaves (read_float fo n o s)
            (fun s' => exists pat, float_pat fo n o (slice_bits inp off n) pat /\
                                   real_read s s' inp off n (ds s) o pat)
            (fun _ => fail_frame 0 s).
  Proof.
    apply wp_behaves. eapply (float_gen fo n o s (ds s) [] 0); eauto using st_init.
  Qed.

  (* uN iN fN without an order suffix: the order of the [big]/[little] switch *)
  Lemma unsigned_cur_word n :
    behaves (with_order (read_unsigned n) s)
            (fun s' => exists o, h_order (heap s) = Some o /\ (n <= 127)%Z /\
                       num_read s s' inp off n (ds s) o (spec_uint o (slice_bits inp off n)))
            (fun _ => fail_frame 0 s).
  Proof.
    apply wp_behaves.
    apply (ordered (read_unsigned n)
             (fun o s' => (n <= 127)%Z /\ num_read s s' inp off n (ds s) o (spec_uint o (slice_bits inp off n)))
             s (ds s) 0); [apply st_init|].
    intros o. eapply (unsigned_gen n o s (ds s) [] 0); eauto using st_init.
  Qed.

  Lemma signed_cur_word n :
    behaves (with_order (read_signed n) s)
            (fun s' => exists o, h_order (heap s) = Some o /\ (n <= 128)%Z /\
                       num_read s s' inp off n (ds s) o (spec_int o (slice_bits inp off n)))
            (fun _ => fail_frame 0 s).
  Proof.
    apply wp_behaves.
    apply (ordered (read_signed n)
             (fun o s' => (n <= 128)%Z /\ num_read s s' inp off n (ds s) o (spec_int o (slice_bits inp off n)))
             s (ds s) 0); [apply st_init|].
    intros o. eapply (signed_gen n o s (ds s) [] 0); eauto using st_init.
  Qed.

  Lemma float_cur_word fo n :
    behaves (with_order (read_float fo n) s)
            (fun s' => exists o, h_order (heap s) = Some o /\
                       exists pat, float_pat fo n o (slice_bits inp off n) pat /\
                                   real_read s s' inp off n (ds s) o pat)
            (fun _ => fail_frame 0 s).
  Proof.
    apply wp_behaves.
    apply (ordered (read_float fo n)
             (fun o s' => exists pat, float_pat fo n o (slice_bits inp off n) pat /\
                                      real_read s s' inp off n (ds s) o pat)
             s (ds s) 0); [apply st_init|].
    intros o. eapply (float_gen fo n o s (ds s) [] 0); eauto using st_init.
  Qed.

  (* uint int float: the width is popped from the stack *)
  Lemma uint_word :
    behaves (with_size (fun n => with_order (read_unsigned n)) s)
            (fun s' => exists c rest n, ds s = c :: rest /\ is_usize c n /\
               exists o, h_order (heap s) = Some o /\ (n <= 127)%Z /\
                         num_read s s' inp off n rest o (spec_uint o (slice_bits inp off n)))
            (fun _ => fail_frame 1 s).
  Proof.
    apply (sized (fun n => with_order (read_unsigned n))
             (fun n r s' => exists o, h_order (heap s) = Some o /\ (n <= 127)%Z /\
                  num_read s s' inp off n r o (spec_uint o (slice_bits inp off n)))).
    intros n c r s1 Hd Hs1.
    apply (ordered (read_unsigned n)
             (fun o s' => (n <= 127)%Z /\ num_read s s' inp off n r o (spec_uint o (slice_bits inp off n)))
             s1 r 1); [exact Hs1|].
    intros o. eapply (unsigned_gen n o s1 r [c] 1); eauto.
  Qed.

  Lemma int_word :
    behaves (with_size (fun n => with_order (read_signed n)) s)
            (fun s' => exists c rest n, ds s = c :: rest /\ is_usize c n /\
               exists o, h_order (heap s) = Some o /\ (n <= 128)%Z /\
                         num_read s s' inp off n rest o (spec_int o (slice_bits inp off n)))
            (fun _ => fail_frame 1 s).
  Proof.
    apply (sized (fun n => with_order (read_signed n))
             (fun n r s' => exists o, h_order (heap s) = Some o /\ (n <= 128)%Z /\
                  num_read s s' inp off n r o (spec_int o (slice_bits inp off n)))).
    intros n c r s1 Hd Hs1.
    apply (ordered (read_signed n)
             (fun o s' => (n <= 128)%Z /\ num_read s s' inp off n r o (spec_int o (slice_bits inp off n)))
             s1 r 1); [exact Hs1|].
    intros o. eapply (signed_gen n o s1 r [c] 1); eauto.
  Qed.

  Lemma floatn_word fo :
    behaves (with_size (fun n => with_order (read_float fo n)) s)
            (fun s' => exists c rest n, ds s = c :: rest /\ is_usize c n /\
               exists o, h_order (heap s) = Some o /\
               exists pat, float_pat fo n o (slice_bits inp off n) pat /\
                           real_read s s' inp off n rest o pat)
            (fun _ => fail_frame 1 s).
  Proof.
    apply (sized (fun n => with_order (read_float fo n))
             (fun n r s' => exists o, h_order (heap s) = Some o /\
                  exists pat, float_pat fo n o (slice_bits inp off n) pat /\
                              real_read s s' inp off n r o pat)).
    intros n c r s1 Hd Hs1.
    apply (ordered (read_float fo n)
             (fun o s' => exists pat, float_pat fo n o (slice_bits inp off n) pat /\
                                      real_read s s' inp off n r o pat)
             s1 r 1); [exact Hs1|].
    intros o. eapply (float_gen fo n o s1 r [c] 1); eauto.
  Qed.

  (* magic: the bits read are the pattern's bits *)
  Lemma magic_word' :
    behaves (w_magic s)
            (fun s' => exists c rest pat, ds s = c :: rest /\ value c = CBits pat /\
               bits_read s s' inp off (Z.of_nat (clen pat)) rest /\
               eq_with (sub inp off (Z.of_nat (clen pat))) pat = true /\
               (wf pat -> slice_bits inp off (Z.of_nat (clen pat)) = abs pat))
            (fun _ => fail_frame 1 s).
  Proof.
    apply wp_behaves. eapply wp_conseq; [apply (magic_word s inp off Hcur)| |auto|auto].
    intros _ s' (c & rest & pat & Hd & Hv & Hrd & Heq & Hcu). exists c, rest, pat.
    pose proof Hrd as (Hn & Hfit & _).
    destruct (sub_spec inp off _ Hw ltac:(lia) Hn Hfit) as (Hsw & Hsa & _).
    split; [exact Hd|]. split; [exact Hv|]. split.
    - eexists. split; [exact Hrd|]. split; [exact Hcu|]. split; [exact Hsw|]. split; [exact Hsa|reflexivity].
    - split; [exact Heq|]. intros Hp. rewrite <- Hsa. apply eq_with_spec; auto.
  Qed.

  Lemma nulbytestr_word' :
    behaves (w_nulbytestr s)
            (fun s' => bits_read s s' inp off (Z.of_nat (nul_bits (rest_of inp off))) (ds s))
            (fun _ => fail_frame 0 s).
  Proof.
    apply wp_behaves. eapply wp_conseq; [apply (nulbytestr_word s inp off Hcur)| |auto|auto].
    cbv zeta. intros _ s' (Hrd & Hcu).
    pose proof Hrd as (Hn & Hfit & _).
    destruct (sub_spec inp off _ Hw ltac:(lia) Hn Hfit) as (Hsw & Hsa & _).
    eexists. split; [exact Hrd|]. split; [exact Hcu|]. split; [exact Hsw|]. split; [exact Hsa|reflexivity].
  Qed.

  Lemma cstr_word' :
    behaves (w_cstr s)
            (fun s' => let n := Z.of_nat (nul_bits (rest_of inp off)) in
                       read_done s s' inp off n (ds s) (CStr (cstr_of (slice_bits inp off n))) /\
                       cursor s' inp (off + n))
            (fun _ => fail_frame 0 s).
  Proof. apply wp_behaves. apply (cstr_word s inp off Hcur). Qed.
End Words.

(* seek / remain / find in the [behaves] form *)
Lemma seek_word' : forall s inp off, cursor s inp off ->
  behaves (w_seek s)
    (fun s' => exists c rest n, ds s = c :: rest /\ is_usize c n /\
       (Z.of_nat (cstart inp) <= n <= Z.of_nat (cend inp))%Z /\
       ds s' = rest /\ heap s' = list_set (heap s) R_OFFSET (cint n) /\ sim s s' /\
       cursor s' inp n)
    (fun _ => fail_frame 1 s).
Proof. intros s inp off H. apply wp_behaves. apply (seek_word s inp off H). Qed.

Lemma remain_word' : forall s inp off, cursor s inp off ->
  behaves (w_remain s)
    (fun s' => ds s' = cint (Z.of_nat (cend inp) - off) :: ds s /\ heap s' = heap s /\ sim s s')
    (fun _ => fail_frame 0 s).
Proof. intros s inp off H. apply wp_behaves. apply (remain_word s inp off H). Qed.

Lemma find_word' : forall s inp off, cursor s inp off ->
  behaves (w_find s)
    (fun s' => exists c rest pat r, ds s = c :: rest /\ value c = CBits pat /\
       ds s' = r :: rest /\ heap s' = heap s /\ sim s s' /\
       (r = CNil \/ exists p, r = cint p /\ (off <= p <= Z.of_nat (cend inp))%Z))
    (fun _ => fail_frame 1 s).
Proof. intros s inp off H. apply wp_behaves. apply (find_word s inp off H). Qed.

(* ---------- the float pattern is the number the bits denote ---------- *)
Lemma be_bytes_acc : forall l acc,
  fold_left (fun a b => (a * 256 + Z.of_N b)%Z) l acc
  = (acc * 256 ^ Z.of_nat (length l) + be_bytes_to_Z l)%Z.
Proof.
  unfold be_bytes_to_Z. induction l as [|b l IH]; intros acc; cbn [fold_left length].
  - change (256 ^ Z.of_nat 0)%Z with 1%Z. lia.
  - rewrite IH, (IH (0 * 256 + Z.of_N b)%Z).
    replace (Z.of_nat (S (length l))) with (1 + Z.of_nat (length l))%Z by lia.
    rewrite Z.pow_add_r by lia. change (256 ^ 1)%Z with 256%Z. ring.
Qed.

Lemma be_bytes_cons b l :
  be_bytes_to_Z (b :: l) = (Z.of_N b * 256 ^ Z.of_nat (length l) + be_bytes_to_Z l)%Z.
Proof. unfold be_bytes_to_Z at 1. cbn [fold_left]. rewrite be_bytes_acc. ring. Qed.

Lemma pow256 n : (256 ^ Z.of_nat n = 2 ^ Z.of_nat (8 * n))%Z.
Proof.
  change 256%Z with (2 ^ 8)%Z. rewrite <- Z.pow_mul_r by lia. f_equal. lia.
Qed.

Lemma take_pad_length : forall k (l : list N), length (take_pad k l) = k.
Proof. induction k as [|k IH]; intros [|x r]; cbn [take_pad length]; auto. Qed.

Lemma fbits_big : forall k l, length l = 8 * k ->
  be_bytes_to_Z (take_pad k (map bits_to_N (chunk8 l))) = bitsZ l.
Proof.
  induction k as [|k IH]; intros l Hl.
  - destruct l; [|discriminate]. reflexivity.
  - assert (Hs : l = (firstn 8 l ++ skipn 8 l)%list) by (symmetry; apply firstn_skipn).
    assert (Hg : length (firstn 8 l) = 8) by (rewrite firstn_length; lia).
    assert (Hr : length (skipn 8 l) = 8 * k) by (rewrite skipn_length; lia).
    rewrite Hs at 1. rewrite chunk8_app by exact Hg. cbn [map take_pad].
    rewrite be_bytes_cons, (IH _ Hr).
    rewrite take_pad_length, pow256. rewrite Hs at 3. rewrite bitsZ_app, Hr. reflexivity.
Qed.

Lemma le_groups_shift : forall gs sh, Forall (fun g => length g = 8) gs ->
  le_groups gs sh = (2 ^ Z.of_nat sh * be_bytes_to_Z (rev (map bits_to_N gs)))%Z.
Proof.
  induction gs as [|g gs IH]; intros sh Hgs; cbn [le_groups map rev].
  - unfold be_bytes_to_Z. cbn [fold_left]. lia.
  - inversion Hgs as [|? ? Hg Hr]; subst. rewrite be_bytes_to_Z_snoc, (IH _ Hr), Hg.
    replace (Z.of_nat (sh + 8)) with (Z.of_nat sh + 8)%Z by lia.
    rewrite Z.pow_add_r by lia. change (2 ^ 8)%Z with 256%Z. unfold bitsZ. ring.
Qed.

Lemma chunk8_all8 : forall k (l : list bool), length l = 8 * k ->
  Forall (fun g => length g = 8) (chunk8 l) /\ length (chunk8 l) = k.
Proof.
  induction k as [|k IH]; intros l Hl.
  - destruct l; [|discriminate]. split; [constructor|reflexivity].
  - assert (Hs : l = (firstn 8 l ++ skipn 8 l)%list) by (symmetry; apply firstn_skipn).
    assert (Hg : length (firstn 8 l) = 8) by (rewrite firstn_length; lia).
    assert (Hr : length (skipn 8 l) = 8 * k) by (rewrite skipn_length; lia).
    rewrite Hs. rewrite chunk8_app by exact Hg. destruct (IH _ Hr) as (H1 & H2).
    split; [constructor; assumption|cbn [length]; lia].
Qed.

Theorem fbits_of_spec : forall k o l, length l = 8 * k -> fbits_of k o l = spec_uint o l.
Proof.
  intros k o l Hl. unfold fbits_of, spec_uint. destruct o.
  - destruct (chunk8_all8 k l Hl) as (H8 & Hk).
    rewrite take_pad_all by (rewrite map_length; exact Hk).
    rewrite le_groups_shift by exact H8. change (2 ^ Z.of_nat 0)%Z with 1%Z. lia.
  - apply fbits_big. exact Hl.
Qed.
