(* CompileParse3.v: a parsed source whose layout exists is a well-formed program. *)
From Xeh Require Import Model.Prelude Model.Bits Model.Codec Model.Cell Model.Lexer Model.Fmt
                        Model.Vm Model.Words Model.Struct
                        Proofs.CompileLayout Proofs.CompileProg Proofs.CompileParse Proofs.CompileParse2.
Local Notation length := List.length.

(* no definition below the top level means no definition at any depth *)
Fixpoint ndb (l : list stmt) : bool :=
  match l with [] => false | y :: r => nested_def y || ndb r end.
Fixpoint nda (l : list arm) : bool :=
  match l with [] => false | (pre, _, body) :: r => ndb pre || ndb body || nda r end.

Lemma nd_If : forall p t, nested_def (SIf p t) = ndb t.
Proof. reflexivity. Qed.
Lemma nd_IfE : forall p t e, nested_def (SIfE p t e) = ndb t || ndb e.
Proof. reflexivity. Qed.
Lemma nd_Case : forall arms d, nested_def (SCase arms d) = nda arms || ndb d.
Proof. reflexivity. Qed.
Lemma nd_Until : forall b p, nested_def (SUntil b p) = ndb b.
Proof. reflexivity. Qed.
Lemma nd_Repeat : forall b, nested_def (SRepeat b) = ndb b.
Proof. reflexivity. Qed.
Lemma nd_While : forall c p b, nested_def (SWhile c p b) = ndb c || ndb b.
Proof. reflexivity. Qed.
Lemma nd_Do : forall p b pl, nested_def (SDo p b pl) = ndb b.
Proof. reflexivity. Qed.

Lemma orb_f : forall a b, a || b = false -> a = false /\ b = false.
Proof. intros [] []; cbn; intro H; try discriminate; auto. Qed.

Lemma nested_nodefs : forall x, nested_def x = false -> ddefs x = [].
Proof.
  apply (stmt_ind2 (fun x => nested_def x = false -> ddefs x = [])
                   (fun l => ndb l = false -> ddefs_b l = [])
                   (fun a => nda a = false -> ddefs_a a = [])); try reflexivity.
  - intros x r Hx Hr H. cbn [ndb] in H. apply orb_f in H. destruct H as [H1 H2].
    cbn [ddefs_b]. rewrite (Hx H1), (Hr H2). reflexivity.
  - intros pre p body r Hpre Hbody Hr H. cbn [nda] in H. apply orb_f in H. destruct H as [H1 H3].
    apply orb_f in H1. destruct H1 as [H1 H2].
    cbn [ddefs_a]. rewrite (Hpre H1), (Hbody H2), (Hr H3). reflexivity.
  - intros p t Ht H. rewrite nd_If in H. rewrite ddefs_If. auto.
  - intros p t e Ht He H. rewrite nd_IfE in H. apply orb_f in H. destruct H as [H1 H2].
    rewrite ddefs_IfE, (Ht H1), (He H2). reflexivity.
  - intros arms d Ha Hd H. rewrite nd_Case in H. apply orb_f in H. destruct H as [H1 H2].
    rewrite ddefs_Case, (Ha H1), (Hd H2). reflexivity.
  - intros b p Hb H. rewrite nd_Until in H. rewrite ddefs_Until. auto.
  - intros b Hb H. rewrite nd_Repeat in H. rewrite ddefs_Repeat. auto.
  - intros c p b Hc Hb H. rewrite nd_While in H. apply orb_f in H. destruct H as [H1 H2].
    rewrite ddefs_While, (Hc H1), (Hb H2). reflexivity.
  - intros p b pl Hb H. rewrite nd_Do in H. rewrite ddefs_Do. auto.
  - intros g H. discriminate.
Qed.

Lemma top_defs : forall l,
  forallb (fun x => match x with SDef _ => true | _ => negb (nested_def x) end) l = true ->
  forall g, In g (ddefs_b l) -> In (SDef g) l.
Proof.
  induction l as [|x r IH]; intros H g Hin; [contradiction|].
  cbn [forallb] in H. apply andb_prop in H. destruct H as [H1 H2].
  cbn [ddefs_b] in Hin. apply in_app_or in Hin. destruct Hin as [Hin|Hin].
  - destruct (is_def_dec x) as [[g' ->]|Hx].
    + cbn [ddefs] in Hin. destruct Hin as [->|[]]. left. reflexivity.
    + assert (E : nested_def x = false).
      { destruct x; try (apply Bool.negb_true_iff in H1; exact H1). exfalso. eapply Hx. reflexivity. }
      rewrite (nested_nodefs x E) in Hin. contradiction.
  - right. apply IH; assumption.
Qed.

Theorem parse_prog_wf : forall fo pr src heap0 l funs n,
  parse_source fo pr src heap0 = Some (l, funs, n) ->
  well_placed funs l = true ->
  prog_wf funs l.
Proof.
  intros fo pr src heap0 l funs n H HW. unfold parse_source in H.
  set (toks := lex_string src) in *. set (e0 := mkpenv [] [] 0 heap0 None 0 0) in *.
  pose proof (spec_all fo pr (S (S (length toks))) toks e0 [] [] false ltac:(constructor)) as G.
  destruct (pseq fo pr (S (S (length toks))) toks e0 [] [] false) as [body term tp rest e brk'| |]; try discriminate.
  destruct term; [|discriminate]. injection H as -> <- <-.
  cbn [good_res] in G. destruct G as (news & Hb & W & B & [Ei _] & F & _ & D).
  cbn [rev app] in Hb. subst news.
  specialize (D eq_refl). subst brk'. destruct (B eq_refl) as [_ N].
  split; [apply wf_b_Forall; exact W|]. split; [apply nb_b_Forall; exact N|].
  unfold well_placed in HW. apply andb_prop in HW. destruct HW as [HW _].
  rewrite Forall_forall. intros gb Hgb. unfold funs_good in F. rewrite Forall_forall in F.
  split; [|apply F; exact Hgb].
  apply top_defs; [exact HW|]. cbn [funs e0 map app] in Ei. apply Ei. apply in_map. exact Hgb.
Qed.

Lemma layout_well_placed : forall funs l org prog,
  layout_program funs l org = Some prog -> well_placed funs l = true.
Proof. intros funs l org prog H. unfold layout_program in H. destruct (well_placed funs l); [reflexivity|discriminate]. Qed.

(* what seval_source evaluates *)
Lemma seval_source_is : forall fo pr fuel src t0 l funs n,
  parse_source fo pr src (length (heap t0)) = Some (l, funs, n) ->
  seval_source fo pr fuel src t0 =
  CRun (sblock fo funs fuel l (set_heap t0 (heap t0 ++ repeat CNil (n - length (heap t0))))).
Proof.
  intros fo pr fuel src t0 l funs n H. unfold parse_source in H. unfold seval_source.
  destruct (pseq fo pr (S (S (length (lex_string src)))) (lex_string src)
                 (mkpenv [] [] 0 (length (heap t0)) None 0 0) [] [] false) as [body term tp rest e brk'| |];
    try discriminate.
  destruct term; [|discriminate]. injection H as -> <- <-. reflexivity.
Qed.
