(* MetaSeg.v (C11): sequences of token steps inside a meta block.

   [bpath d s x]   x is reached from s by token steps that never leave context depth d
   [seg s x]       the steps are balanced: every nested block opened on the way is closed again
   Every [bpath] that ends at the depth it started from is a [seg] (bracket matching, proved
   with the classification of MetaBlock.v), and a [seg] inside a meta context keeps the frame
   [R2] of that context - at any nesting depth.  Hence the theorem about a whole block:
   opened in state t, closed by #) or ~) after arbitrary contents, it ends in
   [close_state w1 (cx t)] for a machine state w1 related to t by the frame. *)
From Xeh Require Import Model.Prelude Model.Bits Model.Codec Model.Cell Model.Lexer Model.Fmt
                        Model.Vm Model.Words Model.Build.
From Xeh Require Import Proofs.VmFrame Proofs.VmLimits Proofs.NoPanic Proofs.NoPanicBuild Proofs.NoPanicFlow
                        Proofs.MetaBase Proofs.MetaPurge Proofs.MetaBuild Proofs.MetaClose Proofs.MetaPrefix
                        Proofs.MetaPrefixBuild Proofs.MetaPrefixWords Proofs.MetaBlock.
Local Notation length := List.length.
Local Open Scope string_scope.
Local Open Scope list_scope.

Definition depth (s : state) : nat := length (nested s).

Lemma R2_depth cs di a b : R2 cs di a b -> depth b = depth a.
Proof. intros ((_ & N & _) & _). unfold depth. rewrite N. reflexivity. Qed.

Lemma opened_depth s : depth (opened s) = S (depth s).
Proof. reflexivity. Qed.

Section Seg.
  Variable fo : fops.
  Variable pr : string -> option Z.
  Variable rf : nat.

  Definition anystep (s s' : state) : Prop := exists f, tstep fo pr rf f s s'.

  (* ---------- closing lowers the depth by one ---------- *)
  Lemma emit_results_nested : forall fuel s,
    res_all (fun s' => nested s' = nested s) (emit_results fuel s).
  Proof.
    induction fuel as [|f IH]; intros s; cbn [emit_results]; [reflexivity|].
    destruct (ds_len (cx s) <? length (ds s))%nat; [|reflexivity].
    pose proof (wl_fn _ _ wl_pop_data s) as H1.
    destruct (pop_data s) as [v s1|k p s1| |]; cbn [res_all] in *; try apply H1; try exact I.
    destruct H1 as (_ & N1 & _).
    pose proof (scorep_code_emit (load_value_opcode v) s1) as H2. unfold code_emit_value.
    destruct (code_emit (load_value_opcode v) s1) as [u s2|k p s2| |]; cbn [res_all] in *; try exact I.
    - unfold score in H2. injection H2 as _ N2 _ _ _ _ _ _.
      specialize (IH s2). destruct (emit_results f s2); cbn [res_all] in *; auto; congruence.
    - unfold score in H2. injection H2 as _ N2 _ _ _ _ _ _. congruence.
  Qed.

  Lemma context_close_depth s s' : is_meta s -> context_close fo rf s = ROk tt s' -> depth s = S (depth s').
  Proof.
    intros Hm E. unfold context_close in E.
    destruct (nested s) as [|prev rest] eqn:En; [discriminate|]. cbv zeta in E.
    change (cx (set_nested s rest)) with (cx s) in E. unfold is_meta in Hm. rewrite Hm in E.
    pose proof (run_m_fr fo rf (set_nested s rest)) as Fr.
    destruct (run_m fo rf (set_nested s rest)) as [[] s1|? ? ?| |]; try discriminate.
    cbn [res_all] in Fr. destruct Fr as (_ & N1 & _). cbn [set_nested nested] in N1.
    unfold depth. rewrite En. cbn [length]. f_equal.
    match type of E with
    | match (if ?b then _ else _) with _ => _ end = _ => destruct b
    end.
    - match type of E with
      | match emit_results ?k ?x with _ => _ end = _ =>
        pose proof (emit_results_nested k x) as H4; destruct (emit_results k x) as [u4 s4|? ? ?| |];
          try discriminate
      end.
      injection E as <-. cbn [res_all] in H4. cbn [set_cx nested]. rewrite H4. cbn [set_dict set_dbg set_code nested].
      rewrite N1. reflexivity.
    - injection E as <-. cbn [set_cx set_dict set_dbg set_code nested]. rewrite N1. reflexivity.
  Qed.

  Lemma closes_depth cs di s s' : Pre2 cs di s -> closes fo rf cs di s s' -> depth s = S (depth s').
  Proof.
    intros P (s3 & s4 & H & _ & Ec & D).
    pose proof (R2_keep _ _ _ _ P H) as P3.
    rewrite <- (R2_depth _ _ _ _ H).
    rewrite (context_close_depth s3 s4 (proj1 (proj1 P3)) Ec).
    destruct D as [->|(txt & ->)]; reflexivity.
  Qed.

  (* ---------- balanced sequences ---------- *)
  Inductive seg : state -> state -> Prop :=
  | seg_nil s : seg s s
  | seg_plain s s1 s2 : anystep s s1 -> depth s1 = depth s -> seg s1 s2 -> seg s s2
  | seg_block s s1 s2 s3 s4 :
      anystep s s1 -> depth s1 = S (depth s) -> seg s1 s2 ->
      anystep s2 s3 -> depth s3 = depth s -> seg s3 s4 -> seg s s4.

  Lemma seg_depth a b : seg a b -> depth b = depth a.
  Proof. induction 1; congruence. Qed.

  Lemma seg_app a b c : seg a b -> seg b c -> seg a c.
  Proof.
    induction 1; intros Hc; [exact Hc| |].
    - eapply seg_plain; eauto.
    - eapply seg_block; eauto.
  Qed.

  Lemma R2_interned cs di txt s : Pre2 cs di s -> R2 cs di s (interned txt s).
  Proof.
    intros P. apply R2_core; [exact P| |reflexivity]. apply sealed_score; [apply P|reflexivity].
  Qed.

  Theorem seg_R2 : forall s s', seg s s' -> forall cs di, Pre2 cs di s -> R2 cs di s s'.
  Proof.
    induction 1 as [s|s s1 s2 St Hd Sg IH|s s1 s2 s3 s4 St1 Hd1 Sg1 IH1 St2 Hd2 Sg2 IH2]; intros cs di P.
    - apply R2_refl. exact P.
    - destruct St as (f & St).
      destruct (tstep_cls fo pr rf cs di f s s1 P St) as [H|[(u & H & ->)|H]].
      + eapply R2_trans; [exact H|]. apply IH. eapply R2_keep; eassumption.
      + rewrite opened_depth, (R2_depth _ _ _ _ H) in Hd. lia.
      + pose proof (closes_depth _ _ _ _ P H). lia.
    - destruct St1 as (f & St1).
      destruct (tstep_cls fo pr rf cs di f s s1 P St1) as [H|[(u & H & ->)|H]].
      + rewrite (R2_depth _ _ _ _ H) in Hd1. lia.
      + pose proof (R2_keep _ _ _ _ P H) as Pu.
        assert (Wu : wfm u) by apply Pu. assert (Cu : cd_inv u) by apply Pu.
        pose proof (Pre2_opened u Wu Cu) as Po.
        pose proof (IH1 _ _ Po) as H1.
        pose proof (R2_keep _ _ _ _ Po H1) as P2.
        destruct St2 as (f2 & St2).
        destruct (tstep_cls fo pr rf _ _ f2 s2 s3 P2 St2) as [H2|[(u2 & H2 & ->)|H2]].
        * rewrite (R2_depth _ _ _ _ H2), (R2_depth _ _ _ _ H1), opened_depth, (R2_depth _ _ _ _ H) in Hd2. lia.
        * rewrite opened_depth, (R2_depth _ _ _ _ H2), (R2_depth _ _ _ _ H1), opened_depth,
            (R2_depth _ _ _ _ H) in Hd2. lia.
        * destruct H2 as (s3' & s4' & H3 & Hp & Ec & D).
          pose proof (R2_trans _ _ _ _ _ H1 H3) as H13.
          destruct (block_close fo rf u s3' s4' Wu Cu H13 Hp Ec) as (w1 & Hw & Fl & ->).
          pose proof (block_R2 cs di u w1 Pu Hw Fl) as Hb.
          pose proof (R2_keep _ _ _ _ Pu Hb) as Pb.
          assert (H4 : R2 cs di u s3).
          { destruct D as [->|(txt & ->)]; [exact Hb|].
            eapply R2_trans; [exact Hb|]. apply R2_interned. exact Pb. }
          eapply R2_trans; [exact H|]. eapply R2_trans; [exact H4|].
          apply IH2. eapply R2_keep; [exact Pu|exact H4].
      + pose proof (closes_depth _ _ _ _ P H). lia.
  Qed.

  Lemma seg_snoc_plain a b c : seg a b -> anystep b c -> depth c = depth b -> seg a c.
  Proof.
    intros H St Hd. eapply seg_app; [exact H|]. eapply seg_plain; [exact St|exact Hd|apply seg_nil].
  Qed.

  (* ---------- prefixes of balanced sequences ---------- *)
  Inductive pseg : nat -> nat -> state -> state -> Prop :=
  | ps_seg cs di s x : seg s x -> pseg cs di s x
  | ps_open cs di s a a' x :
      seg s a -> anystep a (opened a') -> R2 cs di a a' ->
      pseg (length (code a')) (length (dict a')) (opened a') x -> pseg cs di s x.

  Lemma pseg_depth : forall cs di s x, pseg cs di s x -> Pre2 cs di s -> depth s <= depth x.
  Proof.
    induction 1 as [cs di s x Sg|cs di s a a' x Sg St H Ps IH]; intros P.
    - rewrite (seg_depth _ _ Sg). lia.
    - pose proof (seg_R2 _ _ Sg _ _ P) as Ha.
      pose proof (R2_keep _ _ _ _ P Ha) as Pa. pose proof (R2_keep _ _ _ _ Pa H) as Pa'.
      assert (Po : Pre2 (length (code a')) (length (dict a')) (opened a')) by (apply Pre2_opened; apply Pa').
      specialize (IH Po). rewrite opened_depth, (R2_depth _ _ _ _ H), (seg_depth _ _ Sg) in IH. lia.
  Qed.

  (* one more step: the prefix grows, or the step closes the block the prefix started in *)
  Lemma pseg_snoc : forall cs di s x, pseg cs di s x -> Pre2 cs di s -> forall y, anystep x y ->
    pseg cs di s y \/ (seg s x /\ closes fo rf cs di x y).
  Proof.
    induction 1 as [cs di s x Sg|cs di s a a' x Sg St H Ps IH]; intros P y Sy.
    - pose proof (seg_R2 _ _ Sg _ _ P) as Hx. pose proof (R2_keep _ _ _ _ P Hx) as Px.
      destruct Sy as (f & Sy0). pose proof (ex_intro (fun f => tstep fo pr rf f x y) f Sy0) as Sy.
      destruct (tstep_cls fo pr rf cs di f x y Px Sy0) as [Hy|[(u & Hu & ->)|Hc]].
      + left. apply ps_seg. eapply seg_snoc_plain; [exact Sg|exact Sy|]. apply (R2_depth _ _ _ _ Hy).
      + left. eapply ps_open; [exact Sg|exact Sy|exact Hu|]. apply ps_seg. apply seg_nil.
      + right. split; assumption.
    - pose proof (seg_R2 _ _ Sg _ _ P) as Ha.
      pose proof (R2_keep _ _ _ _ P Ha) as Pa. pose proof (R2_keep _ _ _ _ Pa H) as Pa'.
      assert (Po : Pre2 (length (code a')) (length (dict a')) (opened a')) by (apply Pre2_opened; apply Pa').
      destruct (IH Po y Sy) as [Py|[Sgx Hc]].
      + left. eapply ps_open; eassumption.
      + left. apply ps_seg. eapply seg_app; [exact Sg|].
        eapply seg_block; [exact St| |exact Sgx|exact Sy| |apply seg_nil].
        * rewrite opened_depth, (R2_depth _ _ _ _ H). reflexivity.
        * pose proof (seg_R2 _ _ Sgx _ _ Po) as Hx. pose proof (R2_keep _ _ _ _ Po Hx) as Px.
          pose proof (closes_depth _ _ _ _ Px Hc) as Dc.
          rewrite (seg_depth _ _ Sgx), opened_depth, (R2_depth _ _ _ _ H) in Dc. lia.
  Qed.

  (* ---------- paths that stay at or above a depth ---------- *)
  Inductive bpath (d : nat) (s : state) : state -> Prop :=
  | bp_nil : bpath d s s
  | bp_snoc x y : bpath d s x -> anystep x y -> d <= depth y -> bpath d s y.

  Lemma bpath_pseg cs di s x : Pre2 cs di s -> bpath (depth s) s x -> pseg cs di s x.
  Proof.
    intros P. induction 1 as [|x y Hb IH Sy Hd]; [apply ps_seg, seg_nil|].
    destruct (pseg_snoc _ _ _ _ IH P y Sy) as [Py|[Sgx Hc]]; [exact Py|].
    pose proof (seg_R2 _ _ Sgx _ _ P) as Hx. pose proof (R2_keep _ _ _ _ P Hx) as Px.
    pose proof (closes_depth _ _ _ _ Px Hc) as Dc. rewrite (seg_depth _ _ Sgx) in Dc. lia.
  Qed.

  (* bracket matching: back at the starting depth means balanced *)
  Theorem bpath_seg cs di s x : Pre2 cs di s -> bpath (depth s) s x -> depth x = depth s -> seg s x.
  Proof.
    intros P Hb Hd. pose proof (bpath_pseg cs di s x P Hb) as Ps.
    inversion Ps as [? ? ? ? Sg|? ? ? a a' ? Sg St H Ps']; subst; [exact Sg|].
    pose proof (seg_R2 _ _ Sg _ _ P) as Ha.
    pose proof (R2_keep _ _ _ _ P Ha) as Pa. pose proof (R2_keep _ _ _ _ Pa H) as Pa'.
    assert (Po : Pre2 (length (code a')) (length (dict a')) (opened a')) by (apply Pre2_opened; apply Pa').
    pose proof (pseg_depth _ _ _ _ Ps' Po) as D.
    rewrite opened_depth, (R2_depth _ _ _ _ H), (seg_depth _ _ Sg) in D. lia.
  Qed.

  (* every state on such a path is inside a meta context that satisfies the frame's precondition *)
  Lemma pseg_inner : forall cs di s x, pseg cs di s x -> Pre2 cs di s -> exists cs' di', Pre2 cs' di' x.
  Proof.
    induction 1 as [cs di s x Sg|cs di s a a' x Sg St H Ps IH]; intros P.
    - exists cs, di. eapply R2_keep; [exact P|]. apply seg_R2; assumption.
    - pose proof (seg_R2 _ _ Sg _ _ P) as Ha.
      pose proof (R2_keep _ _ _ _ P Ha) as Pa. pose proof (R2_keep _ _ _ _ Pa H) as Pa'.
      apply IH. apply Pre2_opened; apply Pa'.
  Qed.

  (* ---------- the whole block ---------- *)
  Lemma bpath_depth d s x : d <= depth s -> bpath d s x -> d <= depth x.
  Proof. intros H Hb. destruct Hb; assumption. Qed.

  (* the first step that leaves the block closes it (with #) or ~) ), whatever the block contained *)
  Theorem block_theorem t u t' :
    wfm t -> cd_inv t ->
    bpath (S (depth t)) (opened t) u -> anystep u t' -> depth t' <= depth t ->
    seg (opened t) u /\
    exists w1, R2 (length (code t)) (length (dict t)) (inner t) w1 /\ flows w1 = flows t /\
               (t' = close_state w1 (cx t) \/ exists txt, t' = interned txt (close_state w1 (cx t))).
  Proof.
    intros W Hcd Hb St Hd.
    pose proof (Pre2_opened t W Hcd) as Po.
    pose proof (bpath_pseg _ _ _ _ Po Hb) as Ps.
    destruct (pseg_snoc _ _ _ _ Ps Po t' St) as [Py|[Sg Hc]].
    - pose proof (pseg_depth _ _ _ _ Py Po) as D. rewrite opened_depth in D. lia.
    - split; [exact Sg|].
      pose proof (seg_R2 _ _ Sg _ _ Po) as H1.
      destruct Hc as (s3 & s4 & H3 & Hp & Ec & D).
      pose proof (R2_trans _ _ _ _ _ H1 H3) as H13.
      destruct (block_close fo rf t s3 s4 W Hcd H13 Hp Ec) as (w1 & Hw & Fl & ->).
      exists w1. split; [exact Hw|]. split; [exact Fl|exact D].
  Qed.

  (* inside the block: every state is in meta mode with an unchanged heap and sealed stacks *)
  Definition sealedm (s x : state) : Prop :=
    is_meta x /\ heap x = heap s /\
    keeps (ds_len (cx s)) (ds s) (ds x) /\ keeps (rs_len (cx s)) (rs s) (rs x) /\
    keeps (ls_len (cx s)) (loops s) (loops x) /\ keeps (ss_ptr (cx s)) (special s) (special x) /\
    keeps (fs_len (cx s)) (flows s) (flows x).

  Lemma pseg_sealedm : forall cs di s x, pseg cs di s x -> Pre2 cs di s -> sealedm s x.
  Proof.
    induction 1 as [cs di s x Sg|cs di s a a' x Sg St H Ps IH]; intros P.
    - pose proof (seg_R2 _ _ Sg _ _ P) as Hx. pose proof (R2_keep _ _ _ _ P Hx) as Px.
      destruct Hx as ((Hh & _ & _ & K1 & K2 & K3 & K4 & K5) & _).
      split; [apply Px|]. repeat split; first [exact Hh|apply K1|apply K2|apply K3|apply K4|apply K5].
    - pose proof (seg_R2 _ _ Sg _ _ P) as Ha.
      pose proof (R2_keep _ _ _ _ P Ha) as Pa. pose proof (R2_keep _ _ _ _ Pa H) as Pa'.
      assert (Po : Pre2 (length (code a')) (length (dict a')) (opened a')) by (apply Pre2_opened; apply Pa').
      destruct (IH Po) as (Mx & Hh & K1 & K2 & K3 & K4 & K5).
      pose proof (R2_trans _ _ _ _ _ Ha H) as Hsa.
      destruct Hsa as ((Hh' & _ & Em & J1 & J2 & J3 & J4 & J5) & _).
      destruct (cmarks_fields _ _ Em) as (M1 & M2 & M3 & M4 & M5 & M6 & M7 & M8).
      assert (Ma : is_meta a') by apply Pa'.
      change (heap (opened a')) with (heap a') in Hh.
      change (ds (opened a')) with (ds a') in K1. change (rs (opened a')) with (rs a') in K2.
      change (loops (opened a')) with (loops a') in K3. change (special (opened a')) with (special a') in K4.
      change (flows (opened a')) with (flows a') in K5.
      change (rs_len (cx (opened a'))) with (length (rs a')) in K2.
      change (ls_len (cx (opened a'))) with (length (loops a')) in K3.
      change (ss_ptr (cx (opened a'))) with (length (special a')) in K4.
      change (fs_len (cx (opened a'))) with (length (flows a')) in K5.
      assert (Ed : ds_len (cx (opened a')) = ds_len (cx s)).
      { unfold opened, open_ctx. cbn [set_nested set_cx cx ds_len]. unfold is_meta in Ma. rewrite Ma. exact M1. }
      rewrite Ed in K1.
      split; [exact Mx|]. split; [congruence|].
      split; [eapply keeps_trans; eassumption|].
      split; [eapply keeps_trans; [exact J2|]; apply (keeps_le _ _ _ _ (proj1 J2) K2); lia|].
      split; [eapply keeps_trans; [exact J3|]; apply (keeps_le _ _ _ _ (proj1 J3) K3); lia|].
      split; [eapply keeps_trans; [exact J4|]; apply (keeps_le _ _ _ _ (proj1 J4) K4); lia|].
      eapply keeps_trans; [exact J5|]; apply (keeps_le _ _ _ _ (proj1 J5) K5); lia.
  Qed.

  Theorem block_interior t x :
    wfm t -> cd_inv t -> bpath (S (depth t)) (opened t) x ->
    is_meta x /\ heap x = heap t /\
    keeps (ds_len (open_ctx t)) (ds t) (ds x) /\ keeps (length (rs t)) (rs t) (rs x) /\
    keeps (length (loops t)) (loops t) (loops x) /\ keeps (length (special t)) (special t) (special x) /\
    keeps (length (flows t)) (flows t) (flows x).
  Proof.
    intros W Hcd Hb.
    pose proof (Pre2_opened t W Hcd) as Po.
    exact (pseg_sealedm _ _ _ _ (bpath_pseg _ _ _ _ Po Hb) Po).
  Qed.
End Seg.
