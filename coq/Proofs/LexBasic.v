(* String helpers, the "advance" relations between (rest, position) pairs, UTF-8 validity
   of suffixes, and the specifications of the lexer's scanning loops. *)
From Xeh Require Import Model.Prelude Model.Bits Model.Cell Model.Lexer Proofs.LexLoc.
From Coq Require Import ZifyBool ZifyNat ZifyN.
Local Open Scope string_scope.

(* ---------- strings ---------- *)

Lemma app_length_s : forall a b, String.length (a ++ b) = String.length a + String.length b.
Proof. induction a as [|c a IH]; intros b; cbn [append String.length]; [reflexivity|]. rewrite IH. reflexivity. Qed.

Lemma app_assoc_s : forall a b c : string, (a ++ b) ++ c = a ++ (b ++ c).
Proof. induction a as [|x a IH]; intros b c; cbn [append]; [reflexivity|]. rewrite IH. reflexivity. Qed.

Lemma app_nil_r_s : forall a : string, a ++ "" = a.
Proof. induction a as [|x a IH]; cbn [append]; [reflexivity|]. rewrite IH. reflexivity. Qed.

Lemma str_drop_0 s : str_drop 0 s = s.
Proof. reflexivity. Qed.

Lemma str_drop_nil n : str_drop n "" = "".
Proof. destruct n; reflexivity. Qed.

Lemma str_take_nil n : str_take n "" = "".
Proof. destruct n; reflexivity. Qed.

Lemma str_take_0 s : str_take 0 s = "".
Proof. reflexivity. Qed.

Lemma str_take_length : forall n s, String.length (str_take n s) = Nat.min n (String.length s).
Proof.
  induction n as [|n IH]; intros s; [reflexivity|].
  destruct s as [|c r]; [reflexivity|]. cbn [str_take String.length]. rewrite IH. lia.
Qed.

Lemma str_drop_length : forall n s, String.length (str_drop n s) = String.length s - n.
Proof.
  induction n as [|n IH]; intros s; [cbn [str_drop]; lia|].
  destruct s as [|c r]; [reflexivity|]. cbn [str_drop String.length]. rewrite IH. lia.
Qed.

Lemma str_drop_drop : forall a s b, str_drop b (str_drop a s) = str_drop (a + b) s.
Proof.
  induction a as [|a IH]; intros s b; [reflexivity|].
  destruct s as [|c r]; [rewrite !str_drop_nil; reflexivity|].
  cbn [str_drop Nat.add]. apply IH.
Qed.

Lemma str_take_drop : forall n s, str_take n s ++ str_drop n s = s.
Proof.
  induction n as [|n IH]; intros s; [reflexivity|].
  destruct s as [|c r]; [reflexivity|]. cbn [str_take str_drop append]. rewrite IH. reflexivity.
Qed.

Lemma str_drop_all : forall n s, String.length s <= n -> str_drop n s = "".
Proof.
  induction n as [|n IH]; intros s H.
  - destruct s; [reflexivity|cbn [String.length] in H; lia].
  - destruct s as [|c r]; [reflexivity|]. cbn [str_drop]. apply IH. cbn [String.length] in H. lia.
Qed.

Lemma str_take_all : forall n s, String.length s <= n -> str_take n s = s.
Proof.
  induction n as [|n IH]; intros s H.
  - destruct s; [reflexivity|cbn [String.length] in H; lia].
  - destruct s as [|c r]; [reflexivity|]. cbn [str_take]. rewrite IH; [reflexivity|].
    cbn [String.length] in H. lia.
Qed.

Lemma str_take_add : forall a b s, str_take (a + b) s = str_take a s ++ str_take b (str_drop a s).
Proof.
  induction a as [|a IH]; intros b s; [reflexivity|].
  destruct s as [|c r]; [rewrite !str_take_nil; reflexivity|].
  cbn [Nat.add str_take str_drop append]. rewrite IH. reflexivity.
Qed.

Lemma str_drop_min : forall n s, str_drop n s = str_drop (Nat.min n (String.length s)) s.
Proof.
  intros n s. destruct (Nat.le_gt_cases n (String.length s)) as [H|H].
  - rewrite Nat.min_l by assumption. reflexivity.
  - rewrite Nat.min_r by lia. rewrite !str_drop_all by lia. reflexivity.
Qed.

Lemma str_drop_app_length a b : str_drop (String.length a) (a ++ b) = b.
Proof. induction a as [|c a IH]; [reflexivity|]. cbn [String.length append str_drop]. exact IH. Qed.

Lemma str_take_app_length a b : str_take (String.length a) (a ++ b) = a.
Proof. induction a as [|c a IH]; [reflexivity|]. cbn [String.length append str_take]. rewrite IH. reflexivity. Qed.

Lemma no_ws_app a b : no_ws (a ++ b) = no_ws a && no_ws b.
Proof.
  induction a as [|c a IH]; [reflexivity|]. cbn [append no_ws]. rewrite IH. apply andb_assoc.
Qed.

(* ---------- advance relations ---------- *)

(* positions move forward and the rest is the matching suffix (drop saturates) *)
Definition adv (s : string) (p : nat) (s' : string) (p' : nat) : Prop :=
  p <= p' /\ s' = str_drop (p' - p) s.

(* exact: the bytes counted were really there *)
Definition advx (s : string) (p : nat) (s' : string) (p' : nat) : Prop :=
  exists k, k <= String.length s /\ p' = p + k /\ s' = str_drop k s.

Lemma advx_adv s p s' p' : advx s p s' p' -> adv s p s' p'.
Proof. intros (k & H1 & H2 & H3). split; [lia|]. subst. f_equal. lia. Qed.

Lemma adv_refl s p : adv s p s p.
Proof. split; [lia|]. rewrite Nat.sub_diag. reflexivity. Qed.

Lemma advx_refl s p : advx s p s p.
Proof. exists 0. split; [lia|]. split; [lia|reflexivity]. Qed.

Lemma adv_trans s p s1 p1 s2 p2 : adv s p s1 p1 -> adv s1 p1 s2 p2 -> adv s p s2 p2.
Proof.
  intros [H1 H2] [H3 H4]. split; [lia|]. subst. rewrite str_drop_drop. f_equal. lia.
Qed.

Lemma advx_trans s p s1 p1 s2 p2 : advx s p s1 p1 -> advx s1 p1 s2 p2 -> advx s p s2 p2.
Proof.
  intros (k & H1 & H2 & H3) (j & H4 & H5 & H6). subst.
  rewrite str_drop_length in H4. exists (k + j). split; [lia|]. split; [lia|].
  apply str_drop_drop.
Qed.

Lemma advx_cons c r p s' p' q : advx r q s' p' -> q = S p -> advx (String c r) p s' p'.
Proof.
  intros (k & H1 & H2 & H3) ->. exists (S k). cbn [String.length str_drop].
  split; [lia|]. split; [lia|assumption].
Qed.

Lemma advx_cons2 a b r p s' p' q : advx r q s' p' -> q = p + 2 -> advx (String a (String b r)) p s' p'.
Proof.
  intros H ->. eapply advx_cons; [eapply advx_cons; [exact H|]|reflexivity]. lia.
Qed.

Lemma advx_cons3 a b c r p s' p' q : advx r q s' p' -> q = p + 3 ->
  advx (String a (String b (String c r))) p s' p'.
Proof.
  intros H ->. eapply advx_cons; [eapply advx_cons2; [exact H|]|reflexivity]. lia.
Qed.

Lemma adv_cons c r p s' p' q : adv r q s' p' -> q = S p -> adv (String c r) p s' p'.
Proof.
  intros [H1 H2] ->. split; [lia|]. replace (p' - p) with (S (p' - S p)) by lia. exact H2.
Qed.

Lemma advx_drop s p k : k <= String.length s -> advx s p (str_drop k s) (p + k).
Proof. intros H. exists k. auto. Qed.

Lemma adv_drop s p k : adv s p (str_drop k s) (p + k).
Proof. split; [lia|]. f_equal. lia. Qed.

Lemma advx_len s p s' p' : advx s p s' p' -> p' + String.length s' = p + String.length s.
Proof. intros (k & H1 & H2 & H3). subst. rewrite str_drop_length. lia. Qed.

(* ---------- validity of suffixes ---------- *)

(* a suffix of a valid text, cut at an arbitrary byte *)
Definition vsuf (s : string) : Prop := exists need, valid_go s need = true.

Lemma vsuf_of_valid s : valid_go s 0 = true -> vsuf s.
Proof. intros H. exists 0. exact H. Qed.

Lemma vsuf_tail c r : vsuf (String c r) -> vsuf r.
Proof.
  intros [need H]. cbn [valid_go] in H. destruct need as [|k]; apply andb_prop in H; destruct H as [_ H].
  - eexists; exact H.
  - eexists; exact H.
Qed.

Lemma vsuf_drop : forall k s, vsuf s -> vsuf (str_drop k s).
Proof.
  induction k as [|k IH]; intros s H; [exact H|].
  destruct s as [|c r]; [exact H|]. cbn [str_drop]. apply IH. eapply vsuf_tail. exact H.
Qed.

Lemma vsuf_advx s p s' p' : advx s p s' p' -> vsuf s -> vsuf s'.
Proof. intros (k & _ & _ & ->). apply vsuf_drop. Qed.

Lemma ascii_width c : (byte_of c < 128)%N -> utf8_width c = 1 /\ is_cont c = false.
Proof.
  intros H. unfold utf8_width, is_cont. replace (byte_of c <? 128)%N with true by lia.
  split; [reflexivity|lia].
Qed.

Lemma ws_ascii c : is_ws c = true -> (byte_of c < 128)%N.
Proof. unfold is_ws. lia. Qed.

Lemma valid_ascii_tail c r : vsuf (String c r) -> (byte_of c < 128)%N -> valid_go r 0 = true.
Proof.
  intros [need H] Hc. destruct (ascii_width c Hc) as [Hw Hn].
  cbn [valid_go] in H. rewrite Hw, Hn in H. destruct need; [|discriminate]. exact H.
Qed.

(* boundary: empty, or the first byte is not a continuation byte *)
Definition bnd (s : string) : bool :=
  match s with "" => true | String c _ => negb (is_cont c) end.

Lemma valid_of_bnd s : vsuf s -> bnd s = true -> valid_go s 0 = true.
Proof.
  intros [need H] Hb. destruct s as [|c r].
  - cbn [valid_go] in *. destruct need; [reflexivity|discriminate].
  - cbn [bnd] in Hb. destruct need as [|k]; [exact H|].
    cbn [valid_go] in H. destruct (is_cont c); discriminate.
Qed.

Lemma ws_or_end_bnd s : next_is_ws_or_end s = true -> bnd s = true.
Proof.
  destruct s as [|c r]; [reflexivity|]. cbn [next_is_ws_or_end bnd]. intros H.
  destruct (ascii_width c (ws_ascii c H)) as [_ ->]. reflexivity.
Qed.

Lemma cont_not_ws c : is_cont c = true -> is_ws c = false.
Proof. unfold is_cont, is_ws. lia. Qed.

(* a valid text holds the announced continuation bytes *)
Lemma valid_need : forall need s, valid_go s need = true ->
  need <= String.length s /\ no_ws (str_take need s) = true /\ valid_go (str_drop need s) 0 = true.
Proof.
  induction need as [|k IH]; intros s H.
  - split; [lia|]. split; [reflexivity|exact H].
  - destruct s as [|c r]; [discriminate|]. cbn [valid_go] in H.
    apply andb_prop in H. destruct H as [H1 H2]. destruct (IH r H2) as (A & B & C).
    cbn [String.length str_take str_drop no_ws]. split; [lia|]. split; [|exact C].
    rewrite (cont_not_ws c H1), B. reflexivity.
Qed.

(* the first character of a valid text: it fits, and consists of one non-continuation byte
   followed by continuation bytes *)
Lemma valid_first_char c r : valid_go (String c r) 0 = true ->
  utf8_width c <= String.length (String c r) /\
  valid_go (str_drop (utf8_width c) (String c r)) 0 = true /\
  (is_ws c = false -> no_ws (str_take (utf8_width c) (String c r)) = true).
Proof.
  intros H. cbn [valid_go] in H. apply andb_prop in H. destruct H as [H1 H2].
  pose proof (utf8_width_pos c) as Hw.
  destruct (valid_need _ _ H2) as (A & B & C).
  replace (utf8_width c) with (S (utf8_width c - 1)) by lia.
  cbn [String.length str_take str_drop no_ws]. split; [lia|]. split; [exact C|].
  intros Hc. rewrite Hc, B. reflexivity.
Qed.

(* ---------- skip_ws ---------- *)

Lemma skip_ws_spec : forall s n s' n', skip_ws s n = (s', n') ->
  exists k, k <= String.length s /\ n' = n + k /\ s' = str_drop k s /\
            (valid_go s 0 = true -> valid_go s' 0 = true) /\
            (k = 0 -> match s with String c _ => is_ws c = false | "" => True end).
Proof.
  induction s as [|c r IH]; intros n s' n' H; cbn [skip_ws] in H.
  - injection H as <- <-. exists 0. cbn [String.length]. repeat split; auto; lia.
  - destruct (is_ws c) eqn:Ec.
    + destruct (IH _ _ _ H) as (k & K1 & K2 & K3 & K4 & _).
      exists (S k). cbn [String.length str_drop]. split; [lia|]. split; [lia|]. split; [exact K3|].
      split; [|intros C; discriminate].
      intros Hv. apply K4. apply (valid_ascii_tail c r); [apply vsuf_of_valid; exact Hv|].
      apply ws_ascii. exact Ec.
    + injection H as <- <-. exists 0. split; [lia|]. split; [lia|]. split; [reflexivity|].
      split; [auto|]. intros _. reflexivity.
Qed.

(* ---------- lex_str ---------- *)

Definition esc_dispatch {A} (c2 : string) (k : string -> A) (e : A) : A :=
  match c2 with
  | "\" => k "\"
  | String """" "" => k (String """" "")
  | "n" => k (String (ascii_of_N 10) "")
  | "r" => k (String (ascii_of_N 13) "")
  | "t" => k (String (ascii_of_N 9) "")
  | _ => e
  end.

Lemma esc_cases {A} c2 (k : string -> A) e :
  esc_dispatch c2 k e = e \/ exists X, esc_dispatch c2 k e = k X.
Proof.
  destruct c2 as [|[[] [] [] [] [] [] [] []] [|? ?]];
    try (left; reflexivity); right; eexists; reflexivity.
Qed.

Lemma lex_str_S curly f s pos tmp start endpos :
  lex_str curly (S f) s pos tmp start endpos =
  match s with
  | "" => (TErr PUntermStr pos endpos, "", pos)
  | String c r =>
    if (byte_of c =? 92)%N then
      match take_char r with
      | None => (TErr PUntermStr pos endpos, "", S pos)
      | Some (c2, r2) =>
        let p2 := S pos + String.length c2 in
        esc_dispatch c2 (fun X => lex_str curly f r2 p2 (tmp ++ X) start endpos) (TErr PEscape pos p2, r2, p2)
      end
    else if (byte_of c =? 34)%N then
      let p2 := S pos in
      if next_is_ws_or_end r then (TLit (CStr tmp), r, p2) else (TErr PExpectWs start p2, r, p2)
    else if curly && starts_rdq s then
      let r3 := str_drop 3 s in
      let p2 := pos + 3 in
      if next_is_ws_or_end r3 then (TLit (CStr tmp), r3, p2) else (TErr PExpectWs start p2, r3, p2)
    else
      lex_str curly f r (S pos) (tmp ++ String c "") start endpos
  end.
Proof. reflexivity. Qed.

Definition is_err (t : tok) : bool := match t with TErr _ _ _ => true | _ => false end.

Lemma take_char_spec r c2 r2 : take_char r = Some (c2, r2) ->
  exists k, k <= String.length r /\ String.length c2 = k /\ r2 = str_drop k r.
Proof.
  destruct r as [|c r']; [discriminate|]. unfold take_char. intros H. injection H as <- <-.
  exists (Nat.min (utf8_width c) (String.length (String c r'))).
  split; [lia|]. split; [apply str_take_length|apply str_drop_min].
Qed.

Lemma starts_rdq_len s : starts_rdq s = true -> 3 <= String.length s.
Proof.
  destruct s as [|a [|b [|c r]]]; cbn [starts_rdq String.length]; try discriminate. lia.
Qed.

Lemma starts_rdq_valid s : starts_rdq s = true -> vsuf s -> valid_go (str_drop 3 s) 0 = true.
Proof.
  destruct s as [|a [|b [|c r]]]; cbn [starts_rdq]; try discriminate.
  intros H [need Hv]. cbn [str_drop].
  assert (Ha : byte_of a = 226%N) by lia.
  cbn [valid_go] in Hv. unfold is_cont, utf8_width in Hv. rewrite Ha in Hv.
  destruct need as [|k]; [|discriminate Hv].
  cbn in Hv. apply andb_prop in Hv. destruct Hv as [_ Hv]. apply andb_prop in Hv. destruct Hv as [_ Hv].
  exact Hv.
Qed.

Lemma lex_str_spec : forall curly f s pos tmp start endpos t s' pos',
  lex_str curly f s pos tmp start endpos = (t, s', pos') ->
  advx s pos s' pos' /\ (is_err t = false -> vsuf s -> valid_go s' 0 = true).
(* see also lex_str_kind below *)
Proof.
  intros curly. induction f as [|f IH]; intros s pos tmp start endpos t s' pos' H.
  - cbn [lex_str] in H. injection H as <- <- <-. split; [apply advx_refl|discriminate].
  - rewrite lex_str_S in H. destruct s as [|c r].
    + injection H as <- <- <-. split; [apply advx_refl|discriminate].
    + destruct (byte_of c =? 92)%N eqn:E1.
      * destruct (take_char r) as [[c2 r2]|] eqn:Etc.
        -- destruct (take_char_spec _ _ _ Etc) as (k & K1 & K2 & K3). cbv zeta in H.
           assert (A0 : advx (String c r) pos r2 (S pos + String.length c2)).
           { eapply advx_cons; [|reflexivity]. subst r2. rewrite K2. apply advx_drop. exact K1. }
           destruct (esc_cases c2 (fun X => lex_str curly f r2 (S pos + String.length c2) (tmp ++ X) start endpos)
                               (TErr PEscape pos (S pos + String.length c2), r2, S pos + String.length c2))
             as [Hc|[X Hc]]; rewrite Hc in H.
           ++ injection H as <- <- <-. split; [exact A0|discriminate].
           ++ destruct (IH _ _ _ _ _ _ _ _ H) as [B1 B2]. split.
              ** eapply advx_trans; eassumption.
              ** intros Ht Hv. apply B2; [exact Ht|]. eapply vsuf_advx; eassumption.
        -- injection H as <- <- <-. split; [|discriminate].
           destruct r; [|discriminate]. eapply advx_cons; [apply advx_refl|reflexivity].
      * destruct (byte_of c =? 34)%N eqn:E2.
        -- cbv zeta in H.
           assert (A0 : advx (String c r) pos r (S pos)) by (eapply advx_cons; [apply advx_refl|reflexivity]).
           destruct (next_is_ws_or_end r); injection H as <- <- <-; (split; [exact A0|]).
           ++ intros _ Hv. apply (valid_ascii_tail c r Hv). lia.
           ++ discriminate.
        -- destruct (curly && starts_rdq (String c r)) eqn:E3'.
           ++ cbv zeta in H. apply andb_prop in E3'. destruct E3' as [_ E3].
              assert (A0 : advx (String c r) pos (str_drop 3 (String c r)) (pos + 3))
                by (apply advx_drop, starts_rdq_len, E3).
              destruct (next_is_ws_or_end (str_drop 3 (String c r))); injection H as <- <- <-;
                (split; [exact A0|]).
              ** intros _ Hv. exact (starts_rdq_valid (String c r) E3 Hv).
              ** discriminate.
           ++ destruct (IH _ _ _ _ _ _ _ _ H) as [B1 B2]. split.
              ** eapply advx_cons; [exact B1|reflexivity].
              ** intros Ht Hv. apply B2; [exact Ht|]. eapply vsuf_tail; exact Hv.
Qed.

(* ---------- lex_bits ---------- *)

Lemma lex_bits_spec : forall s pos b endpos t s' pos',
  lex_bits s pos b endpos = (t, s', pos') ->
  adv s pos s' pos' /\
  (is_err t = false -> advx s pos s' pos' /\ (vsuf s -> valid_go s' 0 = true)).
Proof.
  induction s as [|c r IH]; intros pos b endpos t s' pos' H; cbn [lex_bits] in H.
  - injection H as <- <- <-. split; [apply adv_refl|discriminate].
  - assert (Step : forall b1, lex_bits r (S pos) b1 endpos = (t, s', pos') ->
              adv (String c r) pos s' pos' /\
              (is_err t = false -> advx (String c r) pos s' pos' /\ (vsuf (String c r) -> valid_go s' 0 = true))).
    { intros b1 H1. destruct (IH _ _ _ _ _ _ H1) as [B1 B2]. split.
      - eapply adv_cons; [exact B1|reflexivity].
      - intros Ht. destruct (B2 Ht) as [B3 B4]. split.
        + eapply advx_cons; [exact B3|reflexivity].
        + intros Hv. apply B4. eapply vsuf_tail; exact Hv. }
    destruct (hex_digit c); [eapply Step; exact H|].
    destruct (is_ws c); [eapply Step; exact H|].
    destruct (byte_of c =? 46)%N; [eapply Step; exact H|].
    destruct (byte_of c =? 120)%N; [eapply Step; exact H|].
    destruct (byte_of c =? 124)%N eqn:E.
    + injection H as <- <- <-. split.
      * eapply adv_cons; [apply adv_refl|reflexivity].
      * intros _. split; [eapply advx_cons; [apply advx_refl|reflexivity]|].
        intros Hv. apply (valid_ascii_tail c r Hv). lia.
    + cbv zeta in H. injection H as <- <- <-. split; [apply adv_drop|discriminate].
Qed.

(* ---------- scan_word ---------- *)

Lemma scan_word_spec : forall s n numeric tmp dot s' n' tmp' dot',
  scan_word s n numeric tmp dot = (s', n', tmp', dot') ->
  exists k, k <= String.length s /\ n' = n + k /\ s' = str_drop k s /\
            no_ws (str_take k s) = true /\ next_is_ws_or_end s' = true.
Proof.
  induction s as [|c r IH]; intros n numeric tmp dot s' n' tmp' dot' H; cbn [scan_word] in H.
  - injection H as <- <- <- <-. exists 0. cbn [String.length]. repeat split; lia.
  - destruct (is_ws c) eqn:Ec.
    + injection H as <- <- <- <-. exists 0. split; [lia|]. split; [lia|]. split; [reflexivity|].
      split; [reflexivity|]. exact Ec.
    + cbv zeta in H. destruct (IH _ _ _ _ _ _ _ _ H) as (k & K1 & K2 & K3 & K4 & K5).
      exists (S k). cbn [String.length str_drop str_take no_ws]. split; [lia|]. split; [lia|].
      split; [exact K3|]. split; [|exact K5]. rewrite Ec, K4. reflexivity.
Qed.

(* ---------- skip_line ---------- *)

Lemma skip_line_spec : forall s n s' n', skip_line s n = (s', n') ->
  exists k, k <= String.length s /\ n' = n + k /\ s' = str_drop k s /\ bnd s' = true.
Proof.
  induction s as [|c r IH]; intros n s' n' H; cbn [skip_line] in H.
  - injection H as <- <-. exists 0. cbn [String.length]. repeat split; lia.
  - destruct (byte_of c =? 10)%N eqn:Ec.
    + injection H as <- <-. exists 0. split; [lia|]. split; [lia|]. split; [reflexivity|].
      cbn [bnd]. unfold is_cont. lia.
    + destruct (IH _ _ _ H) as (k & K1 & K2 & K3 & K4).
      exists (S k). cbn [String.length str_drop]. split; [lia|]. split; [lia|]. split; assumption.
Qed.

(* ---------- skip_mlc ---------- *)

Lemma skip_mlc_spec : forall f s pos s' pos', skip_mlc f s pos = Some (s', pos') ->
  advx s pos s' pos' /\ (vsuf s -> valid_go s' 0 = true).
Proof.
  induction f as [|f IH]; intros s pos s' pos' H; [discriminate|].
  cbn [skip_mlc] in H. destruct s as [|c r]; [discriminate|].
  assert (Step1 : skip_mlc f r (S pos) = Some (s', pos') ->
            advx (String c r) pos s' pos' /\ (vsuf (String c r) -> valid_go s' 0 = true)).
  { intros H1. destruct (IH _ _ _ _ H1) as [B1 B2]. split.
    - eapply advx_cons; [exact B1|reflexivity].
    - intros Hv. apply B2. eapply vsuf_tail; exact Hv. }
  destruct (is_ws c); [|apply Step1; exact H].
  destruct r as [|c1 r1]; [apply Step1; exact H|].
  destruct (byte_of c1 =? 92)%N; [|apply Step1; exact H].
  assert (Step2 : skip_mlc f r1 (pos + 2) = Some (s', pos') ->
            advx (String c (String c1 r1)) pos s' pos' /\
            (vsuf (String c (String c1 r1)) -> valid_go s' 0 = true)).
  { intros H1. destruct (IH _ _ _ _ H1) as [B1 B2]. split.
    - eapply advx_cons2; [exact B1|reflexivity].
    - intros Hv. apply B2. eapply vsuf_tail, vsuf_tail; exact Hv. }
  destruct r1 as [|c2 r2]; [apply Step2; exact H|].
  destruct (byte_of c2 =? 41)%N eqn:E2; [|apply Step2; exact H].
  destruct r2 as [|c3 r3].
  - injection H as <- <-. split.
    + exists 3. cbn [String.length str_drop]. split; [lia|]. split; [lia|reflexivity].
    + intros _. reflexivity.
  - destruct (is_ws c3) eqn:E3.
    + injection H as <- <-. split.
      * exists 4. cbn [String.length str_drop]. split; [lia|]. split; [lia|reflexivity].
      * intros Hv. apply (valid_ascii_tail c3 r3); [|apply ws_ascii; exact E3].
        eapply vsuf_tail, vsuf_tail, vsuf_tail; exact Hv.
    + destruct (IH _ _ _ _ H) as [B1 B2]. split.
      * eapply advx_cons3; [exact B1|reflexivity].
      * intros Hv. apply B2. eapply vsuf_tail, vsuf_tail, vsuf_tail; exact Hv.
Qed.

(* the literal scanners never produce TEnd, TWs, TComment or TWord *)
Definition lit_or_err (t : tok) : bool :=
  match t with TLit _ | TErr _ _ _ => true | _ => false end.

Lemma lex_str_kind : forall curly f s pos tmp start endpos,
  lit_or_err (fst (fst (lex_str curly f s pos tmp start endpos))) = true.
Proof.
  intros curly. induction f as [|f IH]; intros s pos tmp start endpos; [reflexivity|].
  rewrite lex_str_S. destruct s as [|c r]; [reflexivity|].
  destruct (byte_of c =? 92)%N.
  - destruct (take_char r) as [[c2 r2]|]; [|reflexivity]. cbv zeta.
    match goal with |- context [esc_dispatch c2 ?k ?e] => destruct (esc_cases c2 k e) as [Hc|[X Hc]]; rewrite Hc end.
    + reflexivity.
    + apply IH.
  - destruct (byte_of c =? 34)%N.
    + cbv zeta. destruct (next_is_ws_or_end r); reflexivity.
    + destruct (curly && starts_rdq (String c r)).
      * cbv zeta. destruct (next_is_ws_or_end (str_drop 3 (String c r))); reflexivity.
      * apply IH.
Qed.

Lemma lex_bits_kind : forall s pos b endpos,
  lit_or_err (fst (fst (lex_bits s pos b endpos))) = true.
Proof.
  induction s as [|c r IH]; intros pos b endpos; cbn [lex_bits]; [reflexivity|].
  destruct (hex_digit c); [apply IH|].
  destruct (is_ws c); [apply IH|].
  destruct (byte_of c =? 46)%N; [apply IH|].
  destruct (byte_of c =? 120)%N; [apply IH|].
  destruct (byte_of c =? 124)%N; reflexivity.
Qed.
