(* CodecProofs.v: the number codecs of Codec.v meet their specification. *)
From Xeh Require Import Model.Prelude Model.Bits Model.Codec Proofs.BitsBasic Proofs.BitsProofs
  Proofs.CodecBasic.
From Coq Require Import ZifyBool ZifyNat ZifyN.

Local Open Scope Z_scope.

(* ---------- to_uint / to_int ---------- *)

Lemma to_uint_spec : forall o c, wf c -> (clen c <= 128)%nat -> to_uint o c = spec_uint o (abs c).
Proof.
  intros o c Hwf Hlen. unfold to_uint, spec_uint. rewrite (iter8_spec c Hwf).
  pose proof (abs_length c) as HL.
  destruct o.
  - rewrite le_fold.
    + lia.
    + change (2 ^ Z.of_nat 0) with 1. lia.
    + lia.
  - rewrite (be_fold _ 0 0).
    + lia.
    + lia.
    + change (2 ^ 0) with 1. lia.
    + lia.
Qed.

Lemma spec_uint_bound o l : 0 <= spec_uint o l < 2 ^ Z.of_nat (length l).
Proof.
  destruct o; cbn [spec_uint].
  - pose proof (le_groups_bound l 0) as H.
    change (2 ^ Z.of_nat 0) with 1 in H. rewrite Z.add_0_l in H. lia.
  - apply bitsZ_bound.
Qed.

Lemma testbit_top u n : 0 <= n -> 0 <= u < 2 ^ (n + 1) -> Z.testbit u n = negb (u <? 2 ^ n).
Proof.
  intros Hn Hu. rewrite Z.pow_add_r, Z.pow_1_r in Hu by lia.
  destruct (Z.ltb_spec u (2 ^ n)); cbn [negb].
  - rewrite <- (Z.mod_small u (2 ^ n)) by lia. apply Z.mod_pow2_bits_high. lia.
  - apply Z.testbit_true; [lia|].
    replace (u / 2 ^ n) with 1; [reflexivity|].
    apply Z.div_unique with (u - 2 ^ n); lia.
Qed.

Lemma to_int_spec : forall o c, wf c -> (clen c <= 128)%nat -> to_int o c = spec_int o (abs c).
Proof.
  intros o c Hwf Hlen. unfold to_int, spec_int. rewrite to_uint_spec by assumption.
  rewrite abs_length. pose proof (spec_uint_bound o (abs c)) as Hb. rewrite abs_length in Hb.
  set (u := spec_uint o (abs c)) in *. set (w := clen c) in *. clearbody u w.
  cbv zeta. unfold sext.
  destruct (w =? 0)%nat eqn:E0; [reflexivity|].
  apply Nat.eqb_neq in E0.
  destruct (w =? 128)%nat eqn:E128.
  - apply Nat.eqb_eq in E128. subst w. unfold of_u128, wrap128.
    change (Z.of_nat 128) with 128 in *. change (Z.of_nat (128 - 1)) with 127.
    fold two128 in Hb |- *. fold two127. rewrite Z.mod_small by lia. reflexivity.
  - apply Nat.eqb_neq in E128.
    replace (Z.of_nat w) with (Z.of_nat (w - 1) + 1) in Hb by lia.
    rewrite testbit_top by lia.
    destruct (Z.ltb_spec u (2 ^ Z.of_nat (w - 1))) as [Hlt|Hge]; cbn [negb]; [reflexivity|].
    replace (Z.of_nat (w - 1) + 1) with (Z.of_nat w) in Hb by lia.
    replace (2 ^ Z.of_nat w - 1) with (Z.ones (Z.of_nat w)) by (rewrite Z.ones_equiv; lia).
    rewrite Z.land_ones by lia.
    assert (H128 : two128 = 2 ^ (128 - Z.of_nat w) * 2 ^ Z.of_nat w).
    { unfold two128. rewrite <- Z.pow_add_r by lia. f_equal. lia. }
    replace (two128 - 1 - u)
      with (2 ^ Z.of_nat w - 1 - u + (2 ^ (128 - Z.of_nat w) - 1) * 2 ^ Z.of_nat w)
      by (rewrite H128; ring).
    rewrite Z_mod_plus_full. rewrite Z.mod_small by lia. lia.
Qed.

Lemma alignment_independent : forall o c d, wf c -> wf d -> (clen c <= 128)%nat -> abs c = abs d ->
  to_uint o c = to_uint o d /\ to_int o c = to_int o d.
Proof.
  intros o c d Hc Hd Hlen Habs.
  assert (Hlen' : (clen d <= 128)%nat).
  { rewrite <- (abs_length d), <- Habs, abs_length. exact Hlen. }
  rewrite !to_uint_spec, !to_int_spec by assumption. rewrite Habs. split; reflexivity.
Qed.

(* ---------- from_int: well-formedness ---------- *)

Lemma shl8_lt x k : (shl8 x k < 256)%N.
Proof.
  unfold shl8. change 255%N with (N.ones 8). rewrite N.land_ones.
  apply N.mod_lt. now compute.
Qed.

Lemma from_int_be_len v : forall f i, (i <= f)%nat -> (i <= 8 * length (from_int_be v f i))%nat.
Proof.
  induction f as [|f IH]; intros i Hi; [lia|].
  cbn [from_int_be]. destruct (Nat.eqb_spec i 0) as [->|Hne]; [lia|].
  cbn [length]. specialize (IH (i - Nat.min i 8)%nat ltac:(lia)). lia.
Qed.

Lemma from_int_be_bytes v : forall f i, Forall (fun x => (x < 256)%N) (from_int_be v f i).
Proof.
  induction f as [|f IH]; intros i; cbn [from_int_be]; [constructor|].
  destruct (i =? 0)%nat; constructor; [apply shl8_lt|apply IH].
Qed.

Lemma from_int_le_len v w : forall f i, (w - i <= f)%nat ->
  (w - i <= 8 * length (from_int_le v w f i))%nat.
Proof.
  induction f as [|f IH]; intros i Hi; [lia|].
  cbn [from_int_le]. destruct (Nat.leb_spec w i) as [Hle|Hlt]; [lia|].
  cbn [length]. specialize (IH (i + Nat.min (w - i) 8)%nat ltac:(lia)). lia.
Qed.

Lemma from_int_le_bytes v w : forall f i, Forall (fun x => (x < 256)%N) (from_int_le v w f i).
Proof.
  induction f as [|f IH]; intros i; cbn [from_int_le]; [constructor|].
  destruct (w <=? i)%nat; constructor; [apply shl8_lt|apply IH].
Qed.

Lemma from_int_wf : forall v w o, wf (from_int v w o) /\ clen (from_int v w o) = w.
Proof.
  intros v w o. split; [|unfold clen, from_int; cbn [cend cstart]; lia].
  unfold wf, from_int; cbn [cstart cend cdata]. split; [lia|]. destruct o.
  - split; [|apply from_int_le_bytes].
    pose proof (from_int_le_len v w w 0%nat ltac:(lia)). lia.
  - split; [|apply from_int_be_bytes].
    apply from_int_be_len. lia.
Qed.

(* ---------- from_int: the packed bits denote v mod 2^w ---------- *)

Lemma mod_mod_pow z n m : 0 <= n <= m -> (z mod 2 ^ m) mod 2 ^ n = z mod 2 ^ n.
Proof.
  intros H. replace m with (n + (m - n)) by lia. rewrite Z.pow_add_r by lia.
  assert (0 < 2 ^ n) by (apply Z.pow_pos_nonneg; lia).
  assert (0 < 2 ^ (m - n)) by (apply Z.pow_pos_nonneg; lia).
  rewrite Z.rem_mul_r by lia. rewrite (Z.mul_comm (2 ^ n)), Z_mod_plus_full.
  apply Z.mod_mod. lia.
Qed.

Lemma u8_of_lt z : (u8_of z < 256)%N.
Proof. unfold u8_of. pose proof (Z.mod_pos_bound z 256 ltac:(lia)). lia. Qed.

Lemma u8_of_Z z : Z.of_N (u8_of z) = z mod 256.
Proof. unfold u8_of. pose proof (Z.mod_pos_bound z 256 ltac:(lia)). lia. Qed.

Lemma u8_kernel z n : (n <= 8)%nat ->
  bitsZ (firstn n (byte_bits (shl8 (u8_of z) (8 - n)))) = z mod 2 ^ Z.of_nat n.
Proof.
  intros Hn. unfold bitsZ. rewrite shl_kernel by (auto using u8_of_lt).
  rewrite N2Z.inj_mod, N2Z.inj_pow, nat_N_Z, u8_of_Z.
  change (Z.of_N 2) with 2. change 256 with (2 ^ 8). apply mod_mod_pow. lia.
Qed.

Lemma be_abs v : forall f i, (i <= f)%nat -> (i <= 128)%nat ->
  bitsZ (abs (mkcbs 0 i (from_int_be v f i))) = v mod 2 ^ Z.of_nat i.
Proof.
  induction f as [|f IH]; intros i Hf Hi.
  - replace i with 0%nat by lia. cbn [from_int_be]. rewrite abs0_nil.
    rewrite bitsZ_nil. change (2 ^ Z.of_nat 0) with 1. now rewrite Z.mod_1_r.
  - cbn [from_int_be]. destruct (Nat.eqb_spec i 0) as [->|Hne].
    + rewrite abs0_nil, bitsZ_nil. change (2 ^ Z.of_nat 0) with 1. now rewrite Z.mod_1_r.
    + set (n := Nat.min i 8).
      assert (Hn : (1 <= n <= 8)%nat) by lia.
      rewrite Nat.mod_small by lia.
      rewrite abs0_cons. fold n. rewrite bitsZ_app.
      rewrite u8_kernel by lia. rewrite abs_length. unfold clen; cbn [cstart cend].
      replace (i - 8 - 0)%nat with (i - n)%nat by lia.
      replace (i - 8)%nat with (i - n)%nat by lia.
      rewrite IH by lia.
      rewrite Z.shiftr_div_pow2 by lia.
      replace (Z.of_nat i) with (Z.of_nat (i - n) + Z.of_nat n) by lia.
      rewrite Z.pow_add_r by lia.
      assert (0 < 2 ^ Z.of_nat (i - n)) by (apply Z.pow_pos_nonneg; lia).
      assert (0 < 2 ^ Z.of_nat n) by (apply Z.pow_pos_nonneg; lia).
      rewrite (Z.rem_mul_r v) by lia. ring.
Qed.

Lemma le_abs v w : (w <= 128)%nat -> forall f i sh, (w - i <= f)%nat ->
  le_groups (chunk8 (abs (mkcbs 0 (w - i) (from_int_le v w f i)))) sh
  = ((v / 2 ^ Z.of_nat i) mod 2 ^ Z.of_nat (w - i)) * 2 ^ Z.of_nat sh.
Proof.
  intros Hw. induction f as [|f IH]; intros i sh Hf.
  - replace (w - i)%nat with 0%nat by lia. cbn [from_int_le]. rewrite abs0_nil.
    cbn [chunk8 chunks8 length le_groups]. change (2 ^ Z.of_nat 0) with 1. now rewrite Z.mod_1_r.
  - cbn [from_int_le]. destruct (Nat.leb_spec w i) as [Hle|Hlt].
    + replace (w - i)%nat with 0%nat by lia. rewrite abs0_nil.
      cbn [chunk8 chunks8 length le_groups]. change (2 ^ Z.of_nat 0) with 1. now rewrite Z.mod_1_r.
    + set (n := Nat.min (w - i) 8).
      assert (Hn : (1 <= n <= 8)%nat) by lia.
      rewrite Nat.mod_small by lia.
      rewrite abs0_cons. fold n.
      replace (w - i - 8)%nat with (w - (i + n))%nat by lia.
      set (g := firstn n _). set (r := abs _).
      assert (Hg : length g = n).
      { unfold g. rewrite firstn_length, byte_bits_length. lia. }
      assert (Hr : length r = (w - (i + n))%nat).
      { unfold r. rewrite abs_length. unfold clen; cbn [cstart cend]. lia. }
      rewrite chunk8_cons.
      * cbn [le_groups]. unfold r. rewrite IH by lia.
        unfold g. rewrite u8_kernel by lia. fold g. rewrite Hg.
        rewrite Z.shiftr_div_pow2 by lia.
        replace (Z.of_nat (w - i)) with (Z.of_nat n + Z.of_nat (w - (i + n))) by lia.
        rewrite !Nat2Z.inj_add. rewrite !Z.pow_add_r by lia.
        assert (0 < 2 ^ Z.of_nat i) by (apply Z.pow_pos_nonneg; lia).
        assert (0 < 2 ^ Z.of_nat n) by (apply Z.pow_pos_nonneg; lia).
        assert (0 < 2 ^ Z.of_nat (w - (i + n))) by (apply Z.pow_pos_nonneg; lia).
        rewrite (Z.rem_mul_r (v / 2 ^ Z.of_nat i)) by lia.
        rewrite Z.div_div by lia. ring.
      * intros E. rewrite E in Hg. cbn in Hg. lia.
      * lia.
      * destruct (Nat.eq_dec n 8) as [E8|N8]; [left; lia|right].
        apply length_zero_iff_nil. lia.
Qed.

Lemma from_int_value o v w : (w <= 128)%nat ->
  spec_uint o (abs (from_int v w o)) = v mod 2 ^ Z.of_nat w.
Proof.
  intros Hw. unfold from_int. destruct o; cbn [spec_uint].
  - pose proof (le_abs v w Hw w 0%nat 0%nat ltac:(lia)) as H.
    rewrite Nat.sub_0_r in H. rewrite H.
    change (2 ^ Z.of_nat 0) with 1. rewrite Z.div_1_r. lia.
  - apply be_abs; lia.
Qed.

Lemma roundtrip_unsigned : forall o v w d, (1 <= w <= 128)%nat -> wf d ->
  abs d = abs (from_int v w o) -> to_uint o d = (v mod 2 ^ Z.of_nat w)%Z.
Proof.
  intros o v w d Hw Hwf Habs.
  assert (Hlen : clen d = w).
  { rewrite <- (abs_length d), Habs, abs_length. apply from_int_wf. }
  rewrite to_uint_spec by (auto; lia). rewrite Habs. apply from_int_value. lia.
Qed.

Lemma roundtrip_signed : forall o v w d, (1 <= w <= 128)%nat -> wf d ->
  abs d = abs (from_int v w o) -> to_int o d = sext w (v mod 2 ^ Z.of_nat w)%Z.
Proof.
  intros o v w d Hw Hwf Habs.
  assert (Hlen : clen d = w).
  { rewrite <- (abs_length d), Habs, abs_length. apply from_int_wf. }
  rewrite to_int_spec by (auto; lia). unfold spec_int.
  rewrite abs_length, Hlen. rewrite Habs. rewrite from_int_value by lia. reflexivity.
Qed.

(* ---------- byte layouts ---------- *)
Local Ltac Zify.zify_post_hook ::= Z.div_mod_to_equations.

Lemma pow2_pos n : 0 <= n -> 0 < 2 ^ n.
Proof. intros. apply Z.pow_pos_nonneg; lia. Qed.

Lemma Z_to_be_bytes_length : forall k z, length (Z_to_be_bytes k z) = k.
Proof.
  induction k as [|k IH]; intros z; [reflexivity|].
  cbn [Z_to_be_bytes]. rewrite app_length, IH. cbn [length]. lia.
Qed.

Lemma Z_to_be_bytes_lt : forall k z x, In x (Z_to_be_bytes k z) -> (x < 256)%N.
Proof.
  induction k as [|k IH]; intros z x Hin; [destruct Hin|].
  cbn [Z_to_be_bytes] in Hin. apply in_app_or in Hin. destruct Hin as [Hin|[<-|[]]].
  - eapply IH; eauto.
  - apply u8_of_lt.
Qed.

Lemma u8_of_mod z m : 8 <= m -> u8_of (z mod 2 ^ m) = u8_of z.
Proof.
  intros Hm. unfold u8_of. f_equal. change 256 with (2 ^ 8). apply mod_mod_pow. lia.
Qed.

Lemma mod_pow_div256 z m : 0 <= m -> (z mod 2 ^ (8 + m)) / 256 = (z / 256) mod 2 ^ m.
Proof.
  intros Hm. rewrite Z.pow_add_r by lia. change (2 ^ 8) with 256.
  pose proof (pow2_pos m Hm).
  rewrite Z.rem_mul_r by lia.
  rewrite (Z.mul_comm 256), Z.div_add by lia.
  rewrite Z.div_small by (apply Z.mod_pos_bound; lia). lia.
Qed.

Lemma Z_to_be_bytes_mod : forall k z,
  Z_to_be_bytes k (z mod 2 ^ Z.of_nat (8 * k)) = Z_to_be_bytes k z.
Proof.
  induction k as [|k IH]; intros z; [reflexivity|].
  cbn [Z_to_be_bytes].
  replace (Z.of_nat (8 * S k)) with (8 + Z.of_nat (8 * k)) by lia.
  rewrite mod_pow_div256 by lia. rewrite IH.
  rewrite u8_of_mod by lia. reflexivity.
Qed.

Lemma Z_to_be_bytes_cons : forall j z,
  Z_to_be_bytes (S j) z = u8_of (z / 2 ^ Z.of_nat (8 * j)) :: Z_to_be_bytes j z.
Proof.
  induction j as [|j IH]; intros z.
  - cbn [Z_to_be_bytes app]. change (2 ^ Z.of_nat (8 * 0)) with 1. now rewrite Z.div_1_r.
  - change (Z_to_be_bytes (S (S j)) z) with (Z_to_be_bytes (S j) (z / 256) ++ [u8_of z]).
    rewrite IH. cbn [app]. f_equal.
    f_equal. rewrite Z.div_div by (try apply pow2_pos; lia).
    f_equal. replace (Z.of_nat (8 * S j)) with (8 + Z.of_nat (8 * j)) by lia.
    now rewrite Z.pow_add_r by lia.
Qed.

Lemma shl8_0 x : (x < 256)%N -> shl8 x 0 = x.
Proof.
  intros Hx. unfold shl8. change (N.of_nat 0) with 0%N. rewrite N.shiftl_0_r.
  change 255%N with (N.ones 8). rewrite N.land_ones. apply N.mod_small. exact Hx.
Qed.

Lemma from_int_be_bytes_eq v : forall j f, (j <= 16)%nat -> (8 * j <= f)%nat ->
  from_int_be v f (8 * j) = Z_to_be_bytes j v.
Proof.
  induction j as [|j IH]; intros f Hj Hf.
  - change (8 * 0)%nat with 0%nat. destruct f; reflexivity.
  - destruct f as [|f]; [lia|]. cbn [from_int_be].
    destruct (Nat.eqb_spec (8 * S j) 0) as [E|_]; [lia|].
    replace (Nat.min (8 * S j) 8) with 8%nat by lia.
    replace (8 * S j - 8)%nat with (8 * j)%nat by lia.
    rewrite Nat.mod_small by lia. change (8 - 8)%nat with 0%nat.
    rewrite shl8_0 by apply u8_of_lt.
    rewrite IH by lia. rewrite Z_to_be_bytes_cons.
    rewrite Z.shiftr_div_pow2 by lia. reflexivity.
Qed.

Lemma from_int_le_bytes_eq v k : (k <= 16)%nat -> forall m j f,
  (j + m = k)%nat -> (8 * m <= f)%nat ->
  from_int_le v (8 * k) f (8 * j) = rev (Z_to_be_bytes m (v / 2 ^ Z.of_nat (8 * j))).
Proof.
  intros Hk. induction m as [|m IH]; intros j f Hjm Hf.
  - cbn [Z_to_be_bytes rev]. destruct f; cbn [from_int_le]; [reflexivity|].
    destruct (Nat.leb_spec (8 * k) (8 * j)); [reflexivity|lia].
  - destruct f as [|f]; [lia|]. cbn [from_int_le].
    destruct (Nat.leb_spec (8 * k) (8 * j)) as [E|_]; [lia|].
    replace (Nat.min (8 * k - 8 * j) 8) with 8%nat by lia.
    replace (8 * j + 8)%nat with (8 * S j)%nat by lia.
    rewrite Nat.mod_small by lia. change (8 - 8)%nat with 0%nat.
    rewrite shl8_0 by apply u8_of_lt.
    rewrite IH by lia. cbn [Z_to_be_bytes]. rewrite rev_app_distr. cbn [rev app].
    rewrite Z.shiftr_div_pow2 by lia. f_equal. f_equal. f_equal.
    rewrite Z.div_div by (try apply pow2_pos; lia). f_equal.
    replace (Z.of_nat (8 * S j)) with (Z.of_nat (8 * j) + 8) by lia.
    now rewrite Z.pow_add_r by lia.
Qed.

Lemma to_bytes_aligned k d : length d = k -> to_bytes (mkcbs 0 (8 * k) d) = Some d.
Proof.
  intros Hd. unfold to_bytes, slice, is_u8_slice, is_bytestr, bytes_of, clen, ubi.
  cbn [cstart cend cdata].
  change (0 mod 8)%nat with 0%nat. change (0 / 8)%nat with 0%nat.
  assert (E1 : ((8 * k - 0) mod 8 = 0)%nat) by lia.
  assert (E2 : ((8 * k) mod 8 = 0)%nat) by lia.
  assert (E3 : ((8 * k) / 8 = k)%nat) by lia.
  rewrite E1, E2, E3. cbn [Nat.eqb Nat.ltb Nat.leb andb skipn].
  rewrite Nat.add_0_r, Nat.sub_0_r. rewrite firstn_all2 by lia. reflexivity.
Qed.

Lemma layout_spec : forall o v k, (k <= 16)%nat ->
  to_bytes (from_int v (8 * k) o) =
  Some (match o with Big => be_layout k v | Little => le_layout k v end).
Proof.
  intros o v k Hk. unfold from_int, le_layout, be_layout. rewrite Z_to_be_bytes_mod.
  destruct o.
  - pose proof (from_int_le_bytes_eq v k Hk k 0%nat (8 * k)%nat ltac:(lia) ltac:(lia)) as H.
    change (8 * 0)%nat with 0%nat in H. change (2 ^ Z.of_nat 0) with 1 in H.
    rewrite Z.div_1_r in H. rewrite H.
    apply to_bytes_aligned. now rewrite rev_length, Z_to_be_bytes_length.
  - rewrite from_int_be_bytes_eq by lia.
    apply to_bytes_aligned. apply Z_to_be_bytes_length.
Qed.

(* ---------- float bit patterns ---------- *)

Lemma abs_from_bytes : forall d, abs (from_bytes d) = flat_map byte_bits d.
Proof.
  unfold from_bytes. induction d as [|x r IH]; [reflexivity|].
  rewrite abs0_cons. cbn [flat_map].
  replace (Nat.min (8 * length (x :: r)) 8) with 8%nat by (cbn [length]; lia).
  replace (8 * length (x :: r) - 8)%nat with (8 * length r)%nat by (cbn [length]; lia).
  rewrite IH. rewrite firstn_all2 by (rewrite byte_bits_length; lia). reflexivity.
Qed.

Lemma chunk8_flat_bytes : forall d, chunk8 (flat_map byte_bits d) = map byte_bits d.
Proof.
  induction d as [|x r IH]; [reflexivity|].
  cbn [flat_map map]. rewrite chunk8_app by apply byte_bits_length. now rewrite IH.
Qed.

Lemma iter8_bytes d bs : wf d -> abs d = abs (from_bytes bs) ->
  (forall x, In x bs -> (x < 256)%N) -> map fst (iter8 d) = bs.
Proof.
  intros Hwf Habs Hlt. rewrite iter8_spec by exact Hwf.
  rewrite Habs, abs_from_bytes, chunk8_flat_bytes. rewrite !map_map.
  rewrite <- (map_id bs) at 2. apply map_ext_in. intros x Hx.
  cbn [grp fst]. apply bits_to_N_byte_bits. auto.
Qed.

Lemma take_pad_all : forall k l, length l = k -> take_pad k l = l.
Proof.
  induction k as [|k IH]; intros l Hl; destruct l as [|x r]; try discriminate; [reflexivity|].
  cbn [take_pad]. f_equal. apply IH. cbn [length] in Hl. lia.
Qed.

Lemma be_bytes_to_Z_snoc l b : be_bytes_to_Z (l ++ [b]) = be_bytes_to_Z l * 256 + Z.of_N b.
Proof. unfold be_bytes_to_Z. rewrite fold_left_app. reflexivity. Qed.

Lemma be_bytes_roundtrip : forall k z,
  be_bytes_to_Z (Z_to_be_bytes k z) = z mod 2 ^ Z.of_nat (8 * k).
Proof.
  induction k as [|k IH]; intros z.
  - cbn [Z_to_be_bytes]. change (2 ^ Z.of_nat (8 * 0)) with 1. now rewrite Z.mod_1_r.
  - cbn [Z_to_be_bytes]. rewrite be_bytes_to_Z_snoc, IH, u8_of_Z.
    replace (Z.of_nat (8 * S k)) with (8 + Z.of_nat (8 * k)) by lia.
    rewrite Z.pow_add_r by lia. change (2 ^ 8) with 256.
    pose proof (pow2_pos (Z.of_nat (8 * k)) ltac:(lia)).
    rewrite (Z.rem_mul_r z) by lia. ring.
Qed.

Lemma float_roundtrip : forall k o pat d, (0 <= pat < 2 ^ Z.of_nat (8 * k))%Z -> wf d ->
  abs d = abs (from_fbits k o pat) -> to_fbits k o d = pat.
Proof.
  intros k o pat d Hpat Hwf Habs. unfold to_fbits, from_fbits in *.
  destruct o.
  - rewrite (iter8_bytes d (rev (Z_to_be_bytes k pat))); auto.
    + rewrite take_pad_all by (now rewrite rev_length, Z_to_be_bytes_length).
      rewrite rev_involutive, be_bytes_roundtrip. apply Z.mod_small. exact Hpat.
    + intros x Hx. apply in_rev in Hx. eapply Z_to_be_bytes_lt; eauto.
  - rewrite (iter8_bytes d (Z_to_be_bytes k pat)); auto.
    + rewrite take_pad_all by apply Z_to_be_bytes_length.
      rewrite be_bytes_roundtrip. apply Z.mod_small. exact Hpat.
    + intros x Hx. eapply Z_to_be_bytes_lt; eauto.
Qed.
