(* Lex::next in stages, and what one call does to the lexer state. *)
From Xeh Require Import Model.Prelude Model.Bits Model.Cell Model.Lexer Proofs.LexLoc Proofs.LexBasic.
From Coq Require Import ZifyBool ZifyNat ZifyN.
Local Open Scope string_scope.

(* ---------- the stages of the word / number branch ---------- *)

Definition num_stage1 (c : ascii) (r1 : string) (p1 : nat) : option ascii * string * string * nat :=
  if is_digit c then (Some c, String c "", r1, p1)
  else if (byte_of c =? 45)%N || (byte_of c =? 43)%N then
    match r1 with
    | String c2 r1' => if is_digit c2 then (Some c2, String c (String c2 ""), r1', S p1)
                       else (None, "", r1, p1)
    | "" => (None, "", r1, p1)
    end
  else (None, "", r1, p1).

Definition is0_of (np : option ascii) : bool :=
  match np with Some d => (byte_of d =? 48)%N | None => false end.

Definition numeric_of (np : option ascii) : bool :=
  match np with Some _ => true | None => false end.

Definition num_stage2 (is0 : bool) (tmp0 r2 : string) (p2 : nat) : option N * string * string * nat :=
  if is0 then
    match r2 with
    | String c3 r2' =>
      if (byte_of c3 =? 98)%N then (Some 2%N, str_pop tmp0, r2', S p2)
      else if (byte_of c3 =? 120)%N then (Some 16%N, str_pop tmp0, r2', S p2)
      else if (byte_of c3 =? 111)%N then (Some 8%N, str_pop tmp0, r2', S p2)
      else (None, tmp0, r2, p2)
    | "" => (None, tmp0, r2, p2)
    end
  else (None, tmp0, r2, p2).

Definition word_finish (l : lexst) (np : option ascii) (radix : option N) (tmp1 r3 : string) (p3 : nat)
  : tok * lexst :=
  let start := lpos l in
  let fin (t : tok) (rest : string) (pos : nat) := (t, mklex rest pos start (llen l)) in
  let is0 := is0_of np in
  let numeric := numeric_of np in
  let '(r4, n4, tmp, has_dot) := scan_word r3 0 numeric tmp1 false in
  let p4 := p3 + n4 in
  if negb numeric then
    let text := str_take (p4 - start) (lrest l) in
    if String.eqb text "\" then
      let '(r5, n5) := skip_line r4 0 in fin TComment r5 (p4 + n5)
    else if String.eqb text "\(" then
      match skip_mlc (S (String.length r4)) r4 p4 with
      | Some (r5, p5) => fin TComment r5 p5
      | None => fin (TErr PUntermComment start (llen l)) "" (llen l)
      end
    else fin (TWord text) r4 p4
  else if has_dot then
    match radix with
    | Some _ => fin (TErr PFloat start p4) r4 p4
    | None => fin (TReal tmp) r4 p4
    end
  else
    let rdx := match radix with Some x => x | None => if is0 then 16%N else 10%N end in
    match int_from_str_radix tmp rdx with
    | Some v => fin (TLit (CInt v)) r4 p4
    | None => fin (TErr PInt start p4) r4 p4
    end.

Definition lex_word (l : lexst) (c : ascii) : tok * lexst :=
  let start := lpos l in
  let w := utf8_width c in
  let r1 := str_drop w (lrest l) in
  let p1 := start + w in
  let '(np, tmp0, r2, p2) := num_stage1 c r1 p1 in
  let '(radix, tmp1, r3, p3) := num_stage2 (is0_of np) tmp0 r2 p2 in
  word_finish l np radix tmp1 r3 p3.

Lemma lex_next_unfold l :
  lex_next l =
  let start := lpos l in
  let fin (t : tok) (rest : string) (pos : nat) := (t, mklex rest pos start (llen l)) in
  let '(r0, nws) := skip_ws (lrest l) 0 in
  if (0 <? nws)%nat then fin TWs r0 (start + nws)
  else
    match lrest l with
    | "" => fin TEnd "" start
    | String c r =>
      if (byte_of c =? 34)%N then
        let '(t, rest, pos) := lex_str false (S (String.length r)) r (S start) "" start (llen l) in fin t rest pos
      else if starts_ldq (lrest l) then
        let r3 := str_drop 3 (lrest l) in
        let '(t, rest, pos) := lex_str true (S (String.length r3)) r3 (start + 3) "" start (llen l) in fin t rest pos
      else if (byte_of c =? 124)%N then
        let '(t, rest, pos) := lex_bits r (S start) bvb_empty (llen l) in fin t rest pos
      else lex_word l c
    end.
Proof. reflexivity. Qed.

Lemma num_stage1_spec c r1 p1 np tmp0 r2 p2 :
  num_stage1 c r1 p1 = (np, tmp0, r2, p2) ->
  advx r1 p1 r2 p2 /\ (np = None -> r2 = r1 /\ p2 = p1).
Proof.
  unfold num_stage1. intros H.
  destruct (is_digit c).
  { injection H as <- <- <- <-. split; [apply advx_refl|discriminate]. }
  destruct ((byte_of c =? 45)%N || (byte_of c =? 43)%N).
  2:{ injection H as <- <- <- <-. split; [apply advx_refl|auto]. }
  destruct r1 as [|c2 r1'].
  { injection H as <- <- <- <-. split; [apply advx_refl|auto]. }
  destruct (is_digit c2).
  - injection H as <- <- <- <-. split; [|discriminate].
    eapply advx_cons; [apply advx_refl|reflexivity].
  - injection H as <- <- <- <-. split; [apply advx_refl|auto].
Qed.

Lemma num_stage2_spec is0 tmp0 r2 p2 radix tmp1 r3 p3 :
  num_stage2 is0 tmp0 r2 p2 = (radix, tmp1, r3, p3) ->
  advx r2 p2 r3 p3 /\ (is0 = false -> r3 = r2 /\ p3 = p2).
Proof.
  unfold num_stage2. intros H. destruct is0.
  2:{ injection H as <- <- <- <-. split; [apply advx_refl|auto]. }
  destruct r2 as [|c3 r2'].
  { injection H as <- <- <- <-. split; [apply advx_refl|discriminate]. }
  destruct (byte_of c3 =? 98)%N.
  { injection H as <- <- <- <-. split; [|discriminate]. eapply advx_cons; [apply advx_refl|reflexivity]. }
  destruct (byte_of c3 =? 120)%N.
  { injection H as <- <- <- <-. split; [|discriminate]. eapply advx_cons; [apply advx_refl|reflexivity]. }
  destruct (byte_of c3 =? 111)%N.
  { injection H as <- <- <- <-. split; [|discriminate]. eapply advx_cons; [apply advx_refl|reflexivity]. }
  injection H as <- <- <- <-. split; [apply advx_refl|discriminate].
Qed.

(* what the tail of the word branch returns *)
Lemma word_finish_spec l np radix tmp1 r3 p3 t l' :
  word_finish l np radix tmp1 r3 p3 = (t, l') ->
  lstart l' = lpos l /\ llen l' = llen l /\ t <> TEnd /\
  ((is_err t = true /\ lrest l' = "" /\ lpos l' = llen l) \/
   (advx r3 p3 (lrest l') (lpos l') /\ (is_err t = false -> vsuf r3 -> valid_go (lrest l') 0 = true))) /\
  (forall w, t = TWord w ->
     np = None /\ exists n4, n4 <= String.length r3 /\ lpos l' = p3 + n4 /\
                 w = str_take (p3 + n4 - lpos l) (lrest l) /\ no_ws (str_take n4 r3) = true).
Proof.
  unfold word_finish. cbv zeta.
  destruct (scan_word r3 0 (numeric_of np) tmp1 false) as [[[r4 n4] tmp] has_dot] eqn:Esw.
  destruct (scan_word_spec _ _ _ _ _ _ _ _ _ Esw) as (k & K1 & K2 & K3 & K4 & K5).
  cbn [Nat.add] in K2. subst n4.
  assert (A4 : advx r3 p3 r4 (p3 + k)) by (subst r4; apply advx_drop; exact K1).
  assert (V4 : vsuf r3 -> valid_go r4 0 = true).
  { intros Hv. apply valid_of_bnd; [eapply vsuf_advx; eassumption|apply ws_or_end_bnd; exact K5]. }
  (* the common shape of most results *)
  assert (Plain : forall t0, (forall w, t0 = TWord w -> np = None /\ w = str_take (p3 + k - lpos l) (lrest l)) ->
            t0 <> TEnd ->
            (t0, mklex r4 (p3 + k) (lpos l) (llen l)) = (t, l') ->
            lstart l' = lpos l /\ llen l' = llen l /\ t <> TEnd /\
            ((is_err t = true /\ lrest l' = "" /\ lpos l' = llen l) \/
             (advx r3 p3 (lrest l') (lpos l') /\ (is_err t = false -> vsuf r3 -> valid_go (lrest l') 0 = true))) /\
            (forall w, t = TWord w ->
               np = None /\ exists n4, n4 <= String.length r3 /\ lpos l' = p3 + n4 /\
                           w = str_take (p3 + n4 - lpos l) (lrest l) /\ no_ws (str_take n4 r3) = true)).
  { intros t0 Hw Hne E. injection E as <- <-. cbn [lstart llen lrest lpos].
    split; [reflexivity|]. split; [reflexivity|]. split; [exact Hne|]. split.
    - right. split; [exact A4|]. intros _. exact V4.
    - intros w Ew. destruct (Hw w Ew) as [N1 N2]. split; [exact N1|].
      exists k. repeat split; assumption. }
  destruct (negb (numeric_of np)) eqn:Enum.
  - assert (Hnp : np = None) by (destruct np; [discriminate|reflexivity]).
    destruct (String.eqb (str_take (p3 + k - lpos l) (lrest l)) "\") eqn:E1.
    + destruct (skip_line r4 0) as [r5 n5] eqn:Esl.
      destruct (skip_line_spec _ _ _ _ Esl) as (j & J1 & J2 & J3 & J4). cbn [Nat.add] in J2. subst n5.
      intros E. injection E as <- <-. cbn [lstart llen lrest lpos].
      split; [reflexivity|]. split; [reflexivity|]. split; [discriminate|]. split; [|discriminate].
      right.
      assert (A5 : advx r3 p3 r5 (p3 + k + j)).
      { eapply advx_trans; [exact A4|]. subst r5. apply advx_drop. exact J1. }
      split; [exact A5|]. intros _ Hv. apply valid_of_bnd; [eapply vsuf_advx; eassumption|exact J4].
    + destruct (String.eqb (str_take (p3 + k - lpos l) (lrest l)) "\(") eqn:E2.
      * destruct (skip_mlc (S (String.length r4)) r4 (p3 + k)) as [[r5 p5]|] eqn:Emlc.
        -- destruct (skip_mlc_spec _ _ _ _ _ Emlc) as [M1 M2].
           intros E. injection E as <- <-. cbn [lstart llen lrest lpos].
           split; [reflexivity|]. split; [reflexivity|]. split; [discriminate|]. split; [|discriminate].
           right. split; [eapply advx_trans; eassumption|].
           intros _ Hv. apply M2. eapply vsuf_advx; eassumption.
        -- intros E. injection E as <- <-. cbn [lstart llen lrest lpos is_err].
           split; [reflexivity|]. split; [reflexivity|]. split; [discriminate|]. split; [|discriminate].
           left. auto.
      * apply Plain; [|discriminate]. intros w Ew. injection Ew as <-. auto.
  - destruct has_dot.
    + destruct radix; (apply Plain; [discriminate|discriminate]).
    + destruct (int_from_str_radix tmp _); (apply Plain; [discriminate|discriminate]).
Qed.

Definition step_ok (l : lexst) (t : tok) (l' : lexst) : Prop :=
  (is_err t = true /\ lrest l' = "" /\ lpos l' = llen l /\ lrest l <> "") \/
  (adv (lrest l) (lpos l) (lrest l') (lpos l') /\
   (is_final t = false -> lpos l < lpos l' /\ lrest l <> "") /\
   (t = TEnd -> lrest l = "") /\
   (valid_go (lrest l) 0 = true -> is_err t = false ->
      advx (lrest l) (lpos l) (lrest l') (lpos l') /\ valid_go (lrest l') 0 = true)).

Lemma lex_word_spec l c r t l' : lrest l = String c r -> lex_word l c = (t, l') ->
  lstart l' = lpos l /\ llen l' = llen l /\ step_ok l t l' /\
  (forall w, t = TWord w -> w = str_take (lpos l' - lpos l) (lrest l) /\
             (valid_go (lrest l) 0 = true -> is_ws c = false -> no_ws w = true)).
Proof.
  intros Hl. unfold lex_word. cbv zeta.
  destruct (num_stage1 c (str_drop (utf8_width c) (lrest l)) (lpos l + utf8_width c))
    as [[[np tmp0] r2] p2] eqn:E1.
  destruct (num_stage2 (is0_of np) tmp0 r2 p2) as [[[radix tmp1] r3] p3] eqn:E2.
  destruct (num_stage1_spec _ _ _ _ _ _ _ E1) as [A1 N1].
  destruct (num_stage2_spec _ _ _ _ _ _ _ _ E2) as [A2 N2].
  intros H. destruct (word_finish_spec _ _ _ _ _ _ _ _ H) as (F1 & F2 & F3 & F4 & F5).
  pose proof (utf8_width_pos c) as Hw.
  set (w := utf8_width c) in *. set (r1 := str_drop w (lrest l)) in *.
  assert (A12 : advx r1 (lpos l + w) r3 p3) by (eapply advx_trans; eassumption).
  split; [exact F1|]. split; [exact F2|]. split.
  - destruct F4 as [(G1 & G2 & G3)|(G1 & G2)].
    + left. repeat split; try assumption. rewrite Hl. discriminate.
    + right. assert (A : advx r1 (lpos l + w) (lrest l') (lpos l')) by (eapply advx_trans; eassumption).
      split; [|split; [|split]].
      * eapply adv_trans; [apply (adv_drop (lrest l) (lpos l) w)|]. apply advx_adv. exact A.
      * intros _. split; [|rewrite Hl; discriminate].
        destruct A as (k & _ & K & _). lia.
      * intros Et. contradiction.
      * intros Hv Et. rewrite Hl in Hv. destruct (valid_first_char c r Hv) as (V1 & V2 & _).
        rewrite <- Hl in V1, V2. fold w in V1, V2. fold r1 in V2. split.
        -- eapply advx_trans; [apply (advx_drop (lrest l) (lpos l) w V1)|exact A].
        -- apply G2; [exact Et|]. eapply vsuf_advx; [exact A12|]. apply vsuf_of_valid. exact V2.
  - intros x Ex. destruct (F5 x Ex) as (Hnp & n4 & M1 & M2 & M3 & M4).
    destruct (N1 Hnp) as [-> ->]. subst np. destruct (N2 eq_refl) as [-> ->].
    split.
    + rewrite M2. exact M3.
    + intros Hv Hc. rewrite M3. replace (lpos l + w + n4 - lpos l) with (w + n4) by lia.
      rewrite str_take_add, no_ws_app. fold r1. rewrite M4, andb_true_r.
      rewrite Hl in Hv |- *. destruct (valid_first_char c r Hv) as (_ & _ & V3). apply V3. exact Hc.
Qed.

Lemma starts_ldq_len s : starts_ldq s = true -> 3 <= String.length s.
Proof.
  destruct s as [|a [|b [|c r]]]; cbn [starts_ldq String.length]; try discriminate. lia.
Qed.

Lemma starts_ldq_valid s : starts_ldq s = true -> vsuf s -> valid_go (str_drop 3 s) 0 = true.
Proof.
  destruct s as [|a [|b [|c r]]]; cbn [starts_ldq]; try discriminate.
  intros H [need Hv]. cbn [str_drop].
  assert (Ha : byte_of a = 226%N) by lia.
  cbn [valid_go] in Hv. unfold is_cont, utf8_width in Hv. rewrite Ha in Hv.
  destruct need as [|k]; [|discriminate Hv].
  cbn in Hv. apply andb_prop in Hv. destruct Hv as [_ Hv]. apply andb_prop in Hv. destruct Hv as [_ Hv].
  exact Hv.
Qed.

Lemma lit_or_err_props t : lit_or_err t = true ->
  t <> TEnd /\ (forall w, t <> TWord w).
Proof. destruct t; try discriminate; intros _; split; try discriminate; intros; discriminate. Qed.

(* one call of Lex::next *)
Lemma lex_next_spec l t l' : lex_next l = (t, l') ->
  lstart l' = lpos l /\ llen l' = llen l /\ step_ok l t l' /\
  (forall w, t = TWord w -> w = str_take (lpos l' - lpos l) (lrest l) /\
             (valid_go (lrest l) 0 = true -> no_ws w = true)).
Proof.
  rewrite lex_next_unfold. cbv zeta.
  destruct (skip_ws (lrest l) 0) as [r0 nws] eqn:Ews.
  destruct (skip_ws_spec _ _ _ _ Ews) as (k & K1 & K2 & K3 & K4 & K5). cbn [Nat.add] in K2. subst nws.
  destruct (0 <? k)%nat eqn:Ek.
  { (* whitespace *)
    intros E. injection E as <- <-. unfold step_ok. cbn [lstart llen lrest lpos].
    split; [reflexivity|]. split; [reflexivity|]. split; [|discriminate].
    right. assert (A : advx (lrest l) (lpos l) r0 (lpos l + k)) by (subst r0; apply advx_drop; exact K1).
    split; [apply advx_adv; exact A|]. split; [|split].
    - intros _. split; [lia|]. intros C. rewrite C in K1. cbn [String.length] in K1. lia.
    - discriminate.
    - intros Hv _. split; [exact A|]. apply K4. exact Hv. }
  assert (k = 0) by lia. subst k. specialize (K5 eq_refl).
  destruct (lrest l) as [|c r] eqn:Hl.
  { (* end *)
    intros E. injection E as <- <-. unfold step_ok. cbn [lstart llen lrest lpos].
    split; [reflexivity|]. split; [reflexivity|]. split; [|discriminate].
    right. rewrite Hl. split; [apply adv_refl|]. split; [discriminate|]. split; [reflexivity|].
    intros _ _. split; [apply advx_refl|reflexivity]. }
  (* the shape shared by the three literal scanners *)
  assert (Lit : forall t0 rest pos,
            lit_or_err t0 = true -> lpos l < pos ->
            adv (String c r) (lpos l) rest pos ->
            (is_err t0 = false -> advx (String c r) (lpos l) rest pos /\ (vsuf (String c r) -> valid_go rest 0 = true)) ->
            (t0, mklex rest pos (lpos l) (llen l)) = (t, l') ->
            lstart l' = lpos l /\ llen l' = llen l /\ step_ok l t l' /\
            (forall w, t = TWord w -> w = str_take (lpos l' - lpos l) (String c r) /\
                       (valid_go (String c r) 0 = true -> no_ws w = true))).
  { intros t0 rest pos Hk Hp Ha Hx E. injection E as <- <-. unfold step_ok. cbn [lstart llen lrest lpos].
    destruct (lit_or_err_props _ Hk) as [T1 T2].
    split; [reflexivity|]. split; [reflexivity|]. split.
    - right. rewrite Hl. split; [exact Ha|]. split; [|split].
      + intros _. split; [exact Hp|discriminate].
      + intros C. contradiction.
      + intros Hv Et. destruct (Hx Et) as [X1 X2]. split; [exact X1|]. apply X2, vsuf_of_valid, Hv.
    - intros w Ew. exfalso. exact (T2 w Ew). }
  destruct (byte_of c =? 34)%N eqn:Eq.
  { (* straight quote *)
    destruct (lex_str false (S (String.length r)) r (S (lpos l)) "" (lpos l) (llen l)) as [[t0 rest] pos] eqn:Es.
    pose proof (lex_str_kind false (S (String.length r)) r (S (lpos l)) "" (lpos l) (llen l)) as Hk.
    rewrite Es in Hk. cbn [fst] in Hk.
    destruct (lex_str_spec _ _ _ _ _ _ _ _ _ _ Es) as [S1 S2].
    assert (A : advx (String c r) (lpos l) rest pos) by (eapply advx_cons; [exact S1|reflexivity]).
    apply Lit; [exact Hk| |apply advx_adv; exact A|].
    - destruct S1 as (j & _ & J & _). lia.
    - intros Et. split; [exact A|]. intros Hv. apply S2; [exact Et|]. eapply vsuf_tail; exact Hv. }
  destruct (starts_ldq (String c r)) eqn:El.
  { (* curly quote *)
    set (r3 := str_drop 3 (String c r)) in *.
    destruct (lex_str true (S (String.length r3)) r3 (lpos l + 3) "" (lpos l) (llen l)) as [[t0 rest] pos] eqn:Es.
    pose proof (lex_str_kind true (S (String.length r3)) r3 (lpos l + 3) "" (lpos l) (llen l)) as Hk.
    rewrite Es in Hk. cbn [fst] in Hk.
    destruct (lex_str_spec _ _ _ _ _ _ _ _ _ _ Es) as [S1 S2].
    assert (A : advx (String c r) (lpos l) rest pos).
    { eapply advx_trans; [|exact S1]. apply advx_drop. apply starts_ldq_len. exact El. }
    apply Lit; [exact Hk| |apply advx_adv; exact A|].
    - destruct S1 as (j & _ & J & _). lia.
    - intros Et. split; [exact A|]. intros Hv. apply S2; [exact Et|]. apply vsuf_drop. exact Hv. }
  destruct (byte_of c =? 124)%N eqn:Eb.
  { (* bit-string *)
    destruct (lex_bits r (S (lpos l)) bvb_empty (llen l)) as [[t0 rest] pos] eqn:Es.
    pose proof (lex_bits_kind r (S (lpos l)) bvb_empty (llen l)) as Hk.
    rewrite Es in Hk. cbn [fst] in Hk.
    destruct (lex_bits_spec _ _ _ _ _ _ _ Es) as [S1 S2].
    apply Lit; [exact Hk| |eapply adv_cons; [exact S1|reflexivity]|].
    - destruct S1 as [J _]. lia.
    - intros Et. destruct (S2 Et) as [S3 S4]. split; [eapply advx_cons; [exact S3|reflexivity]|].
      intros Hv. apply S4. eapply vsuf_tail; exact Hv. }
  (* word / number *)
  intros H. rewrite <- Hl. destruct (lex_word_spec l c r t l' Hl H) as (W1 & W2 & W3 & W4).
  split; [exact W1|]. split; [exact W2|]. split; [exact W3|].
  intros w Ew. destruct (W4 w Ew) as [X1 X2]. split; [exact X1|].
  intros Hv. apply X2; [exact Hv|]. exact K5.
Qed.
