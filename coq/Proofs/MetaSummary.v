(* MetaSummary.v (C11): the statements of Props/C11.v that combine several lemmas. *)
From Xeh Require Import Model.Prelude Model.Bits Model.Codec Model.Cell Model.Lexer Model.Fmt
                        Model.Vm Model.Words Model.Build.
From Xeh Require Import Proofs.VmFrame Proofs.VmLimits Proofs.NoPanic Proofs.NoPanicBuild Proofs.NoPanicFlow
                        Proofs.MetaBase Proofs.MetaPurge Proofs.MetaBuild Proofs.MetaClose Proofs.MetaPrefix
                        Proofs.MetaPrefixBuild Proofs.MetaPrefixWords Proofs.MetaBlock Proofs.MetaSeg
                        Proofs.MetaInline Proofs.MetaCompile Proofs.MetaCompile2.
From Coq Require Import Permutation.
Local Notation length := List.length.
Local Open Scope string_scope.
Local Open Scope list_scope.

(* ---------- sealed variables ---------- *)
Lemma variables_sealed s : is_meta s ->
  (forall a, get_var a s = RErr EConst None s) /\
  (forall a v, set_var a v s = RErr EConst None s) /\
  (forall v, alloc_heap v s = RErr EConst None s).
Proof.
  intros H. split; [intros; apply get_var_meta; exact H|].
  split; [intros; apply set_var_meta; exact H|intros; apply alloc_heap_meta; exact H].
Qed.

Lemma native_word_sealed fo w f : native_fn fo w = Some f -> forall s, mpre s -> res_all (sealed s) (f s).
Proof. intros H. exact (wl_sealed _ f (native_wl fo w f H)). Qed.

Lemma opcode_sealed fo ip0 op : forall s, mpre s -> res_all (sealed s) (exec_op (native_fn fo) ip0 op s).
Proof. exact (wl_sealed _ _ (wl_exec_op _ (native_wl fo) ip0 op)). Qed.

(* ---------- purge ---------- *)
Lemma purge_dict_summary d di : di <= length d ->
  purge_dict (S (length d)) d di = firstn di d ++ purge_all (skipn di d) /\
  Forall (fun e => is_dconst e = true) (purge_all (skipn di d)) /\
  Permutation (purge_all (skipn di d)) (filter is_dconst (skipn di d)).
Proof.
  intros H. split; [apply purge_dict_full; exact H|]. split; [apply purge_all_const|apply purge_all_perm].
Qed.

(* the definition order survives when no constant follows a non-constant *)
Lemma purge_all_tail a b :
  Forall (fun e => is_dconst e = true) a -> Forall (fun e => is_dconst e = false) b -> purge_all (a ++ b) = a.
Proof. intros Ha Hb. unfold purge_all. apply purge_list_tail; [lia|exact Ha|exact Hb]. Qed.

(* ---------- the closed state, field by field ---------- *)
Lemma close_state_fields s1 prev :
  let c := cx s1 in
  let res := if emit_flag s1 prev then results s1 else [] in
  let t := close_state s1 prev in
  cx t = prev /\ nested t = nested s1 /\ heap t = heap s1 /\
  code t = firstn (cs_len c) (code s1) ++ map load_value_opcode res /\
  dbg t = firstn (cs_len c) (dbg s1) ++ repeat (loc_of s1) (length res) /\
  dict t = firstn (di_len c) (dict s1) ++ purge_all (skipn (di_len c) (dict s1)) /\
  ds t = (if emit_flag s1 prev then lastn (ds_len c) (ds s1) else ds s1) /\
  rlog t = log_pops res (rlog s1) /\
  rs t = rs s1 /\ flows t = flows s1 /\ loops t = loops s1 /\ special t = special s1 /\
  sources t = sources s1 /\ input t = input s1 /\ meter t = meter s1 /\
  insn_limit t = insn_limit s1 /\ heap_limit t = heap_limit s1 /\ stack_limit t = stack_limit s1 /\
  out t = out s1 /\ last_tok t = last_tok s1 /\ stopping t = stopping s1.
Proof.
  cbv zeta. split; [apply close_cx|]. split; [apply close_nested|]. split; [apply close_heap|].
  split; [apply close_code|]. split; [apply close_dbg|]. split; [apply close_dict|].
  split; [apply close_ds|]. split; [apply close_rlog|]. apply close_rest.
Qed.

(* closing from the invariants of the state at #) *)
Section Close.
  Variable fo : fops.
  Variable rf : nat.

  Lemma close_from_pre cs di s prev rest :
    Pre2 cs di s -> nested s = prev :: rest ->
    match run_m fo rf (set_nested s rest) with
    | ROk _ s1 => context_close fo rf s = ROk tt (close_state s1 prev) /\
                  R2 cs di (set_nested s rest) s1
    | RErr k p s1 => context_close fo rf s = RErr k p (set_nested s1 (prev :: rest))
    | RPanic => context_close fo rf s = RPanic
    | RUnsup => context_close fo rf s = RUnsup
    end.
  Proof.
    intros P En. assert (Hm : is_meta s) by apply P.
    pose proof (fpp_run_m fo cs di rf (set_nested s rest) (Pre2_set_nested _ _ _ _ P)) as H1.
    destruct (run_m fo rf (set_nested s rest)) as [[] s1|k p s1| |] eqn:Er.
    - cbn [res_all F2 fr_rel] in H1. split; [|exact H1].
      apply (context_close_meta fo rf s prev rest s1 En Hm Er).
      pose proof (R2_keep _ _ _ _ (Pre2_set_nested _ _ _ rest P) H1) as ([_ W1] & E1 & E2 & L1 & L2 & Hcd1 & _).
      unfold closable. rewrite E1, E2. repeat split; try assumption. apply W1.
    - rewrite (context_close_meta_err fo rf s prev rest k p s1 En Hm Er).
      pose proof (run_m_fr fo rf (set_nested s rest)) as Fr. rewrite Er in Fr. cbn [res_all] in Fr.
      destruct Fr as (_ & N1 & _). cbn [set_nested nested] in N1. rewrite N1. reflexivity.
    - unfold context_close. rewrite En. cbv zeta. change (cx (set_nested s rest)) with (cx s).
      unfold is_meta in Hm. rewrite Hm, Er. reflexivity.
    - unfold context_close. rewrite En. cbv zeta. change (cx (set_nested s rest)) with (cx s).
      unfold is_meta in Hm. rewrite Hm, Er. reflexivity.
  Qed.
End Close.

(* ---------- the whole block ---------- *)
Section Full.
  Variable fo : fops.
  Variable pr : string -> option Z.
  Variable rf : nat.

  Theorem block_full t u t' :
    wfm t -> cd_inv t ->
    bpath fo pr rf (S (depth t)) (opened t) u -> anystep fo pr rf u t' -> depth t' <= depth t ->
    exists w1 tc,
      (t' = tc \/ exists txt, t' = interned txt tc) /\ tc = close_state w1 (cx t) /\
      let n := ds_len (open_ctx t) in
      let res := if emit_flag w1 (cx t) then results w1 else [] in
      cx tc = cx t /\ nested tc = nested t /\ heap tc = heap t /\ flows tc = flows t /\
      (exists c', rpatch (code t) c' /\ code tc = c' ++ map load_value_opcode res) /\
      (exists d', cpatch (dict t) d' /\ dict tc = d' ++ purge_all (skipn (length (dict t)) (dict w1))) /\
      dbg tc = firstn (length (code t)) (dbg t) ++ repeat (loc_of w1) (length res) /\
      keeps n (ds t) (ds w1) /\
      ds tc = (if emit_flag w1 (cx t) then lastn n (ds t) else ds w1) /\
      keeps (length (rs t)) (rs t) (rs tc) /\ keeps (length (loops t)) (loops t) (loops tc) /\
      keeps (length (special t)) (special t) (special tc) /\
      emit_flag w1 (cx t) = negb (mode_eqb (cmode (cx t)) MMeta) || building_fun t (cx t).
  Proof.
    intros W Hcd Hb St Hd.
    destruct (block_theorem fo pr rf t u t' W Hcd Hb St Hd) as (_ & w1 & Hw & Fl & D).
    exists w1, (close_state w1 (cx t)). split; [exact D|]. split; [reflexivity|].
    exact (block_spec t w1 W Hcd Hw Fl).
  Qed.

  (* no late-bound call in the code before the block: the code is exactly code ++ literals *)
  Lemma load_not_resolve c name : load_value_opcode c <> OResolve name.
  Proof. destruct c; cbn [load_value_opcode]; try discriminate. destruct (in_i64 z); discriminate. Qed.

  Lemma no_resolve_app c vs : no_resolve c -> no_resolve (c ++ map load_value_opcode vs).
  Proof.
    intros H i name E. destruct (Nat.lt_ge_cases i (length c)) as [Hi|Hi].
    - rewrite nth_error_app1 in E by exact Hi. exact (H i name E).
    - rewrite nth_error_app2 in E by exact Hi. apply nth_error_In in E. apply in_map_iff in E.
      destruct E as (v & Ev & _). exact (load_not_resolve v name Ev).
  Qed.

  Theorem block_inline_exact t u t' :
    wfm t -> cd_inv t -> cmode (cx t) <> MMeta -> no_resolve (code t) ->
    bpath fo pr rf (S (depth t)) (opened t) u -> anystep fo pr rf u t' -> depth t' <= depth t ->
    exists vs ts tc,
      emit_values vs t = ROk tt ts /\ (t' = tc \/ exists txt, t' = interned txt tc) /\
      code tc = code ts /\ heap tc = heap ts /\ ds tc = ds ts /\ cx tc = cx ts /\
      nested tc = nested ts /\ flows tc = flows ts.
  Proof.
    intros W Hcd Hnm Hnr Hb St Hd.
    destruct (block_inline fo pr rf t u t' W Hcd Hnm Hb St Hd)
      as (vs & ts & tc & Ev & D & Rc & A1 & A2 & A3 & A4 & A5 & _).
    exists vs, ts, tc. split; [exact Ev|]. split; [exact D|].
    split; [|repeat split; assumption].
    apply rpatch_no_resolve; [|exact Rc].
    destruct (emit_values_spec vs t Hcd) as (ts' & Ev' & Ct & _). rewrite Ev in Ev'. injection Ev' as <-.
    rewrite Ct. apply no_resolve_app. exact Hnr.
  Qed.
End Full.
