(* VmReplayWords.v: every native word, every opcode and one whole instruction step respect
   [eq_rev] (C02, replay half). *)
From Xeh Require Import Model.Prelude Model.Bits Model.Codec Model.Cell Model.Lexer Model.Fmt Model.Vm Model.Words.
From Xeh Require Import Proofs.VmFrame Proofs.VmRevBase Proofs.VmRevWords Proofs.VmRev Proofs.VmReplayBase.
Local Notation length := List.length.

#[local] Arguments Z.add : simpl never.
#[local] Arguments Z.sub : simpl never.
#[local] Arguments Z.mul : simpl never.
#[local] Arguments Z.ltb : simpl never.
#[local] Arguments Z.leb : simpl never.
#[local] Arguments Z.eqb : simpl never.
#[local] Arguments Z.of_nat : simpl never.
#[local] Arguments Z.to_nat : simpl never.

(* ---------- the words ---------- *)
Lemma rel_word_table : forall fo, Forall (fun nw => rel_ok (snd nw)) (word_table fo).
Proof.
  intro fo. unfold word_table.
  repeat (apply Forall_cons; [ cbn [snd]; rl_solve | ]).
  apply Forall_nil.
Qed.

Lemma rel_sized_word : forall fo name w, sized_word fo name = Some w -> rel_ok w.
Proof.
  intros fo name w H. unfold sized_word in H. cbv beta zeta in H.
  repeat match type of H with
         | context [if ?b then _ else _] =>
           destruct b; cbv beta iota in H;
           [ injection H as <-; rl_solve | ]
         end.
  discriminate.
Qed.

Theorem native_rel : forall fo w f, native_fn fo w = Some f -> rel_ok f.
Proof.
  intros fo w f H. unfold native_fn in H.
  destruct (table_find (word_table fo) w) eqn:E.
  - injection H as <-.
    eapply VmFrame.table_find_Forall with (P := fun m => rel_ok m); [ apply rel_word_table | exact E ].
  - eapply rel_sized_word; eauto.
Qed.

(* ---------- the opcodes ---------- *)
Lemma rel_exec_op : forall (nf : natives),
  (forall w f, nf w = Some f -> rel_ok f) ->
  forall ip0 op, rel_ok (exec_op nf ip0 op).
Proof.
  intros nf Hnf ip0 op. destruct op; cbn [exec_op];
    try (rl_solve; fail).
  destruct (nf w) eqn:E; rl_solve. eapply Hnf; eauto.
Qed.

(* ---------- one instruction step ---------- *)
(* The instruction meter is the one thing a step reads that [eq_rev] ignores: the step fails
   with ELimit when the meter has reached the instruction limit.  [meter_ok j s]: at least [j]
   more increments are allowed. *)
Definition meter_ok (j : Z) (s : state) : Prop :=
  match insn_limit s with Some l => (meter s + j <= l)%Z | None => True end.

Lemma meter_ok_nolimit j s : insn_limit s = None -> meter_ok j s.
Proof. unfold meter_ok. intros ->. exact I. Qed.

Lemma meter_ok_mlim j d s : meter_ok j s -> (d < j)%Z -> mlim s (meter s + d)%Z = false.
Proof.
  unfold meter_ok, mlim. destruct (insn_limit s); auto. intros. apply Z.leb_gt. lia.
Qed.

Lemma eq_rev_set_meter a b x y : eq_rev a b -> eq_rev (set_meter a x) (set_meter b y).
Proof. intro H. exact H. Qed.

Lemma eq_rev_set_code a b c : eq_rev a b -> eq_rev (set_code a c) (set_code b c).
Proof.
  unfold eq_rev. intro H.
  change (erase_mo (set_code a c)) with (set_code (erase_mo a) c).
  change (erase_mo (set_code b c)) with (set_code (erase_mo b) c). rewrite H. reflexivity.
Qed.

Section Step.
  Variable nf : natives.
  Hypothesis Hnf : forall w f, nf w = Some f -> rel_ok f.

  (* any opcode, room for the two increments of a patched Resolve *)
  Lemma far_rel : forall a b,
    eq_rev a b -> meter_ok 2 a -> meter_ok 2 b ->
    res_rel (fetch_and_run nf a) (fetch_and_run nf b).
  Proof.
    intros a b E Ma Mb.
    pose proof (f_equal ip E : ip a = ip b) as Eip.
    pose proof (f_equal code E : code a = code b) as Ecode.
    pose proof (f_equal dict E : dict a = dict b) as Edict.
    unfold fetch_and_run. rewrite !meter_increase_eq.
    pose proof (meter_ok_mlim 2 0 a Ma ltac:(lia)) as La. rewrite Z.add_0_r in La.
    pose proof (meter_ok_mlim 2 0 b Mb ltac:(lia)) as Lb. rewrite Z.add_0_r in Lb.
    rewrite La, Lb.
    change (code (set_meter a (meter a + 1)%Z)) with (code a).
    change (code (set_meter b (meter b + 1)%Z)) with (code b).
    rewrite <- Eip, <- Ecode.
    destruct (nth_error (code a) (ip a)) as [op|]; [ | reflexivity ].
    assert (G : forall op', res_rel (exec_op nf (ip a) op' (set_meter a (meter a + 1)%Z))
                                    (exec_op nf (ip a) op' (set_meter b (meter b + 1)%Z))).
    { intro op'. apply rel_exec_op; auto. }
    destruct op; try apply G.
    change (dict_entry (set_meter a (meter a + 1)%Z) name) with (dict_rfind (dict a) name None).
    change (dict_entry (set_meter b (meter b + 1)%Z) name) with (dict_rfind (dict b) name None).
    rewrite <- Edict.
    destruct (dict_rfind (dict a) name None) as [e|].
    - rewrite !meter_increase_eq.
      change (mlim (set_code (set_meter a (meter a + 1)%Z) (list_set (code a) (ip a) (resolve_op e)))
                   (meter (set_code (set_meter a (meter a + 1)%Z) (list_set (code a) (ip a) (resolve_op e)))))
        with (mlim a (meter a + 1)%Z).
      change (mlim (set_code (set_meter b (meter b + 1)%Z) (list_set (code a) (ip a) (resolve_op e)))
                   (meter (set_code (set_meter b (meter b + 1)%Z) (list_set (code a) (ip a) (resolve_op e)))))
        with (mlim b (meter b + 1)%Z).
      rewrite (meter_ok_mlim 2 1 a Ma ltac:(lia)), (meter_ok_mlim 2 1 b Mb ltac:(lia)).
      apply rel_exec_op; auto.
      apply eq_rev_set_meter. apply eq_rev_set_code. exact E.
    - unfold res_rel. cbn [res_map]. f_equal. exact E.
  Qed.

  (* an instruction other than Resolve is metered once *)
  Lemma far_rel_nr : forall a b,
    eq_rev a b -> not_resolve a -> meter_ok 1 a -> meter_ok 1 b ->
    res_rel (fetch_and_run nf a) (fetch_and_run nf b).
  Proof.
    intros a b E Hn Ma Mb.
    pose proof (f_equal ip E : ip a = ip b) as Eip.
    pose proof (f_equal code E : code a = code b) as Ecode.
    unfold fetch_and_run. rewrite !meter_increase_eq.
    pose proof (meter_ok_mlim 1 0 a Ma ltac:(lia)) as La. rewrite Z.add_0_r in La.
    pose proof (meter_ok_mlim 1 0 b Mb ltac:(lia)) as Lb. rewrite Z.add_0_r in Lb.
    rewrite La, Lb.
    change (code (set_meter a (meter a + 1)%Z)) with (code a).
    change (code (set_meter b (meter b + 1)%Z)) with (code b).
    rewrite <- Eip, <- Ecode.
    destruct (nth_error (code a) (ip a)) as [op|] eqn:Eop; [ | reflexivity ].
    assert (G : forall op', res_rel (exec_op nf (ip a) op' (set_meter a (meter a + 1)%Z))
                                    (exec_op nf (ip a) op' (set_meter b (meter b + 1)%Z))).
    { intro op'. apply rel_exec_op; auto. }
    destruct op; try apply G.
    exfalso. eapply Hn; eauto.
  Qed.
End Step.

(* the statements for the table of native words *)
Theorem step_congruence : forall fo a b,
  eq_rev a b -> meter_ok 2 a -> meter_ok 2 b ->
  res_rel_cases (fetch_and_run (native_fn fo) a) (fetch_and_run (native_fn fo) b).
Proof.
  intros fo a b E Ma Mb. apply res_rel_iff. apply far_rel; auto. apply native_rel.
Qed.

Theorem step_congruence_nr : forall fo a b,
  eq_rev a b -> not_resolve a -> meter_ok 1 a -> meter_ok 1 b ->
  res_rel_cases (fetch_and_run (native_fn fo) a) (fetch_and_run (native_fn fo) b).
Proof.
  intros fo a b E Hn Ma Mb. apply res_rel_iff. apply far_rel_nr; auto. apply native_rel.
Qed.

Theorem step_congruence_nolimit : forall fo a b,
  eq_rev a b -> insn_limit a = None ->
  res_rel_cases (fetch_and_run (native_fn fo) a) (fetch_and_run (native_fn fo) b).
Proof.
  intros fo a b E L. apply step_congruence; auto; apply meter_ok_nolimit; auto.
  rewrite <- (f_equal insn_limit E : insn_limit a = insn_limit b). exact L.
Qed.

(* every native word by itself *)
Theorem word_congruence : forall fo w f a b,
  native_fn fo w = Some f -> eq_rev a b -> res_rel_cases (f a) (f b).
Proof. intros fo w f a b H E. apply res_rel_iff. eapply native_rel; eauto. Qed.

(* ---------- the hypothesis on the meter is necessary ---------- *)
(* two states that differ in the meter only; the limit stops one of them *)
Definition lim_a : state :=
  mkstate [] [] [ONop] [] [] [] [] [] [] [] [] (mkctx 0 0 0 0 0 0 0 0 MEval) []
          0%Z (Some 1%Z) None None (Some []) EmptyString None false.
Definition lim_b : state := set_meter lim_a 1%Z.

Theorem step_congruence_needs_meter :
  ~ (forall fo a b, eq_rev a b ->
       res_rel_cases (fetch_and_run (native_fn fo) a) (fetch_and_run (native_fn fo) b)).
Proof.
  intro H. specialize (H cex_fo lim_a lim_b (eq_refl _)).
  vm_compute in H. exact H.
Qed.

Print Assumptions step_congruence.
Print Assumptions step_congruence_nr.
Print Assumptions word_congruence.
Print Assumptions step_congruence_needs_meter.
