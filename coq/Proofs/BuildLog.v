(* BuildLog.v (C15): recording is transparent for the builder.
   [R_log m m'] relates two programs: running [m] and erasing the reverse log afterwards is
   running [m'] on the state with the log erased before.  [P_log m] (Proofs/VmDrive.v) is
   [R_log m m].  The two-sided form is what makes [get] compositional: after [let* s := get]
   the continuation on the recording side holds [s], the other one holds [erase_log s]; the
   projections agree by conversion and [put (set_x s v)] is matched by [R_put].
   This file: combinators, the primitives of the builder, tokens, every immediate word that does
   not run the machine, and the [let] pattern builders. *)
From Xeh Require Import Model.Prelude Model.Bits Model.Codec Model.Cell Model.Lexer Model.Fmt
                        Model.Vm Model.Words Model.Build.
From Xeh Require Import Proofs.VmFrame Proofs.VmDrive Proofs.NoPanicBuild.
Local Notation length := List.length.

#[local] Arguments Z.add : simpl never.
#[local] Arguments Z.sub : simpl never.
#[local] Arguments Z.mul : simpl never.
#[local] Arguments Z.ltb : simpl never.
#[local] Arguments Z.leb : simpl never.
#[local] Arguments Z.eqb : simpl never.
#[local] Arguments Z.of_nat : simpl never.
#[local] Arguments Z.to_nat : simpl never.

Definition R_log {A} (m m' : M A) : Prop := forall s, res_map erase_log (m s) = m' (erase_log s).

Lemma P_log_R A (m : M A) : P_log m -> R_log m m.
Proof. exact (fun H => H). Qed.
Lemma R_P_log A (m : M A) : R_log m m -> P_log m.
Proof. exact (fun H => H). Qed.

(* ---------- combinators ---------- *)
Lemma R_ret A (a : A) : R_log (ret a) (ret a).
Proof. intro s. reflexivity. Qed.
Lemma R_fail A k p : R_log (@fail A k p) (@fail A k p).
Proof. intro s. reflexivity. Qed.
Lemma R_unsup A : R_log (@unsup A) (@unsup A).
Proof. intro s. reflexivity. Qed.
Lemma R_panic A : R_log (@panic A) (@panic A).
Proof. intro s. reflexivity. Qed.
Lemma R_bind A B (m m' : M A) (f f' : A -> M B) :
  R_log m m' -> (forall a, R_log (f a) (f' a)) -> R_log (bind m f) (bind m' f').
Proof.
  intros Hm Hf s. unfold bind. rewrite <- (Hm s).
  destruct (m s) as [a s1|k p s1| |]; cbn [res_map]; try reflexivity. apply Hf.
Qed.
Lemma R_get_bind B (k k' : state -> M B) :
  (forall s0, R_log (k s0) (k' (erase_log s0))) -> R_log (bind get k) (bind get k').
Proof. intros H s. unfold bind, get. apply H. Qed.
Lemma R_put s1 : R_log (put s1) (put (erase_log s1)).
Proof. intro s. reflexivity. Qed.
Lemma R_wl A (m : M A) : wl m -> R_log m m.
Proof. exact (wl_log A m). Qed.

(* ---------- normalisation: a projection of [erase_log s] other than the log is that of [s] ---------- *)
Ltac erase_norm :=
  repeat match goal with
         | |- context [?f (erase_log ?s)] => progress change (f (erase_log s)) with (f s)
         end.

(* programs written directly as functions of the state *)
Ltac rl_direct :=
  let s := fresh "s" in
  intro s; cbv zeta; erase_norm; break_matches; try reflexivity.

(* ---------- primitives of the builder ---------- *)
Lemma R_code_emit op : R_log (code_emit op) (code_emit op).
Proof. unfold code_emit. rl_direct. Qed.
Lemma R_backpatch pos op : R_log (backpatch pos op) (backpatch pos op).
Proof. unfold backpatch. rl_direct. Qed.
Lemma R_backpatch_jump pos offs : R_log (backpatch_jump pos offs) (backpatch_jump pos offs).
Proof.
  intro s. unfold backpatch_jump. erase_norm.
  destruct (nth_error (code s) pos) as [op|]; [|reflexivity].
  destruct op; try reflexivity; apply R_backpatch.
Qed.
Lemma R_push_flow f : R_log (push_flow f) (push_flow f).
Proof. intro s. reflexivity. Qed.
Lemma R_pop_flow : R_log pop_flow pop_flow.
Proof. unfold pop_flow. rl_direct. Qed.
Lemma R_take_first_cond_flow : R_log take_first_cond_flow take_first_cond_flow.
Proof. unfold take_first_cond_flow. rl_direct. Qed.
Lemma R_dict_insert name e : R_log (dict_insert name e) (dict_insert name e).
Proof. intro s. reflexivity. Qed.
Lemma R_intern_source buf : R_log (intern_source buf) (intern_source buf).
Proof. intro s. reflexivity. Qed.
Lemma R_alloc_heap v : R_log (alloc_heap v) (alloc_heap v).
Proof. unfold alloc_heap. rl_direct. Qed.
Lemma R_context_open m : R_log (context_open m) (context_open m).
Proof. intro s. reflexivity. Qed.
Lemma R_pop_data : R_log pop_data pop_data.
Proof. apply R_wl. apply wl_pop_data. Qed.
Lemma R_vec_collect p : R_log (vec_collect_till_ptr p) (vec_collect_till_ptr p).
Proof. apply R_wl. wl_solve. Qed.
Lemma R_join_str_vec sep v : R_log (join_str_vec sep v) (join_str_vec sep v).
Proof. apply R_wl. wl_solve. Qed.
Lemma R_push_return f : R_log (push_return f) (push_return f).
Proof. apply R_wl. apply wl_push_return. Qed.
Lemma R_set_ip n : R_log (set_ip n) (set_ip n).
Proof. apply R_wl. apply wl_set_ip. Qed.

(* ---------- tokens ---------- *)
Section Tok.
  Variable pr : string -> option Z.

  Lemma next_token_log : forall fuel, R_log (next_token pr fuel) (next_token pr fuel).
  Proof.
    induction fuel as [|f IH]; intro s; cbn [next_token]; [reflexivity|].
    change (input (erase_log s)) with (input s).
    destruct (input s) as [|il rest]; [reflexivity|]. cbv zeta.
    destruct (lex_next_nonws _ _) as [tk l'].
    destruct tk; try reflexivity.
    - apply (IH (set_input (set_last_tok (set_input s (mkinlex (in_src il) l' :: rest))
                                         (Some (in_src il, lstart l', lpos l'))) rest)).
    - destruct (pr text); reflexivity.
  Qed.

  Lemma R_get_token : R_log (get_token pr) (get_token pr).
  Proof.
    intro s. unfold get_token. change (tok_fuel (erase_log s)) with (tok_fuel s). apply next_token_log.
  Qed.

  Lemma R_next_name : R_log (next_name pr) (next_name pr).
  Proof.
    intro s. unfold next_name. cbv zeta. rewrite <- (R_get_token s).
    change (last_tok (erase_log s)) with (last_tok s).
    destruct (get_token pr s) as [tk s1|k p s1| |]; cbn [res_map]; try reflexivity.
    destruct tk; try reflexivity; destruct (last_tok s); reflexivity.
  Qed.
End Tok.

(* ---------- the tactic ---------- *)
Create HintDb rldb.

Ltac rl_prim :=
  lazymatch goal with
  | |- R_log (ret _) _ => apply R_ret
  | |- R_log (fail _ _) _ => apply R_fail
  | |- R_log unsup _ => apply R_unsup
  | |- R_log panic _ => apply R_panic
  | |- R_log (put _) _ => apply R_put
  | |- R_log (code_emit _) _ => apply R_code_emit
  | |- R_log (backpatch _ _) _ => apply R_backpatch
  | |- R_log (backpatch_jump _ _) _ => apply R_backpatch_jump
  | |- R_log (push_flow _) _ => apply R_push_flow
  | |- R_log pop_flow _ => apply R_pop_flow
  | |- R_log take_first_cond_flow _ => apply R_take_first_cond_flow
  | |- R_log (dict_insert _ _) _ => apply R_dict_insert
  | |- R_log (alloc_heap _) _ => apply R_alloc_heap
  | |- R_log (intern_source _) _ => apply R_intern_source
  | |- R_log (context_open _) _ => apply R_context_open
  | |- R_log (get_token _) _ => apply R_get_token
  | |- R_log (next_name _) _ => apply R_next_name
  | |- R_log pop_data _ => apply R_pop_data
  | |- R_log (vec_collect_till_ptr _) _ => apply R_vec_collect
  | |- R_log (join_str_vec _ _) _ => apply R_join_str_vec
  | |- R_log (push_return _) _ => apply R_push_return
  | |- R_log (set_ip _) _ => apply R_set_ip
  end.

Ltac rl_step :=
  cbv beta zeta;
  first
    [ rl_prim
    | solve [ auto 2 with rldb nocore ]
    | lazymatch goal with
      | |- R_log (bind get _) _ =>
        apply R_get_bind; let s0 := fresh "s0" in intro s0; cbv beta zeta; erase_norm
      | |- R_log (bind _ _) _ => apply R_bind; [ | intro ]
      | |- R_log (match ?x with _ => _ end) _ => destruct x
      | |- R_log ?w _ => let h := head_of w in unfold h
      end ].

Ltac rl_solve := repeat rl_step.

(* ---------- the immediate words that do not run the machine ---------- *)
Lemma R_emit_native w : R_log (emit_native w) (emit_native w).
Proof. rl_solve. Qed.
Lemma R_code_emit_value v : R_log (code_emit_value v) (code_emit_value v).
Proof. rl_solve. Qed.
#[export] Hint Resolve R_emit_native R_code_emit_value : rldb.

Lemma R_i_if : R_log i_if i_if. Proof. rl_solve. Qed.
Lemma R_i_else : R_log i_else i_else. Proof. rl_solve. Qed.
Lemma R_i_then : R_log i_then i_then. Proof. rl_solve. Qed.
Lemma R_i_case : R_log i_case i_case. Proof. rl_solve. Qed.
Lemma R_endcase_loop : forall fuel org, R_log (endcase_loop fuel org) (endcase_loop fuel org).
Proof. induction fuel as [|f IH]; intros org; cbn [endcase_loop]; rl_solve. Qed.
Lemma R_i_endcase : R_log i_endcase i_endcase.
Proof. pose proof R_endcase_loop. rl_solve. Qed.
Lemma R_i_of : R_log i_of i_of. Proof. rl_solve. Qed.
Lemma R_i_endof : R_log i_endof i_endof. Proof. rl_solve. Qed.
Lemma R_i_begin : R_log i_begin i_begin. Proof. rl_solve. Qed.
Lemma R_i_until : R_log i_until i_until. Proof. rl_solve. Qed.
Lemma R_i_while : R_log i_while i_while. Proof. rl_solve. Qed.
Lemma R_repeat_loop : forall fuel, R_log (repeat_loop fuel) (repeat_loop fuel).
Proof. induction fuel as [|f IH]; cbn [repeat_loop]; rl_solve. Qed.
Lemma R_i_repeat : R_log i_repeat i_repeat.
Proof. pose proof R_repeat_loop. rl_solve. Qed.
Lemma R_i_break : R_log i_break i_break. Proof. rl_solve. Qed.
Lemma R_i_open f w : R_log (i_open f w) (i_open f w). Proof. rl_solve. Qed.
Lemma R_i_close g w : R_log (i_close g w) (i_close g w). Proof. rl_solve. Qed.
Lemma R_i_def_end : R_log i_def_end i_def_end. Proof. rl_solve. Qed.
Lemma R_i_immediate : R_log i_immediate i_immediate. Proof. rl_solve. Qed.
Lemma R_i_do : R_log i_do i_do. Proof. rl_solve. Qed.
Lemma R_loop_loop : forall fuel lo st, R_log (loop_loop fuel lo st) (loop_loop fuel lo st).
Proof. induction fuel as [|f IH]; intros lo st; cbn [loop_loop]; rl_solve. Qed.
Lemma R_i_loop : R_log i_loop i_loop.
Proof. pose proof R_loop_loop. rl_solve. Qed.
Lemma R_i_foreach : R_log i_foreach i_foreach.
Proof. pose proof R_i_do. rl_solve. Qed.
Lemma R_i_set_fmt_base n : R_log (i_set_fmt_base n) (i_set_fmt_base n).
Proof. rl_solve. Qed.
Lemma R_i_nested_begin : R_log i_nested_begin i_nested_begin.
Proof. rl_solve. Qed.
Lemma R_build_local_variable name : R_log (build_local_variable name) (build_local_variable name).
Proof. rl_solve. Qed.
Lemma R_build_global_variable name : R_log (build_global_variable name) (build_global_variable name).
Proof. rl_solve. Qed.
Lemma R_build_let_named w : R_log (build_let_named w) (build_let_named w).
Proof. pose proof R_build_local_variable. pose proof R_build_global_variable. rl_solve. Qed.
Lemma R_build_let_match v : R_log (build_let_match v) (build_let_match v).
Proof. rl_solve. Qed.
Lemma R_let_vec_next i : R_log (let_vec_next i) (let_vec_next i).
Proof. rl_solve. Qed.
#[export] Hint Resolve R_build_local_variable R_build_global_variable R_build_let_named
  R_build_let_match R_let_vec_next : rldb.

Section Imm.
  Variable pr : string -> option Z.

  Lemma R_i_def_begin_named name : R_log (i_def_begin_named name) (i_def_begin_named name).
  Proof. rl_solve. Qed.
  Lemma R_i_def_begin : R_log (i_def_begin pr) (i_def_begin pr).
  Proof. pose proof R_i_def_begin_named. rl_solve. Qed.
  Lemma R_i_late : R_log (i_late pr) (i_late pr). Proof. rl_solve. Qed.
  Lemma R_i_local : R_log (i_local pr) (i_local pr). Proof. rl_solve. Qed.
  Lemma R_i_var : R_log (i_var pr) (i_var pr). Proof. rl_solve. Qed.
  Lemma R_i_setvar : R_log (i_setvar pr) (i_setvar pr). Proof. rl_solve. Qed.
  Lemma R_i_const : R_log (i_const pr) (i_const pr). Proof. rl_solve. Qed.
  Lemma R_i_defined : R_log (i_defined pr) (i_defined pr). Proof. rl_solve. Qed.

  (* ---------- enum: the parts that do not close a context ---------- *)
  Lemma R_def_immediate name nat : R_log (def_immediate name nat) (def_immediate name nat).
  Proof. rl_solve. Qed.
  Lemma R_i_enum : R_log (i_enum pr) (i_enum pr).
  Proof. pose proof R_def_immediate. pose proof R_i_nested_begin. rl_solve. Qed.
  Lemma R_m_xint c : R_log (m_xint c) (m_xint c).
  Proof. unfold m_xint. destruct (value c); first [apply R_ret|apply R_fail]. Qed.
  Lemma R_enum_add_field nm val : R_log (enum_add_field nm val) (enum_add_field nm val).
  Proof. pose proof R_i_nested_begin. rl_solve. Qed.

  (* ---------- let ---------- *)
  Lemma R_build_let : forall f,
    R_log (build_let_in pr f) (build_let_in pr f) /\
    R_log (build_let_tags pr f) (build_let_tags pr f) /\
    R_log (build_let_map pr f) (build_let_map pr f) /\
    (forall i, R_log (build_let_vec pr f i) (build_let_vec pr f i)).
  Proof.
    induction f as [|f (IHin & IHtags & IHmap & IHvec)].
    - repeat split; intros; apply R_unsup.
    - assert (Hmap : R_log (build_let_map pr (S f)) (build_let_map pr (S f))).
      { rewrite build_let_map_S. apply R_bind; [apply R_emit_native|intros _].
        generalize (S f) as k. induction k as [|k IHk]; cbn [let_map_go]; [apply R_unsup|].
        fold (let_map_go pr f) in *.
        rl_solve. }
      assert (Hvec : forall i, R_log (build_let_vec pr (S f) i) (build_let_vec pr (S f) i)).
      { intros i. rewrite build_let_vec_S. revert i.
        generalize (S f) as k. induction k as [|k IHk]; intros i; cbn [let_vec_go]; [apply R_unsup|].
        fold (let_vec_go pr f) in *.
        rl_solve. }
      assert (Htags : R_log (build_let_tags pr (S f)) (build_let_tags pr (S f))).
      { cbn [build_let_tags]. rl_solve. }
      assert (Hin : R_log (build_let_in pr (S f)) (build_let_in pr (S f))).
      { cbn [build_let_in]. rl_solve. }
      repeat split; assumption.
  Qed.

  Lemma R_build_let_in f : R_log (build_let_in pr f) (build_let_in pr f).
  Proof. exact (proj1 (R_build_let f)). Qed.
End Imm.
