(* StructExamples.v: concrete programs and states used by Props/C01_struct.v to show that the
   hypotheses of its theorems are satisfiable, and the checkers that turn the syntactic
   hypotheses about function tables into computations. *)
From Xeh Require Import Model.Prelude Model.Bits Model.Codec Model.Cell Model.Lexer Model.Fmt
                        Model.Vm Model.Words Model.Struct Model.Boot
                        Proofs.VmFrame Proofs.StructBase Proofs.StructNat Proofs.StructInv
                        Proofs.StructLoops Proofs.StructRs Proofs.StructDo Proofs.StructNonterm.
Local Notation length := List.length.
Local Open Scope string_scope.

(* ---------- checkers ---------- *)
Lemma fun_body_In : forall funs g body, fun_body funs g = Some body -> In (g, body) funs.
Proof.
  induction funs as [| [k b] r IH]; intros g body H; cbn [fun_body] in H; [ discriminate | ].
  destruct (Nat.eqb_spec k g).
  - injection H as <-. subst. left. reflexivity.
  - right. apply IH. exact H.
Qed.

Lemma funs_all_check : forall P funs,
  forallb (fun gb => all_block P (snd gb)) funs = true -> funs_all P funs.
Proof.
  intros P funs H g body E. apply fun_body_In in E.
  rewrite forallb_forall in H. apply (H (g, body) E).
Qed.

Lemma funs_nobreak_check : forall funs,
  forallb (fun gb => negb (has_own_break_block (snd gb))) funs = true -> funs_nobreak funs.
Proof.
  intros funs H g body E. apply fun_body_In in E.
  rewrite forallb_forall in H. specialize (H (g, body) E). cbn [snd] in H.
  apply negb_true_iff in H. exact H.
Qed.

(* ---------- a program ---------- *)
Definition xfo : fops := fops_with Z.add Z.sub Z.mul Z.div Z.rem Z.min Z.max.
Definition nopr : string -> option Z := fun _ => None.

(* definitions with a local, a redefinition, a begin/repeat left by break, nested counted loops *)
Definition ex_src : string :=
  ": sq local x x x * ; : quad sq sq ; : sq 1 + ; 2 quad sq begin dup 1000 > if break then dup * repeat 2 0 do 3 0 do J I loop loop".

Definition ex_prog : list stmt * list (nat * list stmt) :=
  match parse_source xfo nopr ex_src 6 with
  | Some (b, fs, _) => (b, fs)
  | None => ([], [])
  end.
Definition ex_body : list stmt := fst ex_prog.
Definition ex_funs : list (nat * list stmt) := snd ex_prog.

Definition res_ds (r : sres) : option (list cell) :=
  match r with SDone s => Some (ds s) | _ => None end.
Definition res_stacks (r : sres) : option (list loopr * list frame) :=
  match r with SDone s => Some (loops s, rs s) | SBroke s => Some (loops s, rs s) | _ => None end.

(* ---------- diverging loops ---------- *)
Definition p0 : pos := (0, 0)%nat.

(* begin 1 drop repeat *)
Definition ex_spin_body : list stmt := [SLit (CInt 1) p0; SPrim "drop" p0].
Lemma ex_spin_inv : forall f s, s = boot ->
  sblock xfo [] f ex_spin_body s = SOut \/ exists s', sblock xfo [] f ex_spin_body s = SDone s' /\ s' = boot.
Proof.
  intros f s ->. destruct f as [| [| [| f]]]; try (left; reflexivity).
  right. eexists. split; [ vm_compute; reflexivity | reflexivity ].
Qed.

(* begin false until *)
Definition ex_until_body : list stmt := [SLit (CFlag false) p0].
Lemma ex_until_inv : forall f s, s = boot ->
  sblock xfo [] f ex_until_body s = SOut \/
  exists s1 s2, sblock xfo [] f ex_until_body s = SDone s1 /\ m_test s1 = ROk false s2 /\ s2 = boot.
Proof.
  intros f s ->. destruct f as [| [| f]]; try (left; reflexivity).
  right. eexists. eexists. split; [ vm_compute; reflexivity | ]. split; vm_compute; reflexivity.
Qed.

(* begin true while repeat *)
Definition ex_while_cond : list stmt := [SLit (CFlag true) p0].
Lemma ex_while_inv : forall f s, s = boot ->
  sblock xfo [] f ex_while_cond s = SOut \/
  exists s1 s2, sblock xfo [] f ex_while_cond s = SDone s1 /\ m_test s1 = ROk true s2 /\
                (sblock xfo [] f [] s2 = SOut \/ exists s3, sblock xfo [] f [] s2 = SDone s3 /\ s3 = boot).
Proof.
  intros f s ->. destruct f as [| [| f]]; try (left; reflexivity).
  right. eexists. eexists. split; [ vm_compute; reflexivity | ]. split; [ vm_compute; reflexivity | ].
  right. eexists. split; vm_compute; reflexivity.
Qed.

(* the conditions of the "never done" theorems for these loops *)
Lemma ex_until_never_true : forall f s s1 s2,
  sblock xfo [] f ex_until_body s = SDone s1 -> m_test s1 <> ROk true s2.
Proof.
  intros f s s1 s2 H. destruct f as [| [| f]]; try discriminate.
  unfold ex_until_body in H. rewrite sblock_cons, sstmt_SLit in H.
  unfold run_m in H. destruct (push_data (CFlag false) s) as [[] s' | | |] eqn:E; cbn [on_res] in H; try discriminate.
  rewrite sblock_nil in H. injection H as <-.
  unfold push_data in E. destruct (limit_reached _ _); [ discriminate | ]. injection E as <-.
  unfold m_test, bind, pop_data. cbn [ds set_ds].
  destruct (Nat.ltb _ _); [ | discriminate ]. cbn. discriminate.
Qed.

Lemma ex_while_never_false : forall f s s1 s2,
  sblock xfo [] f ex_while_cond s = SDone s1 -> m_test s1 <> ROk false s2.
Proof.
  intros f s s1 s2 H. destruct f as [| [| f]]; try discriminate.
  unfold ex_while_cond in H. rewrite sblock_cons, sstmt_SLit in H.
  unfold run_m in H. destruct (push_data (CFlag true) s) as [[] s' | | |] eqn:E; cbn [on_res] in H; try discriminate.
  rewrite sblock_nil in H. injection H as <-.
  unfold push_data in E. destruct (limit_reached _ _); [ discriminate | ]. injection E as <-.
  unfold m_test, bind, pop_data. cbn [ds set_ds].
  destruct (Nat.ltb _ _); [ | discriminate ]. cbn. discriminate.
Qed.

(* ---------- states ---------- *)
(* `3 0 do`: the start index is on top *)
Definition ex_do_state : state := set_ds boot [CInt 0; CInt 3].
Definition ex_do_zero_state : state := set_ds boot [CInt 5; CInt 5].
(* a loop record and a vector on the stack, for "%foreach-next" *)
Definition ex_foreach_state : state := set_ds (set_loops boot [mkloop CNil 0 3]) [CVec [CInt 7]].
(* a frame, for `local` *)
Definition ex_frame_state : state := set_ds (set_rs boot [mkframe 0 0 []]) [CInt 9].
