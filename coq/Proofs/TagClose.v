(* TagClose.v: the one native word outside the design's exclusion list that does not commute with
   [strip_state] is close-bitstr, and the only reason is the "offset" tag that open-bitstr puts on
   the inputs it stashes in the heap slot R_STASH.  If that slot is left alone (every other cell
   of the machine - data stack, the rest of the heap, loops, locals, log - is stripped), close-bitstr
   commutes with stripping too. *)
From Xeh Require Import Model.Prelude Model.Bits Model.Codec Model.Cell Model.Lexer Model.Fmt
                        Model.Vm Model.BaseN Model.Words Proofs.BitsProofs Proofs.CellProofs Proofs.CollProofs
                        Proofs.TagProofs Proofs.TagSim Proofs.TagWords Proofs.TagFresh.
Local Notation length := List.length.

(* no doubly wrapped tag anywhere, tag maps included *)
Definition tagwfT : cell -> Prop := tg notagtag.

Lemma tagwfT_tagwf : forall c, tagwfT c -> tagwf c.
Proof.
  intros c H. apply deepT_deep in H. revert H. apply deep_impl.
  intros x Hx. destruct x; cbn in *; auto.
Qed.

(* what close-bitstr does once the stash cell is known *)
Definition close_tail (st : cell) : M unit :=
  let* v := m_vec st in
  match rev v with
  | [] => fail EBounds None
  | last :: r =>
    let offset := match get_tag last offset_lit with Some o => o | None => cint 0 end in
    set_var R_OFFSET offset ;; set_var R_INPUT (value last) ;; set_var R_STASH (CVec (rev r))
  end.

Lemma close_unfold : forall s,
  w_close_bitstr s =
  if mode_eqb (cmode (cx s)) MMeta then RErr EConst None s
  else match nth_error (heap s) R_STASH with
       | Some st => close_tail st s
       | None => RErr EHeapOob None s
       end.
Proof.
  intro s. unfold w_close_bitstr. unfold bind at 1. unfold get_var.
  destruct (mode_eqb (cmode (cx s)) MMeta); [reflexivity|].
  destruct (nth_error (heap s) R_STASH); reflexivity.
Qed.

Lemma sim_close_tail : forall st, tagwfT st -> sim eq (close_tail st) (close_tail st).
Proof.
  intros st Hst. unfold close_tail, m_vec.
  pose proof (tg_value _ _ Hst) as V. revert V. generalize (value st). intros x V.
  assert (Hx : strip x = strip x) by reflexivity.
  destruct x;
    try (intros s1 s2 H; unfold bind, fail; cbn [rrel]; repeat split; auto; apply H; fail).
  change (sim eq (match rev l with
                  | [] => fail EBounds None
                  | last :: r =>
                    set_var R_OFFSET (match get_tag last offset_lit with Some o => o | None => cint 0 end) ;;
                    set_var R_INPUT (value last) ;; set_var R_STASH (CVec (rev r))
                  end)
                 (match rev l with
                  | [] => fail EBounds None
                  | last :: r =>
                    set_var R_OFFSET (match get_tag last offset_lit with Some o => o | None => cint 0 end) ;;
                    set_var R_INPUT (value last) ;; set_var R_STASH (CVec (rev r))
                  end)).
  apply tg_vec in V. apply (tg_rev notagtag) in V.
  destruct (rev l) as [| last r]; [apply sim_fail; reflexivity|].
  inversion V as [| ? ? V1 V2]; subst.
  eapply sim_bind; [apply sim_set_var |].
  { apply crel_refl, tagwfT_tagwf. apply tg_get_tag_default; [assumption | apply tg_cint]. }
  intros _ _ _. eapply sim_bind; [apply sim_set_var |].
  { apply crel_refl, tagwfT_tagwf, tg_value. assumption. }
  intros _ _ _. apply sim_set_var.
  apply crel_refl, tagwfT_tagwf. apply tg_vec. apply tg_rev. assumption.
Qed.

Theorem close_bitstr_same_stash : forall s1 s2,
  srel s1 s2 ->
  nth_error (heap s1) R_STASH = nth_error (heap s2) R_STASH ->
  (forall st, nth_error (heap s1) R_STASH = Some st -> tagwfT st) ->
  res_strip (w_close_bitstr s1) = res_strip (w_close_bitstr s2).
Proof.
  intros s1 s2 H E Hst. apply rrel_res_strip. rewrite !close_unfold, (mode_srel _ _ H), <- E.
  destruct (mode_eqb (cmode (cx s2)) MMeta); [cbn; auto|].
  destruct (nth_error (heap s1) R_STASH) as [st|]; [| cbn; auto].
  apply sim_close_tail; auto.
Qed.

(* strip everything except the stash slot *)
Definition strip_state_keep_stash (s : state) : state :=
  set_heap (strip_state s) (list_set (map strip (heap s)) R_STASH (nth R_STASH (heap s) CNil)).

Lemma list_set_same : forall {A} (l : list A) i d, list_set l i (nth i l d) = l.
Proof. induction l; destruct i; cbn; intros; auto. f_equal. auto. Qed.

Lemma nth_error_list_set : forall {A} (l : list A) i v, (i < length l)%nat -> nth_error (list_set l i v) i = Some v.
Proof. induction l; destruct i; cbn; intros; auto; try lia. apply IHl. lia. Qed.

Lemma srel_keep_stash : forall s, tagwf_state s -> srel s (strip_state_keep_stash s).
Proof.
  intros s Hs. unfold strip_state_keep_stash. split; [| split; auto].
  - rewrite strip_set_heap, map_list_set, strip_state_idem.
    rewrite <- (map_nth strip). cbn [strip].
    change (strip CNil) with CNil.
    rewrite map_strip_idem, list_set_same. destruct s; reflexivity.
  - destruct (tagwf_strip_state s) as (A & B & C). destruct Hs as (A' & B' & C').
    repeat split; auto. cbn [heap set_heap].
    apply Forall_list_set; [apply Forall_map_strip|].
    destruct (nth_in_or_default R_STASH (heap s) CNil) as [Hin|Hd]; [| rewrite Hd; split; exact I].
    rewrite Forall_forall in B'. auto.
Qed.

Theorem close_bitstr_commutes_keep_stash : forall s,
  tagwf_state s -> (forall st, nth_error (heap s) R_STASH = Some st -> tagwfT st) ->
  res_strip (w_close_bitstr s) = res_strip (w_close_bitstr (strip_state_keep_stash s)).
Proof.
  intros s Hs Hst. apply close_bitstr_same_stash; auto using srel_keep_stash.
  unfold strip_state_keep_stash. cbn [heap set_heap].
  destruct (nth_error (heap s) R_STASH) as [st|] eqn:E.
  - rewrite (nth_error_nth _ _ CNil E). symmetry. apply nth_error_list_set.
    rewrite map_length. apply nth_error_Some. congruence.
  - apply nth_error_None in E. symmetry. apply nth_error_None.
    assert (L : forall (l : list cell) i v, length (list_set l i v) = length l).
    { induction l; destruct i; cbn; auto. }
    rewrite L, map_length. assumption.
Qed.
