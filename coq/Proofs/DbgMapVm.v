(* DbgMapVm.v (C17): what the machine does to the fields the error location is computed from.

   [frm s s']: code, debug map, sources, input lexers, last token, nested contexts are the
   same and the current context differs at most in its instruction pointer.  Every program
   built from the logging primitives ([wl], hence every native word and [exec_op]) relates
   its start and end state by [frm].  The only other change a machine step makes is the
   in-place patch of a [Resolve] cell ([vmrel]).

   No native word touches the instruction pointer ([kcx]: the whole current context is
   kept), and [exec_op] moves it only as its last action, which cannot fail; so a failing
   [fetch_and_run] leaves [ip] at the failing instruction ([far_err_ip]). *)
From Xeh Require Import Model.Prelude Model.Bits Model.Codec Model.Cell Model.Lexer Model.Fmt
                        Model.Vm Model.Words.
From Xeh Require Import Proofs.VmFrame Proofs.VmLimits.

#[local] Arguments Z.add : simpl never.
#[local] Arguments Z.sub : simpl never.
#[local] Arguments Z.mul : simpl never.
#[local] Arguments Z.ltb : simpl never.
#[local] Arguments Z.leb : simpl never.
#[local] Arguments Z.eqb : simpl never.
#[local] Arguments Z.of_nat : simpl never.
#[local] Arguments Z.to_nat : simpl never.

(* ---------- the frame ---------- *)
Definition ctx_noip (c : ctx) : ctx :=
  mkctx (ds_len c) (cs_len c) (rs_len c) (fs_len c) (ls_len c) (ss_ptr c) (di_len c) 0 (cmode c).

Definition frm (s s' : state) : Prop :=
  code s' = code s /\ dbg s' = dbg s /\ sources s' = sources s /\ input s' = input s /\
  last_tok s' = last_tok s /\ nested s' = nested s /\ ctx_noip (cx s') = ctx_noip (cx s).

Lemma frm_refl s : frm s s.
Proof. repeat split. Qed.

Lemma frm_trans a b c : frm a b -> frm b c -> frm a c.
Proof.
  intros (A1 & A2 & A3 & A4 & A5 & A6 & A7) (B1 & B2 & B3 & B4 & B5 & B6 & B7).
  repeat split; congruence.
Qed.

Lemma ctx_noip_mode c c' : ctx_noip c' = ctx_noip c -> cmode c' = cmode c.
Proof. intros H. apply (f_equal cmode) in H. exact H. Qed.
Lemma ctx_noip_cs c c' : ctx_noip c' = ctx_noip c -> cs_len c' = cs_len c.
Proof. intros H. apply (f_equal cs_len) in H. exact H. Qed.
Lemma ctx_noip_ds c c' : ctx_noip c' = ctx_noip c -> ds_len c' = ds_len c.
Proof. intros H. apply (f_equal ds_len) in H. exact H. Qed.
Lemma ctx_noip_di c c' : ctx_noip c' = ctx_noip c -> di_len c' = di_len c.
Proof. intros H. apply (f_equal di_len) in H. exact H. Qed.
Lemma ctx_noip_fs c c' : ctx_noip c' = ctx_noip c -> fs_len c' = fs_len c.
Proof. intros H. apply (f_equal fs_len) in H. exact H. Qed.

Definition P_frm {A} (m : M A) : Prop := forall s, res_all (frm s) (m s).

Ltac frm_prim :=
  let s := fresh "s" in
  intro s; destruct_state s;
  cbv [push_data pop_data top_data swap_data rot_data over_data push_return pop_return top_frame
       push_loop pop_loop loop_next loop_set_items push_special pop_special get_var set_var
       init_local set_ip next_ip print modify ret fail unsup panic
       add_rstep limit_reached data_depth ip set_ip_raw
       set_ds set_rs set_loops set_special set_heap set_cx set_rlog set_out set_stopping
       dict heap code dbg sources input ds rs flows loops special cx nested meter insn_limit
       heap_limit stack_limit rlog out last_tok stopping];
  break_matches;
  cbv [res_all]; try exact I;
  cbv [frm ctx_noip dict heap code dbg sources input ds rs flows loops special cx nested meter
       insn_limit heap_limit stack_limit rlog out last_tok stopping
       ds_len cs_len rs_len fs_len ls_len ss_ptr di_len cip cmode];
  repeat split; reflexivity.

Lemma wl_frm : forall A (m : M A), wl m -> P_frm m.
Proof.
  induction 1; try (frm_prim; fail).
  - intro s. unfold bind. specialize (IHwl s).
    destruct (m s) as [a s1 | k p s1 | |]; cbn [res_all] in *; auto.
    specialize (H1 a s1). destruct (f a s1); cbn [res_all] in *; auto;
      eapply frm_trans; eauto.
  - intro s. unfold bind, get. apply H0.
Qed.

(* ---------- machine steps: frame steps and in-place patches ---------- *)
Inductive vmrel : state -> state -> Prop :=
| vmrel_frm : forall s s', frm s s' -> vmrel s s'
| vmrel_patch : forall s i op, vmrel s (set_code s (list_set (code s) i op))
| vmrel_trans : forall a b c, vmrel a b -> vmrel b c -> vmrel a c.

Lemma vmrel_refl s : vmrel s s.
Proof. apply vmrel_frm, frm_refl. Qed.

(* what [vmrel] keeps *)
Lemma vmrel_keeps : forall s s', vmrel s s' ->
  length (code s') = length (code s) /\ dbg s' = dbg s /\ sources s' = sources s /\
  input s' = input s /\ last_tok s' = last_tok s /\ nested s' = nested s /\
  ctx_noip (cx s') = ctx_noip (cx s).
Proof.
  induction 1 as [s s' (A1 & A2 & A3 & A4 & A5 & A6 & A7) | s i op | a b c _ IH1 _ IH2].
  - rewrite A1. repeat split; assumption.
  - cbn [set_code code dbg sources input last_tok nested cx]. rewrite list_set_length. repeat split.
  - destruct IH1 as (A1 & A2 & A3 & A4 & A5 & A6 & A7). destruct IH2 as (B1 & B2 & B3 & B4 & B5 & B6 & B7).
    repeat split; congruence.
Qed.

Lemma frm_set_meter s z : frm s (set_meter s z).
Proof. repeat split. Qed.

Section WithTable.
  Variable nf : natives.
  Hypothesis Hnf : forall w f, nf w = Some f -> wl f.

  Lemma exec_op_frm : forall ip0 op s, res_all (frm s) (exec_op nf ip0 op s).
  Proof. intros. apply wl_frm. apply wl_exec_op. exact Hnf. Qed.

  Lemma res_all_impl {A} (P Q : state -> Prop) (r : res A) :
    (forall s, P s -> Q s) -> res_all P r -> res_all Q r.
  Proof. intros H. destruct r; cbn [res_all]; auto. Qed.

  Lemma far_vmrel : forall s, res_all (vmrel s) (fetch_and_run nf s).
  Proof.
    intros s. pose proof (far_spec_holds nf s) as FS.
    inversion FS; cbn [res_all]; try exact I.
    - apply vmrel_refl.
    - eapply res_all_impl; [|apply exec_op_frm]. intros sx Fx.
      apply vmrel_frm. eapply frm_trans; [apply frm_set_meter|exact Fx].
    - apply vmrel_frm, frm_set_meter.
    - eapply vmrel_trans; [apply vmrel_frm, (frm_set_meter s (meter s + 1)%Z)|].
      apply (vmrel_patch (set_meter s (meter s + 1)%Z) (ip s) (resolve_op e)).
    - eapply res_all_impl; [|apply exec_op_frm]. intros sx Fx.
      eapply vmrel_trans; [apply vmrel_frm, (frm_set_meter s (meter s + 1)%Z)|].
      eapply vmrel_trans; [apply (vmrel_patch _ (ip s) (resolve_op e))|].
      apply vmrel_frm. eapply frm_trans; [apply frm_set_meter|exact Fx].
  Qed.

  Lemma run_vmrel : forall fuel s,
    match run nf fuel s with Some r => res_all (vmrel s) r | None => True end.
  Proof.
    induction fuel as [|f IH]; intros s; cbn [run]; [exact I|].
    destruct (is_running s); [|apply vmrel_refl].
    pose proof (far_vmrel s) as H.
    destruct (fetch_and_run nf s) as [u s1|k p s1| |]; cbn [res_all] in *; try exact I; try exact H.
    specialize (IH s1). destruct (run nf f s1) as [r|]; [|exact I].
    eapply res_all_impl; [|exact IH]. intros s2 H2. eapply vmrel_trans; eassumption.
  Qed.

  Lemma next_vmrel : forall s, res_all (vmrel s) (next nf s).
  Proof. intros s. unfold next. destruct (is_running s); [apply far_vmrel|apply vmrel_refl]. Qed.
End WithTable.

(* ---------- reverse stepping ---------- *)
Lemma frm_add_rstep r s : frm s (add_rstep r s).
Proof. unfold add_rstep. destruct (rlog s); repeat split. Qed.

Lemma reverse_changes_frm : forall r s, res_all (frm s) (reverse_changes r s).
Proof.
  intros r s. destruct r; unfold reverse_changes;
    try (repeat match goal with
                | |- context [match ?x with _ => _ end] => destruct x
                end; cbn [res_all]; try exact I; repeat split; fail).
  pose proof (wl_frm _ _ wl_pop_data s) as H1.
  destruct (pop_data s); cbn [res_all] in *; auto.
Qed.

Lemma log_pop_frm s r s' : log_pop s = Some (r, s') -> frm s s'.
Proof.
  unfold log_pop. destruct (rlog s) as [[|r0 l]|]; try discriminate.
  intros E. injection E as <- <-. repeat split.
Qed.

Lemma rnext_loop_frm : forall fuel s, res_all (frm s) (rnext_loop fuel s).
Proof.
  induction fuel as [|f IH]; intros s; cbn [rnext_loop]; [apply frm_refl|].
  destruct (log_pop s) as [[r s']|] eqn:E; [|apply frm_refl].
  pose proof (log_pop_frm _ _ _ E) as H'.
  assert (G : forall r0, res_all (frm s) (match reverse_changes r0 s' with
                                          | ROk _ s'' => rnext_loop f s''
                                          | e => e
                                          end)).
  { intros r0. pose proof (reverse_changes_frm r0 s') as H1.
    destruct (reverse_changes r0 s') as [u s2|k p s2| |]; cbn [res_all] in *; auto.
    - specialize (IH s2). destruct (rnext_loop f s2); cbn [res_all] in *; auto;
        (eapply frm_trans; [exact H'|eapply frm_trans; eassumption]).
    - eapply frm_trans; eassumption. }
  destruct r; try apply G.
  cbn [res_all]. eapply frm_trans; [exact H'|apply frm_add_rstep].
Qed.

Theorem rnext_frm : forall s, res_all (frm s) (rnext s).
Proof.
  intros s. unfold rnext. destruct (log_pop s) as [[r s']|] eqn:E; [|apply rnext_loop_frm].
  pose proof (log_pop_frm _ _ _ E) as H'.
  pose proof (reverse_changes_frm r s') as H1.
  destruct (reverse_changes r s') as [u s2|k p s2| |]; cbn [res_all] in *; auto.
  - pose proof (rnext_loop_frm (S (log_len s2)) s2) as H2.
    destruct (rnext_loop (S (log_len s2)) s2); cbn [res_all] in *; auto;
      (eapply frm_trans; [exact H'|eapply frm_trans; eassumption]).
  - eapply frm_trans; eassumption.
Qed.

(* ---------- no native word touches the current context ---------- *)
Definition kcx {A} (m : M A) : Prop := forall s, res_all (fun s' => cx s' = cx s) (m s).

Lemma kcx_ret A (a : A) : kcx (ret a).
Proof. intros s. reflexivity. Qed.
Lemma kcx_fail A k p : kcx (@fail A k p).
Proof. intros s. reflexivity. Qed.
Lemma kcx_unsup A : kcx (@unsup A).
Proof. intros s. exact I. Qed.
Lemma kcx_panic A : kcx (@panic A).
Proof. intros s. exact I. Qed.
Lemma kcx_get : kcx get.
Proof. intros s. reflexivity. Qed.
Lemma kcx_bind A B (m : M A) (f : A -> M B) : kcx m -> (forall a, kcx (f a)) -> kcx (bind m f).
Proof.
  intros Hm Hf s. unfold bind. specialize (Hm s).
  destruct (m s) as [a s1|k p s1| |]; cbn [res_all] in *; auto.
  specialize (Hf a s1). destruct (f a s1); cbn [res_all] in *; auto; congruence.
Qed.

Ltac kcx_prim0 :=
  let s := fresh "s" in
  intro s; destruct_state s;
  cbv [push_data pop_data top_data swap_data rot_data over_data push_return pop_return top_frame
       push_loop pop_loop loop_next loop_set_items push_special pop_special get_var set_var
       init_local print modify ret fail unsup panic
       add_rstep limit_reached data_depth
       set_ds set_rs set_loops set_special set_heap set_cx set_rlog set_out set_stopping
       dict heap code dbg sources input ds rs flows loops special cx nested meter insn_limit
       heap_limit stack_limit rlog out last_tok stopping];
  break_matches;
  cbv [res_all cx]; try exact I; reflexivity.

Lemma kcx_set_stopping b : kcx (modify (fun s => set_stopping s b)).
Proof. kcx_prim0. Qed.
Lemma kcx_push_data c : kcx (push_data c).
Proof. kcx_prim0. Qed.
Lemma kcx_pop_data : kcx pop_data.
Proof. kcx_prim0. Qed.
Lemma kcx_top_data : kcx top_data.
Proof. kcx_prim0. Qed.
Lemma kcx_swap_data : kcx swap_data.
Proof. kcx_prim0. Qed.
Lemma kcx_rot_data : kcx rot_data.
Proof. kcx_prim0. Qed.
Lemma kcx_over_data : kcx over_data.
Proof. kcx_prim0. Qed.
Lemma kcx_push_return f : kcx (push_return f).
Proof. kcx_prim0. Qed.
Lemma kcx_pop_return : kcx pop_return.
Proof. kcx_prim0. Qed.
Lemma kcx_top_frame : kcx top_frame.
Proof. kcx_prim0. Qed.
Lemma kcx_push_loop l : kcx (push_loop l).
Proof. kcx_prim0. Qed.
Lemma kcx_pop_loop : kcx pop_loop.
Proof. kcx_prim0. Qed.
Lemma kcx_loop_next : kcx loop_next.
Proof. kcx_prim0. Qed.
Lemma kcx_loop_set_items c : kcx (loop_set_items c).
Proof. kcx_prim0. Qed.
Lemma kcx_push_special p : kcx (push_special p).
Proof. kcx_prim0. Qed.
Lemma kcx_pop_special : kcx pop_special.
Proof. kcx_prim0. Qed.
Lemma kcx_get_var a : kcx (get_var a).
Proof. kcx_prim0. Qed.
Lemma kcx_set_var a v : kcx (set_var a v).
Proof. kcx_prim0. Qed.
Lemma kcx_init_local i v : kcx (init_local i v).
Proof. kcx_prim0. Qed.
Lemma kcx_print msg : kcx (print msg).
Proof. kcx_prim0. Qed.

(* no rule for [set_ip] / [next_ip]: a word using them would get stuck *)
Ltac kcx_prim :=
  lazymatch goal with
  | |- kcx (ret _) => apply kcx_ret
  | |- kcx (fail _ _) => apply kcx_fail
  | |- kcx unsup => apply kcx_unsup
  | |- kcx panic => apply kcx_panic
  | |- kcx get => apply kcx_get
  | |- kcx (modify (fun s => set_stopping s _)) => apply kcx_set_stopping
  | |- kcx (push_data _) => apply kcx_push_data
  | |- kcx pop_data => apply kcx_pop_data
  | |- kcx top_data => apply kcx_top_data
  | |- kcx swap_data => apply kcx_swap_data
  | |- kcx rot_data => apply kcx_rot_data
  | |- kcx over_data => apply kcx_over_data
  | |- kcx (push_return _) => apply kcx_push_return
  | |- kcx pop_return => apply kcx_pop_return
  | |- kcx top_frame => apply kcx_top_frame
  | |- kcx (push_loop _) => apply kcx_push_loop
  | |- kcx pop_loop => apply kcx_pop_loop
  | |- kcx loop_next => apply kcx_loop_next
  | |- kcx (loop_set_items _) => apply kcx_loop_set_items
  | |- kcx (push_special _) => apply kcx_push_special
  | |- kcx pop_special => apply kcx_pop_special
  | |- kcx (get_var _) => apply kcx_get_var
  | |- kcx (set_var _ _) => apply kcx_set_var
  | |- kcx (init_local _ _) => apply kcx_init_local
  | |- kcx (print _) => apply kcx_print
  end.

Create HintDb kcxdb.

Ltac kcx_step :=
  cbv beta zeta;
  first
    [ kcx_prim
    | solve [ auto 2 with kcxdb nocore ]
    | lazymatch goal with
      | |- kcx (bind _ _) => apply kcx_bind; [ | intro ]
      | |- kcx (match ?x with _ => _ end) => destruct x
      | |- kcx ?m => let h := head_of m in unfold h
      end ].

Ltac kcx_solve := repeat kcx_step.

Lemma kcx_pop_n : forall n, kcx (pop_n n).
Proof. induction n; cbn [pop_n]; kcx_solve. Qed.
#[export] Hint Resolve kcx_pop_n : kcxdb.

Lemma kcx_push_all : forall l, kcx (push_all l).
Proof. induction l; cbn [push_all]; kcx_solve. Qed.
#[export] Hint Resolve kcx_push_all : kcxdb.

Lemma kcx_word_table : forall fo, Forall (fun nw => kcx (snd nw)) (word_table fo).
Proof.
  intro fo. unfold word_table.
  repeat (apply Forall_cons; [ cbn [snd]; kcx_solve | ]).
  apply Forall_nil.
Qed.

Lemma kcx_sized_word : forall fo name w, sized_word fo name = Some w -> kcx w.
Proof.
  intros fo name w H. unfold sized_word in H. cbv beta zeta in H.
  repeat match type of H with
         | context [if ?b then _ else _] =>
           destruct b; cbv beta iota in H;
           [ injection H as <-; kcx_solve | ]
         end.
  discriminate.
Qed.

Theorem native_kcx : forall fo w f, native_fn fo w = Some f -> kcx f.
Proof.
  intros fo w f H. unfold native_fn in H.
  destruct (table_find (word_table fo) w) eqn:E.
  - injection H as <-.
    eapply table_find_Forall with (P := fun m => kcx m); [ apply kcx_word_table | exact E ].
  - eapply kcx_sized_word; eauto.
Qed.

(* ---------- a failing instruction leaves ip where it was ---------- *)
(* [eip m]: when m fails, ip is what it was when m started *)
Definition eip {A} (m : M A) : Prop :=
  forall s, match m s with RErr _ _ s' => ip s' = ip s | _ => True end.

Lemma kcx_eip A (m : M A) : kcx m -> eip m.
Proof.
  intros H s. specialize (H s). destruct (m s); cbn [res_all] in *; auto.
  unfold ip. rewrite H. reflexivity.
Qed.

Lemma eip_bind A B (m : M A) (f : A -> M B) : kcx m -> (forall a, eip (f a)) -> eip (bind m f).
Proof.
  intros Hm Hf s. unfold bind. specialize (Hm s).
  destruct (m s) as [a s1|k p s1| |]; cbn [res_all] in *; auto.
  - specialize (Hf a s1). destruct (f a s1); auto. unfold ip in *. rewrite Hf, Hm. reflexivity.
  - unfold ip. rewrite Hm. reflexivity.
Qed.

Lemma eip_set_ip n : eip (set_ip n).
Proof. intros s. exact I. Qed.
Lemma eip_next_ip : eip next_ip.
Proof. intros s. exact I. Qed.
Lemma eip_fail A k p : eip (@fail A k p).
Proof. intros s. reflexivity. Qed.
Lemma eip_unsup A : eip (@unsup A).
Proof. intros s. exact I. Qed.

Ltac eip_step :=
  cbv beta zeta;
  first
    [ apply eip_set_ip
    | apply eip_next_ip
    | apply eip_fail
    | apply eip_unsup
    | lazymatch goal with
      | |- eip (bind _ _) => apply eip_bind; [ kcx_solve | intro ]
      | |- eip (match ?x with _ => _ end) => destruct x
      end ].

Lemma eip_exec_op : forall (nf : natives),
  (forall w f, nf w = Some f -> kcx f) ->
  forall ip0 op, eip (exec_op nf ip0 op).
Proof.
  intros nf Hnf ip0 op. destruct op; cbn [exec_op]; try (repeat eip_step; fail).
  destruct (nf w) eqn:E; [|apply eip_unsup].
  apply eip_bind; [eapply Hnf; exact E|intro; apply eip_next_ip].
Qed.

Section ErrIp.
  Variable nf : natives.
  Hypothesis Hk : forall w f, nf w = Some f -> kcx f.

  Theorem far_err_ip_gen : forall s k p s',
    fetch_and_run nf s = RErr k p s' -> ip s' = ip s.
  Proof.
    intros s k p s' H. pose proof (far_spec_holds nf s) as FS. rewrite H in FS.
    inversion FS as [ Hm | | op Hm Hn Hr Hx | name Hm Hn Hd | name e Hm Hn Hd Hm2 | name e Hm Hn Hd Hm2 Hx ];
      subst; try reflexivity.
    - pose proof (eip_exec_op nf Hk (ip s) op (set_meter s (meter s + 1)%Z)) as X.
      first [rewrite Hx in X | rewrite <- Hx in X]. exact X.
    - pose proof (eip_exec_op nf Hk (ip s) (resolve_op e)
                   (set_meter (set_code (set_meter s (meter s + 1)%Z)
                                        (list_set (code s) (ip s) (resolve_op e))) (meter s + 1 + 1)%Z)) as X.
      first [rewrite Hx in X | rewrite <- Hx in X]. exact X.
  Qed.
End ErrIp.

Theorem far_err_ip : forall fo s k p s',
  fetch_and_run (native_fn fo) s = RErr k p s' -> ip s' = ip s.
Proof. intros fo. apply far_err_ip_gen. apply native_kcx. Qed.

(* a failing [run] failed in one instruction step, taken from a running state reached by
   successful steps; ip stays at that instruction *)
Theorem run_err_step : forall nf fuel s k p s',
  run nf fuel s = Some (RErr k p s') ->
  exists n s1, steps nf n s = Some s1 /\ is_running s1 = true /\ fetch_and_run nf s1 = RErr k p s'.
Proof.
  intros nf. induction fuel as [|f IH]; intros s k p s' H; cbn [run] in H; [discriminate|].
  destruct (is_running s) eqn:Er; [|discriminate].
  destruct (fetch_and_run nf s) as [u s1|k1 p1 s1| |] eqn:E; try discriminate.
  - destruct (IH _ _ _ _ H) as (n & s2 & H1 & H2 & H3).
    exists (S n), s2. cbn [steps]. rewrite E. auto.
  - injection H as <- <- <-. exists 0, s. cbn [steps]. auto.
Qed.
