(* String literals: the escape semantics of lex_str, the reading of an arbitrary written
   string body (items), the print/read round trip, unterminated / unknown-escape errors. *)
From Xeh Require Import Model.Prelude Model.Bits Model.Cell Model.Lexer Model.Fmt.
From Xeh Require Import Proofs.LexLoc Proofs.LexBasic Proofs.LexNext Proofs.LexAll Proofs.LexPrintInt.
From Coq Require Import ZifyBool ZifyNat ZifyN.
Local Open Scope string_scope.

(* ---------- generic facts about lex_all / lex_next used by the new files ---------- *)

(* Lex::next never looks at the recorded start of the previous token *)
Lemma lex_next_lstart_irrel r p st st' n :
  lex_next (mklex r p st n) = lex_next (mklex r p st' n).
Proof. reflexivity. Qed.

Lemma str_drop_shorter k c r : 0 < k -> String.length (str_drop k (String c r)) < String.length (String c r).
Proof. intros H. rewrite str_drop_length. cbn [String.length]. lia. Qed.

(* one non-final step shortens the unread rest *)
Lemma lex_next_shrinks l t l' : lex_next l = (t, l') -> is_final t = false ->
  String.length (lrest l') < String.length (lrest l).
Proof.
  intros H Hf. destruct (lex_next_spec l t l' H) as (_ & _ & N3 & _).
  destruct N3 as [(E1 & _)|(A & P & _ & _)].
  - destruct t; discriminate.
  - destruct (P Hf) as [P1 P2]. destruct A as [A1 A2]. rewrite A2.
    destruct (lrest l) as [|c r]; [congruence|]. apply str_drop_shorter. lia.
Qed.

(* the token list does not depend on the fuel once there is enough of it *)
Lemma lex_all_fuel : forall f1 f2 l,
  String.length (lrest l) < f1 -> String.length (lrest l) < f2 -> lex_all f1 l = lex_all f2 l.
Proof.
  induction f1 as [|f1 IH]; intros f2 l H1 H2; [lia|].
  destruct f2 as [|f2]; [lia|]. rewrite !lex_all_S.
  destruct (lex_next l) as [t l'] eqn:Hn. destruct (is_final t) eqn:Et; [reflexivity|].
  pose proof (lex_next_shrinks l t l' Hn Et) as Hs. f_equal. apply IH; lia.
Qed.

(* the tokens from a lexer state on; [total] is the length of the whole text *)
Definition lex_from (rest : string) (pos total : nat) : list (tok * nat * nat) :=
  lex_all (S (String.length rest)) (mklex rest pos pos total).

Lemma lex_all_from f r p st n : String.length r < f -> lex_all f (mklex r p st n) = lex_from r p n.
Proof.
  intros Hf. unfold lex_from.
  rewrite (lex_all_fuel f (S (String.length r))) by (cbn [lrest]; lia).
  destruct r as [|c r]; cbn [String.length]; rewrite !lex_all_S, (lex_next_lstart_irrel _ p st p n); reflexivity.
Qed.

Lemma lex_string_from s : lex_string s = lex_from s 0 (String.length s).
Proof. reflexivity. Qed.

(* if the first token is not final, the list is that token followed by the tokens of the rest *)
Lemma lex_from_step r p n t r' p' st' n' :
  lex_next (mklex r p p n) = (t, mklex r' p' st' n') -> is_final t = false ->
  lex_from r p n = (t, st', p') :: lex_from r' p' n'.
Proof.
  intros H Hf. unfold lex_from at 1. rewrite lex_all_S, H, Hf. cbn [lstart lpos]. f_equal.
  apply lex_all_from. pose proof (lex_next_shrinks _ _ _ H Hf) as Hs. cbn [lrest] in Hs. lia.
Qed.

Lemma lex_from_final r p n t l' :
  lex_next (mklex r p p n) = (t, l') -> is_final t = true ->
  lex_from r p n = [(t, lstart l', lpos l')].
Proof. intros H Hf. unfold lex_from. rewrite lex_all_S, H, Hf. reflexivity. Qed.

Lemma lex_from_end p n : lex_from "" p n = [(TEnd, p, p)].
Proof. reflexivity. Qed.

(* ---------- escapes ---------- *)

(* the character an escape letter stands for *)
Definition escape_value (c : ascii) : option ascii :=
  let n := byte_of c in
  if (n =? 92)%N then Some c                      (* backslash *)
  else if (n =? 34)%N then Some c                 (* quote *)
  else if (n =? 110)%N then Some (ascii_of_N 10)  (* n *)
  else if (n =? 114)%N then Some (ascii_of_N 13)  (* r *)
  else if (n =? 116)%N then Some (ascii_of_N 9)   (* t *)
  else None.

Lemma byte_of_inj c n : byte_of c = n -> c = ascii_of_N n.
Proof. intros <-. unfold byte_of. symmetry. apply ascii_N_embedding. Qed.

Lemma esc_known c v : escape_value c = Some v ->
  forall A (k : string -> A) e, esc_dispatch (String c "") k e = k (String v "").
Proof.
  unfold escape_value. intros H A k e.
  destruct (byte_of c =? 92)%N eqn:E1.
  { injection H as <-. apply N.eqb_eq, byte_of_inj in E1. subst c. reflexivity. }
  destruct (byte_of c =? 34)%N eqn:E2.
  { injection H as <-. apply N.eqb_eq, byte_of_inj in E2. subst c. reflexivity. }
  destruct (byte_of c =? 110)%N eqn:E3.
  { injection H as <-. apply N.eqb_eq, byte_of_inj in E3. subst c. reflexivity. }
  destruct (byte_of c =? 114)%N eqn:E4.
  { injection H as <-. apply N.eqb_eq, byte_of_inj in E4. subst c. reflexivity. }
  destruct (byte_of c =? 116)%N eqn:E5.
  { injection H as <-. apply N.eqb_eq, byte_of_inj in E5. subst c. reflexivity. }
  discriminate.
Qed.

(* anything else after a backslash - any character, of any width - is rejected *)
Lemma esc_unknown c2 : (forall c, escape_value c <> None -> c2 <> String c "") ->
  forall A (k : string -> A) e, esc_dispatch c2 k e = e.
Proof.
  intros H A k e.
  destruct c2 as [|[[] [] [] [] [] [] [] []] [|? ?]]; try reflexivity;
    exfalso; eapply H; try reflexivity; vm_compute; discriminate.
Qed.

Lemma take_char_ascii c r : (byte_of c < 128)%N -> take_char (String c r) = Some (String c "", r).
Proof.
  intros H. unfold take_char. destruct (ascii_width c H) as [-> _]. reflexivity.
Qed.

Lemma escape_ascii c v : escape_value c = Some v -> (byte_of c < 128)%N.
Proof.
  unfold escape_value. intros H.
  destruct (byte_of c =? 92)%N eqn:E1; [lia|].
  destruct (byte_of c =? 34)%N eqn:E2; [lia|].
  destruct (byte_of c =? 110)%N eqn:E3; [lia|].
  destruct (byte_of c =? 114)%N eqn:E4; [lia|].
  destruct (byte_of c =? 116)%N eqn:E5; [lia|discriminate].
Qed.

(* a known escape contributes its character and two bytes *)
Lemma lex_str_escape curly f c v r pos tmp start endpos : escape_value c = Some v ->
  lex_str curly (S f) (String "\" (String c r)) pos tmp start endpos =
  lex_str curly f r (pos + 2) (tmp ++ String v "") start endpos.
Proof.
  intros H. rewrite lex_str_S. change (byte_of "\" =? 92)%N with true. cbv iota.
  rewrite (take_char_ascii c r (escape_ascii c v H)). cbv zeta.
  rewrite (esc_known c v H). cbn [String.length]. f_equal. lia.
Qed.

(* an unknown escape is an error whose span is the backslash and the character *)
Lemma lex_str_bad_escape curly f r c2 r2 pos tmp start endpos :
  take_char r = Some (c2, r2) -> (forall c, escape_value c <> None -> c2 <> String c "") ->
  lex_str curly (S f) (String "\" r) pos tmp start endpos =
  (TErr PEscape pos (S pos + String.length c2), r2, S pos + String.length c2).
Proof.
  intros Ht H. rewrite lex_str_S. change (byte_of "\" =? 92)%N with true. cbv iota.
  rewrite Ht. cbv zeta. rewrite (esc_unknown c2 H). reflexivity.
Qed.

Lemma lex_str_bad_escape_ascii curly f c r pos tmp start endpos :
  (byte_of c < 128)%N -> escape_value c = None ->
  lex_str curly (S f) (String "\" (String c r)) pos tmp start endpos = (TErr PEscape pos (pos + 2), r, pos + 2).
Proof.
  intros Ha H. rewrite (lex_str_bad_escape curly f (String c r) (String c "") r).
  - cbn [String.length]. replace (S pos + 1) with (pos + 2) by lia. reflexivity.
  - apply take_char_ascii. exact Ha.
  - intros c0 Hc0 E. injection E as ->. congruence.
Qed.

(* a backslash at the very end: unterminated *)
Lemma lex_str_trailing_backslash curly f pos tmp start endpos :
  lex_str curly (S f) "\" pos tmp start endpos = (TErr PUntermStr pos endpos, "", S pos).
Proof. reflexivity. Qed.

Lemma lex_str_end curly f pos tmp start endpos :
  lex_str curly (S f) "" pos tmp start endpos = (TErr PUntermStr pos endpos, "", pos).
Proof. reflexivity. Qed.

(* ---------- a written string body ---------- *)

(* a body is a sequence of: an ordinary byte, a three-byte character led by E2 (the lead byte of
   the curly quotes) - other than the closing curly quote when the literal was opened by a curly
   quote ([curly] = true); in a straight-opened literal the closing curly quote is an ordinary
   character of the body - or an escape *)
Inductive sitem :=
| SByte (c : ascii)
| SE2 (c1 c2 : ascii)
| SEsc (c : ascii).

Definition plain_byte (c : ascii) : bool :=
  let n := byte_of c in negb (n =? 92)%N && negb (n =? 34)%N && negb (n =? 226)%N.

Definition sitem_ok (curly : bool) (i : sitem) : bool :=
  match i with
  | SByte c => plain_byte c
  | SE2 c1 c2 => plain_byte c1 && plain_byte c2 &&
                 negb (curly && ((byte_of c1 =? 128)%N && (byte_of c2 =? 157)%N))
  | SEsc c => match escape_value c with Some _ => true | None => false end
  end.

Definition e2 : ascii := ascii_of_N 226.

Definition sitem_text (i : sitem) : string :=
  match i with
  | SByte c => String c ""
  | SE2 c1 c2 => String e2 (String c1 (String c2 ""))
  | SEsc c => String "\" (String c "")
  end.

Definition sitem_value (i : sitem) : string :=
  match i with
  | SByte c => String c ""
  | SE2 c1 c2 => String e2 (String c1 (String c2 ""))
  | SEsc c => match escape_value c with Some v => String v "" | None => "" end
  end.

Fixpoint sitems_text (l : list sitem) : string :=
  match l with [] => "" | i :: r => sitem_text i ++ sitems_text r end.
Fixpoint sitems_value (l : list sitem) : string :=
  match l with [] => "" | i :: r => sitem_value i ++ sitems_value r end.

(* the closing quote: straight, or curly if the literal was opened by a curly quote *)
Definition is_closer (curly : bool) (q : string) : Prop := q = String """" "" \/ (curly = true /\ q = rdq).

Lemma starts_rdq_false c r : (byte_of c =? 226)%N = false -> starts_rdq (String c r) = false.
Proof. intros H. destruct r as [|b [|d r]]; cbn [starts_rdq]; try reflexivity. rewrite H. reflexivity. Qed.

Lemma lex_str_plain curly f c r pos tmp start endpos : plain_byte c = true ->
  lex_str curly (S f) (String c r) pos tmp start endpos = lex_str curly f r (S pos) (tmp ++ String c "") start endpos.
Proof.
  unfold plain_byte. intros H. rewrite lex_str_S.
  replace (byte_of c =? 92)%N with false by lia. replace (byte_of c =? 34)%N with false by lia.
  rewrite starts_rdq_false by lia. rewrite andb_false_r. reflexivity.
Qed.

Lemma lex_str_e2 curly f c1 c2 r pos tmp start endpos :
  negb (curly && ((byte_of c1 =? 128)%N && (byte_of c2 =? 157)%N)) = true ->
  lex_str curly (S f) (String e2 (String c1 (String c2 r))) pos tmp start endpos =
  lex_str curly f (String c1 (String c2 r)) (S pos) (tmp ++ String e2 "") start endpos.
Proof.
  intros H. rewrite lex_str_S.
  change (byte_of e2 =? 92)%N with false. change (byte_of e2 =? 34)%N with false. cbv iota.
  assert (E : curly && starts_rdq (String e2 (String c1 (String c2 r))) = false).
  { cbn [starts_rdq]. change (byte_of e2 =? 226)%N with true. cbn [andb].
    destruct curly; [|reflexivity]. cbn [andb] in *.
    destruct (byte_of c1 =? 128)%N; [|reflexivity]. destruct (byte_of c2 =? 157)%N; [discriminate|reflexivity]. }
  rewrite E. reflexivity.
Qed.

Lemma lex_str_close curly f q rest pos tmp start endpos : is_closer curly q ->
  lex_str curly (S f) (q ++ rest) pos tmp start endpos =
  if next_is_ws_or_end rest then (TLit (CStr tmp), rest, pos + String.length q)
  else (TErr PExpectWs start (pos + String.length q), rest, pos + String.length q).
Proof.
  intros [->| [-> ->]].
  - cbn [append String.length]. rewrite lex_str_S.
    change (byte_of """" =? 92)%N with false. change (byte_of """" =? 34)%N with true. cbv iota zeta.
    replace (pos + 1) with (S pos) by lia. reflexivity.
  - rewrite lex_str_S. unfold rdq. cbn [append String.length].
    change (byte_of (ascii_of_N 226) =? 92)%N with false. change (byte_of (ascii_of_N 226) =? 34)%N with false.
    cbv iota. cbn [starts_rdq str_drop andb].
    change ((byte_of (ascii_of_N 226) =? 226)%N && (byte_of (ascii_of_N 128) =? 128)%N &&
            (byte_of (ascii_of_N 157) =? 157)%N) with true.
    cbv iota zeta. reflexivity.
Qed.

(* the fuel of lex_str is irrelevant once it exceeds the length of the text *)
Lemma esc_ext {A} c2 (k1 k2 : string -> A) e : (forall X, k1 X = k2 X) ->
  esc_dispatch c2 k1 e = esc_dispatch c2 k2 e.
Proof.
  intros H. destruct c2 as [|[[] [] [] [] [] [] [] []] [|? ?]]; try reflexivity; apply H.
Qed.

Lemma lex_str_fuel : forall curly f1 f2 s pos tmp start endpos,
  String.length s < f1 -> String.length s < f2 ->
  lex_str curly f1 s pos tmp start endpos = lex_str curly f2 s pos tmp start endpos.
Proof.
  intros curly. induction f1 as [|f1 IH]; intros f2 s pos tmp start endpos H1 H2; [lia|].
  destruct f2 as [|f2]; [lia|]. rewrite !lex_str_S.
  destruct s as [|c r]; [reflexivity|]. cbn [String.length] in H1, H2.
  destruct (byte_of c =? 92)%N.
  - destruct (take_char r) as [[c2 r2]|] eqn:Et; [|reflexivity]. cbv zeta.
    destruct (take_char_spec _ _ _ Et) as (k & K1 & K2 & K3).
    apply esc_ext. intros X. apply IH; subst r2; rewrite str_drop_length; lia.
  - destruct (byte_of c =? 34)%N; [reflexivity|].
    destruct (curly && starts_rdq (String c r)); [reflexivity|]. apply IH; lia.
Qed.

(* reading a written body: the value is the concatenation of the item values *)
Lemma lex_str_items_then : forall curly items f more pos tmp start endpos,
  forallb (sitem_ok curly) items = true -> String.length (sitems_text items ++ more) < f ->
  lex_str curly f (sitems_text items ++ more) pos tmp start endpos =
  lex_str curly f more (pos + String.length (sitems_text items)) (tmp ++ sitems_value items) start endpos.
Proof.
  intros curly. induction items as [|i items IH]; intros f more pos tmp start endpos Hok Hf.
  - cbn [sitems_text sitems_value append String.length]. rewrite app_nil_r_s, Nat.add_0_r. reflexivity.
  - cbn [forallb] in Hok. apply andb_prop in Hok. destruct Hok as [Hi Hok].
    cbn [sitems_text sitems_value] in *. rewrite !app_assoc_s in *. rewrite app_length_s in *.
    assert (Hm : String.length more <= String.length (sitems_text items ++ more)) by (rewrite app_length_s; lia).
    destruct f as [|f]; [lia|].
    destruct i as [c|c1 c2|c]; cbn [sitem_text sitem_value sitem_ok append String.length] in *.
    + rewrite lex_str_plain by exact Hi. rewrite IH; [|exact Hok|lia].
      rewrite (lex_str_fuel curly f (S f)) by lia.
      rewrite !app_assoc_s. cbn [append]. f_equal; lia.
    + apply andb_prop in Hi. destruct Hi as [Hi H3]. apply andb_prop in Hi. destruct Hi as [H1 H2].
      rewrite lex_str_e2 by exact H3.
      destruct f as [|f]; [lia|]. rewrite lex_str_plain by exact H1.
      destruct f as [|f]; [lia|]. rewrite lex_str_plain by exact H2.
      rewrite IH; [|exact Hok|lia].
      rewrite (lex_str_fuel curly f (S (S (S f)))) by lia.
      rewrite !app_assoc_s. cbn [append]. f_equal; lia.
    + destruct (escape_value c) as [v|] eqn:Ev; [|discriminate].
      rewrite (lex_str_escape curly f c v _ pos tmp start endpos Ev).
      rewrite IH; [|exact Hok|lia].
      rewrite (lex_str_fuel curly f (S f)) by lia.
      rewrite !app_assoc_s. cbn [append]. f_equal; lia.
Qed.

Lemma lex_str_items : forall curly items f q rest pos tmp start endpos,
  forallb (sitem_ok curly) items = true -> is_closer curly q ->
  String.length (sitems_text items ++ q ++ rest) < f ->
  lex_str curly f (sitems_text items ++ q ++ rest) pos tmp start endpos =
  let p' := pos + String.length (sitems_text items) + String.length q in
  if next_is_ws_or_end rest then (TLit (CStr (tmp ++ sitems_value items)), rest, p')
  else (TErr PExpectWs start p', rest, p').
Proof.
  intros curly items f q rest pos tmp start endpos Hok Hq Hf.
  rewrite lex_str_items_then by assumption.
  destruct f as [|f]; [lia|]. rewrite (lex_str_close curly f q rest _ _ start endpos Hq). reflexivity.
Qed.

(* the opening quote: straight ([curly] = false) or curly ([curly] = true) *)
Definition is_opener (curly : bool) (q : string) : Prop := q = if curly then ldq else String """" "".

(* Lex::next at an opening quote hands the text after it to the string scanner *)
Lemma lex_next_opener l curly qo r : is_opener curly qo -> lrest l = qo ++ r ->
  lex_next l =
  let '(t, rest, pos) := lex_str curly (S (String.length r)) r (lpos l + String.length qo) "" (lpos l) (llen l) in
  (t, mklex rest pos (lpos l) (llen l)).
Proof.
  intros Ho Hl. rewrite lex_next_unfold. cbv zeta. rewrite Hl.
  unfold is_opener in Ho. subst qo. destruct curly.
  2:{ cbn [append skip_ws]. change (is_ws """") with false. cbv iota. cbn [Nat.ltb Nat.leb].
    change (byte_of """" =? 34)%N with true. cbv iota. cbn [String.length].
    replace (lpos l + 1) with (S (lpos l)) by lia. reflexivity. }
  - change (ldq ++ r)
      with (String (ascii_of_N 226) (String (ascii_of_N 128) (String (ascii_of_N 156) r))).
    cbn [skip_ws].
    change (is_ws (ascii_of_N 226)) with false. cbv iota. cbn [Nat.ltb Nat.leb].
    change (byte_of (ascii_of_N 226) =? 34)%N with false. cbv iota.
    cbn [starts_ldq].
    change ((byte_of (ascii_of_N 226) =? 226)%N && (byte_of (ascii_of_N 128) =? 128)%N &&
            (byte_of (ascii_of_N 156) =? 156)%N) with true. cbv iota. cbn [str_drop].
    reflexivity.
Qed.

(* Lex::next on a quoted literal, in any lexer state *)
Lemma lex_next_string l curly qo items qc rest :
  is_opener curly qo -> is_closer curly qc -> forallb (sitem_ok curly) items = true ->
  lrest l = qo ++ sitems_text items ++ qc ++ rest ->
  let p' := lpos l + String.length qo + String.length (sitems_text items) + String.length qc in
  lex_next l = (if next_is_ws_or_end rest then TLit (CStr (sitems_value items))
                else TErr PExpectWs (lpos l) p',
                mklex rest p' (lpos l) (llen l)).
Proof.
  intros Ho Hc Hok Hl p'. rewrite lex_next_unfold. cbv zeta. rewrite Hl.
  unfold is_opener in Ho. subst qo. destruct curly.
  2:{ cbn [append skip_ws]. change (is_ws """") with false. cbv iota. cbn [Nat.ltb Nat.leb].
    change (byte_of """" =? 34)%N with true. cbv iota.
    rewrite lex_str_items; [|exact Hok|exact Hc|].
    2:{ lia. }
    cbv zeta. subst p'. cbn [String.length append].
    replace (S (lpos l) + String.length (sitems_text items) + String.length qc)
      with (lpos l + 1 + String.length (sitems_text items) + String.length qc) by lia.
    destruct (next_is_ws_or_end rest); reflexivity. }
  - change (ldq ++ sitems_text items ++ qc ++ rest)
      with (String (ascii_of_N 226) (String (ascii_of_N 128) (String (ascii_of_N 156) (sitems_text items ++ qc ++ rest)))).
    cbn [skip_ws].
    change (is_ws (ascii_of_N 226)) with false. cbv iota. cbn [Nat.ltb Nat.leb].
    change (byte_of (ascii_of_N 226) =? 34)%N with false. cbv iota.
    cbn [starts_ldq].
    change ((byte_of (ascii_of_N 226) =? 226)%N && (byte_of (ascii_of_N 128) =? 128)%N &&
            (byte_of (ascii_of_N 156) =? 156)%N) with true. cbv iota. cbn [str_drop].
    rewrite lex_str_items; [|exact Hok|exact Hc|].
    2:{ lia. }
    cbv zeta. subst p'. change (String.length ldq) with 3.
    destruct (next_is_ws_or_end rest); reflexivity.
Qed.

(* ---------- the printer's body is such a written body ---------- *)

Fixpoint print_items (s : string) : list sitem :=
  match s with
  | "" => []
  | String c r =>
    let n := byte_of c in
    (if (n =? 34)%N then SEsc c
     else if (n =? 92)%N then SEsc c
     else if (n =? 10)%N then SEsc "n"
     else if (n =? 13)%N then SEsc "r"
     else if (n =? 9)%N then SEsc "t"
     else SByte c) :: print_items r
  end.

Lemma fmt_str_body_items : forall s b, fmt_str_body s = Some b ->
  forall curly, forallb (sitem_ok curly) (print_items s) = true /\ sitems_text (print_items s) = b /\
  sitems_value (print_items s) = s.
Proof.
  induction s as [|c r IH]; intros b H curly; cbn [fmt_str_body] in H.
  - injection H as <-. repeat split.
  - destruct (fmt_str_body r) as [r'|] eqn:Er; [|discriminate].
    destruct (IH r' eq_refl curly) as (I1 & I2 & I3).
    cbn [print_items forallb sitems_text sitems_value]. rewrite I1, I2, I3.
    destruct (byte_of c =? 34)%N eqn:E1.
    { injection H as <-. apply N.eqb_eq, byte_of_inj in E1. subst c. repeat split. }
    destruct (byte_of c =? 92)%N eqn:E2.
    { injection H as <-. apply N.eqb_eq, byte_of_inj in E2. subst c. repeat split. }
    destruct (byte_of c =? 10)%N eqn:E3.
    { injection H as <-. apply N.eqb_eq, byte_of_inj in E3. subst c. repeat split. }
    destruct (byte_of c =? 13)%N eqn:E4.
    { injection H as <-. apply N.eqb_eq, byte_of_inj in E4. subst c. repeat split. }
    destruct (byte_of c =? 9)%N eqn:E5.
    { injection H as <-. apply N.eqb_eq, byte_of_inj in E5. subst c. repeat split. }
    destruct ((32 <=? byte_of c)%N && (byte_of c <? 127)%N) eqn:E6; [|discriminate].
    injection H as <-. cbn [sitem_ok sitem_text sitem_value append andb]. repeat split.
    unfold plain_byte. lia.
Qed.

Definition dq : string := String """" "".

(* the printed form of a string *)
Lemma fmt_cell_str f s b : fmt_str_body s = Some b ->
  (fl_fit f && (75 <? String.length s)%nat = false) -> fmt_cell f (CStr s) = Some (dq ++ b ++ dq).
Proof. intros H Hf. cbn [fmt_cell]. rewrite Hf, H. reflexivity. Qed.

(* print/read at the level of Lex::next, any state, any continuation *)
Lemma lex_next_printed_string l s b rest : fmt_str_body s = Some b ->
  lrest l = dq ++ b ++ dq ++ rest ->
  let p' := lpos l + String.length b + 2 in
  lex_next l = (if next_is_ws_or_end rest then TLit (CStr s) else TErr PExpectWs (lpos l) p',
                mklex rest p' (lpos l) (llen l)).
Proof.
  intros H Hl p'. destruct (fmt_str_body_items s b H false) as (I1 & I2 & I3).
  rewrite <- I2 in Hl.
  rewrite (lex_next_string l false dq (print_items s) dq rest eq_refl (or_introl eq_refl) I1 Hl).
  cbv zeta. rewrite I2, I3. subst p'. change (String.length dq) with 1.
  replace (lpos l + 1 + String.length b + 1) with (lpos l + String.length b + 2) by lia. reflexivity.
Qed.

Lemma print_read_str : forall s b, fmt_str_body s = Some b ->
  let txt := dq ++ b ++ dq in
  lex_string txt = [(TLit (CStr s), 0, String.length txt); (TEnd, String.length txt, String.length txt)].
Proof.
  intros s b H txt. apply lex_string_one_literal; [discriminate|].
  assert (Hl : lrest (lex_new txt) = dq ++ b ++ dq ++ "") by reflexivity.
  assert (El : String.length txt = String.length b + 2).
  { subst txt. rewrite !app_length_s. change (String.length dq) with 1. lia. }
  rewrite (lex_next_printed_string (lex_new txt) s b "" H Hl). cbv zeta.
  unfold lex_new. cbn [next_is_ws_or_end lpos llen Nat.add]. rewrite El. reflexivity.
Qed.

(* followed by whitespace (or nothing) and any further text: the literal is the first token
   and the lexer continues with the text after it *)
Lemma print_read_str_then : forall s b rest, fmt_str_body s = Some b ->
  next_is_ws_or_end rest = true ->
  let txt := dq ++ b ++ dq in
  lex_string (txt ++ rest) =
  (TLit (CStr s), 0, String.length txt) :: lex_from rest (String.length txt) (String.length (txt ++ rest)).
Proof.
  intros s b rest H Hr txt. rewrite lex_string_from.
  assert (Hl : lrest (mklex (txt ++ rest) 0 0 (String.length (txt ++ rest))) = dq ++ b ++ dq ++ rest).
  { cbn [lrest]. subst txt. rewrite !app_assoc_s. reflexivity. }
  pose proof (lex_next_printed_string _ s b rest H Hl) as Hn. cbv zeta in Hn. rewrite Hr in Hn.
  cbn [lpos llen Nat.add] in Hn.
  assert (El : String.length txt = String.length b + 2).
  { subst txt. rewrite !app_length_s. change (String.length dq) with 1. lia. }
  rewrite El. exact (lex_from_step _ _ _ _ _ _ _ _ Hn eq_refl).
Qed.

(* ---------- unterminated strings ---------- *)

(* a body without closing quote: error at the end of the text *)
Lemma lex_str_unterminated : forall curly items f pos tmp start endpos,
  forallb (sitem_ok curly) items = true -> String.length (sitems_text items) < f ->
  lex_str curly f (sitems_text items) pos tmp start endpos =
  (TErr PUntermStr (pos + String.length (sitems_text items)) endpos, "", pos + String.length (sitems_text items)).
Proof.
  intros curly items f pos tmp start endpos Hok Hf.
  rewrite <- (app_nil_r_s (sitems_text items)) at 1.
  rewrite lex_str_items_then; [|exact Hok|rewrite app_nil_r_s; exact Hf].
  destruct f as [|f]; [lia|]. reflexivity.
Qed.

Lemma lex_next_string_unterminated l curly qo items :
  is_opener curly qo -> forallb (sitem_ok curly) items = true -> lrest l = qo ++ sitems_text items ->
  let p' := lpos l + String.length qo + String.length (sitems_text items) in
  lex_next l = (TErr PUntermStr p' (llen l), mklex "" p' (lpos l) (llen l)).
Proof.
  intros Ho Hok Hl p'. rewrite (lex_next_opener l curly qo _ Ho Hl).
  rewrite lex_str_unterminated; [|exact Hok|lia]. reflexivity.
Qed.

(* an unknown escape after a well-formed prefix of the body: the error is the backslash and
   the (whole, possibly multi-byte) character after it *)
Lemma lex_next_string_bad_escape l curly qo items r c2 r2 :
  is_opener curly qo -> forallb (sitem_ok curly) items = true -> lrest l = qo ++ sitems_text items ++ String "\" r ->
  take_char r = Some (c2, r2) -> (forall c, escape_value c <> None -> c2 <> String c "") ->
  let p := lpos l + String.length qo + String.length (sitems_text items) in
  lex_next l = (TErr PEscape p (S p + String.length c2), mklex r2 (S p + String.length c2) (lpos l) (llen l)).
Proof.
  intros Ho Hok Hl Ht Hc p. rewrite (lex_next_opener l curly qo _ Ho Hl).
  rewrite lex_str_items_then; [|exact Hok|lia].
  rewrite (lex_str_bad_escape _ _ r c2 r2 _ _ _ _ Ht Hc). reflexivity.
Qed.

(* a backslash as the last character of the text *)
Lemma lex_next_string_trailing_backslash l curly qo items :
  is_opener curly qo -> forallb (sitem_ok curly) items = true -> lrest l = qo ++ sitems_text items ++ "\" ->
  let p := lpos l + String.length qo + String.length (sitems_text items) in
  lex_next l = (TErr PUntermStr p (llen l), mklex "" (S p) (lpos l) (llen l)).
Proof.
  intros Ho Hok Hl p. rewrite (lex_next_opener l curly qo _ Ho Hl).
  rewrite lex_str_items_then; [|exact Hok|lia]. reflexivity.
Qed.

(* the round trip stated on the printer itself: whatever fmt_cell prints for a string value
   (any flags) reads back as that value *)
Lemma print_read_str_cell : forall f s txt, fmt_cell f (CStr s) = Some txt ->
  lex_string txt = [(TLit (CStr s), 0, String.length txt); (TEnd, String.length txt, String.length txt)].
Proof.
  intros f s txt H. cbn [fmt_cell] in H.
  destruct (fl_fit f && (75 <? String.length s)%nat); [discriminate|].
  destruct (fmt_str_body s) as [b|] eqn:Eb; [|discriminate]. injection H as <-.
  exact (print_read_str s b Eb).
Qed.
