(* PackBuild.v: the whole chain of C07: a record built with the construction words and
   >bitstr, then opened and parsed back with the matching read words. *)
From Xeh Require Import Model.Prelude Model.Bits Model.Codec Model.Cell Model.Lexer Model.Fmt
                        Model.Vm Model.Words.
From Xeh Require Import Proofs.BitsBasic Proofs.BitsLists Proofs.BitsMirror Proofs.BitsProofs
                        Proofs.CodecBasic Proofs.CodecProofs Proofs.VmStep Proofs.CursorDefs
                        Proofs.CursorProofs Proofs.CursorProgress Proofs.PackDefs Proofs.PackProofs.
From Coq Require Import ZifyBool ZifyNat ZifyN.
Local Notation length := List.length.

#[local] Arguments Z.add : simpl never.
#[local] Arguments Z.sub : simpl never.
#[local] Arguments Z.mul : simpl never.
#[local] Arguments Z.ltb : simpl never.
#[local] Arguments Z.leb : simpl never.
#[local] Arguments Z.eqb : simpl never.
#[local] Arguments Z.of_nat : simpl never.
#[local] Arguments Z.to_nat : simpl never.
#[local] Arguments Z.pow : simpl never.

Definition field_pk_ok (f : field) : Prop :=
  match f with FInt w _ _ _ => (Z.of_nat w <= pack_limit)%Z | _ => True end.

Section Build.
  Variable fo : fops.

  (* one field: its argument is pushed and packed; its item is left on the stack *)
  Lemma push_field_ok s f :
    field_pk_ok f -> ds_len (cx s) <= length (ds s) ->
    limit_reached (stack_limit s) (length (ds s)) = false ->
    exists s', (push_data (field_arg fo f) ;; pack_word fo f) s = ROk tt s' /\
               ds s' = field_item fo f :: ds s /\ heap s' = heap s /\ sim s s'.
  Proof.
    intros Hpk Hmark Hroom.
    assert (Hwp : wp (push_data (field_arg fo f) ;; pack_word fo f) s
                     (fun _ s' => st s s' (field_item fo f :: ds s) (heap s))
                     (fun _ _ _ => False) False).
    { apply wp_bind. eapply wp_push_data_ok; [apply st_init|exact Hroom|]. intros s1 Hs1.
      destruct f as [w sg o v|o v|o v|b|t|l]; cbn [pack_word field_arg field_item pack_field] in *.
      - unfold field_pk_ok in Hpk. unfold pack_int. apply wp_bind.
        eapply wp_pop_data_ok; [exact Hs1|cbn [length]; lia|]. intros s2 Hs2.
        apply wp_bind. apply wp_m_xint.
        + intros z Hz. cbn [value] in Hz. injection Hz as <-.
          replace (pack_limit <? Z.of_nat w)%Z with false by lia. rewrite Nat2Z.id.
          eapply wp_push_data_ok; [exact Hs2|exact Hroom|]. auto.
        + intros Hn. exfalso. eapply Hn; reflexivity.
      - unfold pack_float. apply wp_bind.
        eapply wp_pop_data_ok; [exact Hs1|cbn [length]; lia|]. intros s2 Hs2.
        apply wp_bind. apply wp_m_real.
        + intros z Hz. cbn [value] in Hz. injection Hz as <-. change (32 =? 32)%Z with true. cbv iota.
          eapply wp_push_data_ok; [exact Hs2|exact Hroom|]. auto.
        + intros Hn. exfalso. eapply Hn; reflexivity.
      - unfold pack_float. apply wp_bind.
        eapply wp_pop_data_ok; [exact Hs1|cbn [length]; lia|]. intros s2 Hs2.
        apply wp_bind. apply wp_m_real.
        + intros z Hz. cbn [value] in Hz. injection Hz as <-.
          change (64 =? 32)%Z with false. change (64 =? 64)%Z with true. cbv iota.
          eapply wp_push_data_ok; [exact Hs2|exact Hroom|]. auto.
        + intros Hn. exfalso. eapply Hn; reflexivity.
      - apply wp_ret. exact Hs1.
      - apply wp_ret. exact Hs1.
      - apply wp_ret. exact Hs1. }
    apply wp_total in Hwp. destruct Hwp as ([] & s' & Hrun & Hd & Hh & Hs). eauto.
  Qed.

  Lemma push_fields_ok : forall fs s,
    Forall field_pk_ok fs -> ds_len (cx s) <= length (ds s) -> room s (length fs) ->
    exists s', push_fields fo fs s = ROk tt s' /\
               ds s' = (rev (map (field_item fo) fs) ++ ds s)%list /\ heap s' = heap s /\ sim s s'.
  Proof.
    induction fs as [|f fs IH]; intros s Hpk Hmark Hroom.
    - exists s. cbn [push_fields map rev app]. repeat split.
    - inversion Hpk as [|? ? Hf Hfs]; subst.
      assert (Hroom0 : limit_reached (stack_limit s) (length (ds s)) = false).
      { specialize (Hroom 0 ltac:(cbn [length]; lia)). rewrite Nat.add_0_r in Hroom. exact Hroom. }
      destruct (push_field_ok s f Hf Hmark Hroom0) as (s1 & Hrun1 & Hd1 & Hh1 & Hs1).
      assert (Hroom1 : room s1 (length fs)).
      { intros j Hj. rewrite (sim_slim _ _ Hs1), Hd1. cbn [length].
        specialize (Hroom (S j) ltac:(cbn [length]; lia)).
        replace (S (length (ds s)) + j) with (length (ds s) + S j) by lia. exact Hroom. }
      destruct (IH s1 Hfs ltac:(rewrite (sim_cx _ _ Hs1), Hd1; cbn [length]; lia) Hroom1)
        as (s' & Hrun & Hd' & Hh' & Hs').
      exists s'. split.
      + cbn [push_fields].
        change (push_data (field_arg fo f);; pack_word fo f;; push_fields fo fs)
          with (bind (push_data (field_arg fo f)) (fun _ => bind (pack_word fo f) (fun _ => push_fields fo fs))).
        revert Hrun1. unfold bind. destruct (push_data (field_arg fo f) s) as [u sa|k p sa| |]; try discriminate.
        intros Hrun1. rewrite Hrun1. exact Hrun.
      + split; [|split; [congruence|eapply sim_trans; eauto]].
        rewrite Hd', Hd1. cbn [map rev]. rewrite <- app_assoc. reflexivity.
  Qed.

  Lemma pop_n_ok : forall xs s0 s r h,
    st s0 s (xs ++ r) h -> ds_len (cx s0) <= length r ->
    wp (pop_n (length xs)) s (fun _ s' => st s0 s' r h) (fun _ _ _ => False) False.
  Proof.
    induction xs as [|x xs IH]; intros s0 s r h Hst Hmark; cbn [length pop_n].
    - apply wp_ret. exact Hst.
    - apply wp_bind. eapply (wp_pop_data_ok x (xs ++ r)); [exact Hst|cbn [length]; rewrite app_length; lia|].
      intros s1 Hs1. apply IH; auto.
  Qed.

  (* [ ... ] >bitstr over the construction words *)
  Theorem build_ok : forall fs s,
    Forall field_ok fs -> Forall field_pk_ok fs ->
    ds_len (cx s) <= length (ds s) -> ss_ptr (cx s) <= length (special s) ->
    (forall j, j <= length fs -> limit_reached (stack_limit s) (length (ds s) + j) = false) ->
    exists s' p, build fo fs s = ROk tt s' /\
                 ds s' = CBits p :: ds s /\ heap s' = heap s /\ sim s s' /\
                 wf p /\ abs p = fields_bits fo fs /\ clen p = total_width fs /\ cstart p = 0.
  Proof.
    intros fs s Hok Hpk Hmark Hsp Hroom.
    (* %vec-begin *)
    set (sA := set_special (add_rstep RPopSpecial s) (length (ds s) :: special s)).
    assert (HA : w_vec_begin s = ROk tt sA) by reflexivity.
    assert (HdA : ds sA = ds s) by (unfold sA; cbn [ds set_special]; apply ds_add_rstep).
    assert (HhA : heap sA = heap s) by (unfold sA; cbn [heap set_special]; apply heap_add_rstep).
    assert (HcA : core sA = set_special (core s) (length (ds s) :: special s)).
    { unfold sA. change (core (set_special (add_rstep RPopSpecial s) (length (ds s) :: special s)))
        with (set_special (core (add_rstep RPopSpecial s)) (length (ds s) :: special s)).
      rewrite core_add_rstep. reflexivity. }
    assert (HcxA : cx sA = cx s) by (apply (f_equal cx) in HcA; exact HcA).
    assert (HlA : stack_limit sA = stack_limit s) by (apply (f_equal stack_limit) in HcA; exact HcA).
    (* the fields *)
    destruct (push_fields_ok fs sA Hpk ltac:(rewrite HcxA, HdA; exact Hmark))
      as (sB & HB & HdB & HhB & HsB).
    { intros j Hj. rewrite HlA, HdA. apply Hroom. lia. }
    assert (HspB : special sB = length (ds s) :: special s).
    { pose proof (f_equal special HsB) as H. rewrite HcA in H. exact H. }
    (* %vec-end *)
    set (items := map (field_item fo) fs) in *.
    set (sC0 := set_special sB (special s)).
    assert (HC : exists sD, w_vec_end sB = ROk tt sD /\ ds sD = CVec items :: ds s /\
                            heap sD = heap s /\ sim s sD).
    { unfold w_vec_end.
      assert (Hpop : pop_special sB = ROk (Some (length (ds s))) (add_rstep (RPushSpecial (length (ds s))) sC0)).
      { unfold pop_special. rewrite HspB. rewrite (sim_cx _ _ HsB), HcxA. cbn [length].
        replace (ss_ptr (cx s) <? S (length (special s))) with true by lia. reflexivity. }
      set (sC := add_rstep (RPushSpecial (length (ds s))) sC0) in *.
      assert (HdC : ds sC = (rev items ++ ds s)%list).
      { unfold sC. rewrite ds_add_rstep. unfold sC0. cbn [ds set_special]. rewrite HdB, HdA. reflexivity. }
      assert (HhC : heap sC = heap s).
      { unfold sC. rewrite heap_add_rstep. unfold sC0. cbn [heap set_special]. congruence. }
      assert (HsC : sim s sC).
      { unfold sim, sC. rewrite core_add_rstep. unfold sC0.
        change (core (set_special sB (special s))) with (set_special (core sB) (special s)).
        unfold sim in HsB. rewrite HsB, HcA. reflexivity. }
      assert (Hwp : wp (let* v := vec_collect_till_ptr (length (ds s)) in push_data (CVec v)) sC
                       (fun _ s' => st s s' (CVec items :: ds s) (heap s)) (fun _ _ _ => False) False).
      { apply wp_bind. unfold vec_collect_till_ptr. apply wp_get. rewrite HdC.
        rewrite app_length, rev_length.
        replace (length items + length (ds s) <? length (ds s)) with false by lia.
        replace (length items + length (ds s) - length (ds s)) with (length (rev items))
          by (rewrite rev_length; lia).
        rewrite firstn_app_exact by reflexivity. rewrite rev_involutive.
        apply wp_bind. eapply wp_conseq; [apply (pop_n_ok (rev items) s sC (ds s) (heap s))| | |].
        - repeat split; auto.
        - exact Hmark.
        - intros u s1 Hs1. apply wp_ret. eapply wp_push_data_ok; [exact Hs1| |auto].
          specialize (Hroom 0 ltac:(lia)). rewrite Nat.add_0_r in Hroom. exact Hroom.
        - auto.
        - auto. }
      apply wp_total in Hwp. destruct Hwp as ([] & sD & HD & HdD & HhD & HsD).
      exists sD. split; [|auto]. unfold bind at 1. rewrite Hpop. exact HD. }
    destruct HC as (sD & HD & HdD & HhD & HsD).
    (* >bitstr *)
    destruct (into_bitstr_fields fo sD fs (CVec items) (ds s) Hok HdD eq_refl) as (s' & p & Hrun & Hd' & Hh' & Hs' & Hp).
    { rewrite (sim_cx _ _ HsD), HdD. cbn [length]. lia. }
    { rewrite (sim_slim _ _ HsD). specialize (Hroom 0 ltac:(lia)). rewrite Nat.add_0_r in Hroom. exact Hroom. }
    exists s', p. split.
    - unfold build, bind. rewrite HA, HB, HD. exact Hrun.
    - split; [exact Hd'|]. split; [congruence|]. split; [eapply sim_trans; eauto|exact Hp].
  Qed.

  (* the chain: build the record with the construction words, open it, read every field back
     with the matching word, ask for `remain` *)
  Theorem build_parse : forall fs s inp0 off0 v,
    cursor s inp0 off0 -> h_stash (heap s) = Some v ->
    Forall field_rd_ok fs -> (Z.of_nat (total_width fs) < two64)%Z ->
    ds_len (cx s) <= length (ds s) -> ss_ptr (cx s) <= length (special s) ->
    (forall j, j <= length fs -> limit_reached (stack_limit s) (length (ds s) + j) = false) ->
    exists s' vals e,
      (build fo fs ;; parse_back fo fs) s = ROk tt s' /\
      ds s' = (CInt 0 :: rev vals ++ ds s)%list /\ Forall2 (field_value fo) fs vals /\
      (exists p, cursor s' p (Z.of_nat (cend p)) /\ abs p = fields_bits fo fs /\
                 clen p = total_width fs) /\
      h_stash (heap s') = Some (v ++ [e])%list /\
      entry_input e = Some inp0 /\ entry_offset e = Some off0.
  Proof.
    intros fs s inp0 off0 v Hcur Hv Hrd Htw Hmark Hsp Hroom.
    assert (Hok : Forall field_ok fs).
    { eapply Forall_impl; [|exact Hrd]. intros f (H & _). exact H. }
    assert (Hpk : Forall field_pk_ok fs).
    { eapply Forall_impl; [|exact Hrd]. intros f (_ & H). destruct f as [w [|] o x| | | | |]; cbn; auto;
        unfold pack_limit; lia. }
    destruct (build_ok fs s Hok Hpk Hmark Hsp Hroom) as (s1 & p & Hrun1 & Hd1 & Hh1 & Hs1 & Hpw & Hpa & Hpl & Hpc).
    assert (Hcur1 : cursor s1 inp0 off0).
    { split; [eapply sim_notmeta; eauto; apply Hcur|]. rewrite Hh1. apply Hcur. }
    assert (Hcend : cend p = total_width fs).
    { unfold clen in Hpl. destruct Hpw as (? & _). lia. }
    destruct (roundtrip fo fs s1 inp0 off0 v (CBits p) (ds s) p Hcur1 ltac:(congruence) Hd1 eq_refl Hpw
                ltac:(lia) Hpa Hrd)
      as (s' & vals & e & Hrun & Hd' & Hvals & Hcur' & Hst' & He).
    { rewrite (sim_cx _ _ Hs1), Hd1. cbn [length]. lia. }
    { intros j Hj. rewrite (sim_slim _ _ Hs1). apply Hroom. exact Hj. }
    exists s', vals, e. split.
    - unfold bind at 1. rewrite Hrun1. exact Hrun.
    - split; [exact Hd'|]. split; [exact Hvals|]. split; [exists p; auto|]. split; [exact Hst'|exact He].
  Qed.
End Build.
