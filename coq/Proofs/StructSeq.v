(* StructSeq.v: sequencing.  The evaluation of a concatenation is the evaluation of the first
   part followed by the evaluation of the second part (with the exact fuel bookkeeping);
   an error (or a break) of a block is the error of its first statement that does not run to
   its end, reached after all the statements before it ran to their ends. *)
From Xeh Require Import Model.Prelude Model.Bits Model.Codec Model.Cell Model.Lexer Model.Fmt
                        Model.Vm Model.Words Model.Struct Proofs.StructBase Proofs.StructFuel.
Local Notation length := List.length.

(* a result that ends the evaluation of a block early *)
Definition stops (r : sres) : Prop :=
  match r with
  | SDone _ | SOut => False
  | _ => True
  end.

Lemma stops_not_out : forall r, stops r -> r <> SOut.
Proof. intros r St E. rewrite E in St. exact St. Qed.

Section Seq.
  Variable fo : fops.
  Variable funs : list (nat * list stmt).
  Notation sblock := (sblock fo funs).
  Notation sstmt := (sstmt fo funs).

  (* a block of n statements needs more than n units of fuel to run to its end *)
  Lemma sblock_done_fuel : forall l f s s', sblock f l s = SDone s' -> length l < f.
  Proof.
    induction l as [| x r IH]; intros f s s' H; destruct f as [| f]; try discriminate.
    - cbn [length]. lia.
    - rewrite sblock_cons in H. destruct (sstmt f x s) eqn:E; cbn [on_res] in H; try discriminate.
      apply IH in H. cbn [length]. lia.
  Qed.

  (* enough fuel to reach the second part *)
  Theorem sblock_app_exact : forall l1 f l2 s,
    length l1 < f ->
    sblock f (l1 ++ l2) s = on_res (sblock f l1 s) (fun s' => sblock (f - length l1) l2 s') SBroke.
  Proof.
    induction l1 as [| x r IH]; intros f l2 s Hf.
    - destruct f as [| f]; [ lia | ]. rewrite sblock_nil. cbn [on_res app length]. rewrite Nat.sub_0_r. reflexivity.
    - destruct f as [| f]; [ lia | ]. cbn [app length] in *. rewrite !sblock_cons, on_res_assoc.
      destruct (sstmt f x s); cbn [on_res]; try reflexivity.
      rewrite IH by lia. reflexivity.
  Qed.

  (* not enough fuel to reach the second part: it does not matter *)
  Theorem sblock_app_short : forall l1 f l2 s,
    f <= length l1 -> sblock f (l1 ++ l2) s = sblock f l1 s.
  Proof.
    induction l1 as [| x r IH]; intros f l2 s Hf.
    - cbn [length] in Hf. assert (f = 0) by lia. subst f. reflexivity.
    - destruct f as [| f]; [ reflexivity | ]. cbn [app length] in *. rewrite !sblock_cons.
      destruct (sstmt f x s); cbn [on_res]; try reflexivity.
      apply IH. lia.
  Qed.

  (* the first part ran to its end: the block continues with the second part *)
  Theorem sblock_app_done : forall f1 f2 l1 l2 s s1 r,
    sblock f1 l1 s = SDone s1 -> sblock f2 l2 s1 = r -> r <> SOut ->
    forall f, f1 + f2 <= f -> sblock f (l1 ++ l2) s = r.
  Proof.
    intros f1 f2 l1 l2 s s1 r H1 H2 N f Hf.
    pose proof (sblock_done_fuel _ _ _ _ H1) as L.
    rewrite sblock_app_exact by lia.
    rewrite (sblock_fuel_mono fo funs f1 l1 s _ H1) by (try discriminate; lia).
    cbn [on_res]. eapply sblock_fuel_mono; eauto. lia.
  Qed.

  (* the first part stopped (error, break, unsupported): so does the block, the same way *)
  Theorem sblock_app_stops : forall f1 l1 l2 s r,
    sblock f1 l1 s = r -> stops r -> forall f, f1 <= f -> sblock f (l1 ++ l2) s = r.
  Proof.
    intros f1 l1 l2 s r H1 St f Hf.
    assert (N : r <> SOut) by (apply stops_not_out; exact St).
    pose proof (sblock_fuel_mono fo funs f1 l1 s r H1 N f Hf) as H.
    destruct (Nat.lt_ge_cases (length l1) f) as [L | L].
    - rewrite sblock_app_exact by assumption. rewrite H. destruct r; cbn in *; try contradiction; reflexivity.
    - rewrite sblock_app_short by assumption. exact H.
  Qed.

  (* error = first error *)
  Theorem block_first_error : forall f1 f2 l1 x l2 s s1 k pl p s',
    sblock f1 l1 s = SDone s1 -> sstmt f2 x s1 = SFail k pl p s' ->
    forall f, f1 + S f2 <= f -> sblock f (l1 ++ x :: l2) s = SFail k pl p s'.
  Proof.
    intros f1 f2 l1 x l2 s s1 k pl p s' H1 H2 f Hf.
    eapply sblock_app_done; [ exact H1 | | discriminate | exact Hf ].
    rewrite sblock_cons, H2. reflexivity.
  Qed.

  Theorem block_first_stop : forall f1 f2 l1 x l2 s s1 r,
    sblock f1 l1 s = SDone s1 -> sstmt f2 x s1 = r -> stops r ->
    forall f, f1 + S f2 <= f -> sblock f (l1 ++ x :: l2) s = r.
  Proof.
    intros f1 f2 l1 x l2 s s1 r H1 H2 St f Hf.
    assert (N : r <> SOut) by (apply stops_not_out; exact St).
    eapply sblock_app_done; [ exact H1 | | exact N | exact Hf ].
    rewrite sblock_cons, H2. destruct r; cbn in *; try contradiction; reflexivity.
  Qed.

  (* conversely: a block that stops does so at one of its statements, after the statements
     before it ran to their ends, and with the result of that statement *)
  Theorem block_stop_inv : forall b f s r,
    sblock f b s = r -> stops r ->
    exists l1 x l2 s1,
      b = l1 ++ x :: l2 /\ length l1 < f /\ sblock f l1 s = SDone s1 /\
      sstmt (f - length l1 - 1) x s1 = r.
  Proof.
    induction b as [| x b IH]; intros f s r H St.
    - destruct f; cbn in H; subst r; contradiction.
    - destruct f as [| f]; [ cbn in H; subst r; contradiction | ].
      rewrite sblock_cons in H. destruct (sstmt f x s) as [s1 | s1 | k pl p s1 | |] eqn:E; cbn [on_res] in H.
      + destruct (IH f s1 r H St) as (l1 & y & l2 & s2 & Eb & L & D & F).
        exists (x :: l1), y, l2, s2. subst b. repeat split.
        * cbn [length]. lia.
        * rewrite sblock_cons, E. exact D.
        * cbn [length]. replace (S f - S (length l1) - 1) with (f - length l1 - 1) by lia. exact F.
      + exists [], x, b, s. cbn [length app]. repeat split; [ lia | ].
        replace (S f - 0 - 1) with f by lia. rewrite E. exact H.
      + exists [], x, b, s. cbn [length app]. repeat split; [ lia | ].
        replace (S f - 0 - 1) with f by lia. rewrite E. exact H.
      + subst r. contradiction.
      + exists [], x, b, s. cbn [length app]. repeat split; [ lia | ].
        replace (S f - 0 - 1) with f by lia. rewrite E. exact H.
  Qed.

  Corollary block_fail_inv : forall b f s k pl p s',
    sblock f b s = SFail k pl p s' ->
    exists l1 x l2 s1,
      b = l1 ++ x :: l2 /\ length l1 < f /\ sblock f l1 s = SDone s1 /\
      sstmt (f - length l1 - 1) x s1 = SFail k pl p s'.
  Proof. intros. eapply block_stop_inv; eauto. exact I. Qed.

  (* a block that ran to its end: both parts did *)
  Theorem sblock_app_done_inv : forall l1 l2 f s s',
    sblock f (l1 ++ l2) s = SDone s' ->
    exists s1, sblock f l1 s = SDone s1 /\ sblock (f - length l1) l2 s1 = SDone s'.
  Proof.
    intros l1 l2 f s s' H. pose proof (sblock_done_fuel _ _ _ _ H) as L.
    rewrite app_length in L. rewrite sblock_app_exact in H by lia.
    destruct (sblock f l1 s) as [s1 | | | |]; cbn [on_res] in H; try discriminate.
    exists s1. split; [ reflexivity | exact H ].
  Qed.

  (* every statement of a block that ran to its end ran to its end *)
  Corollary sblock_done_each : forall l1 x l2 f s s',
    sblock f (l1 ++ x :: l2) s = SDone s' ->
    exists s1 s2, sblock f l1 s = SDone s1 /\ sstmt (f - length l1 - 1) x s1 = SDone s2 /\
                  sblock (f - length l1 - 1) l2 s2 = SDone s'.
  Proof.
    intros l1 x l2 f s s' H. apply sblock_app_done_inv in H as (s1 & H1 & H2).
    exists s1. pose proof (sblock_done_fuel _ _ _ _ H2) as L. cbn [length] in L.
    destruct (f - length l1) as [| g] eqn:Eg; [ lia | ].
    rewrite sblock_cons in H2. replace (S g - 1) with g by lia.
    destruct (sstmt g x s1) as [s2 | | | |]; cbn [on_res] in H2; try discriminate.
    exists s2. auto.
  Qed.
End Seq.
