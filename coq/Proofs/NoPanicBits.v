(* NoPanicBits.v (C08 e): the bit-string library has no panic outcome in the model (reads
   outside a buffer return 0 through [nthb]); what corresponds to the Rust slice accesses
   is that, for a well-formed value, every byte index the iterators touch is inside the
   buffer.  The constructors produce well-formed values (BitsProofs / CodecProofs). *)
From Xeh Require Import Model.Prelude Model.Bits Model.Codec.
From Xeh Require Import Proofs.BitsBasic Proofs.BitsKernel Proofs.BitsLists Proofs.BitsMirror
                        Proofs.BitsProofs Proofs.CodecProofs.
From Coq Require Import ZifyBool ZifyNat ZifyN.
Local Ltac Zify.zify_post_hook ::= Z.div_mod_to_equations.

(* a bit of the range lives in a byte of the buffer: Bits::next, data[pos / 8] *)
Theorem bit_index_safe : forall c i, wf c -> cstart c <= i < cend c -> i / 8 < length (cdata c).
Proof. intros c i (H1 & H2 & _) Hi. lia. Qed.

(* the byte indices [bits] reads *)
Theorem bits_index_safe : forall c, wf c ->
  Forall (fun i => i / 8 < length (cdata c)) (seq (cstart c) (clen c)).
Proof.
  intros c Hc. rewrite Forall_forall. intros i Hi. apply in_seq in Hi.
  apply bit_index_safe; [exact Hc|]. unfold clen in Hi. destruct Hc as (H1 & _). lia.
Qed.

(* the byte indices Iter8::next reads, following [iter8_go]: data[idx], and data[idx + 1]
   when the group crosses a byte boundary (the bit count of cut_bits does not depend on
   the byte it is given) *)
Fixpoint iter8_reads (e fuel pos : nat) : list nat :=
  match fuel with
  | O => []
  | S f =>
    if e <=? pos then [] else
    let len := Nat.min (e - pos) 8 in
    let idx := pos / 8 in
    let n := snd (cut_bits 0 pos (pos + len)) in
    (idx :: (if n <? len then [idx + 1] else [])) ++ iter8_reads e f (pos + len)
  end.

Lemma cut_bits_count x y s e : snd (cut_bits x s e) = snd (cut_bits y s e).
Proof. reflexivity. Qed.

Lemma iter8_reads_safe : forall (d : list N) e fuel pos, e <= 8 * length d ->
  Forall (fun i => i < length d) (iter8_reads e fuel pos).
Proof.
  intros d e. induction fuel as [|f IH]; intros pos He; cbn [iter8_reads]; [constructor|].
  destruct (e <=? pos) eqn:E; [constructor|]. cbv zeta.
  apply Forall_app. split; [|apply IH; exact He].
  unfold cut_bits. cbn [snd].
  constructor; [lia|].
  destruct (Nat.min (pos + Nat.min (e - pos) 8 - pos) (8 - pos mod 8) <? Nat.min (e - pos) 8) eqn:E2;
    [|constructor].
  constructor; [lia|constructor].
Qed.

Theorem iter8_index_safe : forall c, wf c ->
  Forall (fun i => i < length (cdata c)) (iter8_reads (cend c) (clen c) (cstart c)).
Proof. intros c (H1 & H2 & _). apply iter8_reads_safe. exact H2. Qed.

(* slice / bytes_of: &data[start / 8 .. upper_bound_index(end)] is a valid range *)
Theorem bytes_range_safe : forall c, wf c ->
  cstart c / 8 <= ubi (cend c) /\ ubi (cend c) <= length (cdata c).
Proof.
  intros c (H1 & H2 & _). split.
  - pose proof (ubi_ge (cend c)). lia.
  - apply ubi_le. exact H2.
Qed.

(* to_uint / to_int / to_fbits / eq_with / to_hex_digits read the buffer only through iter8;
   the constructors give well-formed values *)
Theorem from_int_wf' : forall v w o, wf (from_int v w o).
Proof. intros v w o. exact (proj1 (from_int_wf v w o)). Qed.

Theorem detach_wf : forall u c, wf c -> wf (detach u c).
Proof. intros u c H. exact (proj1 (detach_spec u c H)). Qed.

Theorem append_wf : forall u c t, wf c -> wf t -> wf (Bits.append u c t).
Proof. intros u c t H1 H2. exact (proj1 (append_spec u c t H1 H2)). Qed.

Theorem invert_wf : forall u c, wf c -> wf (invert u c).
Proof. intros u c H. exact (proj1 (invert_spec u c H)). Qed.

Theorem from_bytes_wf : forall d, Forall (fun x => (x < 256)%N) d -> wf (from_bytes d).
Proof. intros d H. unfold from_bytes. apply wf_mk; [lia|lia|exact H]. Qed.

Theorem of_bools_wf : forall l, wf (of_bools l).
Proof. intros l. exact (proj1 (of_bools_spec l)). Qed.
