(* Locality of the lexer: a token that ends inside a text does not depend on what follows the
   text, provided whitespace (or nothing) follows.  Consequence: the tokens of a ++ X are those
   of a followed by those of X, and blank material between two texts is transparent in context. *)
From Xeh Require Import Model.Prelude Model.Bits Model.Cell Model.Lexer Model.Fmt.
From Xeh Require Import Proofs.LexLoc Proofs.LexBasic Proofs.LexNext Proofs.LexNum Proofs.LexAll Proofs.LexPrintInt
  Proofs.LexStr Proofs.LexMoreNum Proofs.LexMoreCmt Proofs.LexMoreShift.
From Coq Require Import ZifyBool ZifyNat ZifyN.
Local Open Scope string_scope.

Lemma ws_not c n : is_ws c = true -> (n =? 92)%N = true \/ (n =? 41)%N = true -> (byte_of c =? n)%N = false.
Proof. unfold is_ws. intros H [E|E]; lia. Qed.

Section Local.
  Variable X : string.
  Hypothesis HX : next_is_ws_or_end X = true.

  Lemma str_drop_app : forall k s, k <= String.length s -> str_drop k (s ++ X) = str_drop k s ++ X.
  Proof.
    induction k as [|k IH]; intros s H; [reflexivity|].
    destruct s as [|c s]; [cbn [String.length] in H; lia|]. cbn [append str_drop]. apply IH.
    cbn [String.length] in H. lia.
  Qed.

  Lemma str_take_app : forall k s, k <= String.length s -> str_take k (s ++ X) = str_take k s.
  Proof.
    induction k as [|k IH]; intros s H; [reflexivity|].
    destruct s as [|c s]; [cbn [String.length] in H; lia|]. cbn [append str_take]. rewrite IH; [reflexivity|].
    cbn [String.length] in H. lia.
  Qed.

  Lemma nwe_app r : next_is_ws_or_end r = true -> next_is_ws_or_end (r ++ X) = true.
  Proof. destruct r as [|c r]; [intros _; exact HX|]. cbn [append next_is_ws_or_end]. auto. Qed.

  Lemma skip_ws_app : forall u n r0 k, skip_ws u n = (r0, k) -> r0 <> "" ->
    skip_ws (u ++ X) n = (r0 ++ X, k).
  Proof.
    induction u as [|c u IH]; intros n r0 k H Hne; cbn [skip_ws] in H.
    - injection H as <- <-. congruence.
    - cbn [append skip_ws]. destruct (is_ws c) eqn:Ec.
      + apply IH; assumption.
      + injection H as <- <-. reflexivity.
  Qed.

  (* ---------- strings ---------- *)

  Lemma esc_inv c2 :
    (exists c v, c2 = String c "" /\ escape_value c = Some v) \/
    (forall c, escape_value c <> None -> c2 <> String c "").
  Proof.
    destruct c2 as [|a [|b r]].
    - right. intros c _ E. discriminate.
    - destruct (escape_value a) as [v|] eqn:Ea.
      + left. exists a, v. auto.
      + right. intros c Hc E. injection E as <-. congruence.
    - right. intros c _ E. discriminate.
  Qed.

  Lemma take_char_one r c0 r2 : take_char r = Some (String c0 "", r2) -> (byte_of c0 < 128)%N ->
    r = String c0 r2.
  Proof.
    destruct r as [|x r']; [discriminate|]. unfold take_char. intros H Ha.
    pose proof (utf8_width_pos x) as Hw. destruct (utf8_width x) as [|k] eqn:Ek; [lia|].
    cbn [str_take str_drop] in H. injection H as E1 E2 E3. subst x.
    destruct (ascii_width c0 Ha) as [W _]. rewrite W in Ek. injection Ek as <-.
    cbn [str_drop] in E3. subst r2. reflexivity.
  Qed.

  Lemma starts_rdq_app s : starts_rdq (s ++ X) = starts_rdq s.
  Proof.
    destruct s as [|a [|b [|c r]]]; cbn [append starts_rdq]; try reflexivity.
    - destruct X as [|x0 [|x1 [|x2 X']]]; cbn [starts_rdq]; try reflexivity.
      cbn [next_is_ws_or_end] in HX. unfold is_ws in HX.
      replace (byte_of x0 =? 226)%N with false by lia. reflexivity.
    - destruct X as [|x0 [|x1 X']]; cbn [starts_rdq]; try reflexivity;
      cbn [next_is_ws_or_end] in HX; unfold is_ws in HX;
      replace (byte_of x0 =? 128)%N with false by lia; rewrite andb_false_r; reflexivity.
    - destruct X as [|x0 X']; cbn [starts_rdq]; try reflexivity.
      cbn [next_is_ws_or_end] in HX. unfold is_ws in HX.
      replace (byte_of x0 =? 157)%N with false by lia. rewrite andb_false_r. reflexivity.
  Qed.

  Lemma lex_str_app : forall curly f f' s pos tmp start e1 e2 v s' p',
    lex_str curly f s pos tmp start e1 = (TLit v, s', p') -> String.length (s ++ X) < f' ->
    lex_str curly f' (s ++ X) pos tmp start e2 = (TLit v, s' ++ X, p').
  Proof.
    intros curly. induction f as [|f IH]; intros f' s pos tmp start e1 e2 v s' p' H Hf; [discriminate|].
    destruct f' as [|f']; [lia|]. rewrite lex_str_S in H. rewrite lex_str_S.
    destruct s as [|c r]; [discriminate|]. cbn [append String.length] in *.
    destruct (byte_of c =? 92)%N.
    - destruct (take_char r) as [[c2 r2]|] eqn:Et; [|discriminate]. cbv zeta in H.
      destruct (esc_inv c2) as [(c0 & v0 & -> & Ev)|Hun].
      + rewrite (esc_known c0 v0 Ev) in H.
        pose proof (take_char_one r c0 r2 Et (escape_ascii c0 v0 Ev)) as ->.
        cbn [append]. rewrite (take_char_ascii c0 (r2 ++ X) (escape_ascii c0 v0 Ev)). cbv zeta.
        rewrite (esc_known c0 v0 Ev). eapply IH; [exact H|].
        cbn [append String.length] in Hf. lia.
      + rewrite (esc_unknown c2 Hun) in H. discriminate.
    - destruct (byte_of c =? 34)%N.
      + cbv zeta in *. destruct (next_is_ws_or_end r) eqn:En; [|discriminate].
        injection H as <- <- <-. rewrite (nwe_app r En). reflexivity.
      + change (String c (r ++ X)) with (String c r ++ X). rewrite starts_rdq_app.
        destruct (curly && starts_rdq (String c r)) eqn:Er'.
        * apply andb_prop in Er'. destruct Er' as [_ Er]. cbv zeta in *. rewrite str_drop_app by (apply starts_rdq_len; exact Er).
          destruct (next_is_ws_or_end (str_drop 3 (String c r))) eqn:En; [|discriminate].
          injection H as <- <- <-. rewrite (nwe_app _ En). reflexivity.
        * eapply IH; [exact H|lia].
  Qed.

  (* ---------- bit-strings ---------- *)

  Lemma lex_bits_app : forall s pos b e1 e2 v s' p',
    lex_bits s pos b e1 = (TLit v, s', p') -> lex_bits (s ++ X) pos b e2 = (TLit v, s' ++ X, p').
  Proof.
    induction s as [|c r IH]; intros pos b e1 e2 v s' p' H; cbn [lex_bits] in H; [discriminate|].
    cbn [append lex_bits].
    destruct (hex_digit c); [eapply IH; exact H|].
    destruct (is_ws c); [eapply IH; exact H|].
    destruct (byte_of c =? 46)%N; [eapply IH; exact H|].
    destruct (byte_of c =? 120)%N; [eapply IH; exact H|].
    destruct (byte_of c =? 124)%N; [|discriminate].
    injection H as <- <- <-. reflexivity.
  Qed.

  (* ---------- words, numbers, comments ---------- *)

  Lemma scan_word_app : forall s n num tmp dot r4 n4 tmp' dot',
    scan_word s n num tmp dot = (r4, n4, tmp', dot') ->
    scan_word (s ++ X) n num tmp dot = (r4 ++ X, n4, tmp', dot').
  Proof.
    induction s as [|c s IH]; intros n num tmp dot r4 n4 tmp' dot' H; cbn [scan_word] in H.
    - injection H as <- <- <- <-. cbn [append]. apply scan_word_stop. exact HX.
    - cbn [append scan_word]. destruct (is_ws c).
      + injection H as <- <- <- <-. reflexivity.
      + cbv zeta in *. apply IH. exact H.
  Qed.

  Lemma skip_line_app : forall s n r5 n5, skip_line s n = (r5, n5) -> r5 <> "" ->
    skip_line (s ++ X) n = (r5 ++ X, n5).
  Proof.
    induction s as [|c s IH]; intros n r5 n5 H Hne; cbn [skip_line] in H.
    - injection H as <- <-. congruence.
    - cbn [append skip_line]. destruct (byte_of c =? 10)%N.
      + injection H as <- <-. reflexivity.
      + apply IH; assumption.
  Qed.

  Lemma closes_here_app s : s <> "" -> closes_here (s ++ X) = closes_here s.
  Proof.
    intros Hne. destruct s as [|c [|c1 [|c2 [|c3 r]]]]; [congruence| | | |]; cbn [append closes_here].
    - destruct X as [|x0 [|x1 X']]; try reflexivity. cbn [next_is_ws_or_end] in HX.
      rewrite (ws_not x0 92 HX (or_introl eq_refl)). rewrite andb_false_r. reflexivity.
    - destruct X as [|x0 X']; try reflexivity. cbn [next_is_ws_or_end] in HX.
      rewrite (ws_not x0 41 HX (or_intror eq_refl)). rewrite andb_false_r. reflexivity.
    - rewrite HX. reflexivity.
    - reflexivity.
  Qed.

  Lemma first_close_app : forall s i, first_close s = Some i -> first_close (s ++ X) = Some i.
  Proof.
    induction s as [|c r IH]; intros i H; [discriminate|].
    cbn [first_close] in H. cbn [append first_close].
    change (String c (r ++ X)) with (String c r ++ X). rewrite closes_here_app by discriminate.
    destruct (closes_here (String c r)); [exact H|].
    destruct (first_close r) as [k|] eqn:Ek; [|discriminate]. rewrite (IH k eq_refl). exact H.
  Qed.

  Lemma num_stage1_app c r1 p1 np tmp0 r2 p2 :
    num_stage1 c r1 p1 = (np, tmp0, r2, p2) -> num_stage1 c (r1 ++ X) p1 = (np, tmp0, r2 ++ X, p2).
  Proof.
    unfold num_stage1. destruct (is_digit c); [intros H; injection H as <- <- <- <-; reflexivity|].
    destruct ((byte_of c =? 45)%N || (byte_of c =? 43)%N); [|intros H; injection H as <- <- <- <-; reflexivity].
    destruct r1 as [|c2 r1'].
    - intros H. injection H as <- <- <- <-. cbn [append].
      destruct X as [|x0 X']; [reflexivity|]. cbn [next_is_ws_or_end] in HX.
      assert (E : is_digit x0 = false) by (unfold is_digit, is_ws in *; lia). rewrite E. reflexivity.
    - cbn [append]. destruct (is_digit c2); intros H; injection H as <- <- <- <-; reflexivity.
  Qed.

  Lemma num_stage2_app is0 tmp0 r2 p2 radix tmp1 r3 p3 :
    num_stage2 is0 tmp0 r2 p2 = (radix, tmp1, r3, p3) ->
    num_stage2 is0 tmp0 (r2 ++ X) p2 = (radix, tmp1, r3 ++ X, p3).
  Proof.
    unfold num_stage2. destruct is0; [|intros H; injection H as <- <- <- <-; reflexivity].
    destruct r2 as [|c3 r2'].
    - intros H. injection H as <- <- <- <-. cbn [append].
      destruct X as [|x0 X']; [reflexivity|]. cbn [next_is_ws_or_end] in HX. unfold is_ws in HX.
      replace (byte_of x0 =? 98)%N with false by lia. replace (byte_of x0 =? 120)%N with false by lia.
      replace (byte_of x0 =? 111)%N with false by lia. reflexivity.
    - cbn [append]. destruct (byte_of c3 =? 98)%N; [intros H; injection H as <- <- <- <-; reflexivity|].
      destruct (byte_of c3 =? 120)%N; [intros H; injection H as <- <- <- <-; reflexivity|].
      destruct (byte_of c3 =? 111)%N; intros H; injection H as <- <- <- <-; reflexivity.
  Qed.

  Lemma word_finish_app u p stA nA stB nB np radix tmp1 r3 p3 t lA' :
    advx u p r3 p3 ->
    word_finish (mklex u p stA nA) np radix tmp1 r3 p3 = (t, lA') -> is_final t = false ->
    ~ (lrest lA' = "" /\ is_blank_tok t = true) ->
    word_finish (mklex (u ++ X) p stB nB) np radix tmp1 (r3 ++ X) p3 =
    (t, mklex (lrest lA' ++ X) (lpos lA') p nB).
  Proof.
    intros (k0 & K0 & -> & ->). unfold word_finish. cbv zeta. cbn [lpos lrest llen].
    destruct (scan_word (str_drop k0 u) 0 (numeric_of np) tmp1 false) as [[[r4 n4] tmp] has_dot] eqn:Esw.
    rewrite (scan_word_app _ _ _ _ _ _ _ _ _ Esw).
    destruct (scan_word_spec _ _ _ _ _ _ _ _ _ Esw) as (k & K1 & K2 & K3 & _ & _).
    cbn [Nat.add] in K2. subst n4. rewrite str_drop_length in K1.
    replace (p + k0 + k - p) with (k0 + k) by lia.
    rewrite str_take_app by lia.
    destruct (negb (numeric_of np)).
    - destruct (String.eqb (str_take (k0 + k) u) "\").
      + destruct (skip_line r4 0) as [r5 n5] eqn:Esl. intros H Hf Hnb. injection H as <- <-.
        cbn [lrest lpos] in *. destruct r5 as [|c5 r5'] eqn:E5; [exfalso; apply Hnb; auto|]. rewrite <- E5 in *.
        rewrite (skip_line_app _ _ _ _ Esl) by (rewrite E5; discriminate). reflexivity.
      + destruct (String.eqb (str_take (k0 + k) u) "\(").
        * rewrite !skip_mlc_spec_exact by (rewrite ?app_length_s; lia). unfold mlc_result.
          destruct (first_close r4) as [i|] eqn:Ei.
          2:{ intros H Hf _. injection H as <- <-. discriminate. }
          intros H Hf Hnb. injection H as <- <-. cbn [lrest lpos] in *.
          rewrite (first_close_app r4 i Ei).
          assert (Hi : i + 4 < String.length r4).
          { destruct (Nat.lt_ge_cases (i + 4) (String.length r4)) as [L|L]; [exact L|].
            exfalso. apply Hnb. split; [apply str_drop_all; exact L|reflexivity]. }
          rewrite str_drop_app by lia. rewrite app_length_s.
          rewrite !Nat.min_l by lia. reflexivity.
        * intros H Hf _. injection H as <- <-. reflexivity.
    - destruct has_dot.
      + destruct radix; intros H Hf _; injection H as <- <-; reflexivity.
      + destruct (int_from_str_radix tmp _); intros H Hf _; injection H as <- <-; reflexivity.
  Qed.

  Lemma lex_word_app c r p stA nA stB nB t lA' :
    valid_go (String c r) 0 = true ->
    lex_word (mklex (String c r) p stA nA) c = (t, lA') -> is_final t = false ->
    ~ (lrest lA' = "" /\ is_blank_tok t = true) ->
    lex_word (mklex (String c r ++ X) p stB nB) c = (t, mklex (lrest lA' ++ X) (lpos lA') p nB).
  Proof.
    intros Hv. unfold lex_word. cbv zeta. cbn [lpos lrest].
    destruct (valid_first_char c r Hv) as (V1 & _ & _).
    rewrite str_drop_app by exact V1.
    destruct (num_stage1 c (str_drop (utf8_width c) (String c r)) (p + utf8_width c))
      as [[[np tmp0] r2] p2] eqn:E1.
    rewrite (num_stage1_app _ _ _ _ _ _ _ E1).
    destruct (num_stage2 (is0_of np) tmp0 r2 p2) as [[[radix tmp1] r3] p3] eqn:E2.
    rewrite (num_stage2_app _ _ _ _ _ _ _ _ E2).
    destruct (num_stage1_spec _ _ _ _ _ _ _ E1) as [A1 _].
    destruct (num_stage2_spec _ _ _ _ _ _ _ _ E2) as [A2 _].
    apply word_finish_app.
    eapply advx_trans; [apply (advx_drop (String c r) p (utf8_width c) V1)|].
    eapply advx_trans; eassumption.
  Qed.

  Lemma starts_ldq_app s : starts_ldq (s ++ X) = starts_ldq s.
  Proof.
    destruct s as [|a [|b [|c r]]]; cbn [append starts_ldq]; try reflexivity.
    - destruct X as [|x0 [|x1 [|x2 X']]]; cbn [starts_ldq]; try reflexivity.
      cbn [next_is_ws_or_end] in HX. unfold is_ws in HX.
      replace (byte_of x0 =? 226)%N with false by lia. reflexivity.
    - destruct X as [|x0 [|x1 X']]; cbn [starts_ldq]; try reflexivity;
      cbn [next_is_ws_or_end] in HX; unfold is_ws in HX;
      replace (byte_of x0 =? 128)%N with false by lia; rewrite andb_false_r; reflexivity.
    - destruct X as [|x0 X']; cbn [starts_ldq]; try reflexivity.
      cbn [next_is_ws_or_end] in HX. unfold is_ws in HX.
      replace (byte_of x0 =? 156)%N with false by lia. rewrite andb_false_r. reflexivity.
  Qed.

  (* one step: the same token, the same position, the rest extended by X *)
  Lemma lex_next_app u p stA nA stB nB t lA' :
    valid_go u 0 = true ->
    lex_next (mklex u p stA nA) = (t, lA') -> is_final t = false ->
    ~ (lrest lA' = "" /\ is_blank_tok t = true) ->
    lex_next (mklex (u ++ X) p stB nB) = (t, mklex (lrest lA' ++ X) (lpos lA') p nB).
  Proof.
    intros Hv. rewrite !lex_next_unfold. cbv zeta. cbn [lrest lpos llen].
    destruct (skip_ws u 0) as [r0 nws] eqn:Ews.
    destruct (skip_ws_spec _ _ _ _ Ews) as (k & K1 & K2 & K3 & _ & K5). cbn [Nat.add] in K2. subst nws.
    destruct (0 <? k)%nat eqn:Ek.
    { intros H Hf Hnb. injection H as <- <-. cbn [lrest lpos] in *.
      destruct r0 as [|c0 r0'] eqn:E0; [exfalso; apply Hnb; auto|]. rewrite <- E0 in *.
      rewrite (skip_ws_app _ _ _ _ Ews) by (rewrite E0; discriminate). rewrite Ek. reflexivity. }
    assert (k = 0) by lia. subst k. specialize (K5 eq_refl). cbn [str_drop] in K3. subst r0.
    destruct u as [|c r]; [intros H Hf _; injection H as <- <-; discriminate|].
    assert (Ews' : skip_ws (String c r ++ X) 0 = (String c r ++ X, 0)).
    { cbn [append skip_ws]. rewrite K5. reflexivity. }
    rewrite Ews'. cbn [Nat.ltb Nat.leb]. cbn [append].
    destruct (byte_of c =? 34)%N.
    { destruct (lex_str false (S (String.length r)) r (S p) "" p nA) as [[t0 rest] pos] eqn:Es.
      intros H Hf _. injection H as <- <-. cbn [lrest lpos].
      pose proof (lex_str_kind false (S (String.length r)) r (S p) "" p nA) as Hk. rewrite Es in Hk. cbn [fst] in Hk.
      destruct t0; try discriminate.
      rewrite (lex_str_app _ _ (S (String.length (r ++ X))) _ _ _ _ _ nB _ _ _ Es) by lia. reflexivity. }
    change (String c (r ++ X)) with (String c r ++ X). rewrite starts_ldq_app.
    destruct (starts_ldq (String c r)) eqn:El.
    { rewrite str_drop_app by (apply starts_ldq_len; exact El).
      destruct (lex_str true (S (String.length (str_drop 3 (String c r)))) (str_drop 3 (String c r)) (p + 3) "" p nA)
        as [[t0 rest] pos] eqn:Es.
      intros H Hf _. injection H as <- <-. cbn [lrest lpos].
      pose proof (lex_str_kind true (S (String.length (str_drop 3 (String c r)))) (str_drop 3 (String c r)) (p + 3) "" p nA) as Hk.
      rewrite Es in Hk. cbn [fst] in Hk. destruct t0; try discriminate.
      rewrite (lex_str_app _ _ (S (String.length (str_drop 3 (String c r) ++ X))) _ _ _ _ _ nB _ _ _ Es) by lia.
      reflexivity. }
    destruct (byte_of c =? 124)%N.
    { destruct (lex_bits r (S p) bvb_empty nA) as [[t0 rest] pos] eqn:Es.
      intros H Hf _. injection H as <- <-. cbn [lrest lpos].
      pose proof (lex_bits_kind r (S p) bvb_empty nA) as Hk. rewrite Es in Hk. cbn [fst] in Hk.
      destruct t0; try discriminate.
      cbn [append]. rewrite (lex_bits_app _ _ _ _ nB _ _ _ Es). reflexivity. }
    apply lex_word_app. exact Hv.
  Qed.
End Local.

(* ---------- prefix stability ---------- *)

Definition last_significant (pre : list (tok * nat * nat)) : Prop :=
  forall pre' x, pre = (pre' ++ [x])%list -> is_blank_tok (fst (fst x)) = false.

Lemma last_significant_tail x pre : pre <> [] -> last_significant (x :: pre) -> last_significant pre.
Proof. intros Hne H pre' y E. apply (H (x :: pre') y). rewrite E. reflexivity. Qed.

Lemma lex_from_cons_inv r p n x l : lex_from r p n = x :: l -> l <> [] ->
  exists t l', lex_next (mklex r p p n) = (t, l') /\ is_final t = false /\
               x = (t, lstart l', lpos l') /\ l = lex_from (lrest l') (lpos l') n /\ llen l' = n.
Proof.
  intros H Hne. unfold lex_from in H. rewrite lex_all_S in H.
  destruct (lex_next (mklex r p p n)) as [t l'] eqn:Hn.
  destruct (is_final t) eqn:Ef; [injection H as <- <-; congruence|].
  injection H as <- <-. exists t, l'. split; [reflexivity|]. split; [exact Ef|]. split; [reflexivity|].
  destruct (lex_next_spec _ _ _ Hn) as (_ & N2 & _). cbn [llen] in N2. split; [|exact N2].
  destruct l' as [r' p' st' n']. cbn [llen lrest lpos] in *. subst n'.
  apply lex_all_from. pose proof (lex_next_shrinks _ _ _ Hn Ef) as Hs. cbn [lrest] in Hs. lia.
Qed.

(* the tokens of u ++ X are the tokens of u (when u lexes to its end without error and does not
   end in whitespace or a comment) followed by the tokens of X *)
Lemma prefix_stable X : next_is_ws_or_end X = true ->
  forall m u, String.length u <= m -> forall p nA nB pre e e',
  valid_go u 0 = true ->
  lex_from u p nA = (pre ++ [(TEnd, e, e')])%list -> last_significant pre ->
  lex_from (u ++ X) p nB = (pre ++ lex_from X (p + String.length u) nB)%list.
Proof.
  intros HX. induction m as [|m IH]; intros u Hm p nA nB pre e e' Hv H Hls.
  - destruct u; [|cbn [String.length] in Hm; lia].
    rewrite lex_from_end in H. destruct pre as [|x [|y pre]]; try discriminate.
    cbn [app String.length]. rewrite Nat.add_0_r. reflexivity.
  - destruct pre as [|x pre].
    + (* the first token is the end: u is empty *)
      cbn [app] in H. unfold lex_from in H. rewrite lex_all_S in H.
      destruct (lex_next (mklex u p p nA)) as [t l'] eqn:Hn.
      destruct (is_final t) eqn:Ef; [|injection H as Ht _ _ _; subst t; discriminate]. injection H as -> _ _.
      destruct (lex_next_spec _ _ _ Hn) as (_ & _ & N3 & _).
      destruct N3 as [(E1 & _)|(_ & _ & Z & _)]; [discriminate|]. specialize (Z eq_refl). cbn [lrest] in Z.
      subst u. cbn [app append String.length]. rewrite Nat.add_0_r. reflexivity.
    + cbn [app] in H.
      destruct (lex_from_cons_inv u p nA x _ H) as (t & lA' & Hn & Ef & -> & Hl & Hlen).
      { destruct pre; discriminate. }
      destruct (lex_next_spec _ _ _ Hn) as (N1 & _ & N3 & _). cbn [lpos lrest] in N1, N3.
      destruct N3 as [(E1 & _)|(_ & _ & _ & V)]; [destruct t; discriminate|].
      assert (Hne : is_err t = false) by (destruct t; try reflexivity; discriminate).
      destruct (V Hv Hne) as [V1 V2]. cbn [lrest lpos] in V1.
      assert (Hnb : ~ (lrest lA' = "" /\ is_blank_tok t = true)).
      { intros [R B]. rewrite R, lex_from_end in Hl. destruct pre as [|y pre]; [|destruct pre; discriminate].
        specialize (Hls [] (t, lstart lA', lpos lA') eq_refl). cbn [fst] in Hls. congruence. }
      pose proof (lex_next_app X HX u p p nA p nB t lA' Hv Hn Ef Hnb) as HB.
      rewrite (lex_from_step _ _ _ _ _ _ _ _ HB Ef). cbn [app]. rewrite N1. f_equal.
      pose proof (lex_next_shrinks _ _ _ Hn Ef) as Hs. cbn [lrest] in Hs.
      pose proof (advx_len _ _ _ _ V1) as Hal.
      destruct pre as [|y pre].
      * (* that was the last token of u *)
        cbn [app] in Hl. assert (Eu : lrest lA' = "").
        { unfold lex_from in Hl. rewrite lex_all_S in Hl.
          destruct (lex_next (mklex (lrest lA') (lpos lA') (lpos lA') nA)) as [t2 l2] eqn:Hn2.
          destruct (is_final t2) eqn:Ef2; [|injection Hl as Ht _ _ _; subst t2; discriminate]. injection Hl as <- _ _.
          destruct (lex_next_spec _ _ _ Hn2) as (_ & _ & M3 & _).
          destruct M3 as [(E1 & _)|(_ & _ & Z & _)]; [discriminate|]. exact (Z eq_refl). }
        rewrite Eu in *. cbn [append app String.length] in *. f_equal. lia.
      * rewrite (IH (lrest lA') ltac:(lia) (lpos lA') nA nB (y :: pre) e e' V2 (eq_sym Hl)).
        2:{ eapply last_significant_tail; [discriminate|exact Hls]. }
        f_equal. f_equal. lia.
Qed.

Lemma significant_app a b : significant (a ++ b) = (significant a ++ significant b)%list.
Proof. unfold significant. apply filter_app. Qed.

(* TRANSPARENCY IN CONTEXT.  a: a valid UTF-8 text that lexes to its end without error and whose
   last token is significant; g: blank material; b: any text.  The significant tokens of
   a ++ g ++ b are those of a, followed by those of b moved behind a and g. *)
Lemma blank_transparent_in_context a g b pre e e' :
  valid_utf8 a = true -> lex_string a = (pre ++ [(TEnd, e, e')])%list -> last_significant pre ->
  next_is_ws_or_end (g ++ b) = true -> blank g b ->
  significant (lex_string (a ++ g ++ b)) =
  (significant pre ++ map (shift_span (String.length a + String.length g)) (significant (lex_string b)))%list.
Proof.
  intros Hv Ha Hls Hw Hb. rewrite lex_string_from in Ha.
  rewrite lex_string_from.
  rewrite (prefix_stable (g ++ b) Hw (String.length a) a (le_n _) 0 (String.length a)
             (String.length (a ++ g ++ b)) pre e e' Hv Ha Hls).
  rewrite significant_app. f_equal. cbn [Nat.add].
  rewrite (blank_transparent g b Hb). rewrite <- significant_shift. f_equal.
  rewrite lex_string_from.
  rewrite <- (lex_from_shift (String.length a + String.length g) b 0 (String.length b)).
  cbn [Nat.add]. f_equal. rewrite !app_length_s. lia.
Qed.

(* replacing the blank material by a single space changes nothing but the spans behind it *)
Lemma blank_vs_space a g b pre e e' :
  valid_utf8 a = true -> lex_string a = (pre ++ [(TEnd, e, e')])%list -> last_significant pre ->
  next_is_ws_or_end (g ++ b) = true -> blank g b ->
  let sb := significant (lex_string b) in
  significant (lex_string (a ++ g ++ b)) =
    (significant pre ++ map (shift_span (String.length a + String.length g)) sb)%list /\
  significant (lex_string (a ++ " " ++ b)) =
    (significant pre ++ map (shift_span (String.length a + 1)) sb)%list.
Proof.
  intros Hv Ha Hls Hw Hb sb. split.
  - exact (blank_transparent_in_context a g b pre e e' Hv Ha Hls Hw Hb).
  - apply (blank_transparent_in_context a " " b pre e e' Hv Ha Hls eq_refl).
    apply (blank_ws " " "" b eq_refl (blank_nil b)).
Qed.
