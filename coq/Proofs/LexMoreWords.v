(* Flags and nil: printed as the words true / false / nil, lexed as single words, and turned into
   values when the word is compiled (boot dictionary constants / the immediate nil). *)
From Xeh Require Import Model.Prelude Model.Bits Model.Codec Model.Cell Model.Lexer Model.Fmt Model.Vm Model.Words
  Model.Build Model.Boot.
From Xeh Require Import Proofs.LexLoc Proofs.LexBasic Proofs.LexNext Proofs.LexAll Proofs.LexPrintInt
  Proofs.LexStr Proofs.LexMoreNum Proofs.LexMoreCmt.
From Coq Require Import ZifyBool ZifyNat ZifyN.
Local Open Scope string_scope.

(* the word a constant is written as *)
Definition const_word (c : cell) : option string :=
  match c with
  | CNil => Some "nil"
  | CFlag true => Some "true"
  | CFlag false => Some "false"
  | _ => None
  end.

Lemma const_word_printed f c w : const_word c = Some w -> fmt_cell f c = Some w.
Proof. destruct c as [|[]| | | | | | | | |]; cbn [const_word]; intros H; try discriminate; injection H as <-; reflexivity. Qed.

Lemma const_word_lex_next c w l rest : const_word c = Some w ->
  lrest l = w ++ rest -> next_is_ws_or_end rest = true ->
  lex_next l = (TWord w, mklex rest (lpos l + String.length w) (lpos l) (llen l)).
Proof.
  intros Hc Hl Hr.
  destruct c as [|[]| | | | | | | | |]; cbn [const_word] in Hc; try discriminate; injection Hc as <-.
  - rewrite (lex_next_word l "n" "il" rest Hl ltac:(reflexivity) eq_refl eq_refl eq_refl eq_refl eq_refl Hr eq_refl eq_refl).
    cbv zeta. cbn [String.length]. f_equal. f_equal. lia.
  - rewrite (lex_next_word l "t" "rue" rest Hl ltac:(reflexivity) eq_refl eq_refl eq_refl eq_refl eq_refl Hr eq_refl eq_refl).
    cbv zeta. cbn [String.length]. f_equal. f_equal. lia.
  - rewrite (lex_next_word l "f" "alse" rest Hl ltac:(reflexivity) eq_refl eq_refl eq_refl eq_refl eq_refl Hr eq_refl eq_refl).
    cbv zeta. cbn [String.length]. f_equal. f_equal. lia.
Qed.

Lemma const_word_lex_string c w : const_word c = Some w ->
  lex_string w = [(TWord w, 0, String.length w); (TEnd, String.length w, String.length w)].
Proof.
  destruct c as [|[]| | | | | | | | |]; cbn [const_word]; intros H; try discriminate; injection H as <-;
    vm_compute; reflexivity.
Qed.

(* the words become values when they are compiled *)
Lemma build_word_flag fo pr rf fuel s (b : bool) :
  dict_entry s (if b then "true" else "false") = Some (DConst (CFlag b)) ->
  build_word fo pr rf fuel (if b then "true" else "false") s = code_emit (OLoadCell (CFlag b)) s.
Proof. intros H. unfold build_word. cbv [bind get]. rewrite H. reflexivity. Qed.

Lemma build_word_nil fo pr rf fuel s :
  dict_entry s "nil" = Some (DFun true (FNative "nil") None) ->
  build_word fo pr rf fuel "nil" s = code_emit OLoadNil s.
Proof. intros H. unfold build_word. cbv [bind get]. rewrite H. reflexivity. Qed.

Lemma boot_const_entries :
  dict_entry boot "true" = Some (DConst (CFlag true)) /\
  dict_entry boot "false" = Some (DConst (CFlag false)) /\
  dict_entry boot "nil" = Some (DFun true (FNative "nil") None).
Proof. vm_compute. auto. Qed.

(* a real token becomes the value the conversion oracle gives for exactly its text; a text the
   oracle rejects is a parse error *)
Lemma next_token_real pr f (s : state) il rest txt l' :
  input s = il :: rest ->
  lex_next_nonws (S (String.length (lrest (in_lex il)))) (in_lex il) = (TReal txt, l') ->
  next_token pr (S f) s =
  let s1 := set_last_tok (set_input s (mkinlex (in_src il) l' :: rest)) (Some (in_src il, lstart l', lpos l')) in
  match pr txt with
  | Some r => ROk (BLit (CReal r)) s1
  | None => RErr EParse None s1
  end.
Proof. intros Hi Hn. cbn [next_token]. rewrite Hi, Hn. reflexivity. Qed.
