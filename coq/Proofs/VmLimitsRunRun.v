(* VmLimitsRunRun.v (C14): executions of any length.
   - [bounded]: along [steps] and at the end of [run] (success or error) the meter, the data
     stack and the heap stay within the limits;
   - the meter counts one per instruction (two for the instruction that resolves a [late] cell);
   - [steps_relim] / [run_relim]: an execution that does not end in a limit error is the same
     under any more permissive limits, in particular on the unlimited machine;
   - recovery after the instruction limit (and after any limit failure that left the state
     unchanged up to the meter): raise the limit, resume, get what the unlimited machine gets. *)
From Xeh Require Import Model.Prelude Model.Bits Model.Codec Model.Cell Model.Lexer Model.Fmt
                        Model.Vm Model.Words.
From Xeh Require Import Proofs.VmFrame Proofs.VmLimits Proofs.VmDrive Proofs.UnwindLists Proofs.UnwindFrame
                        Proofs.VmLimitsRunBase Proofs.VmLimitsRunStep.
Local Notation length := List.length.

#[local] Arguments Z.add : simpl never.
#[local] Arguments Z.sub : simpl never.
#[local] Arguments Z.mul : simpl never.
#[local] Arguments Z.ltb : simpl never.
#[local] Arguments Z.leb : simpl never.
#[local] Arguments Z.eqb : simpl never.
#[local] Arguments Z.of_nat : simpl never.
#[local] Arguments Z.to_nat : simpl never.

(* ---------- the bounds as a relation between the start and a later state ---------- *)
Definition bounded (s0 s : state) : Prop :=
  insn_limit s = insn_limit s0 /\ heap_limit s = heap_limit s0 /\ stack_limit s = stack_limit s0 /\
  length (heap s) = length (heap s0) /\
  (meter s0 <= meter s)%Z /\
  (forall N, insn_limit s0 = Some N -> (meter s0 <= N)%Z -> (meter s <= N)%Z) /\
  (forall S, stack_limit s0 = Some S -> length (ds s) <= Nat.max (Z.to_nat S) (length (ds s0))).

Lemma bounded_refl s : bounded s s.
Proof. unfold bounded. repeat split; try reflexivity; try lia; auto; intros; apply Nat.le_max_r. Qed.

Lemma bounded_trans a b c : bounded a b -> bounded b c -> bounded a c.
Proof.
  intros (A1 & A2 & A3 & A4 & A5 & A6 & A7) (B1 & B2 & B3 & B4 & B5 & B6 & B7).
  unfold bounded. repeat split; try congruence; try lia.
  - intros N EN Hle. apply B6; [congruence|]. apply A6; assumption.
  - intros S ES. specialize (A7 S ES). rewrite <- A3 in ES. specialize (B7 S ES). lia.
Qed.

Definition erase_lim (s : state) : state := relim 0%Z None None None s.
Definition unlimited (s : state) : state := set_limits s None None None.

Lemma erase_relim mt i h k s : erase_lim (relim mt i h k s) = erase_lim s.
Proof. reflexivity. Qed.
Lemma unlimited_relim s : unlimited s = relim (meter s) None None None s.
Proof. destruct s; reflexivity. Qed.
Lemma erase_unlimited s : erase_lim (unlimited s) = erase_lim s.
Proof. reflexivity. Qed.

Lemma is_elimit_res_map_eq {A} f g (r1 r2 : res A) :
  res_map f r1 = res_map g r2 -> is_elimit r1 = is_elimit r2.
Proof. intros H. apply (f_equal is_elimit) in H. rewrite !res_map_is_elimit in H. exact H. Qed.

Section WithTable.
  Variable nf : natives.
  Hypothesis Hnf : forall w f, nf w = Some f -> wlx f.

  Let Hwl : forall w f, nf w = Some f -> wl f := Hnf_wl nf Hnf.

  (* ---------- one step ---------- *)
  Lemma far_bounded : forall s r s',
    fetch_and_run nf s = r -> res_state r = Some s' -> bounded s s'.
  Proof.
    intros s r s' H Hr.
    pose proof (far_frame nf Hwl s) as FR. rewrite H in FR.
    destruct (far_meter_any nf Hnf s r s' H Hr) as [HM HN].
    destruct (heap_fixed_gen nf Hwl s r s' H Hr) as [HH _].
    assert (FR' : frame_rel s s') by (destruct r; cbn [res_state res_all] in *; try discriminate; injection Hr as <-; exact FR).
    destruct FR' as (_ & _ & _ & _ & _ & _ & _ & A8 & A9 & A10 & _).
    unfold bounded. repeat split; try assumption; try lia.
    intros S ES. destruct (stack_bound_gen nf Hwl s r s' S ES H Hr) as [HS _]. lia.
  Qed.

  (* ---------- any number of steps ---------- *)
  Lemma steps_bounded : forall n s sn, steps nf n s = Some sn -> bounded s sn.
  Proof.
    induction n as [|n IH]; intros s sn H; cbn [steps] in H.
    - injection H as <-. apply bounded_refl.
    - destruct (fetch_and_run nf s) as [u s1| | |] eqn:E; try discriminate.
      eapply bounded_trans; [eapply far_bounded; [exact E|reflexivity]|apply IH; exact H].
  Qed.

  Lemma run_bounded : forall fuel s r s',
    run nf fuel s = Some r -> res_state r = Some s' -> bounded s s'.
  Proof.
    induction fuel as [|f IH]; intros s r s' H Hr; cbn [run] in H; [discriminate|].
    destruct (is_running s).
    - destruct (fetch_and_run nf s) as [u s1|k p s1| |] eqn:E.
      + eapply bounded_trans; [eapply far_bounded; [exact E|reflexivity]|eapply IH; eauto].
      + injection H as <-. eapply far_bounded; [exact E|exact Hr].
      + injection H as <-. discriminate.
      + injection H as <-. discriminate.
    - injection H as <-. injection Hr as <-. apply bounded_refl.
  Qed.

  (* ---------- the meter counts the executed instructions ---------- *)
  Definition no_resolve (s : state) : Prop := Forall (fun op => is_resolve op = false) (code s).

  Lemma no_resolve_at s : no_resolve s -> at_resolve s = false.
  Proof.
    unfold no_resolve, at_resolve. intros H. destruct (nth_error (code s) (ip s)) as [op|] eqn:E; [|reflexivity].
    apply nth_error_In in E. rewrite Forall_forall in H. specialize (H op E). destruct op; try reflexivity. discriminate.
  Qed.

  Lemma far_no_resolve s r s' :
    fetch_and_run nf s = r -> res_state r = Some s' -> no_resolve s -> code s' = code s.
  Proof.
    intros H Hr Hn. pose proof (far_frame nf Hwl s) as FR. rewrite H in FR.
    assert (FR' : frame_rel s s') by (destruct r; cbn [res_state res_all] in *; try discriminate; injection Hr as <-; exact FR).
    destruct FR' as (_ & _ & _ & _ & _ & _ & _ & _ & _ & _ & _ & _ & _ & _ & _ & _ & _ & CK & _).
    apply code_keep_eq; assumption.
  Qed.

  Lemma steps_meter_range : forall n s sn,
    steps nf n s = Some sn ->
    (meter s + Z.of_nat n <= meter sn <= meter s + 2 * Z.of_nat n)%Z.
  Proof.
    induction n as [|n IH]; intros s sn H; cbn [steps] in H.
    - injection H as <-. lia.
    - destruct (fetch_and_run nf s) as [[] s1| | |] eqn:E; try discriminate.
      pose proof (far_meter_ok nf Hnf s s1 E) as M. specialize (IH s1 sn H).
      destruct (at_resolve s); lia.
  Qed.

  Lemma steps_meter_exact : forall n s sn,
    steps nf n s = Some sn -> no_resolve s ->
    meter sn = (meter s + Z.of_nat n)%Z /\ no_resolve sn.
  Proof.
    induction n as [|n IH]; intros s sn H Hn; cbn [steps] in H.
    - injection H as <-. split; [lia|exact Hn].
    - destruct (fetch_and_run nf s) as [[] s1| | |] eqn:E; try discriminate.
      pose proof (far_meter_ok nf Hnf s s1 E) as M. rewrite (no_resolve_at s Hn) in M.
      assert (Hn1 : no_resolve s1) by (unfold no_resolve; rewrite (far_no_resolve s _ s1 E eq_refl Hn); exact Hn).
      destruct (IH s1 sn H Hn1) as [M2 Hn2]. split; [lia|exact Hn2].
  Qed.

  (* a successful run is a number of steps ending on a stopped machine *)
  Lemma run_ok_steps : forall fuel s s',
    run nf fuel s = Some (ROk tt s') ->
    exists n, n < fuel /\ steps nf n s = Some s' /\ is_running s' = false.
  Proof.
    induction fuel as [|f IH]; intros s s' H; cbn [run] in H; [discriminate|].
    destruct (is_running s) eqn:R.
    - destruct (fetch_and_run nf s) as [[] s1| | |] eqn:E; try discriminate.
      destruct (IH s1 s' H) as (n & Hn & Hs & Hr). exists (S n). split; [lia|].
      split; [cbn [steps]; rewrite E; exact Hs|exact Hr].
    - injection H as <-. exists 0. split; [lia|]. split; [reflexivity|exact R].
  Qed.

  (* a failed run is a number of steps followed by the failing instruction *)
  Lemma run_err_steps : forall fuel s k p se,
    run nf fuel s = Some (RErr k p se) ->
    exists n sn, n < fuel /\ steps nf n s = Some sn /\ is_running sn = true /\
                 fetch_and_run nf sn = RErr k p se.
  Proof.
    induction fuel as [|f IH]; intros s k p se H; cbn [run] in H; [discriminate|].
    destruct (is_running s) eqn:R; [|discriminate].
    destruct (fetch_and_run nf s) as [[] s1|k1 p1 s1| |] eqn:E; try discriminate.
    - destruct (IH s1 k p se H) as (n & sn & Hn & Hs & Hr & He). exists (S n), sn. split; [lia|].
      split; [cbn [steps]; rewrite E; exact Hs|]. split; assumption.
    - injection H as -> -> ->. exists 0, s. split; [lia|]. split; [reflexivity|]. split; assumption.
  Qed.

  Lemma run_mono : forall k k' s r, run nf k s = Some r -> k <= k' -> run nf k' s = Some r.
  Proof.
    induction k as [|k IH]; intros k' s r H Hle; [discriminate|].
    destruct k' as [|k']; [lia|]. cbn [run] in *.
    destruct (is_running s); [|exact H].
    destruct (fetch_and_run nf s) as [u s1| | |]; try exact H. apply IH; [exact H|lia].
  Qed.

  (* ---------- limits do not change executions ---------- *)
  Lemma far_limits_kept : forall s r s',
    fetch_and_run nf s = r -> res_state r = Some s' ->
    insn_limit s' = insn_limit s /\ stack_limit s' = stack_limit s.
  Proof.
    intros s r s' H Hr. destruct (far_bounded s r s' H Hr) as (A & _ & B & _). split; assumption.
  Qed.

  Lemma room_le_step s s1 mt i :
    insn_limit s1 = insn_limit s -> room_le s mt i -> room_le s1 (mt + (meter s1 - meter s))%Z i.
  Proof.
    unfold room_le. intros E. destruct i as [N'|]; [|auto]. rewrite E.
    destruct (insn_limit s) as [N|]; [|auto]. lia.
  Qed.

  Lemma steps_relim : forall n s sn mt i h k,
    steps nf n s = Some sn -> lim_le (stack_limit s) k -> room_le s mt i ->
    steps nf n (relim mt i h k s) = Some (relim (mt + (meter sn - meter s))%Z i h k sn).
  Proof.
    induction n as [|n IH]; intros s sn mt i h k H Hle Hroom; cbn [steps] in *.
    - injection H as <-. replace (mt + (meter s - meter s))%Z with mt by lia. reflexivity.
    - destruct (fetch_and_run nf s) as [[] s1| | |] eqn:E; try discriminate.
      rewrite (far_relim nf Hnf s mt i h k Hle Hroom) by (rewrite E; reflexivity).
      rewrite E. cbn [res_map].
      destruct (far_limits_kept s _ s1 E eq_refl) as [L1 L2].
      rewrite (IH s1 sn _ i h k H); [|rewrite L2; exact Hle|apply room_le_step; assumption].
      f_equal. f_equal. lia.
  Qed.

  Lemma run_relim : forall fuel s r mt i h k,
    run nf fuel s = Some r -> is_elimit r = false ->
    lim_le (stack_limit s) k -> room_le s mt i ->
    run nf fuel (relim mt i h k s) =
    Some (res_map (fun x => relim (mt + (meter x - meter s))%Z i h k x) r).
  Proof.
    induction fuel as [|f IH]; intros s r mt i h k H Hne Hle Hroom; cbn [run] in *; [discriminate|].
    change (is_running (relim mt i h k s)) with (is_running s).
    destruct (is_running s).
    - destruct (fetch_and_run nf s) as [[] s1|k1 p1 s1| |] eqn:E.
      + rewrite (far_relim nf Hnf s mt i h k Hle Hroom) by (rewrite E; reflexivity).
        rewrite E. cbn [res_map].
        destruct (far_limits_kept s _ s1 E eq_refl) as [L1 L2].
        rewrite (IH s1 r _ i h k H Hne); [|rewrite L2; exact Hle|apply room_le_step; assumption].
        f_equal. destruct r; cbn [res_map]; try reflexivity; f_equal; f_equal; lia.
      + injection H as <-.
        rewrite (far_relim nf Hnf s mt i h k Hle Hroom) by (rewrite E; exact Hne).
        rewrite E. reflexivity.
      + injection H as <-.
        rewrite (far_relim nf Hnf s mt i h k Hle Hroom) by (rewrite E; reflexivity).
        rewrite E. reflexivity.
      + injection H as <-.
        rewrite (far_relim nf Hnf s mt i h k Hle Hroom) by (rewrite E; reflexivity).
        rewrite E. reflexivity.
    - injection H as <-. cbn [res_map]. replace (mt + (meter s - meter s))%Z with mt by lia. reflexivity.
  Qed.

  (* the observable result: everything but meter and limits *)
  Lemma run_erase : forall fuel s r,
    run nf fuel s = Some r -> is_elimit r = false ->
    exists r', run nf fuel (erase_lim s) = Some r' /\ res_map erase_lim r' = res_map erase_lim r.
  Proof.
    intros fuel s r H Hne. eexists. split.
    - apply (run_relim fuel s r 0%Z None None None H Hne); exact I.
    - destruct r; reflexivity.
  Qed.

  (* two machines that differ only in meter and limits, neither stopped by a limit *)
  Lemma run_same : forall fuel s t r r',
    erase_lim s = erase_lim t ->
    run nf fuel s = Some r -> is_elimit r = false ->
    run nf fuel t = Some r' -> is_elimit r' = false ->
    res_map erase_lim r = res_map erase_lim r'.
  Proof.
    intros fuel s t r r' E H1 N1 H2 N2.
    destruct (run_erase fuel s r H1 N1) as (a & A1 & A2).
    destruct (run_erase fuel t r' H2 N2) as (b & B1 & B2).
    rewrite E in A1. rewrite A1 in B1. injection B1 as <-. congruence.
  Qed.

  Lemma run_unlimited_never_limit : forall fuel s r,
    insn_limit s = None -> stack_limit s = None -> run nf fuel s = Some r -> is_elimit r = false.
  Proof.
    induction fuel as [|f IH]; intros s r Hi Hs H; cbn [run] in H; [discriminate|].
    destruct (is_running s); [|injection H as <-; reflexivity].
    destruct (fetch_and_run nf s) as [[] s1|k1 p1 s1| |] eqn:E.
    - destruct (far_limits_kept s _ s1 E eq_refl) as [L1 L2].
      eapply IH; [| |exact H]; congruence.
    - injection H as <-. destruct k1; try reflexivity. exfalso.
      destruct (far_limit_cause nf Hnf s p1 s1 E) as [_ [N EN _ _|N name e EN _ _ _ _|S ES _ _ _]]; congruence.
    - injection H as <-. reflexivity.
    - injection H as <-. reflexivity.
  Qed.

  (* ---------- recovery ---------- *)
  (* the failed instruction left the state as it was, up to meter and limits, or up to the
     resolution of the [late] cell it was about to execute *)
  Definition unchanged_failure (s s' : state) : Prop :=
    erase_lim s' = erase_lim s \/
    exists name e, nth_error (code s) (ip s) = Some (OResolve name) /\ dict_entry s name = Some e /\
                   erase_lim s' = erase_lim (set_code s (list_set (code s) (ip s) (resolve_op e))).

  Lemma limit_cause_unchanged s s' :
    limit_cause s s' -> stack_limit s = None -> unchanged_failure s s'.
  Proof.
    intros [N EN _ ->|N name e EN _ E1 E2 ->|S ES _ _ _] Hs.
    - left. reflexivity.
    - right. exists name, e. split; [exact E1|]. split; [exact E2|]. reflexivity.
    - congruence.
  Qed.

  Lemma resolve_op_not_resolve e n : resolve_op e <> OResolve n.
  Proof.
    destruct e as [c|a|imm [x|x] len]; cbn [resolve_op]; try discriminate.
    unfold load_value_opcode. destruct c; try discriminate. destruct (in_i64 z); discriminate.
  Qed.

  Lemma nth_error_list_set_eq {A} : forall (l : list A) i v x,
    nth_error l i = Some x -> nth_error (list_set l i v) i = Some v.
  Proof.
    induction l as [|y l IH]; intros [|i] v x H; cbn [nth_error list_set] in *; try discriminate; auto.
    eapply IH. exact H.
  Qed.

  (* resuming from the state a failed instruction left, when that state is unchanged: same
     observable result as the machine without limits started at the state before the failure *)
  Lemma resume_unchanged : forall s s' fuel r,
    unchanged_failure s s' ->
    run nf fuel s' = Some r -> is_elimit r = false ->
    exists r', run nf fuel (erase_lim s) = Some r' /\ res_map erase_lim r' = res_map erase_lim r.
  Proof.
    intros s s' fuel r [E|(name & e & E1 & E2 & E)] H Hne.
    - destruct (run_erase fuel s' r H Hne) as (r' & A & B). rewrite E in A. eauto.
    - destruct (run_erase fuel s' r H Hne) as (r1 & A & B). rewrite E in A. clear H E s'.
      set (p := set_code s (list_set (code s) (ip s) (resolve_op e))) in *.
      destruct fuel as [|f]; [discriminate|]. cbn [run] in *.
      assert (R : is_running (erase_lim p) = is_running (erase_lim s)).
      { unfold is_running. cbn [erase_lim relim set_limits set_meter p set_code code ip cx]. rewrite list_set_length. reflexivity. }
      assert (Rs : is_running (erase_lim s) = true).
      { unfold is_running. apply Nat.ltb_lt. change (code (erase_lim s)) with (code s). change (ip (erase_lim s)) with (ip s).
        apply nth_error_Some. congruence. }
      rewrite R, Rs in A. rewrite Rs.
      (* first step on the patched machine: the resolved instruction, fetched once *)
      assert (F1 : fetch_and_run nf (erase_lim p) =
                   exec_op nf (ip s) (resolve_op e) (set_meter (erase_lim p) (0 + 1)%Z)).
      { apply (far_eq_plain nf (erase_lim p) (resolve_op e)); [reflexivity| |apply resolve_op_not_resolve].
        change (code (erase_lim p)) with (list_set (code s) (ip s) (resolve_op e)). change (ip (erase_lim p)) with (ip s).
        eapply nth_error_list_set_eq. exact E1. }
      (* first step on the original machine: resolve, fetch again *)
      assert (F2 : fetch_and_run nf (erase_lim s) =
                   exec_op nf (ip s) (resolve_op e)
                     (set_meter (set_code (set_meter (erase_lim s) (0 + 1)%Z) (list_set (code s) (ip s) (resolve_op e)))
                                (0 + 1 + 1)%Z)).
      { apply (far_eq_res nf (erase_lim s) name e); try reflexivity; assumption. }
      rewrite F1 in A. rewrite F2.
      change (set_meter (set_code (set_meter (erase_lim s) (0 + 1)%Z) (list_set (code s) (ip s) (resolve_op e))) (0 + 1 + 1)%Z)
        with (relim (0 + 1 + 1)%Z None None None (set_meter (erase_lim p) (0 + 1)%Z)).
      set (b := set_meter (erase_lim p) (0 + 1)%Z) in *.
      assert (Hb : is_elimit (exec_op nf (ip s) (resolve_op e) b) = false).
      { destruct (exec_op nf (ip s) (resolve_op e) b) as [[] x|k1 p1 x| |] eqn:Ex; try reflexivity.
        injection A as <-. rewrite <- Hne. exact (is_elimit_res_map_eq _ _ _ _ B). }
      rewrite (exec_op_relim nf Hnf (ip s) (resolve_op e) b (0 + 1 + 1)%Z None None None) by (exact I || exact Hb).
      destruct (exec_op nf (ip s) (resolve_op e) b) as [[] x|k1 p1 x| |] eqn:Ex; cbn [res_map].
      + assert (N1 : is_elimit r1 = false).
        { rewrite <- Hne. exact (is_elimit_res_map_eq _ _ _ _ B). }
        destruct (run_erase f x r1 A N1) as (r2 & A2 & B2).
        pose proof (run_relim f x r1 (0 + 1 + 1)%Z None None None A N1 I I) as A3.
        eexists. split; [exact A3|]. rewrite <- B. destruct r1; reflexivity.
      + injection A as <-. eexists. split; [reflexivity|]. rewrite <- B. reflexivity.
      + injection A as <-. eexists. split; [reflexivity|]. rewrite <- B. reflexivity.
      + injection A as <-. eexists. split; [reflexivity|]. rewrite <- B. reflexivity.
  Qed.

  (* run to a limit failure that left the state unchanged, set any new limits (and meter), resume:
     if the resumed run is not stopped by a limit again, its result is the one the machine
     without limits reaches from the start *)
  Theorem recover_steps : forall n s0 sn p se,
    steps nf n s0 = Some sn ->
    fetch_and_run nf sn = RErr ELimit p se -> unchanged_failure sn se ->
    forall mt i h k fuel r,
      run nf fuel (relim mt i h k se) = Some r -> is_elimit r = false ->
      exists sn' r', steps nf n (unlimited s0) = Some sn' /\ run nf fuel sn' = Some r' /\
                     res_map erase_lim r' = res_map erase_lim r.
  Proof.
    intros n s0 sn p se Hs Hf Hu mt i h k fuel r Hr Hne.
    assert (Hu' : unchanged_failure sn (relim mt i h k se)).
    { destruct Hu as [E|(name & e & E1 & E2 & E)]; [left|right; exists name, e; repeat split; try assumption];
        rewrite erase_relim; exact E. }
    destruct (resume_unchanged sn _ fuel r Hu' Hr Hne) as (r1 & A & B).
    rewrite unlimited_relim.
    rewrite (steps_relim n s0 sn (meter s0) None None None Hs I I).
    eexists.
    assert (N1 : is_elimit r1 = false).
    { rewrite <- Hne. exact (is_elimit_res_map_eq _ _ _ _ B). }
    pose proof (run_relim fuel (erase_lim sn) r1 (meter s0 + (meter sn - meter s0))%Z None None None A N1 I I) as A2.
    change (relim (meter s0 + (meter sn - meter s0))%Z None None None (erase_lim sn))
      with (relim (meter s0 + (meter sn - meter s0))%Z None None None sn) in A2.
    eexists. split; [reflexivity|]. split; [exact A2|].
    rewrite <- B. destruct r1; reflexivity.
  Qed.

  (* the same from [run]: with only an instruction limit set, every limit failure is an
     unchanged one *)
  Theorem recover_run_insn : forall fuel0 s0 p se,
    stack_limit s0 = None ->
    run nf fuel0 s0 = Some (RErr ELimit p se) ->
    forall mt i h fuel r,
      run nf fuel (relim mt i h None se) = Some r -> is_elimit r = false ->
      exists r', run nf (fuel0 + fuel) (unlimited s0) = Some r' /\
                 res_map erase_lim r' = res_map erase_lim r.
  Proof.
    intros fuel0 s0 p se Hs0 H0 mt i h fuel r Hr Hne.
    destruct (run_err_steps fuel0 s0 ELimit p se H0) as (n & sn & Hn & Hst & Hrun & Hf).
    destruct (steps_bounded n s0 sn Hst) as (_ & _ & B3 & _).
    destruct (far_limit_cause nf Hnf sn p se Hf) as [_ LC].
    pose proof (limit_cause_unchanged sn se LC ltac:(congruence)) as Hu.
    destruct (recover_steps n s0 sn p se Hst Hf Hu mt i h None fuel r Hr Hne) as (sn' & r' & A1 & A2 & A3).
    exists r'. split; [|exact A3].
    destruct fuel as [|f]; [discriminate|].
    rewrite (run_is_stepping nf n (unlimited s0) sn' (fuel0 + S f) A1 ltac:(lia)).
    assert (Rn : is_running sn' = true).
    { rewrite unlimited_relim in A1.
      rewrite (steps_relim n s0 sn (meter s0) None None None Hst I I) in A1. injection A1 as <-. exact Hrun. }
    rewrite Rn. eapply run_mono; [exact A2|lia].
  Qed.
End WithTable.
