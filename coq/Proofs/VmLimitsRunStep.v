(* VmLimitsRunStep.v (C14): one instruction under limits.
   - [wlx_relim]: limits never change a result, they only turn it into an [ELimit] failure;
   - [wlx_cause]: a limit failure inside an instruction body is a refused [push_data];
   - [far_relim], [far_limit_cause], [far_meter_exact], [far_meter_any]: the same for a whole
     [fetch_and_run]. *)
From Xeh Require Import Model.Prelude Model.Bits Model.Codec Model.Cell Model.Lexer Model.Fmt
                        Model.Vm Model.Words.
From Xeh Require Import Proofs.VmFrame Proofs.VmLimits Proofs.VmLimitsRunBase.
Local Notation length := List.length.

#[local] Arguments Z.add : simpl never.
#[local] Arguments Z.sub : simpl never.
#[local] Arguments Z.mul : simpl never.
#[local] Arguments Z.ltb : simpl never.
#[local] Arguments Z.leb : simpl never.
#[local] Arguments Z.eqb : simpl never.
#[local] Arguments Z.of_nat : simpl never.
#[local] Arguments Z.to_nat : simpl never.

(* ---------- vocabulary ---------- *)
(* the same machine with another meter reading and other limits *)
Definition relim (mt : Z) (i h k : option Z) (s : state) : state :=
  set_limits (set_meter s mt) i h k.

Definition is_elimit {A} (r : res A) : bool :=
  match r with RErr ELimit _ _ => true | _ => false end.

(* [b] is at least as permissive as [a]; [None] = no limit *)
Definition lim_le (a b : option Z) : Prop :=
  match b with
  | None => True
  | Some y => match a with Some x => (x <= y)%Z | None => False end
  end.

Lemma lim_le_refl a : lim_le a a.
Proof. destruct a; cbn; [lia|exact I]. Qed.
Lemma lim_le_none a : lim_le a None.
Proof. exact I. Qed.

Lemma limit_reached_le a b n : lim_le a b -> limit_reached a n = false -> limit_reached b n = false.
Proof.
  unfold lim_le, limit_reached. destruct b as [y|]; [|reflexivity].
  destruct a as [x|]; [|contradiction]. intros H E. apply Z.leb_gt in E. apply Z.leb_gt. lia.
Qed.

Lemma relim_fields mt i h k s :
  meter (relim mt i h k s) = mt /\ insn_limit (relim mt i h k s) = i /\
  heap_limit (relim mt i h k s) = h /\ stack_limit (relim mt i h k s) = k /\
  ds (relim mt i h k s) = ds s /\ heap (relim mt i h k s) = heap s /\ code (relim mt i h k s) = code s /\
  cx (relim mt i h k s) = cx s /\ dict (relim mt i h k s) = dict s.
Proof. repeat split. Qed.

Lemma relim_relim mt i h k mt' i' h' k' s :
  relim mt i h k (relim mt' i' h' k' s) = relim mt i h k s.
Proof. reflexivity. Qed.

Lemma relim_self s : relim (meter s) (insn_limit s) (heap_limit s) (stack_limit s) s = s.
Proof. destruct s; reflexivity. Qed.

(* ---------- limits do not change results ---------- *)
Definition P_relim {A} (m : M A) : Prop :=
  forall s mt i h k, lim_le (stack_limit s) k -> is_elimit (m s) = false ->
    m (relim mt i h k s) = res_map (relim mt i h k) (m s).

Ltac relim_prim :=
  let s := fresh "s" in
  intros s ? ? ? ? _ _; destruct_state s;
  cbv [push_data pop_data top_data swap_data rot_data over_data push_return pop_return top_frame
       push_loop pop_loop loop_next loop_set_items push_special pop_special get_var set_var
       init_local set_ip next_ip print modify ret fail unsup panic
       add_rstep limit_reached data_depth ip set_ip_raw relim res_map set_limits set_meter
       set_ds set_rs set_loops set_special set_heap set_cx set_rlog set_out set_stopping
       dict heap code dbg sources input ds rs flows loops special cx nested meter insn_limit
       heap_limit stack_limit rlog out last_tok stopping];
  break_matches; reflexivity.

Lemma push_data_relim c : P_relim (push_data c).
Proof.
  intros s mt i h k Hle Hne. unfold push_data in *.
  change (stack_limit (relim mt i h k s)) with k. change (ds (relim mt i h k s)) with (ds s).
  destruct (limit_reached (stack_limit s) (length (ds s))) eqn:E; [discriminate|].
  rewrite (limit_reached_le _ _ _ Hle E). cbn [res_map].
  destruct_state s. cbv [add_rstep rlog relim set_limits set_meter set_rlog set_ds
    dict heap code dbg sources input ds rs flows loops special cx nested meter insn_limit
    heap_limit stack_limit rlog out last_tok stopping]. destruct rl0; reflexivity.
Qed.

Lemma add_rstep_relim r mt i h k s : add_rstep r (relim mt i h k s) = relim mt i h k (add_rstep r s).
Proof. destruct_state s. cbv [add_rstep relim rlog set_limits set_meter set_rlog
    dict heap code dbg sources input ds rs flows loops special cx nested meter insn_limit
    heap_limit stack_limit out last_tok stopping]. destruct rl0; reflexivity. Qed.

Lemma add_rstep_stack_limit r s : stack_limit (add_rstep r s) = stack_limit s.
Proof. unfold add_rstep. destruct (rlog s); reflexivity. Qed.

Lemma over_data_relim : P_relim over_data.
Proof.
  intros s mt i h k Hle Hne. unfold over_data in *.
  change (ds (relim mt i h k s)) with (ds s).
  change (data_depth (relim mt i h k s)) with (data_depth s).
  destruct (ds s) as [|a [|b r]]; try reflexivity.
  destruct (2 <=? data_depth s); [|reflexivity].
  rewrite add_rstep_relim. apply push_data_relim; [|exact Hne].
  rewrite add_rstep_stack_limit. exact Hle.
Qed.

Lemma res_map_is_elimit {A} f (r : res A) : is_elimit (res_map f r) = is_elimit r.
Proof. destruct r; reflexivity. Qed.

Lemma wlx_relim : forall A (m : M A), wlx m -> P_relim m.
Proof.
  induction 1; try (relim_prim; fail).
  - (* bind *)
    intros s mt il hl sl Hle Hne. unfold bind in *.
    pose proof (wl_lim _ _ (wlx_wl _ _ H) s) as L.
    specialize (IHwlx s mt il hl sl Hle).
    destruct (m s) as [a s1|e p s1| |] eqn:E; cbn [res_map] in *.
    + rewrite IHwlx by reflexivity. cbn [res_all] in L.
      destruct L as (_ & _ & _ & L4 & _).
      apply H1; [rewrite L4; exact Hle|exact Hne].
    + rewrite IHwlx by exact Hne. reflexivity.
    + rewrite IHwlx by reflexivity. reflexivity.
    + rewrite IHwlx by reflexivity. reflexivity.
  - (* get *)
    intros s mt il hl sl Hle Hne. unfold bind, get in *. unfold relim at 1.
    rewrite H2, H3. apply H0; assumption.
  - apply push_data_relim.
  - apply over_data_relim.
Qed.

(* ---------- where a limit failure comes from ---------- *)
(* inside an instruction body the only source of [ELimit] is a [push_data] refused because the
   data stack is full: the state left behind is the one in which that push was attempted *)
Definition P_cause {A} (m : M A) : Prop :=
  forall s p s', m s = RErr ELimit p s' ->
    p = None /\ exists S, stack_limit s = Some S /\ (S <= Z.of_nat (length (ds s')))%Z.

Ltac cause_prim :=
  let s := fresh "s" in
  intros s ? ?; destruct_state s;
  cbv [pop_data top_data swap_data rot_data push_return pop_return top_frame
       push_loop pop_loop loop_next loop_set_items push_special pop_special get_var set_var
       init_local set_ip next_ip print modify ret fail unsup panic
       add_rstep limit_reached data_depth ip set_ip_raw
       set_ds set_rs set_loops set_special set_heap set_cx set_rlog set_out set_stopping
       dict heap code dbg sources input ds rs flows loops special cx nested meter insn_limit
       heap_limit stack_limit rlog out last_tok stopping];
  break_matches; intros Hx; try discriminate Hx.

Lemma push_data_cause c : P_cause (push_data c).
Proof.
  intros s p s' H. unfold push_data, limit_reached in H.
  destruct (stack_limit s) as [S|] eqn:E; [|discriminate].
  destruct (S <=? Z.of_nat (length (ds s)))%Z eqn:E1; [|discriminate].
  injection H as <- <-. split; [reflexivity|]. exists S. split; [reflexivity|]. apply Z.leb_le. exact E1.
Qed.

Lemma over_data_cause : P_cause over_data.
Proof.
  intros s p s' H. unfold over_data in H.
  destruct (ds s) as [|a [|b r]]; try discriminate.
  destruct (2 <=? data_depth s); [|discriminate].
  apply push_data_cause in H. rewrite add_rstep_stack_limit in H. exact H.
Qed.

Lemma wlx_cause : forall A (m : M A), wlx m -> P_cause m.
Proof.
  induction 1; try (cause_prim; fail).
  - (* fail *) intros s p0 s' Hx. unfold fail in Hx. injection Hx as -> _ _. contradiction.
  - (* bind *)
    intros s p s' Hx. unfold bind in Hx.
    pose proof (wl_lim _ _ (wlx_wl _ _ H) s) as L.
    destruct (m s) as [a s1|e q s1| |] eqn:E; try discriminate.
    + cbn [res_all] in L. destruct L as (_ & _ & _ & L4 & _).
      destruct (H1 a s1 p s' Hx) as [Hp (S & HS & Hle)]. split; [exact Hp|].
      exists S. split; [congruence|exact Hle].
    + injection Hx as -> -> ->. eapply IHwlx. exact E.
  - (* get *) intros s p s' Hx. unfold bind, get in Hx. eapply H0. exact Hx.
  - apply push_data_cause.
  - apply over_data_cause.
Qed.

(* ---------- one whole instruction ---------- *)
Section WithTable.
  Variable nf : natives.
  Hypothesis Hnf : forall w f, nf w = Some f -> wlx f.

  Lemma Hnf_wl : forall w f, nf w = Some f -> wl f.
  Proof. intros w f H. apply wlx_wl. eapply Hnf. exact H. Qed.

  Lemma exec_op_relim : forall ip0 op, P_relim (exec_op nf ip0 op).
  Proof. intros. apply wlx_relim. apply wlx_exec_op. exact Hnf. Qed.

  Lemma exec_op_cause : forall ip0 op, P_cause (exec_op nf ip0 op).
  Proof. intros. apply wlx_cause. apply wlx_exec_op. exact Hnf. Qed.

  (* the new instruction limit leaves at least as much room as the old one *)
  Definition room_le (s : state) (mt : Z) (i : option Z) : Prop :=
    match i with
    | None => True
    | Some N' => match insn_limit s with
                 | Some N => (N - meter s <= N' - mt)%Z
                 | None => False
                 end
    end.

  Lemma mlim_room s mt i h k d :
    room_le s mt i -> mlim s (meter s + d)%Z = false -> mlim (relim mt i h k s) (mt + d)%Z = false.
  Proof.
    unfold room_le, mlim. change (insn_limit (relim mt i h k s)) with i.
    destruct i as [N'|]; [|reflexivity].
    destruct (insn_limit s) as [N|]; [|contradiction].
    intros H E. apply Z.leb_gt in E. apply Z.leb_gt. lia.
  Qed.

  Lemma far_eq_res_limit : forall t name e,
    mlim t (meter t) = false -> nth_error (code t) (ip t) = Some (OResolve name) ->
    dict_entry t name = Some e -> mlim t (meter t + 1)%Z = true ->
    fetch_and_run nf t =
    RErr ELimit None (set_code (set_meter t (meter t + 1)%Z) (list_set (code t) (ip t) (resolve_op e))).
  Proof.
    intros t name e H0 H1 H2 H3. unfold fetch_and_run. rewrite meter_increase_eq, H0.
    change (code (set_meter t (meter t + 1)%Z)) with (code t). rewrite H1.
    change (dict_entry (set_meter t (meter t + 1)%Z) name) with (dict_entry t name). rewrite H2.
    rewrite meter_increase_eq.
    change (mlim (set_code (set_meter t (meter t + 1)%Z) (list_set (code t) (ip t) (resolve_op e)))
                 (meter (set_code (set_meter t (meter t + 1)%Z) (list_set (code t) (ip t) (resolve_op e)))))
      with (mlim t (meter t + 1)%Z).
    rewrite H3. reflexivity.
  Qed.

  (* limits only ever turn a result into an [ELimit] failure: if the instruction does not fail
     with [ELimit] under the limits of [s], it gives the same result (success or error, same
     payload, same state up to meter and limits) under any limits that leave at least as much
     room, in particular on the unlimited machine *)
  Lemma far_eq_limit : forall t, mlim t (meter t) = true -> fetch_and_run nf t = RErr ELimit None t.
  Proof. intros t H. unfold fetch_and_run. rewrite meter_increase_eq, H. reflexivity. Qed.

  Lemma far_eq_panic : forall t,
    mlim t (meter t) = false -> nth_error (code t) (ip t) = None -> fetch_and_run nf t = RPanic.
  Proof.
    intros t H0 H1. unfold fetch_and_run. rewrite meter_increase_eq, H0.
    change (code (set_meter t (meter t + 1)%Z)) with (code t). rewrite H1. reflexivity.
  Qed.

  Lemma far_eq_plain : forall t op,
    mlim t (meter t) = false -> nth_error (code t) (ip t) = Some op -> (forall n, op <> OResolve n) ->
    fetch_and_run nf t = exec_op nf (ip t) op (set_meter t (meter t + 1)%Z).
  Proof.
    intros t op H0 H1 H2. unfold fetch_and_run. rewrite meter_increase_eq, H0.
    change (code (set_meter t (meter t + 1)%Z)) with (code t). rewrite H1.
    destruct op; try reflexivity. exfalso. eapply H2. reflexivity.
  Qed.

  Lemma far_eq_unknown : forall t name,
    mlim t (meter t) = false -> nth_error (code t) (ip t) = Some (OResolve name) ->
    dict_entry t name = None ->
    fetch_and_run nf t = RErr EUnknown None (set_meter t (meter t + 1)%Z).
  Proof.
    intros t name H0 H1 H2. unfold fetch_and_run. rewrite meter_increase_eq, H0.
    change (code (set_meter t (meter t + 1)%Z)) with (code t). rewrite H1.
    change (dict_entry (set_meter t (meter t + 1)%Z) name) with (dict_entry t name). rewrite H2. reflexivity.
  Qed.

  Lemma far_eq_res : forall t name e,
    mlim t (meter t) = false -> nth_error (code t) (ip t) = Some (OResolve name) ->
    dict_entry t name = Some e -> mlim t (meter t + 1)%Z = false ->
    fetch_and_run nf t =
    exec_op nf (ip t) (resolve_op e)
            (set_meter (set_code (set_meter t (meter t + 1)%Z) (list_set (code t) (ip t) (resolve_op e)))
                       (meter t + 1 + 1)%Z).
  Proof.
    intros t name e H0 H1 H2 H3. unfold fetch_and_run. rewrite meter_increase_eq, H0.
    change (code (set_meter t (meter t + 1)%Z)) with (code t). rewrite H1.
    change (dict_entry (set_meter t (meter t + 1)%Z) name) with (dict_entry t name). rewrite H2.
    rewrite meter_increase_eq.
    change (mlim (set_code (set_meter t (meter t + 1)%Z) (list_set (code t) (ip t) (resolve_op e)))
                 (meter (set_code (set_meter t (meter t + 1)%Z) (list_set (code t) (ip t) (resolve_op e)))))
      with (mlim t (meter t + 1)%Z).
    rewrite H3. reflexivity.
  Qed.

  (* limits only ever turn a result into an [ELimit] failure: if the instruction does not fail
     with [ELimit] under the limits of [s], it gives the same result (success or error, same
     payload, same state up to meter and limits) under any limits that leave at least as much
     room, in particular on the unlimited machine *)
  Lemma far_relim : forall s mt i h k,
    lim_le (stack_limit s) k -> room_le s mt i ->
    is_elimit (fetch_and_run nf s) = false ->
    fetch_and_run nf (relim mt i h k s) =
    res_map (fun x => relim (mt + (meter x - meter s))%Z i h k x) (fetch_and_run nf s).
  Proof.
    intros s mt i h k Hle Hroom Hne.
    pose proof (far_spec_holds nf s) as FS.
    set (t := relim mt i h k s).
    assert (M0 : forall d, mlim s (meter s + d)%Z = false -> mlim t (mt + d)%Z = false)
      by (intros d; apply mlim_room; exact Hroom).
    assert (M00 : mlim s (meter s) = false -> mlim t (meter t) = false).
    { intros E. change (meter t) with mt.
      replace mt with (mt + 0)%Z by lia. apply M0. replace (meter s + 0)%Z with (meter s) by lia. exact E. }
    assert (G : forall ip0 op s1 d, stack_limit s1 = stack_limit s -> meter s1 = (meter s + d)%Z ->
                is_elimit (exec_op nf ip0 op s1) = false ->
                exec_op nf ip0 op (relim (mt + d)%Z i h k s1) =
                res_map (fun x => relim (mt + (meter x - meter s))%Z i h k x) (exec_op nf ip0 op s1)).
    { intros ip0 op s1 d E1 E2 Hn.
      rewrite (exec_op_relim ip0 op s1 (mt + d)%Z i h k) by (rewrite ?E1; assumption).
      pose proof (exec_op_lim nf Hnf_wl ip0 op s1) as L.
      destruct (exec_op nf ip0 op s1) as [u x|e q x| |]; cbn [res_map res_all] in *; try reflexivity;
        destruct L as (L1 & _); (replace (mt + (meter x - meter s))%Z with (mt + d)%Z by lia); reflexivity. }
    inversion FS as [E0 Hr|E0 E1 Hr|op E0 E1 Nr Hr|name E0 E1 E2 Hr|name e E0 E1 E2 E3 Hr|name e E0 E1 E2 E3 Hr];
      rewrite <- Hr in Hne.
    - (* insn limit *) discriminate.
    - (* panic *) rewrite far_eq_panic; [reflexivity|apply M00; exact E0|exact E1].
    - (* plain *)
      rewrite (far_eq_plain t op (M00 E0) E1 Nr).
      change (ip t) with (ip s).
      change (set_meter t (meter t + 1)%Z) with (relim (mt + 1)%Z i h k (set_meter s (meter s + 1)%Z)).
      apply G; [reflexivity|reflexivity|exact Hne].
    - (* unknown word *)
      rewrite (far_eq_unknown t name (M00 E0) E1 E2).
      cbn [res_map]. f_equal. cbn [set_meter meter].
      replace (mt + (meter s + 1 - meter s))%Z with (mt + 1)%Z by lia. reflexivity.
    - (* second fetch refused *) discriminate.
    - (* resolved *)
      rewrite (far_eq_res t name e (M00 E0) E1 E2 (M0 1%Z E3)).
      change (ip t) with (ip s).
      change (set_meter (set_code (set_meter t (meter t + 1)%Z) (list_set (code t) (ip s) (resolve_op e)))
                        (meter t + 1 + 1)%Z)
        with (relim (mt + 1 + 1)%Z i h k
                    (set_meter (set_code (set_meter s (meter s + 1)%Z) (list_set (code s) (ip s) (resolve_op e)))
                               (meter s + 1 + 1)%Z)).
      replace (mt + 1 + 1)%Z with (mt + 2)%Z by lia.
      apply G; [reflexivity|cbn [set_meter meter]; lia|exact Hne].
  Qed.

  (* a limit failure of a whole instruction: either the instruction limit (first fetch: nothing
     changed; second fetch of a [late] word: the cell is resolved and the first fetch counted),
     or a push refused by the stack limit somewhere inside the instruction *)
  Inductive limit_cause (s s' : state) : Prop :=
  | lc_insn : forall N, insn_limit s = Some N -> (N <= meter s)%Z -> s' = s -> limit_cause s s'
  | lc_insn_resolve : forall N name e,
      insn_limit s = Some N -> (meter s + 1 = N)%Z ->
      nth_error (code s) (ip s) = Some (OResolve name) -> dict_entry s name = Some e ->
      s' = set_code (set_meter s (meter s + 1)%Z) (list_set (code s) (ip s) (resolve_op e)) ->
      limit_cause s s'
  | lc_stack : forall S,
      stack_limit s = Some S -> (S <= Z.of_nat (length (ds s')))%Z ->
      mlim s (meter s) = false ->
      (meter s' = meter s + 1 \/ meter s' = meter s + 2)%Z ->
      limit_cause s s'.

  Lemma far_limit_cause : forall s p s',
    fetch_and_run nf s = RErr ELimit p s' -> p = None /\ limit_cause s s'.
  Proof.
    intros s p s' H.
    assert (ML : forall d, mlim s (meter s + d)%Z = true ->
                 exists N, insn_limit s = Some N /\ (N <= meter s + d)%Z).
    { intros d E. unfold mlim in E. destruct (insn_limit s) as [N|]; [|discriminate].
      exists N. split; [reflexivity|apply Z.leb_le; exact E]. }
    assert (MG : forall d, mlim s (meter s + d)%Z = false ->
                 forall N, insn_limit s = Some N -> (meter s + d < N)%Z).
    { intros d E N EN. unfold mlim in E. rewrite EN in E. apply Z.leb_gt. exact E. }
    assert (X : forall i o s1 d, (d = 1 \/ d = 2)%Z -> mlim s (meter s) = false ->
                stack_limit s1 = stack_limit s -> meter s1 = (meter s + d)%Z ->
                exec_op nf i o s1 = RErr ELimit p s' -> p = None /\ limit_cause s s').
    { intros i o s1 d Hd E0 E1 E2 Hx.
      pose proof (exec_op_lim nf Hnf_wl i o s1) as L. rewrite Hx in L.
      cbn [res_all] in L. destruct L as (L1 & _).
      destruct (exec_op_cause _ _ _ _ _ Hx) as [Hp (S & HS & Hle)]. split; [exact Hp|].
      eapply lc_stack; [rewrite <- E1; exact HS|exact Hle|exact E0|].
      destruct Hd as [-> | ->]; [left|right]; lia. }
    destruct (mlim s (meter s)) eqn:E0.
    - clear X. rewrite far_eq_limit in H by exact E0. injection H as <- <-. split; [reflexivity|].
      replace (meter s) with (meter s + 0)%Z in E0 by lia.
      destruct (ML _ E0) as (N & EN & Hle). eapply lc_insn; [exact EN|lia|reflexivity].
    - destruct (nth_error (code s) (ip s)) as [op|] eqn:E1;
        [|rewrite far_eq_panic in H by assumption; discriminate].
      assert (D : (exists name, op = OResolve name) \/ (forall n, op <> OResolve n))
        by (destruct op; try (right; intros n; discriminate); left; eexists; reflexivity).
      destruct D as [[name ->]|Nr].
      + destruct (dict_entry s name) as [e|] eqn:E2;
          [|rewrite (far_eq_unknown s name E0 E1 E2) in H; discriminate].
        destruct (mlim s (meter s + 1)%Z) eqn:E3.
        * rewrite (far_eq_res_limit s name e E0 E1 E2 E3) in H. injection H as <- <-.
          split; [reflexivity|].
          destruct (ML _ E3) as (N & EN & Hle).
          replace (meter s) with (meter s + 0)%Z in E0 by lia.
          pose proof (MG _ E0 N EN) as Hlt.
          eapply lc_insn_resolve; [exact EN|lia|exact E1|exact E2|reflexivity].
        * rewrite (far_eq_res s name e E0 E1 E2 E3) in H.
          eapply (X _ _ _ 2%Z); [right; reflexivity|reflexivity| | |exact H]; [reflexivity|cbn [set_meter meter]; lia].
      + rewrite (far_eq_plain s op E0 E1 Nr) in H.
        eapply (X _ _ _ 1%Z); [left; reflexivity|reflexivity| | |exact H]; reflexivity.
  Qed.

  (* ---------- the meter ---------- *)
  (* whatever the result, an instruction that gets past the first check advances the meter by
     one, or by two when it first resolves a [late] word; limits play no role *)
  Definition at_resolve (s : state) : bool :=
    match nth_error (code s) (ip s) with Some (OResolve _) => true | _ => false end.

  (* the five ways an instruction step can go *)
  Lemma far_cases : forall s,
    (mlim s (meter s) = true /\ fetch_and_run nf s = RErr ELimit None s) \/
    (mlim s (meter s) = false /\ nth_error (code s) (ip s) = None /\ fetch_and_run nf s = RPanic) \/
    (exists op, mlim s (meter s) = false /\ nth_error (code s) (ip s) = Some op /\
                (forall n, op <> OResolve n) /\ at_resolve s = false /\
                fetch_and_run nf s = exec_op nf (ip s) op (set_meter s (meter s + 1)%Z)) \/
    (exists name, mlim s (meter s) = false /\ nth_error (code s) (ip s) = Some (OResolve name) /\
                  dict_entry s name = None /\
                  fetch_and_run nf s = RErr EUnknown None (set_meter s (meter s + 1)%Z)) \/
    (exists name e, mlim s (meter s) = false /\ nth_error (code s) (ip s) = Some (OResolve name) /\
                    dict_entry s name = Some e /\ mlim s (meter s + 1)%Z = true /\
                    fetch_and_run nf s =
                    RErr ELimit None (set_code (set_meter s (meter s + 1)%Z)
                                               (list_set (code s) (ip s) (resolve_op e)))) \/
    (exists name e, mlim s (meter s) = false /\ nth_error (code s) (ip s) = Some (OResolve name) /\
                    dict_entry s name = Some e /\ mlim s (meter s + 1)%Z = false /\
                    fetch_and_run nf s =
                    exec_op nf (ip s) (resolve_op e)
                            (set_meter (set_code (set_meter s (meter s + 1)%Z)
                                                 (list_set (code s) (ip s) (resolve_op e)))
                                       (meter s + 1 + 1)%Z)).
  Proof.
    intros s. destruct (mlim s (meter s)) eqn:E0.
    - left. split; [reflexivity|apply far_eq_limit; exact E0].
    - right. destruct (nth_error (code s) (ip s)) as [op|] eqn:E1.
      + right.
        assert (D : (exists name, op = OResolve name) \/ (forall n, op <> OResolve n))
          by (destruct op; try (right; intros n; discriminate); left; eexists; reflexivity).
        destruct D as [[name ->]|Nr].
        * right. destruct (dict_entry s name) as [e|] eqn:E2.
          -- right. destruct (mlim s (meter s + 1)%Z) eqn:E3.
             ++ left. exists name, e. repeat split; try assumption. eapply far_eq_res_limit; eassumption.
             ++ right. exists name, e. repeat split; try assumption. eapply far_eq_res; eassumption.
          -- left. exists name. repeat split; try assumption. eapply far_eq_unknown; eassumption.
        * left. exists op. repeat split; try assumption.
          -- unfold at_resolve. rewrite E1. destruct op; try reflexivity. exfalso. eapply Nr. reflexivity.
          -- apply far_eq_plain; assumption.
      + left. repeat split. apply far_eq_panic; assumption.
  Qed.

  Lemma far_meter_ok : forall s s',
    fetch_and_run nf s = ROk tt s' ->
    meter s' = (meter s + (if at_resolve s then 2 else 1))%Z.
  Proof.
    intros s s' H.
    assert (X : forall i o s1, exec_op nf i o s1 = ROk tt s' -> meter s' = meter s1).
    { intros i o s1 Hx. pose proof (exec_op_lim nf Hnf_wl i o s1) as L. rewrite Hx in L.
      cbn [res_all] in L. apply L. }
    destruct (far_cases s) as [(E0 & F)|[(E0 & E1 & F)|[(op & E0 & E1 & Nr & Ar & F)|[(name & E0 & E1 & E2 & F)|
                              [(name & e & E0 & E1 & E2 & E3 & F)|(name & e & E0 & E1 & E2 & E3 & F)]]]]];
      rewrite F in H; try discriminate.
    - rewrite Ar. apply X in H. rewrite H. reflexivity.
    - unfold at_resolve. rewrite E1. apply X in H. rewrite H. cbn [set_meter meter]. lia.
  Qed.

  Lemma far_meter_any : forall s r s',
    fetch_and_run nf s = r -> res_state r = Some s' ->
    (meter s <= meter s' <= meter s + 2)%Z /\
    (forall N, insn_limit s = Some N -> (meter s <= N)%Z -> (meter s' <= N)%Z).
  Proof.
    intros s r s' H Hr.
    assert (ML : forall N d, insn_limit s = Some N -> mlim s (meter s + d)%Z = false -> (meter s + d < N)%Z).
    { intros N d EN E. unfold mlim in E. rewrite EN in E. apply Z.leb_gt in E. exact E. }
    assert (ML0 : forall N, insn_limit s = Some N -> mlim s (meter s) = false -> (meter s < N)%Z).
    { intros N EN E. specialize (ML N 0%Z EN). replace (meter s + 0)%Z with (meter s) in ML by lia.
      specialize (ML E). lia. }
    assert (X : forall i o s1, res_state (exec_op nf i o s1) = Some s' -> meter s' = meter s1).
    { intros i o s1 Hx. pose proof (exec_op_lim nf Hnf_wl i o s1) as L.
      destruct (exec_op nf i o s1); cbn [res_state res_all] in *; try discriminate;
        injection Hx as <-; apply L. }
    destruct (far_cases s) as [(E0 & F)|[(E0 & E1 & F)|[(op & E0 & E1 & Nr & Ar & F)|[(name & E0 & E1 & E2 & F)|
                              [(name & e & E0 & E1 & E2 & E3 & F)|(name & e & E0 & E1 & E2 & E3 & F)]]]]];
      rewrite F in H; subst r; cbn [res_state] in Hr; try discriminate.
    - injection Hr as <-. split; [lia|auto].
    - apply X in Hr. cbn [set_meter meter] in Hr.
      split; [lia|intros N EN _; specialize (ML0 N EN E0); lia].
    - injection Hr as <-. cbn [set_meter meter]. split; [lia|intros N EN _; specialize (ML0 N EN E0); lia].
    - injection Hr as <-. cbn [set_code set_meter meter]. split; [lia|intros N EN _; specialize (ML0 N EN E0); lia].
    - apply X in Hr. cbn [set_meter meter] in Hr.
      split; [lia|intros N EN _; specialize (ML N 1%Z EN E3); lia].
  Qed.
End WithTable.
