(* F64IeeeConv.v: the integer-arithmetic conversions of Model/F64c.v agree with Flocq:
   rne_shr is ZnearestE of a / 2^k, rounding of m * 2^e to binary64 in integer terms,
   f64_of_int = Flocq's binary_normalize, f64_to_int = saturated Ztrunc, f64_round = ZnearestA. *)
From Coq Require Import ZArith Reals Lia Lra Psatz.
From Flocq Require Import Core.Core IEEE754.BinarySingleNaN IEEE754.Binary IEEE754.Bits.
From Xeh Require Import Model.Prelude Model.Cell Model.F64c Model.Words Model.Boot Model.F64.
From Xeh Require Import Proofs.ArithNum Proofs.F64cProofs Proofs.F64Ieee.
Local Open Scope Z_scope.

Lemma bpow2 k : 0 <= k -> bpow radix2 k = IZR (2 ^ k).
Proof. intros H. rewrite <- (IZR_Zpower radix2) by exact H. reflexivity. Qed.

(* nearest integer of a / 2^k for any tie-breaking rule *)
Lemma nearest_shr choice a k : 0 <= a -> 0 < k ->
  Znearest choice (IZR a * bpow radix2 (- k)) =
  let q := a / 2 ^ k in
  match a mod 2 ^ k ?= 2 ^ (k - 1) with
  | Lt => q | Eq => if choice q then q + 1 else q | Gt => q + 1
  end.
Proof.
  intros Ha Hk. cbv zeta.
  set (P := 2 ^ k). set (h := 2 ^ (k - 1)).
  assert (HP : P = 2 * h). { unfold P, h. replace k with (1 + (k - 1)) at 1 by lia. rewrite Z.pow_add_r by lia. reflexivity. }
  assert (Hh : 0 < h) by (apply Z.pow_pos_nonneg; lia).
  pose proof (Z.div_mod a P ltac:(lia)) as DM. pose proof (Z.mod_pos_bound a P ltac:(lia)) as MB.
  set (q := a / P) in *. set (r := a mod P) in *.
  rewrite bpow_opp, (bpow2 k) by lia. fold P.
  assert (RP : (0 < IZR P)%R) by (apply IZR_lt; lia).
  assert (Fl : Zfloor (IZR a * / IZR P) = q). { apply (Zfloor_div a P). lia. }
  assert (Fr : (IZR a * / IZR P - IZR q = IZR r * / IZR P)%R).
  { rewrite DM. rewrite plus_IZR, mult_IZR. field. lra. }
  assert (Cmp : Rcompare (IZR r * / IZR P) (/ 2) = (r ?= h)).
  { rewrite <- (Rcompare_mult_r (IZR P)) by exact RP.
    replace (IZR r * / IZR P * IZR P)%R with (IZR r) by (field; lra).
    replace (/ 2 * IZR P)%R with (IZR h) by (rewrite HP, mult_IZR; field).
    apply Rcompare_IZR. }
  unfold Znearest. rewrite Fl, Fr, Cmp.
  assert (Ce : r <> 0 -> Zceil (IZR a * / IZR P) = q + 1).
  { intros Hr. rewrite Zceil_floor_neq; [rewrite Fl; reflexivity|]. rewrite Fl. intros E.
    assert (IZR r * / IZR P = 0)%R as E2 by lra.
    apply Rmult_integral in E2. destruct E2 as [E2|E2].
    - apply eq_IZR in E2. contradiction.
    - pose proof (Rinv_0_lt_compat _ RP). lra. }
  destruct (Z.compare_spec r h) as [E|L|G].
  - destruct (choice q); [|reflexivity]. apply Ce. lia.
  - reflexivity.
  - apply Ce. lia.
Qed.

Lemma rne_shr_nearest a k : 0 <= a -> 0 < k ->
  ZnearestE (IZR a * bpow radix2 (- k)) = rne_shr a k.
Proof.
  intros Ha Hk. rewrite nearest_shr by assumption. cbv zeta.
  unfold rne_shr. replace (k <=? 0) with false by lia. cbv zeta.
  rewrite <- Z.negb_even.
  destruct (Z.compare_spec (a mod 2 ^ k) (2 ^ (k - 1))) as [E|L|G].
  - replace (2 ^ (k - 1) <? a mod 2 ^ k) with false by lia. replace (a mod 2 ^ k =? 2 ^ (k - 1)) with true by lia.
    reflexivity.
  - replace (2 ^ (k - 1) <? a mod 2 ^ k) with false by lia. replace (a mod 2 ^ k =? 2 ^ (k - 1)) with false by lia.
    reflexivity.
  - replace (2 ^ (k - 1) <? a mod 2 ^ k) with true by lia. reflexivity.
Qed.

(* halves away from zero, on a non-negative a / 2^k: round half up *)
Lemma half_up_nearest a k : 0 <= a -> 0 < k ->
  ZnearestA (IZR a * bpow radix2 (- k)) = if 2 ^ (k - 1) <=? a mod 2 ^ k then a / 2 ^ k + 1 else a / 2 ^ k.
Proof.
  intros Ha Hk. rewrite nearest_shr by assumption. cbv zeta.
  assert (0 <= a / 2 ^ k) by (apply Z.div_pos; [lia|apply Z.pow_pos_nonneg; lia]).
  replace (0 <=? a / 2 ^ k) with true by lia.
  destruct (Z.compare_spec (a mod 2 ^ k) (2 ^ (k - 1))) as [E|L|G].
  - replace (2 ^ (k - 1) <=? a mod 2 ^ k) with true by lia. reflexivity.
  - replace (2 ^ (k - 1) <=? a mod 2 ^ k) with false by lia. reflexivity.
  - replace (2 ^ (k - 1) <=? a mod 2 ^ k) with true by lia. reflexivity.
Qed.

Lemma nearest_IZR choice n : Znearest choice (IZR n) = n.
Proof. apply Znearest_imp. rewrite Rminus_diag_eq by reflexivity. rewrite Rabs_R0. lra. Qed.

Lemma nearestA_opp x : ZnearestA (- x) = - ZnearestA x.
Proof.
  rewrite Znearest_opp. f_equal. unfold Znearest.
  destruct (Rcompare (x - IZR (Zfloor x)) (/ 2)); try reflexivity.
  replace (negb (0 <=? - (Zfloor x + 1))) with (0 <=? Zfloor x) by lia. reflexivity.
Qed.

Lemma nearestA_cond s x : ZnearestA (cond_Ropp s x) = cond_Zopp s (ZnearestA x).
Proof. destruct s; cbn [cond_Ropp cond_Zopp]; [apply nearestA_opp|reflexivity]. Qed.

Lemma Zdigits_bitlen a : 0 < a -> Zdigits radix2 a = bitlen a.
Proof.
  intros Ha. symmetry. pose proof (Zdigits_correct radix2 a) as C.
  rewrite Z.abs_eq in C by lia.
  assert (0 < Zdigits radix2 a) by (apply Zdigits_gt_0; lia).
  apply bitlen_unique; [lia|]. exact C.
Qed.

(* rounding m * 2^e (m > 0) to binary64: the significand is shifted to the canonical exponent *)
Lemma round_scaled a e : 0 < a ->
  let c := Z.max (bitlen a + e - 53) (-1074) in
  rnd64 (IZR a * bpow radix2 e) = (IZR (rne_shr a (c - e)) * bpow radix2 c)%R.
Proof.
  intros Ha c. unfold rnd64, round.
  assert (X : (IZR a * bpow radix2 e)%R = F2R (Float radix2 a e)) by reflexivity.
  assert (Hc : cexp radix2 (FLT_exp (-1074) 53) (IZR a * bpow radix2 e) = c).
  { unfold cexp. rewrite X, mag_F2R_Zdigits by lia. rewrite Zdigits_bitlen by exact Ha. reflexivity. }
  unfold scaled_mantissa. rewrite Hc. unfold F2R. cbn [Fnum Fexp]. f_equal. f_equal.
  rewrite Rmult_assoc, <- bpow_plus.
  destruct (Z.leb_spec (c - e) 0) as [K|K].
  - unfold rne_shr. replace (c - e <=? 0) with true by lia.
    replace (e + - c) with (- (c - e)) by lia. rewrite bpow2 by lia. rewrite <- mult_IZR. apply nearest_IZR.
  - replace (e + - c) with (- (c - e)) by lia. apply rne_shr_nearest; lia.
Qed.

Lemma fval_mag p : f64_pat p -> f64_exp p <> 2047 ->
  fval p = cond_Ropp (f64_neg p) (IZR (f64_mant p) * bpow radix2 (f64_ex p)).
Proof. intros H F. rewrite (fval_spec p H F), F2R_cond_Zopp. reflexivity. Qed.

Lemma fval_pack s E m : 1 <= E -> 2 ^ 52 <= m <= 2 ^ 53 -> (E <= 2045 \/ (E <= 2046 /\ m < 2 ^ 53)) ->
  let p := f64_sign_bit s + E * 2 ^ 52 + (m - 2 ^ 52) in
  f64_pat p /\ f64_neg p = s /\ f64_exp p <> 2047 /\
  fval p = cond_Ropp s (IZR m * bpow radix2 (E - 1075)).
Proof.
  intros HE Hm Hov p.
  destruct (Z.eq_dec m (2 ^ 53)) as [M|M].
  - assert (Ep : p = f64_sign_bit s + (E + 1) * 2 ^ 52 + 0) by (unfold p; rewrite M, p53, p52; lia).
    destruct (f64_fields s (E + 1) 0 ltac:(lia) ltac:(rewrite p52; lia)) as (P1 & P2 & P3 & P4).
    cbv zeta in P1, P2, P3, P4. rewrite <- Ep in P1, P2, P3, P4.
    split; [exact P1|]. split; [exact P4|]. split; [lia|].
    rewrite (fval_mag p P1) by lia. rewrite P4. unfold f64_mant, f64_ex. rewrite P2, P3.
    replace (E + 1 =? 0) with false by lia. f_equal. rewrite M.
    replace (E + 1 - 1075) with (1 + (E - 1075)) by lia. rewrite bpow_plus.
    replace (2 ^ 52 + 0) with (2 ^ 52) by lia.
    change (2 ^ 53) with (2 ^ 52 * 2). rewrite mult_IZR. change (bpow radix2 1) with 2%R. ring.
  - destruct (f64_fields s E (m - 2 ^ 52) ltac:(lia) ltac:(rewrite p52 in *; rewrite p53 in *; lia)) as (P1 & P2 & P3 & P4).
    cbv zeta in P1, P2, P3, P4. fold p in P1, P2, P3, P4.
    split; [exact P1|]. split; [exact P4|]. split; [lia|].
    rewrite (fval_mag p P1) by lia. rewrite P4. unfold f64_mant, f64_ex. rewrite P2, P3.
    replace (E =? 0) with false by lia. f_equal. f_equal. f_equal. lia.
Qed.

Lemma fval_pack_sub s n : 0 <= n <= 2 ^ 52 ->
  let p := f64_sign_bit s + n in
  f64_pat p /\ f64_neg p = s /\ f64_exp p <> 2047 /\
  fval p = cond_Ropp s (IZR n * bpow radix2 (-1074)).
Proof.
  intros Hn p.
  destruct (Z.eq_dec n (2 ^ 52)) as [M|M].
  - assert (Ep : p = f64_sign_bit s + 1 * 2 ^ 52 + 0) by (unfold p; rewrite M; lia).
    destruct (f64_fields s 1 0 ltac:(lia) ltac:(rewrite p52; lia)) as (P1 & P2 & P3 & P4).
    cbv zeta in P1, P2, P3, P4. rewrite <- Ep in P1, P2, P3, P4.
    split; [exact P1|]. split; [exact P4|]. split; [lia|].
    rewrite (fval_mag p P1) by lia. rewrite P4. unfold f64_mant, f64_ex. rewrite P2, P3.
    cbn [Z.eqb]. rewrite M. f_equal.
  - assert (Ep : p = f64_sign_bit s + 0 * 2 ^ 52 + n) by (unfold p; lia).
    destruct (f64_fields s 0 n ltac:(lia) ltac:(lia)) as (P1 & P2 & P3 & P4).
    cbv zeta in P1, P2, P3, P4. rewrite <- Ep in P1, P2, P3, P4.
    split; [exact P1|]. split; [exact P4|]. split; [lia|].
    rewrite (fval_mag p P1) by lia. rewrite P4. unfold f64_mant, f64_ex. rewrite P2, P3.
    reflexivity.
Qed.

#[local] Instance prec53 : Prec_gt_0 53 := eq_refl.

Lemma sig_of_rne a : sig_of a = rne_shr a (bitlen a - 53).
Proof.
  unfold sig_of, rne_shr. cbv zeta.
  destruct (Z.leb_spec (bitlen a) 53).
  - replace (bitlen a - 53 <=? 0) with true by lia. f_equal. f_equal. lia.
  - replace (bitlen a - 53 <=? 0) with false by lia. reflexivity.
Qed.

Lemma cond_Ropp_0 s : cond_Ropp s 0 = 0%R.
Proof. destruct s; cbn; lra. Qed.

Lemma of_mag_correct s a : 0 <= a < 2 ^ 1023 ->
  let p := f64_of_mag s a in
  f64_pat p /\ f64_neg p = s /\ f64_exp p <> 2047 /\ fval p = cond_Ropp s (rnd64 (IZR a)).
Proof.
  intros Ha p. unfold p. rewrite f64_of_mag_pat. unfold mag_pat.
  destruct (Z.eqb_spec a 0) as [A0|A0].
  - destruct (fval_pack_sub s 0 ltac:(lia)) as (P1 & P2 & P3 & P4). cbv zeta in P1, P2, P3, P4.
    split; [exact P1|]. split; [exact P2|]. split; [exact P3|].
    rewrite P4, A0. unfold rnd64. rewrite round_0 by typeclasses eauto. rewrite Rmult_0_l. reflexivity.
  - assert (Hpos : 0 < a) by lia.
    destruct (bitlen_spec a Hpos) as (L1 & _).
    assert (L2 : bitlen a <= 1023) by (apply bitlen_le; lia).
    pose proof (sig_of_range a Hpos) as SR.
    replace (f64_sign_bit s + ((bitlen a + 1021) * 2 ^ 52 + sig_of a))
      with (f64_sign_bit s + (bitlen a + 1022) * 2 ^ 52 + (sig_of a - 2 ^ 52)) by lia.
    destruct (fval_pack s (bitlen a + 1022) (sig_of a) ltac:(lia) SR ltac:(lia)) as (P1 & P2 & P3 & P4).
    cbv zeta in P1, P2, P3, P4.
    split; [exact P1|]. split; [exact P2|]. split; [exact P3|].
    rewrite P4. f_equal.
    rewrite <- (Rmult_1_r (IZR a)). change 1%R with (bpow radix2 0).
    rewrite (round_scaled a 0 Hpos). cbv zeta.
    replace (Z.max (bitlen a + 0 - 53) (-1074)) with (bitlen a - 53) by lia.
    rewrite sig_of_rne. f_equal; [f_equal; f_equal; lia|f_equal; lia].
Qed.

(* Flocq's correctly rounded conversion of an integer *)
Definition b64_of_Z (z : Z) : binary64 := binary_normalize 53 1024 eq_refl eq_refl mode_NE z 0 false.

Lemma rnd64_small x : (Rabs x < bpow radix2 1023)%R -> (Rabs (rnd64 x) < bpow radix2 1024)%R.
Proof.
  intros H. apply Rle_lt_trans with (bpow radix2 1023); [|apply bpow_lt; lia].
  unfold rnd64. apply abs_round_le_generic; try typeclasses eauto.
  - apply generic_format_bpow. unfold FLT_exp. lia.
  - lra.
Qed.

Lemma f64_of_int_flocq z : Z.abs z < 2 ^ 1023 -> f64_of_int z = bits_of_b64 (b64_of_Z z).
Proof.
  intros Hz. unfold f64_of_int.
  destruct (of_mag_correct (z <? 0) (Z.abs z) ltac:(lia)) as (P1 & P2 & P3 & P4). cbv zeta in P1, P2, P3, P4.
  set (p := f64_of_mag (z <? 0) (Z.abs z)) in *.
  rewrite <- (bits_round_trip p P1). f_equal.
  pose proof (binary_normalize_correct 53 1024 eq_refl eq_refl mode_NE z 0 false) as C.
  assert (FZ : F2R (Float radix2 z 0) = IZR z) by (unfold F2R; cbn; ring).
  rewrite FZ in C. change (round radix2 _ _ ?v) with (rnd64 v) in C.
  rewrite Rlt_bool_true in C.
  2:{ apply rnd64_small. rewrite <- abs_IZR. rewrite bpow2 by lia. apply IZR_lt. exact Hz. }
  destruct C as (C1 & C2 & C3). fold (b64_of_Z z) in C1, C2, C3.
  assert (V : IZR z = cond_Ropp (z <? 0) (IZR (Z.abs z))).
  { destruct (Z.ltb_spec z 0); cbn [cond_Ropp]; rewrite <- ?opp_IZR; f_equal; lia. }
  apply B2R_Bsign_inj.
  - apply fin_true; assumption.
  - exact C2.
  - fold (fval p). rewrite P4, C1. rewrite V.
    destruct (z <? 0); cbn [cond_Ropp]; [|reflexivity]. unfold rnd64. rewrite round_NE_opp. reflexivity.
  - rewrite b64_sign by exact P1. rewrite P2, C3. rewrite Rcompare_IZR.
    destruct (Z.compare_spec z 0); lia.
Qed.

Lemma fval_of_int z : Z.abs z < 2 ^ 1023 ->
  fval (f64_of_int z) = rnd64 (IZR z) /\ f64_exp (f64_of_int z) <> 2047 /\ f64_neg (f64_of_int z) = (z <? 0) /\
  f64_pat (f64_of_int z).
Proof.
  intros Hz. unfold f64_of_int.
  destruct (of_mag_correct (z <? 0) (Z.abs z) ltac:(lia)) as (P1 & P2 & P3 & P4). cbv zeta in P1, P2, P3, P4.
  split; [|split; [exact P3|split; [exact P2|exact P1]]]. rewrite P4.
  assert (V : IZR z = cond_Ropp (z <? 0) (IZR (Z.abs z))).
  { destruct (Z.ltb_spec z 0); cbn [cond_Ropp]; rewrite <- ?opp_IZR; f_equal; lia. }
  rewrite V. destruct (z <? 0); cbn [cond_Ropp]; [|reflexivity]. unfold rnd64. rewrite round_NE_opp. reflexivity.
Qed.

(* exact whenever the integer has at most 53 significant bits *)
Lemma of_int_exact m k : Z.abs m < 2 ^ 53 -> 0 <= k -> Z.abs (m * 2 ^ k) < 2 ^ 1023 ->
  fval (f64_of_int (m * 2 ^ k)) = IZR (m * 2 ^ k).
Proof.
  intros Hm Hk Hz. destruct (fval_of_int _ Hz) as (V & _). rewrite V. unfold rnd64.
  apply round_generic; [typeclasses eauto|].
  apply generic_format_FLT. exists (Float radix2 m k).
  - unfold F2R. cbn [Fnum Fexp]. rewrite mult_IZR, bpow2 by exact Hk. reflexivity.
  - cbn [Fnum]. exact Hm.
  - cbn [Fexp]. lia.
Qed.

Definition clamp128 (v : Z) : Z := if v <? i128_min then i128_min else if i128_max <? v then i128_max else v.

Lemma Ztrunc_cond s x : Ztrunc (cond_Ropp s x) = cond_Zopp s (Ztrunc x).
Proof. destruct s; cbn [cond_Ropp cond_Zopp]; [apply Ztrunc_opp|reflexivity]. Qed.

Lemma trunc_scaled m e : 0 <= m ->
  Ztrunc (IZR m * bpow radix2 e) = if 0 <=? e then m * 2 ^ e else m / 2 ^ (- e).
Proof.
  intros Hm. destruct (Z.leb_spec 0 e) as [He|He].
  - rewrite bpow2 by exact He. rewrite <- mult_IZR. apply Ztrunc_IZR.
  - replace e with (- (- e)) at 1 by lia. rewrite bpow_opp, bpow2 by lia.
    rewrite Ztrunc_floor.
    + apply (Zfloor_div m (2 ^ (- e))). apply Z.pow_nonzero; lia.
    + apply Rmult_le_pos; [apply IZR_le; exact Hm|].
      apply Rlt_le, Rinv_0_lt_compat, IZR_lt. apply Z.pow_pos_nonneg; lia.
Qed.

Lemma to_int_correct p : f64_pat p ->
  f64_to_int p =
  if f64_is_nan p then 0
  else if f64_exp p =? 2047 then (if f64_neg p then i128_min else i128_max)
  else clamp128 (Ztrunc (fval p)).
Proof.
  intros Hp. unfold f64_to_int. destruct (f64_is_nan p); [reflexivity|].
  destruct (Z.eqb_spec (f64_exp p) 2047) as [E|E]; [reflexivity|].
  rewrite (fval_mag p Hp E), Ztrunc_cond.
  destruct (f64_decompose p Hp) as (_ & He & Hm).
  assert (M0 : 0 <= f64_mant p) by (unfold f64_mant; rewrite p52 in *; destruct (f64_exp p =? 0); lia).
  rewrite trunc_scaled by exact M0. cbv zeta.
  destruct (Z.leb_spec 0 (f64_ex p)) as [X|X]; [|reflexivity].
  destruct (Z.ltb_spec 200 (f64_ex p)) as [Y|Y]; [|reflexivity].
  assert (M1 : 2 ^ 52 <= f64_mant p).
  { revert Y. unfold f64_mant, f64_ex. destruct (Z.eqb_spec (f64_exp p) 0); lia. }
  assert (B : 2 ^ 200 <= f64_mant p * 2 ^ f64_ex p).
  { assert (2 ^ 200 <= 2 ^ f64_ex p) by (apply Z.pow_le_mono_r; lia).
    assert (0 < 2 ^ 52) by reflexivity. nia. }
  assert (G : i128_max < 2 ^ 200) by reflexivity. assert (G2 : - 2 ^ 200 < i128_min) by reflexivity. assert (G3 : i128_min < 0) by reflexivity.
  unfold clamp128. destruct (f64_neg p); cbn [cond_Zopp].
  + replace (- 2 ^ 200 <? i128_min) with true by lia.
    replace (- (f64_mant p * 2 ^ f64_ex p) <? i128_min) with true by lia. reflexivity.
  + replace (2 ^ 200 <? i128_min) with false by lia. replace (i128_max <? 2 ^ 200) with true by lia.
    replace (f64_mant p * 2 ^ f64_ex p <? i128_min) with false by lia.
    replace (i128_max <? f64_mant p * 2 ^ f64_ex p) with true by lia. reflexivity.
Qed.

(* f64::round: nearest integer, halves away from zero, sign kept *)
Lemma round_nonfinite p : f64_exp p = 2047 -> f64_round p = p.
Proof. intros E. unfold f64_round. rewrite E. reflexivity. Qed.

Lemma round_correct p : f64_pat p -> f64_exp p <> 2047 ->
  let r := f64_round p in
  f64_pat r /\ f64_exp r <> 2047 /\ f64_neg r = f64_neg p /\ fval r = IZR (ZnearestA (fval p)).
Proof.
  intros Hp Fp. cbv zeta. unfold f64_round.
  replace (f64_exp p =? 2047) with false by lia.
  destruct (f64_decompose p Hp) as (_ & He & Hm).
  rewrite (fval_mag p Hp Fp). rewrite nearestA_cond.
  destruct (Z.leb_spec 1075 (f64_exp p)) as [G|G].
  - split; [exact Hp|]. split; [exact Fp|]. split; [reflexivity|].
    rewrite (fval_mag p Hp Fp). unfold f64_ex. replace (f64_exp p =? 0) with false by lia.
    rewrite bpow2 by lia. rewrite <- mult_IZR, nearest_IZR.
    destruct (f64_neg p); cbn [cond_Ropp cond_Zopp]; [rewrite opp_IZR|]; reflexivity.
  - cbv zeta.
    set (m := f64_mant p). set (k := - f64_ex p).
    assert (Hk : 0 < k) by (unfold k, f64_ex; destruct (Z.eqb_spec (f64_exp p) 0); lia).
    assert (Hm0 : 0 <= m < 2 ^ 53).
    { unfold m, f64_mant. rewrite p52 in *. rewrite p53. destruct (f64_exp p =? 0); lia. }
    replace (f64_ex p) with (- k) by (unfold k; lia).
    rewrite half_up_nearest by lia.
    set (q' := if 2 ^ (k - 1) <=? m mod 2 ^ k then m / 2 ^ k + 1 else m / 2 ^ k).
    assert (Hq : 0 <= q' <= 2 ^ 52).
    { assert (0 < 2 ^ k) by (apply Z.pow_pos_nonneg; lia).
      assert (0 <= m / 2 ^ k) by (apply Z.div_pos; lia).
      assert (m / 2 ^ k < 2 ^ 52).
      { apply Z.div_lt_upper_bound; [lia|]. assert (2 <= 2 ^ k).
        { change 2 with (2 ^ 1) at 1. apply Z.pow_le_mono_r; lia. }
        rewrite p53 in Hm0. rewrite p52. lia. }
      unfold q'. destruct (2 ^ (k - 1) <=? m mod 2 ^ k); lia. }
    destruct (of_mag_correct (f64_neg p) q') as (P1 & P2 & P3 & P4).
    { rewrite p52 in Hq. assert (2 ^ 52 < 2 ^ 1023) by reflexivity. rewrite p52 in *. lia. }
    cbv zeta in P1, P2, P3, P4.
    split; [exact P1|]. split; [exact P3|]. split; [exact P2|].
    rewrite P4. unfold rnd64. rewrite round_generic; [|typeclasses eauto|].
    + destruct (f64_neg p); cbn [cond_Ropp cond_Zopp]; [rewrite opp_IZR|]; reflexivity.
    + apply generic_format_FLT.
      destruct (Z.eq_dec q' (2 ^ 52)) as [Q|Q].
      * exists (Float radix2 1 52); [rewrite Q; unfold F2R; cbn [Fnum Fexp]; rewrite bpow2 by lia; ring|cbn; lia|cbn; lia].
      * exists (Float radix2 q' 0); [unfold F2R; cbn [Fnum Fexp bpow]; ring| |cbn; lia].
        change (Z.abs q' < 2 ^ 53). rewrite p52 in *. rewrite p53. lia.
Qed.

(* ---------- the same conversions in Flocq: Bnearbyint (mode_NA) and Btrunc ---------- *)
Lemma round_FIX rnd x : round radix2 (FIX_exp 0) rnd x = IZR (rnd x).
Proof.
  unfold round, scaled_mantissa, cexp, FIX_exp, F2R. cbn [Fnum Fexp Z.opp bpow]. rewrite !Rmult_1_r. reflexivity.
Qed.

Definition b64_round_away (b : binary64) : binary64 := Bnearbyint 53 1024 eq_refl unop_nan_pl64 mode_NA b.

Lemma round_flocq p : f64_pat p -> f64_round p = bits_of_b64 (b64_round_away (b64_of_bits p)).
Proof.
  intros Hp. destruct (Z.eq_dec (f64_exp p) 2047) as [E|E].
  - rewrite round_nonfinite by exact E. rewrite <- (bits_round_trip p Hp) at 1. f_equal.
    destruct (b64_cases p Hp) as [(Z0 & _)|[(_ & _ & B)|[(_ & pl & H & B)|(F & _)]]].
    + rewrite (is_zero_fields p Hp), E in Z0. discriminate Z0.
    + rewrite B. reflexivity.
    + rewrite B. reflexivity.
    + contradiction.
  - destruct (round_correct p Hp E) as (R1 & R2 & R3 & R4). cbv zeta in R1, R2, R3, R4.
    rewrite <- (bits_round_trip _ R1). f_equal.
    destruct (Bnearbyint_correct 53 1024 eq_refl unop_nan_pl64 mode_NA (b64_of_bits p)) as (C1 & C2 & C3).
    fold (b64_round_away (b64_of_bits p)) in C1, C2, C3.
    rewrite (fin_true p Hp E) in C2.
    apply B2R_Bsign_inj.
    + apply fin_true; assumption.
    + exact C2.
    + fold (fval (f64_round p)). rewrite R4, C1, round_FIX. reflexivity.
    + rewrite b64_sign by exact R1. rewrite R3, C3; [rewrite b64_sign by exact Hp; reflexivity|].
      destruct (b64_round_away (b64_of_bits p)); try reflexivity; discriminate C2.
Qed.

Lemma to_int_flocq p : f64_pat p -> f64_exp p <> 2047 ->
  f64_to_int p = clamp128 (Btrunc 53 1024 (b64_of_bits p)).
Proof.
  intros Hp E. rewrite (to_int_correct p Hp).
  assert (N : f64_is_nan p = false) by (unfold f64_is_nan; destruct (Z.eqb_spec (f64_exp p) 2047); [contradiction|reflexivity]).
  rewrite N. replace (f64_exp p =? 2047) with false by lia. f_equal.
  apply eq_IZR. rewrite Btrunc_correct by reflexivity. rewrite round_FIX. reflexivity.
Qed.
