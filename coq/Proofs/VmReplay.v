(* VmReplay.v: replay after rewinding (C02): forward runs from [eq_rev]-related states stay
   related step for step; the round trip  n forward / k backward / m forward;  arbitrary
   interleavings of forward and backward moves. *)
From Xeh Require Import Model.Prelude Model.Bits Model.Codec Model.Cell Model.Lexer Model.Fmt Model.Vm Model.Words.
From Xeh Require Import Proofs.VmFrame Proofs.VmRevBase Proofs.VmRevWords Proofs.VmRev
                        Proofs.VmReplayBase Proofs.VmReplayWords.
Local Notation length := List.length.

#[local] Arguments Z.add : simpl never.
#[local] Arguments Z.sub : simpl never.
#[local] Arguments Z.mul : simpl never.
#[local] Arguments Z.ltb : simpl never.
#[local] Arguments Z.leb : simpl never.
#[local] Arguments Z.eqb : simpl never.
#[local] Arguments Z.of_nat : simpl never.
#[local] Arguments Z.to_nat : simpl never.

(* ---------- words and opcodes leave the meter and the instruction limit alone ---------- *)
Definition mk_rel (s s' : state) : Prop :=
  meter s' = meter s /\ insn_limit s' = insn_limit s /\ code s' = code s.

Definition res_all {A} (P : state -> Prop) (r : res A) : Prop :=
  match r with
  | ROk _ s => P s
  | RErr _ _ s => P s
  | _ => True
  end.

Definition P_mk {A} (m : M A) : Prop := forall s, res_all (mk_rel s) (m s).

Ltac mk_prim :=
  let s := fresh "s" in
  intro s; destruct_state s;
  cbv [push_data pop_data top_data swap_data rot_data over_data push_return pop_return top_frame
       push_loop pop_loop loop_next loop_set_items push_special pop_special get_var set_var
       init_local set_ip next_ip print modify ret fail unsup panic
       add_rstep limit_reached data_depth ip set_ip_raw
       set_ds set_rs set_loops set_special set_heap set_cx set_rlog set_out set_stopping
       dict heap code dbg sources input ds rs flows loops special cx nested meter insn_limit
       heap_limit stack_limit rlog out last_tok stopping];
  break_matches;
  cbv [res_all mk_rel meter insn_limit code]; try exact I; repeat split; reflexivity.

Lemma wl_mk : forall A (m : M A), wl m -> P_mk m.
Proof.
  induction 1; try (mk_prim; fail).
  - (* bind *)
    intro s. unfold bind. specialize (IHwl s).
    destruct (m s) as [a s1 | k p s1 | |]; cbn [res_all] in *; auto.
    specialize (H1 a s1). destruct (f a s1); cbn [res_all] in *; auto;
      unfold mk_rel in *; destruct IHwl as (?&?&?), H1 as (?&?&?); repeat split; congruence.
  - (* get *)
    intro s. unfold bind, get. apply H0.
Qed.

(* ---------- iterated steps ---------- *)
Lemma steps_add nf i : forall j s,
  steps nf (i + j) s = match steps nf i s with Some t => steps nf j t | None => None end.
Proof.
  induction i; intros j s; cbn [steps Nat.add]; auto.
  destruct (fetch_and_run nf s) as [[] s1| | |]; auto.
Qed.

Lemma steps_le nf N i s sN : steps nf N s = Some sN -> i <= N -> exists si, steps nf i s = Some si.
Proof.
  intros H Hi. replace N with (i + (N - i)) in H by lia. rewrite steps_add in H.
  destruct (steps nf i s); eauto; discriminate.
Qed.

Lemma steps_succ nf n s sn sn' :
  steps nf n s = Some sn -> fetch_and_run nf sn = ROk tt sn' -> steps nf (S n) s = Some sn'.
Proof.
  intros H1 H2. replace (S n) with (n + 1) by lia. rewrite steps_add, H1. cbn [steps]. rewrite H2. reflexivity.
Qed.

(* ---------- rnext does not touch the meter and the output ---------- *)
Lemma rnext_meter_out s u s' : rnext s = ROk u s' -> meter s' = meter s /\ out s' = out s.
Proof.
  intro H. pose proof (rnext_mo (meter s) (out s) s) as E.
  assert (Hs : mo (meter s) (out s) s = s) by (destruct s; reflexivity).
  rewrite Hs, H in E. cbn [res_map] in E.
  assert (E' : s' = mo (meter s) (out s) s') by congruence.
  rewrite E'. split; reflexivity.
Qed.

Lemma rnexts_meter_out k : forall s s', rnexts k s = Some s' -> meter s' = meter s /\ out s' = out s.
Proof.
  induction k; intros s s' H; cbn [rnexts] in H.
  - injection H as <-. auto.
  - destruct (rnext s) as [[] s1| | |] eqn:E; try discriminate.
    destruct (rnext_meter_out _ _ _ E) as [A B]. destruct (IHk _ _ H) as [C D]. split; congruence.
Qed.

(* ---------- walks ---------- *)
Inductive move := Fwd | Back.

Fixpoint walk (nf : natives) (w : list move) (s : state) : option state :=
  match w with
  | [] => Some s
  | Fwd :: r => match fetch_and_run nf s with ROk _ s' => walk nf r s' | _ => None end
  | Back :: r => match rnext s with ROk _ s' => walk nf r s' | _ => None end
  end.

(* the position after the walk; None when the walk leaves the range 0..N *)
Fixpoint walk_pos (N : nat) (w : list move) (p : nat) : option nat :=
  match w with
  | [] => Some p
  | Fwd :: r => if p <? N then walk_pos N r (S p) else None
  | Back :: r => match p with O => None | S q => walk_pos N r q end
  end.

Fixpoint fwd_count (w : list move) : nat :=
  match w with
  | [] => 0
  | Fwd :: r => S (fwd_count r)
  | Back :: r => fwd_count r
  end.

Lemma walk_pos_le N w : forall p q, p <= N -> walk_pos N w p = Some q -> q <= N.
Proof.
  induction w as [|[] r IH]; intros p q Hp H; cbn [walk_pos] in H.
  - injection H as <-. auto.
  - destruct (p <? N) eqn:E; [|discriminate]. apply Nat.ltb_lt in E. eapply IH; [|eauto]. lia.
  - destruct p; [discriminate|]. eapply IH; [|eauto]. lia.
Qed.

Lemma walk_app nf a : forall b s,
  walk nf (a ++ b) s = match walk nf a s with Some t => walk nf b t | None => None end.
Proof.
  induction a as [|[] r IH]; intros b s; cbn [walk app]; auto.
  - destruct (fetch_and_run nf s); auto.
  - destruct (rnext s); auto.
Qed.

Lemma walk_backs nf k : forall s, walk nf (repeat Back k) s = rnexts k s.
Proof.
  induction k; intro s; cbn [repeat walk rnexts]; auto. destruct (rnext s); auto.
Qed.

Lemma walk_fwds nf m : forall s, walk nf (repeat Fwd m) s = steps nf m s.
Proof.
  induction m; intro s; cbn [repeat walk steps]; auto. destruct (fetch_and_run nf s); auto.
Qed.

(* ---------- meter bookkeeping ---------- *)
Lemma meter_ok_le j j' s : meter_ok j s -> (j' <= j)%Z -> meter_ok j' s.
Proof. unfold meter_ok. destruct (insn_limit s); auto. intros. lia. Qed.

Lemma meter_ok_transfer j j' s s' :
  meter_ok j s -> insn_limit s' = insn_limit s -> (meter s' + j' <= meter s + j)%Z -> meter_ok j' s'.
Proof. unfold meter_ok. intros H ->. destruct (insn_limit s); auto. intros. lia. Qed.

(* ---------- programs without Resolve instructions ---------- *)
Definition resolve_free (s : state) : Prop :=
  forall i name, nth_error (code s) i <> Some (OResolve name).

Definition is_resolve (op : opcode) : bool := match op with OResolve _ => true | _ => false end.
Definition resolve_freeb (s : state) : bool := forallb (fun op => negb (is_resolve op)) (code s).

Lemma resolve_freeb_ok s : resolve_freeb s = true -> resolve_free s.
Proof.
  unfold resolve_freeb, resolve_free. intros H i name Hi.
  rewrite forallb_forall in H. specialize (H _ (nth_error_In _ _ Hi)). discriminate.
Qed.

Section Replay.
  Variable fo : fops.
  Local Notation nf := (native_fn fo).

  Lemma exec_op_mk : forall ip0 op s, res_all (mk_rel s) (exec_op nf ip0 op s).
  Proof. intros. apply wl_mk. apply wl_exec_op. apply native_wl. Qed.

  (* a successful step increments the meter once, or twice when it patches a Resolve *)
  Lemma step_meter : forall s s',
    fetch_and_run nf s = ROk tt s' ->
    (meter s < meter s' <= meter s + 2)%Z /\ insn_limit s' = insn_limit s /\
    mlim s (meter s) = false /\
    (forall name, nth_error (code s) (ip s) = Some (OResolve name) -> mlim s (meter s + 1)%Z = false).
  Proof.
    intros s s' H.
    pose proof (far_spec_holds nf s) as FS. rewrite H in FS.
    inversion FS; subst;
      match goal with
      | Hx : exec_op nf ?i ?o ?s1 = ROk tt s' |- _ =>
        pose proof (exec_op_mk i o s1) as L; rewrite Hx in L; cbn [res_all] in L;
        destruct L as (L1 & L2 & _)
      | Hx : ROk tt s' = exec_op nf ?i ?o ?s1 |- _ =>
        pose proof (exec_op_mk i o s1) as L; rewrite <- Hx in L; cbn [res_all] in L;
        destruct L as (L1 & L2 & _)
      end;
      cbn [set_meter set_code meter insn_limit] in L1, L2.
    - split; [lia|]. split; [congruence|]. split; [assumption|].
      intros name Hname. exfalso.
      match goal with Hn : forall n, _ <> OResolve n |- _ => apply (Hn name) end. congruence.
    - split; [lia|]. split; [congruence|]. split; [assumption|]. intros; assumption.
  Qed.

  Lemma step_meter_nr : forall s s',
    not_resolve s -> fetch_and_run nf s = ROk tt s' ->
    meter s' = (meter s + 1)%Z /\ insn_limit s' = insn_limit s /\ code s' = code s.
  Proof.
    intros s s' Hn H.
    destruct (fetch_not_resolve nf s Hn) as [E | [E | [op [Eop E]]]]; rewrite E in H; try discriminate.
    pose proof (exec_op_mk (ip s) op (set_meter s (meter s + 1)%Z)) as L. rewrite H in L.
    cbn [res_all] in L. destruct L as (L1 & L2 & L3). cbn [set_meter meter insn_limit code] in L1, L2, L3. auto.
  Qed.

  (* a program without Resolve instructions: the code never changes, so no step executes one *)
  Lemma resolve_free_step : forall s s',
    resolve_free s -> fetch_and_run nf s = ROk tt s' -> code s' = code s.
  Proof.
    intros s s' Hf H. destruct (step_meter_nr s s' (fun name => Hf (ip s) name) H) as (_ & _ & Hc). exact Hc.
  Qed.

  Lemma resolve_free_steps n : forall s sn,
    resolve_free s -> steps nf n s = Some sn -> not_resolve sn.
  Proof.
    induction n; intros s sn Hf H; cbn [steps] in H.
    - injection H as <-. intro name. apply Hf.
    - destruct (fetch_and_run nf s) as [[] s1| | |] eqn:E; try discriminate.
      apply (IHn s1); auto. unfold resolve_free. rewrite (resolve_free_step s s1 Hf E). exact Hf.
  Qed.

  (* the limit checks of a step come out the same on both sides: the results are related *)
  Lemma far_rel_gen : forall a b,
    eq_rev a b ->
    mlim a (meter a) = mlim b (meter b) ->
    (forall name, nth_error (code a) (ip a) = Some (OResolve name) ->
                  mlim a (meter a + 1)%Z = mlim b (meter b + 1)%Z) ->
    res_rel (fetch_and_run nf a) (fetch_and_run nf b).
  Proof.
    intros a b E M0 M1.
    pose proof (f_equal ip E : ip a = ip b) as Eip.
    pose proof (f_equal code E : code a = code b) as Ecode.
    pose proof (f_equal dict E : dict a = dict b) as Edict.
    unfold fetch_and_run. rewrite !meter_increase_eq. rewrite <- M0.
    destruct (mlim a (meter a)).
    { unfold res_rel. cbn [res_map]. f_equal. exact E. }
    change (code (set_meter a (meter a + 1)%Z)) with (code a).
    change (code (set_meter b (meter b + 1)%Z)) with (code b).
    rewrite <- Eip, <- Ecode.
    destruct (nth_error (code a) (ip a)) as [op|] eqn:Eop; [ | reflexivity ].
    assert (G : forall op', res_rel (exec_op nf (ip a) op' (set_meter a (meter a + 1)%Z))
                                    (exec_op nf (ip a) op' (set_meter b (meter b + 1)%Z))).
    { intro op'. apply rel_exec_op; auto. apply native_rel. }
    destruct op; try apply G.
    change (dict_entry (set_meter a (meter a + 1)%Z) name) with (dict_rfind (dict a) name None).
    change (dict_entry (set_meter b (meter b + 1)%Z) name) with (dict_rfind (dict b) name None).
    rewrite <- Edict.
    destruct (dict_rfind (dict a) name None) as [e|].
    - rewrite !meter_increase_eq.
      change (mlim (set_code (set_meter a (meter a + 1)%Z) (list_set (code a) (ip a) (resolve_op e)))
                   (meter (set_code (set_meter a (meter a + 1)%Z) (list_set (code a) (ip a) (resolve_op e)))))
        with (mlim a (meter a + 1)%Z).
      change (mlim (set_code (set_meter b (meter b + 1)%Z) (list_set (code a) (ip a) (resolve_op e)))
                   (meter (set_code (set_meter b (meter b + 1)%Z) (list_set (code a) (ip a) (resolve_op e)))))
        with (mlim b (meter b + 1)%Z).
      rewrite <- (M1 name eq_refl).
      destruct (mlim a (meter a + 1)%Z).
      + unfold res_rel. cbn [res_map]. f_equal.
        apply eq_rev_set_code. exact E.
      + apply rel_exec_op; [apply native_rel|].
        apply eq_rev_set_meter. apply eq_rev_set_code. exact E.
    - unfold res_rel. cbn [res_map]. f_equal. exact E.
  Qed.

  (* a successful step is reproduced from any related state with room under the limit *)
  Lemma step_transfer : forall a b a',
    eq_rev a b -> fetch_and_run nf a = ROk tt a' ->
    (meter_ok 2 b \/ (not_resolve a /\ meter_ok 1 b)) ->
    exists b', fetch_and_run nf b = ROk tt b' /\ eq_rev a' b'.
  Proof.
    intros a b a' E H Hm.
    destruct (step_meter a a' H) as (_ & _ & A0 & A1).
    assert (R : res_rel (fetch_and_run nf a) (fetch_and_run nf b)).
    { apply far_rel_gen; auto.
      - rewrite A0. symmetry. destruct Hm as [Hm | [_ Hm]].
        + pose proof (meter_ok_mlim 2 0 b Hm ltac:(lia)) as L. rewrite Z.add_0_r in L. exact L.
        + pose proof (meter_ok_mlim 1 0 b Hm ltac:(lia)) as L. rewrite Z.add_0_r in L. exact L.
      - intros name Hname. rewrite (A1 name Hname). symmetry. destruct Hm as [Hm | [Hn _]].
        + apply (meter_ok_mlim 2 1 b Hm). lia.
        + exfalso. eapply Hn; eauto. }
    rewrite H in R. apply res_rel_iff in R. unfold res_rel_cases in R.
    destruct (fetch_and_run nf b) as [[] b'| | |]; try contradiction.
    exists b'. destruct R. auto.
  Qed.

  (* ---------- REPLAY: related states run in lock step ---------- *)
  Theorem replay_steps : forall m a b a',
    eq_rev a b -> meter_ok (2 * Z.of_nat m) b ->
    steps nf m a = Some a' ->
    exists b', steps nf m b = Some b' /\ eq_rev a' b'.
  Proof.
    induction m; intros a b a' E Hm H; cbn [steps] in *.
    - injection H as <-. eauto.
    - destruct (fetch_and_run nf a) as [[] a1| | |] eqn:Ea; try discriminate.
      destruct (step_transfer a b a1 E Ea) as (b1 & Eb & E1).
      { left. eapply meter_ok_le; eauto. lia. }
      rewrite Eb.
      destruct (step_meter b b1 Eb) as (B1 & B2 & _).
      apply (IHm a1 b1 a' E1); auto.
      eapply meter_ok_transfer; eauto. lia.
  Qed.

  (* when no Resolve is executed every step costs exactly one increment *)
  Theorem replay_steps_nr : forall m a b a',
    eq_rev a b -> meter_ok (Z.of_nat m) b ->
    (forall i ai, i < m -> steps nf i a = Some ai -> not_resolve ai) ->
    steps nf m a = Some a' ->
    exists b', steps nf m b = Some b' /\ eq_rev a' b'.
  Proof.
    induction m; intros a b a' E Hm Hn H; cbn [steps] in *.
    - injection H as <-. eauto.
    - destruct (fetch_and_run nf a) as [[] a1| | |] eqn:Ea; try discriminate.
      assert (Hna : not_resolve a) by (apply (Hn 0); [lia | reflexivity]).
      destruct (step_transfer a b a1 E Ea) as (b1 & Eb & E1).
      { right. split; auto. eapply meter_ok_le; eauto. lia. }
      rewrite Eb.
      destruct (step_meter_nr b b1 (eq_rev_not_resolve _ _ E Hna) Eb) as (B1 & B2 & _).
      apply (IHm a1 b1 a' E1); auto.
      + eapply meter_ok_transfer; eauto. lia.
      + intros i ai Hi Hs. apply (Hn (S i)); [lia|]. cbn [steps]. rewrite Ea. exact Hs.
  Qed.

  Theorem replay_steps_nolimit : forall m a b a',
    eq_rev a b -> insn_limit a = None ->
    steps nf m a = Some a' ->
    exists b', steps nf m b = Some b' /\ eq_rev a' b'.
  Proof.
    intros m a b a' E L H. eapply replay_steps; eauto.
    apply meter_ok_nolimit. rewrite <- (f_equal insn_limit E : insn_limit a = insn_limit b). exact L.
  Qed.

  (* the same when the run ends in a failing (or unsupported / panicking) step *)
  Theorem replay_steps_final : forall m a b a',
    eq_rev a b -> meter_ok (2 * Z.of_nat m + 2) b ->
    steps nf m a = Some a' -> meter_ok 2 a' ->
    exists b', steps nf m b = Some b' /\ eq_rev a' b' /\
               res_rel_cases (fetch_and_run nf a') (fetch_and_run nf b').
  Proof.
    intros m a b a' E Hm H Ha.
    destruct (replay_steps m a b a' E) as (b' & Hb & E'); auto.
    { eapply meter_ok_le; eauto. lia. }
    exists b'. split; auto. split; auto.
    apply step_congruence; auto.
    clear H Ha E' a'. revert a b E Hm b' Hb.
    induction m; intros a b E Hm b' Hb; cbn [steps] in Hb.
    - injection Hb as <-. eapply meter_ok_le; eauto. lia.
    - destruct (fetch_and_run nf b) as [[] b1| | |] eqn:Eb; try discriminate.
      destruct (step_meter b b1 Eb) as (B1 & B2 & _).
      apply (IHm b1 b1 (eq_rev_refl _)); auto.
      eapply meter_ok_transfer; eauto. lia.
  Qed.

  Theorem replay_steps_final_nolimit : forall m a b a',
    eq_rev a b -> insn_limit a = None ->
    steps nf m a = Some a' ->
    exists b', steps nf m b = Some b' /\ eq_rev a' b' /\
               res_rel_cases (fetch_and_run nf a') (fetch_and_run nf b').
  Proof.
    intros m a b a' E L H.
    assert (Lb : insn_limit b = None).
    { rewrite <- (f_equal insn_limit E : insn_limit a = insn_limit b). exact L. }
    destruct (replay_steps_nolimit m a b a' E L H) as (b' & Hb & E').
    exists b'. split; auto. split; auto.
    apply step_congruence_nolimit; auto.
    clear E' Hb b' Lb E b. revert a L H. induction m; intros a L H; cbn [steps] in H.
    - injection H as <-. exact L.
    - destruct (fetch_and_run nf a) as [[] a1| | |] eqn:Ea; try discriminate.
      destruct (step_meter a a1 Ea) as (_ & B2 & _). apply (IHm a1); congruence.
  Qed.

  (* ---------- the invariants along the original run ---------- *)
  Lemma steps_insn_limit n : forall s sn, steps nf n s = Some sn -> insn_limit sn = insn_limit s.
  Proof.
    induction n; intros s sn H; cbn [steps] in H.
    - injection H as <-. reflexivity.
    - destruct (fetch_and_run nf s) as [[] s1| | |] eqn:E; try discriminate.
      destruct (step_meter s s1 E) as (_ & B2 & _). rewrite (IHn _ _ H). exact B2.
  Qed.

  (* one backward step gives EXACTLY the earlier state, except that the meter and the captured
     output keep their later values *)
  Theorem rnext_undoes_step_exact : forall s s',
    recording s = true -> log_ok s -> wf_marks s -> not_resolve s ->
    fetch_and_run nf s = ROk tt s' ->
    rnext s' = ROk tt (set_out (set_meter s (meter s')) (out s')).
  Proof.
    intros s s' Hr Hl Hw Hn H.
    destruct (rnext_undoes_step fo s s' Hr Hl Hw Hn H) as (s'' & Hx & He).
    rewrite Hx. f_equal.
    destruct (rnext_meter_out _ _ _ Hx) as [<- <-].
    apply eq_rev_sym in He. apply (eq_rev_mo s s'' He).
  Qed.

  (* the invariants hold again after a backward step *)
  Theorem rnext_invariants : forall s s' s'',
    recording s = true -> log_ok s -> wf_marks s -> not_resolve s ->
    fetch_and_run nf s = ROk tt s' -> rnext s' = ROk tt s'' ->
    recording s'' = true /\ log_ok s'' /\ wf_marks s'' /\ not_resolve s''.
  Proof.
    intros s s' s'' Hr Hl Hw Hn H Hx.
    destruct (rnext_undoes_step fo s s' Hr Hl Hw Hn H) as (t & Hx' & He).
    rewrite Hx in Hx'. injection Hx' as <-. apply eq_rev_sym in He.
    split; [rewrite <- (eq_rev_recording _ _ He); auto|].
    split; [eapply eq_rev_log_ok; eauto|].
    split; [eapply eq_rev_wf_marks; eauto | eapply eq_rev_not_resolve; eauto].
  Qed.

  (* ---------- arbitrary interleavings of forward and backward moves ---------- *)
  Section Walk.
    Variables (N : nat) (s sN : state).
    Hypothesis Hr : recording s = true.
    Hypothesis Hl : log_ok s.
    Hypothesis Hw : wf_marks s.
    Hypothesis Hnr : forall i si, i < N -> steps nf i s = Some si -> not_resolve si.
    Hypothesis HN : steps nf N s = Some sN.

    Lemma walk_tracks : forall w p q sp cur,
      p <= N -> steps nf p s = Some sp -> eq_rev cur sp ->
      meter_ok (Z.of_nat (fwd_count w)) cur ->
      walk_pos N w p = Some q ->
      exists cur' sq, walk nf w cur = Some cur' /\ steps nf q s = Some sq /\ eq_rev cur' sq /\
                      recording cur' = true /\ log_ok cur' /\ wf_marks cur'.
    Proof.
      induction w as [|[] r IH]; intros p q sp cur Hp Hsp E Hm Hq; cbn [walk walk_pos fwd_count] in *.
      - injection Hq as <-. exists cur, sp.
        destruct (steps_invariants fo p s sp Hr Hl Hw Hsp) as (Ir & Il & Iw).
        pose proof (eq_rev_sym _ _ E) as E'.
        split; [reflexivity|]. split; [exact Hsp|]. split; [exact E|].
        split; [rewrite (eq_rev_recording _ _ E); exact Ir|].
        split; [eapply eq_rev_log_ok; eauto | eapply eq_rev_wf_marks; eauto].
      - (* forward *)
        destruct (p <? N) eqn:Ep; [|discriminate]. apply Nat.ltb_lt in Ep.
        destruct (steps_le nf N (S p) s sN HN ltac:(lia)) as (sp1 & Hsp1).
        destruct (steps_snoc nf p s sp1 Hsp1) as (sp' & Hsp' & Hf).
        rewrite Hsp in Hsp'. injection Hsp' as <-.
        assert (Hn : not_resolve sp) by (eapply Hnr; eauto).
        apply eq_rev_sym in E.
        destruct (step_transfer sp cur sp1 E Hf) as (cur1 & Hc & E1).
        { right. split; auto. eapply meter_ok_le; eauto. lia. }
        rewrite Hc.
        destruct (step_meter_nr cur cur1 (eq_rev_not_resolve _ _ E Hn) Hc) as (B1 & B2 & _).
        apply (IH (S p) q sp1 cur1); auto using eq_rev_sym.
        eapply meter_ok_transfer; eauto. lia.
      - (* backward *)
        destruct p as [|p']; [discriminate|].
        destruct (steps_snoc nf p' s sp Hsp) as (sq & Hsq & Hf).
        destruct (steps_invariants fo p' s sq Hr Hl Hw Hsq) as (Ir & Il & Iw).
        assert (Hn : not_resolve sq) by (eapply (Hnr p'); eauto; lia).
        destruct (rnext_undoes_step fo sq sp Ir Il Iw Hn Hf) as (t & Hx & He).
        apply eq_rev_sym in E.
        destruct (rnext_eq_rev sp cur t E Hx) as (cur1 & Hc & E1).
        rewrite Hc.
        assert (E2 : eq_rev cur1 sq).
        { eapply eq_rev_trans; [apply eq_rev_sym; exact E1 | exact He]. }
        apply (IH p' q sq cur1); auto; try lia.
        destruct (rnext_meter_out _ _ _ Hc) as [M1 _].
        destruct (step_meter sq sp Hf) as (_ & L1 & _).
        eapply meter_ok_transfer; [exact Hm | | lia].
        rewrite (f_equal insn_limit E2 : insn_limit cur1 = insn_limit sq).
        rewrite <- (f_equal insn_limit E : insn_limit sp = insn_limit cur). congruence.
    Qed.
  End Walk.

  (* the walk starts from the state reached after n forward steps of the original run *)
  Theorem walk_round_trip : forall N n s sN sn w q,
    recording s = true -> log_ok s -> wf_marks s ->
    (forall i si, i < N -> steps nf i s = Some si -> not_resolve si) ->
    steps nf N s = Some sN -> n <= N -> steps nf n s = Some sn ->
    meter_ok (Z.of_nat (fwd_count w)) sn ->
    walk_pos N w n = Some q ->
    exists cur sq, walk nf w sn = Some cur /\ steps nf q s = Some sq /\ eq_rev cur sq /\
                   recording cur = true /\ log_ok cur /\ wf_marks cur.
  Proof.
    intros N n s sN sn w q Hr Hl Hw Hnr HN Hn Hsn Hm Hq.
    eapply (walk_tracks N s sN Hr Hl Hw Hnr HN w n q sn sn); auto using eq_rev_refl.
  Qed.

  Lemma fwd_count_app a b : fwd_count (a ++ b) = fwd_count a + fwd_count b.
  Proof. induction a as [|[] r IH]; cbn [fwd_count app]; auto. rewrite IH. reflexivity. Qed.
  Lemma fwd_count_backs k : fwd_count (repeat Back k) = 0.
  Proof. induction k; cbn; auto. Qed.
  Lemma fwd_count_fwds m : fwd_count (repeat Fwd m) = m.
  Proof. induction m; cbn; auto. Qed.

  Lemma walk_pos_app N a : forall b p,
    walk_pos N (a ++ b) p = match walk_pos N a p with Some q => walk_pos N b q | None => None end.
  Proof.
    induction a as [|[] r IH]; intros b p; cbn [walk_pos app]; auto.
    - destruct (p <? N); auto.
    - destruct p; auto.
  Qed.
  Lemma walk_pos_backs N k : forall p, k <= p -> walk_pos N (repeat Back k) p = Some (p - k).
  Proof.
    induction k; intros p Hp; cbn [repeat walk_pos].
    - f_equal. lia.
    - destruct p; [lia|]. rewrite IHk by lia. reflexivity.
  Qed.
  Lemma walk_pos_fwds N m : forall p, p + m <= N -> walk_pos N (repeat Fwd m) p = Some (p + m).
  Proof.
    induction m; intros p Hp; cbn [repeat walk_pos].
    - f_equal. lia.
    - rewrite (proj2 (Nat.ltb_lt p N)) by lia. rewrite IHm by lia. f_equal. lia.
  Qed.

  (* n forward, k backward, m forward again *)
  Theorem round_trip : forall n k m s sn,
    recording s = true -> log_ok s -> wf_marks s ->
    (forall i si, i < n -> steps nf i s = Some si -> not_resolve si) ->
    steps nf n s = Some sn -> k <= n -> m <= k ->
    meter_ok (Z.of_nat m) sn ->
    exists s1 s2 t, rnexts k sn = Some s1 /\ steps nf m s1 = Some s2 /\
                    steps nf (n - k + m) s = Some t /\ eq_rev s2 t.
  Proof.
    intros n k m s sn Hr Hl Hw Hnr Hsn Hk Hm Hmo.
    destruct (walk_round_trip n n s sn sn (repeat Back k ++ repeat Fwd m) (n - k + m)
                Hr Hl Hw Hnr Hsn (le_n _) Hsn) as (cur & sq & W & Hs & E & _).
    { rewrite fwd_count_app, fwd_count_backs, fwd_count_fwds. exact Hmo. }
    { rewrite walk_pos_app, walk_pos_backs by lia. apply walk_pos_fwds. lia. }
    rewrite walk_app, walk_backs in W.
    destruct (rnexts k sn) as [s1|] eqn:E1; [|discriminate].
    rewrite walk_fwds in W.
    exists s1, cur, sq. auto.
  Qed.

  (* the same for a program without Resolve instructions and without an instruction limit *)
  Theorem walk_round_trip_plain : forall N n s sN sn w q,
    recording s = true -> log_ok s -> wf_marks s -> resolve_freeb s = true -> insn_limit s = None ->
    steps nf N s = Some sN -> n <= N -> steps nf n s = Some sn ->
    walk_pos N w n = Some q ->
    exists cur sq, walk nf w sn = Some cur /\ steps nf q s = Some sq /\ eq_rev cur sq /\
                   recording cur = true /\ log_ok cur /\ wf_marks cur.
  Proof.
    intros N n s sN sn w q Hr Hl Hw Hf HL HN Hn Hsn Hq.
    apply (walk_round_trip N n s sN sn w q Hr Hl Hw); auto.
    - intros i si _ Hs. eapply resolve_free_steps; eauto. apply resolve_freeb_ok; auto.
    - apply meter_ok_nolimit. rewrite (steps_insn_limit n s sn Hsn). exact HL.
  Qed.

  Theorem round_trip_plain : forall n k m s sn,
    recording s = true -> log_ok s -> wf_marks s -> resolve_freeb s = true -> insn_limit s = None ->
    steps nf n s = Some sn -> k <= n -> m <= k ->
    exists s1 s2 t, rnexts k sn = Some s1 /\ steps nf m s1 = Some s2 /\
                    steps nf (n - k + m) s = Some t /\ eq_rev s2 t.
  Proof.
    intros n k m s sn Hr Hl Hw Hf HL Hsn Hk Hm.
    apply (round_trip n k m s sn Hr Hl Hw); auto.
    - intros i si _ Hs. eapply resolve_free_steps; eauto. apply resolve_freeb_ok; auto.
    - apply meter_ok_nolimit. rewrite (steps_insn_limit n s sn Hsn). exact HL.
  Qed.
End Replay.

(* ---------- the meter hypothesis of the round trip is necessary ---------- *)
(* Four Nops under an instruction limit of 5: four forward steps succeed, two backward steps
   succeed, but the meter is not rewound (it stays at 4), so the second replayed step is
   refused with ELimit although the original run executed it. *)
Definition rt_s : state :=
  mkstate [] [] [ONop; ONop; ONop; ONop] [] [] [] [] [] [] [] [] (mkctx 0 0 0 0 0 0 0 0 MEval) []
          0%Z (Some 5%Z) None None (Some []) EmptyString None false.

Theorem round_trip_needs_meter :
  exists s4 s2 s3,
    recording rt_s = true /\ log_ok rt_s /\ wf_marks rt_s /\
    (forall i si, i < 4 -> steps (native_fn cex_fo) i rt_s = Some si -> not_resolve si) /\
    steps (native_fn cex_fo) 4 rt_s = Some s4 /\
    rnexts 2 s4 = Some s2 /\
    fetch_and_run (native_fn cex_fo) s2 = ROk tt s3 /\
    fetch_and_run (native_fn cex_fo) s3 = RErr ELimit None s3 /\
    meter s2 = 4%Z.
Proof.
  do 3 eexists.
  split; [reflexivity|]. split; [exact I|]. split; [unfold wf_marks; cbn; lia|].
  split.
  { intros i si Hi Hs name.
    assert (Hc : code si = [ONop; ONop; ONop; ONop]).
    { destruct i as [|[|[|[|i]]]]; try lia; vm_compute in Hs; injection Hs as <-; reflexivity. }
    rewrite Hc. intro Hx.
    destruct (ip si) as [|[|[|[|j]]]]; cbn in Hx; try discriminate. destruct j; discriminate. }
  split; [vm_compute; reflexivity|].
  split; [vm_compute; reflexivity|].
  split; [vm_compute; reflexivity|].
  split; [vm_compute; reflexivity|].
  reflexivity.
Qed.

(* so the round trip WITHOUT the hypothesis on the meter is false *)
Theorem round_trip_unmetered_refuted :
  ~ (forall fo n k m s sn,
       recording s = true -> log_ok s -> wf_marks s ->
       (forall i si, i < n -> steps (native_fn fo) i s = Some si -> not_resolve si) ->
       steps (native_fn fo) n s = Some sn -> k <= n -> m <= k ->
       exists s1 s2 t, rnexts k sn = Some s1 /\ steps (native_fn fo) m s1 = Some s2 /\
                       steps (native_fn fo) (n - k + m) s = Some t /\ eq_rev s2 t).
Proof.
  intro H.
  destruct round_trip_needs_meter as (s4 & s2 & s3 & Hr & Hl & Hw & Hn & H4 & Hb & F1 & F2 & _).
  destruct (H cex_fo 4 2 2 rt_s s4 Hr Hl Hw Hn H4 ltac:(lia) ltac:(lia)) as (s1 & s2' & t & A & B & _).
  rewrite Hb in A. injection A as <-. cbn [steps] in B. rewrite F1, F2 in B. discriminate.
Qed.

Print Assumptions round_trip_unmetered_refuted.
Print Assumptions replay_steps.
Print Assumptions replay_steps_nr.
Print Assumptions replay_steps_final.
Print Assumptions replay_steps_final_nolimit.
Print Assumptions rnext_undoes_step_exact.
Print Assumptions rnext_invariants.
Print Assumptions walk_round_trip.
Print Assumptions round_trip.
Print Assumptions round_trip_needs_meter.
Print Assumptions walk_round_trip_plain.
Print Assumptions round_trip_plain.
