(* TagFresh.v: freshly computed results carry no tags (C13 fresh_untagged).

   For an arbitrary set T of cells, [tg T c] says that every tag wrapper inside c (inside its
   tag maps too) belongs to T.  Every word of the list [tag_free_words] preserves "every tag
   wrapper held by the machine belongs to T": it creates no tag wrapper - each tag wrapper in
   an output cell (or an error payload) is a tag wrapper that was already there.  With T
   empty: a machine that holds no tags computes results without tags. *)
From Xeh Require Import Model.Prelude Model.Bits Model.Codec Model.Cell Model.Lexer Model.Fmt
                        Model.Vm Model.BaseN Model.Words Proofs.BitsProofs Proofs.CellProofs Proofs.CollProofs
                        Proofs.TagProofs.
From Coq Require Import Sorting.Sorted ZifyBool ZifyNat ZifyN.
Local Notation length := List.length.

#[local] Arguments Z.add : simpl never.
#[local] Arguments Z.sub : simpl never.
#[local] Arguments Z.mul : simpl never.
#[local] Arguments Z.ltb : simpl never.
#[local] Arguments Z.leb : simpl never.
#[local] Arguments Z.eqb : simpl never.
#[local] Arguments Z.of_nat : simpl never.
#[local] Arguments Z.to_nat : simpl never.

Definition tgl (T : cell -> Prop) (c : cell) : Prop := match c with CTag _ _ => T c | _ => True end.
Definition tg (T : cell -> Prop) : cell -> Prop := deepT (tgl T).
Definition tg2 (T : cell -> Prop) (kv : cell * cell) : Prop := tg T (fst kv) /\ tg T (snd kv).
Definition tgo (T : cell -> Prop) (p : option cell) : Prop := match p with Some c => tg T c | None => True end.

Definition tg_state (T : cell -> Prop) (s : state) : Prop :=
  Forall (tg T) (ds s) /\ Forall (tg T) (heap s) /\ Forall (fun l => tg T (l_items l)) (loops s).

Definition inv {A} (T : cell -> Prop) (R : A -> Prop) (m : M A) : Prop :=
  forall s, tg_state T s ->
  match m s with
  | ROk a s' => R a /\ tg_state T s'
  | RErr _ p s' => tgo T p /\ tg_state T s'
  | _ => True
  end.

Section Fresh.
  Variable T : cell -> Prop.

  Lemma tg_vec : forall l, tg T (CVec l) <-> Forall (tg T) l.
  Proof. intro l. unfold tg. rewrite deepT_vec. cbn. tauto. Qed.
  Lemma tg_map : forall m, tg T (CMap m) <-> Forall (tg2 T) m.
  Proof. intro m. unfold tg. rewrite deepT_map. cbn. unfold deepT2, tg2. tauto. Qed.
  Lemma tg_value : forall c, tg T c -> tg T (value c).
  Proof. intros c H. destruct c; cbn [value]; auto. apply deepT_tag in H. apply H. Qed.
  Lemma tg_tags : forall c, tg T c -> tg T (match tags_of c with Some t => CMap t | None => CNil end).
  Proof.
    intros c H. destruct c; cbn [tags_of]; try (split; exact I).
    apply deepT_tag in H. destruct H as (_ & H & _). apply deepT_map. split; [exact I | exact H].
  Qed.
  Lemma tg_nil : tg T CNil.               Proof. split; exact I. Qed.
  Lemma tg_flag : forall b, tg T (CFlag b). Proof. split; exact I. Qed.
  Lemma tg_cflag : forall b, tg T (cflag b). Proof. split; exact I. Qed.
  Lemma tg_int : forall b, tg T (CInt b). Proof. split; exact I. Qed.
  Lemma tg_cint : forall b, tg T (cint b). Proof. split; exact I. Qed.
  Lemma tg_cnat : forall b, tg T (cnat b). Proof. split; exact I. Qed.
  Lemma tg_real : forall b, tg T (CReal b). Proof. split; exact I. Qed.
  Lemma tg_str : forall b, tg T (CStr b). Proof. split; exact I. Qed.
  Lemma tg_bits : forall b, tg T (CBits b). Proof. split; exact I. Qed.
  Lemma tg_vec_intro : forall l, Forall (tg T) l -> tg T (CVec l). Proof. intro. apply tg_vec. Qed.
  Lemma tg_map_intro : forall l, Forall (tg2 T) l -> tg T (CMap l). Proof. intro. apply tg_map. Qed.

  Lemma Forall_incl' : forall {A} (P : A -> Prop) l l', incl l' l -> Forall P l -> Forall P l'.
  Proof. intros A P l l' I F. rewrite Forall_forall in *. auto. Qed.

  (* state updates *)
  Lemma tgs_add_rstep : forall r s, tg_state T (add_rstep r s) <-> tg_state T s.
  Proof. intros. unfold tg_state, add_rstep. destruct (rlog s); reflexivity. Qed.
  Lemma tgs_set_ds : forall s d, tg_state T s -> Forall (tg T) d -> tg_state T (set_ds s d).
  Proof. intros s d (A & B & C) D. repeat split; assumption. Qed.
  Lemma tgs_set_heap : forall s d, tg_state T s -> Forall (tg T) d -> tg_state T (set_heap s d).
  Proof. intros s d (A & B & C) D. repeat split; assumption. Qed.
  Lemma tgs_set_loops : forall s d, tg_state T s -> Forall (fun l => tg T (l_items l)) d -> tg_state T (set_loops s d).
  Proof. intros s d (A & B & C) D. repeat split; assumption. Qed.

  (* monad *)
  Lemma inv_ret : forall A (R : A -> Prop) a, R a -> inv T R (ret a).
  Proof. intros A R a H s Hs. cbn. auto. Qed.
  Lemma inv_ret_true : forall A (a : A), inv T (fun _ => True) (ret a).
  Proof. intros. apply inv_ret. exact I. Qed.
  Lemma inv_fail : forall A (R : A -> Prop) k p, tgo T p -> inv T R (fail k p).
  Proof. intros A R k p H s Hs. cbn. auto. Qed.
  Lemma inv_unsup : forall A (R : A -> Prop), inv T R unsup. Proof. intros A R s Hs. exact I. Qed.
  Lemma inv_panic : forall A (R : A -> Prop), inv T R panic. Proof. intros A R s Hs. exact I. Qed.
  Lemma inv_bind : forall A B (RA : A -> Prop) (RB : B -> Prop) m f,
    inv T RA m -> (forall a, RA a -> inv T RB (f a)) -> inv T RB (bind m f).
  Proof.
    intros A B RA RB m f Hm Hf s Hs. unfold bind. specialize (Hm s Hs).
    destruct (m s); auto. destruct Hm. apply Hf; assumption.
  Qed.
  Lemma inv_get_bind : forall B (R : B -> Prop) (k : state -> M B),
    (forall s0, tg_state T s0 -> inv T R (k s0)) -> inv T R (bind get k).
  Proof. intros B R k H s Hs. unfold bind, get. apply H; assumption. Qed.

  (* primitives *)
  Ltac ifs := repeat match goal with |- context [if ?b then _ else _] => destruct b end.
  Ltac errc := try (split; [exact I | assumption]).

  Lemma inv_pop_data : inv T (tg T) pop_data.
  Proof.
    intros s Hs. unfold pop_data. destruct (ds s) as [| c r] eqn:E; ifs; errc.
    destruct Hs as (A & B & C). rewrite E in A. inversion A; subst. split; auto.
    apply tgs_add_rstep. apply tgs_set_ds; auto. repeat split; auto. rewrite E. assumption.
  Qed.
  Lemma inv_top_data : inv T (tg T) top_data.
  Proof.
    intros s Hs. unfold top_data. destruct (ds s) as [| c r] eqn:E; ifs; errc.
    destruct Hs as (A & B & C). rewrite E in A. inversion A; subst. split; auto.
    repeat split; auto. rewrite E. assumption.
  Qed.
  Lemma inv_push_data : forall c, tg T c -> inv T (fun _ => True) (push_data c).
  Proof.
    intros c Hc s Hs. unfold push_data. ifs; errc.
    split; auto. apply tgs_set_ds; [apply tgs_add_rstep; assumption|]. constructor; auto. apply Hs.
  Qed.
  Lemma inv_dup_data : inv T (fun _ => True) dup_data.
  Proof. unfold dup_data. eapply inv_bind; [apply inv_top_data|]. intros. apply inv_push_data. assumption. Qed.
  Lemma inv_swap_data : inv T (fun _ => True) swap_data.
  Proof.
    intros s Hs. unfold swap_data. destruct (ds s) as [| a [| b r]] eqn:E; ifs; errc. split; auto.
    destruct Hs as (A & B & C). rewrite E in A. inversion A as [| ? ? A1 A2]; subst. inversion A2; subst.
    apply tgs_set_ds; [apply tgs_add_rstep; repeat split; auto; rewrite E; auto|]. repeat constructor; auto.
  Qed.
  Lemma inv_rot_data : inv T (fun _ => True) rot_data.
  Proof.
    intros s Hs. unfold rot_data. destruct (ds s) as [| a [| b [| c r]]] eqn:E; ifs; errc. split; auto.
    destruct Hs as (A & B & C). rewrite E in A. inversion A as [| ? ? A1 A2]; subst.
    inversion A2 as [| ? ? A3 A4]; subst. inversion A4; subst.
    apply tgs_set_ds; [apply tgs_add_rstep; repeat split; auto; rewrite E; auto|]. repeat constructor; auto.
  Qed.
  Lemma inv_over_data : inv T (fun _ => True) over_data.
  Proof.
    intros s Hs. unfold over_data. destruct (ds s) as [| a [| b r]] eqn:E; try (split; [exact I | assumption]).
    destruct (2 <=? data_depth s); [| split; [exact I | assumption]].
    apply inv_push_data; [| apply tgs_add_rstep; assumption].
    destruct Hs as (A & _). rewrite E in A. inversion A as [| ? ? A1 A2]; subst. inversion A2; subst. assumption.
  Qed.
  Lemma inv_push_special : forall p, inv T (fun _ => True) (push_special p).
  Proof. intros p s Hs. unfold push_special. split; auto. apply (proj2 (tgs_add_rstep RPopSpecial s)) in Hs. exact Hs. Qed.
  Lemma inv_pop_special : inv T (fun _ => True) pop_special.
  Proof.
    intros s Hs. unfold pop_special. destruct (special s) as [| p r]; ifs; try (split; [exact I | assumption]).
    split; [exact I|]. apply tgs_add_rstep. exact Hs.
  Qed.
  Lemma inv_get_var : forall a, inv T (tg T) (get_var a).
  Proof.
    intros a s Hs. unfold get_var. destruct (mode_eqb _ _); errc.
    destruct (nth_error (heap s) a) eqn:E; errc. split; auto.
    destruct Hs as (_ & B & _). rewrite Forall_forall in B. apply B. eapply nth_error_In; eassumption.
  Qed.
  Lemma Forall_list_set' : forall {A} (P : A -> Prop) l i v, Forall P l -> P v -> Forall P (list_set l i v).
  Proof. induction l; destruct i; cbn; intros v F Hv; auto; inversion F; subst; constructor; auto. Qed.
  Lemma inv_set_var : forall a v, tg T v -> inv T (fun _ => True) (set_var a v).
  Proof.
    intros a v Hv s Hs. unfold set_var. destruct (mode_eqb _ _); errc.
    destruct (nth_error (heap s) a) eqn:E; errc. split; auto.
    apply tgs_add_rstep. apply tgs_set_heap; auto. apply Forall_list_set'; auto. apply Hs.
  Qed.
  Lemma inv_print : forall msg, inv T (fun _ => True) (print msg).
  Proof. intros msg s Hs. unfold print. split; auto. Qed.
  Lemma inv_set_stopping : forall b, inv T (fun _ => True) (modify (fun s => set_stopping s b)).
  Proof. intros b s Hs. unfold modify. split; auto. Qed.
  Lemma inv_loop_set_items : forall c, tg T c -> inv T (fun _ => True) (loop_set_items c).
  Proof.
    intros c Hc s Hs. unfold loop_set_items. destruct (loops s) as [| l r] eqn:E; ifs; errc. split; auto.
    apply tgs_add_rstep. apply tgs_set_loops; auto.
    destruct Hs as (_ & _ & C). rewrite E in C. inversion C; subst. constructor; auto.
  Qed.

  (* accessors *)
  Ltac acc H :=
    let V := fresh "V" in pose proof (tg_value _ H) as V; revert V;
    match type of H with tg _ ?c => generalize (value c) end; intros x V;
    destruct x; try (apply inv_ret_true); try (apply inv_fail; cbn; auto).
  Lemma inv_m_xint : forall c, tg T c -> inv T (fun _ => True) (m_xint c).
  Proof. intros c H. unfold m_xint. acc H. Qed.
  Lemma inv_m_real : forall c, tg T c -> inv T (fun _ => True) (m_real c).
  Proof. intros c H. unfold m_real. acc H. Qed.
  Lemma inv_m_str : forall c, tg T c -> inv T (fun _ => True) (m_str c).
  Proof. intros c H. unfold m_str. acc H. Qed.
  Lemma inv_m_bits : forall c, tg T c -> inv T (fun _ => True) (m_bits c).
  Proof. intros c H. unfold m_bits. acc H. Qed.
  Lemma inv_m_bool : forall c, tg T c -> inv T (fun _ => True) (m_bool c).
  Proof. intros c H. unfold m_bool. acc H. Qed.
  Lemma inv_m_cond : forall c, tg T c -> inv T (fun _ => True) (m_cond c).
  Proof. intros c H. unfold m_cond. acc H. Qed.
  Lemma inv_m_isize : forall c, tg T c -> inv T (fun _ => True) (m_isize c).
  Proof. intros c H. unfold m_isize. acc H. destruct (in_isize z); [apply inv_ret_true | apply inv_fail; exact I]. Qed.
  Lemma inv_m_usize : forall c, tg T c -> inv T (fun _ => True) (m_usize c).
  Proof.
    intros c H. unfold m_usize. acc H. destruct (z <? 0)%Z; [apply inv_fail; exact H|].
    destruct (in_usize z); [apply inv_ret_true | apply inv_fail; exact I].
  Qed.
  Lemma inv_m_vec : forall c, tg T c -> inv T (Forall (tg T)) (m_vec c).
  Proof.
    intros c H. unfold m_vec. pose proof (tg_value _ H) as V. revert V. generalize (value c). intros x V.
    destruct x; try (apply inv_fail; cbn; auto). apply inv_ret. apply tg_vec. assumption.
  Qed.
  Lemma inv_m_map : forall c, tg T c -> inv T (Forall (tg2 T)) (m_map c).
  Proof.
    intros c H. unfold m_map. pose proof (tg_value _ H) as V. revert V. generalize (value c). intros x V.
    destruct x; try (apply inv_fail; cbn; auto). apply inv_ret. apply tg_map. assumption.
  Qed.

  (* pure functions *)
  Lemma tg_find : forall m k, Forall (tg2 T) m -> tgo T (assoc_find m k).
  Proof.
    intros m k H. destruct (assoc_find m k) eqn:E; cbn; auto.
    apply assoc_find_in in E. destruct E as (k' & I & _). rewrite Forall_forall in H. apply (H _ I).
  Qed.
  Lemma tg_find_default : forall m k, Forall (tg2 T) m -> tg T (match assoc_find m k with Some x => x | None => CNil end).
  Proof. intros m k H. pose proof (tg_find m k H) as F. destruct (assoc_find m k); auto. apply tg_nil. Qed.
  Lemma assoc_insert_in : forall m k v p, In p (assoc_insert m k v) -> p = (k, v) \/ In p m.
  Proof.
    induction m as [| [k0 v0] r IH]; cbn; intros k v p H.
    - destruct H as [<-|[]]. auto.
    - destruct (cell_cmp k k0); cbn in H.
      + destruct H as [<-|H]; auto.
      + destruct H as [<-|H]; auto.
      + destruct H as [<-|H]; auto. destruct (IH _ _ _ H); auto.
  Qed.
  Lemma assoc_remove_in : forall m k p, In p (assoc_remove m k) -> In p m.
  Proof.
    induction m as [| [k0 v0] r IH]; cbn; intros k p H; auto.
    destruct (cell_cmp k k0); cbn in H; auto; destruct H as [<-|H]; eauto.
  Qed.
  Lemma tg_insert : forall m k v, Forall (tg2 T) m -> tg T k -> tg T v -> Forall (tg2 T) (assoc_insert m k v).
  Proof.
    intros m k v Hm Hk Hv. rewrite Forall_forall in *. intros p Hp. apply assoc_insert_in in Hp.
    destruct Hp as [->|Hp]; auto. split; assumption.
  Qed.
  Lemma tg_remove : forall m k, Forall (tg2 T) m -> Forall (tg2 T) (assoc_remove m k).
  Proof. intros m k Hm. rewrite Forall_forall in *. intros p Hp. apply assoc_remove_in in Hp. auto. Qed.
  Lemma tg_pairs_insert : forall l m, Forall (tg T) l -> Forall (tg2 T) m -> Forall (tg2 T) (pairs_insert l m).
  Proof.
    fix IH 1. intros [| v [| k r]] m Hl Hm; cbn [pairs_insert]; auto.
    inversion Hl as [| ? ? A1 A2]; subst. inversion A2; subst. apply IH; auto. apply tg_insert; auto.
  Qed.
  Lemma sort_insert_in' : forall x l y, In y (sort_insert x l) -> y = x \/ In y l.
  Proof.
    induction l as [| z r IH]; cbn [sort_insert]; intros y H.
    - destruct H as [<-|[]]. auto.
    - destruct (cell_cmp x z); cbn in H; try (destruct H as [<-|H]; auto; fail).
      destruct H as [<-|H]; cbn; auto. destruct (IH _ H); cbn; auto.
  Qed.
  Lemma sort_cells_in' : forall l y, In y (sort_cells l) -> In y l.
  Proof.
    induction l as [| x r IH]; cbn [sort_cells fold_right]; intros y H; auto.
    apply sort_insert_in' in H. destruct H as [->|H]; cbn; auto.
  Qed.
  Lemma tg_sort : forall l, Forall (tg T) l -> Forall (tg T) (sort_cells l).
  Proof. intros l H. eapply Forall_incl'; [| exact H]. intros y. apply sort_cells_in'. Qed.
  Lemma tg_rev : forall l, Forall (tg T) l -> Forall (tg T) (rev l).
  Proof. intros. apply Forall_rev. assumption. Qed.
  Lemma tg_app : forall a b, Forall (tg T) a -> Forall (tg T) b -> Forall (tg T) (a ++ b).
  Proof. intros. apply Forall_app. auto. Qed.
  Lemma tg_firstn : forall n l, Forall (tg T) l -> Forall (tg T) (firstn n l).
  Proof. intros n l H. eapply Forall_incl'; [| exact H]. intros x Hx. rewrite <- (firstn_skipn n l). apply in_or_app. auto. Qed.
  Lemma tg_skipn : forall n l, Forall (tg T) l -> Forall (tg T) (skipn n l).
  Proof. intros n l H. eapply Forall_incl'; [| exact H]. intros x Hx. rewrite <- (firstn_skipn n l). apply in_or_app. auto. Qed.
  Lemma tg_slice : forall l a b, Forall (tg T) l -> Forall (tg T) (slice_list l a b).
  Proof. intros. unfold slice_list. apply tg_firstn, tg_skipn. assumption. Qed.
  Lemma tg_cons : forall x l, tg T x -> Forall (tg T) l -> Forall (tg T) (x :: l).
  Proof. intros. constructor; assumption. Qed.
  Lemma tg_lnil : Forall (tg T) []. Proof. constructor. Qed.
  Lemma tg_nth : forall l i x, Forall (tg T) l -> nth_error l i = Some x -> tg T x.
  Proof. intros l i x H E. rewrite Forall_forall in H. apply H. eapply nth_error_In; eassumption. Qed.
  Lemma tg2_nth : forall l i k v, Forall (tg2 T) l -> nth_error l i = Some (k, v) -> tg T k /\ tg T v.
  Proof. intros l i k v H E. rewrite Forall_forall in H. apply (H (k, v)). eapply nth_error_In; eassumption. Qed.
End Fresh.

Create HintDb tgdb.
#[export] Hint Resolve tg_nil tg_flag tg_cflag tg_int tg_cint tg_cnat tg_real tg_str tg_bits tg_vec_intro tg_map_intro
  tg_value tg_find_default tg_insert tg_remove tg_pairs_insert tg_sort tg_rev tg_app tg_firstn tg_skipn tg_slice
  tg_cons tg_lnil : tgdb.

Create HintDb invdb.
#[export] Hint Resolve inv_pop_data inv_top_data inv_dup_data inv_swap_data inv_rot_data inv_over_data
  inv_push_special inv_pop_special inv_get_var inv_print inv_set_stopping inv_unsup inv_panic inv_ret_true
  inv_m_xint inv_m_real inv_m_str inv_m_bits inv_m_vec inv_m_map inv_m_isize inv_m_bool inv_m_cond inv_m_usize
  : invdb.

Ltac head_of t := lazymatch t with ?f _ => head_of f | _ => t end.
Ltac inv_pure := first [ solve [ auto 7 with tgdb nocore ] | exact I | idtac ].
Ltac inv_payload := cbn [tgo]; first [ exact I | solve [ auto 5 with tgdb nocore ] | idtac ].

(* destruct [value c] keeping what is known about its components *)
Ltac by_tg H :=
  let V := fresh "V" in
  pose proof (tg_value _ _ H) as V; revert V;
  match type of H with tg _ ?c => generalize (value c) end;
  let x := fresh "x" in intros x V; destruct x; cbv beta iota;
  try (apply tg_vec in V); try (apply tg_map in V).

Ltac inv_go :=
  cbv beta zeta;
  lazymatch goal with
  | |- inv _ _ (ret _) => first [ apply inv_ret_true | apply inv_ret; inv_pure ]
  | |- inv _ _ (fail _ _) => apply inv_fail; inv_payload
  | |- inv _ _ unsup => apply inv_unsup
  | |- inv _ _ panic => apply inv_panic
  | |- inv _ _ (push_data _) => apply inv_push_data; inv_pure
  | |- inv _ _ (set_var _ _) => apply inv_set_var; inv_pure
  | |- inv _ _ (loop_set_items _) => apply inv_loop_set_items; inv_pure
  | |- inv _ _ (bind get _) => idtac
  | |- inv _ _ (bind _ _) =>
    eapply inv_bind;
    [ inv_go
    | let a := fresh "a" in let Ha := fresh "Ha" in intros a Ha; inv_go ]
  | |- inv _ _ (match value ?c with _ => _ end) =>
    lazymatch goal with
    | H : tg _ c |- _ => by_tg H; inv_go
    | _ => idtac
    end
  | |- inv _ _ (match nth_error ?l ?i with _ => _ end) =>
    let E := fresh "E" in
    lazymatch goal with
    | H : Forall (tg _) l |- _ =>
      destruct (nth_error l i) eqn:E; [ apply (tg_nth _ _ _ _ H) in E | ]; inv_go
    | H : Forall (tg2 _) l |- _ =>
      destruct (nth_error l i) as [[? ?]|] eqn:E; [ apply (tg2_nth _ _ _ _ _ H) in E; destruct E | ]; inv_go
    | _ => idtac
    end
  | |- inv _ _ (match assoc_find ?m ?k with _ => _ end) =>
    lazymatch goal with
    | H : Forall (tg2 _) m |- _ =>
      let F := fresh "F" in
      pose proof (tg_find _ m k H) as F; destruct (assoc_find m k); cbn [tgo] in F; inv_go
    | _ => idtac
    end
  | |- inv _ _ (if ?b then _ else _) => destruct b; inv_go
  | |- inv _ _ (match ?x with _ => _ end) => destruct x; inv_go
  | |- inv _ _ ?m =>
    first [ solve [ eauto 3 with invdb nocore ]
          | let h := head_of m in tryif unfold h then inv_go else idtac ]
  end.

(* ---------- helpers ---------- *)
Notation invw T w := (inv T (fun _ => True) w).

Section FreshWords.
  Variable T : cell -> Prop.

  Lemma tg_get_tag : forall c k, tg T c -> tgo T (get_tag c k).
  Proof.
    intros c k H. unfold get_tag. pose proof (tg_tags T c H) as G.
    destruct (tags_of c); cbn [tgo]; auto. apply tg_map in G. apply tg_find. assumption.
  Qed.
  Lemma tg_get_tag_default : forall c k d, tg T c -> tg T d -> tg T (match get_tag c k with Some x => x | None => d end).
  Proof. intros c k d H Hd. pose proof (tg_get_tag c k H) as G. destruct (get_tag c k); auto. Qed.

  Lemma inv_vector_get : forall v i, Forall (tg T) v -> inv T (tg T) (vector_get v i).
  Proof.
    intros v i H. unfold vector_get. destruct (relative_index (length v) i); [| apply inv_fail; exact I].
    destruct (nth_error v n) eqn:E; [| apply inv_fail; exact I]. apply inv_ret. eapply tg_nth; eassumption.
  Qed.
  Lemma inv_push_all : forall v, Forall (tg T) v -> invw T (push_all v).
  Proof.
    induction 1; cbn [push_all]; [apply inv_ret_true|].
    eapply inv_bind; [apply inv_push_data; assumption|]. intros; assumption.
  Qed.
  Lemma inv_pop_n : forall n, invw T (pop_n n).
  Proof. induction n; cbn [pop_n]; [apply inv_ret_true|]. eapply inv_bind; [apply inv_pop_data|]. intros; assumption. Qed.
  Lemma inv_vec_collect : forall ptr, inv T (Forall (tg T)) (vec_collect_till_ptr ptr).
  Proof.
    intro ptr. unfold vec_collect_till_ptr. apply inv_get_bind. intros s0 H0. cbv zeta.
    destruct (length (ds s0) <? ptr); [apply inv_fail; exact I|].
    eapply inv_bind; [apply inv_pop_n|]. intros _ _. apply inv_ret. apply tg_rev, tg_firstn, H0.
  Qed.
  Lemma inv_map_collect : forall ptr, inv T (Forall (tg2 T)) (map_collect_till_ptr ptr).
  Proof.
    intro ptr. unfold map_collect_till_ptr. apply inv_get_bind. intros s0 H0. cbv zeta.
    destruct (length (ds s0) <? ptr); [apply inv_fail; exact I|].
    destruct (negb _); [apply inv_fail; exact I|].
    eapply inv_bind; [apply inv_pop_n|]. intros _ _. apply inv_ret.
    apply tg_pairs_insert; [apply tg_rev, tg_firstn, H0 | constructor].
  Qed.
End FreshWords.
#[export] Hint Resolve inv_vector_get inv_push_all inv_pop_n inv_vec_collect inv_map_collect : invdb.
#[export] Hint Resolve tg_tags tg_get_tag_default : tgdb.

Section FreshWords2.
  Variable fo : fops.
  Variable T : cell -> Prop.

  Lemma inv_w_collect : invw T w_collect.
  Proof.
    unfold w_collect. eapply inv_bind; [apply inv_pop_data|]. intros c Hc.
    eapply inv_bind; [apply inv_m_usize; assumption|]. intros n _.
    apply inv_get_bind. intros s0 H0. inv_go.
  Qed.
  Lemma inv_w_depth : invw T w_depth.
  Proof. unfold w_depth. apply inv_get_bind. intros. inv_go. Qed.
  Lemma inv_w_vec_begin : invw T w_vec_begin.
  Proof. unfold w_vec_begin. apply inv_get_bind. intros. inv_go. Qed.
  Lemma inv_w_display_stack : invw T w_display_stack.
  Proof. unfold w_display_stack. apply inv_get_bind. intros. inv_go. Qed.
  Lemma inv_w_decode : forall d, invw T (w_decode d).
  Proof. intro d. unfold w_decode. apply inv_get_bind. intros. inv_go. Qed.

  Lemma active_loops_tg : forall s, tg_state T s -> Forall (fun l => tg T (l_items l)) (active_loops s).
  Proof.
    intros s (_ & _ & H). unfold active_loops. eapply Forall_incl'; [| exact H].
    intros x Hx. rewrite <- (firstn_skipn (length (loops s) - ls_len (cx s)) (loops s)). apply in_or_app. auto.
  Qed.
  Lemma inv_w_counter : forall n, invw T (w_counter n).
  Proof.
    intro n. unfold w_counter. apply inv_get_bind. intros s0 H0.
    destruct (nth_error (active_loops s0) n) as [l|] eqn:E; [| inv_go].
    assert (Hl : tg T (l_items l)).
    { pose proof (active_loops_tg _ H0) as F. rewrite Forall_forall in F. apply F. eapply nth_error_In; eassumption. }
    inv_go.
  Qed.
  Lemma inv_w_foreach_next : invw T w_foreach_next.
  Proof. unfold w_foreach_next. apply inv_get_bind. intros s0 H0. inv_go. Qed.

  (* >bitstr *)
  Lemma bcv_tg : forall f v acc, Forall (tg T) v -> tgo T (snd (bitstr_concat_vec f v acc)).
  Proof.
    induction f as [| f IHf]; intros v acc H; [exact I|].
    revert acc. induction H as [| x r Hx Hr IHv]; intro acc; [exact I|].
    cbn [bitstr_concat_vec]. pose proof (tg_value T x Hx) as V. revert V. generalize (value x). intros y V.
    destruct y; try exact V; try apply IHv.
    - destruct ((0 <=? z) && (z <=? 255))%Z; [apply IHv | exact I].
    - apply tg_vec in V. specialize (IHf l (mkcbs 0 0 []) V).
      destruct (bitstr_concat_vec f l (mkcbs 0 0 [])) as [o p]. cbn [snd] in IHf.
      destruct o; [apply IHv | exact IHf | exact IHf].
  Qed.
  Lemma inv_bitstr_concat : forall c, tg T c -> invw T (bitstr_concat c).
  Proof.
    intros c H. unfold bitstr_concat. by_tg H; try (inv_go; fail).
    pose proof (bcv_tg 40 l (mkcbs 0 0 []) V) as P.
    destruct (bitstr_concat_vec 40 l (mkcbs 0 0 [])) as [o p]. cbn [snd] in P.
    destruct o; [apply inv_ret_true | apply inv_fail; assumption | apply inv_unsup].
  Qed.
  Lemma inv_w_close_bitstr : invw T w_close_bitstr.
  Proof.
    unfold w_close_bitstr. eapply inv_bind; [apply inv_get_var|]. intros st Hst.
    eapply inv_bind; [apply inv_m_vec; assumption|]. intros v Hv.
    apply tg_rev in Hv. destruct (rev v) as [| last r]; [apply inv_fail; exact I|].
    inversion Hv; subst. inv_go.
  Qed.
End FreshWords2.
#[export] Hint Resolve inv_w_close_bitstr inv_w_collect inv_w_depth inv_w_vec_begin inv_w_display_stack inv_w_decode inv_w_counter
  inv_w_foreach_next inv_bitstr_concat : invdb.

(* the words that build a tag wrapper *)
Definition tag_makers : list string :=
  ["with-tags"; "insert-tag"; "remove-tag"; "%tagmap-end"; "%fmt-base"; "%fmt-prefix"; "%fmt-tags"; "%fmt-upcase";
   "open-bitstr"; "float"; "int"; "uint"]%string.
Definition tag_maker (w : string) : bool := existsb (String.eqb w) tag_makers.

Ltac word_inv :=
  cbn [snd]; intro;
  first [ solve [ inv_go ] ].

Lemma inv_word_table : forall fo,
  Forall (fun nw => tag_maker (fst nw) = true \/ forall T, invw T (snd nw)) (word_table fo).
Proof.
  intro fo. unfold word_table.
  repeat (apply Forall_cons; [ first [ left; reflexivity | right; word_inv ] | ]).
  apply Forall_nil.
Qed.

(* ---------- the theorems ---------- *)
Theorem fresh_untagged : forall fo w f T s,
  table_find (word_table fo) w = Some f -> tag_maker w = false -> tg_state T s ->
  match f s with
  | ROk _ s' => tg_state T s'
  | RErr _ p s' => tgo T p /\ tg_state T s'
  | _ => True
  end.
Proof.
  intros fo w f T s H Hm Hs.
  assert (I : invw T f).
  { revert H. generalize (inv_word_table fo). generalize (word_table fo).
    induction l as [| [n x] r IH]; intros HF H; cbn [table_find] in H; [discriminate|].
    inversion HF; subst. destruct (String.eqb n w) eqn:E.
    - injection H as <-. apply String.eqb_eq in E. subst n. cbn [fst snd] in *.
      destruct H2 as [H2|H2]; [congruence | apply H2].
    - apply IH; assumption. }
  specialize (I s Hs). destruct (f s); auto. apply I.
Qed.

(* the packing words of the sized families create no tags either *)
Theorem fresh_pack_words : forall fo T n o, invw T (pack_int n o) /\ invw T (pack_float fo n o).
Proof. intros. split; inv_go. Qed.

(* with T empty: [no_tags c] - there is no tag wrapper anywhere in c *)
Definition no_tags : cell -> Prop := tg (fun _ => False).
Definition no_tags_state : state -> Prop := tg_state (fun _ => False).

Lemma no_tags_strip : forall c, no_tags c -> strip c = c.
Proof.
  induction c using cell_ind'; intro Hc; cbn [strip]; auto.
  - apply tg_vec in Hc. f_equal. rewrite Forall_forall in *.
    rewrite <- (map_id l) at 2. apply map_ext_in. intros a Ha. apply H; [assumption | apply Hc; assumption].
  - apply tg_map in Hc. f_equal. rewrite Forall_forall in *.
    rewrite <- (map_id m) at 2. apply map_ext_in. intros [k v] Hkv.
    destruct (H _ Hkv) as [H1 H2], (Hc _ Hkv) as [C1 C2]. cbn [fst snd] in *.
    rewrite (H1 C1), (H2 C2). reflexivity.
  - destruct Hc as [[] _].
Qed.

Corollary fresh_no_tags : forall fo w f s,
  table_find (word_table fo) w = Some f -> tag_maker w = false -> no_tags_state s ->
  match f s with
  | ROk _ s' => no_tags_state s'
  | RErr _ p s' => tgo (fun _ => False) p /\ no_tags_state s'
  | _ => True
  end.
Proof. intros. eapply fresh_untagged; eassumption. Qed.

(* provenance: every tag wrapper of the output is a component of a cell the machine held *)
Definition comp (x d : cell) : Prop :=
  match d with
  | CVec l => In x l
  | CMap m => exists kv, In kv m /\ (x = fst kv \/ x = snd kv)
  | CTag t v => x = v \/ exists kv, In kv t /\ (x = fst kv \/ x = snd kv)
  | _ => False
  end.
Inductive subcell : cell -> cell -> Prop :=
| sub_refl : forall c, subcell c c
| sub_step : forall x y d, comp x y -> subcell y d -> subcell x d.

Lemma subcell_deep : forall d0 d, subcell d d0 -> deepT (fun x => subcell x d0) d.
Proof.
  intros d0. induction d using cell_ind'; intro Hd; try (split; [assumption | exact I]).
  - apply deepT_vec. split; auto. rewrite Forall_forall in *. intros x Hx. apply H; auto.
    eapply sub_step; [| exact Hd]. exact Hx.
  - apply deepT_map. split; auto. rewrite Forall_forall in *. intros kv Hkv. destruct (H _ Hkv) as [H1 H2].
    split; [apply H1 | apply H2]; (eapply sub_step; [| exact Hd]); exists kv; auto.
  - apply deepT_tag. split; auto. split.
    + rewrite Forall_forall in *. intros kv Hkv. destruct (H _ Hkv) as [H1 H2].
      split; [apply H1 | apply H2]; (eapply sub_step; [| exact Hd]); right; exists kv; auto.
    + apply IHd. eapply sub_step; [| exact Hd]. left. reflexivity.
Qed.

Lemma deepT_impl : forall (P Q : cell -> Prop), (forall c, P c -> Q c) -> forall c, deepT P c -> deepT Q c.
Proof.
  intros P Q HPQ. induction c using cell_ind'; try (intros [H1 H2]; split; auto; fail).
  - rewrite !deepT_vec. intros [H1 H2]. split; auto. rewrite Forall_forall in *. auto.
  - rewrite !deepT_map. intros [H1 H2]. split; auto.
    rewrite Forall_forall in *. intros kv Hkv. destruct (H _ Hkv), (H2 _ Hkv). split; auto.
  - rewrite !deepT_tag. intros (H1 & H2 & H3). split; auto. split; auto.
    rewrite Forall_forall in *. intros kv Hkv. destruct (H _ Hkv), (H2 _ Hkv). split; auto.
Qed.

Definition state_cells (s : state) : list cell := ds s ++ heap s ++ map l_items (loops s).
Definition came_from (s : state) (x : cell) : Prop := exists d, In d (state_cells s) /\ subcell x d.

Lemma came_from_self : forall s, tg_state (came_from s) s.
Proof.
  intro s.
  assert (A : forall d, In d (state_cells s) -> tg (came_from s) d).
  { intros d Hd. eapply deepT_impl; [| apply (subcell_deep d d (sub_refl d))].
    intros c Hc. destruct c; cbn; auto. exists d. auto. }
  unfold tg_state, state_cells in *. repeat split; apply Forall_forall; intros x Hx; apply A.
  - apply in_or_app. auto.
  - apply in_or_app. right. apply in_or_app. auto.
  - apply in_or_app. right. apply in_or_app. right. apply in_map. assumption.
Qed.

Theorem fresh_components : forall fo w f s,
  table_find (word_table fo) w = Some f -> tag_maker w = false ->
  match f s with
  | ROk _ s' => tg_state (came_from s) s'
  | RErr _ p s' => tgo (came_from s) p /\ tg_state (came_from s) s'
  | _ => True
  end.
Proof. intros. eapply fresh_untagged; eauto using came_from_self. Qed.

(* the words left out do build tag wrappers *)
Example with_tags_makes_a_tag :
  let s := mkstate [] [] [] [] [] [] [CMap []; CInt 1] [] [] [] [] (mkctx 0 0 0 0 0 0 0 0 MEval) [] 0%Z
                   None None None None EmptyString None false in
  match w_with_tags s with ROk _ s' => ds s' = [CTag [] (CInt 1)] | _ => False end.
Proof. vm_compute. reflexivity. Qed.
