(* Proofs of the C04 lemmas: every bit-string operation of the mirror is a
   function of the abstract bit sequence [abs]. *)
From Xeh Require Import Model.Prelude Model.Bits Proofs.BitsBasic.
From Xeh Require Import Proofs.BitsKernel Proofs.BitsLists Proofs.BitsMirror.
From Coq Require Import ZifyBool ZifyNat ZifyN.
Local Ltac Zify.zify_post_hook ::= Z.div_mod_to_equations.

Lemma bits_spec : forall c, wf c -> bits c = map b2n (abs c).
Proof. exact bits_spec_aux. Qed.

Lemma iter8_spec : forall c, wf c -> iter8 c = map grp (chunk8 (abs c)).
Proof. exact iter8_abs. Qed.

Lemma seek_spec : forall c pos, wf c ->
  match seek c pos with
  | Some r => cstart c <= pos <= cend c /\ wf r /\ abs r = skipn (pos - cstart c) (abs c)
  | None => ~ (cstart c <= pos <= cend c)
  end.
Proof.
  intros c pos (H1 & H2 & H3). unfold seek.
  destruct ((cstart c <=? pos) && (pos <=? cend c)) eqn:E.
  - split; [lia|]. split.
    + apply wf_mk; [lia|assumption|assumption].
    + rewrite abs_mk, abs_unfold, skipn_map_seq. f_equal. f_equal; lia.
  - lia.
Qed.

Lemma read_spec : forall c n, wf c ->
  match read c n with
  | Some (r, rest) => n <= clen c /\ wf r /\ wf rest /\
                      abs r = firstn n (abs c) /\ abs rest = skipn n (abs c)
  | None => clen c < n
  end.
Proof.
  intros c n (H1 & H2 & H3). unfold read, clen. cbv zeta.
  destruct (cend c <? cstart c + n) eqn:E.
  - lia.
  - split; [lia|]. split; [|split; [|split]].
    + apply wf_mk; [lia|lia|assumption].
    + apply wf_mk; [lia|assumption|assumption].
    + rewrite abs_mk, abs_unfold, firstn_map_seq. f_equal. f_equal; lia.
    + rewrite abs_mk, abs_unfold, skipn_map_seq. f_equal. f_equal; lia.
Qed.

Lemma peek_spec : forall c n, wf c ->
  match peek c n with
  | Some r => n <= clen c /\ wf r /\ abs r = firstn n (abs c)
  | None => clen c < n
  end.
Proof.
  intros c n (H1 & H2 & H3). unfold peek, clen. cbv zeta.
  destruct ((cstart c <=? cstart c + n) && (cstart c + n <=? cend c)) eqn:E.
  - split; [lia|]. split.
    + apply wf_mk; [lia|lia|assumption].
    + rewrite abs_mk, abs_unfold, firstn_map_seq. f_equal. f_equal; lia.
  - lia.
Qed.

Lemma substr_spec : forall c s e, wf c ->
  match substr c s e with
  | Some r => s <= e /\ cstart c <= s /\ e <= cend c /\ wf r /\
              abs r = firstn (e - s) (skipn (s - cstart c) (abs c))
  | None => ~ (s <= e /\ cstart c <= s /\ e <= cend c)
  end.
Proof.
  intros c s e (H1 & H2 & H3). unfold substr.
  destruct ((s <=? e) && (cstart c <=? s) && (e <=? cend c)) eqn:E.
  - split; [lia|]. split; [lia|]. split; [lia|]. split.
    + apply wf_mk; [lia|lia|assumption].
    + rewrite abs_mk, abs_unfold, skipn_map_seq, firstn_map_seq. f_equal. f_equal; lia.
  - lia.
Qed.

Lemma split_at_spec : forall c i, wf c ->
  match split_at c i with
  | Some (l, r) => i <= clen c /\ wf l /\ wf r /\
                   abs l = firstn i (abs c) /\ abs r = skipn i (abs c)
  | None => clen c < i
  end.
Proof.
  intros c n (H1 & H2 & H3). unfold split_at, clen. cbv zeta.
  destruct (cend c <? cstart c + n) eqn:E.
  - lia.
  - split; [lia|]. split; [|split; [|split]].
    + apply wf_mk; [lia|lia|assumption].
    + apply wf_mk; [lia|assumption|assumption].
    + rewrite abs_mk, abs_unfold, firstn_map_seq. f_equal. f_equal; lia.
    + rewrite abs_mk, abs_unfold, skipn_map_seq. f_equal. f_equal; lia.
Qed.

Lemma detach_spec : forall u c, wf c -> wf (detach u c) /\ abs (detach u c) = abs c.
Proof.
  intros u c Hc. unfold detach. destruct (u && (cstart c =? 0)); [split; [assumption|reflexivity]|].
  destruct (clen c =? 0) eqn:E.
  - split.
    + apply wf_mk; [lia|cbn [length]; lia|constructor].
    + unfold abs at 2. replace (clen c) with 0 by lia. reflexivity.
  - rewrite detach_data by assumption. split.
    + apply wf_mk.
      * lia.
      * rewrite map_length. unfold chunk8.
        rewrite <- (abs_length c) at 1. apply chunks8_count. lia.
      * unfold bytes_ok. rewrite Forall_forall. intros x Hx.
        apply in_map_iff in Hx. destruct Hx as (g & <- & _). apply pack_lt.
    + rewrite abs_mk. rewrite Nat.sub_0_r. rewrite <- (abs_length c).
      rewrite <- (map_nth_seq0 false (abs c)) at 3.
      apply map_ext. intros i. unfold chunk8. apply getbit_pack_chunks. lia.
Qed.

Lemma append_spec : forall u c t, wf c -> wf t ->
  wf (append u c t) /\ abs (append u c t) = abs c ++ abs t.
Proof.
  intros u c t Hc Ht. unfold append.
  destruct (detach_spec u c Hc) as [Hd Ha].
  destruct (append_bits_mut_spec (detach u c) t Hd Ht) as [Hw Hb].
  split; [assumption|]. rewrite Hb, Ha. reflexivity.
Qed.

Lemma insert_spec : forall u c i s, wf c -> wf s ->
  match insert u c i s with
  | Some r => i <= clen c /\ wf r /\ abs r = firstn i (abs c) ++ abs s ++ skipn i (abs c)
  | None => clen c < i
  end.
Proof.
  intros u c i s Hc Hs. unfold insert.
  pose proof (split_at_spec c i Hc) as Hsp.
  destruct (split_at c i) as [[l r]|]; [|assumption].
  destruct Hsp as (Hi & Hl & Hr & Al & Ar).
  destruct (detach_spec u l Hl) as [Hd Ha].
  destruct (append_bits_mut_spec (detach u l) s Hd Hs) as [Hw1 Hb1].
  destruct (append_bits_mut_spec _ r Hw1 Hr) as [Hw2 Hb2].
  split; [assumption|]. split; [assumption|].
  rewrite Hb2, Hb1, Ha, Al, Ar. rewrite <- app_assoc. reflexivity.
Qed.

Lemma invert_spec : forall u c, wf c ->
  wf (invert u c) /\ abs (invert u c) = map negb (abs c).
Proof.
  intros u c Hc. unfold invert. cbv zeta.
  destruct (detach_spec u c Hc) as [Hd Ha]. rewrite <- Ha.
  set (s := detach u c) in *. clearbody s. destruct Hd as (H1 & H2 & H3). unfold clen.
  split.
  - apply wf_mk.
    + assumption.
    + rewrite xor_bits_length. assumption.
    + apply bytes_ok_xor_bits. assumption.
  - rewrite abs_mk, abs_unfold, map_map. apply map_ext_in. intros i Hi.
    apply in_seq in Hi. rewrite getbit_xor_bits by (assumption || lia).
    replace ((cstart s <=? i) && (i <? cstart s + (cend s - cstart s))) with true by lia.
    reflexivity.
Qed.

(* grp is injective, hence so is map grp on chunk lists *)
Lemma grp_inj g h : grp g = grp h -> g = h.
Proof.
  unfold grp. intros E. injection E as E1 E2. apply bits_to_N_inj; assumption.
Qed.

Lemma cons_inj {A} (x y : A) l l' : x :: l = y :: l' -> x = y /\ l = l'.
Proof. intros E. split; congruence. Qed.

Lemma map_grp_inj : forall X Y, map grp X = map grp Y -> X = Y.
Proof.
  induction X as [|g X IH]; intros [|h Y] E; cbn [map] in E; try discriminate.
  - reflexivity.
  - apply cons_inj in E. destruct E as [E1 E2].
    f_equal; [apply grp_inj; assumption|apply IH; assumption].
Qed.

Lemma map_grp_split : forall X Y : list (list bool),
  map bits_to_N X = map bits_to_N Y -> map (@length bool) X = map (@length bool) Y ->
  map grp X = map grp Y.
Proof.
  induction X as [|g X IH]; intros [|h Y] E L; cbn [map] in *; try discriminate.
  - reflexivity.
  - apply cons_inj in E. destruct E as [E1 E2].
    apply cons_inj in L. destruct L as [L1 L2]. unfold grp at 1 3.
    rewrite E1, L1. f_equal. apply IH; assumption.
Qed.

Lemma chunk8_inj_grp la lb : map grp (chunk8 la) = map grp (chunk8 lb) -> la = lb.
Proof.
  intros E. apply map_grp_inj in E.
  rewrite <- (concat_chunk8 la), <- (concat_chunk8 lb), E. reflexivity.
Qed.

Lemma eq_with_spec : forall a b, wf a -> wf b -> (eq_with a b = true <-> abs a = abs b).
Proof.
  intros a b Ha Hb. unfold eq_with.
  destruct (clen a =? clen b) eqn:El; cbn [negb].
  - apply Nat.eqb_eq in El.
    destruct (is_u8_slice a && is_u8_slice b) eqn:Es.
    + apply andb_prop in Es. destruct Es as [Ea Eb].
      rewrite (list_eqb_spec N.eqb N.eqb_eq).
      rewrite (bytes_of_spec a Ha Ea), (bytes_of_spec b Hb Eb). split.
      * intros E. apply chunk8_inj_grp. apply map_grp_split; [assumption|].
        unfold chunk8. rewrite !abs_length, El.
        apply chunks8_lengths. rewrite !abs_length. assumption.
      * intros ->. reflexivity.
    + rewrite (list_eqb_spec pair_eqb pair_eqb_spec).
      rewrite (iter8_abs a Ha), (iter8_abs b Hb). split.
      * apply chunk8_inj_grp.
      * intros ->. reflexivity.
  - split; [discriminate|]. intros E.
    apply (f_equal (@length bool)) in E. rewrite !abs_length in E. lia.
Qed.

Lemma to_hex_spec : forall c, wf c ->
  to_hex_digits c =
  flat_map (fun g => (if 4 <? length g then [N.shiftr (bits_to_N g) 4] else []) ++ [N.land (bits_to_N g) 15])
           (chunk8 (abs c)).
Proof.
  intros c Hc. unfold to_hex_digits. rewrite iter8_abs by assumption.
  rewrite flat_map_map'. reflexivity.
Qed.

Lemma padding_spec : forall c, wf c -> to_bytes_with_padding c = map bits_to_N (chunk8 (abs c)).
Proof.
  intros c Hc. unfold to_bytes_with_padding. rewrite iter8_abs by assumption.
  rewrite map_map. reflexivity.
Qed.

Lemma to_bytes_spec : forall c, wf c ->
  to_bytes c = if clen c mod 8 =? 0 then Some (map bits_to_N (chunk8 (abs c))) else None.
Proof.
  intros c Hc. unfold to_bytes, is_bytestr.
  destruct (clen c mod 8 =? 0) eqn:E1; [|reflexivity].
  destruct (cstart c mod 8 =? 0) eqn:E2.
  - assert (Hs : is_u8_slice c = true).
    { unfold is_u8_slice, is_bytestr. rewrite E1, E2. reflexivity. }
    unfold slice. rewrite Hs. f_equal. apply bytes_of_spec; assumption.
  - f_equal. apply padding_spec. assumption.
Qed.

Lemma bytestr_spec : forall c, wf c ->
  bytestr c = if clen c mod 8 =? 0 then Some (map bits_to_N (chunk8 (abs c))) else None.
Proof.
  intros c Hc. unfold bytestr, slice.
  destruct (is_u8_slice c) eqn:Es.
  - pose proof (slice_inv c Es) as [_ H2]. rewrite H2. cbn [Nat.eqb].
    f_equal. apply bytes_of_spec; assumption.
  - unfold is_bytestr. destruct (clen c mod 8 =? 0) eqn:E1; [|reflexivity].
    f_equal. apply padding_spec. assumption.
Qed.

Lemma slice_spec : forall c d, wf c -> slice c = Some d -> d = map bits_to_N (chunk8 (abs c)).
Proof.
  intros c d Hc. unfold slice. destruct (is_u8_slice c) eqn:Es; [|discriminate].
  intros E. injection E as <-. apply bytes_of_spec; assumption.
Qed.

Lemma of_bools_spec : forall l, wf (of_bools l) /\ abs (of_bools l) = l.
Proof.
  intros l. unfold of_bools, from_bits, bvb_finish.
  pose proof (fold_append_inv l bvb_empty [] binv_empty) as H. cbn [app] in H.
  destruct H as (H1 & H2 & H3 & H4).
  set (b := fold_left append_bit (map b2n l) bvb_empty) in *. split.
  - apply wf_mk; [lia| |assumption]. rewrite H1, H2. apply ubi_ge.
  - rewrite abs_mk. rewrite Nat.sub_0_r, H1.
    rewrite <- (map_nth_seq0 false l) at 2. apply map_ext. exact H4.
Qed.

Lemma from_hex_spec : forall ds, Forall (fun d => (d < 16)%N) ds ->
  wf (from_hex ds) /\ abs (from_hex ds) = flat_map nibble_bits ds.
Proof.
  intros ds Hds. unfold from_hex.
  assert (H0 : hinv 0 [] []).
  { unfold hinv. cbn [length]. repeat split.
    - constructor.
    - intros i. rewrite getbit_nil. destruct i; reflexivity. }
  pose proof (from_hex_go_inv ds 0 [] [] Hds H0) as H. cbn [app] in H.
  destruct (from_hex_go ds 0 []) as [n buf]. cbn [fst snd] in H.
  destruct H as (H1 & H2 & H3 & H4 & H5). split.
  - apply wf_mk; [lia| |assumption]. rewrite H3. apply ubi_ge.
  - rewrite abs_mk. rewrite Nat.sub_0_r, H1.
    rewrite <- (map_nth_seq0 false (flat_map nibble_bits ds)) at 2.
    apply map_ext. exact H5.
Qed.
