(* DbgMapRun.v (C17, 3): where a run-time error leaves the machine.

   A failing [fetch_and_run] keeps ip, the debug map and the sources, so the entry
   [nth_error (dbg s') (ip s')] read after the failure is the entry of the instruction that
   failed; a failing [run] failed in exactly one such step, taken in a running state
   (ip inside the code), so under alignment the entry exists. *)
From Xeh Require Import Model.Prelude Model.Bits Model.Codec Model.Cell Model.Lexer Model.Fmt
                        Model.Vm Model.Words Model.Build.
From Xeh Require Import Proofs.VmFrame Proofs.VmLimits Proofs.DbgMapVm Proofs.DbgMapAlign.

Lemma steps_vmrel : forall nf, (forall w f, nf w = Some f -> wl f) ->
  forall n s s', steps nf n s = Some s' -> vmrel s s'.
Proof.
  intros nf Hnf. induction n as [|n IH]; intros s s' H; cbn [steps] in H.
  - injection H as <-. apply vmrel_refl.
  - pose proof (far_vmrel nf Hnf s) as H1.
    destruct (fetch_and_run nf s) as [u s1|k p s1| |]; try discriminate.
    cbn [res_all] in H1. eapply vmrel_trans; [exact H1|]. apply IH. exact H.
Qed.

(* one failing step *)
Theorem far_err_location : forall fo s k p s',
  fetch_and_run (native_fn fo) s = RErr k p s' ->
  ip s' = ip s /\ dbg s' = dbg s /\ sources s' = sources s /\
  length (code s') = length (code s).
Proof.
  intros fo s k p s' H. split; [eapply far_err_ip; exact H|].
  pose proof (far_vmrel (native_fn fo) (native_wl fo) s) as V. rewrite H in V. cbn [res_all] in V.
  destruct (vmrel_keeps _ _ V) as (A1 & A2 & A3 & _). auto.
Qed.

(* the instruction that failed is the one at ip (the patched one for a Resolve cell), and
   the failure is not the step's own bookkeeping: either the instruction limit, or an
   unknown late-bound word, or the execution of the instruction itself *)
Theorem far_err_cases : forall fo s k p s',
  fetch_and_run (native_fn fo) s = RErr k p s' ->
  (k = ELimit /\ p = None) \/
  (exists name, nth_error (code s) (ip s) = Some (OResolve name) /\ dict_entry s name = None /\ k = EUnknown) \/
  (exists op s1, (nth_error (code s) (ip s) = Some op \/
                  exists name e, nth_error (code s) (ip s) = Some (OResolve name) /\
                                 dict_entry s name = Some e /\ op = resolve_op e) /\
                 ip s1 = ip s /\ exec_op (native_fn fo) (ip s) op s1 = RErr k p s').
Proof.
  intros fo s k p s' H. pose proof (far_spec_holds (native_fn fo) s) as FS. rewrite H in FS.
  inversion FS as [ Hm | | op Hm Hn Hr Hx | name Hm Hn Hd | name e Hm Hn Hd Hm2 | name e Hm Hn Hd Hm2 Hx ]; subst.
  - left. auto.
  - right. right. exists op, (set_meter s (meter s + 1)%Z). split; [left; exact Hn|]. split; [reflexivity|]. congruence.
  - right. left. exists name. auto.
  - left. auto.
  - right. right.
    exists (resolve_op e), (set_meter (set_code (set_meter s (meter s + 1)%Z)
                                               (list_set (code s) (ip s) (resolve_op e))) (meter s + 1 + 1)%Z).
    split; [right; exists name, e; auto|]. split; [reflexivity|].
    first [exact Hx | reflexivity].
Qed.

(* a failing run *)
Theorem run_err_location : forall fo fuel s k p s',
  run (native_fn fo) fuel s = Some (RErr k p s') ->
  exists n s1,
    steps (native_fn fo) n s = Some s1 /\ is_running s1 = true /\
    fetch_and_run (native_fn fo) s1 = RErr k p s' /\
    ip s' = ip s1 /\ dbg s' = dbg s /\ sources s' = sources s /\
    ip s' < length (code s') /\
    (al s -> exists t, nth_error (dbg s') (ip s') = Some t /\ nth_error (dbg s) (ip s1) = Some t).
Proof.
  intros fo fuel s k p s' H.
  destruct (run_err_step _ _ _ _ _ _ H) as (n & s1 & H1 & H2 & H3).
  exists n, s1. split; [exact H1|]. split; [exact H2|]. split; [exact H3|].
  destruct (far_err_location _ _ _ _ _ H3) as (A1 & A2 & A3 & A4).
  pose proof (steps_vmrel _ (native_wl fo) _ _ _ H1) as V.
  destruct (vmrel_keeps _ _ V) as (B1 & B2 & B3 & _).
  unfold is_running in H2. apply Nat.ltb_lt in H2.
  split; [exact A1|]. split; [congruence|]. split; [congruence|]. split; [lia|].
  intros Ha. unfold al in Ha.
  assert (L : ip s1 < length (dbg s)) by lia.
  destruct (nth_error (dbg s) (ip s1)) as [t|] eqn:En; [|apply nth_error_None in En; lia].
  exists t. split; [|reflexivity]. rewrite A1, A2, B2. exact En.
Qed.
