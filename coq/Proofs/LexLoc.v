(* token_location: exact characterisation of the mirror against the byte-walk
   specification, the UTF-8 validity predicate, and the corrected C17(a) statement. *)
From Xeh Require Import Model.Prelude Model.Bits Model.Cell Model.Lexer.
From Coq Require Import ZifyBool ZifyNat ZifyN.
Local Open Scope string_scope.

(* ---------- structural UTF-8 validity ----------
   every lead byte is followed by exactly the number of continuation bytes its
   width announces, and no continuation byte stands alone.  (Real UTF-8 is
   stricter: every Rust [str] satisfies this predicate.) *)
Fixpoint valid_go (s : string) (need : nat) : bool :=
  match s with
  | "" => Nat.eqb need 0
  | String c r =>
    match need with
    | O => negb (is_cont c) && valid_go r (utf8_width c - 1)
    | S k => is_cont c && valid_go r k
    end
  end.
Definition valid_utf8 (s : string) : bool := valid_go s 0.

(* the end of the last character as the char_indices loop sees it: position of
   the last non-continuation byte plus the width its lead byte announces *)
Fixpoint lce_go (s : string) (i acc : nat) : nat :=
  match s with
  | "" => acc
  | String c r => lce_go r (S i) (if is_cont c then acc else i + utf8_width c)
  end.
Definition last_char_end (s : string) : nat := lce_go s 0 1.

Lemma utf8_width_pos c : 1 <= utf8_width c.
Proof. unfold utf8_width. repeat match goal with |- context [if ?b then _ else _] => destruct b end; lia. Qed.

Lemma nl_width c : is_nl c = true -> utf8_width c = 1.
Proof.
  unfold is_nl, utf8_width. intros H.
  destruct (byte_of c <? 128)%N eqn:E; [reflexivity|]. lia.
Qed.

Lemma nl_not_cont c : is_nl c = true -> is_cont c = false.
Proof. unfold is_nl, is_cont. intros H. lia. Qed.

Lemma sls_go_ge : forall s i p acc, p <= i -> spec_line_start_go s i p acc = acc.
Proof.
  intros [|c r] i p acc H; cbn [spec_line_start_go]; [reflexivity|].
  replace (i <? p)%nat with false by lia. reflexivity.
Qed.

Lemma sls_go_range : forall s i p acc,
  spec_line_start_go s i p acc = acc \/ S i <= spec_line_start_go s i p acc.
Proof.
  induction s as [|c r IH]; intros i p acc; cbn [spec_line_start_go]; [left; reflexivity|].
  destruct (i <? p)%nat; [|left; reflexivity].
  destruct (is_nl c).
  - right. destruct (IH (S i) p (S i)) as [E|E]; lia.
  - destruct (IH (S i) p acc) as [E|E]; [left; assumption|right; lia].
Qed.

Lemma chars_go_ge : forall s i a p, p <= i -> spec_chars_go s i a p = 0.
Proof.
  induction s as [|c r IH]; intros i a p H; cbn [spec_chars_go]; [reflexivity|].
  rewrite IH by lia. replace (i <? p)%nat with false by lia.
  rewrite andb_false_r. reflexivity.
Qed.

Lemma spec_line_0 s : spec_line s 0 = 0.
Proof. destruct s; reflexivity. Qed.

Lemma spec_line_cons c r i p : i < p ->
  spec_line (String c r) (p - i) = (if (byte_of c =? 10)%N then 1 else 0) + spec_line r (p - S i).
Proof. intros H. replace (p - i) with (S (p - S i)) by lia. reflexivity. Qed.

Lemma tup4 {A B C D} (a a' : A) (b b' : B) (c c' : C) (d d' : D) :
  a = a' -> b = b' -> c = c' -> d = d' -> (a, b, c, d) = (a', b', c', d').
Proof. intros -> -> -> ->. reflexivity. Qed.

(* exact behaviour of the loop, for every byte string *)
Lemma tokloc_go_spec : forall s i p start endp line col,
  start <= i -> start <= p ->
  tokloc_go s i p start endp line col =
  (line + spec_line s (p - i),
   (if (spec_line_start_go s i p start =? start)%nat then col else 0)
     + spec_chars_go s i (spec_line_start_go s i p start) p,
   spec_line_start_go s i p start,
   if (spec_line_end_go s i p <? i + String.length s)%nat
   then spec_line_end_go s i p else lce_go s i endp).
Proof.
  induction s as [|c r IH]; intros i p start endp line col Hi Hp.
  - cbn [tokloc_go spec_line_start_go spec_chars_go spec_line_end_go lce_go String.length].
    rewrite Nat.eqb_refl. replace (i <? i + 0)%nat with false by lia.
    destruct (p - i); cbn [spec_line]; rewrite !Nat.add_0_r; reflexivity.
  - cbn [tokloc_go]. cbv zeta.
    change ((128 <=? byte_of c)%N && (byte_of c <? 192)%N) with (is_cont c).
    change ((byte_of c =? 10)%N || (byte_of c =? 13)%N) with (is_nl c).
    cbn [spec_line_start_go spec_chars_go spec_line_end_go lce_go String.length].
    replace (i + S (String.length r)) with (S i + String.length r) by lia.
    destruct (is_cont c) eqn:Ec.
    + (* continuation byte *)
      assert (En : is_nl c = false).
      { destruct (is_nl c) eqn:En; [|reflexivity]. apply nl_not_cont in En. congruence. }
      rewrite En, andb_false_r. cbn [negb]. rewrite andb_false_r.
      rewrite IH by lia.
      destruct (i <? p)%nat eqn:Eip.
      * rewrite spec_line_cons by lia.
        replace (byte_of c =? 10)%N with false by (unfold is_cont in Ec; lia).
        reflexivity.
      * rewrite !sls_go_ge by lia.
        replace (p - i) with 0 by lia. replace (p - S i) with 0 by lia.
        rewrite !spec_line_0. reflexivity.
    + cbn [negb]. rewrite andb_true_r.
      destruct (is_nl c) eqn:En.
      * (* line break *)
        rewrite (nl_width c En). replace (i + 1) with (S i) by lia.
        replace (start <=? p)%nat with true by lia. cbn [andb]. rewrite andb_true_r.
        replace (p <? S i)%nat with (p <=? i)%nat by lia.
        destruct (p <=? i)%nat eqn:Epi.
        -- replace (i <? p)%nat with false by lia.
           replace (p - i) with 0 by lia. rewrite spec_line_0, Nat.eqb_refl.
           rewrite andb_false_r, chars_go_ge by lia.
           replace (i <? S i + String.length r)%nat with true by lia.
           apply tup4; lia.
        -- replace (i <? p)%nat with true by lia.
           rewrite IH by lia. rewrite spec_line_cons by lia. rewrite ?andb_true_r.
           destruct (sls_go_range r (S i) p (S i)) as [E|E].
           ++ rewrite E, Nat.eqb_refl.
              replace (S i =? start)%nat with false by lia.
              replace (S i <=? i)%nat with false by lia. cbn [andb].
              apply tup4; [| |reflexivity|reflexivity].
              ** destruct (byte_of c =? 10)%N; lia.
              ** reflexivity.
           ++ set (st := spec_line_start_go r (S i) p (S i)) in *.
              replace (st =? start)%nat with false by lia.
              replace (st <=? i)%nat with false by lia. cbn [andb].
              apply tup4; [| |reflexivity|reflexivity].
              ** destruct (byte_of c =? 10)%N; lia.
              ** destruct (st =? S i)%nat; reflexivity.
      * (* ordinary lead byte *)
        rewrite andb_false_r. rewrite IH by lia.
        replace (byte_of c =? 10)%N with false by (unfold is_nl in En; lia).
        destruct (i <? p)%nat eqn:Eip.
        -- rewrite spec_line_cons by lia.
           replace (byte_of c =? 10)%N with false by (unfold is_nl in En; lia).
           destruct (sls_go_range r (S i) p start) as [E|E].
           ++ rewrite E, Nat.eqb_refl.
              replace (start <=? i)%nat with true by lia. cbn [andb].
              apply tup4; lia.
           ++ set (st := spec_line_start_go r (S i) p start) in *.
              replace (st =? start)%nat with false by lia.
              replace (st <=? i)%nat with false by lia. cbn [andb].
              reflexivity.
        -- rewrite !sls_go_ge by lia. rewrite Nat.eqb_refl, andb_false_r.
           replace (p - i) with 0 by lia. replace (p - S i) with 0 by lia.
           rewrite !spec_line_0. reflexivity.
Qed.

(* the exact location computed for ANY byte string and ANY position *)
Theorem token_location_exact : forall s p,
  token_location s p =
  (spec_line s p, spec_col s p, spec_line_start s p,
   if (spec_line_end s p <? String.length s)%nat then spec_line_end s p else last_char_end s).
Proof.
  intros s p. unfold token_location. rewrite tokloc_go_spec by lia.
  rewrite Nat.sub_0_r. unfold spec_col, spec_line_start, spec_line_end, last_char_end.
  cbn [Nat.add]. destruct (spec_line_start_go s 0 p 0 =? 0)%nat; reflexivity.
Qed.

Lemma sle_go_le : forall s i p, spec_line_end_go s i p <= i + String.length s.
Proof.
  induction s as [|c r IH]; intros i p; cbn [spec_line_end_go String.length]; [lia|].
  destruct ((p <=? i)%nat && is_nl c); [lia|]. specialize (IH (S i) p). lia.
Qed.

(* the statement of C17(a) holds for (s, p) exactly when the line of p is closed by a line
   break or the last character of the text ends where the text ends *)
Theorem token_location_spec_iff : forall s p,
  token_location s p = (spec_line s p, spec_col s p, spec_line_start s p, spec_line_end s p)
  <-> (spec_line_end s p < String.length s \/ last_char_end s = String.length s).
Proof.
  intros s p. rewrite token_location_exact.
  pose proof (sle_go_le s 0 p) as Hle. fold (spec_line_end s p) in Hle. cbn [Nat.add] in Hle.
  destruct (spec_line_end s p <? String.length s)%nat eqn:E.
  - split; [intros _; left; lia|reflexivity].
  - split.
    + intros H. right. injection H as H. lia.
    + intros [H|H]; [lia|]. rewrite H. f_equal. lia.
Qed.

Lemma lce_go_valid : forall s i need,
  valid_go s need = true -> lce_go s i (i + need) = i + String.length s.
Proof.
  induction s as [|c r IH]; intros i need H; cbn [valid_go lce_go String.length] in *.
  - apply Nat.eqb_eq in H. lia.
  - destruct need as [|k].
    + apply andb_prop in H. destruct H as [H1 H2].
      destruct (is_cont c); [discriminate|].
      pose proof (utf8_width_pos c).
      replace (i + utf8_width c) with (S i + (utf8_width c - 1)) by lia.
      rewrite IH by assumption. lia.
    + apply andb_prop in H. destruct H as [H1 H2]. rewrite H1.
      replace (i + S k) with (S i + k) by lia. rewrite IH by assumption. lia.
Qed.

Lemma last_char_end_valid s : s <> "" -> valid_utf8 s = true -> last_char_end s = String.length s.
Proof.
  intros Hs Hv. destruct s as [|c r]; [congruence|].
  unfold last_char_end, valid_utf8 in *. cbn [valid_go lce_go String.length] in *.
  apply andb_prop in Hv. destruct Hv as [H1 H2].
  destruct (is_cont c); [discriminate|].
  pose proof (utf8_width_pos c).
  replace (0 + utf8_width c) with (1 + (utf8_width c - 1)) by lia.
  rewrite lce_go_valid by assumption. lia.
Qed.

(* corrected C17(a): the stated equation for valid UTF-8 texts (every Rust str) *)
Theorem token_location_spec_weak : forall s p,
  valid_utf8 s = true -> s <> EmptyString -> p <= String.length s ->
  token_location s p = (spec_line s p, spec_col s p, spec_line_start s p, spec_line_end s p).
Proof.
  intros s p Hv Hs _. apply token_location_spec_iff. right.
  apply last_char_end_valid; assumption.
Qed.

(* the unrestricted statement is false: a lone lead byte *)
Theorem token_location_spec_counterexample :
  let s := String (ascii_of_N 195) "" in
  s <> EmptyString /\ 0 <= String.length s /\
  token_location s 0 <> (spec_line s 0, spec_col s 0, spec_line_start s 0, spec_line_end s 0).
Proof. cbv zeta. split; [discriminate|]. split; [lia|]. vm_compute. discriminate. Qed.
