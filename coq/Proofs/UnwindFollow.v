(* UnwindFollow.v (C10): the follow-up theorem.  After a source rejected at build time,
   every later submission gives the same value or the same error as it would have given had
   the rejected source never been submitted, and leaves a state that agrees on every
   component of the machine (dictionary, heap, code, the four stacks, the flow stack, the
   contexts, the limits), on the length of the debug map and on the lexer positions of the
   pending input.  What may differ are exactly the components the unwinding does not
   restore: the texts / indices of the interned sources (hence the source index recorded in
   the debug map and in the last-token record), the instruction meter, the captured output,
   the contents of the reverse log and the stop flag. *)
From Xeh Require Import Model.Prelude Model.Bits Model.Codec Model.Cell Model.Lexer Model.Fmt
                        Model.Vm Model.Words Model.Build.
From Xeh Require Import Proofs.VmFrame Proofs.VmLimits Proofs.NoPanic Proofs.NoPanicBuild
                        Proofs.UnwindLists Proofs.UnwindFrame Proofs.UnwindInv Proofs.UnwindBuild
                        Proofs.UnwindMain Proofs.UnwindAfter Proofs.UnwindIrr Proofs.UnwindAuxVm
                        Proofs.UnwindAuxBuild Proofs.UnwindAuxMain.
Local Notation length := List.length.

Lemma Forall2_lex_refl : forall l, Forall2 lex_same l l.
Proof. induction l; constructor; [reflexivity|assumption]. Qed.

(* two states with the same machine are compatible *)
Theorem same_machine_arel s s' :
  same_machine s s' -> (insn_limit s = None \/ meter s' = meter s) -> (rlog s' = None <-> rlog s = None) ->
  arel s s'.
Proof.
  intros (A1 & A2 & A3 & A4 & A5 & A6 & A7 & A8 & A9 & A10 & A11 & A12 & A13 & A14 & A15) Hme Hrl.
  exists (dbg s'), (sources s'), (input s'), (meter s'), (rlog s'), (out s'), (last_tok s'), (stopping s').
  split.
  - unfold aok. rewrite A5, A1. repeat split; try assumption; try apply Hrl. apply Forall2_lex_refl.
  - destruct s, s'. cbn in *. subst. reflexivity.
Qed.

Theorem later_source_equiv fo pr rf s s' :
  arel s s' -> forall fuel src m,
  ares (build_from_source fo pr rf fuel src m s) (build_from_source fo pr rf fuel src m s').
Proof.
  intros (dg & so & inp & me & rl & ou & lt & sg & Ho & ->) fuel src m.
  apply ap_build_from_source. exact Ho.
Qed.

Theorem later_run_equiv fo s s' :
  arel s s' -> forall fuel,
  oares (run (native_fn fo) fuel s) (run (native_fn fo) fuel s').
Proof.
  intros (dg & so & inp & me & rl & ou & lt & sg & Ho & ->) fuel.
  apply ap_run; [apply native_wx|exact Ho].
Qed.

Lemma build_unwind_rlog d i dl h t : rlog (build_unwind d i dl h t) = rlog t.
Proof.
  unfold build_unwind. cbv zeta.
  set (s0 := set_input t _).
  destruct (leave_contexts_aux (S (length (nested s0))) d s0) as (_ & _ & _ & _ & E).
  set (s1 := leave_contexts _ d s0) in *.
  set (s5 := set_heap _ _).
  assert (E5 : rlog s5 = rlog t) by exact E.
  destruct (nested s5) as [|prev rest]; [exact E5|].
  destruct (d <? length (prev :: rest))%nat; exact E5.
Qed.

(* the rejected source and everything after it *)
Theorem rejected_source_then_later : forall fo pr rf fuel src m s s1 k p s2,
  (m = MEval \/ m = MCompile) ->
  build_wf s ->
  (context_open m ;; intern_source src) s = ROk tt s1 ->
  build1 fo pr rf fuel (length (nested s1)) s1 = RErr k p s2 ->
  calls_bad fo pr rf (length (dict s)) fuel (length (nested s1)) s1 = false ->
  exists s', build_from_source fo pr rf fuel src m s = RErr k p s' /\ same_machine s s' /\
    (rlog s' = None <-> rlog s = None) /\
    ((insn_limit s = None \/ meter s' = meter s) ->
     (forall fuel2 src2 m2,
        ares (build_from_source fo pr rf fuel2 src2 m2 s) (build_from_source fo pr rf fuel2 src2 m2 s')) /\
     (forall fuel2, oares (run (native_fn fo) fuel2 s) (run (native_fn fo) fuel2 s'))).
Proof.
  intros fo pr rf fuel src m s s1 k p s2 Hm Hwf E1 E2 CB.
  destruct (binv_start s m Hwf src) as (s1' & E1' & H1 & _).
  rewrite E1 in E1'. injection E1' as <-.
  pose proof Hwf as (Hin & Hdl & Hnr).
  pose proof (build1_inv fo pr rf s m (mode_not_meta m Hm) Hdl fuel (length (nested s1)) s1 H1 CB) as X.
  rewrite E2 in X. cbn [res_all] in X.
  set (s' := build_unwind (length (nested s)) (length (input s)) (length (ds s)) (length (heap s)) s2).
  assert (SM : same_machine s s') by (apply (build_unwind_restores s m Hwf); exact X).
  assert (RL : rlog s' = None <-> rlog s = None).
  { unfold s'. rewrite build_unwind_rlog. exact (bi_rlog s s2 (proj2 X)). }
  exists s'. split; [|split; [exact SM|split; [exact RL|]]].
  - unfold build_from_source. cbv zeta. rewrite E1, E2. reflexivity.
  - intros Hme. pose proof (same_machine_arel s s' SM Hme RL) as AR. split.
    + intros. apply later_source_equiv. exact AR.
    + intros. apply later_run_equiv. exact AR.
Qed.

(* what the compatibility relation says about two states *)
Theorem arel_machine s s' : arel s s' ->
  dict s' = dict s /\ heap s' = heap s /\ code s' = code s /\ ds s' = ds s /\ rs s' = rs s /\
  flows s' = flows s /\ loops s' = loops s /\ special s' = special s /\ cx s' = cx s /\
  nested s' = nested s /\ insn_limit s' = insn_limit s /\ heap_limit s' = heap_limit s /\
  stack_limit s' = stack_limit s /\ length (dbg s') = length (dbg s) /\
  Forall2 (fun a b => in_lex a = in_lex b) (input s) (input s') /\
  (insn_limit s = None \/ meter s' = meter s) /\ (rlog s' = None <-> rlog s = None).
Proof.
  intros (dg & so & inp & me & rl & ou & lt & sg & (A1 & A2 & A3 & A4) & ->).
  cbn [ax dict heap code ds rs flows loops special cx nested insn_limit heap_limit stack_limit dbg input meter rlog].
  repeat split; try reflexivity; try assumption; apply A4.
Qed.
