(* CompileMain.v: the statements of Props/C01.v in their final form. *)
From Xeh Require Import Model.Prelude Model.Bits Model.Codec Model.Cell Model.Lexer Model.Fmt
                        Model.Vm Model.Words Model.Struct
                        Proofs.VmFrame Proofs.VmDrive Proofs.CompileSim Proofs.CompileLayout Proofs.CompileStep
                        Proofs.CompileEval Proofs.CompileFwd Proofs.CompileFwd2 Proofs.CompileProg
                        Proofs.CompileLoop Proofs.CompileRegion
                        Proofs.CompileParse Proofs.CompileParse2 Proofs.CompileParse3.
Local Notation length := List.length.

#[local] Arguments Z.add : simpl never.
#[local] Arguments Z.of_nat : simpl never.
#[local] Arguments Z.to_nat : simpl never.

(* ---------- the relation ---------- *)
Lemma sim_is : forall t s,
  sim t s <->
  set_rs (set_meter (set_ip_raw t 0) 0%Z) (map (fun f => mkframe 0 0 (locals f)) (rs t)) =
  set_rs (set_meter (set_ip_raw s 0) 0%Z) (map (fun f => mkframe 0 0 (locals f)) (rs s)).
Proof. intros. apply iff_refl. Qed.

Lemma sim_observables : forall t s, sim t s ->
  ds t = ds s /\ heap t = heap s /\ out t = out s /\ loops t = loops s /\ special t = special s /\
  map locals (rs t) = map locals (rs s) /\ code t = code s /\ dict t = dict s /\
  stack_limit t = stack_limit s /\ heap_limit t = heap_limit s /\ stopping t = stopping s.
Proof.
  intros t s H. destruct (sim_limits t s H) as (_ & L2 & L3).
  repeat split; auto using sim_ds, sim_heap, sim_out, sim_loops, sim_special, sim_rs, sim_code, sim_dict, sim_stopping.
Qed.

Lemma sim_start : forall s, sim s s.
Proof. exact sim_refl. Qed.

Lemma native_respects_sim : forall fo w m t s,
  native_fn fo w = Some m -> sim t s -> rlog s = None ->
  match m t, m s with
  | ROk _ t', ROk _ s' =>
    sim t' s' /\ ip s' = ip s /\ meter s' = meter s /\ code s' = code s /\ rskeys s' = rskeys s
  | RErr k p t', RErr k' p' s' => k = k' /\ p = p' /\ sim t' s'
  | RPanic, RPanic => True
  | RUnsup, RUnsup => True
  | _, _ => False
  end.
Proof.
  intros fo w m t s Hw Hs Hl. pose proof (native_par fo w m Hw t s Hs Hl) as H.
  destruct (m t) as [a t1|k p t1| |], (m s) as [b s1|k' p' s1| |]; cbn [rrel] in H; try contradiction; auto.
  - destruct H as (_ & H1 & (K1&K2&K3&K4&K5&K6)). repeat (split; [assumption|]). exact K6.
  - destruct H as (H1 & H2 & H3 & _). auto.
Qed.

Lemma agrees_is : forall nf s endp bc r,
  agrees nf s endp bc r <->
  match r with
  | SDone t' =>
    exists n s', steps nf n s = Some s' /\ ip s' = endp /\ sim t' s' /\
                 code s' = code s /\ rlog s' = None /\ insn_limit s' = None /\ rskeys s' = rskeys s
  | SBroke t' =>
    exists n s', steps nf n s = Some s' /\
                 nth_error (code s) (ip s') = Some (brk_op (ip s') bc) /\ bc <> BNone /\ sim t' s' /\
                 code s' = code s /\ rlog s' = None /\ insn_limit s' = None /\ rskeys s' = rskeys s
  | SFail k pl _ t' =>
    exists n sN s', steps nf n s = Some sN /\ insn_limit sN = None /\
                    fetch_and_run nf sN = RErr k pl s' /\ sim t' s'
  | SOut => True
  | SUnsup => True
  end.
Proof. intros. apply iff_refl. Qed.

Section Main.
  Variable fo : fops.
  Variable funs : list (nat * list stmt).
  Notation nf := (native_fn fo).

  (* ---------- blocks ---------- *)
  Theorem block_done : forall faddr fuel b org bc t s t',
    funs_placed funs faddr (code s) -> wf_b b -> brk_ok bc b ->
    firstn (size_block b) (skipn org (code s)) = lay_block faddr b org bc ->
    rlog s = None -> insn_limit s = None -> ip s = org -> sim t s ->
    sblock fo funs fuel b t = SDone t' ->
    exists n s', steps nf n s = Some s' /\ ip s' = org + size_block b /\ sim t' s' /\
                 code s' = code s /\ rlog s' = None /\ insn_limit s' = None /\ rskeys s' = rskeys s.
  Proof.
    intros faddr fuel b org bc t s t' P W B C Hl Hi Hip Hs E.
    pose proof (fwd_block fo funs faddr fuel b org bc t s P W B C Hl Hi Hip Hs) as H.
    rewrite E in H. exact H.
  Qed.

  Theorem block_fail : forall faddr fuel b org bc t s k pl p t',
    funs_placed funs faddr (code s) -> wf_b b -> brk_ok bc b ->
    firstn (size_block b) (skipn org (code s)) = lay_block faddr b org bc ->
    rlog s = None -> insn_limit s = None -> ip s = org -> sim t s ->
    sblock fo funs fuel b t = SFail k pl p t' ->
    exists n sN s', steps nf n s = Some sN /\ fetch_and_run nf sN = RErr k pl s' /\ sim t' s'.
  Proof.
    intros faddr fuel b org bc t s k pl p t' P W B C Hl Hi Hip Hs E.
    pose proof (fwd_block fo funs faddr fuel b org bc t s P W B C Hl Hi Hip Hs) as H.
    rewrite E in H. destruct H as (n & sN & s' & H1 & _ & H2 & H3). exists n, sN, s'. auto.
  Qed.

  Theorem block_broke : forall faddr fuel b org bc t s t',
    funs_placed funs faddr (code s) -> wf_b b -> brk_ok bc b ->
    firstn (size_block b) (skipn org (code s)) = lay_block faddr b org bc ->
    rlog s = None -> insn_limit s = None -> ip s = org -> sim t s ->
    sblock fo funs fuel b t = SBroke t' ->
    exists n s', steps nf n s = Some s' /\ sim t' s' /\
      match bc with
      | BJump target => nth_error (code s) (ip s') = Some (OJump (rel (ip s') target))
      | BLoop target => nth_error (code s) (ip s') = Some (OBreak (rel (ip s') target))
      | BNone => False
      end.
  Proof.
    intros faddr fuel b org bc t s t' P W B C Hl Hi Hip Hs E.
    pose proof (fwd_block fo funs faddr fuel b org bc t s P W B C Hl Hi Hip Hs) as H.
    rewrite E in H. destruct H as (n & s' & H1 & H2 & H3 & H4 & _).
    exists n, s'. split; [exact H1|]. split; [exact H4|].
    destruct bc; [contradiction H3; reflexivity|exact H2|exact H2].
  Qed.

  (* ---------- the constructs that catch `break` ---------- *)
  Theorem loop_stmt : forall faddr fuel x org bc t s,
    (exists p b pl, x = SDo p b pl) \/ (exists b, x = SRepeat b) \/ (exists c p b, x = SWhile c p b) ->
    funs_placed funs faddr (code s) -> wf_s x ->
    firstn (size_stmt x) (skipn org (code s)) = lay_stmt faddr x org bc ->
    rlog s = None -> insn_limit s = None -> ip s = org -> sim t s ->
    match sstmt fo funs fuel x t with
    | SDone t' =>
      exists n s', steps nf n s = Some s' /\ ip s' = org + size_stmt x /\ sim t' s' /\ rskeys s' = rskeys s
    | SBroke _ => False
    | SFail k pl _ t' =>
      exists n sN s', steps nf n s = Some sN /\ fetch_and_run nf sN = RErr k pl s' /\ sim t' s'
    | SOut => True
    | SUnsup => True
    end.
  Proof.
    intros faddr fuel x org bc t s Hx P W C Hl Hi Hip Hs.
    assert (B : brk_ok_s bc x).
    { intros _. destruct Hx as [(p & b & pl & ->)|[(b & ->)|(c0 & p & b & ->)]]; constructor. }
    pose proof (fwd_stmt fo funs faddr fuel x org bc t s P W B C Hl Hi Hip Hs) as H.
    pose proof (loops_no_broke fo funs fuel x t) as Hnb.
    destruct (sstmt fo funs fuel x t) as [t'|t'|k pl p t'| |]; cbn [agrees] in H; auto.
    - destruct H as (n & s' & H1 & H2 & H3 & _ & _ & _ & H7). exists n, s'. auto.
    - eapply Hnb; eauto.
    - destruct H as (n & sN & s' & H1 & _ & H2 & H3). exists n, sN, s'. auto.
  Qed.

  (* a finished counted loop leaves no loop index: on the machine too *)
  Theorem do_no_index_machine : forall faddr fuel p b pl org bc t s t',
    funs_placed funs faddr (code s) -> wf_s (SDo p b pl) ->
    firstn (size_stmt (SDo p b pl)) (skipn org (code s)) = lay_stmt faddr (SDo p b pl) org bc ->
    rlog s = None -> insn_limit s = None -> ip s = org -> sim t s ->
    sstmt fo funs fuel (SDo p b pl) t = SDone t' ->
    exists n s', steps nf n s = Some s' /\ ip s' = org + size_stmt (SDo p b pl) /\ sim t' s' /\
                 loops s' = loops s.
  Proof.
    intros faddr fuel p b pl org bc t s t' P W C Hl Hi Hip Hs E.
    pose proof (fwd_stmt fo funs faddr fuel (SDo p b pl) org bc t s P W ltac:(intros _; constructor) C Hl Hi Hip Hs) as H.
    rewrite E in H. destruct H as (n & s' & H1 & H2 & H3 & _).
    exists n, s'. repeat (split; [assumption|]).
    rewrite <- (sim_loops _ _ H3), <- (sim_loops _ _ Hs). eapply do_leaves_no_index; eauto.
  Qed.

  (* begin ... repeat without a break of its own: never falls through *)
  Theorem repeat_no_fall_through : forall faddr b org bc s,
    nb_b b ->
    firstn (size_stmt (SRepeat b)) (skipn org (code s)) = lay_stmt faddr (SRepeat b) org bc ->
    rlog s = None -> ip s = org ->
    forall n sn, steps nf n s = Some sn -> length (rs sn) = length (rs s) ->
                 org <= ip sn < org + size_stmt (SRepeat b).
  Proof.
    intros faddr b org bc s N C Hl Hip n sn Hn Hd.
    assert (H : org <= ip sn <= org + size_block b).
    { eapply (repeat_never_exits nf faddr b org bc s); eauto.
      - intros w f Hw. eapply native_par; eauto.
      - apply code_at_slice. rewrite lay_stmt_length. exact C.
      - lia. }
    rewrite size_SRepeat. lia.
  Qed.

  (* ---------- [run] is a function of the fuel once it answers ---------- *)
  Lemma run_mono : forall k k' s r, run nf k s = Some r -> k <= k' -> run nf k' s = Some r.
  Proof.
    induction k as [|k IH]; intros k' s r H Hle; [discriminate|].
    destruct k' as [|k']; [lia|]. cbn [run] in *.
    destruct (is_running s); [|exact H].
    destruct (fetch_and_run nf s) as [u s1| | |]; try exact H. apply IH; [exact H|lia].
  Qed.

  (* converse piece: whatever [run] returns, it is what the evaluator's answer predicts *)
  Theorem run_converse : forall l org prog fuel t s k r,
    layout_program funs l org = Some prog -> prog_wf funs l ->
    skipn org (code s) = prog ->
    rlog s = None -> insn_limit s = None -> ip s = org -> sim t s ->
    run nf k s = Some r ->
    match sblock fo funs fuel l t with
    | SDone t' => exists s', r = ROk tt s' /\ sim t' s'
    | SFail kd pl _ t' => exists s', r = RErr kd pl s' /\ sim t' s'
    | _ => True
    end.
  Proof.
    intros l org prog fuel t s k r HL HW C Hl Hi Hip Hs Hr.
    pose proof (fwd_program_run fo funs l org prog fuel t s HL HW C Hl Hi Hip Hs) as H.
    destruct (sblock fo funs fuel l t) as [t'|t'|kd pl p t'| |]; cbn [run_agrees] in H; auto.
    - destruct H as (N & s' & HN & S'). exists s'. split; [|exact S'].
      pose proof (HN (S (N + k)) ltac:(lia)) as H1.
      pose proof (run_mono k (S (N + k)) s r Hr ltac:(lia)) as H2. congruence.
    - destruct H as (N & s' & HN & S'). exists s'. split; [|exact S'].
      pose proof (HN (S (N + k)) ltac:(lia)) as H1.
      pose proof (run_mono k (S (N + k)) s r Hr ltac:(lia)) as H2. congruence.
  Qed.
End Main.

(* ---------- vocabulary ---------- *)
Lemma funs_placed_is : forall funs faddr c,
  funs_placed funs faddr c <->
  (forall g body, fun_body funs g = Some body ->
     code_at c (faddr g) (lay_block faddr body (faddr g) BNone ++ [ORet]) /\ wf_b body /\ nb_b body).
Proof. intros. apply iff_refl. Qed.

Lemma code_at_is : forall c org l,
  code_at c org l <-> (forall i op, nth_error l i = Some op -> nth_error c (org + i) = Some op).
Proof. intros. apply iff_refl. Qed.

Lemma prog_wf_is : forall funs l,
  prog_wf funs l <->
  (wf_b l /\ nb_b l /\
   Forall (fun gb => In (SDef (fst gb)) l /\ wf_b (snd gb) /\ nb_b (snd gb)) funs).
Proof. intros. apply iff_refl. Qed.

Lemma brk_ok_is : forall bc b, brk_ok bc b <-> (bc = BNone -> nb_b b).
Proof. intros. apply iff_refl. Qed.

Lemma layout_places_functions : forall funs l org prog c,
  layout_program funs l org = Some prog -> prog_wf funs l ->
  firstn (length prog) (skipn org c) = prog ->
  funs_placed funs (addr_lookup (def_addrs funs l org)) c.
Proof.
  intros funs l org prog c HL HW C. unfold layout_program in HL.
  destruct (well_placed funs l); [|discriminate]. injection HL as <-.
  apply prog_placed; [exact HW|]. apply code_at_slice. exact C.
Qed.

Lemma prog_wf_funs_nb : forall funs l, prog_wf funs l -> funs_nb funs.
Proof.
  intros funs l (_ & _ & F) g body Hg. rewrite Forall_forall in F.
  destruct (F _ (fun_body_in _ _ _ Hg)) as (_ & _ & N). exact N.
Qed.

(* ---------- every source ---------- *)
Lemma run_agrees_is : forall fo s r,
  run_agrees fo s r <->
  match r with
  | SDone t' =>
    exists N s', (forall k, N < k -> run (native_fn fo) k s = Some (ROk tt s')) /\ sim t' s'
  | SFail kd pl _ t' =>
    exists N s', (forall k, N < k -> run (native_fn fo) k s = Some (RErr kd pl s')) /\ sim t' s'
  | _ => True
  end.
Proof. intros. apply iff_refl. Qed.

Theorem source_steps : forall fo pr src org prog fuel t0 s l funs n,
  parse_source fo pr src (length (heap t0)) = Some (l, funs, n) ->
  layout_program funs l org = Some prog ->
  firstn (length prog) (skipn org (code s)) = prog ->
  rlog s = None -> insn_limit s = None -> ip s = org ->
  sim (set_heap t0 (heap t0 ++ repeat CNil (n - length (heap t0)))) s ->
  exists r, seval_source fo pr fuel src t0 = CRun r /\
            agrees (native_fn fo) s (org + length prog) BNone r.
Proof.
  intros fo pr src org prog fuel t0 s l funs n HP HL C Hl Hi Hip Hs.
  rewrite (seval_source_is fo pr fuel src t0 l funs n HP). eexists. split; [reflexivity|].
  eapply fwd_program; eauto.
  eapply parse_prog_wf; [exact HP|]. eapply layout_well_placed; exact HL.
Qed.

Theorem source_run : forall fo pr src org prog fuel t0 s l funs n,
  parse_source fo pr src (length (heap t0)) = Some (l, funs, n) ->
  layout_program funs l org = Some prog ->
  skipn org (code s) = prog ->
  rlog s = None -> insn_limit s = None -> ip s = org ->
  sim (set_heap t0 (heap t0 ++ repeat CNil (n - length (heap t0)))) s ->
  exists r, seval_source fo pr fuel src t0 = CRun r /\ run_agrees fo s r.
Proof.
  intros fo pr src org prog fuel t0 s l funs n HP HL C Hl Hi Hip Hs.
  rewrite (seval_source_is fo pr fuel src t0 l funs n HP). eexists. split; [reflexivity|].
  eapply fwd_program_run; eauto.
  eapply parse_prog_wf; [exact HP|]. eapply layout_well_placed; exact HL.
Qed.
