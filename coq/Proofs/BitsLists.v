(* List-level facts: seq/firstn/skipn, chunks8, getbit of updated buffers. *)
From Xeh Require Import Model.Prelude Model.Bits Proofs.BitsBasic Proofs.BitsKernel.
From Coq Require Import ZifyBool ZifyNat ZifyN.
Local Ltac Zify.zify_post_hook ::= Z.div_mod_to_equations.

Definition bytes_ok (d : list N) : Prop := Forall (fun x => (x < 256)%N) d.

(* ---------- seq / firstn / skipn / nth ---------- *)

Lemma firstn_seq' : forall n s len, firstn n (seq s len) = seq s (Nat.min n len).
Proof.
  induction n as [|n IH]; intros s len.
  - reflexivity.
  - destruct len as [|len]; [reflexivity|].
    cbn [seq firstn Nat.min]. f_equal. apply IH.
Qed.

Lemma skipn_seq' : forall n s len, skipn n (seq s len) = seq (s + n) (len - n).
Proof.
  induction n as [|n IH]; intros s len.
  - rewrite Nat.add_0_r, Nat.sub_0_r. reflexivity.
  - destruct len as [|len]; [reflexivity|].
    cbn [seq skipn]. rewrite IH. f_equal; lia.
Qed.

Lemma firstn_map_seq {A} (g : nat -> A) n s len :
  firstn n (map g (seq s len)) = map g (seq s (Nat.min n len)).
Proof. rewrite firstn_map, firstn_seq'. reflexivity. Qed.

Lemma skipn_map_seq {A} (g : nat -> A) n s len :
  skipn n (map g (seq s len)) = map g (seq (s + n) (len - n)).
Proof. rewrite skipn_map, skipn_seq'. reflexivity. Qed.

Lemma map_nth_seq {A} (d : A) : forall l p,
  map (fun i => nth (i - p) l d) (seq p (length l)) = l.
Proof.
  induction l as [|x l IH]; intros p; cbn [length seq map].
  - reflexivity.
  - rewrite Nat.sub_diag. cbn [nth]. f_equal.
    rewrite <- (IH (S p)) at 2. apply map_ext_in. intros i Hi.
    apply in_seq in Hi. replace (i - p) with (S (i - S p)) by lia. reflexivity.
Qed.

Lemma map_nth_seq0 {A} (d : A) l :
  map (fun i => nth i l d) (seq 0 (length l)) = l.
Proof.
  rewrite <- (map_nth_seq d l 0) at 2. apply map_ext. intros i.
  rewrite Nat.sub_0_r. reflexivity.
Qed.

Lemma nth_firstn' {A} (d : A) : forall n l k,
  nth k (firstn n l) d = if k <? n then nth k l d else d.
Proof.
  induction n as [|n IH]; intros l k.
  - cbn [firstn]. destruct k; reflexivity.
  - destruct l as [|x l].
    + cbn [firstn]. destruct k; destruct (_ <? _); reflexivity.
    + cbn [firstn]. destruct k as [|k]; [reflexivity|].
      cbn [nth]. rewrite IH. reflexivity.
Qed.

Lemma nth_skipn' {A} (d : A) : forall n l k, nth k (skipn n l) d = nth (n + k) l d.
Proof.
  induction n as [|n IH]; intros l k.
  - reflexivity.
  - destruct l as [|x l].
    + cbn [skipn]. destruct k; reflexivity.
    + cbn [skipn Nat.add nth]. apply IH.
Qed.

Lemma firstn_skipn_S {A} (d : A) : forall a n l, a < length l ->
  firstn (S n) (skipn a l) = nth a l d :: firstn n (skipn (S a) l).
Proof.
  induction a as [|a IH]; intros n l Ha.
  - destruct l as [|x l]; [cbn [length] in Ha; lia|]. reflexivity.
  - destruct l as [|x l]; [cbn [length] in Ha; lia|].
    cbn [length] in Ha. cbn [skipn nth]. rewrite (IH n l) by lia. reflexivity.
Qed.

(* ---------- chunks8 ---------- *)

Lemma chunks8_nil {A} fuel : @chunks8 A fuel [] = [].
Proof. destruct fuel; reflexivity. Qed.

Lemma chunks8_cons {A} fuel (l : list A) : l <> [] ->
  chunks8 (S fuel) l = firstn 8 l :: chunks8 fuel (skipn 8 l).
Proof. intros H. destruct l; [congruence|reflexivity]. Qed.

Lemma concat_chunks8 {A} : forall fuel (l : list A),
  length l <= fuel -> concat (chunks8 fuel l) = l.
Proof.
  induction fuel as [|fuel IH]; intros l Hl.
  - destruct l; [reflexivity|cbn [length] in Hl; lia].
  - destruct l as [|x l]; [reflexivity|].
    rewrite chunks8_cons by discriminate. cbn [concat].
    rewrite IH.
    + apply firstn_skipn.
    + rewrite skipn_length. cbn [length] in *. lia.
Qed.

Lemma concat_chunk8 {A} (l : list A) : concat (chunk8 l) = l.
Proof. apply concat_chunks8. lia. Qed.

Lemma chunks8_lengths {A B} : forall fuel (la : list A) (lb : list B),
  length la = length lb ->
  map (@length A) (chunks8 fuel la) = map (@length B) (chunks8 fuel lb).
Proof.
  induction fuel as [|fuel IH]; intros la lb Hl.
  - reflexivity.
  - destruct la as [|x la], lb as [|y lb]; try (cbn [length] in Hl; discriminate).
    + reflexivity.
    + rewrite !chunks8_cons by discriminate. cbn [map]. f_equal.
      * rewrite !firstn_length. rewrite Hl. reflexivity.
      * apply IH. rewrite !skipn_length. rewrite Hl. reflexivity.
Qed.

Lemma chunks8_len_le8 {A} : forall fuel (l : list A),
  Forall (fun g => length g <= 8) (chunks8 fuel l).
Proof.
  induction fuel as [|fuel IH]; intros l.
  - constructor.
  - destruct l as [|x l]; [constructor|].
    rewrite chunks8_cons by discriminate. constructor.
    + apply firstn_le_length.
    + apply IH.
Qed.

Lemma chunks8_count {A} : forall fuel (l : list A),
  length l <= fuel -> length l <= 8 * length (chunks8 fuel l).
Proof.
  induction fuel as [|fuel IH]; intros l Hl.
  - lia.
  - destruct l as [|x l]; [cbn [length]; lia|].
    rewrite chunks8_cons by discriminate. cbn [length].
    specialize (IH (skipn 8 (x :: l))). rewrite skipn_length in IH.
    cbn [length] in *. lia.
Qed.

(* ---------- list_eqb ---------- *)

Lemma list_eqb_spec {A} (eqb : A -> A -> bool) :
  (forall x y, eqb x y = true <-> x = y) ->
  forall a b, list_eqb eqb a b = true <-> a = b.
Proof.
  intros Heq. induction a as [|x a IH]; intros [|y b]; cbn [list_eqb].
  - tauto.
  - split; discriminate.
  - split; discriminate.
  - rewrite andb_true_iff, Heq, IH. split.
    + intros [-> ->]. reflexivity.
    + intros E. injection E as -> ->. tauto.
Qed.

Lemma pair_eqb_spec x y : pair_eqb x y = true <-> x = y.
Proof.
  unfold pair_eqb. destruct x as [a n], y as [b m]. cbn [fst snd].
  rewrite andb_true_iff, N.eqb_eq, Nat.eqb_eq. split.
  - intros [-> ->]. reflexivity.
  - intros E. injection E as -> ->. tauto.
Qed.

(* ---------- nthb / getbit ---------- *)

Lemma nthb_lt d i : bytes_ok d -> (nthb d i < 256)%N.
Proof.
  intros Hd. unfold nthb. destruct (lt_dec i (length d)) as [Hi|Hi].
  - unfold bytes_ok in Hd. rewrite Forall_nth in Hd. apply Hd. exact Hi.
  - rewrite nth_overflow by lia. lia.
Qed.

Lemma getbit_tb d i : getbit d i = tb (nthb d (i / 8)) (i mod 8).
Proof. reflexivity. Qed.

Lemma tb_0 k : tb 0 k = false.
Proof. unfold tb. apply N.bits_0. Qed.

Lemma getbit_overflow d i : 8 * length d <= i -> getbit d i = false.
Proof.
  intros H. rewrite getbit_tb. unfold nthb. rewrite nth_overflow by lia. apply tb_0.
Qed.

Lemma getbit_nil i : getbit [] i = false.
Proof. apply getbit_overflow. cbn [length]. lia. Qed.

Lemma getbit_cons x d i :
  getbit (x :: d) i = if i <? 8 then tb x i else getbit d (i - 8).
Proof.
  rewrite !getbit_tb. unfold nthb. destruct (i <? 8) eqn:E.
  - replace (i / 8) with 0 by lia. replace (i mod 8) with i by lia. reflexivity.
  - replace (i / 8) with (S ((i - 8) / 8)) by lia.
    replace ((i - 8) mod 8) with (i mod 8) by lia. reflexivity.
Qed.

Lemma getbit_app d1 d2 i :
  getbit (d1 ++ d2) i =
  if i <? 8 * length d1 then getbit d1 i else getbit d2 (i - 8 * length d1).
Proof.
  rewrite !getbit_tb. unfold nthb. destruct (i <? 8 * length d1) eqn:E.
  - rewrite app_nth1 by lia. reflexivity.
  - rewrite app_nth2 by lia.
    replace ((i - 8 * length d1) / 8) with (i / 8 - length d1) by lia.
    replace ((i - 8 * length d1) mod 8) with (i mod 8) by lia. reflexivity.
Qed.

Lemma getbit_firstn n d i :
  getbit (firstn n d) i = if i <? 8 * n then getbit d i else false.
Proof.
  rewrite !getbit_tb. unfold nthb. rewrite nth_firstn'.
  destruct (i <? 8 * n) eqn:E.
  - replace (i / 8 <? n) with true by lia. reflexivity.
  - replace (i / 8 <? n) with false by lia. apply tb_0.
Qed.

Lemma getbit_repeat0 n i : getbit (repeat 0%N n) i = false.
Proof.
  rewrite getbit_tb. unfold nthb. rewrite nth_repeat. apply tb_0.
Qed.

Lemma resize_length d n : length (resize d n) = n.
Proof.
  unfold resize. rewrite app_length, firstn_length, repeat_length. lia.
Qed.

Lemma getbit_resize d n i :
  getbit (resize d n) i = if i <? 8 * n then getbit d i else false.
Proof.
  unfold resize. rewrite getbit_app, firstn_length, getbit_firstn, getbit_repeat0.
  destruct (i <? 8 * n) eqn:E1; destruct (i <? 8 * Nat.min n (length d)) eqn:E2;
    try reflexivity.
  symmetry. apply getbit_overflow. lia.
Qed.

Lemma bytes_ok_firstn n d : bytes_ok d -> bytes_ok (firstn n d).
Proof.
  unfold bytes_ok. rewrite !Forall_forall. intros H x Hx. apply H.
  rewrite <- (firstn_skipn n d). apply in_or_app. left. exact Hx.
Qed.

Lemma bytes_ok_skipn n d : bytes_ok d -> bytes_ok (skipn n d).
Proof.
  unfold bytes_ok. rewrite !Forall_forall. intros H x Hx. apply H.
  rewrite <- (firstn_skipn n d). apply in_or_app. right. exact Hx.
Qed.

Lemma bytes_ok_repeat0 n : bytes_ok (repeat 0%N n).
Proof.
  unfold bytes_ok. rewrite Forall_forall. intros x Hx.
  apply repeat_spec in Hx. subst x. lia.
Qed.

Lemma bytes_ok_resize d n : bytes_ok d -> bytes_ok (resize d n).
Proof.
  intros H. unfold resize, bytes_ok. apply Forall_app. split.
  - apply bytes_ok_firstn, H.
  - apply bytes_ok_repeat0.
Qed.

Lemma bytes_ok_app d1 d2 : bytes_ok d1 -> bytes_ok d2 -> bytes_ok (d1 ++ d2).
Proof. intros H1 H2. apply Forall_app. split; assumption. Qed.

(* ---------- upd ---------- *)

Lemma upd_length : forall d j f, length (upd d j f) = length d.
Proof.
  induction d as [|x d IH]; intros j f.
  - reflexivity.
  - destruct j; cbn [upd length]; [reflexivity|]. rewrite IH. reflexivity.
Qed.

Lemma nth_upd_same : forall d j f, j < length d ->
  nth j (upd d j f) 0%N = f (nth j d 0%N).
Proof.
  induction d as [|x d IH]; intros j f Hj; cbn [length] in Hj.
  - lia.
  - destruct j; cbn [upd nth]; [reflexivity|]. apply IH. lia.
Qed.

Lemma nth_upd_other : forall d j f k, k <> j ->
  nth k (upd d j f) 0%N = nth k d 0%N.
Proof.
  induction d as [|x d IH]; intros j f k Hk.
  - reflexivity.
  - destruct j, k; cbn [upd nth]; try reflexivity; try lia.
    apply IH. lia.
Qed.

Lemma getbit_upd d j f i : j < length d ->
  getbit (upd d j f) i =
  if i / 8 =? j then tb (f (nthb d j)) (i mod 8) else getbit d i.
Proof.
  intros Hj. rewrite !getbit_tb. unfold nthb. destruct (i / 8 =? j) eqn:E.
  - apply Nat.eqb_eq in E. rewrite E. rewrite nth_upd_same by assumption. reflexivity.
  - apply Nat.eqb_neq in E. rewrite nth_upd_other by assumption. reflexivity.
Qed.

Lemma bytes_ok_upd : forall d j f, bytes_ok d ->
  (forall y, (y < 256)%N -> (f y < 256)%N) -> bytes_ok (upd d j f).
Proof.
  unfold bytes_ok. induction d as [|x d IH]; intros j f Hd Hf.
  - constructor.
  - inversion Hd as [|? ? Hx Hd']; subst.
    destruct j; cbn [upd]; constructor; auto.
Qed.

(* ---------- one bit or-ed into a buffer ---------- *)

Lemma getbit_or1 d pos b i : bytes_ok d -> pos < 8 * length d ->
  getbit (upd d (pos / 8) (fun y => N.lor y (N.shiftl (b2n b) (N.of_nat (7 - pos mod 8))))) i
  = (getbit d i || (b && (i =? pos))).
Proof.
  intros Hd Hp. rewrite getbit_upd by lia.
  destruct (or_kernel (nthb d (pos / 8)) b (pos mod 8) (nthb_lt _ _ Hd) ltac:(lia)) as [_ Hk].
  destruct (i / 8 =? pos / 8) eqn:E.
  - rewrite Hk by lia. rewrite getbit_tb.
    apply Nat.eqb_eq in E. rewrite E. f_equal. f_equal.
    destruct (i =? pos) eqn:E2; lia.
  - replace (i =? pos) with false.
    + rewrite andb_false_r, orb_false_r. reflexivity.
    + symmetry. apply Nat.eqb_neq. intros ->. apply Nat.eqb_neq in E. lia.
Qed.

Lemma bytes_ok_or1 d j b s : bytes_ok d -> s < 8 ->
  bytes_ok (upd d j (fun y => N.lor y (N.shiftl (b2n b) (N.of_nat (7 - s))))).
Proof.
  intros Hd Hs. apply bytes_ok_upd; [assumption|].
  intros y Hy. apply (or_kernel y b s Hy Hs).
Qed.

Lemma or_bits_length : forall bs d pos, length (or_bits d pos bs) = length d.
Proof.
  induction bs as [|x bs IH]; intros d pos; cbn [or_bits].
  - reflexivity.
  - rewrite IH. apply upd_length.
Qed.

Lemma bytes_ok_or_bits : forall bs d pos, bytes_ok d ->
  bytes_ok (or_bits d pos (map b2n bs)).
Proof.
  induction bs as [|x bs IH]; intros d pos Hd; cbn [or_bits map].
  - assumption.
  - apply IH. apply bytes_ok_or1; [assumption|lia].
Qed.

Lemma getbit_or_bits : forall bs d pos i, bytes_ok d ->
  pos + length bs <= 8 * length d ->
  getbit (or_bits d pos (map b2n bs)) i =
  if (pos <=? i) && (i <? pos + length bs)
  then getbit d i || nth (i - pos) bs false
  else getbit d i.
Proof.
  induction bs as [|x bs IH]; intros d pos i Hd Hl; cbn [or_bits map length] in *.
  - replace ((pos <=? i) && (i <? pos + 0)) with false by lia. reflexivity.
  - rewrite IH.
    + rewrite getbit_or1 by (assumption || lia).
      destruct (i =? pos) eqn:E1.
      * apply Nat.eqb_eq in E1. subst i.
        replace ((S pos <=? pos) && (pos <? S pos + length bs)) with false by lia.
        replace ((pos <=? pos) && (pos <? pos + S (length bs))) with true by lia.
        rewrite Nat.sub_diag. cbn [nth]. rewrite andb_true_r. reflexivity.
      * rewrite andb_false_r, orb_false_r.
        destruct ((S pos <=? i) && (i <? S pos + length bs)) eqn:E2.
        -- replace ((pos <=? i) && (i <? pos + S (length bs))) with true by lia.
           replace (i - pos) with (S (i - S pos)) by lia. reflexivity.
        -- replace ((pos <=? i) && (i <? pos + S (length bs))) with false by lia.
           reflexivity.
    + apply bytes_ok_or1; [assumption|lia].
    + rewrite upd_length. lia.
Qed.

(* ---------- one bit flipped in a buffer ---------- *)

Lemma getbit_xor1 d pos i : bytes_ok d -> pos < 8 * length d ->
  getbit (upd d (pos / 8) (fun y => N.lxor y (N.shiftl 1 (N.of_nat (7 - pos mod 8))))) i
  = xorb (getbit d i) (i =? pos).
Proof.
  intros Hd Hp. rewrite getbit_upd by lia.
  destruct (xor_kernel (nthb d (pos / 8)) (pos mod 8) (nthb_lt _ _ Hd) ltac:(lia)) as [_ Hk].
  destruct (i / 8 =? pos / 8) eqn:E.
  - rewrite Hk by lia. rewrite getbit_tb.
    apply Nat.eqb_eq in E. rewrite E. f_equal.
    destruct (i =? pos) eqn:E2; lia.
  - replace (i =? pos) with false.
    + rewrite xorb_false_r. reflexivity.
    + symmetry. apply Nat.eqb_neq. intros ->. apply Nat.eqb_neq in E. lia.
Qed.

Lemma bytes_ok_xor1 d j s : bytes_ok d -> s < 8 ->
  bytes_ok (upd d j (fun y => N.lxor y (N.shiftl 1 (N.of_nat (7 - s))))).
Proof.
  intros Hd Hs. apply bytes_ok_upd; [assumption|].
  intros y Hy. apply (xor_kernel y s Hy Hs).
Qed.

Lemma xor_bits_length : forall n d pos, length (xor_bits d pos n) = length d.
Proof.
  induction n as [|n IH]; intros d pos; cbn [xor_bits].
  - reflexivity.
  - rewrite IH. apply upd_length.
Qed.

Lemma bytes_ok_xor_bits : forall n d pos, bytes_ok d -> bytes_ok (xor_bits d pos n).
Proof.
  induction n as [|n IH]; intros d pos Hd; cbn [xor_bits].
  - assumption.
  - apply IH. apply bytes_ok_xor1; [assumption|lia].
Qed.

Lemma getbit_xor_bits : forall n d pos i, bytes_ok d ->
  pos + n <= 8 * length d ->
  getbit (xor_bits d pos n) i =
  if (pos <=? i) && (i <? pos + n) then negb (getbit d i) else getbit d i.
Proof.
  induction n as [|n IH]; intros d pos i Hd Hl; cbn [xor_bits].
  - replace ((pos <=? i) && (i <? pos + 0)) with false by lia. reflexivity.
  - rewrite IH.
    + rewrite getbit_xor1 by (assumption || lia).
      destruct (i =? pos) eqn:E1.
      * apply Nat.eqb_eq in E1. subst i.
        replace ((S pos <=? pos) && (pos <? S pos + n)) with false by lia.
        replace ((pos <=? pos) && (pos <? pos + S n)) with true by lia.
        apply xorb_true_r.
      * rewrite xorb_false_r.
        destruct ((S pos <=? i) && (i <? S pos + n)) eqn:E2.
        -- replace ((pos <=? i) && (i <? pos + S n)) with true by lia. reflexivity.
        -- replace ((pos <=? i) && (i <? pos + S n)) with false by lia. reflexivity.
    + apply bytes_ok_xor1; [assumption|lia].
    + rewrite upd_length. lia.
Qed.

(* ---------- more seq / getbit facts ---------- *)

Lemma map_seq_ext {A} (f g : nat -> A) : forall k s t,
  (forall j, j < k -> f (s + j) = g (t + j)) ->
  map f (seq s k) = map g (seq t k).
Proof.
  induction k as [|k IH]; intros s t H.
  - reflexivity.
  - cbn [seq map]. f_equal.
    + specialize (H 0 ltac:(lia)). rewrite !Nat.add_0_r in H. exact H.
    + apply IH. intros j Hj. specialize (H (S j) ltac:(lia)).
      replace (S s + j) with (s + S j) by lia.
      replace (S t + j) with (t + S j) by lia. exact H.
Qed.

Lemma getbit_skipn a d i : getbit (skipn a d) i = getbit d (8 * a + i).
Proof.
  rewrite !getbit_tb. unfold nthb. rewrite nth_skipn'.
  replace ((8 * a + i) / 8) with (a + i / 8) by lia.
  replace ((8 * a + i) mod 8) with (i mod 8) by lia. reflexivity.
Qed.

Lemma ubi_spec n :
  (n mod 8 = 0 /\ (0 <? n mod 8) = false /\ ubi n = n / 8) \/
  (0 < n mod 8 /\ (0 <? n mod 8) = true /\ ubi n = n / 8 + 1).
Proof.
  unfold ubi. destruct (0 <? n mod 8) eqn:E; [right|left]; repeat split; lia.
Qed.

Lemma ubi_ge n : n <= 8 * ubi n.
Proof. destruct (ubi_spec n) as [(H1 & _ & ->)|(H1 & _ & ->)]; lia. Qed.

Lemma ubi_le n m : n <= 8 * m -> ubi n <= m.
Proof. intros H. destruct (ubi_spec n) as [(H1 & _ & ->)|(H1 & _ & ->)]; lia. Qed.

Lemma flat_map_map' {A B C} (f : B -> list C) (g : A -> B) l :
  flat_map f (map g l) = flat_map (fun x => f (g x)) l.
Proof.
  induction l as [|x l IH]; cbn [map flat_map]; [reflexivity|]. rewrite IH. reflexivity.
Qed.
