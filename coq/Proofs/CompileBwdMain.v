(* CompileBwdMain.v: the statements of Props/C01_bwd.v in their final form: the vocabulary
   spelled out, and the converse theorems for every source the parser accepts. *)
From Xeh Require Import Model.Prelude Model.Bits Model.Codec Model.Cell Model.Lexer Model.Fmt
                        Model.Vm Model.Words Model.Struct
                        Proofs.VmFrame Proofs.VmDrive Proofs.CompileSim Proofs.CompileLayout Proofs.CompileStep
                        Proofs.CompileEval Proofs.CompileFwd Proofs.CompileFwd2 Proofs.CompileProg
                        Proofs.CompileParse Proofs.CompileParse2 Proofs.CompileParse3 Proofs.CompileMain
                        Proofs.CompileBwdStep Proofs.CompileBwdFwd Proofs.CompileBwdFwd2 Proofs.CompileBwdProg
                        Proofs.CompileBwdParse.
Local Notation length := List.length.

#[local] Arguments Z.add : simpl never.
#[local] Arguments Z.of_nat : simpl never.
#[local] Arguments Z.to_nat : simpl never.

(* ---------- vocabulary ---------- *)
Lemma inreg_is : forall K lo hi s,
  inreg K lo hi s <->
  ((rskeys s = K /\ lo <= ip s < hi) \/ (exists pre, pre <> [] /\ rskeys s = pre ++ K)).
Proof. intros. apply iff_refl. Qed.

Lemma agreesq_is : forall nf R W s endp bc B r,
  agreesq nf R W s endp bc B r <->
  match r with
  | SDone t' =>
    exists n s', steps nf n s = Some s' /\
                 (forall m, m < n -> exists sm, steps nf m s = Some sm /\ R sm) /\
                 ip s' = endp /\ sim t' s' /\
                 code s' = code s /\ rlog s' = None /\ insn_limit s' = None /\ rskeys s' = rskeys s
  | SBroke t' =>
    exists n s', steps nf n s = Some s' /\
                 (forall m, m <= n -> exists sm, steps nf m s = Some sm /\ R sm) /\
                 nth_error (code s) (ip s') = Some (brk_op (ip s') bc) /\ bc <> BNone /\ sim t' s' /\
                 code s' = code s /\ rlog s' = None /\ insn_limit s' = None /\ rskeys s' = rskeys s
  | SFail k pl _ t' =>
    exists n sN s', steps nf n s = Some sN /\
                    (forall m, m <= n -> exists sm, steps nf m s = Some sm /\ R sm) /\
                    insn_limit sN = None /\ fetch_and_run nf sN = RErr k pl s' /\ sim t' s'
  | SOut => forall m, W * S m <= B -> exists sm, steps nf m s = Some sm /\ R sm
  | SUnsup =>
    exists n sN, steps nf n s = Some sN /\
                 (forall m, m <= n -> exists sm, steps nf m s = Some sm /\ R sm) /\
                 is_running sN = true /\
                 (fetch_and_run nf sN = RPanic \/ fetch_and_run nf sN = RUnsup)
  end.
Proof. intros. apply iff_refl. Qed.

Lemma wt_block_is : forall l,
  wt_block l = match l with [] => 1 | x :: r => 1 + wt_stmt x + wt_block r end.
Proof. intro l. destruct l; reflexivity. Qed.

Lemma wt_stmt_is : forall x,
  wt_stmt x =
  match x with
  | SIf _ t => 1 + wt_block t
  | SIfE _ t e => 1 + wt_block t + wt_block e
  | SCase arms d => 1 + wt_arms arms + wt_block d
  | SUntil b _ => 1 + wt_block b
  | SRepeat b => 1 + wt_block b
  | SWhile c _ b => 1 + wt_block c + wt_block b
  | SDo _ b _ => 1 + wt_block b
  | _ => 1
  end.
Proof. intro x. destruct x; reflexivity. Qed.

Lemma wt_arms_is : forall l,
  wt_arms l = match l with [] => 0 | (pre, _, body) :: r => wt_block pre + wt_block body + wt_arms r end.
Proof. intro l. destruct l as [|[[pre p] body] r]; reflexivity. Qed.

Lemma call_weight_is : forall fs,
  (forall g body, fun_body fs g = Some body -> wt_block body < call_weight fs) /\
  1 <= call_weight fs /\
  call_weight fs = S (fold_right (fun gb a => Nat.max (wt_block (snd gb)) a) 0 fs).
Proof.
  intro fs. split; [|split].
  - intros g body H. pose proof (max_body_ge fs g body H). unfold call_weight. lia.
  - apply call_weight_pos.
  - unfold call_weight. f_equal. induction fs as [|[k b] r IH]; [reflexivity|]. cbn [max_body fold_right snd]. rewrite IH. reflexivity.
Qed.

(* [cl_b funs l]: every call in [l] names a function of [funs] *)
Lemma cl_is : forall funs,
  (forall x, cl_s funs x <->
     match x with
     | SCall g _ => fun_body funs g <> None
     | SIf _ t => cl_b funs t
     | SIfE _ t e => cl_b funs t /\ cl_b funs e
     | SCase arms d => cl_a funs arms /\ cl_b funs d
     | SUntil b _ => cl_b funs b
     | SRepeat b => cl_b funs b
     | SWhile c _ b => cl_b funs c /\ cl_b funs b
     | SDo _ b _ => cl_b funs b
     | _ => True
     end) /\
  (forall l, cl_b funs l <-> match l with [] => True | x :: r => cl_s funs x /\ cl_b funs r end) /\
  (forall a, cl_a funs a <->
     match a with [] => True | (pre, _, body) :: r => cl_b funs pre /\ cl_b funs body /\ cl_a funs r end).
Proof.
  intro funs. unfold cl_s, cl_b, cl_a. split; [|split].
  - intro x. split.
    + intro H. inversion H; subst; auto.
    + intro H. destruct x; try constructor; try tauto.
  - intro l. split.
    + intro H. inversion H; subst; auto.
    + intro H. destruct l; [constructor|]. destruct H. constructor; assumption.
  - intro a. split.
    + intro H. inversion H; subst; auto.
    + intro H. destruct a as [|[[pre p] body] r]; [constructor|]. destruct H as (H1 & H2 & H3). constructor; assumption.
Qed.

Lemma funs_closed_is : forall funs,
  funs_closed funs <-> (forall g body, fun_body funs g = Some body -> cl_b funs body).
Proof. intros. apply iff_refl. Qed.

Lemma prog_closed_is : forall funs l, prog_closed funs l <-> (cl_b funs l /\ funs_closed funs).
Proof. intros. apply iff_refl. Qed.

Lemma run_reflects_is : forall fo funs t l r,
  run_reflects fo funs t l r <->
  match r with
  | ROk _ s' => exists fuel t', sblock fo funs fuel l t = SDone t' /\ sim t' s'
  | RErr kd pl s' => exists fuel p t', sblock fo funs fuel l t = SFail kd pl p t' /\ sim t' s'
  | RPanic => exists fuel, sblock fo funs fuel l t = SUnsup
  | RUnsup => exists fuel, sblock fo funs fuel l t = SUnsup
  end.
Proof. intros. apply iff_refl. Qed.

(* ---------- every source ---------- *)
Section Source.
  Variable fo : fops.
  Variable pr : string -> option Z.
  Notation nf := (native_fn fo).

  Lemma source_wf : forall src heap0 org prog l funs n,
    parse_source fo pr src heap0 = Some (l, funs, n) ->
    layout_program funs l org = Some prog ->
    prog_wf funs l /\ prog_closed funs l.
  Proof.
    intros src heap0 org prog l funs n HP HL. split.
    - eapply parse_prog_wf; [exact HP|]. eapply layout_well_placed; exact HL.
    - eapply parse_prog_closed; exact HP.
  Qed.

  (* the traced forward simulation for a source *)
  Theorem source_stepsq : forall src org prog fuel t0 s l funs n,
    parse_source fo pr src (length (heap t0)) = Some (l, funs, n) ->
    layout_program funs l org = Some prog ->
    firstn (length prog) (skipn org (code s)) = prog ->
    rlog s = None -> insn_limit s = None -> ip s = org ->
    sim (set_heap t0 (heap t0 ++ repeat CNil (n - length (heap t0)))) s ->
    exists r, seval_source fo pr fuel src t0 = CRun r /\
              agreesq nf (inreg (rskeys s) org (org + length prog)) (call_weight funs) s (org + length prog) BNone
                      (fuel - wt_block l) r.
  Proof.
    intros src org prog fuel t0 s l funs n HP HL C Hl Hi Hip Hs.
    destruct (source_wf _ _ _ _ _ _ _ HP HL) as [HW HC].
    rewrite (seval_source_is fo pr fuel src t0 l funs n HP). eexists. split; [reflexivity|].
    eapply fwdq_program; eauto.
  Qed.

  (* 1. out of fuel: many machine steps inside the program *)
  Theorem source_out_steps : forall src org prog fuel t0 s l funs n,
    parse_source fo pr src (length (heap t0)) = Some (l, funs, n) ->
    layout_program funs l org = Some prog ->
    firstn (length prog) (skipn org (code s)) = prog ->
    rlog s = None -> insn_limit s = None -> ip s = org ->
    sim (set_heap t0 (heap t0 ++ repeat CNil (n - length (heap t0)))) s ->
    seval_source fo pr fuel src t0 = CRun SOut ->
    forall m, wt_block l + call_weight funs * S m <= fuel ->
      exists sm, steps nf m s = Some sm /\ inreg (rskeys s) org (org + length prog) sm.
  Proof.
    intros src org prog fuel t0 s l funs n HP HL C Hl Hi Hip Hs E m Hm.
    destruct (source_wf _ _ _ _ _ _ _ HP HL) as [HW HC].
    rewrite (seval_source_is fo pr fuel src t0 l funs n HP) in E. injection E as E.
    eapply program_out_steps; eauto.
  Qed.

  (* 2. divergence *)
  Theorem source_diverges : forall src org prog t0 s l funs n,
    parse_source fo pr src (length (heap t0)) = Some (l, funs, n) ->
    layout_program funs l org = Some prog ->
    firstn (length prog) (skipn org (code s)) = prog ->
    rlog s = None -> insn_limit s = None -> ip s = org ->
    sim (set_heap t0 (heap t0 ++ repeat CNil (n - length (heap t0)))) s ->
    (forall fuel, seval_source fo pr fuel src t0 = CRun SOut) ->
    forall k, exists sk s', steps nf k s = Some sk /\ inreg (rskeys s) org (org + length prog) sk /\
                            fetch_and_run nf sk = ROk tt s' /\
                            (rskeys sk = rskeys s -> org <= ip sk < org + length prog).
  Proof.
    intros src org prog t0 s l funs n HP HL C Hl Hi Hip Hs E k.
    destruct (source_wf _ _ _ _ _ _ _ HP HL) as [HW HC].
    eapply program_diverges; eauto.
    intro fuel. specialize (E fuel). rewrite (seval_source_is fo pr fuel src t0 l funs n HP) in E.
    injection E as E. exact E.
  Qed.

  (* 3 / 4. what [run] returns is what the evaluator returns for a large enough fuel *)
  Theorem source_run_converse : forall src org prog t0 s l funs n k r,
    parse_source fo pr src (length (heap t0)) = Some (l, funs, n) ->
    layout_program funs l org = Some prog ->
    skipn org (code s) = prog ->
    rlog s = None -> insn_limit s = None -> ip s = org ->
    sim (set_heap t0 (heap t0 ++ repeat CNil (n - length (heap t0)))) s ->
    run nf k s = Some r ->
    match r with
    | ROk _ s' => exists fuel t', seval_source fo pr fuel src t0 = CRun (SDone t') /\ sim t' s'
    | RErr kd pl s' => exists fuel p t', seval_source fo pr fuel src t0 = CRun (SFail kd pl p t') /\ sim t' s'
    | RPanic => exists fuel, seval_source fo pr fuel src t0 = CRun SUnsup
    | RUnsup => exists fuel, seval_source fo pr fuel src t0 = CRun SUnsup
    end.
  Proof.
    intros src org prog t0 s l funs n k r HP HL C Hl Hi Hip Hs Hr.
    destruct (source_wf _ _ _ _ _ _ _ HP HL) as [HW HC].
    pose proof (program_run_converse fo funs l org prog _ s k r HL HW HC C Hl Hi Hip Hs Hr) as H.
    destruct r as [u s'|kd pl s'| |]; cbn [run_reflects] in H.
    - destruct H as (fuel & t' & E & S'). exists fuel, t'. rewrite (seval_source_is fo pr fuel src t0 l funs n HP), E. auto.
    - destruct H as (fuel & p & t' & E & S'). exists fuel, p, t'. rewrite (seval_source_is fo pr fuel src t0 l funs n HP), E. auto.
    - destruct H as (fuel & E). exists fuel. rewrite (seval_source_is fo pr fuel src t0 l funs n HP), E. reflexivity.
    - destruct H as (fuel & E). exists fuel. rewrite (seval_source_is fo pr fuel src t0 l funs n HP), E. reflexivity.
  Qed.

  (* the fuel is explicit *)
  Theorem source_run_terminates : forall src org prog t0 s l funs n k r,
    parse_source fo pr src (length (heap t0)) = Some (l, funs, n) ->
    layout_program funs l org = Some prog ->
    skipn org (code s) = prog ->
    rlog s = None -> insn_limit s = None -> ip s = org ->
    sim (set_heap t0 (heap t0 ++ repeat CNil (n - length (heap t0)))) s ->
    run nf k s = Some r ->
    seval_source fo pr (wt_block l + call_weight funs * S k) src t0 <> CRun SOut.
  Proof.
    intros src org prog t0 s l funs n k r HP HL C Hl Hi Hip Hs Hr E.
    destruct (source_wf _ _ _ _ _ _ _ HP HL) as [HW HC].
    rewrite (seval_source_is fo pr _ src t0 l funs n HP) in E. injection E as E.
    eapply program_run_terminates; eauto.
  Qed.

  Theorem source_run_iff : forall src org prog t0 s l funs n,
    parse_source fo pr src (length (heap t0)) = Some (l, funs, n) ->
    layout_program funs l org = Some prog ->
    skipn org (code s) = prog ->
    rlog s = None -> insn_limit s = None -> ip s = org ->
    sim (set_heap t0 (heap t0 ++ repeat CNil (n - length (heap t0)))) s ->
    ((exists k s', run nf k s = Some (ROk tt s')) <->
     (exists fuel t', seval_source fo pr fuel src t0 = CRun (SDone t'))) /\
    ((exists k kd pl s', run nf k s = Some (RErr kd pl s')) <->
     (exists fuel kd pl p t', seval_source fo pr fuel src t0 = CRun (SFail kd pl p t'))) /\
    ((forall k, run nf k s = None) <-> (forall fuel, seval_source fo pr fuel src t0 = CRun SOut)).
  Proof.
    intros src org prog t0 s l funs n HP HL C Hl Hi Hip Hs.
    destruct (source_wf _ _ _ _ _ _ _ HP HL) as [HW HC].
    destruct (program_run_iff fo funs l org prog _ s HL HW HC C Hl Hi Hip Hs) as (A1 & A2 & A3).
    assert (Q : forall fuel r, seval_source fo pr fuel src t0 = CRun r <->
                               sblock fo funs fuel l (set_heap t0 (heap t0 ++ repeat CNil (n - length (heap t0)))) = r).
    { intros fuel r. rewrite (seval_source_is fo pr fuel src t0 l funs n HP). split; [intro E; injection E; auto|congruence]. }
    split; [|split].
    - rewrite A1. split; intros (fuel & t' & E); exists fuel, t'; apply Q; exact E.
    - rewrite A2. split; intros (fuel & kd & pl & p & t' & E); exists fuel, kd, pl, p, t'; apply Q; exact E.
    - rewrite A3. split; intros E fuel; apply Q; apply E.
  Qed.
End Source.
