(* MetaCompile2.v (C11): token steps outside meta blocks, whole builds, compile.

   Every token step taken in a non-meta context either keeps [R5], or opens a meta block, or
   is a use of the word `immediate`.  A whole meta block is an [R5] step of the context it was
   opened in.  Hence a successful compile leaves the data stack as it was and extends the heap
   by nil cells only - unless the source uses `immediate` at its top level. *)
From Xeh Require Import Model.Prelude Model.Bits Model.Codec Model.Cell Model.Lexer Model.Fmt
                        Model.Vm Model.Words Model.Build.
From Xeh Require Import Proofs.VmFrame Proofs.VmLimits Proofs.NoPanic Proofs.NoPanicBuild Proofs.NoPanicFlow
                        Proofs.MetaBase Proofs.MetaPurge Proofs.MetaBuild Proofs.MetaClose Proofs.MetaPrefix
                        Proofs.MetaPrefixBuild Proofs.MetaPrefixWords Proofs.MetaBlock Proofs.MetaSeg
                        Proofs.MetaInline Proofs.MetaCompile.
Local Notation length := List.length.
Local Open Scope string_scope.
Local Open Scope list_scope.

Lemma not_meta_eqb m : m <> MMeta -> mode_eqb m MMeta = false.
Proof. destruct m; intros H; try reflexivity. contradiction H. reflexivity. Qed.

Lemma dict_rfind_in : forall d name acc e,
  dict_rfind d name acc = Some e -> acc = Some e \/ exists x, In x d /\ dent x = e.
Proof.
  induction d as [|x d IH]; intros name acc e H; cbn [dict_rfind] in H; [left; exact H|].
  destruct (IH _ _ _ H) as [E|(y & Hy & Ey)].
  - destruct (String.eqb (dname x) name); [|left; exact E].
    injection E as <-. right. exists x. split; [left; reflexivity|reflexivity].
  - right. exists y. split; [right; exact Hy|exact Ey].
Qed.

Lemma no_user_imm_entry s name x len :
  no_user_imm (dict s) -> dict_entry s name = Some (DFun true (FInterp x) len) -> False.
Proof.
  intros Hn E. unfold dict_entry in E. destruct (dict_rfind_in _ _ _ _ E) as [C|(y & Hy & Ey)]; [discriminate|].
  unfold no_user_imm in Hn. rewrite Forall_forall in Hn. specialize (Hn y Hy).
  unfold user_imm in Hn. rewrite Ey in Hn. discriminate.
Qed.

Lemma R5_depth a b : R5 a b -> depth b = depth a.
Proof. intros (N & _). unfold depth. rewrite N. reflexivity. Qed.

Lemma R5_interned txt s : Pre5 s -> R5 s (interned txt s).
Proof.
  intros P.
  exact (fp5_quiet _ _ (scorep_intern_source txt) (cdp_intern_source txt)
                   (dictp_corep _ _ (corep_intern_source txt)) s P).
Qed.

Section Quiet.
  Variable fo : fops.
  Variable pr : string -> option Z.
  Variable rf : nat.

  Definition imm_use (t : btok) (s : state) : Prop :=
    exists name len, t = BWord name /\ dict_entry s name = Some (DFun true (FNative "immediate") len).

  Definition imm_step (x y : state) : Prop :=
    exists f s1 t s2, pre_run fo rf x = ROk tt s1 /\ get_token pr s1 = ROk t s2 /\ imm_use t s2 /\
                      tok_act fo pr rf f t s2 = ROk tt y.

  Lemma ctx5_word_cases n : ctx5_word n = true ->
    n = "#(" \/ n = "#)" \/ n = "~)" \/ n = "const" \/ n = "immediate" \/ enum_native n = true.
  Proof.
    unfold ctx5_word. intros H. apply orb_true_iff in H. destruct H as [H|H].
    - apply orb_true_iff in H. destruct H as [H|H].
      + destruct (ctx_word_cases n H) as [E|[E|[E|E]]]; auto 7.
      + apply String.eqb_eq in H. auto 7.
    - apply String.eqb_eq in H. auto 7.
  Qed.

  Lemma i_const_not_meta s : cmode (cx s) <> MMeta -> forall s', i_const pr s <> ROk tt s'.
  Proof.
    intros Hm s' E. unfold i_const in E. unfold bind at 1 in E.
    pose proof (scorep_next_name pr s) as Sc.
    destruct (next_name pr s) as [name s1|? ? ?| |]; try discriminate.
    cbn [res_all] in Sc. unfold score in Sc. injection Sc as _ _ Ecx _ _ _ _ _.
    unfold bind at 1 in E. unfold get at 1 in E. rewrite Ecx in E.
    rewrite (not_meta_eqb _ Hm) in E. discriminate.
  Qed.

  Lemma cls5_build_word f name s s' : enum_tok s (BWord name) = false ->
    Pre5 s -> build_word fo pr rf f name s = ROk tt s' ->
    R5 s s' \/ s' = opened s \/
    exists len, dict_entry s name = Some (DFun true (FNative "immediate") len).
  Proof.
    intros Hne P E. pose proof P as (Hm & _ & _ & Hn). cbn [enum_tok] in Hne.
    assert (Q : forall op, code_emit op s = ROk tt s' -> R5 s s').
    { intros op Eo.
      pose proof (fp5_quiet _ _ (scorep_code_emit op) (cdp_code_emit op) (dictp_code_emit op) s P) as H.
      rewrite Eo in H. exact H. }
    unfold build_word, bind, get in E.
    destruct (dict_entry s name) as [[c|a|[|] [x|n] len]|] eqn:Ed; try discriminate;
      try (left; eapply Q; exact E).
    - exfalso. eapply no_user_imm_entry; eassumption.
    - unfold run_immediate in E.
      destruct (immediate_fn fo pr rf f n) as [w|] eqn:Ei; [|discriminate].
      destruct (ctx5_word n) eqn:Ec.
      + destruct (ctx5_word_cases n Ec) as [ -> | [ -> | [ -> | [ -> | [ -> | C ] ] ] ] ]; [| | | | |congruence].
        * assert (E0 : immediate_fn fo pr rf f "#(" = Some i_nested_begin) by reflexivity.
          rewrite E0 in Ei. injection Ei as <-. unfold i_nested_begin in E. rewrite context_open_meta in E.
          injection E as <-. right. left. reflexivity.
        * assert (E0 : immediate_fn fo pr rf f "#)" = Some (i_nested_end fo rf)) by reflexivity.
          rewrite E0 in Ei. injection Ei as <-. unfold i_nested_end, bind, get in E.
          rewrite (not_meta_eqb _ Hm) in E. discriminate.
        * assert (E0 : immediate_fn fo pr rf f "~)" = Some (i_nested_inject fo rf)) by reflexivity.
          rewrite E0 in Ei. injection Ei as <-. unfold i_nested_inject, bind, get in E.
          rewrite (not_meta_eqb _ Hm) in E. discriminate.
        * assert (E0 : immediate_fn fo pr rf f "const" = Some (i_const pr)) by reflexivity.
          rewrite E0 in Ei. injection Ei as <-. exfalso. eapply i_const_not_meta; eassumption.
        * right. right. exists len. reflexivity.
      + left. pose proof (fp5_immediate_fn fo pr rf f n w Ei Ec s P) as H. rewrite E in H. exact H.
  Qed.

  Lemma cls5_tok_act f t s s' : enum_tok s t = false -> Pre5 s -> tok_act fo pr rf f t s = ROk tt s' ->
    R5 s s' \/ s' = opened s \/ imm_use t s.
  Proof.
    intros Hne P E. destruct t as [|name|v]; cbn [tok_act] in E.
    - injection E as <-. left. apply R5_refl. exact P.
    - unfold bind, get in E.
      assert (B : build_word fo pr rf f name s = ROk tt s' -> R5 s s' \/ s' = opened s \/ imm_use (BWord name) s).
      { intros Eb. destruct (cls5_build_word f name s s' Hne P Eb) as [H|[H|(len & H)]]; auto.
        right. right. exists name, len. split; [reflexivity|exact H]. }
      destruct (top_function_flow s) as [[[d st] ls]|]; [|exact (B E)].
      destruct (rposition ls name 0 None); [|exact (B E)].
      left. pose proof (fp5_quiet _ _ (scorep_code_emit (OLoadLocal n)) (cdp_code_emit _) (dictp_code_emit _) s P) as H.
      rewrite E in H. exact H.
    - left. pose proof (fp5_code_emit_value v s P) as H. rewrite E in H. exact H.
  Qed.

  Lemma pre_run_not_meta s : cmode (cx s) <> MMeta -> pre_run fo rf s = ROk tt s.
  Proof. intros H. unfold pre_run, bind, get. rewrite (not_meta_eqb _ H). reflexivity. Qed.

  (* every token step outside a meta context *)
  Theorem tstep_cls5 f s s' : Pre5 s -> tstep fo pr rf f s s' ->
    R5 s s' \/ (exists s2, R5 s s2 /\ s' = opened s2) \/ imm_step s s'.
  Proof.
    intros P (s1 & t & s2 & E1 & E2 & Ht & Hne & E3).
    pose proof (pre_run_not_meta s (proj1 P)) as E0. rewrite E0 in E1. injection E1 as <-.
    pose proof (fp5_quiet _ _ (scorep_get_token pr) (cdp_get_token pr)
                          (dictp_corep _ _ (corep_get_token pr)) s P) as H2.
    rewrite E2 in H2. cbn [res_all F5 fr_rel] in H2.
    pose proof (R5_keep _ _ P H2) as P2.
    destruct (cls5_tok_act f t s2 s' Hne P2 E3) as [H|[H|H]].
    - left. eapply R5_trans; eassumption.
    - right. left. exists s2. split; assumption.
    - right. right. exists f, s, t, s2. repeat split; assumption.
  Qed.

  (* a whole meta block, seen from the non-meta context it was opened in *)
  Theorem block_R5 a w1 : Pre5 a ->
    R2 (length (code a)) (length (dict a)) (inner a) w1 -> flows w1 = flows a ->
    R5 a (close_state w1 (cx a)).
  Proof.
    intros P H Fl. pose proof P as (Hm & W & Hcd & Hn).
    destruct (block_spec a w1 W Hcd H Fl)
      as (B1 & B2 & B3 & B4 & (c' & Rc & Ec) & (d' & Rd & Ed) & Eg & Kd & Eds & Kr & Kl & Ks & Ef).
    set (t' := close_state w1 (cx a)) in *.
    assert (Em : emit_flag w1 (cx a) = true) by (rewrite Ef, (not_meta_eqb _ Hm); reflexivity).
    rewrite Em in *.
    assert (En : ds_len (open_ctx a) = length (ds a)).
    { unfold open_ctx. cbn [ds_len]. rewrite (not_meta_eqb _ Hm). reflexivity. }
    destruct W as (W1 & W2 & W3 & W4 & W5).
    unfold R5. rewrite B1, B2, B3, B4.
    split; [reflexivity|]. split; [reflexivity|].
    split; [rewrite Eds, En; apply lastn_all; lia|].
    split; [exact Kr|]. split; [exact Kl|]. split; [exact Ks|].
    split; [apply keeps_refl; exact W5|].
    split; [exists 0; cbn [repeat]; rewrite app_nil_r; reflexivity|].
    split.
    - unfold cd_inv in *. destruct Rc as [Lc _].
      rewrite Ec, Eg, !app_length, map_length, repeat_length, firstn_length, Lc. lia.
    - rewrite Ed. apply Forall_app. split.
      + destruct Rd as [Ld Hd]. unfold no_user_imm in *. rewrite Forall_forall in *.
        intros e He. destruct (In_nth_error _ _ He) as (i & Ei).
        destruct (Hd i) as [E|(e0 & e1 & E0 & E1 & _ & _ & C1)].
        * apply Hn. eapply nth_error_In. rewrite <- E. exact Ei.
        * rewrite Ei in E1. injection E1 as <-. unfold is_dconst in C1. unfold user_imm.
          destruct (dent e); try discriminate. reflexivity.
      + pose proof (purge_all_const (skipn (length (dict a)) (dict w1))) as Hc.
        unfold no_user_imm. rewrite Forall_forall in *. intros e He. specialize (Hc e He).
        unfold is_dconst in Hc. unfold user_imm. destruct (dent e); try discriminate. reflexivity.
  Qed.

  (* ---------- whole builds ---------- *)
  Definition J (s x : state) : Prop :=
    (depth x = depth s /\ R5 s x) \/
    (exists a, R5 s a /\ bpath fo pr rf (S (depth a)) (opened a) x) \/
    (exists y z, bpath fo pr rf 0 s y /\ depth y = depth s /\ imm_step y z).

  Lemma J_path s x : Pre5 s -> bpath fo pr rf 0 s x -> J s x.
  Proof.
    intros P Hb. induction Hb as [|x y Hb IH Sy _].
    - left. split; [reflexivity|apply R5_refl; exact P].
    - destruct IH as [[Dx Hx]|[(a & Ha & Hb2)|H3]].
      + pose proof (R5_keep _ _ P Hx) as Px. destruct Sy as (f & St).
        destruct (tstep_cls5 f x y Px St) as [H|[(s2 & H & ->)|H]].
        * left. split; [rewrite (R5_depth _ _ H); exact Dx|eapply R5_trans; eassumption].
        * right. left. exists s2. split; [eapply R5_trans; eassumption|apply bp_nil].
        * right. right. exists x, y. repeat split; assumption.
      + pose proof (R5_keep _ _ P Ha) as Pa.
        destruct (le_lt_dec (S (depth a)) (depth y)) as [Hd|Hd].
        * right. left. exists a. split; [exact Ha|]. eapply bp_snoc; eassumption.
        * destruct (block_theorem fo pr rf a x y (proj1 (proj2 Pa)) (proj1 (proj2 (proj2 Pa))) Hb2 Sy)
            as (_ & w1 & Hw & Fl & D); [lia|].
          pose proof (block_R5 a w1 Pa Hw Fl) as Hy.
          assert (Hy' : R5 a y).
          { destruct D as [->|(txt & ->)]; [exact Hy|].
            eapply R5_trans; [exact Hy|]. apply R5_interned. eapply R5_keep; eassumption. }
          left. split; [rewrite (R5_depth _ _ Hy'), (R5_depth _ _ Ha); reflexivity|].
          eapply R5_trans; eassumption.
      + right. right. exact H3.
  Qed.

  (* the state after context_open MCompile *)
  Definition copened (s : state) : state :=
    set_nested
      (set_cx s (mkctx (if mode_eqb (cmode (cx s)) MCompile then ds_len (cx s) else length (ds s))
                       (length (code s)) (length (rs s)) (length (flows s)) (length (loops s))
                       (length (special s)) (length (dict s)) (length (code s)) MCompile))
      (cx s :: nested s).

  Lemma compile_open src s :
    (context_open MCompile ;; intern_source src) s = ROk tt (interned src (copened s)).
  Proof. reflexivity. Qed.

  Lemma Pre5_copened src s : wfm s -> cd_inv s -> no_user_imm (dict s) -> Pre5 (interned src (copened s)).
  Proof.
    intros (W1 & W2 & W3 & W4 & W5) Hcd Hn. split; [discriminate|]. split; [|split; assumption].
    unfold wfm, interned, copened.
    cbn [set_input set_sources set_nested set_cx cx ds rs loops special flows ds_len rs_len ls_len ss_ptr fs_len].
    repeat split; try lia. destruct (mode_eqb _ _); lia.
  Qed.

  Theorem compile_quiet fuel src s s' :
    wfm s -> cd_inv s -> no_user_imm (dict s) ->
    enum_free fo pr rf fuel (interned src (copened s)) ->
    compile fo pr rf fuel src s = ROk tt s' ->
    (ds s' = ds s /\ exists k, heap s' = heap s ++ repeat CNil k) \/
    (exists y z, bpath fo pr rf 0 (interned src (copened s)) y /\ depth y = S (depth s) /\ imm_step y z).
  Proof.
    intros W Hcd Hn EF E. unfold compile, build_from_source in E. cbv zeta in E.
    rewrite compile_open in E.
    set (s1 := interned src (copened s)) in *.
    pose proof (Pre5_copened src s W Hcd Hn) as P1. fold s1 in P1.
    destruct (build1 fo pr rf fuel (length (nested s1)) s1) as [[] s2|? ? ?| |] eqn:Eb; try discriminate.
    destruct (build1_path fo pr rf _ _ _ _ EF Eb) as (x & x1 & Hb & E1 & E2 & Dd & _).
    (* pre_run and get_token do not change the context stack *)
    assert (Dx : depth x = depth s1).
    { pose proof (scorep_get_token pr x1) as S2. rewrite E2 in S2. cbn [res_all] in S2.
      unfold score in S2. injection S2 as _ N2 _ _ _ _ _ _.
      assert (N1 : nested x1 = nested x).
      { unfold pre_run, bind, get in E1.
        destruct (mode_eqb (cmode (cx x)) MMeta && negb (has_pending_flow x)).
        - pose proof (run_m_fr fo rf x) as Fr. rewrite E1 in Fr. apply Fr.
        - injection E1 as <-. reflexivity. }
      unfold depth in *. rewrite <- N1, <- N2. exact Dd. }
    destruct (J_path s1 x P1 Hb) as [[_ Hx]|[(a & Ha & Hb2)|(y & z & H3)]].
    - left.
      pose proof (R5_keep _ _ P1 Hx) as Px.
      rewrite (pre_run_not_meta x (proj1 Px)) in E1. injection E1 as <-.
      pose proof (fp5_quiet _ _ (scorep_get_token pr) (cdp_get_token pr)
                            (dictp_corep _ _ (corep_get_token pr)) x Px) as H2.
      rewrite E2 in H2. cbn [res_all F5 fr_rel] in H2.
      pose proof (R5_trans _ _ _ Hx H2) as (N & C & D & _ & _ & _ & _ & Hh & _).
      unfold context_close in E. rewrite N in E. unfold s1 in E at 1.
      cbn [interned copened set_input set_sources set_nested nested] in E. cbv zeta in E.
      change (cx (set_nested s2 (nested s))) with (cx s2) in E. rewrite C in E.
      unfold s1 in E at 1. cbn [interned copened set_input set_sources set_nested set_cx cx cmode] in E.
      injection E as <-. cbn [set_cx set_nested ds heap]. split; [exact D|exact Hh].
    - exfalso. pose proof (bpath_depth fo pr rf (S (depth a)) (opened a) x (le_n _) Hb2) as D.
      rewrite (R5_depth _ _ Ha) in D. lia.
    - right. exists y, z. destruct H3 as (A & B & C). repeat split; try assumption.
  Qed.

  (* ---------- the same for the build phase of eval ---------- *)
  Definition mopened (m : mode) (s : state) : state :=
    set_nested
      (set_cx s (mkctx (if mode_eqb (cmode (cx s)) m then ds_len (cx s) else length (ds s))
                       (length (code s)) (length (rs s)) (length (flows s)) (length (loops s))
                       (length (special s)) (length (dict s)) (length (code s)) m))
      (cx s :: nested s).

  Lemma build_open m src s :
    (context_open m ;; intern_source src) s = ROk tt (interned src (mopened m s)).
  Proof. reflexivity. Qed.

  Lemma Pre5_mopened m src s : m <> MMeta -> wfm s -> cd_inv s -> no_user_imm (dict s) ->
    Pre5 (interned src (mopened m s)).
  Proof.
    intros Hm (W1 & W2 & W3 & W4 & W5) Hcd Hn. split; [exact Hm|]. split; [|split; assumption].
    unfold wfm, interned, mopened.
    cbn [set_input set_sources set_nested set_cx cx ds rs loops special flows ds_len rs_len ls_len ss_ptr fs_len].
    repeat split; try lia. destruct (mode_eqb _ _); lia.
  Qed.

  (* the build phase of eval / compile: nothing is executed outside meta blocks *)
  Theorem build_quiet m fuel src s s2 :
    m <> MMeta -> wfm s -> cd_inv s -> no_user_imm (dict s) ->
    enum_free fo pr rf fuel (interned src (mopened m s)) ->
    build1 fo pr rf fuel (S (depth s)) (interned src (mopened m s)) = ROk tt s2 ->
    R5 (interned src (mopened m s)) s2 \/
    (exists y z, bpath fo pr rf 0 (interned src (mopened m s)) y /\ depth y = S (depth s) /\ imm_step y z).
  Proof.
    intros Hm W Hcd Hn EF Eb.
    set (s1 := interned src (mopened m s)) in *.
    pose proof (Pre5_mopened m src s Hm W Hcd Hn) as P1. fold s1 in P1.
    destruct (build1_path fo pr rf _ _ _ _ EF Eb) as (x & x1 & Hb & E1 & E2 & Dd & _).
    assert (Dx : depth x = depth s1).
    { pose proof (scorep_get_token pr x1) as S2. rewrite E2 in S2. cbn [res_all] in S2.
      unfold score in S2. injection S2 as _ N2 _ _ _ _ _ _.
      assert (N1 : nested x1 = nested x).
      { unfold pre_run, bind, get in E1.
        destruct (mode_eqb (cmode (cx x)) MMeta && negb (has_pending_flow x)).
        - pose proof (run_m_fr fo rf x) as Fr. rewrite E1 in Fr. apply Fr.
        - injection E1 as <-. reflexivity. }
      unfold depth in *. rewrite <- N1, <- N2. exact Dd. }
    destruct (J_path s1 x P1 Hb) as [[_ Hx]|[(a & Ha & Hb2)|(y & z & H3)]].
    - left.
      pose proof (R5_keep _ _ P1 Hx) as Px.
      rewrite (pre_run_not_meta x (proj1 Px)) in E1. injection E1 as <-.
      pose proof (fp5_quiet _ _ (scorep_get_token pr) (cdp_get_token pr)
                            (dictp_corep _ _ (corep_get_token pr)) x Px) as H2.
      rewrite E2 in H2. cbn [res_all F5 fr_rel] in H2.
      exact (R5_trans _ _ _ Hx H2).
    - exfalso. pose proof (bpath_depth fo pr rf (S (depth a)) (opened a) x (le_n _) Hb2) as D.
      rewrite (R5_depth _ _ Ha) in D. lia.
    - right. exists y, z. destruct H3 as (A & B & C). repeat split; try assumption.
  Qed.

  (* eval = the quiet build phase followed by the run of the compiled code *)
  Theorem eval_phases fuel src s s' :
    wfm s -> cd_inv s -> no_user_imm (dict s) ->
    enum_free fo pr rf fuel (interned src (mopened MEval s)) ->
    eval fo pr rf fuel src s = ROk tt s' ->
    (exists s2 s3,
       build1 fo pr rf fuel (S (depth s)) (interned src (mopened MEval s)) = ROk tt s2 /\
       R5 (interned src (mopened MEval s)) s2 /\
       run_m fo rf (set_nested s2 (nested s)) = ROk tt s3 /\
       s' = set_cx s3 (if mode_eqb (cmode (cx s)) MEval then set_ctx_ip (cx s) (ip s3) else cx s)) \/
    (exists y z, bpath fo pr rf 0 (interned src (mopened MEval s)) y /\ depth y = S (depth s) /\ imm_step y z).
  Proof.
    intros W Hcd Hn EF E. unfold eval, build_from_source in E. cbv zeta in E.
    rewrite build_open in E.
    set (s1 := interned src (mopened MEval s)) in *.
    change (length (nested s1)) with (S (depth s)) in E.
    destruct (build1 fo pr rf fuel (S (depth s)) s1) as [[] s2|? ? ?| |] eqn:Eb; try discriminate.
    destruct (build_quiet MEval fuel src s s2 ltac:(discriminate) W Hcd Hn EF Eb) as [H|H]; [|right; exact H].
    left. pose proof H as (N & C & _).
    unfold context_close in E. rewrite N in E.
    cbn [interned mopened set_input set_sources set_nested nested] in E. cbv zeta in E.
    change (cx (set_nested s2 (nested s))) with (cx s2) in E. rewrite C in E.
    cbn [interned mopened set_input set_sources set_nested set_cx cx cmode] in E.
    destruct (run_m fo rf (set_nested s2 (nested s))) as [[] s3|? ? ?| |] eqn:Er; try discriminate.
    injection E as <-. exists s2, s3.
    split; [reflexivity|]. split; [exact H|]. split; [exact Er|reflexivity].
  Qed.
End Quiet.
