(* VmLimitsRunQuiet.v (C14): in every native word the writes to the heap, to the output, to the
   stopping flag and to the loop stack come AFTER the last push.  Hence an instruction that
   fails with a limit error leaves these four exactly as they were: only the data stack, the
   special stack, the reverse log, the meter and the resolution of a [late] cell can differ. *)
From Xeh Require Import Model.Prelude Model.Bits Model.Codec Model.Cell Model.Lexer Model.Fmt
                        Model.Vm Model.Words Model.Struct Model.Build Model.Boot.
From Xeh Require Import Proofs.VmFrame Proofs.VmLimits Proofs.VmLimitsRunBase Proofs.VmLimitsRunStep
                        Proofs.VmLimitsRunFail.
Local Notation length := List.length.

#[local] Arguments Z.add : simpl never.
#[local] Arguments Z.sub : simpl never.
#[local] Arguments Z.mul : simpl never.
#[local] Arguments Z.ltb : simpl never.
#[local] Arguments Z.leb : simpl never.
#[local] Arguments Z.eqb : simpl never.
#[local] Arguments Z.of_nat : simpl never.
#[local] Arguments Z.to_nat : simpl never.

Definition hol (s : state) := (heap s, out s, stopping s, loops s).

(* programs that never write these fields *)
Definition P_pure {A} (m : M A) : Prop := forall s, res_all (fun s' => hol s' = hol s) (m s).
(* programs whose limit failures leave these fields alone *)
Definition P_q {A} (m : M A) : Prop := forall s p s', m s = RErr ELimit p s' -> hol s' = hol s.

Lemma q_of_nolim A (m : M A) : P_nolim m -> P_q m.
Proof. intros H s p s' E. exfalso. eapply H. exact E. Qed.
Lemma q_of_pure A (m : M A) : P_pure m -> P_q m.
Proof. intros H s p s' E. specialize (H s). rewrite E in H. exact H. Qed.
Lemma q_bind A B (m : M A) (f : A -> M B) : P_pure m -> (forall a, P_q (f a)) -> P_q (bind m f).
Proof.
  intros Hm Hf s p s' E. unfold bind in E. specialize (Hm s).
  destruct (m s) as [a s1|k q s1| |]; try discriminate; cbn [res_all] in Hm.
  - rewrite <- Hm. eapply Hf. exact E.
  - injection E as _ _ <-. exact Hm.
Qed.
Lemma q_get_bind B (k : state -> M B) : (forall s0, P_q (k s0)) -> P_q (bind get k).
Proof. intros H s p s' E. unfold bind, get in E. eapply H. exact E. Qed.

Lemma pure_ret A (a : A) : P_pure (ret a).
Proof. intros s. reflexivity. Qed.
Lemma pure_fail A k p : P_pure (@fail A k p).
Proof. intros s. reflexivity. Qed.
Lemma pure_unsup A : P_pure (@unsup A).
Proof. intros s. exact I. Qed.
Lemma pure_bind A B (m : M A) (f : A -> M B) : P_pure m -> (forall a, P_pure (f a)) -> P_pure (bind m f).
Proof.
  intros Hm Hf s. unfold bind. specialize (Hm s).
  destruct (m s) as [a s1|k q s1| |]; cbn [res_all] in *; auto.
  specialize (Hf a s1). destruct (f a s1); cbn [res_all] in *; auto; congruence.
Qed.
Lemma pure_get_bind B (k : state -> M B) : (forall s0, P_pure (k s0)) -> P_pure (bind get k).
Proof. intros H s. unfold bind, get. apply H. Qed.

Ltac pure_prim :=
  let s := fresh "s" in
  intro s; destruct_state s;
  cbv [push_data pop_data top_data swap_data rot_data over_data push_special pop_special get_var
       ret fail add_rstep limit_reached data_depth
       set_ds set_special set_rlog
       dict heap code dbg sources input ds rs flows loops special cx nested meter insn_limit
       heap_limit stack_limit rlog out last_tok stopping];
  break_matches; cbv [res_all hol heap out stopping loops]; try exact I; reflexivity.

Lemma pure_push_data c : P_pure (push_data c). Proof. pure_prim. Qed.
Lemma pure_pop_data : P_pure pop_data. Proof. pure_prim. Qed.
Lemma pure_top_data : P_pure top_data. Proof. pure_prim. Qed.
Lemma pure_swap_data : P_pure swap_data. Proof. pure_prim. Qed.
Lemma pure_rot_data : P_pure rot_data. Proof. pure_prim. Qed.
Lemma pure_over_data : P_pure over_data. Proof. pure_prim. Qed.
Lemma pure_push_special p : P_pure (push_special p). Proof. pure_prim. Qed.
Lemma pure_pop_special : P_pure pop_special. Proof. pure_prim. Qed.
Lemma pure_get_var a : P_pure (get_var a). Proof. pure_prim. Qed.

Create HintDb puredb.
Create HintDb nolimdb.

Ltac pure_step :=
  cbv beta zeta;
  first
    [ apply pure_ret | apply pure_fail | apply pure_unsup
    | apply pure_push_data | apply pure_pop_data | apply pure_top_data | apply pure_swap_data
    | apply pure_rot_data | apply pure_over_data | apply pure_push_special | apply pure_pop_special
    | apply pure_get_var
    | solve [ auto 2 with puredb nocore ]
    | lazymatch goal with
      | |- P_pure (bind get _) => apply pure_get_bind; intro
      | |- P_pure (bind _ _) => apply pure_bind; [ | intro ]
      | |- P_pure (match ?x with _ => _ end) => destruct x
      | |- P_pure (push_data _) => fail
      | |- P_pure (set_var _ _) => fail
      | |- P_pure (print _) => fail
      | |- P_pure (loop_set_items _) => fail
      | |- P_pure (modify _) => fail
      | |- P_pure ?m => let h := head_of m in unfold h
      end ].
Ltac pure_solve := repeat pure_step.

(* more programs without pushes *)
Ltac nolim_prim2 :=
  let s := fresh "s" in
  intros s ? ?; destruct_state s;
  cbv [swap_data rot_data push_special pop_special get_var set_var loop_set_items print modify
       add_rstep data_depth
       set_ds set_loops set_special set_heap set_rlog set_out set_stopping
       dict heap code dbg sources input ds rs flows loops special cx nested meter insn_limit
       heap_limit stack_limit rlog out last_tok stopping];
  break_matches; intros Hx; discriminate Hx.

Lemma nolim_swap_data : P_nolim swap_data. Proof. nolim_prim2. Qed.
Lemma nolim_rot_data : P_nolim rot_data. Proof. nolim_prim2. Qed.
Lemma nolim_push_special p : P_nolim (push_special p). Proof. nolim_prim2. Qed.
Lemma nolim_pop_special : P_nolim pop_special. Proof. nolim_prim2. Qed.
Lemma nolim_get_var a : P_nolim (get_var a). Proof. nolim_prim2. Qed.
Lemma nolim_loop_set_items c : P_nolim (loop_set_items c). Proof. nolim_prim2. Qed.
Lemma nolim_print msg : P_nolim (print msg). Proof. nolim_prim2. Qed.
Lemma nolim_set_stopping b : P_nolim (modify (fun s => set_stopping s b)). Proof. nolim_prim2. Qed.
Lemma nolim_panic A : P_nolim (@panic A).
Proof. intros s p s' H. discriminate H. Qed.
Lemma nolim_get_bind B (k : state -> M B) : (forall s0, P_nolim (k s0)) -> P_nolim (bind get k).
Proof. intros H s p s' E. unfold bind, get in E. eapply H. exact E. Qed.

Ltac nolim_step2 :=
  cbv beta zeta;
  first
    [ apply nolim_ret | apply nolim_unsup | apply nolim_panic | (apply nolim_fail; discriminate)
    | apply nolim_pop_data | apply nolim_top_data | apply nolim_swap_data | apply nolim_rot_data
    | apply nolim_push_special | apply nolim_pop_special | apply nolim_get_var | apply nolim_set_var
    | apply nolim_loop_set_items | apply nolim_print | apply nolim_set_stopping
    | solve [ auto 2 with nolimdb nocore ]
    | lazymatch goal with
      | |- P_nolim (bind get _) => apply nolim_get_bind; intro
      | |- P_nolim (bind _ _) => apply nolim_bind; [ | intro ]
      | |- P_nolim (match ?x with _ => _ end) => destruct x
      | |- P_nolim (push_data _) => fail
      | |- P_nolim over_data => fail
      | |- P_nolim ?m => let h := head_of m in unfold h
      end ].
Ltac nolim_solve2 := repeat nolim_step2.

Lemma pure_pop_n : forall n, P_pure (pop_n n).
Proof. induction n; cbn [pop_n]; pure_solve. Qed.
#[export] Hint Resolve pure_pop_n : puredb.
Lemma pure_push_all : forall l, P_pure (push_all l).
Proof. induction l; cbn [push_all]; pure_solve. Qed.
#[export] Hint Resolve pure_push_all : puredb.
Lemma nolim_pop_n : forall n, P_nolim (pop_n n).
Proof. induction n; cbn [pop_n]; nolim_solve2. Qed.
#[export] Hint Resolve nolim_pop_n : nolimdb.

Lemma nolim_bitstr_concat : forall c, P_nolim (bitstr_concat c).
Proof.
  intro c. unfold bitstr_concat.
  destruct (value c); try (unfold type_not_supported; nolim_solve2; fail).
  destruct (bitstr_concat_vec 40 _ _) as [[b|k|] p] eqn:E; try (nolim_solve2; fail).
  apply nolim_fail. apply bitstr_concat_vec_kind in E. destruct E as [-> | ->]; discriminate.
Qed.
#[export] Hint Resolve nolim_bitstr_concat : nolimdb.

(* ---------- the compositional proof of [P_q] ---------- *)
Ltac q_solve :=
  cbv beta zeta;
  first
    [ solve [ apply q_of_nolim; nolim_solve2 ]
    | solve [ apply q_of_pure; pure_solve ]
    | lazymatch goal with
      | |- P_q (bind get _) => apply q_get_bind; intro; q_solve
      | |- P_q (bind _ _) => apply q_bind; [ solve [ pure_solve ] | intro; q_solve ]
      | |- P_q (match ?x with _ => _ end) => destruct x; q_solve
      | |- P_q ?m => let h := head_of m in unfold h; q_solve
      end ].

Lemma q_word_table : forall fo, Forall (fun nw => P_q (snd nw)) (word_table fo).
Proof.
  intro fo. unfold word_table.
  repeat (apply Forall_cons; [ cbn [snd]; q_solve | ]).
  apply Forall_nil.
Qed.

Lemma q_sized_word : forall fo name w, sized_word fo name = Some w -> P_q w.
Proof.
  intros fo name w H. unfold sized_word in H. cbv beta zeta in H.
  repeat match type of H with
         | context [if ?b then _ else _] =>
           destruct b; cbv beta iota in H;
           [ injection H as <-; q_solve | ]
         end.
  discriminate.
Qed.

Theorem native_q : forall fo w f, native_fn fo w = Some f -> P_q f.
Proof.
  intros fo w f H. unfold native_fn in H.
  destruct (table_find (word_table fo) w) eqn:E.
  - injection H as <-. eapply table_find_Forall with (P := fun m => P_q m); [ apply q_word_table | exact E ].
  - eapply q_sized_word; eauto.
Qed.

(* ---------- one instruction ---------- *)
Theorem limit_failure_hol : forall fo s p s',
  fetch_and_run (native_fn fo) s = RErr ELimit p s' ->
  heap s' = heap s /\ out s' = out s /\ stopping s' = stopping s /\ loops s' = loops s.
Proof.
  intros fo s p s' H.
  assert (G : hol s' = hol s).
  { assert (X : forall op s1,
                (exists w, op = ONative w) \/ push_only op = true \/ never_pushes op = true ->
                hol s1 = hol s ->
                exec_op (native_fn fo) (ip s) op s1 = RErr ELimit p s' -> hol s' = hol s).
    { intros op s1 Hcl E1 Hx. destruct Hcl as [[w ->]|[Hc|Hc]].
      - cbn [exec_op] in Hx. destruct (native_fn fo w) as [f|] eqn:E; [|discriminate Hx].
        unfold bind in Hx. destruct (f s1) as [u x|k q x| |] eqn:Ef; try discriminate Hx.
        injection Hx as -> -> ->. rewrite <- E1. eapply (native_q fo w f E). exact Ef.
      - apply (exec_op_push_only_limit fo) in Hx; [|exact Hc]. subst s'. exact E1.
      - exfalso. eapply exec_op_never_pushes; eauto. }
    destruct (far_cases (native_fn fo) s) as [(E0 & F)|[(E0 & E1 & F)|[(op & E0 & E1 & Nr & Ar & F)|[(name & E0 & E1 & E2 & F)|
                              [(name & e & E0 & E1 & E2 & E3 & F)|(name & e & E0 & E1 & E2 & E3 & F)]]]]];
      rewrite F in H; try discriminate.
    - injection H as <- <-. reflexivity.
    - eapply X; [apply op_class; exact Nr| |exact H]. reflexivity.
    - injection H as <- <-. reflexivity.
    - eapply X; [apply resolve_op_class| |exact H]. reflexivity. }
  unfold hol in G. injection G as G1 G2 G3 G4. auto.
Qed.
