(* VmReplayFailed.v: runs that END IN A FAILED STEP can be rewound and replayed (C02).

   n successful steps lead from s to sn; the next step fails (RErr) and leaves the machine in sf.
   - if the failed step logged changes before failing (log_len sn < log_len sf) the first
     backward step undoes exactly those partial changes (VmRev.rnext_undoes_failed_step_weak);
   - if it logged nothing, sf IS sn up to the meter and the captured output (failed_step_no_log);
   in both cases [failed_back sn sf + k] backward steps from sf reach the state of the original
   run at position n - k, and stepping forward again from there reproduces the k steps and then
   the same failure (same error kind, same payload, related state). *)
From Xeh Require Import Model.Prelude Model.Bits Model.Codec Model.Cell Model.Lexer Model.Fmt Model.Vm Model.Words.
From Xeh Require Import Proofs.VmFrame Proofs.VmRevBase Proofs.VmRevWords Proofs.VmRev
                        Proofs.VmReplayBase Proofs.VmReplayWords Proofs.VmReplay.
Local Notation length := List.length.

#[local] Arguments Z.add : simpl never.
#[local] Arguments Z.sub : simpl never.
#[local] Arguments Z.mul : simpl never.
#[local] Arguments Z.ltb : simpl never.
#[local] Arguments Z.leb : simpl never.
#[local] Arguments Z.eqb : simpl never.
#[local] Arguments Z.of_nat : simpl never.
#[local] Arguments Z.to_nat : simpl never.

(* number of backward steps that undo the failed step itself: 1 if it logged something *)
Definition failed_back (sn sf : state) : nat := if log_len sn <? log_len sf then 1 else 0.

Lemma rnexts_add i : forall j s,
  rnexts (i + j) s = match rnexts i s with Some t => rnexts j t | None => None end.
Proof.
  induction i; intros j s; cbn [rnexts Nat.add]; auto.
  destruct (rnext s) as [[] s1| | |]; auto.
Qed.

Section Failed.
  Variable fo : fops.
  Local Notation nf := (native_fn fo).

  (* ---------- the failed step alone ---------- *)
  (* what a failed step leaves of meter, limit and code *)
  Lemma failed_step_meter : forall s k p s',
    not_resolve s -> fetch_and_run nf s = RErr k p s' ->
    insn_limit s' = insn_limit s /\ code s' = code s /\
    (meter s' = meter s \/ (meter s' = meter s + 1)%Z).
  Proof.
    intros s k p s' Hn H.
    destruct (fetch_not_resolve nf s Hn) as [E | [E | [op [Eop E]]]]; rewrite E in H; try discriminate.
    - injection H as _ _ <-. auto.
    - pose proof (exec_op_mk fo (ip s) op (set_meter s (meter s + 1)%Z)) as L. rewrite H in L.
      cbn [res_all] in L. destruct L as (L1 & L2 & L3).
      cbn [set_meter meter insn_limit code] in L1, L2, L3. auto.
  Qed.

  (* every word other than [exit] leaves the about-to-stop flag alone, also when it fails *)
  Lemma failed_step_stopping_noexit : forall s k p s',
    not_resolve s -> fetch_and_run nf s = RErr k p s' ->
    nth_error (code s) (ip s) <> Some (ONative "exit") ->
    stopping s' = stopping s.
  Proof.
    intros s k p s' Hn H Hne.
    destruct (fetch_not_resolve nf s Hn) as [E | [E | [op [Eop E]]]]; rewrite E in H; try discriminate.
    { injection H as _ _ <-. reflexivity. }
    assert (Hk : ks (exec_op nf (ip s) op)).
    { apply exec_op_ks; [apply native_fn_ks | congruence]. }
    specialize (Hk (set_meter s (meter s + 1)%Z)). rewrite H in Hk. exact Hk.
  Qed.

  (* a failed step that logged nothing changed nothing (but the meter, the output, and possibly the
     about-to-stop flag) *)
  Lemma failed_step_no_log : forall s k p s',
    recording s = true -> wf_marks s -> not_resolve s ->
    fetch_and_run nf s = RErr k p s' -> log_len s' <= log_len s ->
    stopping s' = stopping s ->
    eq_rev s' s.
  Proof.
    intros s k p s' Hr Hw Hn H Hlen Hstop.
    destruct (fetch_not_resolve nf s Hn) as [E | [E | [op [Eop E]]]]; rewrite E in H; try discriminate.
    { injection H as _ _ <-. apply eq_rev_refl. }
    set (s1 := set_meter s (meter s + 1)%Z) in *.
    assert (Hr1 : recording s1 = true) by exact Hr.
    assert (Hw1 : wf_marks s1) by exact Hw.
    pose proof (exec_op_shape nf (ip s) op (nf_rev fo) s1 Hr1 Hw1) as Hs.
    rewrite H in Hs.
    destruct Hs as (l0 & es & A1 & A2 & A3 & A4 & A5 & A6).
    change (rlog s1) with (rlog s) in A1.
    unfold log_len in Hlen. rewrite A1, A2, app_length in Hlen.
    destruct es as [|r es]; [|cbn in Hlen; lia].
    specialize (A6 (out s') (rlog s') (stopping s')). rewrite norm_self in A6.
    cbn [undo_list] in A6. injection A6 as A6.
    rewrite A6. cbn [app] in A2. rewrite A2, Hstop.
    unfold eq_rev, erase_mo, norm, s1. destruct s; cbn in *; subst; reflexivity.
  Qed.

  (* both cases: [failed_back] backward steps undo the failed step *)
  Theorem failed_step_undone : forall s k p s',
    recording s = true -> log_ok s -> wf_marks s -> not_resolve s ->
    fetch_and_run nf s = RErr k p s' -> stopping s' = stopping s ->
    exists s'', rnexts (failed_back s s') s' = Some s'' /\ eq_rev s'' s.
  Proof.
    intros s k p s' Hr Hl Hw Hn H Hstop. unfold failed_back.
    destruct (log_len s <? log_len s') eqn:E.
    - apply Nat.ltb_lt in E.
      destruct (rnext_undoes_failed_step_weak fo s k p s' Hr Hl Hw Hn H E Hstop) as (s'' & Hx & He).
      exists s''. cbn [rnexts]. rewrite Hx. auto.
    - apply Nat.ltb_ge in E. exists s'. cbn [rnexts]. split; auto.
      eapply failed_step_no_log; eauto.
  Qed.

  (* ---------- rewinding a run that ended in a failed step ---------- *)
  Theorem rewind_failed : forall n k s sn e p sf,
    recording s = true -> log_ok s -> wf_marks s ->
    (forall m sm, m <= n -> steps nf m s = Some sm -> not_resolve sm) ->
    steps nf n s = Some sn ->
    fetch_and_run nf sn = RErr e p sf -> stopping sf = stopping sn ->
    k <= n ->
    exists s' sm, rnexts (failed_back sn sf + k) sf = Some s' /\
                  steps nf (n - k) s = Some sm /\ eq_rev s' sm.
  Proof.
    intros n k s sn e p sf Hr Hl Hw Hn Hs Hf Hstop Hk.
    destruct (steps_invariants fo n s sn Hr Hl Hw Hs) as (Ir & Il & Iw).
    assert (Inr : not_resolve sn) by (apply (Hn n); auto).
    destruct (failed_step_undone sn e p sf Ir Il Iw Inr Hf Hstop) as (s'' & Hx & He).
    assert (Hn' : forall m sm, m < n -> steps nf m s = Some sm -> not_resolve sm).
    { intros m sm Hm. apply Hn. lia. }
    destruct (rewind fo n k s sn Hr Hl Hw Hn' Hs Hk) as (t & sm & R1 & R2 & R3).
    destruct (rnexts_eq_rev k sn s'' t (eq_rev_sym _ _ He) R1) as (t' & R1' & R3').
    exists t', sm. rewrite rnexts_add, Hx. repeat split; auto.
    eapply eq_rev_trans; [apply eq_rev_sym; eauto | eauto].
  Qed.

  (* the two cases spelled out *)
  Corollary rewind_failed_logged : forall n k s sn e p sf,
    recording s = true -> log_ok s -> wf_marks s ->
    (forall m sm, m <= n -> steps nf m s = Some sm -> not_resolve sm) ->
    steps nf n s = Some sn ->
    fetch_and_run nf sn = RErr e p sf -> log_len sn < log_len sf -> stopping sf = stopping sn ->
    k <= n ->
    exists s' sm, rnexts (S k) sf = Some s' /\ steps nf (n - k) s = Some sm /\ eq_rev s' sm.
  Proof.
    intros n k s sn e p sf Hr Hl Hw Hn Hs Hf Hlen Hstop Hk.
    destruct (rewind_failed n k s sn e p sf Hr Hl Hw Hn Hs Hf Hstop Hk) as (s' & sm & A & B & C).
    unfold failed_back in A. apply Nat.ltb_lt in Hlen. rewrite Hlen in A. eauto.
  Qed.

  Corollary rewind_failed_nolog : forall n k s sn e p sf,
    recording s = true -> log_ok s -> wf_marks s ->
    (forall m sm, m <= n -> steps nf m s = Some sm -> not_resolve sm) ->
    steps nf n s = Some sn ->
    fetch_and_run nf sn = RErr e p sf -> log_len sf <= log_len sn -> stopping sf = stopping sn ->
    k <= n ->
    eq_rev sf sn /\
    exists s' sm, rnexts k sf = Some s' /\ steps nf (n - k) s = Some sm /\ eq_rev s' sm.
  Proof.
    intros n k s sn e p sf Hr Hl Hw Hn Hs Hf Hlen Hstop Hk.
    destruct (steps_invariants fo n s sn Hr Hl Hw Hs) as (Ir & Il & Iw).
    split; [eapply failed_step_no_log; eauto|].
    destruct (rewind_failed n k s sn e p sf Hr Hl Hw Hn Hs Hf Hstop Hk) as (s' & sm & A & B & C).
    unfold failed_back in A. apply Nat.ltb_ge in Hlen. rewrite Hlen in A. eauto.
  Qed.

  (* ---------- replay, with the meter made explicit ---------- *)
  Lemma replay_steps_nr_meter : forall m a b a',
    eq_rev a b -> meter_ok (Z.of_nat m) b ->
    (forall i ai, i < m -> steps nf i a = Some ai -> not_resolve ai) ->
    steps nf m a = Some a' ->
    exists b', steps nf m b = Some b' /\ eq_rev a' b' /\
               meter b' = (meter b + Z.of_nat m)%Z /\ insn_limit b' = insn_limit b.
  Proof.
    induction m; intros a b a' E Hm Hn H; cbn [steps] in *.
    - injection H as <-. exists b. repeat split; auto. lia.
    - destruct (fetch_and_run nf a) as [[] a1| | |] eqn:Ea; try discriminate.
      assert (Hna : not_resolve a) by (apply (Hn 0); [lia | reflexivity]).
      destruct (step_transfer fo a b a1 E Ea) as (b1 & Eb & E1).
      { right. split; auto. eapply meter_ok_le; eauto. lia. }
      rewrite Eb.
      destruct (step_meter_nr fo b b1 (eq_rev_not_resolve _ _ E Hna) Eb) as (B1 & B2 & _).
      destruct (IHm a1 b1 a' E1) as (b' & S1 & S2 & S3 & S4); auto.
      + eapply meter_ok_transfer; eauto. lia.
      + intros i ai Hi Hs. apply (Hn (S i)); [lia|]. cbn [steps]. rewrite Ea. exact Hs.
      + exists b'. repeat split; auto; [lia | congruence].
  Qed.

  (* THE COMBINED THEOREM.  A run of n successful steps followed by a failing step, rewound from
     the failed state by failed_back + k backward steps (k <= n), then stepped forward k times:
     the machine is again in the state before the failing step, and the next step fails again
     with the same error kind and payload in a state related to sf.  The meter is not rewound,
     so the replay needs room for k + 1 metered instructions counted from sf (which also says
     that the original failure was not the instruction limit itself). *)
  Theorem rewind_replay_failed : forall n k s sn e p sf,
    recording s = true -> log_ok s -> wf_marks s ->
    (forall m sm, m <= n -> steps nf m s = Some sm -> not_resolve sm) ->
    steps nf n s = Some sn ->
    fetch_and_run nf sn = RErr e p sf -> stopping sf = stopping sn ->
    k <= n -> meter_ok (Z.of_nat k + 1) sf ->
    exists s' sm b' sf',
      rnexts (failed_back sn sf + k) sf = Some s' /\
      steps nf (n - k) s = Some sm /\ eq_rev s' sm /\
      steps nf k s' = Some b' /\ eq_rev b' sn /\
      fetch_and_run nf b' = RErr e p sf' /\ eq_rev sf' sf.
  Proof.
    intros n k s sn e p sf Hr Hl Hw Hn Hs Hf Hstop Hk Hm.
    destruct (rewind_failed n k s sn e p sf Hr Hl Hw Hn Hs Hf Hstop Hk) as (s' & sm & A & B & C).
    assert (Inr : not_resolve sn) by (apply (Hn n); auto).
    destruct (failed_step_meter sn e p sf Inr Hf) as (F1 & _ & F3).
    destruct (rnexts_meter_out _ _ _ A) as [M1 _].
    (* the limit is the same everywhere *)
    assert (L1 : insn_limit sm = insn_limit s) by (eapply steps_insn_limit; eauto).
    assert (L2 : insn_limit sn = insn_limit s) by (eapply steps_insn_limit; eauto).
    assert (L3 : insn_limit s' = insn_limit sf).
    { rewrite (f_equal insn_limit C : insn_limit s' = insn_limit sm). congruence. }
    (* the k steps from sm to sn *)
    assert (Hk' : steps nf k sm = Some sn).
    { replace n with ((n - k) + k) in Hs by lia. rewrite steps_add, B in Hs. exact Hs. }
    assert (Hnk : forall i ai, i < k -> steps nf i sm = Some ai -> not_resolve ai).
    { intros i ai Hi Hsi. apply (Hn ((n - k) + i)); [lia|]. rewrite steps_add, B. exact Hsi. }
    destruct (replay_steps_nr_meter k sm s' sn (eq_rev_sym _ _ C)) as (b' & S1 & S2 & S3 & S4); auto.
    { eapply meter_ok_transfer; [exact Hm | exact L3 | lia]. }
    assert (Ma : meter_ok 1 sn).
    { eapply meter_ok_transfer; [exact Hm | congruence | lia]. }
    assert (Mb : meter_ok 1 b').
    { eapply meter_ok_transfer; [exact Hm | congruence | lia]. }
    pose proof (step_congruence_nr fo sn b' S2 Inr Ma Mb) as G.
    rewrite Hf in G. unfold res_rel_cases in G.
    destruct (fetch_and_run nf b') as [|e' p' t| |] eqn:Eb; try contradiction.
    destruct G as (<- & <- & G).
    exists s', sm, b', t. repeat split; auto using eq_rev_sym.
  Qed.

  (* ---------- the same with checkable hypotheses ---------- *)
  (* no Resolve instruction in the code, no instruction limit, the failing word is not [exit] *)
  Theorem rewind_replay_failed_plain : forall n k s sn e p sf,
    recording s = true -> log_ok s -> wf_marks s -> resolve_freeb s = true -> insn_limit s = None ->
    steps nf n s = Some sn ->
    fetch_and_run nf sn = RErr e p sf ->
    nth_error (code sn) (ip sn) <> Some (ONative "exit") ->
    k <= n ->
    exists s' sm b' sf',
      rnexts (failed_back sn sf + k) sf = Some s' /\
      steps nf (n - k) s = Some sm /\ eq_rev s' sm /\
      steps nf k s' = Some b' /\ eq_rev b' sn /\
      fetch_and_run nf b' = RErr e p sf' /\ eq_rev sf' sf.
  Proof.
    intros n k s sn e p sf Hr Hl Hw Hf Hlim Hs Hfail Hne Hk.
    assert (Hn : forall m sm, m <= n -> steps nf m s = Some sm -> not_resolve sm).
    { intros m sm _ Hm. eapply resolve_free_steps; eauto. apply resolve_freeb_ok. exact Hf. }
    assert (Inr : not_resolve sn) by (apply (Hn n); auto).
    eapply rewind_replay_failed; eauto.
    - eapply failed_step_stopping_noexit; eauto.
    - apply meter_ok_nolimit.
      destruct (failed_step_meter sn e p sf Inr Hfail) as (F1 & _).
      rewrite F1, (steps_insn_limit fo n s sn Hs). exact Hlim.
  Qed.

  (* after the failed step has been undone the machine can be moved freely along the run again:
     any interleaving of forward and backward moves within positions 0..n (VmReplay.walk_tracks) *)
  Theorem walk_after_failed : forall n s sn e p sf s0 w q,
    recording s = true -> log_ok s -> wf_marks s ->
    (forall m sm, m <= n -> steps nf m s = Some sm -> not_resolve sm) ->
    steps nf n s = Some sn ->
    fetch_and_run nf sn = RErr e p sf -> stopping sf = stopping sn ->
    rnexts (failed_back sn sf) sf = Some s0 ->
    meter_ok (Z.of_nat (fwd_count w)) s0 ->
    walk_pos n w n = Some q ->
    exists cur sq, walk nf w s0 = Some cur /\ steps nf q s = Some sq /\ eq_rev cur sq /\
                   recording cur = true /\ log_ok cur /\ wf_marks cur.
  Proof.
    intros n s sn e p sf s0 w q Hr Hl Hw Hn Hs Hf Hstop H0 Hm Hq.
    destruct (steps_invariants fo n s sn Hr Hl Hw Hs) as (Ir & Il & Iw).
    assert (Inr : not_resolve sn) by (apply (Hn n); auto).
    destruct (failed_step_undone sn e p sf Ir Il Iw Inr Hf Hstop) as (s'' & Hx & He).
    rewrite H0 in Hx. injection Hx as <-.
    assert (Hn' : forall m sm, m < n -> steps nf m s = Some sm -> not_resolve sm).
    { intros m sm Hlt. apply Hn. lia. }
    eapply (walk_tracks fo n s sn Hr Hl Hw Hn' Hs w n q sn s0); auto.
  Qed.
End Failed.
