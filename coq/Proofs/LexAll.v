(* lex_all / lex_string: totality, tiling, progress, word text; the end position and the
   absence of whitespace in words under UTF-8 validity. *)
From Xeh Require Import Model.Prelude Model.Bits Model.Cell Model.Lexer.
From Xeh Require Import Proofs.LexLoc Proofs.LexBasic Proofs.LexNext.
From Coq Require Import ZifyBool ZifyNat ZifyN.
Local Open Scope string_scope.

Definition Inv (s0 : string) (l : lexst) : Prop :=
  lrest l = str_drop (lpos l) s0 /\ llen l = String.length s0.

Lemma Inv_new s : Inv s (lex_new s).
Proof. split; reflexivity. Qed.

Lemma drop_nonempty_lt p s : str_drop p s <> "" -> p < String.length s.
Proof.
  intros H. destruct (Nat.lt_ge_cases p (String.length s)) as [L|L]; [exact L|].
  exfalso. apply H. apply str_drop_all. exact L.
Qed.

Lemma step_inv s0 l t l' : Inv s0 l -> lex_next l = (t, l') ->
  Inv s0 l' /\ lstart l' = lpos l /\ lpos l <= lpos l' /\
  (is_final t = false -> lpos l < lpos l' /\ lpos l < String.length s0) /\
  (forall w, t = TWord w -> w = substring_of s0 (lpos l) (lpos l')).
Proof.
  intros [I1 I2] H. destruct (lex_next_spec l t l' H) as (N1 & N2 & N3 & N4).
  destruct N3 as [(E1 & E2 & E3 & E4)|(A & P & _ & _)].
  - assert (Hlt : lpos l < String.length s0) by (apply drop_nonempty_lt; rewrite <- I1; exact E4).
    split; [|split; [exact N1|split; [lia|split]]].
    + split; [|congruence]. rewrite E2, E3, I2. symmetry. apply str_drop_all. lia.
    + intros Hf. destruct t; discriminate.
    + intros w ->. discriminate.
  - destruct A as [A1 A2].
    split; [|split; [exact N1|split; [exact A1|split]]].
    + split; [|congruence]. rewrite A2, I1, str_drop_drop. f_equal. lia.
    + intros Hf. destruct (P Hf) as [P1 P2]. split; [exact P1|].
      apply drop_nonempty_lt. rewrite <- I1. exact P2.
    + intros w Ew. destruct (N4 w Ew) as [X _]. rewrite X. unfold substring_of. rewrite I1. reflexivity.
Qed.

Lemma lex_all_S f l :
  lex_all (S f) l =
  let '(t, l') := lex_next l in
  if is_final t then [(t, lstart l', lpos l')] else (t, lstart l', lpos l') :: lex_all f l'.
Proof. cbn [lex_all]. destruct (lex_next l) as [t l']. destruct t; reflexivity. Qed.

Definition nonfinal (x : tok * nat * nat) : Prop := is_final (fst (fst x)) = false.

Lemma lex_all_main s0 : forall fuel l, Inv s0 l -> String.length s0 - lpos l < fuel ->
  (exists pre t a b, lex_all fuel l = (pre ++ [(t, a, b)])%list /\ is_final t = true /\
                     Forall (fun x => is_final (fst (fst x)) = false) pre) /\
  tiles (lpos l) (lex_all fuel l) /\
  (forall t a b, In (t, a, b) (lex_all fuel l) -> is_final t = false -> a < b) /\
  (forall w a b, In (TWord w, a, b) (lex_all fuel l) -> w = substring_of s0 a b).
Proof.
  induction fuel as [|f IH]; intros l HI Hf; [lia|].
  rewrite lex_all_S. destruct (lex_next l) as [t l'] eqn:Hn.
  destruct (step_inv s0 l t l' HI Hn) as (I' & S1 & S2 & S3 & S4).
  destruct (is_final t) eqn:Et.
  - split; [|split; [|split]].
    + exists [], t, (lstart l'), (lpos l'). split; [reflexivity|]. split; [exact Et|constructor].
    + cbn [tiles]. split; [exact S1|]. split; [exact S2|exact I].
    + intros t1 a b [E|[]] Hf1. injection E as <- <- <-. congruence.
    + intros w a b [E|[]]. injection E as E1 <- <-. rewrite S1. apply S4. exact E1.
  - destruct (S3 eq_refl) as [P1 P2].
    assert (Hf' : String.length s0 - lpos l' < f) by lia.
    destruct (IH l' I' Hf') as ((pre & t1 & a & b & Q1 & Q2 & Q3) & T & Pr & W).
    split; [|split; [|split]].
    + exists ((t, lstart l', lpos l') :: pre), t1, a, b. rewrite Q1. split; [reflexivity|].
      split; [exact Q2|]. constructor; [exact Et|exact Q3].
    + cbn [tiles]. split; [exact S1|]. split; [exact S2|exact T].
    + intros t2 a2 b2 [E|Hin] Hf2.
      * injection E as <- <- <-. lia.
      * eapply Pr; eassumption.
    + intros w a2 b2 [E|Hin].
      * injection E as E1 <- <-. rewrite S1. apply S4. exact E1.
      * eapply W; eassumption.
Qed.

Lemma lex_all_valid s0 : forall fuel l, Inv s0 l ->
  valid_go (lrest l) 0 = true -> lpos l + String.length (lrest l) = llen l ->
  (forall a b, In (TEnd, a, b) (lex_all fuel l) -> a = String.length s0 /\ b = String.length s0) /\
  (forall w a b, In (TWord w, a, b) (lex_all fuel l) -> no_ws w = true).
Proof.
  induction fuel as [|f IH]; intros l HI Hv Hx; [split; intros; contradiction|].
  rewrite lex_all_S. destruct (lex_next l) as [t l'] eqn:Hn.
  destruct (step_inv s0 l t l' HI Hn) as (I' & S1 & S2 & S3 & S4).
  destruct (lex_next_spec l t l' Hn) as (N1 & N2 & N3 & N4).
  destruct HI as [I1 I2].
  destruct (is_final t) eqn:Et.
  - split.
    + intros a b [E|[]]. injection E as -> <- <-.
      destruct N3 as [(E1 & _)|(A & _ & Z & V)]; [discriminate|].
      specialize (Z eq_refl). destruct (V Hv eq_refl) as [V1 _].
      apply advx_len in V1. rewrite Z in *. cbn [String.length] in *. lia.
    + intros w a b [E|[]]. injection E as -> <- <-. discriminate.
  - assert (Hne : is_err t = false) by (destruct t; try reflexivity; discriminate).
    destruct N3 as [(E1 & _)|(A & _ & Z & V)]; [congruence|].
    destruct (V Hv Hne) as [V1 V2]. apply advx_len in V1.
    destruct (IH l' I' V2) as [R1 R2]; [lia|].
    split.
    + intros a b [E|Hin]; [injection E as -> <- <-; discriminate|]. eapply R1; exact Hin.
    + intros w a b [E|Hin].
      * injection E as E1 <- <-. destruct (N4 w E1) as [_ X]. apply X. exact Hv.
      * eapply R2; exact Hin.
Qed.

(* ---------- the statements about lex_string ---------- *)

Lemma lex_total : forall s, exists pre t a b,
  lex_string s = (pre ++ [(t, a, b)])%list /\ is_final t = true /\
  Forall (fun x => is_final (fst (fst x)) = false) pre.
Proof.
  intros s. unfold lex_string.
  destruct (lex_all_main s (S (String.length s)) (lex_new s) (Inv_new s)) as (H & _).
  - cbn [lex_new lpos]. lia.
  - exact H.
Qed.

Lemma lex_tiles : forall s, tiles 0 (lex_string s).
Proof.
  intros s. unfold lex_string.
  destruct (lex_all_main s (S (String.length s)) (lex_new s) (Inv_new s)) as (_ & H & _).
  - cbn [lex_new lpos]. lia.
  - exact H.
Qed.

Lemma lex_progress : forall s t a b,
  In (t, a, b) (lex_string s) -> is_final t = false -> a < b.
Proof.
  intros s. unfold lex_string.
  destruct (lex_all_main s (S (String.length s)) (lex_new s) (Inv_new s)) as (_ & _ & H & _).
  - cbn [lex_new lpos]. lia.
  - exact H.
Qed.

(* the text of a word token is the text of its span: for every byte string *)
Lemma word_text_substring : forall s w a b,
  In (TWord w, a, b) (lex_string s) -> w = substring_of s a b.
Proof.
  intros s. unfold lex_string.
  destruct (lex_all_main s (S (String.length s)) (lex_new s) (Inv_new s)) as (_ & _ & _ & H).
  - cbn [lex_new lpos]. lia.
  - exact H.
Qed.

(* corrected statements: valid UTF-8 (every Rust str) *)
Lemma lex_reaches_end_weak : forall s pre a b, valid_utf8 s = true ->
  lex_string s = (pre ++ [(TEnd, a, b)])%list -> a = String.length s /\ b = String.length s.
Proof.
  intros s pre a b Hv E. unfold lex_string in E.
  destruct (lex_all_valid s (S (String.length s)) (lex_new s) (Inv_new s)) as [H _].
  - exact Hv.
  - reflexivity.
  - apply (H a b). rewrite E. apply in_or_app. right. left. reflexivity.
Qed.

Lemma word_text_weak : forall s w a b, valid_utf8 s = true ->
  In (TWord w, a, b) (lex_string s) -> w = substring_of s a b /\ no_ws w = true.
Proof.
  intros s w a b Hv Hin. split; [eapply word_text_substring; exact Hin|].
  unfold lex_string in Hin.
  destruct (lex_all_valid s (S (String.length s)) (lex_new s) (Inv_new s)) as [_ H].
  - exact Hv.
  - reflexivity.
  - eapply H. exact Hin.
Qed.

(* the unrestricted statements are false for byte strings that are not UTF-8:
   a lone lead byte announces a character wider than the rest of the text *)
Theorem lex_reaches_end_counterexample :
  let s := String (ascii_of_N 195) "" in
  lex_string s = ([(TWord s, 0, 2)] ++ [(TEnd, 2, 2)])%list /\ String.length s = 1.
Proof. vm_compute. split; reflexivity. Qed.

Theorem word_text_counterexample :
  let s := String (ascii_of_N 195) " " in
  In (TWord s, 0, 2) (lex_string s) /\ no_ws s = false.
Proof. vm_compute. split; [left; reflexivity|reflexivity]. Qed.
