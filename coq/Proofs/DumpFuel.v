(* DumpFuel.v: the line loop of the hex dump always ends within its fuel on a well-formed value, so `dump` / `dump-at`
   never leave the model ([RUnsup]) for a well-formed input: with DumpUtf8.v they either print or fail cleanly. *)
From Xeh Require Import Model.Prelude Model.Bits Model.Codec Model.Cell Model.Lexer Model.Fmt Model.Vm Model.Words.
From Xeh Require Import Proofs.BitsBasic Proofs.BitsLists Proofs.BitsMirror Proofs.DumpUtf8.
From Coq Require Import Lia ZifyBool ZifyN ZifyNat.
Local Notation length := List.length.

Lemma list_sum_app_nat a b : list_sum (a ++ b) = list_sum a + list_sum b.
Proof. apply list_sum_app. Qed.

Lemma sum_split (it : list (N * nat)) n :
  list_sum (map snd it) = list_sum (map snd (firstn n it)) + list_sum (map snd (skipn n it)).
Proof. rewrite <- list_sum_app_nat, <- map_app, firstn_skipn. reflexivity. Qed.

Lemma pos_sum_ge_length (it : list (N * nat)) :
  Forall (fun g => 0 < snd g) it -> length it <= list_sum (map snd it).
Proof.
  induction 1 as [|g it Hg _ IH]; [cbn; lia|]. cbn [map length].
  change (list_sum (snd g :: map snd it)) with (snd g + list_sum (map snd it)). lia.
Qed.

Lemma dump_lines_some : forall fuel it pos,
  Forall (fun g => 0 < snd g) it -> length it < fuel ->
  dump_lines fuel pos (pos + list_sum (map snd it)) it <> None.
Proof.
  induction fuel as [|fuel IH]; intros it pos Hp Hf; [lia|].
  cbn [dump_lines].
  destruct (Nat.ltb_spec pos (pos + list_sum (map snd it))) as [Hlt|Hge]; [|discriminate].
  destruct (dump_row 8 pos it) as [[[[b h] a] p] i] eqn:E.
  destruct (dump_row_advance _ _ _ _ _ _ _ _ E) as (Hi & Hpp & _).
  assert (Hne : it <> []) by (intro C; subst it; cbn in Hlt; lia).
  assert (Hlen : length i < fuel).
  { subst i. rewrite skipn_length. destruct it; [contradiction|]. cbn [length] in *. lia. }
  assert (Hpi : Forall (fun g => 0 < snd g) i).
  { subst i. rewrite <- (firstn_skipn 8 it) in Hp. apply Forall_app in Hp. apply Hp. }
  assert (He : pos + list_sum (map snd it) = p + list_sum (map snd i)).
  { subst p i. rewrite (sum_split it 8). lia. }
  rewrite He. specialize (IH i p Hpi Hlen).
  destruct (dump_lines fuel p (p + list_sum (map snd i)) i); [discriminate|contradiction].
Qed.

Lemma chunks8_nonempty {A} : forall fuel (l : list A), Forall (fun g => g <> []) (chunks8 fuel l).
Proof.
  induction fuel as [|fuel IH]; intros l; cbn [chunks8]; [constructor|].
  destruct l as [|x l]; [constructor|]. constructor; [cbn; discriminate|apply IH].
Qed.

Lemma length_concat_sum {A} (ls : list (list A)) : List.length (List.concat ls) = list_sum (map (@List.length A) ls).
Proof. induction ls as [|l ls IH]; cbn; [reflexivity|]. rewrite app_length, IH. reflexivity. Qed.

Lemma iter8_groups : forall c, wf c ->
  Forall (fun g => 0 < snd g) (iter8 c) /\ list_sum (map snd (iter8 c)) = clen c.
Proof.
  intros c Hw. rewrite (iter8_abs c Hw). split.
  - apply Forall_map. unfold chunk8.
    eapply Forall_impl; [|apply chunks8_nonempty]. intros g Hg. cbn. destruct g; [contradiction|cbn; lia].
  - rewrite map_map. cbn [grp snd]. rewrite <- length_concat_sum, concat_chunk8. apply abs_length.
Qed.

Theorem fmt_bitstr_dump_total : forall c, wf c -> fmt_bitstr_dump c <> None.
Proof.
  intros c Hw. unfold fmt_bitstr_dump. destruct (iter8_groups c Hw) as (Hp & Hs).
  assert (Hend : cend c = cstart c + list_sum (map snd (iter8 c))).
  { rewrite Hs. unfold clen. destruct Hw as (Hle & _). lia. }
  rewrite Hend at 1. apply dump_lines_some; [exact Hp|].
  pose proof (pos_sum_ge_length _ Hp). lia.
Qed.

Definition input_wf (s : state) : Prop :=
  forall c b, nth_error (heap s) R_INPUT = Some c -> value c = CBits b -> wf b.

Lemma dump_bitstr_at_in_model : forall start s, input_wf s -> dump_bitstr_at start s <> RUnsup.
Proof.
  intros start s Hin. unfold dump_bitstr_at, current_input, bind, get_var, m_bits, ret, fail, print, unsup.
  destruct (mode_eqb (cmode (cx s)) MMeta); [discriminate|].
  destruct (nth_error (heap s) R_INPUT) as [c|] eqn:Ec; [|discriminate].
  destruct (value c) eqn:Ev; try discriminate.
  match goal with |- context [if ?b then _ else _] => destruct b eqn:Eb end; [|discriminate].
  match goal with |- context [fmt_bitstr_dump ?x] => destruct (fmt_bitstr_dump x) as [t|] eqn:Ef end; [discriminate|].
  exfalso. revert Ef. apply fmt_bitstr_dump_total.
  specialize (Hin c _ Ec Ev). destruct Hin as (H1 & H2 & H3).
  apply andb_prop in Eb. destruct Eb as [Eb E3]. apply andb_prop in Eb. destruct Eb as [E1 E2].
  unfold wf. cbn [cstart cend cdata]. repeat split; [lia|lia|exact H3].
Qed.

Lemma w_dump_in_model : forall s, input_wf s -> w_dump s <> RUnsup.
Proof.
  intros s Hin. unfold w_dump, current_offset, bind, get_var, m_usize, ret, fail.
  destruct (mode_eqb (cmode (cx s)) MMeta); [discriminate|].
  destruct (nth_error (heap s) R_OFFSET) as [c|]; [|discriminate].
  destruct (value c); try discriminate.
  destruct (_ <? 0)%Z; [discriminate|]. destruct (in_usize _); [|discriminate].
  apply dump_bitstr_at_in_model. exact Hin.
Qed.

Lemma w_dump_at_in_model : forall s, input_wf s -> w_dump_at s <> RUnsup.
Proof.
  intros s Hin. unfold w_dump_at, with_size, bind, pop_data.
  destruct (ds s) as [|c rest]; [discriminate|].
  destruct (ds_len (cx s) <? length (c :: rest))%nat; [|discriminate].
  unfold m_usize, ret, fail.
  destruct (value c); try discriminate.
  destruct (_ <? 0)%Z; [discriminate|]. destruct (in_usize _); [|discriminate].
  apply dump_bitstr_at_in_model.
  unfold input_wf in *. intros c0 b H1 H2. apply (Hin c0 b); [|exact H2].
  unfold add_rstep in H1. destruct (rlog (set_ds s rest)); exact H1.
Qed.
