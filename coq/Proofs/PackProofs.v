(* PackProofs.v: binary construction is the inverse of binary parsing (lemmas behind
   Props/C07.v). *)
From Xeh Require Import Model.Prelude Model.Bits Model.Codec Model.Cell Model.Lexer Model.Fmt
                        Model.Vm Model.Words.
From Xeh Require Import Proofs.BitsBasic Proofs.BitsLists Proofs.BitsMirror Proofs.BitsProofs
                        Proofs.CodecBasic Proofs.CodecProofs Proofs.VmStep Proofs.CursorDefs
                        Proofs.CursorProofs Proofs.CursorProgress Proofs.PackDefs.
From Coq Require Import ZifyBool ZifyNat ZifyN.
Local Notation length := List.length.

#[local] Arguments Z.add : simpl never.
#[local] Arguments Z.sub : simpl never.
#[local] Arguments Z.mul : simpl never.
#[local] Arguments Z.ltb : simpl never.
#[local] Arguments Z.leb : simpl never.
#[local] Arguments Z.eqb : simpl never.
#[local] Arguments Z.of_nat : simpl never.
#[local] Arguments Z.to_nat : simpl never.
#[local] Arguments Z.pow : simpl never.

(* ---------- packed fields: well-formed, of the field's width ---------- *)
Lemma from_bytes_wf d : Forall (fun x => (x < 256)%N) d ->
  wf (from_bytes d) /\ clen (from_bytes d) = 8 * length d.
Proof.
  intros Hd. unfold from_bytes. split.
  - apply wf_mk; [lia|lia|exact Hd].
  - unfold clen. cbn [cstart cend]. lia.
Qed.

Lemma bytes_of_string_cons c r : bytes_of_string (String c r) = byte_of c :: bytes_of_string r.
Proof. reflexivity. Qed.

Lemma bytes_of_string_lt : forall t, Forall (fun x => (x < 256)%N) (bytes_of_string t).
Proof.
  induction t as [|c r IH]; [constructor|]. rewrite bytes_of_string_cons. constructor; [|exact IH].
  unfold byte_of. apply N_ascii_bounded.
Qed.

Lemma fbytes_lt k o z :
  Forall (fun x => (x < 256)%N) (match o with Big => Z_to_be_bytes k z | Little => rev (Z_to_be_bytes k z) end).
Proof.
  apply Forall_forall. intros x Hx. destruct o.
  - apply in_rev in Hx. eapply Z_to_be_bytes_lt; eauto.
  - eapply Z_to_be_bytes_lt; eauto.
Qed.

Lemma from_fbits_wf k o z : wf (from_fbits k o z) /\ clen (from_fbits k o z) = 8 * k.
Proof.
  unfold from_fbits. destruct (from_bytes_wf _ (fbytes_lt k o z)) as (Hw & Hl).
  split; [exact Hw|]. rewrite Hl. destruct o; rewrite ?rev_length, Z_to_be_bytes_length; reflexivity.
Qed.

Section PackFacts.
  Variable fo : fops.

  Lemma pack_field_wf f : field_ok f -> wf (pack_field fo f) /\ clen (pack_field fo f) = width f.
  Proof.
    destruct f as [w sg o v|o v|o v|b|t|l]; cbn [pack_field width field_ok]; intros Hok.
    - apply from_int_wf.
    - apply (from_fbits_wf 4).
    - apply (from_fbits_wf 8).
    - auto.
    - apply from_bytes_wf. apply bytes_of_string_lt.
    - apply from_bytes_wf. exact Hok.
  Qed.

  Lemma field_bits_length f : field_ok f -> length (field_bits fo f) = width f.
  Proof. intros H. unfold field_bits. rewrite abs_length. apply pack_field_wf. exact H. Qed.

  Lemma fields_bits_length fs : Forall field_ok fs -> length (fields_bits fo fs) = total_width fs.
  Proof.
    induction 1 as [|f r Hf Hr IH]; [reflexivity|].
    unfold fields_bits in *. cbn [flat_map total_width fold_right]. rewrite app_length, IH.
    rewrite field_bits_length by exact Hf. reflexivity.
  Qed.

  Lemma total_width_app a b : total_width (a ++ b) = total_width a + total_width b.
  Proof.
    induction a as [|f r IH]; [reflexivity|].
    change (total_width ((f :: r) ++ b)) with (width f + total_width (r ++ b)).
    change (total_width (f :: r)) with (width f + total_width r). lia.
  Qed.

  Lemma fields_bits_app a b : fields_bits fo (a ++ b) = (fields_bits fo a ++ fields_bits fo b)%list.
  Proof. unfold fields_bits. apply flat_map_app. Qed.

  (* ---------- concatenation ---------- *)
  Lemma pack_from : forall fs acc, Forall field_ok fs -> wf acc ->
    let r := fold_left (fun acc f => Bits.append false acc (pack_field fo f)) fs acc in
    wf r /\ abs r = (abs acc ++ fields_bits fo fs)%list.
  Proof.
    induction fs as [|f r IH]; intros acc Hok Hacc; cbv zeta; cbn [fold_left].
    - split; [exact Hacc|]. unfold fields_bits. cbn [flat_map]. rewrite app_nil_r. reflexivity.
    - inversion Hok as [|? ? Hf Hr]; subst.
      destruct (pack_field_wf f Hf) as (Hfw & _).
      destruct (append_spec false acc (pack_field fo f) Hacc Hfw) as (Hw1 & Ha1).
      destruct (IH _ Hr Hw1) as (Hw2 & Ha2). split; [exact Hw2|].
      rewrite Ha2, Ha1. unfold fields_bits. cbn [flat_map]. rewrite <- app_assoc. reflexivity.
  Qed.

  Lemma empty_wf : wf (mkcbs 0 0 []) /\ abs (mkcbs 0 0 []) = [].
  Proof. split; [apply wf_mk; [lia|cbn; lia|constructor]|reflexivity]. Qed.

  (* pack_len *)
  Theorem pack_spec fs : Forall field_ok fs ->
    wf (pack fo fs) /\ abs (pack fo fs) = fields_bits fo fs /\ clen (pack fo fs) = total_width fs.
  Proof.
    intros Hok. destruct empty_wf as (He & Ha).
    destruct (pack_from fs _ Hok He) as (Hw & Hab). rewrite Ha in Hab. cbn [app] in Hab.
    split; [exact Hw|]. split; [exact Hab|].
    rewrite <- abs_length. unfold pack. rewrite Hab. apply fields_bits_length. exact Hok.
  Qed.
End PackFacts.

(* ---------- the packing words ---------- *)
Lemma wp_behaves' (m : M unit) s (Q : state -> Prop) (E : ekind -> state -> Prop) :
  wp m s (fun _ s' => Q s') (fun k _ s' => E k s') False -> behaves (m s) Q E.
Proof. unfold wp, behaves. destruct (m s); auto. Qed.

Definition packed_post (s s' : state) (args : nat) (P : list cell -> cbs -> Prop) : Prop :=
  exists used rest b, ds s = used ++ rest /\ length used = args /\ P used b /\
                      ds s' = CBits b :: rest /\ heap s' = heap s /\ sim s s'.

Section PackWords.
  Variable fo : fops.
  Variable s : state.

  (* v (on the stack) packed into n bits *)
  Lemma pack_int_gen n o s1 d pre (Q : unit -> state -> Prop) (U : Prop) :
    st s s1 d (heap s) -> ds s = pre ++ d -> ((pack_limit < n)%Z -> U) ->
    (forall c r v s', d = c :: r -> value c = CInt v -> (n <= pack_limit)%Z ->
                      st s s' (CBits (from_int v (Z.to_nat n) o) :: r) (heap s) -> Q tt s') ->
    wp (pack_int n o) s1 Q (EFrame s (S (length pre))) U.
  Proof.
    intros Hst Hpre Hn HQ. unfold pack_int. apply wp_bind. eapply wp_pop_data; eauto.
    - intros c r s2 Hd Hs2. apply wp_bind. apply wp_m_xint.
      + intros v Hv. destruct (Z.ltb_spec pack_limit n); [apply wp_unsup; auto|].
        eapply wp_push_data; eauto.
        intros _. eapply (fframe_intro s _ _ r (pre ++ [c])); eauto.
        * rewrite Hpre, Hd, <- app_assoc. reflexivity.
        * rewrite app_length. cbn [length]. lia.
      + intros _. eapply (fframe_intro s _ _ r (pre ++ [c])); eauto.
        * rewrite Hpre, Hd, <- app_assoc. reflexivity.
        * rewrite app_length. cbn [length]. lia.
    - eapply (fframe_intro s _ _ d pre); eauto.
  Qed.

  Lemma pack_float_gen n o s1 d pre (Q : unit -> state -> Prop) :
    st s s1 d (heap s) -> ds s = pre ++ d ->
    (forall c r v s', d = c :: r -> value c = CReal v -> n = 32%Z ->
                      st s s' (CBits (from_fbits 4 o (f_to_f32 fo v)) :: r) (heap s) -> Q tt s') ->
    (forall c r v s', d = c :: r -> value c = CReal v -> n = 64%Z ->
                      st s s' (CBits (from_fbits 8 o v) :: r) (heap s) -> Q tt s') ->
    wp (pack_float fo n o) s1 Q (EFrame s (S (length pre))) False.
  Proof.
    intros Hst Hpre HQ32 HQ64. unfold pack_float. apply wp_bind. eapply wp_pop_data; eauto.
    - intros c r s2 Hd Hs2.
      assert (Hfr : forall s', st s s' r (heap s) -> fail_frame (S (length pre)) s s').
      { intros s' Hs'. eapply (fframe_intro s _ _ r (pre ++ [c])); eauto.
        - rewrite Hpre, Hd, <- app_assoc. reflexivity.
        - rewrite app_length. cbn [length]. lia. }
      apply wp_bind. apply wp_m_real.
      + intros v Hv. destruct (Z.eqb_spec n 32); [|destruct (Z.eqb_spec n 64)].
        * eapply wp_push_data; eauto. intros _. apply Hfr. exact Hs2.
        * eapply wp_push_data; eauto. intros _. apply Hfr. exact Hs2.
        * apply wp_fail. apply Hfr. exact Hs2.
      + intros _. apply Hfr. exact Hs2.
    - eapply (fframe_intro s _ _ d pre); eauto.
  Qed.

  (* the explicit-order forms: uN.. iN.. with le!/be! suffix *)
  Lemma pack_int_word n o : (n <= pack_limit)%Z ->
    behaves (pack_int n o s)
            (fun s' => exists c rest v, ds s = c :: rest /\ value c = CInt v /\
                       ds s' = CBits (from_int v (Z.to_nat n) o) :: rest /\
                       heap s' = heap s /\ sim s s')
            (fun _ => fail_frame 1 s).
  Proof.
    intros Hn. apply wp_behaves'. eapply (pack_int_gen n o s (ds s) []); eauto using st_init; [lia|].
    intros c r v s' Hd Hv _ (Hd' & Hh & Hs). exists c, r, v. auto.
  Qed.

  Lemma pack_float_word n o :
    behaves (pack_float fo n o s)
            (fun s' => exists c rest v, ds s = c :: rest /\ value c = CReal v /\
                       ((n = 32%Z /\ ds s' = CBits (from_fbits 4 o (f_to_f32 fo v)) :: rest) \/
                        (n = 64%Z /\ ds s' = CBits (from_fbits 8 o v) :: rest)) /\
                       heap s' = heap s /\ sim s s')
            (fun _ => fail_frame 1 s).
  Proof.
    apply wp_behaves'. eapply (pack_float_gen n o s (ds s) []); eauto using st_init.
    - intros c r v s' Hd Hv Hn (Hd' & Hh & Hs). exists c, r, v. auto 10.
    - intros c r v s' Hd Hv Hn (Hd' & Hh & Hs). exists c, r, v. auto 10.
  Qed.

  (* the order-switch forms (uN! iN! fN!) and the width-on-stack forms (int! uint! float!) *)
  Hypothesis Hm : notmeta s.
  Hypothesis Hl : 6 <= length (heap s).

  Lemma wp_with_order' (f : order -> M unit) s1 d (Q : unit -> state -> Prop) E U :
    st s s1 d (heap s) ->
    (forall o, h_order (heap s) = Some o -> wp (f o) s1 Q E U) ->
    wp (with_order f) s1 Q E U.
  Proof.
    intros Hst HQ. unfold with_order. apply wp_bind.
    eapply wp_current_order; eauto.
  Qed.

  Lemma pack_int_cur_word n : (n <= pack_limit)%Z ->
    behaves (with_order (pack_int n) s)
            (fun s' => exists o c rest v, h_order (heap s) = Some o /\
                       ds s = c :: rest /\ value c = CInt v /\
                       ds s' = CBits (from_int v (Z.to_nat n) o) :: rest /\
                       heap s' = heap s /\ sim s s')
            (fun _ => fail_frame 1 s).
  Proof.
    intros Hn. apply wp_behaves'. eapply wp_with_order'; [apply st_init|].
    intros o Ho. eapply (pack_int_gen n o s (ds s) []); eauto using st_init; [lia|].
    intros c r v s' Hd Hv _ (Hd' & Hh & Hs). exists o, c, r, v. auto 10.
  Qed.

  (* int! uint!: value and width on the stack; widths beyond [pack_limit] bits are outside
     the model (allocation failure in the implementation) *)
  Lemma int_store_word :
    wp (with_size (fun n => with_order (pack_int n))) s
       (fun _ s' => exists cn c rest n v o, ds s = cn :: c :: rest /\ is_usize cn n /\
                    (n <= pack_limit)%Z /\ value c = CInt v /\ h_order (heap s) = Some o /\
                    ds s' = CBits (from_int v (Z.to_nat n) o) :: rest /\
                    heap s' = heap s /\ sim s s')
       (EFrame s 2)
       (exists cn rest n, ds s = cn :: rest /\ is_usize cn n /\ (pack_limit < n)%Z).
  Proof.
    eapply wp_with_size; [apply st_init| | |].
    - intros cn r n s2 Hd Hn Hs2. eapply wp_with_order'; [exact Hs2|].
      intros o Ho. apply (pack_int_gen n o s2 r [cn]); [exact Hs2|exact Hd| |].
      + intros Hbig. exists cn, r, n. auto.
      + intros c r' v s' Hd' Hv Hle (Hd'' & Hh & Hs). exists cn, c, r', n, v, o.
        rewrite Hd, Hd'. auto 10.
    - eapply (fframe_intro s 2 _ (ds s) []); eauto using st_init.
    - intros c r s2 k p Hd _ Hs2 _. eapply (fframe_intro s 2 _ r [c]); eauto.
  Qed.

  Lemma float_store_word :
    wp (with_size (fun n => with_order (pack_float fo n))) s
       (fun _ s' => exists cn c rest n v o, ds s = cn :: c :: rest /\ is_usize cn n /\
                    value c = CReal v /\ h_order (heap s) = Some o /\
                    ((n = 32%Z /\ ds s' = CBits (from_fbits 4 o (f_to_f32 fo v)) :: rest) \/
                     (n = 64%Z /\ ds s' = CBits (from_fbits 8 o v) :: rest)) /\
                    heap s' = heap s /\ sim s s')
       (EFrame s 2) False.
  Proof.
    eapply wp_with_size; [apply st_init| | |].
    - intros cn r n s2 Hd Hn Hs2. eapply wp_with_order'; [exact Hs2|].
      intros o Ho. apply (pack_float_gen n o s2 r [cn]); [exact Hs2|exact Hd| |].
      + intros c r' v s' Hd' Hv Hn32 (Hd'' & Hh & Hs). exists cn, c, r', n, v, o.
        rewrite Hd, Hd'. auto 10.
      + intros c r' v s' Hd' Hv Hn64 (Hd'' & Hh & Hs). exists cn, c, r', n, v, o.
        rewrite Hd, Hd'. auto 10.
    - eapply (fframe_intro s 2 _ (ds s) []); eauto using st_init.
    - intros c r s2 k p Hd _ Hs2 _. eapply (fframe_intro s 2 _ r [c]); eauto.
  Qed.
End PackWords.

(* ---------- >bitstr ---------- *)
Lemma bcv_nil f acc : bitstr_concat_vec (S f) [] acc = (Ok acc, None).
Proof. reflexivity. Qed.

Lemma bcv_cons f x r acc :
  bitstr_concat_vec (S f) (x :: r) acc =
  match value x with
  | CInt i => if ((0 <=? i) && (i <=? 255))%Z
              then bitstr_concat_vec (S f) r (Bits.append false acc (from_bytes [Z.to_N i]))
              else (Err EOverflow, None)
  | CStr t => bitstr_concat_vec (S f) r (Bits.append false acc (from_bytes (bytes_of_string t)))
  | CBits b => bitstr_concat_vec (S f) r (Bits.append false acc b)
  | CVec v2 =>
    match bitstr_concat_vec f v2 (mkcbs 0 0 []) with
    | (Ok b2, _) => bitstr_concat_vec (S f) r (Bits.append false acc b2)
    | e => e
    end
  | other => (Err EType, Some other)
  end.
Proof. reflexivity. Qed.

Lemma concat_ints f : forall l acc, Forall (fun x => (x < 256)%N) l -> wf acc ->
  exists r, bitstr_concat_vec (S f) (map (fun x => CInt (Z.of_N x)) l) acc = (Ok r, None) /\
            wf r /\ abs r = (abs acc ++ flat_map byte_bits l)%list.
Proof.
  induction l as [|x l IH]; intros acc Hl Hacc.
  - exists acc. cbn [map flat_map]. rewrite bcv_nil, app_nil_r. auto.
  - inversion Hl as [|? ? Hx Hl']; subst. cbn [map]. rewrite bcv_cons. cbn [value].
    replace ((0 <=? Z.of_N x)%Z && (Z.of_N x <=? 255)%Z) with true by lia.
    rewrite N2Z.id.
    destruct (from_bytes_wf [x] ltac:(constructor; [exact Hx|constructor])) as (Hbw & _).
    destruct (append_spec false acc (from_bytes [x]) Hacc Hbw) as (Hw1 & Ha1).
    destruct (IH _ Hl' Hw1) as (r & Hr & Hrw & Hra). exists r. split; [exact Hr|]. split; [exact Hrw|].
    rewrite Hra, Ha1, abs_from_bytes. cbn [flat_map]. rewrite app_nil_r, <- app_assoc. reflexivity.
Qed.

Lemma append_cstart c t : cstart (Bits.append false c t) = 0.
Proof.
  unfold Bits.append, append_bits_mut, detach. cbn [andb].
  destruct (clen c =? 0); cbn [cstart]; destruct (_ && _); reflexivity.
Qed.

Section Concat.
  Variable fo : fops.

  Lemma field_bits_bytes l : field_bits fo (FBytes l) = flat_map byte_bits l.
  Proof. unfold field_bits. cbn [pack_field]. apply abs_from_bytes. Qed.

  Lemma concat_items f : forall fs acc, Forall field_ok fs -> wf acc ->
    exists r, bitstr_concat_vec (S (S f)) (map (field_item fo) fs) acc = (Ok r, None) /\
              wf r /\ abs r = (abs acc ++ fields_bits fo fs)%list /\ (cstart acc = 0 -> cstart r = 0).
  Proof.
    induction fs as [|x fs IH]; intros acc Hok Hacc.
    - exists acc. cbn [map]. rewrite bcv_nil. unfold fields_bits. cbn [flat_map]. rewrite app_nil_r. auto.
    - inversion Hok as [|? ? Hx Hfs]; subst. cbn [map]. rewrite bcv_cons.
      destruct (pack_field_wf fo x Hx) as (Hxw & _).
      assert (Hstep : forall b, wf b -> abs b = field_bits fo x ->
                exists r, bitstr_concat_vec (S (S f)) (map (field_item fo) fs) (Bits.append false acc b) = (Ok r, None) /\
                          wf r /\ abs r = (abs acc ++ fields_bits fo (x :: fs))%list /\
                          (cstart acc = 0 -> cstart r = 0)).
      { intros b Hb Hab. destruct (append_spec false acc b Hacc Hb) as (Hw1 & Ha1).
        destruct (IH _ Hfs Hw1) as (r & Hr & Hrw & Hra & Hrc). exists r. split; [exact Hr|]. split; [exact Hrw|].
        split; [|intros _; apply Hrc; apply append_cstart].
        rewrite Hra, Ha1, Hab. unfold fields_bits. cbn [flat_map]. rewrite <- app_assoc. reflexivity. }
      destruct x as [w sg o v|o v|o v|b|t|l]; cbn [field_item value].
      + apply Hstep; auto.
      + apply Hstep; auto.
      + apply Hstep; auto.
      + apply Hstep; auto.
      + apply Hstep; auto.
      + destruct empty_wf as (He & Hea).
        destruct (concat_ints f l _ Hx He) as (b2 & Hb2 & Hb2w & Hb2a). rewrite Hb2.
        apply Hstep; auto. rewrite Hb2a, Hea. cbn [app]. symmetry. apply field_bits_bytes.
  Qed.

  (* >bitstr on the vector of the fields' items: the concatenation, of the summed width *)
  Lemma into_bitstr_fields s fs c rest :
    Forall field_ok fs ->
    ds s = c :: rest -> value c = CVec (map (field_item fo) fs) ->
    ds_len (cx s) < length (ds s) -> limit_reached (stack_limit s) (length rest) = false ->
    exists s' p, w_into_bitstr s = ROk tt s' /\
                 ds s' = CBits p :: rest /\ heap s' = heap s /\ sim s s' /\
                 wf p /\ abs p = fields_bits fo fs /\ clen p = total_width fs /\ cstart p = 0.
  Proof.
    intros Hok Hd Hv Hlen Hroom.
    destruct empty_wf as (He & Hea).
    destruct (concat_items 38 fs _ Hok He) as (p & Hp & Hpw & Hpa & Hpc).
    rewrite Hea in Hpa. cbn [app] in Hpa.
    assert (Hwp : wp w_into_bitstr s
                     (fun _ s' => ds s' = CBits p :: rest /\ heap s' = heap s /\ sim s s')
                     (fun _ _ _ => False) False).
    { unfold w_into_bitstr, into_bitstr. apply wp_bind. apply wp_bind.
      eapply (wp_pop_data_ok c rest s s (heap s)).
      - rewrite <- Hd. apply st_init.
      - rewrite <- Hd. exact Hlen.
      - intros s1 Hs1. unfold bitstr_concat. rewrite Hv.
        change (bitstr_concat_vec 40) with (bitstr_concat_vec (S (S 38))). rewrite Hp.
        apply wp_ret. eapply wp_push_data_ok; [exact Hs1|exact Hroom|]. intros s' (Hd' & Hh & Hs). auto. }
    apply wp_total in Hwp. destruct Hwp as ([] & s' & Hrun & Hd' & Hh & Hs).
    exists s', p. split; [exact Hrun|]. split; [exact Hd'|]. split; [exact Hh|]. split; [exact Hs|].
    split; [exact Hpw|]. split; [exact Hpa|]. split; [|apply Hpc; reflexivity].
    rewrite <- abs_length, Hpa. apply fields_bits_length. exact Hok.
  Qed.
End Concat.

(* a vector of bit-strings only: >bitstr is exactly the left fold of Bits.append *)
Lemma concat_bits f : forall bs acc,
  bitstr_concat_vec (S f) (map (fun b => CBits b) bs) acc =
  (Ok (fold_left (Bits.append false) bs acc), None).
Proof.
  induction bs as [|b bs IH]; intros acc; cbn [map fold_left].
  - apply bcv_nil.
  - rewrite bcv_cons. cbn [value]. apply IH.
Qed.

Lemma pack_fold fo fs :
  pack fo fs = fold_left (Bits.append false) (map (pack_field fo) fs) (mkcbs 0 0 []).
Proof.
  unfold pack. generalize (mkcbs 0 0 []). induction fs as [|f r IH]; intros acc; cbn [map fold_left]; auto.
Qed.

Lemma into_bitstr_packed fo s fs c rest :
  ds s = c :: rest -> value c = CVec (map (fun f => CBits (pack_field fo f)) fs) ->
  ds_len (cx s) < length (ds s) -> limit_reached (stack_limit s) (length rest) = false ->
  exists s', w_into_bitstr s = ROk tt s' /\
             ds s' = CBits (pack fo fs) :: rest /\ heap s' = heap s /\ sim s s'.
Proof.
  intros Hd Hv Hlen Hroom.
  assert (Hwp : wp w_into_bitstr s
                   (fun _ s' => ds s' = CBits (pack fo fs) :: rest /\ heap s' = heap s /\ sim s s')
                   (fun _ _ _ => False) False).
  { unfold w_into_bitstr, into_bitstr. apply wp_bind. apply wp_bind.
    eapply (wp_pop_data_ok c rest s s (heap s)).
    - rewrite <- Hd. apply st_init.
    - rewrite <- Hd. exact Hlen.
    - intros s1 Hs1. unfold bitstr_concat. rewrite Hv.
      rewrite <- (map_map (pack_field fo) (fun b => CBits b)).
      change (bitstr_concat_vec 40) with (bitstr_concat_vec (S 39)). rewrite concat_bits.
      rewrite <- pack_fold.
      apply wp_ret. eapply wp_push_data_ok; [exact Hs1|exact Hroom|]. intros s' (Hd' & Hh & Hs). auto. }
  apply wp_total in Hwp. destruct Hwp as ([] & s' & Hrun & H). eauto.
Qed.

(* ---------- reading the fields back ---------- *)
Lemma from_fbits_mod k o z : from_fbits k o (z mod 2 ^ Z.of_nat (8 * k)) = from_fbits k o z.
Proof. unfold from_fbits. rewrite Z_to_be_bytes_mod. reflexivity. Qed.

Lemma firstn_app_exact {A} (a b : list A) n : length a = n -> firstn n (a ++ b) = a.
Proof.
  intros <-. rewrite firstn_app, Nat.sub_diag, firstn_all. cbn [firstn]. apply app_nil_r.
Qed.

Lemma skipn_app_exact {A} (a b : list A) n : length a = n -> skipn n (a ++ b) = b.
Proof.
  intros <-. rewrite skipn_app, Nat.sub_diag, skipn_all. reflexivity.
Qed.

Lemma skipn_add {A} : forall a b (l : list A), skipn a (skipn b l) = skipn (b + a) l.
Proof.
  intros a b. revert a. induction b as [|b IH]; intros a l; [reflexivity|].
  destruct l as [|x l]; [rewrite !skipn_nil; reflexivity|]. cbn [skipn Nat.add]. apply IH.
Qed.

Lemma Forall2_len {A B} (R : A -> B -> Prop) l1 l2 : Forall2 R l1 l2 -> length l1 = length l2.
Proof. induction 1; cbn [length]; auto. Qed.

Definition room (s : state) (k : nat) : Prop :=
  forall j, j < k -> limit_reached (stack_limit s) (length (ds s) + j) = false.

Section Parse.
  Variable fo : fops.

  Lemma read_field_ok s inp off f tail :
    cursor s inp off -> field_rd_ok f ->
    rest_of inp off = (field_bits fo f ++ tail)%list ->
    limit_reached (stack_limit s) (length (ds s)) = false ->
    exists s' v, read_field fo f s = ROk tt s' /\
                 after_read s s' off (Z.of_nat (width f)) (ds s) v /\ field_value fo f v.
  Proof.
    intros Hcur (Hok & Hrd) Hrest Hroom.
    pose proof Hcur as (Hm & Hl & Hi & Ho & Hw & Hb & Hr).
    pose proof (field_bits_length fo f Hok) as Hlen.
    assert (Hfit : (off + Z.of_nat (width f) <= Z.of_nat (cend inp))%Z).
    { pose proof (rest_of_length inp off Hr) as Hrl. rewrite Hrest, app_length, Hlen in Hrl. lia. }
    destruct (sub_spec inp off (Z.of_nat (width f)) Hw ltac:(lia) ltac:(lia) Hfit) as (Hsw & Hsa & Hsl).
    assert (Hslice : abs (sub inp off (Z.of_nat (width f))) = field_bits fo f).
    { rewrite Hsa, slice_bits_rest, Hrest, Nat2Z.id. apply firstn_app_exact. exact Hlen. }
    destruct f as [w [|] o v|o v|o v|b|t|l]; cbn [read_field width] in *.
    - (* signed *)
      pose proof (read_signed_ok s inp off Hcur (Z.of_nat w) o s (ds s) (st_init s) ltac:(lia) Hfit Hroom) as H.
      apply wp_total in H. destruct H as ([] & s' & Hrun & Hafter).
      eexists s', _. split; [exact Hrun|]. split; [exact Hafter|].
      cbn [field_value with_tags value]. unfold cint. cbn [value]. f_equal.
      apply roundtrip_signed; auto.
    - (* unsigned *)
      pose proof (read_unsigned_ok s inp off Hcur (Z.of_nat w) o s (ds s) (st_init s) ltac:(lia) Hfit Hroom) as H.
      apply wp_total in H. destruct H as ([] & s' & Hrun & Hafter).
      eexists s', _. split; [exact Hrun|]. split; [exact Hafter|].
      cbn [field_value with_tags value]. unfold cint. cbn [value]. f_equal.
      apply roundtrip_unsigned; auto. lia.
    - (* f32 *)
      pose proof (read_f32_ok s inp off Hcur fo o s (ds s) (st_init s) Hfit Hroom) as H.
      apply wp_total in H. destruct H as ([] & s' & Hrun & Hafter).
      eexists s', _. split; [exact Hrun|]. split; [exact Hafter|].
      cbn [field_value with_tags value]. f_equal. f_equal.
      apply float_roundtrip.
      + change (Z.of_nat (8 * 4)) with 32%Z. apply Z.mod_pos_bound. reflexivity.
      + exact Hsw.
      + change (2 ^ 32)%Z with (2 ^ Z.of_nat (8 * 4))%Z. rewrite from_fbits_mod. exact Hslice.
    - (* f64 *)
      pose proof (read_f64_ok s inp off Hcur fo o s (ds s) (st_init s) Hfit Hroom) as H.
      apply wp_total in H. destruct H as ([] & s' & Hrun & Hafter).
      eexists s', _. split; [exact Hrun|]. split; [exact Hafter|].
      cbn [field_value with_tags value]. f_equal.
      apply float_roundtrip.
      + change (Z.of_nat (8 * 8)) with 64%Z. apply Z.mod_pos_bound. reflexivity.
      + exact Hsw.
      + change (2 ^ 64)%Z with (2 ^ Z.of_nat (8 * 8))%Z. rewrite from_fbits_mod. exact Hslice.
    - pose proof (read_bits_ok s inp off Hcur (Z.of_nat (clen b)) s (ds s) (st_init s) ltac:(lia) Hfit Hroom) as H.
      apply wp_total in H. destruct H as ([] & s' & Hrun & Hafter).
      eexists s', _. split; [exact Hrun|]. split; [exact Hafter|].
      cbn [field_value]. eexists. split; [reflexivity|]. auto.
    - pose proof (read_bits_ok s inp off Hcur (Z.of_nat (8 * length (bytes_of_string t))) s (ds s) (st_init s) ltac:(lia) Hfit Hroom) as H.
      apply wp_total in H. destruct H as ([] & s' & Hrun & Hafter).
      eexists s', _. split; [exact Hrun|]. split; [exact Hafter|].
      cbn [field_value]. eexists. split; [reflexivity|]. auto.
    - pose proof (read_bits_ok s inp off Hcur (Z.of_nat (8 * length l)) s (ds s) (st_init s) ltac:(lia) Hfit Hroom) as H.
      apply wp_total in H. destruct H as ([] & s' & Hrun & Hafter).
      eexists s', _. split; [exact Hrun|]. split; [exact Hafter|].
      cbn [field_value]. eexists. split; [reflexivity|]. auto.
  Qed.

  Lemma rest_of_advance inp off n :
    (Z.of_nat (cstart inp) <= off)%Z -> rest_of inp (off + Z.of_nat n) = skipn n (rest_of inp off).
  Proof.
    intros Hr. unfold rest_of. rewrite skipn_add. f_equal. lia.
  Qed.

  (* parse_pack: the fields come back in order, whatever the bit alignment each starts at *)
  Theorem parse_fields : forall fs s inp off tail,
    cursor s inp off -> Forall (field_rd_ok) fs ->
    rest_of inp off = (fields_bits fo fs ++ tail)%list ->
    room s (length fs) ->
    exists s' vals, read_fields fo fs s = ROk tt s' /\
      ds s' = (rev vals ++ ds s)%list /\ Forall2 (field_value fo) fs vals /\
      cursor s' inp (off + Z.of_nat (total_width fs)) /\
      rest_of inp (off + Z.of_nat (total_width fs)) = tail /\
      sim s s' /\ h_stash (heap s') = h_stash (heap s) /\
      (forall a, a <> R_OFFSET -> nth_error (heap s') a = nth_error (heap s) a).
  Proof.
    induction fs as [|f fs IH]; intros s inp off tail Hcur Hok Hrest Hroom.
    - exists s, []. cbn [read_fields total_width fold_right rev app].
      replace (off + Z.of_nat 0)%Z with off by lia.
      split; [reflexivity|]. split; [reflexivity|]. split; [constructor|]. split; [exact Hcur|].
      split; [exact Hrest|]. split; [apply sim_refl|]. auto.
    - inversion Hok as [|? ? Hf Hfs]; subst.
      unfold fields_bits in Hrest. cbn [flat_map] in Hrest. rewrite <- app_assoc in Hrest.
      assert (Hroom0 : limit_reached (stack_limit s) (length (ds s)) = false).
      { specialize (Hroom 0 ltac:(cbn [length]; lia)). rewrite Nat.add_0_r in Hroom. exact Hroom. }
      destruct (read_field_ok s inp off f _ Hcur Hf Hrest Hroom0) as (s1 & v & Hrun1 & Hafter & Hval).
      pose proof Hafter as (Hd1 & Hh1 & Hs1).
      pose proof Hcur as (_ & _ & _ & _ & _ & _ & Hr).
      assert (Hlen : length (field_bits fo f) = width f) by (apply field_bits_length; apply Hf).
      assert (Hfit : (off + Z.of_nat (width f) <= Z.of_nat (cend inp))%Z).
      { pose proof (rest_of_length inp off Hr) as Hrl. rewrite Hrest, app_length, Hlen in Hrl. lia. }
      pose proof (after_read_cursor s s1 inp off (Z.of_nat (width f)) _ _ Hcur ltac:(lia) Hfit Hafter) as Hcur1.
      assert (Hrest1 : rest_of inp (off + Z.of_nat (width f)) = (fields_bits fo fs ++ tail)%list).
      { rewrite rest_of_advance by lia. rewrite Hrest. apply skipn_app_exact. exact Hlen. }
      assert (Hroom1 : room s1 (length fs)).
      { intros j Hj. rewrite (sim_slim _ _ Hs1), Hd1. cbn [length].
        specialize (Hroom (S j) ltac:(cbn [length]; lia)).
        replace (S (length (ds s)) + j) with (length (ds s) + S j) by lia. exact Hroom. }
      destruct (IH s1 inp _ tail Hcur1 Hfs Hrest1 Hroom1)
        as (s' & vals & Hrun & Hd' & Hvals & Hcur' & Hrest' & Hs' & Hst' & Hoth').
      exists s', (v :: vals). cbn [read_fields]. unfold bind at 1. rewrite Hrun1.
      split; [exact Hrun|].
      change (total_width (f :: fs)) with (width f + total_width fs).
      replace (off + Z.of_nat (width f + total_width fs))%Z
        with (off + Z.of_nat (width f) + Z.of_nat (total_width fs))%Z by lia.
      split; [rewrite Hd', Hd1; cbn [rev]; rewrite <- app_assoc; reflexivity|].
      split; [constructor; assumption|]. split; [exact Hcur'|]. split; [exact Hrest'|].
      split; [eapply sim_trans; eauto|]. split.
      + rewrite Hst', Hh1. apply h_stash_set_offset.
      + intros a Ha. rewrite (Hoth' a Ha), Hh1. apply nth_list_set_other. auto.
  Qed.
End Parse.

(* ---------- open-bitstr on the packed string, read everything, remain = 0 ---------- *)
Lemma open_ok s inp off v c rest b :
  cursor s inp off -> h_stash (heap s) = Some v ->
  ds s = c :: rest -> value c = CBits b -> ds_len (cx s) < length (ds s) ->
  exists s' e, w_open_bitstr s = ROk tt s' /\ ds s' = rest /\
               heap s' = heap3 (heap s) (cnat (cstart b)) (CBits b) (CVec (v ++ [e])) /\
               entry_input e = Some inp /\ entry_offset e = Some off /\ sim s s'.
Proof.
  intros Hcur Hv Hd Hb Hlen. pose proof Hcur as (Hm & Hc).
  assert (Hl : 6 <= length (heap s)) by (destruct Hc as (? & _); assumption).
  destruct (h_stash_cells _ _ Hv) as (cs & Hcs & Vcs).
  destruct (hcursor_cells _ _ _ Hc) as (ci & co & Hi & Vi & Ho & Vo).
  assert (Hwp : wp w_open_bitstr s
                   (fun _ s' => ds s' = rest /\
                      heap s' = heap3 (heap s) (cnat (cstart b)) (CBits b)
                                      (CVec (v ++ [insert_tag ci offset_lit co])) /\ sim s s')
                   (fun _ _ _ => False) False).
  { unfold w_open_bitstr. apply wp_bind.
    eapply (wp_pop_data_ok c rest s s (heap s)); [rewrite <- Hd; apply st_init|rewrite <- Hd; exact Hlen|].
    intros s1 Hs1. apply wp_bind. apply wp_m_bits.
    - intros b0 Hb0. rewrite Hb in Hb0. injection Hb0 as <-.
      apply wp_bind. eapply wp_get_var; eauto.
      apply wp_bind. eapply wp_get_var; eauto.
      apply wp_bind. eapply wp_set_var; eauto; [unfold R_OFFSET; lia|]. intros s2 Hs2.
      apply wp_bind. eapply wp_set_var; eauto; [rewrite list_set_len; unfold R_INPUT; lia|].
      intros s3 Hs3.
      apply wp_bind. eapply wp_get_var; eauto.
      { rewrite !nth_list_set_other by (unfold R_OFFSET, R_INPUT, R_STASH; lia). exact Hcs. }
      apply wp_bind. apply wp_m_vec.
      + intros v0 Hv0. rewrite Vcs in Hv0. injection Hv0 as <-.
        eapply wp_set_var; [exact Hs3|exact Hm|rewrite !list_set_len; unfold R_STASH; lia|].
        intros s4 (Hd4 & Hh4 & Hs4). auto.
      + intros Hn. exfalso. eapply Hn; eauto.
    - intros Hn. exfalso. eapply Hn; eauto. }
  apply wp_total in Hwp. destruct Hwp as ([] & s' & Hrun & Hd' & Hh' & Hs').
  exists s', (insert_tag ci offset_lit co). split; [exact Hrun|]. split; [exact Hd'|].
  split; [exact Hh'|]. split; [|split; [|exact Hs']].
  - unfold entry_input. rewrite value_insert_tag, Vi. reflexivity.
  - unfold entry_offset. rewrite get_insert_offset, Vo. reflexivity.
Qed.

Lemma remain_ok s inp off :
  cursor s inp off -> limit_reached (stack_limit s) (length (ds s)) = false ->
  exists s', w_remain s = ROk tt s' /\
             ds s' = cint (Z.of_nat (cend inp) - off) :: ds s /\ heap s' = heap s /\ sim s s'.
Proof.
  intros Hcur Hroom. pose proof Hcur as (Hm & Hc).
  assert (Hr : (Z.of_nat (cstart inp) <= off <= Z.of_nat (cend inp))%Z)
    by (destruct Hc as (_ & _ & _ & _ & _ & ?); assumption).
  assert (Hwp : wp w_remain s
                   (fun _ s' => ds s' = cint (Z.of_nat (cend inp) - off) :: ds s /\ heap s' = heap s /\ sim s s')
                   (fun _ _ _ => False) False).
  { unfold w_remain. apply wp_bind. eapply wp_current_input; eauto using st_init.
    apply wp_bind. eapply wp_current_offset; eauto using st_init.
    replace (Z.max (Z.of_nat (cend inp)) off) with (Z.of_nat (cend inp)) by lia.
    eapply wp_push_data_ok; [apply st_init|exact Hroom|]. intros s' (Hd & Hh & Hs). auto. }
  apply wp_total in Hwp. destruct Hwp as ([] & s' & Hrun & H). eauto.
Qed.

Section Roundtrip.
  Variable fo : fops.

  (* the program: open-bitstr, the matching read word per field, remain *)
  Definition parse_back (fs : list field) : M unit :=
    w_open_bitstr ;; read_fields fo fs ;; w_remain.

  Theorem roundtrip : forall fs s inp0 off0 v c rest p,
    cursor s inp0 off0 -> h_stash (heap s) = Some v ->
    ds s = c :: rest -> value c = CBits p ->
    wf p -> (Z.of_nat (cend p) < two64)%Z -> abs p = fields_bits fo fs ->
    Forall field_rd_ok fs ->
    ds_len (cx s) < length (ds s) ->
    (forall j, j <= length fs -> limit_reached (stack_limit s) (length rest + j) = false) ->
    exists s' vals e,
      parse_back fs s = ROk tt s' /\
      ds s' = (CInt 0 :: rev vals ++ rest)%list /\ Forall2 (field_value fo) fs vals /\
      cursor s' p (Z.of_nat (cend p)) /\
      h_stash (heap s') = Some (v ++ [e])%list /\
      entry_input e = Some inp0 /\ entry_offset e = Some off0.
  Proof.
    intros fs s inp0 off0 v c rest p Hcur Hv Hd Hc Hpw Hpb Hpa Hok Hlen Hroom.
    destruct (open_ok s inp0 off0 v c rest p Hcur Hv Hd Hc Hlen)
      as (s1 & e & Hrun1 & Hd1 & Hh1 & He1 & He2 & Hs1).
    assert (Hl : 6 <= length (heap s)) by (destruct Hcur as (_ & ? & _); assumption).
    assert (Hcur1 : cursor s1 p (Z.of_nat (cstart p))).
    { split; [eapply sim_notmeta; eauto; apply Hcur|]. rewrite Hh1.
      destruct (heap3_facts (heap s) (cnat (cstart p)) (CBits p) (CVec (v ++ [e])) Hl)
        as (H1 & H2 & H3 & H4 & _).
      unfold hcursor. rewrite H1. split; [exact Hl|]. split; [|split; [|split; [exact Hpw|split; [exact Hpb|]]]].
      - unfold h_input. rewrite H3. reflexivity.
      - unfold h_offset. rewrite H2. reflexivity.
      - destruct Hpw as (? & _). lia. }
    assert (Hst1 : h_stash (heap s1) = Some (v ++ [e])%list).
    { rewrite Hh1. destruct (heap3_facts (heap s) (cnat (cstart p)) (CBits p) (CVec (v ++ [e])) Hl)
        as (_ & _ & _ & H4 & _). unfold h_stash. rewrite H4. reflexivity. }
    assert (Hrest1 : rest_of p (Z.of_nat (cstart p)) = (fields_bits fo fs ++ [])%list).
    { unfold rest_of. rewrite Nat2Z.id, Nat.sub_diag. cbn [skipn]. rewrite app_nil_r. exact Hpa. }
    assert (Hroom1 : room s1 (length fs)).
    { intros j Hj. rewrite (sim_slim _ _ Hs1), Hd1. apply Hroom. lia. }
    assert (Hfok : Forall field_ok fs).
    { eapply Forall_impl; [|exact Hok]. intros f (H & _). exact H. }
    destruct (parse_fields fo fs s1 p _ [] Hcur1 Hok Hrest1 Hroom1)
      as (s2 & vals & Hrun2 & Hd2 & Hvals & Hcur2 & Hrest2 & Hs2 & Hst2 & _).
    assert (Htw : (Z.of_nat (cstart p) + Z.of_nat (total_width fs) = Z.of_nat (cend p))%Z).
    { pose proof (fields_bits_length fo fs Hfok) as Hlen'. rewrite <- Hpa, abs_length in Hlen'.
      unfold clen in Hlen'. destruct Hpw as (? & _). lia. }
    rewrite Htw in Hcur2.
    assert (Hroom2 : limit_reached (stack_limit s2) (length (ds s2)) = false).
    { rewrite (sim_slim _ _ Hs2), (sim_slim _ _ Hs1), Hd2, Hd1, app_length, rev_length.
      rewrite <- (Forall2_len _ _ _ Hvals). rewrite Nat.add_comm. apply Hroom. lia. }
    destruct (remain_ok s2 p _ Hcur2 Hroom2) as (s3 & Hrun3 & Hd3 & Hh3 & Hs3).
    exists s3, vals, e. split.
    - unfold parse_back, bind. rewrite Hrun1, Hrun2. exact Hrun3.
    - split.
      + rewrite Hd3, Hd2, Hd1. unfold cint. f_equal. f_equal. lia.
      + split; [exact Hvals|]. split.
        * split; [eapply sim_notmeta; eauto; apply Hcur2|]. rewrite Hh3. apply Hcur2.
        * split; [rewrite Hh3, Hst2; exact Hst1|auto].
  Qed.
End Roundtrip.

(* ---------- emit with interception on ---------- *)
Lemma cell_eqb_bits_nil o b : value o = CBits b -> cell_eqb o CNil = false.
Proof.
  destruct o; cbn [value]; try discriminate.
  - intros _. reflexivity.
  - intros ->. reflexivity.
Qed.

Lemma h_output_cells h ob : h_output h = Some ob ->
  exists c, nth_error h R_OUTPUT = Some c /\ value c = CBits ob.
Proof.
  unfold h_output. destruct (nth_error h R_OUTPUT) as [c|]; [|discriminate].
  destruct (value c) eqn:Ev; try discriminate. intros H. injection H as ->. eauto.
Qed.

Lemma h_outlen_cells h n : h_outlen h = Some n ->
  exists c, nth_error h R_OUTLEN = Some c /\ value c = CInt n.
Proof.
  unfold h_outlen. destruct (nth_error h R_OUTLEN) as [c|]; [|discriminate].
  destruct (value c) eqn:Ev; try discriminate. intros H. injection H as ->. eauto.
Qed.

Definition emit_heap (h : list cell) (n : Z) (ob : cbs) : list cell :=
  list_set (list_set h R_OUTLEN (cint n)) R_OUTPUT (CBits ob).

Lemma emit_ok s ob n c rest bs :
  emitting s ob n -> (n < two64)%Z ->
  ds s = c :: rest -> value c = CBits bs -> wf bs -> ds_len (cx s) < length (ds s) ->
  exists s', w_emit s = ROk tt s' /\ ds s' = rest /\ sim s s' /\
             heap s' = emit_heap (heap s) (n + Z.of_nat (clen bs)) (Bits.append false ob bs) /\
             emitting s' (Bits.append false ob bs) (n + Z.of_nat (clen bs)) /\
             abs (Bits.append false ob bs) = (abs ob ++ abs bs)%list.
Proof.
  intros (Hm & Hl & Hmark & Hob & Hobw & Hn & Hn0) Hn64 Hd Hc Hbw Hlen.
  destruct (h_output_cells _ _ Hob) as (co & Hco & Vco).
  destruct (h_outlen_cells _ _ Hn) as (cn & Hcn & Vcn).
  destruct (append_spec false ob bs Hobw Hbw) as (Haw & Haa).
  assert (Hwp : wp w_emit s
                   (fun _ s' => ds s' = rest /\ sim s s' /\
                      heap s' = emit_heap (heap s) (n + Z.of_nat (clen bs)) (Bits.append false ob bs))
                   (fun _ _ _ => False) False).
  { unfold w_emit. apply wp_bind.
    eapply (wp_pop_data_ok c rest s s (heap s)); [rewrite <- Hd; apply st_init|rewrite <- Hd; exact Hlen|].
    intros s1 Hs1. apply wp_bind. apply wp_m_bits.
    - intros b0 Hb0. rewrite Hc in Hb0. injection Hb0 as <-.
      apply wp_bind. eapply wp_get_var; eauto.
      apply wp_bind. apply wp_m_usize.
      + intros z (Hz & _). rewrite Vcn in Hz. injection Hz as <-.
        apply wp_bind. eapply wp_set_var; [exact Hs1|exact Hm|unfold R_OUTLEN; lia|]. intros s2 Hs2.
        apply wp_bind. eapply wp_get_var; eauto.
        { rewrite nth_list_set_other by (unfold R_OUTLEN, R_OUTPUT; lia). exact Hco. }
        rewrite (cell_eqb_bits_nil co ob Vco).
        apply wp_bind. apply wp_m_bits.
        * intros ob0 Hob0. rewrite Vco in Hob0. injection Hob0 as <-.
          eapply wp_set_var; [exact Hs2|exact Hm|rewrite list_set_len; unfold R_OUTPUT; lia|].
          intros s3 (Hd3 & Hh3 & Hs3). auto.
        * intros Hno. exfalso. eapply Hno; eauto.
      + intros Hno. exfalso. apply (Hno n). split; [exact Vcn|lia].
    - intros Hno. exfalso. eapply Hno; eauto. }
  apply wp_total in Hwp. destruct Hwp as ([] & s' & Hrun & Hd' & Hs' & Hh').
  exists s'. split; [exact Hrun|]. split; [exact Hd'|]. split; [exact Hs'|]. split; [exact Hh'|].
  split; [|exact Haa].
  unfold emitting. split; [eapply sim_notmeta; eauto|]. rewrite Hh'. unfold emit_heap.
  rewrite !list_set_len. split; [exact Hl|]. split.
  - rewrite (sim_cx _ _ Hs'), Hd'. rewrite Hd in Hlen. cbn [length] in Hlen. lia.
  - split; [|split; [exact Haw|split; [|lia]]].
    + unfold h_output. rewrite nth_list_set_same by (rewrite list_set_len; unfold R_OUTPUT; lia). reflexivity.
    + unfold h_outlen. rewrite nth_list_set_other by (unfold R_OUTLEN, R_OUTPUT; lia).
      rewrite nth_list_set_same by (unfold R_OUTLEN; lia). reflexivity.
Qed.

Definition chunks_len (cs : list cbs) : nat := fold_right (fun c a => clen c + a) 0 cs.
Definition chunks_bits (cs : list cbs) : list bool := flat_map abs cs.

(* emit_split, on arbitrary chunks: output grows by the concatenation, output-length by its length *)
Theorem emit_chunks : forall cs s ob n,
  emitting s ob n -> Forall wf cs -> (n + Z.of_nat (chunks_len cs) < two64)%Z ->
  limit_reached (stack_limit s) (length (ds s)) = false ->
  exists s' ob', emit_all cs s = ROk tt s' /\ ds s' = ds s /\ sim s s' /\
                 emitting s' ob' (n + Z.of_nat (chunks_len cs)) /\
                 abs ob' = (abs ob ++ chunks_bits cs)%list.
Proof.
  induction cs as [|c cs IH]; intros s ob n Hem Hwf Hn Hroom.
  - exists s, ob. cbn [emit_all chunks_len chunks_bits fold_right flat_map].
    rewrite app_nil_r. replace (n + Z.of_nat 0)%Z with n by lia.
    split; [reflexivity|]. split; [reflexivity|]. split; [apply sim_refl|]. auto.
  - inversion Hwf as [|? ? Hc Hcs]; subst.
    change (chunks_len (c :: cs)) with (clen c + chunks_len cs) in *.
    pose proof Hem as (Hm & Hl & Hmark & Hob & Hobw & Hon & Hn0).
    (* push *)
    assert (Hpush : exists s1, push_data (CBits c) s = ROk tt s1 /\ st s s1 (CBits c :: ds s) (heap s)).
    { assert (Hwp : wp (push_data (CBits c)) s (fun _ s1 => st s s1 (CBits c :: ds s) (heap s))
                       (fun _ _ _ => False) False).
      { eapply wp_push_data_ok; [apply st_init|exact Hroom|]. auto. }
      apply wp_total in Hwp. destruct Hwp as ([] & s1 & H1 & H2). eauto. }
    destruct Hpush as (s1 & Hrun1 & Hd1 & Hh1 & Hs1).
    assert (Hem1 : emitting s1 ob n).
    { unfold emitting. rewrite Hh1, Hd1, (sim_cx _ _ Hs1). cbn [length].
      split; [eapply sim_notmeta; eauto|]. split; [exact Hl|]. split; [lia|]. auto. }
    destruct (emit_ok s1 ob n (CBits c) (ds s) c Hem1 ltac:(lia) Hd1 eq_refl Hc)
      as (s2 & Hrun2 & Hd2 & Hs2 & Hh2 & Hem2 & Hab2).
    { rewrite Hd1, (sim_cx _ _ Hs1). cbn [length]. lia. }
    assert (Hroom2 : limit_reached (stack_limit s2) (length (ds s2)) = false).
    { rewrite (sim_slim _ _ Hs2), (sim_slim _ _ Hs1), Hd2. exact Hroom. }
    destruct (IH s2 _ _ Hem2 Hcs ltac:(lia) Hroom2) as (s' & ob' & Hrun & Hd' & Hs' & Hem' & Hab').
    exists s', ob'. cbn [emit_all]. unfold bind at 1. rewrite Hrun1. unfold bind at 1. rewrite Hrun2.
    split; [exact Hrun|]. split; [congruence|].
    split; [eapply sim_trans; [exact Hs1|eapply sim_trans; eauto]|].
    split.
    + replace (n + Z.of_nat (clen c + chunks_len cs))%Z
        with (n + Z.of_nat (clen c) + Z.of_nat (chunks_len cs))%Z by lia. exact Hem'.
    + rewrite Hab', Hab2. unfold chunks_bits. cbn [flat_map]. rewrite <- app_assoc. reflexivity.
Qed.

Section EmitSplit.
  Variable fo : fops.

  Lemma chunks_of_fields : forall fss, Forall (Forall field_ok) fss ->
    Forall wf (map (pack fo) fss) /\
    chunks_bits (map (pack fo) fss) = fields_bits fo (List.concat fss) /\
    chunks_len (map (pack fo) fss) = total_width (List.concat fss).
  Proof.
    induction 1 as [|fs fss Hfs Hfss IH]; [repeat split; constructor|].
    destruct IH as (IH1 & IH2 & IH3). destruct (pack_spec fo fs Hfs) as (Hw & Ha & Hl).
    cbn [map List.concat]. split; [constructor; assumption|]. split.
    - unfold chunks_bits in *. cbn [flat_map]. rewrite IH2, Ha, fields_bits_app. reflexivity.
    - change (chunks_len (pack fo fs :: map (pack fo) fss))
        with (clen (pack fo fs) + chunks_len (map (pack fo) fss)).
      rewrite IH3, Hl, total_width_app. reflexivity.
  Qed.

  (* all splits of a field list across several emit calls: starting from an empty output,
     `output` denotes the packing of the whole list and `output-length` is its length *)
  Theorem emit_split : forall fss s ob,
    emitting s ob 0 -> abs ob = [] ->
    Forall (Forall field_ok) fss ->
    (Z.of_nat (total_width (List.concat fss)) < two64)%Z ->
    limit_reached (stack_limit s) (length (ds s)) = false ->
    exists s' ob', emit_all (map (pack fo) fss) s = ROk tt s' /\ ds s' = ds s /\
      h_output (heap s') = Some ob' /\ wf ob' /\
      abs ob' = abs (pack fo (List.concat fss)) /\
      h_outlen (heap s') = Some (Z.of_nat (clen ob')) /\
      clen ob' = total_width (List.concat fss).
  Proof.
    intros fss s ob Hem Hob Hok Hlen Hroom.
    destruct (chunks_of_fields fss Hok) as (Hwf & Hbits & Hclen).
    destruct (emit_chunks (map (pack fo) fss) s ob 0 Hem Hwf ltac:(rewrite Hclen; lia) Hroom)
      as (s' & ob' & Hrun & Hd' & _ & Hem' & Hab').
    assert (Hall : Forall field_ok (List.concat fss)).
    { apply Forall_concat. exact Hok. }
    destruct (pack_spec fo _ Hall) as (Hpw & Hpa & Hpl).
    rewrite Hob, Hbits in Hab'. cbn [app] in Hab'.
    assert (Hcl : clen ob' = total_width (List.concat fss)).
    { rewrite <- abs_length, Hab'. apply fields_bits_length. exact Hall. }
    destruct Hem' as (_ & _ & _ & Ho' & Hw' & Hn' & _).
    exists s', ob'. split; [exact Hrun|]. split; [exact Hd'|]. split; [exact Ho'|]. split; [exact Hw'|].
    split; [rewrite Hab', Hpa; reflexivity|]. split; [|exact Hcl].
    rewrite Hn', Hclen, Hcl. reflexivity.
  Qed.
End EmitSplit.
