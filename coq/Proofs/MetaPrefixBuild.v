(* MetaPrefixBuild.v (C11): the frame [F2 cs di] (MetaPrefix.v) for the builder: every
   immediate word except #( #) ~) , user-defined immediate words and the pending-code runs
   leave code, debug map and dictionary below the marks of the meta context alone. *)
From Xeh Require Import Model.Prelude Model.Bits Model.Codec Model.Cell Model.Lexer Model.Fmt
                        Model.Vm Model.Words Model.Build.
From Xeh Require Import Proofs.VmFrame Proofs.VmLimits Proofs.NoPanic Proofs.NoPanicBuild Proofs.NoPanicFlow
                        Proofs.MetaBase Proofs.MetaPurge Proofs.MetaBuild Proofs.MetaPrefix.
Local Notation length := List.length.
Local Open Scope list_scope.
Local Open Scope string_scope.

Section Prims.
  Variable cs di : nat.

  (* only the flow stack changed *)
  Lemma R2_flows s s' :
    Pre2 cs di s -> sealed s s' -> code s' = code s -> dict s' = dict s -> dbg s' = dbg s ->
    UP cs di s' -> R2 cs di s s'.
  Proof.
    intros (Hm & E1 & E2 & L1 & L2 & Hcd & Hup) HS C D G U.
    unfold R2. rewrite C, D, G. repeat split; try assumption; try apply HS; try lia;
      try (intros i; left; reflexivity).
    unfold cd_inv in *. rewrite C, G. exact Hcd.
  Qed.

  Lemma fpp_code_emit op : fp (F2 cs di) (code_emit op).
  Proof.
    intros s P. cbn [F2 fr_pre fr_rel] in *.
    pose proof P as ([Hm W] & E1 & E2 & L1 & L2 & Hcd & Hup).
    pose proof (code_emit_cd op s Hcd) as Hcd'.
    unfold code_emit in *. cbv zeta in *. unfold cd_inv in Hcd.
    destruct (length (code s) <? length (dbg s))%nat eqn:El.
    - cbn [res_all] in *. apply R2_intro; try exact P; try reflexivity; try exact Hcd'.
      + apply sealed_score; [exact W|reflexivity].
      + cbn [set_code set_dbg code]. rewrite firstn_app_le by exact L1. apply rpatch_refl.
      + cbn [set_code set_dbg code]. rewrite app_length. lia.
      + apply cpatch_refl.
      + cbn [set_code set_dbg dbg]. apply firstn_list_set_ge. exact L1.
    - destruct (length (code s) =? length (dbg s))%nat eqn:Ee; [|exact I].
      apply Nat.eqb_eq in Ee.
      cbn [res_all] in *. apply R2_intro; try exact P; try reflexivity; try exact Hcd'.
      + apply sealed_score; [exact W|reflexivity].
      + cbn [set_code set_dbg code]. rewrite firstn_app_le by exact L1. apply rpatch_refl.
      + cbn [set_code set_dbg code]. rewrite app_length. lia.
      + apply cpatch_refl.
      + cbn [set_code set_dbg dbg]. apply firstn_app_le. lia.
  Qed.

  Lemma fpp_backpatch pos op : cs <= pos -> fp (F2 cs di) (backpatch pos op).
  Proof.
    intros Hp s P. cbn [F2 fr_pre fr_rel] in *.
    pose proof P as ([Hm W] & E1 & E2 & L1 & L2 & Hcd & Hup).
    unfold backpatch. destruct (pos <? length (code s))%nat; [|exact I].
    cbn [res_all]. apply R2_intro; try exact P; try reflexivity.
    - apply sealed_score; [exact W|reflexivity].
    - cbn [set_code code]. rewrite firstn_list_set_ge by exact Hp. apply rpatch_refl.
    - cbn [set_code code]. rewrite list_set_length. lia.
    - apply cpatch_refl.
    - unfold cd_inv in *. cbn [set_code code dbg]. rewrite list_set_length. exact Hcd.
  Qed.

  Lemma fpp_backpatch_jump pos offs : cs <= pos -> fp (F2 cs di) (backpatch_jump pos offs).
  Proof.
    intros Hp s P. unfold backpatch_jump.
    destruct (nth_error (code s) pos) as [op|]; [|apply (fpa_fail (F2 cs di) unit EInternal None s P)].
    destruct op; try exact I; apply (fpp_backpatch pos _ Hp s P).
  Qed.

  Lemma fpp_dict_insert name e s : fpav (F2 cs di) (fun idx => di <= idx) s (dict_insert name e).
  Proof.
    intros P. cbn [F2 fr_pre fr_rel] in *.
    pose proof P as ([Hm W] & E1 & E2 & L1 & L2 & Hcd & Hup).
    unfold dict_insert. split; [exact L2|].
    apply R2_intro; try exact P; try reflexivity; try exact Hcd.
    - apply sealed_score; [exact W|reflexivity].
    - apply rpatch_refl.
    - cbn [set_dict dict]. rewrite firstn_app_le by exact L2. apply cpatch_refl.
    - cbn [set_dict dict]. rewrite app_length. lia.
  Qed.

  Lemma fpp_dict_insert' name e : fp (F2 cs di) (dict_insert name e).
  Proof. intros s P. pose proof (fpp_dict_insert name e s P) as H. cbn [res_all]. apply H. Qed.

  Lemma pending_push s f : fs_len (cx s) <= length (flows s) ->
    pending (set_flows s (f :: flows s)) = f :: pending s.
  Proof.
    intros H. unfold pending. cbn [set_flows flows cx length].
    replace (S (length (flows s)) - fs_len (cx s)) with (S (length (flows s) - fs_len (cx s))) by lia.
    reflexivity.
  Qed.

  Lemma fpp_push_flow f : fok cs di f -> fp (F2 cs di) (push_flow f).
  Proof.
    intros Hf s P. cbn [F2 fr_pre fr_rel] in *.
    pose proof P as ([Hm W] & E1 & E2 & L1 & L2 & Hcd & Hup).
    pose proof (fps_push_flow f s (conj Hm W)) as HS. cbn [SF fr_rel] in HS.
    unfold push_flow, modify in *. cbn [res_all] in *.
    apply R2_flows; try exact P; try reflexivity; try exact HS.
    unfold UP. rewrite pending_push by apply W. constructor; assumption.
  Qed.

  Definition popQ (o : option flow) : Prop :=
    match o with Some f => fok cs di f | None => True end.

  Lemma fpp_pop_flow s : fpav (F2 cs di) popQ s pop_flow.
  Proof.
    intros P. cbn [F2 fr_pre fr_rel] in *.
    pose proof P as ([Hm W] & E1 & E2 & L1 & L2 & Hcd & Hup).
    pose proof (fps_pop_flow s (conj Hm W)) as HS. cbn [SF fr_rel] in HS.
    unfold pop_flow in *. destruct (flows s) as [|f r] eqn:E; [split; [exact I|apply R2_refl; exact P]|].
    destruct (fs_len (cx s) <? length (f :: r))%nat eqn:El; [|split; [exact I|apply R2_refl; exact P]].
    cbn [res_all] in HS. apply Nat.ltb_lt in El. cbn [length] in El.
    assert (Ep : pending s = f :: pending (set_flows s r)).
    { unfold pending. cbn [set_flows flows cx]. rewrite E. cbn [length].
      replace (S (length r) - fs_len (cx s)) with (S (length r - fs_len (cx s))) by lia. reflexivity. }
    unfold UP in Hup. rewrite Ep in Hup. inversion Hup as [|? ? Hf Hr]; subst.
    split; [exact Hf|]. apply R2_flows; try exact P; try reflexivity; try exact HS. exact Hr.
  Qed.

  Lemma fpp_take s : fpav (F2 cs di) popQ s take_first_cond_flow.
  Proof.
    intros P. cbn [F2 fr_pre fr_rel] in *.
    pose proof P as ([Hm W] & E1 & E2 & L1 & L2 & Hcd & Hup).
    pose proof (fps_take s (conj Hm W)) as HS. cbn [SF fr_rel] in HS.
    unfold take_first_cond_flow in *. cbv zeta in *.
    destruct (take_cond (pending s)) as [[f act']|] eqn:E; [|split; [exact I|apply R2_refl; exact P]].
    cbn [res_all] in HS.
    destruct (take_cond_split _ _ _ E) as (a & b & Ea & ->).
    unfold UP in Hup. rewrite Ea in Hup. apply Forall_app in Hup. destruct Hup as [Ha Hb].
    inversion Hb as [|? ? Hf Hb']; subst.
    split; [exact Hf|]. apply R2_flows; try exact P; try reflexivity; try exact HS.
    rewrite skipn_pending by apply W. unfold UP, pending. cbn [set_flows flows cx].
    rewrite pending_app by apply W.
    apply Forall_app. split; assumption.
  Qed.

  Lemma set_fun_locals_fok : forall l ls, Forall (fok cs di) l -> Forall (fok cs di) (set_fun_locals l ls).
  Proof.
    induction l as [|f l IH]; intros ls H; [constructor|]. inversion H as [|? ? Hf Hl]; subst.
    destruct f; cbn [set_fun_locals]; constructor; try assumption; try (apply IH; assumption).
  Qed.

  Lemma R2_set_locals s ls : Pre2 cs di s ->
    R2 cs di s (set_flows s (set_fun_locals (pending s) ls ++ skipn (length (pending s)) (flows s))).
  Proof.
    intros P. pose proof P as ([Hm W] & E1 & E2 & L1 & L2 & Hcd & Hup).
    apply R2_flows; try exact P; try reflexivity.
    - apply sealed_set_locals. exact W.
    - rewrite skipn_pending by apply W. unfold UP, pending at 1. cbn [set_flows flows cx].
      rewrite pending_app by apply W.
      apply set_fun_locals_fok. exact Hup.
  Qed.

  (* dictionary updates *)
  Lemma R2_set_dict_ge s idx e' : Pre2 cs di s -> di <= idx ->
    R2 cs di s (set_dict s (list_set (dict s) idx e')).
  Proof.
    intros P Hi. pose proof P as ([Hm W] & E1 & E2 & L1 & L2 & Hcd & Hup).
    apply R2_intro; try exact P; try reflexivity; try exact Hcd.
    - apply sealed_set_dict. exact W.
    - apply rpatch_refl.
    - cbn [set_dict dict]. rewrite firstn_list_set_ge by exact Hi. apply cpatch_refl.
    - cbn [set_dict dict]. rewrite list_set_length. lia.
  Qed.

  Lemma R2_set_dict_const s pos e v : Pre2 cs di s ->
    nth_error (dict s) pos = Some e -> is_dconst e = true ->
    R2 cs di s (set_dict s (list_set (dict s) pos (mkdent (dname e) (DConst v)))).
  Proof.
    intros P E C. pose proof P as ([Hm W] & E1 & E2 & L1 & L2 & Hcd & Hup).
    apply R2_intro; try exact P; try reflexivity; try exact Hcd.
    - apply sealed_set_dict. exact W.
    - apply rpatch_refl.
    - cbn [set_dict dict]. apply cpatch_set; assumption.
    - cbn [set_dict dict]. rewrite list_set_length. lia.
  Qed.

  Lemma find_fun_fok : forall l d st ls, Forall (fok cs di) l -> find_fun l = Some (d, st, ls) -> di <= d.
  Proof.
    induction l as [|f l IH]; intros d st ls H E; [discriminate|].
    inversion H as [|? ? Hf Hl]; subst.
    destruct f; cbn [find_fun] in E; try (eapply IH; eassumption).
    injection E as <- <- <-. cbn [fok] in Hf. apply Hf.
  Qed.

  Lemma fpp_sf_core A (m : M A) : fp SF m -> corep m -> fp (F2 cs di) m.
  Proof. apply fpp_core. Qed.
End Prims.

(* ---------- the stepwise tactic ---------- *)
Ltac fok_fin := cbn [popQ fok] in *; unfold code_origin in *; repeat split; lia.

Ltac fpp_prim :=
  lazymatch goal with
  | |- fpa _ _ (ret _) => apply fpa_ret
  | |- fpa _ _ (fail _ _) => apply fpa_fail
  | |- fpa _ _ unsup => apply fpa_unsup
  | |- fpa _ _ panic => apply fpa_panic
  | |- fpa _ _ (code_emit _) => apply fpp_code_emit
  | |- fpa _ _ (backpatch _ _) => apply fpp_backpatch; fok_fin
  | |- fpa _ _ (backpatch_jump _ _) => apply fpp_backpatch_jump; fok_fin
  | |- fpa _ _ (dict_insert _ _) => apply fpp_dict_insert'
  | |- fpa _ _ (intern_source _) =>
    apply (fpp_core _ _ _ _ (fp_scorep _ _ (scorep_intern_source _)) (corep_intern_source _))
  | |- fpa _ _ (join_str_vec _ _) =>
    apply (fpp_core _ _ _ _ (fp_scorep _ _ (scorep_join_str_vec _ _)) (corep_join_str_vec _ _))
  | |- fpa _ _ (get_token _) =>
    apply (fpp_core _ _ _ _ (fp_scorep _ _ (scorep_get_token _)) (corep_get_token _))
  | |- fpa _ _ (next_name _) =>
    apply (fpp_core _ _ _ _ (fp_scorep _ _ (scorep_next_name _)) (corep_next_name _))
  | |- fpa _ _ (push_flow _) => apply fpp_push_flow; fok_fin
  | |- fpa _ _ (alloc_heap _) => apply (fpp_core _ _ _ _ (fp_alloc_heap _) (corep_alloc_heap _))
  | |- fpa _ _ (run_m _ _) => apply fpp_run_m
  | |- fpa _ _ pop_data => apply (fpp_wl _ _ _ _ wl_pop_data)
  | |- fpa _ _ (push_data _) => apply (fpp_wl _ _ _ _ (wl_push_data _))
  | |- fpa _ _ (push_return _) => apply (fpp_wl _ _ _ _ (wl_push_return _))
  | |- fpa _ _ (set_ip _) => apply (fpp_wl _ _ _ _ (wl_set_ip _))
  end.

Create HintDb fppdb.

Ltac fpp_step :=
  cbv beta zeta;
  first
    [ fpp_prim
    | solve [ auto 2 with fppdb nocore ]
    | match goal with H : _ |- fpa _ _ _ => solve [ apply H ] end
    | lazymatch goal with
      | |- fp _ _ => intro
      | |- fpa _ _ (bind get _) => apply fpa_get_bind; apply fpa_pre; intros (? & ? & ? & ? & ? & ? & ?)
      | |- fpa _ _ (bind pop_flow _) => eapply fpa_bindv; [ apply fpp_pop_flow | intros ? ? ]
      | |- fpa _ _ (bind take_first_cond_flow _) => eapply fpa_bindv; [ apply fpp_take | intros ? ? ]
      | |- fpa _ _ (bind (dict_insert _ _) _) => eapply fpa_bindv; [ apply fpp_dict_insert | intros ? ? ]
      | |- fpa _ _ (bind _ _) => apply fpa_bind; [ | intro ]
      | |- fpa _ _ (match ?x with _ => _ end) => destruct x eqn:?
      | |- fpa _ _ (put _) => apply fpa_put; intro
      | |- fpa _ _ ?m => let h := head_of m in unfold h
      end ].

Ltac fpp_solve := repeat fpp_step.

Section Words2.
  Variable cs di : nat.
  Notation F := (F2 cs di).

  Lemma fpp_endcase_loop : forall fuel org s, fpa F s (endcase_loop fuel org).
  Proof.
    induction fuel as [|f IH]; intros org;
      change (fp F (endcase_loop (S f) org)) || change (fp F (endcase_loop 0 org));
      cbn [endcase_loop]; fpp_solve.
  Qed.

  Lemma fpp_repeat_loop : forall fuel s, fpa F s (repeat_loop fuel).
  Proof.
    induction fuel as [|f IH];
      change (fp F (repeat_loop (S f))) || change (fp F (repeat_loop 0));
      cbn [repeat_loop]; fpp_solve.
  Qed.

  Lemma fpp_loop_loop : forall fuel a b s, cs <= a -> fpa F s (loop_loop fuel a b).
  Proof.
    induction fuel as [|f IH]; intros a b s Ha; revert s;
      change (fp F (loop_loop (S f) a b)) || change (fp F (loop_loop 0 a b));
      cbn [loop_loop]; fpp_solve.
  Qed.
End Words2.
#[export] Hint Resolve fpp_endcase_loop fpp_repeat_loop : fppdb.
