(* CollVec.v: the list-level laws of the vector words of C12:
   1. relative_index / vector_get (every integer index);
   2. slicing_index / slice_list;
   3. sort_cells: permutation, sortedness, commutation with strip, stability, idempotence;
   4. small sequence facts used by the word-level statements of CollWords.v. *)
From Xeh Require Import Model.Prelude Model.Bits Model.Codec Model.Cell Model.Lexer Model.Fmt
                        Model.Vm Model.Words Proofs.BitsProofs Proofs.CellProofs Proofs.CollProofs.
From Coq Require Import Sorting.Sorted Sorting.Permutation ZifyBool ZifyNat ZifyN.
Local Notation length := List.length.

(* ------------------------------------------------------------------ *)
(* 1. relative_index and vector_get                                    *)
(* ------------------------------------------------------------------ *)

(* the index a vector of length [len] is read at for the (possibly negative) index [i] *)
Definition vec_index (len : nat) (i : Z) : option nat :=
  if (0 <=? i)%Z && (i <? Z.of_nat len)%Z then Some (Z.to_nat i)
  else if (- Z.of_nat len <=? i)%Z && (i <? 0)%Z then Some (Z.to_nat (Z.of_nat len + i))
  else None.

Theorem relative_index_spec : forall (len : nat) (i : Z),
  relative_index len i =
  if (0 <=? i)%Z && (i <? Z.of_nat len)%Z then Some (Z.to_nat i)
  else if (- Z.of_nat len <=? i)%Z && (i <? 0)%Z then Some (Z.to_nat (Z.of_nat len + i))
  else None.
Proof.
  intros len i. unfold relative_index.
  destruct (Z.ltb_spec i 0) as [H0 | H0].
  - destruct (Z.ltb_spec (Z.of_nat len) (Z.abs i)) as [H1 | H1];
      destruct (Z.leb_spec 0 i); try lia; cbn [andb];
      destruct (Z.leb_spec (- Z.of_nat len) i); try lia; cbn [andb]; try reflexivity.
    f_equal. lia.
  - destruct (Z.leb_spec 0 i); try lia. cbn [andb].
    destruct (Z.ltb_spec i (Z.of_nat len)); try reflexivity.
    destruct (Z.leb_spec (- Z.of_nat len) i); cbn [andb]; reflexivity.
Qed.

Corollary relative_index_vec_index : forall len i, relative_index len i = vec_index len i.
Proof. intros. apply relative_index_spec. Qed.

Lemma vec_index_nonneg : forall len i, (0 <= i < Z.of_nat len)%Z -> vec_index len i = Some (Z.to_nat i).
Proof.
  intros len i H. unfold vec_index.
  destruct (Z.leb_spec 0 i); try lia. destruct (Z.ltb_spec i (Z.of_nat len)); try lia. reflexivity.
Qed.

Lemma vec_index_neg : forall len i, (- Z.of_nat len <= i < 0)%Z ->
  vec_index len i = Some (Z.to_nat (Z.of_nat len + i)).
Proof.
  intros len i H. unfold vec_index.
  destruct (Z.leb_spec 0 i); try lia. cbn [andb].
  destruct (Z.leb_spec (- Z.of_nat len) i); try lia. destruct (Z.ltb_spec i 0); try lia. reflexivity.
Qed.

Lemma vec_index_none : forall len i, (i < - Z.of_nat len \/ Z.of_nat len <= i)%Z -> vec_index len i = None.
Proof.
  intros len i H. unfold vec_index.
  destruct (Z.leb_spec 0 i); destruct (Z.ltb_spec i (Z.of_nat len)); try lia; cbn [andb];
    destruct (Z.leb_spec (- Z.of_nat len) i); try lia; cbn [andb]; try reflexivity.
  destruct (Z.ltb_spec i 0); try lia; reflexivity.
Qed.

Lemma vec_index_some_iff : forall len i,
  (exists n, vec_index len i = Some n) <-> (- Z.of_nat len <= i < Z.of_nat len)%Z.
Proof.
  intros len i. split.
  - intros [n H]. destruct (Z.lt_ge_cases i (- Z.of_nat len)) as [L | L].
    + rewrite vec_index_none in H by lia. discriminate.
    + destruct (Z.lt_ge_cases i (Z.of_nat len)) as [U | U]; [lia|].
      rewrite vec_index_none in H by lia. discriminate.
  - intro H. destruct (Z.lt_ge_cases i 0).
    + rewrite vec_index_neg by lia. eauto.
    + rewrite vec_index_nonneg by lia. eauto.
Qed.

Lemma vec_index_lt : forall len i n, vec_index len i = Some n -> (n < len)%nat.
Proof.
  intros len i n. unfold vec_index.
  destruct (Z.leb_spec 0 i); destruct (Z.ltb_spec i (Z.of_nat len)); cbn [andb];
    try (intro E; injection E as <-; lia);
    destruct (Z.leb_spec (- Z.of_nat len) i); destruct (Z.ltb_spec i 0); cbn [andb];
    try discriminate; intro E; injection E as <-; lia.
Qed.

Lemma vec_index_nth : forall {A} (v : list A) i n,
  vec_index (length v) i = Some n -> exists c, nth_error v n = Some c.
Proof.
  intros A v i n H. apply vec_index_lt in H.
  destruct (nth_error v n) eqn:E; eauto.
  apply nth_error_None in E. lia.
Qed.

Theorem vector_get_spec : forall v i s,
  vector_get v i s =
  match vec_index (length v) i with
  | Some n => match nth_error v n with Some c => ROk c s | None => RErr EBounds None s end
  | None => RErr EBounds None s
  end.
Proof.
  intros v i s. unfold vector_get. rewrite relative_index_vec_index.
  destruct (vec_index (length v) i) as [n|]; [|reflexivity].
  destruct (nth_error v n); reflexivity.
Qed.

(* the three cases spelled out *)
Corollary vector_get_nonneg : forall v i s, (0 <= i < Z.of_nat (length v))%Z ->
  exists c, nth_error v (Z.to_nat i) = Some c /\ vector_get v i s = ROk c s.
Proof.
  intros v i s H. rewrite vector_get_spec. pose proof (vec_index_nonneg _ _ H) as E.
  destruct (vec_index_nth v _ _ E) as [c Hc]. rewrite E, Hc. eauto.
Qed.

Corollary vector_get_neg : forall v i s, (- Z.of_nat (length v) <= i < 0)%Z ->
  exists c, nth_error v (Z.to_nat (Z.of_nat (length v) + i)) = Some c /\ vector_get v i s = ROk c s.
Proof.
  intros v i s H. rewrite vector_get_spec. pose proof (vec_index_neg _ _ H) as E.
  destruct (vec_index_nth v _ _ E) as [c Hc]. rewrite E, Hc. eauto.
Qed.

Corollary vector_get_oob : forall v i s, (i < - Z.of_nat (length v) \/ Z.of_nat (length v) <= i)%Z ->
  vector_get v i s = RErr EBounds None s.
Proof. intros v i s H. rewrite vector_get_spec, vec_index_none by assumption. reflexivity. Qed.

(* vector_get never changes the state and fails only with EBounds *)
Corollary vector_get_cases : forall v i s,
  (exists n c, vec_index (length v) i = Some n /\ nth_error v n = Some c /\ vector_get v i s = ROk c s) \/
  (vec_index (length v) i = None /\ vector_get v i s = RErr EBounds None s).
Proof.
  intros v i s. rewrite vector_get_spec. destruct (vec_index (length v) i) as [n|] eqn:E.
  - left. destruct (vec_index_nth v _ _ E) as [c Hc]. rewrite Hc. eauto.
  - right. auto.
Qed.

(* the last element is at -1 *)
Corollary vector_get_last : forall v x s, vector_get (v ++ [x]) (-1) s = ROk x s.
Proof.
  intros v x s. rewrite vector_get_spec, vec_index_neg by (rewrite app_length; cbn [length]; lia).
  replace (Z.to_nat (Z.of_nat (length (v ++ [x])) + -1)) with (length v + 0)%nat
    by (rewrite app_length; cbn [length]; lia).
  rewrite nth_error_app2 by lia. replace (length v + 0 - length v)%nat with 0%nat by lia. reflexivity.
Qed.

(* ------------------------------------------------------------------ *)
(* 2. slicing_index and slice_list                                     *)
(* ------------------------------------------------------------------ *)
Theorem slicing_index_spec : forall (i : Z) (len : nat),
  Z.of_nat (slicing_index i len) =
  if (i <? 0)%Z then Z.max 0 (Z.of_nat len + i) else Z.min i (Z.of_nat len).
Proof.
  intros i len. unfold slicing_index. destruct (Z.ltb_spec i 0); lia.
Qed.

Lemma slicing_index_le : forall i len, (slicing_index i len <= len)%nat.
Proof.
  intros i len. pose proof (slicing_index_spec i len) as H.
  destruct (i <? 0)%Z eqn:E; lia.
Qed.

Lemma slicing_index_nonneg : forall i len, (0 <= i)%Z ->
  slicing_index i len = Nat.min (Z.to_nat i) len.
Proof.
  intros i len H. pose proof (slicing_index_spec i len) as E.
  destruct (Z.ltb_spec i 0); lia.
Qed.

Lemma slicing_index_neg : forall i len, (i < 0)%Z ->
  slicing_index i len = (len - Z.to_nat (- i))%nat.
Proof.
  intros i len H. pose proof (slicing_index_spec i len) as E.
  destruct (Z.ltb_spec i 0); lia.
Qed.

(* monotone on each sign class *)
Lemma slicing_index_mono : forall i j len, (i <= j)%Z -> (0 <= i \/ j < 0)%Z ->
  (slicing_index i len <= slicing_index j len)%nat.
Proof.
  intros i j len Hij Hs.
  pose proof (slicing_index_spec i len) as Ei. pose proof (slicing_index_spec j len) as Ej.
  destruct (Z.ltb_spec i 0); destruct (Z.ltb_spec j 0); lia.
Qed.

Theorem slice_list_spec : forall A (l : list A) st en,
  slice_list l st en =
  let a := slicing_index st (length l) in
  let b := slicing_index en (length l) in
  firstn (b - a) (skipn a l).
Proof.
  intros A l st en. unfold slice_list. cbv zeta. f_equal. lia.
Qed.

Corollary slice_list_length : forall A (l : list A) st en,
  length (slice_list l st en) =
  (slicing_index en (length l) - slicing_index st (length l))%nat.
Proof.
  intros A l st en. rewrite slice_list_spec. cbv zeta.
  rewrite firstn_length, skipn_length.
  pose proof (slicing_index_le en (length l)). lia.
Qed.

Corollary slice_list_full : forall A (l : list A), slice_list l 0 (Z.of_nat (length l)) = l.
Proof.
  intros A l. rewrite slice_list_spec. cbv zeta.
  rewrite !slicing_index_nonneg by lia.
  replace (Nat.min (Z.to_nat 0) (length l)) with 0%nat by lia.
  replace (Nat.min (Z.to_nat (Z.of_nat (length l))) (length l)) with (length l) by lia.
  cbn [skipn]. rewrite Nat.sub_0_r. apply firstn_all.
Qed.

(* the general form: the end index (after clamping) is not after the start index *)
Corollary slice_list_empty_idx : forall A (l : list A) st en,
  (slicing_index en (length l) <= slicing_index st (length l))%nat -> slice_list l st en = [].
Proof.
  intros A l st en H. rewrite slice_list_spec. cbv zeta.
  replace (slicing_index en (length l) - slicing_index st (length l))%nat with 0%nat by lia.
  reflexivity.
Qed.

Corollary slice_list_empty : forall A (l : list A) st en,
  (en <= st)%Z -> (0 <= en \/ st < 0)%Z -> slice_list l st en = [].
Proof.
  intros A l st en H1 H2. apply slice_list_empty_idx. apply slicing_index_mono; assumption.
Qed.

(* a slice between in-range non-negative bounds *)
Corollary slice_list_nonneg : forall A (l : list A) st en,
  (0 <= st <= en)%Z -> (en <= Z.of_nat (length l))%Z ->
  slice_list l st en = firstn (Z.to_nat en - Z.to_nat st) (skipn (Z.to_nat st) l).
Proof.
  intros A l st en H1 H2. rewrite slice_list_spec. cbv zeta.
  rewrite !slicing_index_nonneg by lia. f_equal; [lia | f_equal; lia].
Qed.

(* ------------------------------------------------------------------ *)
(* 3. sort                                                             *)
(* ------------------------------------------------------------------ *)

(* 3a. insertion sort over an arbitrary comparison *)
Section GSort.
  Context {A : Type} (cmp : A -> A -> comparison).

  (* an element goes in front of the first element that is not below it *)
  Fixpoint gsins (x : A) (l : list A) : list A :=
    match l with
    | [] => [x]
    | y :: r => match cmp x y with
                | Gt => y :: gsins x r
                | _ => x :: l
                end
    end.
  Definition gsort (l : list A) : list A := fold_right gsins [] l.

  Lemma gsins_perm : forall x l, Permutation (gsins x l) (x :: l).
  Proof.
    induction l as [| y r IH]; cbn [gsins]; auto.
    destruct (cmp x y); auto.
    eapply perm_trans; [apply perm_skip; apply IH | apply perm_swap].
  Qed.

  Lemma gsort_perm : forall l, Permutation (gsort l) l.
  Proof.
    induction l as [| a l IH]; cbn [gsort fold_right]; auto.
    eapply perm_trans; [apply gsins_perm | apply perm_skip; exact IH].
  Qed.

  Lemma gsins_Forall : forall (P : A -> Prop) x l, P x -> Forall P l -> Forall P (gsins x l).
  Proof.
    intros P x l Hx Hl. rewrite Forall_forall in *. intros z Hz.
    apply (Permutation_in _ (gsins_perm x l)) in Hz. destruct Hz as [<- | Hz]; auto.
  Qed.

  Lemma gsort_Forall : forall (P : A -> Prop) l, Forall P l -> Forall P (gsort l).
  Proof.
    intros P l Hl. rewrite Forall_forall in *. intros z Hz.
    apply Hl. apply (Permutation_in _ (gsort_perm l)). assumption.
  Qed.

  (* adjacent elements of the output are related by what the insertion tested; no law of
     [cmp] is needed *)
  Definition adj_ok (a b : A) : Prop := cmp a b <> Gt \/ cmp b a = Gt.

  Lemma gsins_locally : forall x l, LocallySorted adj_ok l -> LocallySorted adj_ok (gsins x l).
  Proof.
    intros x l H. induction H as [| y | y z r H IH Hyz]; cbn [gsins].
    - constructor.
    - destruct (cmp x y) eqn:E.
      + apply LSorted_consn; [apply LSorted_cons1 | left; congruence].
      + apply LSorted_consn; [apply LSorted_cons1 | left; congruence].
      + apply LSorted_consn; [apply LSorted_cons1 | right; assumption].
    - assert (Hle : cmp x y <> Gt -> LocallySorted adj_ok (x :: y :: z :: r)).
      { intro N. apply LSorted_consn; [apply LSorted_consn; assumption | left; assumption]. }
      destruct (cmp x y) eqn:E; try (apply Hle; congruence).
      cbn [gsins] in *. destruct (cmp x z) eqn:E2;
        (apply LSorted_consn; [exact IH |]); auto; right; assumption.
  Qed.

  Lemma gsort_locally : forall l, LocallySorted adj_ok (gsort l).
  Proof.
    induction l as [| a l IH]; cbn [gsort fold_right]; [constructor|].
    apply gsins_locally. exact IH.
  Qed.

  (* an ascending list is not changed *)
  Lemma gsort_sorted_id : forall l, StronglySorted (fun a b => cmp a b <> Gt) l -> gsort l = l.
  Proof.
    induction l as [| a l IH]; intro H; auto.
    inversion H as [| ? ? HS HF]; subst. cbn [gsort fold_right]. fold (gsort l). rewrite IH by assumption.
    destruct l as [| y r]; auto. cbn [gsins]. inversion HF; subst.
    destruct (cmp a y); congruence.
  Qed.

  Section WithPO.
    Hypothesis PO : preorder cmp.
    Let le (a b : A) : Prop := cmp a b <> Gt.

    Lemma gsins_sorted : forall x l, StronglySorted le l -> StronglySorted le (gsins x l).
    Proof.
      intros x l. induction l as [| y r IH]; intro H; cbn [gsins].
      - repeat constructor.
      - inversion H as [| ? ? HS HF]; subst.
        assert (Hle : cmp x y <> Gt -> StronglySorted le (x :: y :: r)).
        { intro N. constructor; [assumption|]. constructor; [exact N|].
          rewrite Forall_forall in *. intros z Hz. unfold le.
          apply (po_le_trans _ PO x y z); [exact N | apply HF; assumption]. }
        destruct (cmp x y) eqn:E; try (apply Hle; congruence).
        constructor; [apply IH; assumption|].
        apply gsins_Forall; [|assumption].
        unfold le. rewrite (po_anti _ PO), E. cbn. congruence.
    Qed.

    Theorem gsort_sorted : forall l, StronglySorted le (gsort l).
    Proof.
      induction l as [| a l IH]; cbn [gsort fold_right]; [constructor|].
      apply gsins_sorted. exact IH.
    Qed.

    Corollary gsort_idem : forall l, gsort (gsort l) = gsort l.
    Proof. intro l. apply gsort_sorted_id. apply gsort_sorted. Qed.

    (* the new element goes IN FRONT of the elements equal to it *)
    Lemma gsins_filter : forall k x l,
      filter (fun y => cmp_is_eq (cmp y k)) (gsins x l) =
      ((if cmp_is_eq (cmp x k) then [x] else []) ++ filter (fun y => cmp_is_eq (cmp y k)) l)%list.
    Proof.
      intros k x l. induction l as [| y r IH].
      - cbn [gsins filter]. rewrite app_nil_r. reflexivity.
      - assert (Hle : filter (fun y => cmp_is_eq (cmp y k)) (x :: y :: r) =
                      ((if cmp_is_eq (cmp x k) then [x] else []) ++
                       filter (fun y => cmp_is_eq (cmp y k)) (y :: r))%list).
        { change (filter (fun y => cmp_is_eq (cmp y k)) (x :: y :: r))
            with (if cmp_is_eq (cmp x k) then x :: filter (fun y => cmp_is_eq (cmp y k)) (y :: r)
                  else filter (fun y => cmp_is_eq (cmp y k)) (y :: r)).
          destruct (cmp_is_eq (cmp x k)); reflexivity. }
        cbn [gsins]. destruct (cmp x y) eqn:E; try exact Hle.
        clear Hle. cbn [filter]. rewrite IH.
        destruct (cmp_is_eq (cmp x k)) eqn:Ex; destruct (cmp_is_eq (cmp y k)) eqn:Ey; try reflexivity.
        exfalso. apply cmp_is_eq_true in Ex. apply cmp_is_eq_true in Ey.
        rewrite (po_cong _ PO _ _ Ex) in E. rewrite (po_sym _ PO _ _ Ey) in E. discriminate.
    Qed.

    (* so the sort keeps the relative order of equal elements *)
    Theorem gsort_stable : forall k l,
      filter (fun y => cmp_is_eq (cmp y k)) (gsort l) = filter (fun y => cmp_is_eq (cmp y k)) l.
    Proof.
      intros k l. induction l as [| a l IH]; auto.
      cbn [gsort fold_right]. fold (gsort l). rewrite gsins_filter, IH.
      cbn [filter]. destruct (cmp_is_eq (cmp a k)); reflexivity.
    Qed.
  End WithPO.
End GSort.

Lemma gsins_ext : forall {A} (c1 c2 : A -> A -> comparison) (P : A -> Prop),
  (forall a b, P a -> P b -> c1 a b = c2 a b) ->
  forall x l, P x -> Forall P l -> gsins c1 x l = gsins c2 x l.
Proof.
  intros A c1 c2 P H x l Hx Hl. induction Hl as [| y r Hy Hr IH]; auto.
  cbn [gsins]. rewrite H, IH by assumption. reflexivity.
Qed.

Lemma gsort_ext : forall {A} (c1 c2 : A -> A -> comparison) (P : A -> Prop),
  (forall a b, P a -> P b -> c1 a b = c2 a b) ->
  forall l, Forall P l -> gsort c1 l = gsort c2 l.
Proof.
  intros A c1 c2 P H l Hl. induction Hl as [| a l Ha Hl IH]; auto.
  cbn [gsort fold_right]. fold (gsort c1 l) (gsort c2 l). rewrite IH.
  apply (gsins_ext c1 c2 P); auto. apply gsort_Forall. assumption.
Qed.

Lemma gsins_map : forall {A B} (f : A -> B) (cA : A -> A -> comparison) (cB : B -> B -> comparison),
  (forall a b, cB (f a) (f b) = cA a b) ->
  forall x l, map f (gsins cA x l) = gsins cB (f x) (map f l).
Proof.
  intros A B f cA cB H x l. induction l as [| y r IH]; auto.
  cbn [gsins map]. rewrite H. destruct (cA x y); cbn [map]; rewrite ?IH; reflexivity.
Qed.

Lemma gsort_map : forall {A B} (f : A -> B) (cA : A -> A -> comparison) (cB : B -> B -> comparison),
  (forall a b, cB (f a) (f b) = cA a b) ->
  forall l, map f (gsort cA l) = gsort cB (map f l).
Proof.
  intros A B f cA cB H l. induction l as [| a l IH]; auto.
  cbn [gsort fold_right map]. fold (gsort cA l) (gsort cB (map f l)).
  rewrite (gsins_map f cA cB H), IH. reflexivity.
Qed.

(* 3b. the model's sort is the generic one at [cell_cmp] *)
Lemma sort_insert_g : forall x l, sort_insert x l = gsins cell_cmp x l.
Proof. intros x l. induction l as [| y r IH]; cbn [sort_insert gsins]; rewrite ?IH; reflexivity. Qed.

Lemma sort_cells_g : forall l, sort_cells l = gsort cell_cmp l.
Proof.
  induction l as [| a l IH]; [reflexivity|].
  change (sort_insert a (sort_cells l) = gsins cell_cmp a (gsort cell_cmp l)).
  rewrite IH. apply sort_insert_g.
Qed.

Lemma sort_cells_scmp : forall l, Forall tagwf l -> sort_cells l = gsort scmp l.
Proof.
  intros l H. rewrite sort_cells_g. apply (gsort_ext cell_cmp scmp tagwf); [|assumption].
  intros a b Ha Hb. apply cmp_strip; assumption.
Qed.

Theorem sort_cells_perm : forall l, Permutation (sort_cells l) l.
Proof. intro l. rewrite sort_cells_g. apply gsort_perm. Qed.

Theorem sort_cells_length : forall l, length (sort_cells l) = length l.
Proof. intro l. apply Permutation_length. apply sort_cells_perm. Qed.

Lemma sort_cells_in : forall l x, In x (sort_cells l) <-> In x l.
Proof.
  intros l x. split; apply Permutation_in; [| symmetry]; apply sort_cells_perm.
Qed.

Lemma sort_cells_Forall : forall (P : cell -> Prop) l, Forall P l -> Forall P (sort_cells l).
Proof. intros P l. rewrite sort_cells_g. apply gsort_Forall. Qed.

Lemma sort_cells_nil : sort_cells [] = [].
Proof. reflexivity. Qed.

Lemma sort_cells_cons : forall a l, sort_cells (a :: l) = sort_insert a (sort_cells l).
Proof. reflexivity. Qed.

(* ascending *)
Theorem sort_cells_sorted : forall l, Forall tagwf l ->
  StronglySorted (fun a b => cell_cmp a b <> Gt) (sort_cells l).
Proof.
  intros l H. pose proof (sort_cells_Forall tagwf l H) as HT.
  rewrite sort_cells_scmp in * by assumption. rewrite Forall_forall in HT.
  eapply StronglySorted_ext_in; [| apply (gsort_sorted scmp scmp_preorder)].
  cbv beta. intros x y Hx Hy. rewrite cmp_strip by (apply HT; assumption). auto.
Qed.

(* the same with the Sorted predicates of the standard library *)
Corollary sort_cells_Sorted : forall l, Forall tagwf l ->
  Sorted (fun a b => cell_cmp a b <> Gt) (sort_cells l).
Proof. intros. apply StronglySorted_Sorted. apply sort_cells_sorted. assumption. Qed.

(* without any hypothesis: adjacent elements are in the order the insertion tested
   (for tagwf cells the right disjunct says cell_cmp a b = Lt) *)
Theorem sort_cells_locally : forall l,
  LocallySorted (fun a b => cell_cmp a b <> Gt \/ cell_cmp b a = Gt) (sort_cells l).
Proof. intro l. rewrite sort_cells_g. apply (gsort_locally cell_cmp). Qed.

(* tags play no role in the order *)
Theorem sort_cells_strip : forall l, Forall tagwf l ->
  map strip (sort_cells l) = sort_cells (map strip l).
Proof.
  intros l H. rewrite sort_cells_scmp by assumption.
  rewrite (gsort_map strip scmp scmp).
  - symmetry. apply sort_cells_scmp. apply Forall_forall. intros x Hx.
    apply in_map_iff in Hx. destruct Hx as [y [<- _]]. apply tagwf_strip.
  - intros a b. rewrite scmp_strip_l, scmp_strip_r. reflexivity.
Qed.

(* an ascending vector is a fixed point; sorting is idempotent *)
Theorem sort_cells_sorted_id : forall l,
  StronglySorted (fun a b => cell_cmp a b <> Gt) l -> sort_cells l = l.
Proof. intros l H. rewrite sort_cells_g. apply gsort_sorted_id. assumption. Qed.

Corollary sort_cells_strict_id : forall l,
  StronglySorted (fun a b => cell_cmp a b = Lt) l -> sort_cells l = l.
Proof.
  intros l H. apply sort_cells_sorted_id.
  eapply StronglySorted_ext_in; [| exact H]. cbv beta. intros; congruence.
Qed.

Theorem sort_cells_idem : forall l, Forall tagwf l -> sort_cells (sort_cells l) = sort_cells l.
Proof. intros l H. apply sort_cells_sorted_id. apply sort_cells_sorted. assumption. Qed.

(* STABILITY: elements that compare equal keep their relative order (as slice::sort) *)
Example sort_keeps_equal :
  sort_cells [CInt 2; CTag [] (CInt 1); CInt 1] = [CTag [] (CInt 1); CInt 1; CInt 2] /\
  sort_cells [CInt 2; CInt 1; CTag [] (CInt 1)] = [CInt 1; CTag [] (CInt 1); CInt 2].
Proof. split; vm_compute; reflexivity. Qed.

Theorem sort_cells_stable : forall l k, Forall tagwf l -> tagwf k ->
  filter (fun y => cmp_is_eq (cell_cmp y k)) (sort_cells l) =
  filter (fun y => cmp_is_eq (cell_cmp y k)) l.
Proof.
  intros l k Hl Hk.
  assert (E : forall m, Forall tagwf m ->
            filter (fun y => cmp_is_eq (cell_cmp y k)) m = filter (fun y => cmp_is_eq (scmp y k)) m).
  { intros m Hm. induction Hm as [| a m Ha Hm IH]; auto.
    cbn [filter]. rewrite IH, cmp_strip by assumption. reflexivity. }
  rewrite (E _ (sort_cells_Forall tagwf l Hl)), (E _ Hl).
  rewrite sort_cells_scmp by assumption.
  apply (gsort_stable scmp scmp_preorder).
Qed.

(* ------------------------------------------------------------------ *)
(* 4. sequence facts                                                   *)
(* ------------------------------------------------------------------ *)
Lemma vec_rev_length : forall (v : list cell), length (rev v) = length v.
Proof. intro v. apply rev_length. Qed.

Lemma vec_rev_involutive : forall (v : list cell), rev (rev v) = v.
Proof. intro v. apply rev_involutive. Qed.

Lemma vec_push_length : forall (v : list cell) x, length (v ++ [x]) = S (length v).
Proof. intros v x. rewrite app_length. cbn [length]. lia. Qed.

Lemma vec_push_last : forall (v : list cell) x, nth_error (v ++ [x]) (length v) = Some x.
Proof.
  intros v x. rewrite nth_error_app2 by lia. rewrite Nat.sub_diag. reflexivity.
Qed.

Lemma vec_push_old : forall (v : list cell) x n, (n < length v)%nat ->
  nth_error (v ++ [x]) n = nth_error v n.
Proof. intros v x n H. apply nth_error_app1. assumption. Qed.

Lemma vec_rev_nth : forall (v : list cell) n, (n < length v)%nat ->
  nth_error (rev v) n = nth_error v (length v - S n).
Proof.
  intros v n H. destruct (nth_error v (length v - S n)) eqn:E.
  - assert (L : (length v - S n < length v)%nat) by lia.
    rewrite (nth_error_nth' (rev v) c) by (rewrite rev_length; assumption).
    rewrite rev_nth by assumption. f_equal.
    apply (nth_error_nth v _ CNil) in E.
    rewrite (nth_indep v c CNil) by lia. assumption.
  - apply nth_error_None in E. lia.
Qed.
