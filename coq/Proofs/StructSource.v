(* StructSource.v: consequences of the parser invariant, and the evaluator theorems stated
   for whole sources (what [seval_source] runs is a parsed program, so the syntactic
   hypotheses of the evaluator theorems hold by construction). *)
From Xeh Require Import Model.Prelude Model.Bits Model.Codec Model.Cell Model.Lexer Model.Fmt
                        Model.Vm Model.Words Model.Struct
                        Proofs.StructBase Proofs.StructNat Proofs.StructInv Proofs.StructLoops
                        Proofs.StructRs Proofs.StructParse.
Local Notation length := List.length.
Local Open Scope string_scope.

Section Source.
  Variable fo : fops.
  Variable pr : string -> option Z.

  (* what has been compiled is never changed by the tokens that follow *)
  Theorem parse_keeps_compiled : forall f toks e terms acc brk body t tp rest e' brk',
    pseq fo pr f toks e terms acc brk = POk body t tp rest e' brk' ->
    exists l, body = (rev acc ++ l)%list.
  Proof.
    intros f toks e terms acc brk body t tp rest e' brk' H.
    pose proof (pseq_inv fo pr f toks e terms acc brk) as P. rewrite H in P.
    destruct P as (_ & l & -> & _). eauto.
  Qed.

  (* function ids grow, and an id that is bound keeps its body *)
  Theorem parse_funs_stable : forall f toks e terms acc brk body t tp rest e' brk',
    pseq fo pr f toks e terms acc brk = POk body t tp rest e' brk' ->
    nfun e <= nfun e' /\ forall g, g < nfun e -> fun_body (funs e') g = fun_body (funs e) g.
  Proof.
    intros f toks e terms acc brk body t tp rest e' brk' H.
    pose proof (pseq_inv fo pr f toks e terms acc brk) as P. rewrite H in P.
    destruct P as ((K1 & K2 & _) & _). split; assumption.
  Qed.

  (* outside every loop no `break` is ever compiled at the current level (also not under
     if / case): a parse that starts at loop depth 0 with no pending break ends with none,
     and what it compiled has no break at its own level *)
  Theorem parse_depth0_no_break : forall f toks e terms acc body t tp rest e' brk',
    pseq fo pr f toks e terms acc false = POk body t tp rest e' brk' ->
    loopdepth e = 0 ->
    brk' = false /\ exists l, body = (rev acc ++ l)%list /\ has_own_break_block l = false.
  Proof.
    intros f toks e terms acc body t tp rest e' brk' H D.
    pose proof (pseq_inv fo pr f toks e terms acc false) as P. rewrite H in P.
    destruct P as (_ & l & -> & _ & HB & HD & _). specialize (HD D eq_refl). subst brk'.
    split; [ reflexivity | ]. exists l. split; [ reflexivity | ].
    destruct (has_own_break_block l); [ specialize (HB eq_refl); discriminate HB | reflexivity ].
  Qed.

  (* the nesting counters are restored *)
  Theorem parse_counters_restored : forall f toks e terms acc brk body t tp rest e' brk',
    pseq fo pr f toks e terms acc brk = POk body t tp rest e' brk' ->
    loopdepth e' = loopdepth e /\ nest e' = nest e.
  Proof.
    intros f toks e terms acc brk body t tp rest e' brk' H.
    pose proof (pseq_inv fo pr f toks e terms acc brk) as P. rewrite H in P.
    destruct P as ((_ & _ & K3 & K4 & _) & _). split; assumption.
  Qed.

  (* inside a definition no global name is added: the names seen after the body are the
     names seen before it, and the locals only grow *)
  Theorem parse_definition_body_names : forall f toks e terms acc brk body t tp rest e' brk' ls,
    pseq fo pr f toks e terms acc brk = POk body t tp rest e' brk' ->
    plocals e = Some ls -> 0 < nest e ->
    names e' = names e /\ exists more, plocals e' = Some (ls ++ more)%list.
  Proof.
    intros f toks e terms acc brk body t tp rest e' brk' ls H HL HN.
    pose proof (pseq_inv fo pr f toks e terms acc brk) as P. rewrite H in P.
    destruct P as ((_ & _ & _ & _ & _ & K6 & _) & _).
    destruct (K6 ls HL HN) as (more & E1 & E2). split; eauto.
  Qed.

  (* ---------- redefinition ---------- *)
  (* `: name body ;` at the top level: the statements compiled so far are kept as they are
     (so a call compiled earlier keeps its function id); the name now means the NEW id; the
     new id is fresh; every older id keeps its body *)
  Theorem redefinition : forall f a b rest e terms acc brk name na nb r0 body tp r1 e1,
    local_ix e ":" = None -> lookup (names e) ":" = None -> mem terms ":" = false ->
    plocals e = None -> skipb rest = (TWord name, na, nb) :: r0 ->
    pseq fo pr f r0 (def_env e name) [";"] [] false = POk body ";" tp r1 e1 false ->
    let e2 := after_def e e1 body in
    pseq fo pr (S f) ((TWord ":", a, b) :: rest) e terms acc brk =
      pseq fo pr f r1 e2 terms (SDef (nfun e) :: acc) brk /\
    lookup (names e2) name = Some (BFun (nfun e)) /\
    fun_body (funs e2) (nfun e) = Some body /\
    (forall g, g < nfun e -> fun_body (funs e2) g = fun_body (funs e) g) /\
    (forall g, lookup (names e) name = Some (BFun g) -> g < nfun e ->
       fun_body (funs e2) g = fun_body (funs e) g).
  Proof.
    intros f a b rest e terms acc brk name na nb r0 body tp r1 e1 H H0 H1 H2 H3 H4 e2.
    split; [ eapply pseq_colon_step; eauto | ].
    pose proof (parse_definition_body_names _ _ _ _ _ _ _ _ _ _ _ _ [] H4 eq_refl) as [N _];
      [ cbn; lia | ].
    pose proof (parse_funs_stable _ _ _ _ _ _ _ _ _ _ _ _ H4) as [F1 F2]. cbn [def_env nfun funs] in F1, F2.
    assert (Hold : forall g, g < nfun e -> fun_body (funs e2) g = fun_body (funs e) g).
    { intros g Hg. unfold e2, after_def. cbn [funs fun_body].
      destruct (Nat.eqb_spec (nfun e) g); [ lia | ]. apply F2. lia. }
    split; [ | split; [ | split ] ].
    - unfold e2, after_def. cbn [names]. rewrite N. unfold def_env. cbn [names]. apply lookup_newest.
    - unfold e2, after_def. cbn [funs fun_body]. rewrite Nat.eqb_refl. reflexivity.
    - exact Hold.
    - intros g _ Hg. apply Hold. exact Hg.
  Qed.

  (* ---------- whole sources ---------- *)
  (* neither the top level of a parsed source nor the body of one of its definitions has a
     `break` at its own level; the top level declares no local *)
  Theorem parse_source_no_stray_break : forall src h body funs n,
    parse_source fo pr src h = Some (body, funs, n) ->
    has_own_break_block body = false /\ funs_nobreak funs /\ no_local_block body = true.
  Proof.
    intros src h body funs n H. unfold parse_source in H.
    match type of H with context [pseq fo pr ?f ?t ?e0 ?tm ?ac ?bk] =>
      pose proof (pseq_inv fo pr f t e0 tm ac bk) as P;
      destruct (pseq fo pr f t e0 tm ac bk) as [bd term tp rest e' brk' | |] eqn:E
    end; try discriminate.
    destruct term; [ | discriminate ]. injection H as <- <- <-.
    cbn [pinv rev app] in P. destruct P as ((_ & _ & _ & _ & _ & _ & K7 & _) & l & -> & _ & HB & HD & HN).
    cbn in HD. specialize (HD eq_refl eq_refl). subst brk'.
    split; [ | split ].
    - destruct (has_own_break_block l); [ specialize (HB eq_refl); discriminate HB | reflexivity ].
    - apply K7. cbn. intros g b Hg. discriminate Hg.
    - apply HN. reflexivity.
  Qed.

  (* what [seval_source] runs *)
  Theorem seval_source_runs_parse : forall fuel src s r,
    seval_source fo pr fuel src s = CRun r ->
    exists body funs n,
      parse_source fo pr src (length (heap s)) = Some (body, funs, n) /\
      r = sblock fo funs fuel body (set_heap s (heap s ++ repeat CNil (n - length (heap s)))%list).
  Proof.
    intros fuel src s r H. unfold seval_source in H. unfold parse_source.
    destruct (pseq fo pr _ _ _ _ _ _) as [bd term tp rest e' brk' | |]; try discriminate.
    destruct term; [ | discriminate ]. injection H as <-. eauto.
  Qed.

  (* a source never ends at a stray break *)
  Theorem seval_source_never_broke : forall fuel src s s',
    seval_source fo pr fuel src s <> CRun (SBroke s').
  Proof.
    intros fuel src s s' H. apply seval_source_runs_parse in H as (body & funs & n & P & E).
    apply parse_source_no_stray_break in P as (Hb & Hf & _).
    symmetry in E. eapply (nobreak_block fo funs Hf); eauto.
  Qed.

  (* a source that runs to its end leaves the loop stack (records up to their items) and the
     return stack as they were *)
  Theorem seval_source_hygiene : forall fuel src s s',
    seval_source fo pr fuel src s = CRun (SDone s') ->
    cx s' = cx s /\ map lkey (loops s') = map lkey (loops s) /\ rs s' = rs s.
  Proof.
    intros fuel src s s' H. apply seval_source_runs_parse in H as (body & funs & n & P & E).
    apply parse_source_no_stray_break in P as (Hb & Hf & Hl). symmetry in E.
    destruct (loop_keys_block fo funs fuel body _ s' (or_introl E)) as [C M].
    pose proof (rs_exact_block fo funs Hf fuel body _ s' Hl (fin_done _ _ E)) as [_ R].
    cbn in C, M, R. auto.
  Qed.
End Source.
