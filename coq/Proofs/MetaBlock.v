(* MetaBlock.v (C11): token steps of the builder, their classification inside a meta context
   (same context / open a nested block / close the block), and what a whole block
   "#( ... #)" does to the state it was opened in. *)
From Xeh Require Import Model.Prelude Model.Bits Model.Codec Model.Cell Model.Lexer Model.Fmt
                        Model.Vm Model.Words Model.Build.
From Xeh Require Import Proofs.VmFrame Proofs.VmLimits Proofs.NoPanic Proofs.NoPanicBuild Proofs.NoPanicFlow
                        Proofs.MetaBase Proofs.MetaPurge Proofs.MetaBuild Proofs.MetaClose Proofs.MetaPrefix
                        Proofs.MetaPrefixBuild Proofs.MetaPrefixWords.
Local Notation length := List.length.
Local Open Scope string_scope.
Local Open Scope list_scope.

(* ---------- lists ---------- *)
Lemma rpatch_firstn n c c' : rpatch c c' -> rpatch (firstn n c) (firstn n c').
Proof.
  intros [L H]. split; [rewrite !firstn_length, L; reflexivity|]. intros i.
  destruct (Nat.lt_ge_cases i n) as [Hi|Hi].
  - rewrite !nth_error_firstn_lt by exact Hi. apply H.
  - left. rewrite !nth_error_firstn_ge by exact Hi. reflexivity.
Qed.

Lemma cpatch_firstn n d d' : cpatch d d' -> cpatch (firstn n d) (firstn n d').
Proof.
  intros [L H]. split; [rewrite !firstn_length, L; reflexivity|]. intros i.
  destruct (Nat.lt_ge_cases i n) as [Hi|Hi].
  - rewrite !nth_error_firstn_lt by exact Hi. apply H.
  - left. rewrite !nth_error_firstn_ge by exact Hi. reflexivity.
Qed.

Lemma rpatch_app c c' l : rpatch c c' -> rpatch (c ++ l) (c' ++ l).
Proof.
  intros [L H]. split; [rewrite !app_length, L; reflexivity|]. intros i.
  destruct (Nat.lt_ge_cases i (length c)) as [Hi|Hi].
  - rewrite (nth_error_app1 c' l) by lia. rewrite (nth_error_app1 c l) by lia. apply H.
  - left. rewrite (nth_error_app2 c' l) by lia. rewrite (nth_error_app2 c l) by lia. rewrite L. reflexivity.
Qed.

Lemma firstn_firstn_le {A} (l : list A) n m : n <= m -> firstn n (firstn m l) = firstn n l.
Proof. intros H. rewrite firstn_firstn. f_equal. lia. Qed.

Lemma keeps_lastn {A} n (l l' : list A) : keeps n l l' -> keeps n l (lastn n l').
Proof.
  intros [H1 H2]. split; [rewrite lastn_length; lia|]. rewrite lastn_lastn by lia. exact H2.
Qed.

(* ---------- one token of build1 ---------- *)
Section Steps.
  Variable fo : fops.
  Variable pr : string -> option Z.
  Variable rf : nat.

  Definition pre_run : M unit :=
    let* s := get in
    if mode_eqb (cmode (cx s)) MMeta && negb (has_pending_flow s) then run_m fo rf else ret tt.

  Definition tok_act (f : nat) (t : btok) : M unit :=
    match t with
    | BEnd => ret tt
    | BLit v => code_emit_value v
    | BWord name =>
      let* s' := get in
      match top_function_flow s' with
      | Some (_, _, ls) =>
        match rposition ls name 0 None with
        | Some i => code_emit (OLoadLocal i)
        | None => build_word fo pr rf f name
        end
      | None => build_word fo pr rf f name
      end
    end.

  Definition build_end (d : nat) : M unit :=
    let* s' := get in
    if negb (length (nested s') =? d)%nat then fail EContext None
    else if has_pending_flow s' then fail EFlow None
    else ret tt.

  (* build1 is the iteration of: run pending code (meta mode), read a token, act on it *)
  Lemma build1_S f d s :
    build1 fo pr rf (S f) d s =
    (pre_run ;;
     let* t := get_token pr in
     match t with
     | BEnd => build_end d
     | _ => tok_act f t ;; build1 fo pr rf f d
     end) s.
  Proof.
    cbn [build1]. unfold pre_run, bind, get.
    destruct ((if mode_eqb (cmode (cx s)) MMeta && negb (has_pending_flow s) then run_m fo rf else ret tt) s)
      as [u s1|k p s1| |]; try reflexivity.
    destruct (get_token pr s1) as [[|w|c] s2|k p s2| |]; try reflexivity.
    unfold tok_act, bind, get.
    destruct (top_function_flow s2) as [[[di st] ls]|]; [|reflexivity].
    destruct (rposition ls w 0 None); reflexivity.
  Qed.

  (* the token is a word of the enum builder (as the dictionary of s resolves it).  Such a
     token performs two or three context operations at once (`enum`: open, open; a field word:
     close, open; `endenum`: close, close) and is NOT a token step in the sense of [tstep]: the
     block theorems of this file and of MetaSeg / MetaInline / MetaCompile2 are about sources
     whose tokens are not enum words; `enum ... endenum` itself is the subject of
     EnumBlock.v. *)
  Definition enum_tok (s : state) (t : btok) : bool :=
    match t with
    | BWord name =>
      match dict_entry s name with
      | Some (DFun true (FNative w) _) => enum_native w
      | _ => false
      end
    | _ => false
    end.

  Definition tstep (f : nat) (s s' : state) : Prop :=
    exists s1 t s2, pre_run s = ROk tt s1 /\ get_token pr s1 = ROk t s2 /\ t <> BEnd /\
                    enum_tok s2 t = false /\ tok_act f t s2 = ROk tt s'.

  Definition interned (txt : string) (s : state) : state :=
    set_input (set_sources s (sources s ++ [txt])) (mkinlex (length (sources s)) (lex_new txt) :: input s).

  (* the context is closed: possibly after popping the block's values for ~) *)
  Definition closes (cs di : nat) (s s' : state) : Prop :=
    exists s3 s4, R2 cs di s s3 /\ has_pending_flow s3 = false /\
                  context_close fo rf s3 = ROk tt s4 /\
                  (s' = s4 \/ exists txt, s' = interned txt s4).

  Definition cls (cs di : nat) (m : M unit) : Prop :=
    forall s s', Pre2 cs di s -> m s = ROk tt s' ->
      R2 cs di s s' \/ s' = opened s \/ closes cs di s s'.

  Lemma cls_fp cs di m : fp (F2 cs di) m -> cls cs di m.
  Proof.
    intros H s s' P E. specialize (H s P). rewrite E in H. left. exact H.
  Qed.

  Lemma cls_nested_begin cs di : cls cs di i_nested_begin.
  Proof.
    intros s s' P E. unfold i_nested_begin in E. rewrite context_open_meta in E.
    injection E as <-. right. left. reflexivity.
  Qed.

  Lemma cls_nested_end cs di : cls cs di (i_nested_end fo rf).
  Proof.
    intros s s' P E. unfold i_nested_end, bind, get in E.
    destruct (negb (mode_eqb (cmode (cx s)) MMeta)); [discriminate|].
    destruct (has_pending_flow s) eqn:Ep; [discriminate|].
    right. right. exists s, s'. split; [apply R2_refl; exact P|].
    split; [exact Ep|]. split; [exact E|]. left. reflexivity.
  Qed.

  Lemma cls_nested_inject cs di : cls cs di (i_nested_inject fo rf).
  Proof.
    intros s s' P E. unfold i_nested_inject in E. unfold bind at 1 in E. unfold get at 1 in E.
    destruct (negb (mode_eqb (cmode (cx s)) MMeta)); [discriminate|].
    destruct (has_pending_flow s) eqn:Ep; [discriminate|].
    unfold bind at 1 in E.
    assert (Hw : wl (vec_collect_till_ptr (ds_len (cx s)))) by wl_solve.
    pose proof (fpp_wl cs di _ _ Hw s P) as H1. cbn [F2 fr_rel] in H1.
    pose proof (wl_core _ _ Hw s) as C1. pose proof (wl_fn _ _ Hw s) as N1.
    destruct (vec_collect_till_ptr (ds_len (cx s)) s) as [v s3|? ? ?| |]; try discriminate.
    cbn [res_all] in H1, C1, N1.
    unfold bind at 1 in E. unfold join_str_vec in E.
    destruct (join_cells 40 (Some " ") v) as [txt|]; [|discriminate].
    unfold ret at 1 in E. unfold bind in E.
    destruct (context_close fo rf s3) as [[] s4|? ? ?| |] eqn:Ec; try discriminate.
    unfold intern_source in E. injection E as <-.
    right. right. exists s3, s4. split; [exact H1|]. split.
    - destruct C1 as (_ & _ & _ & Fl). destruct N1 as (_ & _ & Mk).
      unfold has_pending_flow in *. rewrite Fl. unfold marks in Mk. injection Mk as -> _ _. exact Ep.
    - split; [exact Ec|]. right. exists txt. reflexivity.
  Qed.

  Lemma ctx_word_cases n : ctx_word n = true -> n = "#(" \/ n = "#)" \/ n = "~)" \/ enum_native n = true.
  Proof.
    unfold ctx_word. intros H. apply orb_true_iff in H. destruct H as [H|H]; [|auto].
    apply orb_true_iff in H. destruct H as [H|H].
    - apply orb_true_iff in H. destruct H as [H|H]; apply String.eqb_eq in H; auto.
    - apply String.eqb_eq in H. auto.
  Qed.

  Lemma cls_ctx_words cs di fuel n w :
    immediate_fn fo pr rf fuel n = Some w -> ctx_word n = true -> enum_native n = false -> cls cs di w.
  Proof.
    intros H Hc Hn. destruct (ctx_word_cases n Hc) as [ -> | [ -> | [ -> | C ] ] ]; [| | |congruence].
    - assert (E : immediate_fn fo pr rf fuel "#(" = Some i_nested_begin) by reflexivity.
      rewrite E in H. injection H as <-. apply cls_nested_begin.
    - assert (E : immediate_fn fo pr rf fuel "#)" = Some (i_nested_end fo rf)) by reflexivity.
      rewrite E in H. injection H as <-. apply cls_nested_end.
    - assert (E : immediate_fn fo pr rf fuel "~)" = Some (i_nested_inject fo rf)) by reflexivity.
      rewrite E in H. injection H as <-. apply cls_nested_inject.
  Qed.

  Lemma cls_build_word cs di f name s s' : enum_tok s (BWord name) = false ->
    Pre2 cs di s -> build_word fo pr rf f name s = ROk tt s' ->
    R2 cs di s s' \/ s' = opened s \/ closes cs di s s'.
  Proof.
    intros Hn P E. unfold build_word, bind, get in E. cbn [enum_tok] in Hn.
    destruct (dict_entry s name) as [[c|a|[|] [x|n] len]|]; try discriminate.
    - eapply (cls_fp _ _ _ (fpp_code_emit cs di _)); eassumption.
    - eapply (cls_fp _ _ _ (fpp_code_emit cs di _)); eassumption.
    - eapply (cls_fp _ _ _ (fpp_run_interp cs di fo pr rf f x)); eassumption.
    - unfold run_immediate in E.
      destruct (immediate_fn fo pr rf f n) as [w|] eqn:Ei; [|discriminate].
      destruct (ctx_word n) eqn:Ec.
      + eapply cls_ctx_words; eassumption.
      + eapply (cls_fp _ _ _ (fpp_immediate_fn cs di fo pr rf f n w Ei Ec)); eassumption.
    - eapply (cls_fp _ _ _ (fpp_code_emit cs di _)); eassumption.
    - eapply (cls_fp _ _ _ (fpp_code_emit cs di _)); eassumption.
  Qed.

  Lemma cls_tok_act cs di f t s s' : enum_tok s t = false ->
    Pre2 cs di s -> tok_act f t s = ROk tt s' ->
    R2 cs di s s' \/ s' = opened s \/ closes cs di s s'.
  Proof.
    intros Hn P E. destruct t as [|name|v]; cbn [tok_act] in E.
    - eapply (cls_fp _ _ _ (fp_ret _ _ _)); eassumption.
    - unfold bind, get in E.
      destruct (top_function_flow s) as [[[d st] ls]|].
      + destruct (rposition ls name 0 None).
        * eapply (cls_fp _ _ _ (fpp_code_emit cs di _)); eassumption.
        * eapply cls_build_word; eassumption.
      + eapply cls_build_word; eassumption.
    - eapply (cls_fp _ _ _ (fpp_code_emit_value cs di v)); eassumption.
  Qed.

  Lemma fpp_pre_run cs di : fp (F2 cs di) pre_run.
  Proof. unfold pre_run. fpp_solve. Qed.

  Theorem tstep_cls cs di f s s' : Pre2 cs di s -> tstep f s s' ->
    R2 cs di s s' \/ (exists s2, R2 cs di s s2 /\ s' = opened s2) \/ closes cs di s s'.
  Proof.
    intros P (s1 & t & s2 & E1 & E2 & Ht & Hn & E3).
    pose proof (fpp_pre_run cs di s P) as H1. rewrite E1 in H1. cbn [res_all F2 fr_rel] in H1.
    pose proof (R2_keep _ _ _ _ P H1) as P1.
    pose proof (fpp_core cs di _ _ (fp_scorep _ _ (scorep_get_token pr)) (corep_get_token pr) s1 P1) as H2.
    rewrite E2 in H2. cbn [res_all F2 fr_rel] in H2.
    pose proof (R2_trans _ _ _ _ _ H1 H2) as H12.
    pose proof (R2_keep _ _ _ _ P H12) as P2.
    destruct (cls_tok_act cs di f t s2 s' Hn P2 E3) as [H|[H|(s3 & s4 & A & B & C & D)]].
    - left. eapply R2_trans; eassumption.
    - right. left. exists s2. split; assumption.
    - right. right. exists s3, s4. split; [eapply R2_trans; eassumption|]. repeat split; assumption.
  Qed.
End Steps.

(* ---------- a whole block ---------- *)
(* the state inside a freshly opened block, without the context-stack push *)
Definition inner (t : state) : state := set_cx t (open_ctx t).

Lemma opened_inner t : opened t = set_nested (inner t) (cx t :: nested t).
Proof. reflexivity. Qed.

Lemma Pre2_set_nested cs di s r : Pre2 cs di s -> Pre2 cs di (set_nested s r).
Proof. intros H. exact H. Qed.

Lemma R2_unnest cs di a b r : R2 cs di a b -> R2 cs di (set_nested a r) (set_nested b r).
Proof.
  intros ((A1 & A2 & A3) & B). split; [|exact B]. split; [exact A1|]. split; [reflexivity|exact A3].
Qed.

Lemma Pre2_inner t : wfm t -> cd_inv t -> Pre2 (length (code t)) (length (dict t)) (inner t).
Proof.
  intros W Hcd. split; [split; [reflexivity|apply (opened_wfm t W)]|].
  repeat split; try reflexivity; try exact Hcd; try (cbn; lia).
  unfold UP, pending, inner, open_ctx. cbn [set_cx flows cx fs_len]. rewrite Nat.sub_diag. constructor.
Qed.

Lemma Pre2_opened t : wfm t -> cd_inv t -> Pre2 (length (code t)) (length (dict t)) (opened t).
Proof. intros W Hcd. apply (Pre2_inner t W Hcd). Qed.

Section Block.
  Variable fo : fops.
  Variable rf : nat.

  (* closing: the machine state the close is computed from *)
  Lemma block_close t w t' :
    wfm t -> cd_inv t ->
    R2 (length (code t)) (length (dict t)) (opened t) w -> has_pending_flow w = false ->
    context_close fo rf w = ROk tt t' ->
    exists w1, R2 (length (code t)) (length (dict t)) (inner t) w1 /\ flows w1 = flows t /\
               t' = close_state w1 (cx t).
  Proof.
    intros W Hcd H Hp Ec.
    pose proof (Pre2_opened t W Hcd) as P0.
    pose proof (R2_keep _ _ _ _ P0 H) as Pw.
    assert (Mw : is_meta w) by apply Pw.
    destruct (context_close_meta_inv fo rf w t' Mw Ec) as (prev & rest & w1 & En & Er).
    assert (En' : nested w = cx t :: nested t) by (destruct H as ((_ & N & _) & _); exact N).
    rewrite En' in En. injection En as <- <-.
    pose proof (fpp_run_m fo _ _ rf (set_nested w (nested t)) (Pre2_set_nested _ _ _ _ Pw)) as H1.
    rewrite Er in H1. cbn [res_all F2 fr_rel] in H1.
    pose proof (R2_unnest _ _ _ _ (nested t) H) as H0.
    change (set_nested (opened t) (nested t)) with (inner t) in H0.
    pose proof (R2_trans _ _ _ _ _ H0 H1) as H01.
    pose proof (run_m_fr fo rf (set_nested w (nested t))) as Fr. rewrite Er in Fr. cbn [res_all] in Fr.
    destruct Fr as (Fl & _).
    assert (Flw : flows w = flows t).
    { pose proof H as ((_ & _ & Em & _ & _ & _ & _ & K) & _).
      change (fs_len (cx (opened t))) with (length (flows t)) in K. change (flows (opened t)) with (flows t) in K.
      destruct (keeps_all _ _ K) as (a & Ea).
      unfold has_pending_flow in Hp. apply Nat.ltb_ge in Hp.
      assert (Fw : fs_len (cx w) = length (flows t)).
      { destruct (cmarks_fields _ _ Em) as (_ & _ & _ & F4 & _). exact F4. }
      rewrite Fw, Ea, app_length in Hp. destruct a; [exact Ea|cbn [length] in Hp; lia]. }
    exists w1. split; [exact H01|]. split; [cbn [set_nested flows] in Fl; congruence|].
    assert (Cl : closable w1).
    { pose proof (R2_keep _ _ _ _ (Pre2_inner t W Hcd) H01) as ([_ Ww] & Ecs & Edi & Lc & Ld & Hcd1 & _).
      unfold closable. rewrite Ecs, Edi. repeat split; try assumption. apply Ww. }
    rewrite (context_close_meta fo rf w (cx t) (nested t) w1 En' Mw Er Cl) in Ec.
    injection Ec as <-. reflexivity.
  Qed.

  (* what the closed state is, relative to the state the block was opened in *)
  Theorem block_spec t w1 :
    wfm t -> cd_inv t ->
    R2 (length (code t)) (length (dict t)) (inner t) w1 -> flows w1 = flows t ->
    let t' := close_state w1 (cx t) in
    let n := ds_len (open_ctx t) in
    let res := if emit_flag w1 (cx t) then results w1 else [] in
    cx t' = cx t /\ nested t' = nested t /\ heap t' = heap t /\ flows t' = flows t /\
    (exists c', rpatch (code t) c' /\ code t' = c' ++ map load_value_opcode res) /\
    (exists d', cpatch (dict t) d' /\ dict t' = d' ++ purge_all (skipn (length (dict t)) (dict w1))) /\
    dbg t' = firstn (length (code t)) (dbg t) ++ repeat (loc_of w1) (length res) /\
    keeps n (ds t) (ds w1) /\
    ds t' = (if emit_flag w1 (cx t) then lastn n (ds t) else ds w1) /\
    keeps (length (rs t)) (rs t) (rs t') /\ keeps (length (loops t)) (loops t) (loops t') /\
    keeps (length (special t)) (special t) (special t') /\
    emit_flag w1 (cx t) = negb (mode_eqb (cmode (cx t)) MMeta) || building_fun t (cx t).
  Proof.
    intros W Hcd H Fl t' n res.
    pose proof H as ((Hh & Hn & Hm & Kd & Kr & Kl & Ks & Kf) & Rc & Rd & Eg & Lc & Ld & Hcd1 & _).
    destruct (cmarks_fields _ _ Hm) as (M1 & M2 & M3 & M4 & M5 & M6 & M7 & M8).
    change (heap (inner t)) with (heap t) in Hh. change (nested (inner t)) with (nested t) in Hn.
    change (cs_len (cx (inner t))) with (length (code t)) in M2.
    change (di_len (cx (inner t))) with (length (dict t)) in M7.
    change (ds_len (cx (inner t))) with n in M1, Kd.
    change (code (inner t)) with (code t) in Rc. change (dict (inner t)) with (dict t) in Rd.
    change (dbg (inner t)) with (dbg t) in Eg.
    change (ds (inner t)) with (ds t) in Kd. change (rs (inner t)) with (rs t) in Kr.
    change (loops (inner t)) with (loops t) in Kl. change (special (inner t)) with (special t) in Ks.
    change (rs_len (cx (inner t))) with (length (rs t)) in Kr.
    change (ls_len (cx (inner t))) with (length (loops t)) in Kl.
    change (ss_ptr (cx (inner t))) with (length (special t)) in Ks.
    rewrite firstn_all in Rc, Rd.
    destruct (close_rest w1 (cx t)) as (Q1 & Q2 & Q3 & Q4 & _).
    split; [apply close_cx|]. split; [unfold t'; rewrite close_nested; exact Hn|].
    split; [unfold t'; rewrite close_heap; exact Hh|]. split; [unfold t'; rewrite Q2; exact Fl|].
    split; [|split; [|split; [|split; [|split; [|split; [|split; [|split]]]]]]].
    - exists (firstn (length (code t)) (code w1)). split; [exact Rc|].
      unfold t'. rewrite close_code, M2. reflexivity.
    - exists (firstn (length (dict t)) (dict w1)). split; [exact Rd|].
      unfold t'. rewrite close_dict, M7. reflexivity.
    - unfold t'. rewrite close_dbg, M2, Eg. reflexivity.
    - exact Kd.
    - unfold t'. rewrite close_ds, M1. destruct (emit_flag w1 (cx t)); [apply Kd|reflexivity].
    - unfold t'. rewrite Q1. exact Kr.
    - unfold t'. rewrite Q3. exact Kl.
    - unfold t'. rewrite Q4. exact Ks.
    - unfold emit_flag, building_fun. rewrite Fl. reflexivity.
  Qed.

  (* seen from an enclosing meta context a whole block is one more same-context step *)
  Theorem block_R2 cs di t w1 :
    Pre2 cs di t ->
    R2 (length (code t)) (length (dict t)) (inner t) w1 -> flows w1 = flows t ->
    R2 cs di t (close_state w1 (cx t)).
  Proof.
    intros P H Fl. pose proof P as ([Hm W] & E1 & E2 & L1 & L2 & Hcd & Hup).
    destruct (block_spec t w1 W Hcd H Fl)
      as (B1 & B2 & B3 & B4 & (c' & Rc & Ec) & (d' & Rd & Ed) & Eg & Kd & Eds & Kr & Kl & Ks & _).
    set (t' := close_state w1 (cx t)) in *.
    assert (Hn : ds_len (open_ctx t) = ds_len (cx t)).
    { unfold open_ctx. cbn [ds_len]. unfold is_meta in Hm. rewrite Hm. reflexivity. }
    rewrite Hn in *.
    destruct W as (W1 & W2 & W3 & W4 & W5).
    assert (Lc' : length c' = length (code t)) by apply Rc.
    assert (Ld' : length d' = length (dict t)) by apply Rd.
    assert (Sl : sealed t t').
    { unfold sealed. rewrite B1, B2, B3, B4. repeat split; try reflexivity; try assumption.
      - rewrite Eds. destruct (emit_flag w1 (cx t)); [rewrite lastn_length; lia|apply Kd].
      - rewrite Eds. destruct (emit_flag w1 (cx t)); [apply lastn_lastn; lia|apply Kd].
      - apply (keeps_le _ _ _ _ W2 Kr). lia.
      - apply (keeps_le _ _ _ _ W2 Kr). lia.
      - apply (keeps_le _ _ _ _ W3 Kl). lia.
      - apply (keeps_le _ _ _ _ W3 Kl). lia.
      - apply (keeps_le _ _ _ _ W4 Ks). lia.
      - apply (keeps_le _ _ _ _ W4 Ks). lia. }
    unfold R2. split; [exact Sl|].
    split; [|split; [|split; [|split; [|split; [|split]]]]].
    - rewrite Ec. rewrite firstn_app_le by lia. apply rpatch_firstn. exact Rc.
    - rewrite Ed. rewrite firstn_app_le by lia. apply cpatch_firstn. exact Rd.
    - rewrite Eg. unfold cd_inv in Hcd.
      rewrite firstn_app_le by (rewrite firstn_length; lia). apply firstn_firstn_le. exact L1.
    - rewrite Ec, app_length. lia.
    - rewrite Ed, app_length. lia.
    - unfold cd_inv in *. rewrite Ec, Eg, !app_length, map_length, repeat_length, firstn_length. lia.
    - unfold UP. rewrite (pending_eq t t'); [exact Hup|exact B4|rewrite B1; reflexivity].
  Qed.
End Block.
