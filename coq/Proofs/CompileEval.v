(* CompileEval.v: unfolding equations of the structural evaluator (its nested fixpoints get
   names), and the machine-side lemmas for jumps, calls and returns. *)
From Xeh Require Import Model.Prelude Model.Bits Model.Codec Model.Cell Model.Lexer Model.Fmt
                        Model.Vm Model.Words Model.Struct
                        Proofs.VmFrame Proofs.CompileSim Proofs.CompileLayout Proofs.CompileStep.
Local Notation length := List.length.

#[local] Arguments Z.add : simpl never.
#[local] Arguments Z.sub : simpl never.
#[local] Arguments Z.mul : simpl never.
#[local] Arguments Z.ltb : simpl never.
#[local] Arguments Z.leb : simpl never.
#[local] Arguments Z.eqb : simpl never.
#[local] Arguments Z.of_nat : simpl never.
#[local] Arguments Z.to_nat : simpl never.

Definition m_test : M bool := let* c := pop_data in m_cond c.
Definition m_caseof : M bool := let* a := pop_data in let* b := top_data in ret (cell_eqb a b).
Definition m_loadlocal (i : nat) : M unit :=
  let* fr := top_frame in
  match nth_error (locals fr) i with
  | Some v => push_data v
  | None => fail ELocalOob None
  end.

Section Eq.
  Variable fo : fops.
  Variable funs : list (nat * list stmt).

  (* the loop of do ... loop *)
  Section DoIter.
    Variable f : nat.
    Variable b : list stmt.
    Variable pl : pos.
    Fixpoint do_iter (k : nat) (s : state) : sres :=
      match k with
      | O => SOut
      | S k' =>
        match sblock fo funs f b s with
        | SDone s3 =>
          run_m loop_next pl s3 (fun more s4 =>
            if more then do_iter k' s4 else run_m pop_loop pl s4 (fun _ s5 => SDone s5))
        | SBroke s3 => run_m pop_loop pl s3 (fun _ s4 => SDone s4)
        | other => other
        end
      end.
  End DoIter.

  (* the arms of case ... endcase *)
  Section CaseGo.
    Variable f : nat.
    Variable dflt : list stmt.
    Fixpoint case_go (arms : list arm) (s : state) : sres :=
      match arms with
      | [] => sblock fo funs f dflt s
      | (pre, pof, body) :: r =>
        match sblock fo funs f pre s with
        | SDone s1 =>
          run_m m_caseof pof s1 (fun eq s2 =>
            if eq then run_m pop_data pof s2 (fun _ s3 => sblock fo funs f body s3)
            else case_go r s2)
        | other => other
        end
      end.
  End CaseGo.

  Lemma sblock_0 : forall l s, sblock fo funs 0 l s = SOut.
  Proof. reflexivity. Qed.
  Lemma sstmt_0 : forall x s, sstmt fo funs 0 x s = SOut.
  Proof. reflexivity. Qed.
  Lemma sblock_nil : forall f s, sblock fo funs (S f) [] s = SDone s.
  Proof. reflexivity. Qed.
  Lemma sblock_cons : forall f x r s,
    sblock fo funs (S f) (x :: r) s =
    match sstmt fo funs f x s with
    | SDone s' => sblock fo funs f r s'
    | other => other
    end.
  Proof. reflexivity. Qed.

  Lemma sstmt_Lit : forall f c p s,
    sstmt fo funs (S f) (SLit c p) s = run_m (push_data c) p s (fun _ s' => SDone s').
  Proof. reflexivity. Qed.
  Lemma sstmt_Prim : forall f w p s,
    sstmt fo funs (S f) (SPrim w p) s =
    match native_fn fo w with
    | Some m => run_m m p s (fun _ s' => SDone s')
    | None => SUnsup
    end.
  Proof. reflexivity. Qed.
  Lemma sstmt_Get : forall f a p s,
    sstmt fo funs (S f) (SGet a p) s = run_m (let* v := get_var a in push_data v) p s (fun _ s' => SDone s').
  Proof. reflexivity. Qed.
  Lemma sstmt_Set : forall f a p s,
    sstmt fo funs (S f) (SSet a p) s = run_m (let* v := pop_data in set_var a v) p s (fun _ s' => SDone s').
  Proof. reflexivity. Qed.
  Lemma sstmt_LocSet : forall f i p s,
    sstmt fo funs (S f) (SLocSet i p) s = run_m (let* v := pop_data in init_local i v) p s (fun _ s' => SDone s').
  Proof. reflexivity. Qed.
  Lemma sstmt_LocGet : forall f i p s,
    sstmt fo funs (S f) (SLocGet i p) s = run_m (m_loadlocal i) p s (fun _ s' => SDone s').
  Proof. reflexivity. Qed.
  Lemma sstmt_Def : forall f g s, sstmt fo funs (S f) (SDef g) s = SDone s.
  Proof. reflexivity. Qed.
  Lemma sstmt_Break : forall f s, sstmt fo funs (S f) SBreak s = SBroke s.
  Proof. reflexivity. Qed.
  Lemma sstmt_Call : forall f g p s,
    sstmt fo funs (S f) (SCall g p) s =
    match fun_body funs g with
    | None => SUnsup
    | Some body =>
      run_m (push_return (mkframe 0 0 [])) p s (fun _ s1 =>
        match sblock fo funs f body s1 with
        | SDone s2 => run_m pop_return p s2 (fun _ s3 => SDone s3)
        | other => other
        end)
    end.
  Proof. reflexivity. Qed.
  Lemma sstmt_If : forall f p t s,
    sstmt fo funs (S f) (SIf p t) s =
    run_m m_test p s (fun b s1 => if b then sblock fo funs f t s1 else SDone s1).
  Proof. reflexivity. Qed.
  Lemma sstmt_IfE : forall f p t e s,
    sstmt fo funs (S f) (SIfE p t e) s =
    run_m m_test p s (fun b s1 => if b then sblock fo funs f t s1 else sblock fo funs f e s1).
  Proof. reflexivity. Qed.
  Lemma sstmt_Until : forall f b p s,
    sstmt fo funs (S f) (SUntil b p) s =
    match sblock fo funs f b s with
    | SDone s1 => run_m m_test p s1 (fun c s2 => if c then SDone s2 else sstmt fo funs f (SUntil b p) s2)
    | other => other
    end.
  Proof. reflexivity. Qed.
  Lemma sstmt_Repeat : forall f b s,
    sstmt fo funs (S f) (SRepeat b) s =
    match sblock fo funs f b s with
    | SDone s1 => sstmt fo funs f (SRepeat b) s1
    | SBroke s1 => SDone s1
    | other => other
    end.
  Proof. reflexivity. Qed.
  Lemma sstmt_While : forall f c p b s,
    sstmt fo funs (S f) (SWhile c p b) s =
    match sblock fo funs f c s with
    | SDone s1 =>
      run_m m_test p s1 (fun go s2 =>
        if go then
          match sblock fo funs f b s2 with
          | SDone s3 => sstmt fo funs f (SWhile c p b) s3
          | SBroke s3 => SDone s3
          | other => other
          end
        else SDone s2)
    | SBroke s1 => SDone s1
    | other => other
    end.
  Proof. reflexivity. Qed.
  Lemma sstmt_Do : forall f p b pl s,
    sstmt fo funs (S f) (SDo p b pl) s =
    run_m do_init p s (fun l s1 =>
      if (l_end l <=? l_start l)%Z then SDone s1
      else run_m (push_loop l) p s1 (fun _ s2 => do_iter f b pl f s2)).
  Proof. reflexivity. Qed.
  Lemma sstmt_Case : forall f arms d s,
    sstmt fo funs (S f) (SCase arms d) s = case_go f d arms s.
  Proof. reflexivity. Qed.
End Eq.

(* ---------- instructions as "shared action, then move" ---------- *)
Section Exec.
  Variable nf : natives.

  Lemma load_value_not_resolve : forall c n, load_value_opcode c <> OResolve n.
  Proof. intros c n. destruct c; cbn [load_value_opcode]; try discriminate. destruct (in_i64 z); discriminate. Qed.

  Lemma exec_load_value : forall ip0 c s1,
    exec_op nf ip0 (load_value_opcode c) s1 = bind (push_data c) (fun _ => next_ip) s1.
  Proof.
    intros ip0 c s1. destruct c; cbn [load_value_opcode]; try reflexivity.
    destruct (in_i64 z); reflexivity.
  Qed.

  Lemma exec_load : forall ip0 a s1,
    exec_op nf ip0 (OLoad a) s1 = bind (let* v := get_var a in push_data v) (fun _ => next_ip) s1.
  Proof. intros. cbn [exec_op]. symmetry. apply bind_assoc. Qed.
  Lemma exec_store : forall ip0 a s1,
    exec_op nf ip0 (OStore a) s1 = bind (let* v := pop_data in set_var a v) (fun _ => next_ip) s1.
  Proof. intros. cbn [exec_op]. symmetry. apply bind_assoc. Qed.
  Lemma exec_initlocal : forall ip0 i s1,
    exec_op nf ip0 (OInitLocal i) s1 = bind (let* v := pop_data in init_local i v) (fun _ => next_ip) s1.
  Proof. intros. cbn [exec_op]. symmetry. apply bind_assoc. Qed.
  Lemma exec_loadlocal : forall ip0 i s1,
    exec_op nf ip0 (OLoadLocal i) s1 = bind (m_loadlocal i) (fun _ => next_ip) s1.
  Proof.
    intros. cbn [exec_op]. unfold m_loadlocal, bind. destruct (top_frame s1); try reflexivity.
    destruct (nth_error (locals a) i); reflexivity.
  Qed.
  Lemma exec_jumpifnot : forall ip0 rel s1,
    exec_op nf ip0 (OJumpIfNot rel) s1 =
    bind m_test (fun b => if negb b then set_ip (jump_target ip0 rel) else next_ip) s1.
  Proof. intros. cbn [exec_op]. symmetry. apply bind_assoc. Qed.
  Lemma exec_caseof : forall ip0 rel s1,
    exec_op nf ip0 (OCaseOf rel) s1 =
    bind m_caseof (fun eq => if eq then (let* _ := pop_data in next_ip) else set_ip (jump_target ip0 rel)) s1.
  Proof.
    intros. cbn [exec_op]. unfold m_caseof, bind, ret. destruct (pop_data s1); try reflexivity.
    destruct (top_data s); reflexivity.
  Qed.
End Exec.

Lemma par_m_test : par m_test.
Proof. exact par_cond. Qed.
Lemma par_m_caseof : par m_caseof.
Proof. exact par_caseof. Qed.
Lemma par_m_loadlocal : forall i, par (m_loadlocal i).
Proof. exact par_loadlocal. Qed.

(* ---------- continuing inside / after an instruction ---------- *)
Section Cont.
  Variable nf : natives.
  Variable c : list opcode.

  Lemma cont_goto : forall s s1 t' n, after c s s1 -> sim t' s1 ->
    exists s2, set_ip n s1 = ROk tt s2 /\ mach c s2 /\ ip s2 = n /\ sim t' s2 /\ rskeys s2 = rskeys s.
  Proof.
    intros s s1 t' n A Hsim. destruct (after_goto c s s1 n A) as (E & M & K).
    exists (set_ip_raw s1 n). repeat (split; [assumption|]). split; [reflexivity|].
    split; [apply sim_set_ip_r; exact Hsim|exact K].
  Qed.

  Lemma cont_next : forall s s1 t', after c s s1 -> sim t' s1 ->
    exists s2, next_ip s1 = ROk tt s2 /\ mach c s2 /\ ip s2 = S (ip s) /\ sim t' s2 /\ rskeys s2 = rskeys s.
  Proof.
    intros s s1 t' A Hsim. destruct (after_next c s s1 A) as (E & M & K).
    exists (set_ip_raw s1 (S (ip s))). repeat (split; [assumption|]). split; [reflexivity|].
    split; [apply sim_set_ip_r; exact Hsim|exact K].
  Qed.

  (* a second shared action inside the same instruction *)
  Lemma cont_run_m : forall A (m : M A) (km : A -> M unit) (ke : A -> state -> sres) p t1 s s1 endp bc,
    par m -> mach c s -> sim t1 s1 -> after c s s1 ->
    fetch_and_run nf s = bind m km s1 ->
    (forall a t2 s2, m t1 = ROk a t2 -> sim t2 s2 -> after c s s2 -> fetch_and_run nf s = km a s2 ->
                     ok nf c s endp bc (ke a t2)) ->
    ok nf c s endp bc (run_m m p t1 ke).
  Proof.
    intros A m km ke p t1 s s1 endp bc Hp M0 S1 A1 F Hk.
    destruct A1 as (M1 & I1 & K1).
    pose proof (Hp t1 s1 S1 (m_rlog _ _ M1)) as H. unfold bind in F. unfold run_m.
    destruct (m t1) as [a t2|k pl t2| |] eqn:E1, (m s1) as [b s2|k' pl' s2| |] eqn:E2;
      cbn [rrel] in H; try contradiction; cbn [ok]; auto.
    - destruct H as (<- & S2 & K2). eapply Hk; eauto.
      destruct K2 as (Ka&Kb&Kc&Kd&Ke&Kf). split; [|split].
      + destruct M1 as [Mc Ml Mi]. split; congruence.
      + congruence.
      + unfold rskeys in *. congruence.
    - destruct H as (<- & <- & S2 & K2). exists s, s2. split; [apply reaches_refl|]. split; [exact M0|]. split; assumption.
  Qed.

  (* an unconditional jump *)
  Lemma jump_to : forall s t rel, mach c s -> sim t s -> nth_error c (ip s) = Some (OJump rel) ->
    exists s1, fetch_and_run nf s = ROk tt s1 /\ mach c s1 /\ ip s1 = jump_target (ip s) rel /\
               sim t s1 /\ rskeys s1 = rskeys s.
  Proof.
    intros s t rel M Hsim Hn. destruct M as [Mc Ml Mi].
    rewrite (fetch_plain nf s (OJump rel) Mi) by (rewrite ?Mc; assumption || discriminate).
    cbn [exec_op]. rewrite set_ip_off by exact Ml.
    eexists. split; [reflexivity|]. split; [split; assumption|]. split; [reflexivity|].
    split; [apply sim_set_ip_r, sim_set_meter_r; exact Hsim|reflexivity].
  Qed.

  (* a finished tree followed by a jump *)
  Lemma ok_then_jump : forall s e e' bc r rel,
    ok nf c s e bc r -> nth_error c e = Some (OJump rel) -> jump_target e rel = e' ->
    ok nf c s e' bc r.
  Proof.
    intros s e e' bc r rel H Hn Hj. destruct r as [t'|t'|k pl p t'| |]; cbn [ok] in *; auto.
    destruct H as (s1 & R & M & I & Hsim & K). subst e.
    destruct (jump_to s1 t' rel M Hsim Hn) as (s2 & F & M2 & I2 & S2 & K2).
    exists s2. split; [eapply reaches_trans; [exact R|eapply reaches_step; eauto using reaches_refl]|].
    split; [exact M2|]. split; [congruence|]. split; [exact S2|congruence].
  Qed.

  (* calls and returns *)
  Lemma call_to : forall s t a, mach c s -> sim t s -> nth_error c (ip s) = Some (OCall a) ->
    exists t1 s1, push_return (mkframe 0 0 []) t = ROk tt t1 /\
                  fetch_and_run nf s = ROk tt s1 /\ mach c s1 /\ ip s1 = a /\ sim t1 s1 /\
                  rskeys s1 = (a, S (ip s)) :: rskeys s.
  Proof.
    intros s t a M Hsim Hn. destruct M as [Mc Ml Mi].
    rewrite (fetch_plain nf s (OCall a) Mi) by (rewrite ?Mc; assumption || discriminate).
    cbn [exec_op]. unfold bind, push_return.
    assert (Hlt : rlog t = None) by (rewrite (sim_rlog _ _ Hsim); exact Ml).
    rewrite !add_rstep_off by assumption.
    rewrite set_ip_off by exact Ml.
    eexists. eexists. split; [reflexivity|]. split; [reflexivity|].
    split; [split; assumption|]. split; [reflexivity|]. split; [|reflexivity].
    apply sim_set_ip_r. apply sim_set_rs; [apply sim_set_meter_r; exact Hsim|].
    cbn [map]. f_equal. exact (sim_rs_strip _ _ Hsim).
  Qed.

  Lemma ret_to : forall s t a r K, mach c s -> sim t s -> nth_error c (ip s) = Some ORet ->
    rskeys s = (a, r) :: K ->
    match pop_return t with
    | ROk _ t1 => exists s1, fetch_and_run nf s = ROk tt s1 /\ mach c s1 /\ ip s1 = r /\ sim t1 s1 /\ rskeys s1 = K
    | RErr k pl t1 => exists s1, fetch_and_run nf s = RErr k pl s1 /\ sim t1 s1
    | RPanic => False
    | RUnsup => False
    end.
  Proof.
    intros s t a r K M Hsim Hn HK. destruct M as [Mc Ml Mi].
    rewrite (fetch_plain nf s ORet Mi) by (rewrite ?Mc; assumption || discriminate).
    cbn [exec_op]. unfold bind, pop_return.
    assert (Hlt : rlog t = None) by (rewrite (sim_rlog _ _ Hsim); exact Ml).
    pose proof (sim_rs_strip _ _ Hsim) as Hr. pose proof (sim_rs_length _ _ Hsim) as Hlen.
    destruct (sim_marks _ _ Hsim) as (_ & Hm & _).
    change (rs (set_meter s (meter s + 1)%Z)) with (rs s).
    change (cx (set_meter s (meter s + 1)%Z)) with (cx s).
    rewrite Hm, Hlen. unfold rskeys in HK.
    destruct (rs s) as [|fs rs'] eqn:Es; [discriminate|].
    destruct (rs t) as [|ft rt] eqn:Et; [discriminate|].
    cbn [map] in HK, Hr.
    assert (Hk1b : return_to fs = r)
      by (apply (f_equal (fun l => match l with x :: _ => snd x | [] => 0 end)) in HK; exact HK).
    assert (Hk2 : map fkey rs' = K) by (apply (f_equal (@tl _)) in HK; exact HK).
    assert (Hr2 : map strip rt = map strip rs') by (apply (f_equal (@tl _)) in Hr; exact Hr).
    destruct (rs_len (cx s) <? length (fs :: rs')).
    - rewrite !add_rstep_off by assumption. rewrite set_ip_off by exact Ml.
      eexists. split; [reflexivity|]. split; [split; assumption|].
      split; [exact Hk1b|]. split.
      + apply sim_set_ip_r. apply sim_set_rs; [apply sim_set_meter_r; exact Hsim|exact Hr2].
      + unfold rskeys. cbn [rs set_ip_raw set_cx set_rs]. exact Hk2.
    - eexists. split; [reflexivity|]. apply sim_set_meter_r. exact Hsim.
  Qed.
End Cont.
