(* CompileParse.v: every tree the parser of Struct.v returns is well formed in the sense the
   simulation theorem needs: no pending break at top level, in a function body or in the body
   of begin ... until, and (when the layout accepts the program) every function is defined
   by a top-level `:`.  So the theorems hold for every source, not just for trees that
   happen to satisfy [prog_wf]. *)
From Xeh Require Import Model.Prelude Model.Bits Model.Codec Model.Cell Model.Lexer Model.Fmt
                        Model.Vm Model.Words Model.Struct
                        Proofs.CompileLayout Proofs.CompileProg.
From Coq Require Import Ascii.
Local Notation length := List.length.
Local Open Scope string_scope.

(* ---------- matching on keyword literals ---------- *)
Ltac close_m HD HS :=
  first [ apply HD
        | match goal with H : _ = _ -> _ |- _ => apply H; reflexivity end ].

Ltac chars term n k :=
  lazymatch n with
  | O => idtac
  | S ?m => destruct term as [|[[] [] [] [] [] [] [] []] term]; try (solve [k]); chars term m k
  end.

Section StrMatch.
  Variable T : Type.
  Variable P : T -> Prop.

  Lemma m1_then : forall A D term,
    (term = "then" -> P A) -> P D -> P (match term with "then" => A | _ => D end).
  Proof. intros A D term HA HD. chars term 5 ltac:(first [apply HD|apply HA; reflexivity]). Qed.

  Lemma m1_endof : forall A D term,
    (term = "endof" -> P A) -> P D -> P (match term with "endof" => A | _ => D end).
  Proof. intros A D term HA HD. chars term 6 ltac:(first [apply HD|apply HA; reflexivity]). Qed.

  Lemma m1_repeat : forall A D term,
    (term = "repeat" -> P A) -> P D -> P (match term with "repeat" => A | _ => D end).
  Proof. intros A D term HA HD. chars term 7 ltac:(first [apply HD|apply HA; reflexivity]). Qed.

  Lemma m1_loop : forall A D term,
    (term = "loop" -> P A) -> P D -> P (match term with "loop" => A | _ => D end).
  Proof. intros A D term HA HD. chars term 5 ltac:(first [apply HD|apply HA; reflexivity]). Qed.

  Lemma m1_semi : forall A D term,
    (term = ";" -> P A) -> P D -> P (match term with ";" => A | _ => D end).
  Proof. intros A D term HA HD. chars term 2 ltac:(first [apply HD|apply HA; reflexivity]). Qed.

  Lemma m1_empty : forall A D term,
    (term = "" -> P A) -> P D -> P (match term with "" => A | _ => D end).
  Proof. intros A D term HA HD. destruct term; [apply HA; reflexivity|apply HD]. Qed.

  Lemma m2_else_then : forall A B D term,
    (term = "else" -> P A) -> (term = "then" -> P B) -> P D ->
    P (match term with "else" => A | "then" => B | _ => D end).
  Proof.
    intros A B D term HA HB HD.
    chars term 5 ltac:(first [apply HD|apply HA; reflexivity|apply HB; reflexivity]).
  Qed.

  Lemma m2_of_endcase : forall A B D term,
    (term = "of" -> P A) -> (term = "endcase" -> P B) -> P D ->
    P (match term with "of" => A | "endcase" => B | _ => D end).
  Proof.
    intros A B D term HA HB HD.
    chars term 8 ltac:(first [apply HD|apply HA; reflexivity|apply HB; reflexivity]).
  Qed.

  Lemma m3_until_repeat_while : forall A B C D term,
    (term = "until" -> P A) -> (term = "repeat" -> P B) -> (term = "while" -> P C) -> P D ->
    P (match term with "until" => A | "repeat" => B | "while" => C | _ => D end).
  Proof.
    intros A B C D term HA HB HC HD.
    chars term 7 ltac:(first [apply HD|apply HA; reflexivity|apply HB; reflexivity|apply HC; reflexivity]).
  Qed.
End StrMatch.
Local Close Scope string_scope.

(* ---------- the definitions a tree contains, at any depth ---------- *)
Fixpoint ddefs (x : stmt) : list nat :=
  let db := fix db (l : list stmt) : list nat := match l with [] => [] | y :: r => ddefs y ++ db r end in
  match x with
  | SDef g => [g]
  | SIf _ t => db t
  | SIfE _ t e => db t ++ db e
  | SCase arms d =>
    (fix go (l : list arm) : list nat :=
       match l with [] => [] | (pre, _, body) :: r => db pre ++ db body ++ go r end) arms ++ db d
  | SUntil b _ | SRepeat b | SDo _ b _ => db b
  | SWhile c _ b => db c ++ db b
  | _ => []
  end.
Fixpoint ddefs_b (l : list stmt) : list nat :=
  match l with [] => [] | y :: r => ddefs y ++ ddefs_b r end.
Fixpoint ddefs_a (l : list arm) : list nat :=
  match l with [] => [] | (pre, _, body) :: r => ddefs_b pre ++ ddefs_b body ++ ddefs_a r end.

Lemma ddefs_If : forall p t, ddefs (SIf p t) = ddefs_b t.
Proof. reflexivity. Qed.
Lemma ddefs_IfE : forall p t e, ddefs (SIfE p t e) = ddefs_b t ++ ddefs_b e.
Proof. reflexivity. Qed.
Lemma ddefs_Case : forall arms d, ddefs (SCase arms d) = ddefs_a arms ++ ddefs_b d.
Proof. reflexivity. Qed.
Lemma ddefs_Until : forall b p, ddefs (SUntil b p) = ddefs_b b.
Proof. reflexivity. Qed.
Lemma ddefs_Repeat : forall b, ddefs (SRepeat b) = ddefs_b b.
Proof. reflexivity. Qed.
Lemma ddefs_While : forall c p b, ddefs (SWhile c p b) = ddefs_b c ++ ddefs_b b.
Proof. reflexivity. Qed.
Lemma ddefs_Do : forall p b pl, ddefs (SDo p b pl) = ddefs_b b.
Proof. reflexivity. Qed.

Lemma ddefs_b_app : forall a b, ddefs_b (a ++ b) = ddefs_b a ++ ddefs_b b.
Proof. induction a as [|x r IH]; intro b; [reflexivity|]. cbn [app ddefs_b]. rewrite IH, app_assoc. reflexivity. Qed.
Lemma ddefs_a_app : forall a b, ddefs_a (a ++ b) = ddefs_a a ++ ddefs_a b.
Proof.
  induction a as [|[[pre p] body] r IH]; intro b; [reflexivity|]. cbn [app ddefs_a].
  rewrite IH, !app_assoc. reflexivity.
Qed.

(* lists instead of the inductive predicates *)
Lemma wf_b_Forall : forall l, Forall wf_s l -> wf_b l.
Proof. induction 1; constructor; assumption. Qed.
Lemma nb_b_Forall : forall l, Forall nb_s l -> nb_b l.
Proof. induction 1; constructor; assumption. Qed.

Definition arm_wf (a : arm) : Prop := wf_b (fst (fst a)) /\ wf_b (snd a).
Definition arm_nb (a : arm) : Prop := nb_b (fst (fst a)) /\ nb_b (snd a).
Lemma wf_a_Forall : forall l, Forall arm_wf l -> wf_a l.
Proof. induction 1 as [|[[pre p] body] r [H1 H2] _ IH]; constructor; assumption. Qed.
Lemma nb_a_Forall : forall l, Forall arm_nb l -> nb_a l.
Proof. induction 1 as [|[[pre p] body] r [H1 H2] _ IH]; constructor; assumption. Qed.

(* ---------- what the parser maintains ---------- *)
Definition funs_good (fs : list (nat * list stmt)) : Prop :=
  Forall (fun gb => wf_b (snd gb) /\ nb_b (snd gb)) fs.

(* from environment [e] to [e']: the new functions are among [D]; inside a definition
   (locals present) no function is added *)
Definition estep (e e' : penv) (D : list nat) : Prop :=
  incl (map fst (funs e')) (map fst (funs e) ++ D) /\
  (plocals e <> None -> funs e' = funs e /\ plocals e' <> None).

Lemma estep_same : forall e e', funs e' = funs e -> (plocals e <> None -> plocals e' <> None) -> estep e e' [].
Proof.
  intros e e' Hf Hp. split.
  - rewrite Hf, app_nil_r. apply incl_refl.
  - intro H. split; auto.
Qed.

Lemma estep_trans : forall e e1 e2 D1 D2, estep e e1 D1 -> estep e1 e2 D2 -> estep e e2 (D1 ++ D2).
Proof.
  intros e e1 e2 D1 D2 [I1 P1] [I2 P2]. split.
  - intros x Hx. apply I2 in Hx. apply in_app_or in Hx. destruct Hx as [Hx|Hx].
    + apply I1 in Hx. rewrite app_assoc. apply in_or_app. left. exact Hx.
    + apply in_or_app. right. apply in_or_app. right. exact Hx.
  - intro H. destruct (P1 H) as [F1 Q1]. destruct (P2 Q1) as [F2 Q2]. split; congruence.
Qed.

Lemma estep_funs : forall e e1 e2 D, funs e1 = funs e -> plocals e1 = plocals e -> estep e1 e2 D -> estep e e2 D.
Proof. intros e e1 e2 D Hf Hp [I P]. split; [rewrite <- Hf; exact I|]. rewrite <- Hp, <- Hf. exact P. Qed.

Lemma estep_funs_r : forall e e1 e2 D, funs e2 = funs e1 -> plocals e2 = plocals e1 -> estep e e1 D -> estep e e2 D.
Proof. intros e e1 e2 D Hf Hp [I P]. split; [rewrite Hf; exact I|]. rewrite Hp, Hf. exact P. Qed.

Definition good_res (e : penv) (acc : list stmt) (brk : bool) (r : pres) : Prop :=
  match r with
  | POk body term tp rest e' brk' =>
    exists news, body = rev acc ++ news /\ Forall wf_s news /\
                 (brk' = false -> brk = false /\ Forall nb_s news) /\
                 estep e e' (ddefs_b news) /\ funs_good (funs e') /\
                 loopdepth e' = loopdepth e /\ (loopdepth e = 0 -> brk' = brk)
  | _ => True
  end.

Lemma good_push : forall e e1 acc brk brk1 x r,
  good_res e1 (x :: acc) brk1 r -> wf_s x -> (brk1 = false -> brk = false /\ nb_s x) ->
  estep e e1 (ddefs x) -> loopdepth e1 = loopdepth e -> (loopdepth e = 0 -> brk1 = brk) ->
  good_res e acc brk r.
Proof.
  intros e e1 acc brk brk1 x r H Wx Bx Ex L1 L2. destruct r as [body term tp rest e' brk'| |]; cbn [good_res] in *; auto.
  destruct H as (news & Hb & Wn & Bn & En & Fn & Ln1 & Ln2). exists (x :: news).
  split; [rewrite Hb; cbn [rev]; rewrite <- app_assoc; reflexivity|].
  split; [constructor; assumption|]. split.
  - intro Hb'. destruct (Bn Hb') as [B1 B2]. destruct (Bx B1) as [B3 B4]. split; [exact B3|constructor; assumption].
  - split; [cbn [ddefs_b]; eapply estep_trans; eassumption|]. split; [exact Fn|].
    split; [congruence|]. intro H0. rewrite Ln2 by congruence. apply L2. exact H0.
Qed.

Lemma good_here : forall e acc brk w p rest, funs_good (funs e) -> good_res e acc brk (POk (rev acc) w p rest e brk).
Proof.
  intros e acc brk w p rest Hf. exists []. split; [rewrite app_nil_r; reflexivity|].
  split; [constructor|]. split; [intro H; split; [exact H|constructor]|].
  split; [apply estep_same; auto|]. split; [exact Hf|]. split; [reflexivity|]. intros _. reflexivity.
Qed.
