(* CodecBasic.v: list / chunk / bit-arithmetic helpers for CodecProofs.v. *)
From Xeh Require Import Model.Prelude Model.Bits Model.Codec Proofs.BitsBasic.
From Coq Require Import ZifyBool ZifyNat ZifyN.

Local Open Scope nat_scope.

(* ---------- chunk8 ---------- *)

Lemma chunks8_fuel {A} : forall f1 f2 (l : list A),
  length l <= f1 -> length l <= f2 -> chunks8 f1 l = chunks8 f2 l.
Proof.
  induction f1 as [|f1 IH]; intros f2 l H1 H2.
  - destruct l; [|cbn in H1; lia]. destruct f2; reflexivity.
  - destruct l as [|a l].
    + destruct f2; reflexivity.
    + destruct f2 as [|f2]; [cbn in H2; lia|].
      cbn [chunks8]. f_equal.
      apply IH; rewrite skipn_length; cbn [length] in *; lia.
Qed.

Lemma chunk8_nil {A} : @chunk8 A [] = [].
Proof. reflexivity. Qed.

Lemma chunk8_step {A} (l : list A) :
  l <> [] -> chunk8 l = firstn 8 l :: chunk8 (skipn 8 l).
Proof.
  destruct l as [|a l]; [congruence|]. intros _. unfold chunk8.
  change (length (a :: l)) with (S (length l)). cbn [chunks8]. f_equal.
  apply chunks8_fuel; rewrite ?skipn_length; cbn [length]; lia.
Qed.

Lemma chunk8_app {A} (g r : list A) : length g = 8 -> chunk8 (g ++ r) = g :: chunk8 r.
Proof.
  intros Hg. rewrite chunk8_step.
  - rewrite firstn_app, skipn_app, Hg, Nat.sub_diag.
    rewrite <- Hg, firstn_all, skipn_all. cbn [firstn skipn app].
    now rewrite app_nil_r.
  - destruct g; [discriminate|discriminate].
Qed.

Lemma chunk8_short {A} (g : list A) : g <> [] -> length g <= 8 -> chunk8 g = [g].
Proof.
  intros Hn Hl. rewrite chunk8_step by assumption.
  rewrite firstn_all2 by assumption. rewrite skipn_all2 by assumption. reflexivity.
Qed.

Lemma chunk_ind {A} (P : list A -> Prop) :
  P [] -> (forall l, l <> [] -> P (skipn 8 l) -> P l) -> forall l, P l.
Proof.
  intros H0 HS l. remember (length l) as n eqn:E. revert l E.
  induction n as [n IH] using lt_wf_ind. intros l E.
  destruct l as [|a l]; [exact H0|].
  apply HS; [discriminate|].
  apply (IH (length (skipn 8 (a :: l)))); [|reflexivity].
  rewrite skipn_length. subst; cbn [length]; lia.
Qed.

(* ---------- bits_to_N / bitsZ ---------- *)

Lemma bits_to_N_acc : forall l a,
  fold_left (fun acc (b : bool) => (2 * acc + (if b then 1 else 0))%N) l a
  = (a * 2 ^ N.of_nat (length l) + bits_to_N l)%N.
Proof.
  unfold bits_to_N. induction l as [|b l IH]; intros a.
  - cbn [fold_left length]. change (2 ^ N.of_nat 0)%N with 1%N. lia.
  - cbn [fold_left length]. rewrite IH. rewrite (IH (2 * 0 + _)%N).
    rewrite Nat2N.inj_succ, N.pow_succ_r'.
    generalize (2 ^ N.of_nat (length l))%N; intros p.
    generalize (fold_left (fun acc (b0 : bool) => (2 * acc + (if b0 then 1 else 0))%N) l 0%N); intros q.
    destruct b; lia.
Qed.

Lemma bits_to_N_app g r :
  bits_to_N (g ++ r) = (bits_to_N g * 2 ^ N.of_nat (length r) + bits_to_N r)%N.
Proof.
  unfold bits_to_N at 1. rewrite fold_left_app. rewrite bits_to_N_acc. reflexivity.
Qed.

Lemma bits_to_N_bound l : (bits_to_N l < 2 ^ N.of_nat (length l))%N.
Proof.
  induction l as [|b l IH] using rev_ind.
  - cbn. lia.
  - rewrite bits_to_N_app, app_length. cbn [length].
    replace (N.of_nat (length l + 1)) with (N.succ (N.of_nat (length l))) by lia.
    rewrite N.pow_succ_r'. change (2 ^ N.of_nat 1)%N with 2%N.
    assert (bits_to_N [b] < 2)%N by (destruct b; cbn; lia). lia.
Qed.

Lemma bitsZ_app g r :
  bitsZ (g ++ r) = (bitsZ g * 2 ^ Z.of_nat (length r) + bitsZ r)%Z.
Proof.
  unfold bitsZ. rewrite bits_to_N_app, N2Z.inj_add, N2Z.inj_mul, N2Z.inj_pow, nat_N_Z.
  reflexivity.
Qed.

Lemma bitsZ_bound l : (0 <= bitsZ l < 2 ^ Z.of_nat (length l))%Z.
Proof.
  unfold bitsZ. split; [lia|].
  pose proof (bits_to_N_bound l) as H.
  apply N2Z.inj_lt in H. rewrite N2Z.inj_pow, nat_N_Z in H. exact H.
Qed.

Lemma bitsZ_nil : bitsZ [] = 0%Z.
Proof. reflexivity. Qed.

(* ---------- Z bit arithmetic ---------- *)
Local Open Scope Z_scope.

Lemma lor_disjoint a v n : 0 <= n -> 0 <= v < 2 ^ n -> Z.lor (a * 2 ^ n) v = a * 2 ^ n + v.
Proof.
  intros Hn Hv.
  assert (HL : Z.land (a * 2 ^ n) v = 0).
  { apply Z.bits_inj'; intros i Hi. rewrite Z.land_spec, Z.bits_0.
    destruct (Z.lt_ge_cases i n).
    - rewrite Z.mul_pow2_bits_low by lia. reflexivity.
    - rewrite <- (Z.mod_small v (2 ^ n)) by lia.
      rewrite Z.mod_pow2_bits_high by lia. apply andb_false_r. }
  rewrite Z.add_nocarry_lxor by exact HL. now rewrite Z.lxor_lor.
Qed.

Lemma pow_cat_bound a v k n :
  0 <= k -> 0 <= n -> 0 <= a < 2 ^ k -> 0 <= v < 2 ^ n -> 0 <= a * 2 ^ n + v < 2 ^ (k + n).
Proof.
  intros Hk Hn Ha Hv. rewrite Z.pow_add_r by lia.
  assert (0 < 2 ^ n) by (apply Z.pow_pos_nonneg; lia).
  assert (0 < 2 ^ k) by (apply Z.pow_pos_nonneg; lia).
  nia.
Qed.

Lemma pow_le_128 k : k <= 128 -> 2 ^ k <= two128.
Proof.
  intros. unfold two128. destruct (Z.lt_ge_cases k 0).
  - rewrite Z.pow_neg_r by lia. now compute.
  - apply Z.pow_le_mono_r; lia.
Qed.

(* ---------- to_uint as a fold over the bit list ---------- *)

Lemma be_fold : forall l acc k,
  0 <= k -> 0 <= acc < 2 ^ k -> k + Z.of_nat (length l) <= 128 ->
  fold_left (fun acc '(v, n) =>
               Z.lor (Z.shiftl acc (Z.of_nat n) mod two128) (Z.of_N v))
            (map grp (chunk8 l)) acc
  = acc * 2 ^ Z.of_nat (length l) + bitsZ l.
Proof.
  intros l. pattern l. apply chunk_ind; clear l.
  - intros acc k _ _ _. cbn [chunk8 chunks8 length map fold_left].
    rewrite bitsZ_nil. change (2 ^ Z.of_nat 0) with 1. lia.
  - intros l Hne IH acc k Hk Hacc Hlen.
    rewrite chunk8_step by exact Hne. cbn [map fold_left].
    pose proof (firstn_skipn 8 l) as Hl.
    set (g := firstn 8 l) in *. set (r := skipn 8 l) in *.
    change (grp g) with (bits_to_N g, length g). cbv beta iota.
    assert (Hlen' : length l = (length g + length r)%nat) by (rewrite <- Hl, app_length; reflexivity).
    pose proof (bitsZ_bound g) as Hg.
    fold (bitsZ g).
    rewrite Z.shiftl_mul_pow2 by lia.
    pose proof (pow_cat_bound acc (bitsZ g) k (Z.of_nat (length g)) Hk ltac:(lia) Hacc Hg) as Hb.
    pose proof (pow_le_128 (k + Z.of_nat (length g)) ltac:(lia)) as H128.
    assert (0 < 2 ^ Z.of_nat (length g)) by (apply Z.pow_pos_nonneg; lia).
    rewrite Z.mod_small by nia.
    rewrite lor_disjoint by lia.
    rewrite (IH _ (k + Z.of_nat (length g))) by lia.
    rewrite <- Hl at 2. rewrite bitsZ_app. rewrite Hlen', Nat2Z.inj_add, Z.pow_add_r by lia.
    ring.
Qed.

Lemma le_fold : forall l acc sh,
  0 <= acc < 2 ^ Z.of_nat sh -> Z.of_nat sh + Z.of_nat (length l) <= 128 ->
  fst (fold_left (fun '(acc, sh) '(v, n) =>
                    (Z.lor acc (Z.shiftl (Z.of_N v) (Z.of_nat sh) mod two128), (sh + n)%nat))
                 (map grp (chunk8 l)) (acc, sh))
  = acc + le_groups (chunk8 l) sh.
Proof.
  intros l. pattern l. apply chunk_ind; clear l.
  - intros acc sh _ _. cbn. lia.
  - intros l Hne IH acc sh Hacc Hlen.
    rewrite chunk8_step by exact Hne. cbn [map fold_left le_groups].
    pose proof (firstn_skipn 8 l) as Hl.
    set (g := firstn 8 l) in *. set (r := skipn 8 l) in *.
    change (grp g) with (bits_to_N g, length g). cbv beta iota.
    assert (Hlen' : length l = (length g + length r)%nat) by (rewrite <- Hl, app_length; reflexivity).
    pose proof (bitsZ_bound g) as Hg.
    fold (bitsZ g).
    rewrite Z.shiftl_mul_pow2 by lia.
    pose proof (pow_cat_bound (bitsZ g) acc (Z.of_nat (length g)) (Z.of_nat sh)
                  ltac:(lia) ltac:(lia) Hg Hacc) as Hb.
    pose proof (pow_le_128 (Z.of_nat (length g) + Z.of_nat sh) ltac:(lia)) as H128.
    assert (0 < 2 ^ Z.of_nat sh) by (apply Z.pow_pos_nonneg; lia).
    rewrite Z.mod_small by nia.
    rewrite Z.lor_comm, lor_disjoint by lia.
    rewrite IH.
    + lia.
    + rewrite Nat2Z.inj_add. rewrite (Z.add_comm (Z.of_nat sh)). lia.
    + lia.
Qed.

Lemma le_groups_bound : forall l sh,
  0 <= le_groups (chunk8 l) sh /\
  le_groups (chunk8 l) sh + 2 ^ Z.of_nat sh <= 2 ^ (Z.of_nat sh + Z.of_nat (length l)).
Proof.
  intros l. pattern l. apply chunk_ind; clear l.
  - intros sh. cbn [chunk8 chunks8 length le_groups]. rewrite Z.add_0_r. lia.
  - intros l Hne IH sh.
    rewrite chunk8_step by exact Hne. cbn [le_groups].
    pose proof (firstn_skipn 8 l) as Hl.
    set (g := firstn 8 l) in *. set (r := skipn 8 l) in *.
    assert (Hlen' : length l = (length g + length r)%nat) by (rewrite <- Hl, app_length; reflexivity).
    pose proof (bitsZ_bound g) as Hg.
    specialize (IH (sh + length g)%nat).
    rewrite Hlen'. rewrite !Nat2Z.inj_add in *.
    replace (Z.of_nat sh + (Z.of_nat (length g) + Z.of_nat (length r)))
      with (Z.of_nat sh + Z.of_nat (length g) + Z.of_nat (length r)) by lia.
    rewrite (Z.pow_add_r 2 (Z.of_nat sh) (Z.of_nat (length g))) in IH by lia.
    assert (0 < 2 ^ Z.of_nat sh) by (apply Z.pow_pos_nonneg; lia).
    nia.
Qed.

(* ---------- abs of a value starting at bit 0, byte by byte ---------- *)
Local Open Scope nat_scope.
Local Ltac Zify.zify_post_hook ::= Z.div_mod_to_equations.

Definition byte_bits (x : N) : list bool :=
  map (fun i => N.testbit x (N.of_nat (7 - i))) (seq 0 8).

Lemma byte_bits_length x : length (byte_bits x) = 8.
Proof. reflexivity. Qed.

Lemma chunk8_cons {A} (g r : list A) :
  g <> [] -> length g <= 8 -> (length g = 8 \/ r = []) -> chunk8 (g ++ r) = g :: chunk8 r.
Proof.
  intros Hne Hle [H8| ->].
  - now apply chunk8_app.
  - rewrite app_nil_r. now apply chunk8_short.
Qed.

Lemma map_seq_shift {B} (f : nat -> B) a : forall n s,
  map f (seq (a + s) n) = map (fun i => f (a + i)) (seq s n).
Proof.
  induction n as [|n IH]; intros s; [reflexivity|].
  cbn [seq map]. f_equal. rewrite <- IH. f_equal. f_equal. lia.
Qed.

Lemma firstn_seq_le : forall n m s, n <= m -> firstn n (seq s m) = seq s n.
Proof.
  induction n as [|n IH]; intros m s H; [reflexivity|].
  destruct m as [|m]; [lia|]. cbn [seq firstn]. f_equal. apply IH. lia.
Qed.

Lemma getbit_head x r i : i < 8 -> getbit (x :: r) i = N.testbit x (N.of_nat (7 - i)).
Proof.
  intros Hi. unfold getbit, nthb.
  rewrite Nat.div_small, Nat.mod_small by exact Hi. reflexivity.
Qed.

Lemma getbit_tail x r i : getbit (x :: r) (8 + i) = getbit r i.
Proof.
  unfold getbit, nthb.
  assert (H1 : (8 + i) / 8 = S (i / 8)) by lia.
  assert (H2 : (8 + i) mod 8 = i mod 8) by lia.
  rewrite H1, H2. reflexivity.
Qed.

Lemma abs0_nil d : abs (mkcbs 0 0 d) = [].
Proof. reflexivity. Qed.

Lemma abs0_cons x r w :
  abs (mkcbs 0 w (x :: r)) = firstn (Nat.min w 8) (byte_bits x) ++ abs (mkcbs 0 (w - 8) r).
Proof.
  unfold abs, clen. cbn [cstart cend cdata]. rewrite !Nat.sub_0_r.
  destruct (Nat.le_gt_cases w 8) as [Hle|Hgt].
  - replace (w - 8) with 0 by lia. cbn [seq map]. rewrite app_nil_r.
    rewrite Nat.min_l by exact Hle. unfold byte_bits.
    rewrite firstn_map, firstn_seq_le by exact Hle.
    apply map_ext_in. intros i Hi. apply in_seq in Hi. apply getbit_head. lia.
  - rewrite Nat.min_r by lia. rewrite firstn_all2 by (rewrite byte_bits_length; lia).
    replace w with (8 + (w - 8)) at 1 by lia. rewrite seq_app, map_app.
    apply (f_equal2 (@app bool)).
    + unfold byte_bits. apply map_ext_in. intros i Hi. apply in_seq in Hi.
      apply getbit_head. lia.
    + replace (0 + 8) with (8 + 0) by lia. rewrite map_seq_shift.
      apply map_ext. intros i. apply getbit_tail.
Qed.

(* per-byte kernels, by exhaustive evaluation over bytes x shift amounts *)
Definition bytes256 : list N := map N.of_nat (seq 0 256).

Lemma in_bytes256 x : (x < 256)%N -> In x bytes256.
Proof.
  intros H. unfold bytes256. rewrite <- (N2Nat.id x). apply in_map. apply in_seq. lia.
Qed.

Lemma shl_kernel_sweep :
  forallb (fun x =>
    forallb (fun n => N.eqb (bits_to_N (firstn n (byte_bits (shl8 x (8 - n))))) (x mod 2 ^ N.of_nat n))
            (seq 0 9)) bytes256 = true.
Proof. vm_compute. reflexivity. Qed.

Lemma shl_kernel x n : (x < 256)%N -> n <= 8 ->
  bits_to_N (firstn n (byte_bits (shl8 x (8 - n)))) = (x mod 2 ^ N.of_nat n)%N.
Proof.
  intros Hx Hn. pose proof shl_kernel_sweep as H.
  rewrite forallb_forall in H. specialize (H x (in_bytes256 x Hx)).
  rewrite forallb_forall in H. specialize (H n ltac:(apply in_seq; lia)).
  now apply N.eqb_eq in H.
Qed.

Lemma byte_bits_sweep :
  forallb (fun x => N.eqb (bits_to_N (byte_bits x)) x) bytes256 = true.
Proof. vm_compute. reflexivity. Qed.

Lemma bits_to_N_byte_bits x : (x < 256)%N -> bits_to_N (byte_bits x) = x.
Proof.
  intros Hx. pose proof byte_bits_sweep as H.
  rewrite forallb_forall in H. specialize (H x (in_bytes256 x Hx)).
  now apply N.eqb_eq in H.
Qed.
