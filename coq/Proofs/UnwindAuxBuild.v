(* UnwindAuxBuild.v (C10, follow-up equivalence): the builder does not depend on the
   components the unwinding does not restore: every program of the builder maps states that
   are compatible in the sense of UnwindAuxVm.v to compatible results with the same value or
   the same error. *)
From Xeh Require Import Model.Prelude Model.Bits Model.Codec Model.Cell Model.Lexer Model.Fmt
                        Model.Vm Model.Words Model.Build.
From Xeh Require Import Proofs.VmFrame Proofs.VmLimits Proofs.NoPanic Proofs.NoPanicBuild
                        Proofs.UnwindLists Proofs.UnwindIrr Proofs.UnwindAuxVm.
Local Notation length := List.length.

#[local] Arguments Z.add : simpl never.
#[local] Arguments Z.sub : simpl never.
#[local] Arguments Z.mul : simpl never.
#[local] Arguments Z.ltb : simpl never.
#[local] Arguments Z.leb : simpl never.
#[local] Arguments Z.eqb : simpl never.
#[local] Arguments Z.of_nat : simpl never.
#[local] Arguments Z.to_nat : simpl never.

Create HintDb apdb.

Lemma bind_get B (k : state -> M B) s : (let* x := get in k x) s = k s s.
Proof. reflexivity. Qed.
Lemma bind_eq A B (P : M A) (f : A -> M B) s :
  bind P f s = match P s with ROk a s' => f a s' | RErr k p s' => RErr k p s' | RPanic => RPanic | RUnsup => RUnsup end.
Proof. reflexivity. Qed.

(* programs that neither read nor touch the replaced components *)
Lemma ap_keep A (P : M A) :
  (forall t dg so inp me rl ou lt sg,
      P (ax t dg so inp me rl ou lt sg) = res_map (fun s => ax s dg so inp me rl ou lt sg) (P t)) ->
  (forall t, res_all (fun s => dbg s = dbg t /\ input s = input t /\ insn_limit s = insn_limit t /\
                               meter s = meter t /\ rlog s = rlog t) (P t)) ->
  ap P.
Proof.
  intros H1 H2 t dg so inp me rl ou lt sg Ho. rewrite H1. specialize (H2 t).
  destruct (P t) as [a s|k p s| |]; cbn [res_map ares res_all] in *; auto;
    destruct H2 as (E1 & E2 & E3 & E4 & E5); repeat split;
    (apply arel_intro; eapply aok_same; eauto).
Qed.

Ltac ax_cbv :=
  cbv [ax res_map res_all
       set_code set_dbg set_dict set_flows set_cx set_nested set_input set_last_tok set_sources
       set_heap set_ds set_rs set_loops set_special set_meter set_rlog set_out set_stopping
       dict heap code dbg sources input ds rs flows loops special cx nested meter insn_limit
       heap_limit stack_limit rlog out last_tok stopping].

Ltac keep_prim :=
  apply ap_keep;
  [ let t := fresh "t" in
    intros t ? ? ? ? ? ? ? ?; destruct_state t;
    cbv [backpatch backpatch_jump push_flow pop_flow take_first_cond_flow dict_insert
         alloc_heap context_open modify ret fail put limit_reached pending has_pending_flow code_origin
         bind get top_function_flow];
    ax_cbv; break_matches; reflexivity
  | let t := fresh "t" in
    intros t; destruct_state t;
    cbv [backpatch backpatch_jump push_flow pop_flow take_first_cond_flow dict_insert
         alloc_heap context_open modify ret fail put limit_reached pending has_pending_flow code_origin
         bind get top_function_flow];
    ax_cbv; break_matches; auto 10 ].

Lemma ap_backpatch pos op : ap (backpatch pos op).
Proof. keep_prim. Qed.
Lemma ap_backpatch_jump pos offs : ap (backpatch_jump pos offs).
Proof. keep_prim. Qed.
Lemma ap_push_flow f : ap (push_flow f).
Proof. keep_prim. Qed.
Lemma ap_pop_flow : ap pop_flow.
Proof. keep_prim. Qed.
Lemma ap_take_first_cond_flow : ap take_first_cond_flow.
Proof. keep_prim. Qed.
Lemma ap_dict_insert name e : ap (dict_insert name e).
Proof. keep_prim. Qed.
Lemma ap_alloc_heap v : ap (alloc_heap v).
Proof. keep_prim. Qed.
Lemma ap_context_open m : ap (context_open m).
Proof. keep_prim. Qed.

Lemma ap_code_emit op : ap (code_emit op).
Proof.
  intros t dg so inp me rl ou lt sg Ho. destruct_state t.
  pose proof Ho as (A1 & _). cbv [dbg] in A1.
  cbv [code_emit ax set_code set_dbg dict heap code dbg sources input ds rs flows loops special cx nested meter
       insn_limit heap_limit stack_limit rlog out last_tok stopping].
  rewrite A1.
  destruct (length c0 <? length g0)%nat.
  - ap_fin. rewrite !list_set_length. exact A1.
  - destruct (length c0 =? length g0)%nat; ap_fin.
    rewrite !app_length. cbn [length]. congruence.
Qed.

Lemma ap_intern_source buf : ap (intern_source buf).
Proof.
  intros t dg so inp me rl ou lt sg Ho. destruct_state t.
  cbv [intern_source ax set_input set_sources dict heap code dbg sources input ds rs flows loops special cx nested meter
       insn_limit heap_limit stack_limit rlog out last_tok stopping].
  ap_fin. constructor; [reflexivity|assumption].
Qed.

Section Tok.
  Variable pr : string -> option Z.

  Lemma ap_next_token : forall fuel, ap (next_token pr fuel).
  Proof.
    induction fuel as [|f IH]; intros t dg so inp me rl ou lt sg Ho; cbn [next_token]; [exact I|].
    change (input (ax t dg so inp me rl ou lt sg)) with inp.
    pose proof Ho as (A1 & A2 & A3 & A4).
    destruct A2 as [|il il' rest rest' Hl Hr].
    - cbn. split; [reflexivity|]. apply arel_intro. exact Ho.
    - cbv zeta. unfold lex_same in Hl. rewrite <- Hl.
      destruct (lex_next_nonws _ _) as [tk l'].
      assert (K : forall lt1 r1 r2, Forall2 lex_same r1 r2 ->
                aok (set_last_tok (set_input t r1) lt1) dg r2 me rl).
      { intros. unfold aok in *. cbn [set_last_tok set_input dbg input insn_limit meter rlog]. auto. }
      assert (K1 : Forall2 lex_same (mkinlex (in_src il) l' :: rest) (mkinlex (in_src il') l' :: rest'))
        by (constructor; [reflexivity|assumption]).
      assert (R : forall lt1 lt2,
                arel (set_last_tok (set_input t (mkinlex (in_src il) l' :: rest)) lt1)
                     (set_last_tok (set_input (ax t dg so (il' :: rest') me rl ou lt sg) (mkinlex (in_src il') l' :: rest')) lt2)).
      { intros lt1 lt2. exists dg, so, (mkinlex (in_src il') l' :: rest'), me, rl, ou, lt2, sg. split; [|reflexivity].
        apply (K lt1). exact K1. }
      destruct tk; try exact I; try (cbn [ares]; repeat split; apply R).
      + (* end of this lexer: go on with the one below *)
        match goal with |- ares (next_token pr f ?a) (next_token pr f ?b2) =>
          change b2 with (ax a dg so rest' me rl ou (Some (in_src il', lstart l', lpos l')) sg) end.
        apply IH. unfold aok in *. cbn [set_last_tok set_input dbg input insn_limit meter rlog]. auto.
      + destruct (pr text); cbn [ares]; repeat split; apply R.
  Qed.

  Lemma aok_input_len t dg inp me rl : aok t dg inp me rl -> length inp = length (input t).
  Proof. intros (_ & A2 & _). induction A2; cbn [length]; congruence. Qed.

  Lemma ap_get_token : ap (get_token pr).
  Proof.
    intros t dg so inp me rl ou lt sg Ho. unfold get_token, tok_fuel.
    change (input (ax t dg so inp me rl ou lt sg)) with inp. rewrite (aok_input_len _ _ _ _ _ Ho).
    apply ap_next_token. exact Ho.
  Qed.

  Lemma ap_next_name : ap (next_name pr).
  Proof.
    intros t dg so inp me rl ou lt sg Ho. unfold next_name. cbv zeta.
    pose proof (ap_get_token t dg so inp me rl ou lt sg Ho) as X.
    destruct (get_token pr t) as [tk s1|k p s1| |];
      destruct (get_token pr (ax t dg so inp me rl ou lt sg)) as [tk' s1'|k' p' s1'| |];
      cbn [ares] in *; try contradiction; auto.
    destruct X as [<- (dg1 & so1 & inp1 & me1 & rl1 & ou1 & lt1 & sg1 & Ho1 & ->)].
    assert (R : forall a b2, arel (match a with Some _ => set_last_tok s1 a | None => s1 end)
                               (match b2 with Some _ => set_last_tok (ax s1 dg1 so1 inp1 me1 rl1 ou1 lt1 sg1) b2
                                         | None => ax s1 dg1 so1 inp1 me1 rl1 ou1 lt1 sg1 end)).
    { intros a b2. destruct a; destruct b2.
      - exists dg1, so1, inp1, me1, rl1, ou1, (Some t1), sg1. split; [|reflexivity]. eapply aok_same; [..|exact Ho1]; reflexivity.
      - exists dg1, so1, inp1, me1, rl1, ou1, lt1, sg1. split; [|reflexivity]. eapply aok_same; [..|exact Ho1]; reflexivity.
      - exists dg1, so1, inp1, me1, rl1, ou1, (Some t0), sg1. split; [|reflexivity]. exact Ho1.
      - apply arel_intro. exact Ho1. }
    destruct tk; cbn [ares]; repeat split; try apply R. apply arel_intro. exact Ho1.
  Qed.
End Tok.

(* ---------- the tactic ---------- *)
Ltac ap_prim0 :=
  lazymatch goal with
  | |- ap (ret _) => apply ap_ret
  | |- ap (fail _ _) => apply ap_fail
  | |- ap unsup => apply ap_unsup
  | |- ap panic => apply ap_panic
  | |- ap (code_emit _) => apply ap_code_emit
  | |- ap (backpatch _ _) => apply ap_backpatch
  | |- ap (backpatch_jump _ _) => apply ap_backpatch_jump
  | |- ap (push_flow _) => apply ap_push_flow
  | |- ap pop_flow => apply ap_pop_flow
  | |- ap take_first_cond_flow => apply ap_take_first_cond_flow
  | |- ap (dict_insert _ _) => apply ap_dict_insert
  | |- ap (alloc_heap _) => apply ap_alloc_heap
  | |- ap (context_open _) => apply ap_context_open
  | |- ap (intern_source _) => apply ap_intern_source
  | |- ap (get_token _) => apply ap_get_token
  | |- ap (next_name _) => apply ap_next_name
  | |- ap (run_m _ _) => apply ap_run_m
  | |- ap pop_data => apply wx_ap, wx_pop_data
  | |- ap (push_return _) => apply wx_ap, wx_push_return
  | |- ap (set_ip _) => apply wx_ap, wx_set_ip
  end.

Ltac ap_step :=
  cbv beta zeta;
  first
    [ ap_prim0
    | solve [ auto 2 with apdb nocore ]
    | lazymatch goal with
      | |- ap (bind get _) => apply ap_get_bind; [ intros; reflexivity | intro ]
      | |- ap (bind _ _) => apply ap_bind; [ | intro ]
      | |- ap (match ?x with _ => _ end) => destruct x
      | |- ap ?w => let h := head_of w in unfold h
      end ].

Ltac ap_solve := repeat ap_step.

Section Imm.
  Variable fo : fops.
  Variable pr : string -> option Z.
  Variable rf : nat.

  Lemma ap_emit_native w : ap (emit_native w).
  Proof. ap_solve. Qed.
  Lemma ap_code_emit_value v : ap (code_emit_value v).
  Proof. ap_solve. Qed.
  Lemma ap_i_if : ap (i_if). Proof. ap_solve. Qed.
  Lemma ap_i_else : ap (i_else). Proof. ap_solve. Qed.
  Lemma ap_i_then : ap (i_then). Proof. ap_solve. Qed.
  Lemma ap_i_case : ap (i_case). Proof. ap_solve. Qed.
  Lemma ap_endcase_loop : forall fuel org, ap (endcase_loop fuel org).
  Proof. induction fuel as [|f IH]; intros org; cbn [endcase_loop]; ap_solve. Qed.
  Lemma ap_i_endcase : ap (i_endcase).
  Proof. pose proof ap_endcase_loop. ap_solve. Qed.
  Lemma ap_i_of : ap (i_of). Proof. ap_solve. Qed.
  Lemma ap_i_endof : ap (i_endof). Proof. ap_solve. Qed.
  Lemma ap_i_begin : ap (i_begin). Proof. ap_solve. Qed.
  Lemma ap_i_until : ap (i_until). Proof. ap_solve. Qed.
  Lemma ap_i_while : ap (i_while). Proof. ap_solve. Qed.
  Lemma ap_repeat_loop : forall fuel, ap (repeat_loop fuel).
  Proof. induction fuel as [|f IH]; cbn [repeat_loop]; ap_solve. Qed.
  Lemma ap_i_repeat : ap (i_repeat).
  Proof. pose proof ap_repeat_loop. ap_solve. Qed.
  Lemma ap_i_break : ap (i_break). Proof. ap_solve. Qed.
  Lemma ap_i_open f w : ap (i_open f w). Proof. ap_solve. Qed.
  Lemma ap_i_close g w : ap (i_close g w). Proof. ap_solve. Qed.
  Lemma ap_i_def_begin : ap (i_def_begin pr). Proof. ap_solve. Qed.
  Lemma ap_i_late : ap (i_late pr). Proof. ap_solve. Qed.
  Lemma ap_i_setvar : ap (i_setvar pr). Proof. ap_solve. Qed.
  Lemma ap_i_do : ap (i_do). Proof. ap_solve. Qed.
  Lemma ap_loop_loop : forall fuel lo st, ap (loop_loop fuel lo st).
  Proof. induction fuel as [|f IH]; intros lo st; cbn [loop_loop]; ap_solve. Qed.
  Lemma ap_i_loop : ap (i_loop).
  Proof. pose proof ap_loop_loop. ap_solve. Qed.
  Lemma ap_i_foreach : ap (i_foreach).
  Proof. pose proof ap_i_do. pose proof ap_emit_native. ap_solve. Qed.
  Lemma ap_i_defined : ap (i_defined pr).
  Proof. pose proof ap_code_emit_value. ap_solve. Qed.
  Lemma ap_i_set_fmt_base n : ap (i_set_fmt_base n).
  Proof. pose proof ap_code_emit_value. pose proof ap_emit_native. ap_solve. Qed.
  Lemma ap_build_global_variable name : ap (build_global_variable name).
  Proof. ap_solve. Qed.
  Lemma ap_i_var : ap (i_var pr).
  Proof. pose proof ap_build_global_variable. ap_solve. Qed.
  Lemma ap_i_nested_begin : ap (i_nested_begin).
  Proof. ap_solve. Qed.

  (* programs with [put] *)
  Ltac keep_unfold :=
    apply ap_keep;
    [ let t := fresh "t" in
      intros t ? ? ? ? ? ? ? ?;
      cbv [bind get put fail ret panic backpatch_jump backpatch modify top_function_flow pending code_origin];
      cbn [ax set_dict set_flows set_code dict flows code cx res_map];
      break_matches; reflexivity
    | let t := fresh "t" in
      intros t;
      cbv [bind get put fail ret panic backpatch_jump backpatch modify top_function_flow pending code_origin];
      break_matches; cbn [res_all set_dict set_flows set_code dbg input insn_limit meter rlog]; auto 10 ].

  Lemma ap_i_immediate : ap (i_immediate).
  Proof. unfold i_immediate. keep_unfold. Qed.

  Lemma ap_def_end_tail dict_idx start :
    ap (let* s := get in
        let offs := jump_offset start (code_origin s) in
        let fun_len := (code_origin s - start - 1)%nat in
        match nth_error (dict s) dict_idx with
        | None => fail EInternal None
        | Some _ =>
          match set_dict_len (dict s) dict_idx fun_len with
          | Some d' => put (set_dict s d') ;; backpatch_jump start offs
          | None => panic
          end
        end).
  Proof. cbv zeta. keep_unfold. Qed.

  Lemma ap_i_def_end : ap (i_def_end).
  Proof.
    unfold i_def_end. apply ap_bind; [apply ap_pop_flow|intros fl].
    destruct fl as [f|]; [|ap_solve]. destruct f; try (ap_solve; fail).
    apply ap_bind; [apply ap_code_emit|intros _]. apply ap_def_end_tail.
  Qed.

  Lemma ap_build_local_variable name : ap (build_local_variable name).
  Proof.
    intros t dg so inp me rl ou lt sg Ho. unfold build_local_variable. rewrite !bind_get.
    change (top_function_flow (ax t dg so inp me rl ou lt sg)) with (top_function_flow t).
    destruct (top_function_flow t) as [[[idx st] ls]|]; [|apply ap_fail; exact Ho].
    cbv zeta. unfold bind, put.
    match goal with |- ares (code_emit ?op ?a) (code_emit ?op ?b2) =>
      change b2 with (ax a dg so inp me rl ou lt sg) end.
    apply ap_code_emit. eapply aok_same; [..|exact Ho]; reflexivity.
  Qed.

  Lemma ap_i_local : ap (i_local pr).
  Proof. pose proof ap_build_local_variable. ap_solve. Qed.

  (* let *)
  Lemma ap_build_let_named w : ap (build_let_named w).
  Proof. pose proof ap_build_local_variable. pose proof ap_build_global_variable. ap_solve. Qed.
  Lemma ap_build_let_match v : ap (build_let_match v).
  Proof. pose proof ap_code_emit_value. pose proof ap_emit_native. ap_solve. Qed.
  Lemma ap_let_vec_next i : ap (let_vec_next i).
  Proof. pose proof ap_code_emit_value. pose proof ap_emit_native. ap_solve. Qed.

  Lemma ap_build_let : forall f,
    ap (build_let_in pr f) /\ ap (build_let_tags pr f) /\ ap (build_let_map pr f) /\
    (forall i, ap (build_let_vec pr f i)).
  Proof.
    induction f as [|f (IHin & IHtags & IHmap & IHvec)].
    - repeat split; intros; apply ap_unsup.
    - assert (Hmap : ap (build_let_map pr (S f))).
      { rewrite build_let_map_S. apply ap_bind; [apply ap_emit_native|intros _].
        generalize (S f) as k. induction k as [|k IHk]; cbn [let_map_go]; [apply ap_unsup|].
        fold (let_map_go pr f) in *.
        pose proof ap_emit_native. pose proof ap_code_emit_value.
        ap_solve. }
      assert (Hvec : forall i, ap (build_let_vec pr (S f) i)).
      { intros i. rewrite build_let_vec_S. revert i.
        generalize (S f) as k. induction k as [|k IHk]; intros i; cbn [let_vec_go]; [apply ap_unsup|].
        fold (let_vec_go pr f) in *.
        pose proof ap_emit_native. pose proof ap_code_emit_value. pose proof ap_let_vec_next.
        pose proof ap_build_let_named. pose proof ap_build_let_match.
        ap_solve. }
      assert (Htags : ap (build_let_tags pr (S f))).
      { cbn [build_let_tags]. pose proof ap_emit_native. pose proof ap_build_let_named. ap_solve. }
      assert (Hin : ap (build_let_in pr (S f))).
      { cbn [build_let_in]. pose proof ap_emit_native. pose proof ap_build_let_named.
        pose proof ap_build_let_match. ap_solve. }
      repeat split; assumption.
  Qed.

  Lemma ap_build_let_in f : ap (build_let_in pr f).
  Proof. exact (proj1 (ap_build_let f)). Qed.
End Imm.
