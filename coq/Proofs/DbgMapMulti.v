(* DbgMapMulti.v (C17, 5): building a later source never modifies the debug entries (nor the
   texts) of earlier sources.

   Fix the debug map [dbg0] (length [base]) and the number [depth0] of nested contexts at the
   start of a build.  [K]: the debug map still starts with [dbg0], the sources still start
   with the earlier texts, and the context stack is
        pre ++ cm :: post      (length post = depth0 + 1)
   where cm is the context opened for this source (code mark = base, not a meta context) and
   every context in pre (opened by this source) has a code mark >= base.  The truncations
   (meta-block close, build_unwind) cut at the code mark of a context of pre ++ [cm], hence at
   or above base.  When a meta block fails while running, context_close has already dropped
   the context below it, so the error invariant [KE] only says that the contexts above the
   bottom depth0 + 1 ones have code marks >= base. *)
From Xeh Require Import Model.Prelude Model.Bits Model.Codec Model.Cell Model.Lexer Model.Fmt
                        Model.Vm Model.Words Model.Build Model.Boot.
From Xeh Require Import Proofs.VmFrame Proofs.VmLimits Proofs.DbgMapVm Proofs.DbgMapGen
                        Proofs.DbgMapAlign.

#[local] Arguments Z.add : simpl never.
#[local] Arguments Z.sub : simpl never.
#[local] Arguments Z.mul : simpl never.
#[local] Arguments Z.ltb : simpl never.
#[local] Arguments Z.leb : simpl never.
#[local] Arguments Z.eqb : simpl never.
#[local] Arguments Z.of_nat : simpl never.
#[local] Arguments Z.to_nat : simpl never.

Definition cshape (c : ctx) : nat * mode := (cs_len c, cmode c).
Definition shape (s : state) : list (nat * mode) := map cshape (cx s :: nested s).

Lemma cshape_noip c c' : ctx_noip c' = ctx_noip c -> cshape c' = cshape c.
Proof. intros H. unfold cshape. rewrite (ctx_noip_cs _ _ H), (ctx_noip_mode _ _ H). reflexivity. Qed.

Lemma shape_vm s s' : vmrel s s' -> shape s' = shape s.
Proof.
  intros V. destruct (vmrel_keeps _ _ V) as (_ & _ & _ & _ & _ & K6 & K7).
  unfold shape. cbn [map]. rewrite K6, (cshape_noip _ _ K7). reflexivity.
Qed.

Lemma firstn_firstn_le {A} (l : list A) a b : a <= b -> firstn a (firstn b l) = firstn a l.
Proof. intros H. rewrite firstn_firstn. rewrite Nat.min_l by exact H. reflexivity. Qed.

Lemma firstn_app_le {A} (l x : list A) n : n <= length l -> firstn n (l ++ x) = firstn n l.
Proof.
  intros H. rewrite firstn_app. replace (n - length l) with 0 by lia.
  cbn [firstn]. apply app_nil_r.
Qed.

Section K.
  Variable base : nat.
  Variable dbg0 : list tokref.
  Variable srcs0 : list string.
  Variable depth0 : nat.
  Variable m0 : mode.
  Variable post0 : list (nat * mode).

  Definition shape_ok (l : list (nat * mode)) : Prop :=
    exists pre cm post, l = pre ++ cm :: post /\ length post = S depth0 /\
                        fst cm = base /\ snd cm <> MMeta /\ Forall (fun c => base <= fst c) pre /\
                        snd cm = m0 /\ post = post0.

  Definition shape_okE (l : list (nat * mode)) : Prop :=
    exists pre post, l = pre ++ post /\ length post = S depth0 /\ pre <> [] /\
                     Forall (fun c => base <= fst c) pre.

  Definition Kw (s : state) : Prop :=
    al s /\ firstn base (dbg s) = dbg0 /\ base <= length (dbg s) /\
    exists ext, sources s = srcs0 ++ ext.

  Definition K (s : state) : Prop := Kw s /\ shape_ok (shape s).
  Definition KE (s : state) : Prop := Kw s /\ shape_okE (shape s).

  Lemma shape_ok_E l : shape_ok l -> shape_okE l.
  Proof.
    intros (pre & cm & post & E & L & F1 & F2 & F3 & F4 & F5).
    exists (pre ++ [cm]), post. split; [rewrite <- app_assoc; exact E|]. split; [exact L|].
    split; [destruct pre; discriminate|]. apply Forall_app. split; [exact F3|].
    constructor; [lia|constructor].
  Qed.

  Lemma K_KE s : K s -> KE s.
  Proof. intros [A B]. split; [exact A|apply shape_ok_E; exact B]. Qed.

  Lemma shape_okE_head l : shape_okE l -> exists x r, l = x :: r /\ base <= fst x.
  Proof.
    intros (pre & post & E & L & N & F). destruct pre as [|x pre']; [congruence|].
    exists x, (pre' ++ post). split; [rewrite E; reflexivity|]. inversion F; assumption.
  Qed.

  (* a meta context on top of an ok stack: it belongs to pre *)
  Lemma shape_ok_meta x l : shape_ok (x :: l) -> snd x = MMeta -> base <= fst x /\ shape_ok l.
  Proof.
    intros (pre & cm & post & E & L & F1 & F2 & F3 & F4 & F5) Hx.
    destruct pre as [|y pre'].
    - cbn [app] in E. injection E as -> ->. congruence.
    - cbn [app] in E. injection E as -> ->. inversion F3 as [|a b Fa Fb]; subst. split; [exact Fa|].
      exists pre', cm, post0. repeat split; auto.
  Qed.

  (* a meta context on top of an ok stack, the context below it dropped *)
  Lemma shape_ok_meta_drop x y l : shape_ok (x :: y :: l) -> snd x = MMeta -> shape_okE (x :: l).
  Proof.
    intros (pre & cm & post & E & L & F1 & F2 & F3 & F4 & F5) Hx.
    destruct pre as [|x' pre'].
    - cbn [app] in E. injection E as -> <-. congruence.
    - cbn [app] in E. injection E as -> E. inversion F3 as [|a b Fa Fb]; subst.
      destruct pre' as [|y' pre''].
      + cbn [app] in E. injection E as -> ->. exists [x'], post0. repeat split; auto; discriminate.
      + cbn [app] in E. injection E as -> ->. inversion Fb as [|a b Fa' Fb']; subst.
        exists (x' :: pre'' ++ [cm]), post0. split; [cbn [app]; rewrite <- app_assoc; reflexivity|].
        split; [exact L|]. split; [discriminate|]. constructor; [exact Fa|].
        apply Forall_app. split; [exact Fb'|]. constructor; [lia|constructor].
  Qed.

  Lemma Kw_vm s s' : vmrel s s' -> Kw s -> Kw s'.
  Proof.
    intros V (A & B & C & D). destruct (vmrel_keeps _ _ V) as (K1 & K2 & K3 & _).
    split; [eapply al_vm; eassumption|]. rewrite K2, K3. auto.
  Qed.

  Lemma K_vm s s' : vmrel s s' -> K s -> K s'.
  Proof. intros V [A B]. split; [eapply Kw_vm; eassumption|]. rewrite (shape_vm _ _ V). exact B. Qed.

  Lemma KE_vm s s' : vmrel s s' -> KE s -> KE s'.
  Proof. intros V [A B]. split; [eapply Kw_vm; eassumption|]. rewrite (shape_vm _ _ V). exact B. Qed.

  Lemma Kw_eq s s' : code s' = code s -> dbg s' = dbg s -> sources s' = sources s -> Kw s -> Kw s'.
  Proof.
    intros E1 E2 E3 (A & B & C & D). split; [eapply al_eq; eassumption|]. rewrite E2, E3. auto.
  Qed.

  Lemma K_bk s s' : bk s s' -> K s -> K s'.
  Proof.
    intros (B1 & B2 & B3 & B4 & B5 & _) [A B]. split; [eapply Kw_eq; eassumption|].
    unfold shape. rewrite B4, B5. exact B.
  Qed.

  Lemma Kw_emit op s : Kw s -> Kw (emit_state op s).
  Proof.
    intros (A & B & C & D). split; [apply al_emit_state; exact A|].
    unfold emit_state. cbn [set_code set_dbg dbg sources].
    rewrite firstn_app_le by exact C. rewrite app_length. split; [exact B|]. split; [lia|exact D].
  Qed.

  Lemma Kw_trunc s n : base <= n -> Kw s ->
    Kw (set_dbg (set_code s (firstn n (code s))) (firstn n (dbg s))).
  Proof.
    intros Hn (A & B & C & D). split; [apply al_trunc; exact A|].
    cbn [set_code set_dbg dbg sources]. rewrite firstn_firstn_le by exact Hn.
    rewrite firstn_length. split; [exact B|]. split; [lia|exact D].
  Qed.

  Notation kgp := (gp K KE).

  Lemma K_emit op : kgp (code_emit op).
  Proof.
    intros s [A B]. rewrite code_emit_al by exact (proj1 A). split; [apply Kw_emit; exact A|exact B].
  Qed.

  Section Tok.
    Variable pr : string -> option Z.

    Lemma K_res_bk {A} (m : M A) : (forall s, res_all (bk s) (m s)) -> kgp m.
    Proof.
      intros H s Hs. specialize (H s).
      destruct (m s) as [a s1|k p s1| |]; cbn [res_all] in H; auto.
      - eapply K_bk; eassumption.
      - apply K_KE. eapply K_bk; eassumption.
    Qed.

    Lemma K_tok : kgp (get_token pr).
    Proof. apply K_res_bk. apply get_token_bk. Qed.

    Lemma K_tok0 : gq KE K (fun t s' => match t with BEnd => K s' | _ => K s' end) (get_token pr).
    Proof.
      intros s Hs. pose proof (K_tok s Hs) as H.
      destruct (get_token pr s) as [t s1|k p s1| |]; auto. destruct t; exact H.
    Qed.

    Lemma K_name : kgp (next_name pr).
    Proof. apply K_res_bk. apply next_name_bk. Qed.
  End Tok.

  Lemma K_open_meta : kgp (context_open MMeta).
  Proof.
    intros s [A B]. unfold context_open. cbv zeta. split; [exact A|].
    unfold shape. cbn [set_nested set_cx cx nested map].
    destruct B as (pre & cm & post & E & L & F1 & F2 & F3 & F4 & F5).
    exists ((length (code s), MMeta) :: pre), cm, post.
    split; [cbn [app]; f_equal; exact E|]. split; [exact L|]. split; [exact F1|]. split; [exact F2|].
    split; [|split; [exact F4|exact F5]].
    constructor; [|exact F3]. cbn [fst]. destruct A as (Aa & _ & Ac & _). unfold al in Aa. lia.
  Qed.

  Lemma K_intern t : kgp (intern_source t).
  Proof.
    intros s [(A & B & C & (ext & D)) S]. unfold intern_source. cbv zeta.
    split; [|exact S]. split; [exact A|]. split; [exact B|]. split; [exact C|].
    exists (ext ++ [t]). cbn [set_input set_sources sources]. rewrite D, app_assoc. reflexivity.
  Qed.

  Section Close.
    Variable fo : fops.
    Variable rf : nat.

    Lemma emit_results_Kw : forall fuel s, Kw s ->
      res_all (fun s' => Kw s' /\ shape s' = shape s) (emit_results fuel s).
    Proof.
      induction fuel as [|f IH]; intros s Hs; cbn [emit_results]; [split; [exact Hs|reflexivity]|].
      destruct (ds_len (cx s) <? length (ds s))%nat; [|split; [exact Hs|reflexivity]].
      pose proof (wl_frm _ _ wl_pop_data s) as H1.
      destruct (pop_data s) as [v s1|k p s1| |]; cbn [res_all] in *; auto.
      - assert (V1 : vmrel s s1) by (apply vmrel_frm; exact H1).
        assert (Hs1 : Kw s1) by (eapply Kw_vm; eassumption).
        unfold code_emit_value. rewrite code_emit_al by exact (proj1 Hs1).
        specialize (IH (emit_state (load_value_opcode v) s1) (Kw_emit _ _ Hs1)).
        destruct (emit_results f _) as [u s2|k p s2| |]; cbn [res_all] in *; auto;
          (destruct IH as [X1 X2]; split; [exact X1|]; rewrite X2; exact (shape_vm _ _ V1)).
      - assert (V1 : vmrel s s1) by (apply vmrel_frm; exact H1).
        split; [eapply Kw_vm; eassumption|exact (shape_vm _ _ V1)].
    Qed.

    Lemma run_m_vmrel s : res_all (vmrel s) (run_m fo rf s).
    Proof.
      unfold run_m. pose proof (run_vmrel (nf fo) (native_wl fo) rf s) as H.
      destruct (run (nf fo) rf s); [exact H|exact I].
    Qed.

    (* the general close: the prefix is kept, whatever the mode *)
    Lemma close_Kw : forall s, Kw s -> (cmode (cx s) = MMeta -> base <= cs_len (cx s)) ->
      res_all Kw (context_close fo rf s).
    Proof.
      intros s Hs Hb. unfold context_close.
      destruct (nested s) as [|prev rest]; [exact Hs|]. cbv zeta.
      assert (H0 : Kw (set_nested s rest)) by exact Hs.
      pose proof (run_m_vmrel (set_nested s rest)) as V.
      change (cmode (cx (set_nested s rest))) with (cmode (cx s)).
      destruct (cmode (cx s)) eqn:Em.
      - exact H0.
      - destruct (run_m fo rf (set_nested s rest)) as [u s1|k p s1| |]; cbn [res_all] in *; auto;
          (eapply Kw_eq; [..|eapply Kw_vm; [exact V|exact H0]]; reflexivity).
      - destruct (run_m fo rf (set_nested s rest)) as [u s1|k p s1| |]; cbn [res_all] in *; auto.
        + assert (H1 : Kw s1) by (eapply Kw_vm; eassumption).
          destruct (vmrel_keeps _ _ V) as (_ & _ & _ & _ & _ & _ & K7).
          assert (Hn : base <= cs_len (cx s1)).
          { rewrite (ctx_noip_cs _ _ K7). cbn [set_nested cx]. apply Hb. reflexivity. }
          set (s2 := set_dbg (set_code s1 (firstn (cs_len (cx s1)) (code s1))) (firstn (cs_len (cx s1)) (dbg s1))).
          assert (H2 : Kw s2) by (apply Kw_trunc; assumption).
          set (s3 := set_dict s2 _).
          assert (H3 : Kw s3) by exact H2.
          match goal with |- context [if ?b then _ else _] => destruct b end.
          * pose proof (emit_results_Kw (S (length (ds s3))) s3 H3) as H4.
            destruct (emit_results (S (length (ds s3))) s3) as [u4 s4|k p s4| |]; cbn [res_all] in *; auto;
              destruct H4 as [X1 _]; exact X1.
          * exact H3.
        + assert (H1 : Kw s1) by (eapply Kw_vm; eassumption). exact H1.
    Qed.

    (* closing a meta context opened by this source *)
    Lemma K_close : gq KE (fun s => K s /\ cmode (cx s) = MMeta) (fun _ => K) (context_close fo rf).
    Proof.
      intros s [[Hs Sh] Hm]. unfold context_close.
      destruct (nested s) as [|prev rest] eqn:En; [apply K_KE; split; assumption|]. cbv zeta.
      assert (H0 : Kw (set_nested s rest)) by exact Hs.
      pose proof (run_m_vmrel (set_nested s rest)) as V.
      change (cmode (cx (set_nested s rest))) with (cmode (cx s)). rewrite Hm.
      unfold shape in Sh. rewrite En in Sh. cbn [map] in Sh.
      destruct (shape_ok_meta _ _ Sh Hm) as [Hb Sh'].
      pose proof (shape_ok_meta_drop _ _ _ Sh Hm) as ShE.
      destruct (run_m fo rf (set_nested s rest)) as [u s1|k p s1| |]; cbn [res_all] in *; auto.
      - assert (H1 : Kw s1) by (eapply Kw_vm; eassumption).
        destruct (vmrel_keeps _ _ V) as (_ & _ & _ & _ & _ & K6 & K7).
        assert (Hn : base <= cs_len (cx s1)) by (rewrite (ctx_noip_cs _ _ K7); exact Hb).
        assert (Sh1 : shape s1 = cshape (cx s) :: map cshape rest) by (rewrite (shape_vm _ _ V); reflexivity).
        set (s2 := set_dbg (set_code s1 (firstn (cs_len (cx s1)) (code s1))) (firstn (cs_len (cx s1)) (dbg s1))).
        assert (H2 : Kw s2) by (apply Kw_trunc; assumption).
        set (s3 := set_dict s2 _).
        assert (H3 : Kw s3) by exact H2.
        assert (Sh3 : shape s3 = cshape (cx s) :: map cshape rest) by exact Sh1.
        match goal with |- context [if ?b then _ else _] => destruct b end.
        + pose proof (emit_results_Kw (S (length (ds s3))) s3 H3) as H4.
          destruct (emit_results (S (length (ds s3))) s3) as [u4 s4|k p s4| |]; cbn [res_all] in *; auto;
            destruct H4 as [X1 X2].
          * split; [exact X1|]. unfold shape. cbn [set_cx cx nested map].
            rewrite Sh3 in X2. unfold shape in X2. cbn [map] in X2. apply (f_equal (@tl _)) in X2. cbn [tl] in X2. rewrite X2. exact Sh'.
          * split; [exact X1|]. rewrite X2, Sh3. exact ShE.
        + split; [exact H3|]. unfold shape. cbn [set_cx cx nested map].
          unfold shape in Sh3. cbn [map] in Sh3. apply (f_equal (@tl _)) in Sh3. cbn [tl] in Sh3. rewrite Sh3. exact Sh'.
      - assert (H1 : Kw s1) by (eapply Kw_vm; eassumption).
        split; [exact H1|].
        destruct (vmrel_keeps _ _ V) as (_ & _ & _ & _ & _ & K6 & K7).
        unfold shape. cbn [set_nested cx nested map]. rewrite K6. cbn [set_nested nested map].
        rewrite (cshape_noip _ _ K7). apply shape_ok_E. exact Sh.
    Qed.
  End Close.

  (* ---------- unwinding ---------- *)
  Lemma leave_contexts_shape : forall fuel s, shape_okE (shape s) ->
    shape_okE (shape (leave_contexts fuel depth0 s)).
  Proof.
    induction fuel as [|f IH]; intros s H; cbn [leave_contexts]; [exact H|].
    destruct (S depth0 <? length (nested s))%nat eqn:El; [|exact H].
    destruct (nested s) as [|prev rest] eqn:En; [exact H|].
    apply IH. apply Nat.ltb_lt in El. cbn [length] in El.
    destruct H as (pre & post & E & L & N & F).
    unfold shape in E. rewrite En in E. cbn [map] in E.
    unfold shape. cbn [set_cx set_nested cx nested map].
    assert (Hl : length (cshape (cx s) :: cshape prev :: map cshape rest) = length pre + length post)
      by (rewrite E, app_length; reflexivity).
    cbn [length] in Hl. rewrite map_length in Hl.
    destruct pre as [|x pre']; [congruence|]. destruct pre' as [|y pre''].
    - cbn [length] in Hl. lia.
    - cbn [app] in E. apply (f_equal (@tl _)) in E. cbn [tl] in E. exists (y :: pre''), post.
      split; [exact E|]. split; [exact L|]. split; [discriminate|]. inversion F; assumption.
  Qed.

  Lemma unwind_prefix : forall inputs dsl heapl s, KE s ->
    let s' := build_unwind depth0 inputs dsl heapl s in
    firstn base (dbg s') = dbg0 /\ base <= length (dbg s') /\ sources s' = sources s /\ al s'.
  Proof.
    intros inputs dsl heapl s [Hw He]. cbv zeta.
    pose proof (al_build_unwind depth0 inputs dsl heapl s (proj1 Hw)) as Hal.
    revert Hal. unfold build_unwind. cbv zeta.
    set (s0 := set_input s _).
    set (s1 := leave_contexts _ depth0 s0).
    destruct (leave_contexts_code (S (length (nested s0))) depth0 s0) as (A & B & C & _).
    fold s1 in A, B, C.
    assert (H1 : Kw s1) by (eapply Kw_eq; [exact A|exact B|exact C|exact Hw]).
    assert (E1 : shape_okE (shape s1)) by (apply leave_contexts_shape; exact He).
    destruct (shape_okE_head _ E1) as (x & r & Ex & Hx).
    unfold shape in Ex. cbn [map] in Ex. apply (f_equal (@hd _ (0, MEval))) in Ex. cbn [hd] in Ex. rewrite <- Ex in Hx. cbn [cshape fst] in Hx.
    set (s2 := set_dbg (set_code s1 _) _).
    assert (H2 : Kw s2) by (apply Kw_trunc; assumption).
    set (s5 := set_heap _ _).
    assert (D5 : dbg s5 = dbg s2) by reflexivity.
    assert (S5 : sources s5 = sources s) by exact C.
    destruct H2 as (_ & X2 & X3 & _).
    destruct (nested s5) as [|prev rest]; [intros Hal; rewrite D5; auto|].
    destruct (depth0 <? length (prev :: rest))%nat; intros Hal; cbn [set_cx set_nested dbg sources];
      rewrite ?D5; auto.
  Qed.
End K.

(* ---------- whole sources ---------- *)
Section Top.
  Variable fo : fops.
  Variable pr : string -> option Z.
  Variable rf : nat.

  (* what a build of [src] in state s leaves: the old debug entries and texts are a prefix *)
  Definition keeps_earlier (s : state) (src : string) (s' : state) : Prop :=
    firstn (length (dbg s)) (dbg s') = dbg s /\ length (dbg s) <= length (dbg s') /\
    (exists ext, sources s' = sources s ++ src :: ext) /\ al s'.

  Theorem multi_build_from_source : forall fuel src m s, m <> MMeta -> al s ->
    res_all (keeps_earlier s src) (build_from_source fo pr rf fuel src m s).
  Proof.
    intros fuel src m s Hm Ha. unfold build_from_source. cbv zeta.
    change ((context_open m;; intern_source src) s) with
      (intern_source src (set_nested (set_cx s (mkctx
         (if mode_eqb (cmode (cx s)) m then ds_len (cx s) else length (ds s))
         (length (code s)) (length (rs s)) (length (flows s)) (length (loops s))
         (length (special s)) (length (dict s)) (code_origin s) m)) (cx s :: nested s))).
    unfold intern_source.
    set (base := length (dbg s)). set (srcs0 := sources s ++ [src]). set (depth0 := length (nested s)). set (post0 := map cshape (cx s :: nested s)).
    match goal with |- context [build1 fo pr rf fuel ?d ?s1] =>
      assert (H1 : K base (dbg s) srcs0 depth0 m post0 s1)
    end.
    { split.
      - split; [exact Ha|]. cbn [set_input set_sources set_nested set_cx dbg sources].
        split; [apply firstn_all|]. split; [unfold base; lia|]. exists []. rewrite app_nil_r. reflexivity.
      - unfold shape. cbn [set_input set_sources set_nested set_cx cx nested map].
        exists [], (length (code s), m), (map cshape (cx s :: nested s)).
        split; [reflexivity|]. split; [cbn [map length]; rewrite map_length; reflexivity|].
        split; [cbn [fst]; unfold al in Ha; unfold base; lia|]. split; [exact Hm|].
        split; [constructor|]. split; reflexivity. }
    match goal with |- context [build1 fo pr rf fuel ?d ?s1] =>
      pose proof (gp0_build1 fo pr rf (K base (dbg s) srcs0 depth0 m post0) (K base (dbg s) srcs0 depth0 m post0)
                    (KE base (dbg s) srcs0 depth0)
                    (fun _ h => h) (K_KE base (dbg s) srcs0 depth0 m post0)
                    (K_vm base (dbg s) srcs0 depth0 m post0) (K_vm base (dbg s) srcs0 depth0 m post0)
                    (K_emit base (dbg s) srcs0 depth0 m post0)
                    (K_tok base (dbg s) srcs0 depth0 m post0 pr) (K_tok0 base (dbg s) srcs0 depth0 m post0 pr)
                    (K_name base (dbg s) srcs0 depth0 m post0 pr)
                    (K_open_meta base (dbg s) srcs0 depth0 m post0) (K_close base (dbg s) srcs0 depth0 m post0 fo rf)
                    (K_intern base (dbg s) srcs0 depth0 m post0) fuel d s1 H1) as H2;
      destruct (build1 fo pr rf fuel d s1) as [u2 s2|k p s2| |]; auto
    end.
    - destruct H2 as [Hw Hsh].
      assert (Hb : cmode (cx s2) = MMeta -> base <= cs_len (cx s2)).
      { intros Hmm. unfold shape in Hsh. cbn [map] in Hsh.
        exact (proj1 (shape_ok_meta base depth0 m post0 _ _ Hsh Hmm)). }
      pose proof (close_Kw base (dbg s) srcs0 fo rf s2 Hw Hb) as H3.
      destruct (context_close fo rf s2) as [u s'|k p s'| |]; cbn [res_all] in *; auto;
        destruct H3 as (X1 & X2 & X3 & (ext & X4));
        (split; [exact X2|]; split; [exact X3|]; split; [|exact X1];
         exists ext; rewrite X4; unfold srcs0; rewrite <- app_assoc; reflexivity).
    - cbn [res_all].
      destruct (unwind_prefix base (dbg s) srcs0 depth0 (length (input s)) (length (ds s)) (length (heap s)) s2 H2)
        as (X1 & X2 & X3 & X4).
      split; [exact X1|]. split; [exact X2|]. split; [|exact X4].
      destruct H2 as [(_ & _ & _ & (ext & X5)) _]. exists ext. rewrite X3, X5. unfold srcs0.
      rewrite <- app_assoc. reflexivity.
  Qed.

  (* the invariant at the start of a build and after a successful build1, exported *)
  Definition start_state (src : string) (m : mode) (s : state) : state :=
    set_input (set_sources (set_nested (set_cx s (mkctx
         (if mode_eqb (cmode (cx s)) m then ds_len (cx s) else length (ds s))
         (length (code s)) (length (rs s)) (length (flows s)) (length (loops s))
         (length (special s)) (length (dict s)) (code_origin s) m)) (cx s :: nested s))
         (sources s ++ [src])) (mkinlex (length (sources s)) (lex_new src) :: input s).

  Lemma start_state_eq src m s : (context_open m;; intern_source src) s = ROk tt (start_state src m s).
  Proof. reflexivity. Qed.

  Lemma K_start : forall src m s, m <> MMeta -> al s ->
    K (length (dbg s)) (dbg s) (sources s ++ [src]) (length (nested s)) m (map cshape (cx s :: nested s))
      (start_state src m s).
  Proof.
    intros src m s Hm Ha. split.
    - split; [exact Ha|]. cbn [start_state set_input set_sources set_nested set_cx dbg sources].
      split; [apply firstn_all|]. split; [lia|]. exists []. rewrite app_nil_r. reflexivity.
    - unfold shape. cbn [start_state set_input set_sources set_nested set_cx cx nested map].
      exists [], (length (code s), m), (map cshape (cx s :: nested s)).
      split; [reflexivity|]. split; [cbn [map length]; rewrite map_length; reflexivity|].
      split; [cbn [fst]; unfold al in Ha; lia|]. split; [exact Hm|].
      split; [constructor|]. split; reflexivity.
  Qed.

  Lemma K_build1 : forall base dbg0 srcs0 depth0 m0 post0 fuel d,
    gp0 (K base dbg0 srcs0 depth0 m0 post0) (KE base dbg0 srcs0 depth0) (build1 fo pr rf fuel d).
  Proof.
    intros base dbg0 srcs0 depth0 m0 post0.
    exact (gp0_build1 fo pr rf (K base dbg0 srcs0 depth0 m0 post0) (K base dbg0 srcs0 depth0 m0 post0)
                    (KE base dbg0 srcs0 depth0)
                    (fun _ h => h) (K_KE base dbg0 srcs0 depth0 m0 post0)
                    (K_vm base dbg0 srcs0 depth0 m0 post0) (K_vm base dbg0 srcs0 depth0 m0 post0)
                    (K_emit base dbg0 srcs0 depth0 m0 post0)
                    (K_tok base dbg0 srcs0 depth0 m0 post0 pr) (K_tok0 base dbg0 srcs0 depth0 m0 post0 pr)
                    (K_name base dbg0 srcs0 depth0 m0 post0 pr)
                    (K_open_meta base dbg0 srcs0 depth0 m0 post0) (K_close base dbg0 srcs0 depth0 m0 post0 fo rf)
                    (K_intern base dbg0 srcs0 depth0 m0 post0)).
  Qed.

  (* with no context of this source left open, the current context is the one opened for the
     source and the one below it is (up to ip) the context the build started in *)
  Lemma K_closed_shape : forall base dbg0 srcs0 depth0 m0 post0 s,
    K base dbg0 srcs0 depth0 m0 post0 s -> length (nested s) = S depth0 ->
    cmode (cx s) = m0 /\ map cshape (nested s) = post0.
  Proof.
    intros base dbg0 srcs0 depth0 m0 post0 s [_ (pre & cm & post & E & L & F1 & F2 & F3 & F4 & F5)] Hn.
    assert (Hl : length (shape s) = length pre + S (length post)) by (rewrite E, app_length; reflexivity).
    unfold shape in Hl, E. cbn [map length] in Hl. rewrite map_length in Hl.
    destruct pre as [|x pre']; [|cbn [length] in Hl; lia].
    cbn [app map] in E. injection E as E1 E2. split.
    - rewrite <- F4, <- E1. reflexivity.
    - rewrite E2. exact F5.
  Qed.

  Theorem multi_eval : forall fuel src s, al s -> res_all (keeps_earlier s src) (eval fo pr rf fuel src s).
  Proof. intros fuel src s Hs. apply multi_build_from_source; [discriminate|exact Hs]. Qed.

  Theorem multi_compile : forall fuel src s, al s -> res_all (keeps_earlier s src) (compile fo pr rf fuel src s).
  Proof. intros fuel src s Hs. apply multi_build_from_source; [discriminate|exact Hs]. Qed.
End Top.

(* consequences in terms of single entries *)
Lemma keeps_earlier_entries s src s' : keeps_earlier s src s' ->
  (forall i t, nth_error (dbg s) i = Some t -> nth_error (dbg s') i = Some t) /\
  (forall n txt, nth_error (sources s) n = Some txt -> nth_error (sources s') n = Some txt) /\
  nth_error (sources s') (length (sources s)) = Some src.
Proof.
  intros (A & B & (ext & C) & _). split; [|split].
  - intros i t H. rewrite <- A in H.
    assert (L : i < length (dbg s)) by (rewrite <- A; apply nth_error_Some; congruence).
    rewrite <- (firstn_skipn (length (dbg s)) (dbg s')). rewrite nth_error_app1; [exact H|].
    rewrite firstn_length. lia.
  - intros n txt H. rewrite C. rewrite nth_error_app1; [exact H|]. apply nth_error_Some. congruence.
  - rewrite C. rewrite nth_error_app2 by lia. rewrite Nat.sub_diag. reflexivity.
Qed.

(* intern_source appends *)
Lemma intern_source_appends t s :
  intern_source t s = ROk tt (set_input (set_sources s (sources s ++ [t]))
                                        (mkinlex (length (sources s)) (lex_new t) :: input s)).
Proof. reflexivity. Qed.
