(* Small companions of the C16 statements: spelled-out tables, the iff forms, worked examples. *)
From Xeh Require Import Model.Prelude Model.Bits Model.Codec Model.Cell Model.Lexer Model.Fmt Model.Vm Model.Words
  Model.Build Model.Boot.
From Xeh Require Import Proofs.LexLoc Proofs.LexBasic Proofs.LexNext Proofs.LexAll Proofs.LexPrintInt
  Proofs.LexStr Proofs.LexStrPlain Proofs.LexMoreNum Proofs.LexMoreBits Proofs.LexMoreCmt Proofs.LexMoreShift
  Proofs.LexMoreWords Proofs.LexMoreLocal.
From Xeh Require Import Proofs.BitsProofs.
From Coq Require Import ZifyBool ZifyNat ZifyN.
Local Open Scope string_scope.

Lemma escape_table :
  escape_value "\" = Some "\"%char /\ escape_value """" = Some """"%char /\
  escape_value "n" = Some (ascii_of_N 10) /\ escape_value "r" = Some (ascii_of_N 13) /\
  escape_value "t" = Some (ascii_of_N 9) /\
  (forall c, escape_value c <> None ->
     c = "\"%char \/ c = """"%char \/ c = "n"%char \/ c = "r"%char \/ c = "t"%char).
Proof.
  repeat (split; [reflexivity|]). intros c H. unfold escape_value in H.
  destruct (byte_of c =? 92)%N eqn:E1; [left; apply N.eqb_eq, byte_of_inj in E1; exact E1|].
  destruct (byte_of c =? 34)%N eqn:E2; [right; left; apply N.eqb_eq, byte_of_inj in E2; exact E2|].
  destruct (byte_of c =? 110)%N eqn:E3; [right; right; left; apply N.eqb_eq, byte_of_inj in E3; exact E3|].
  destruct (byte_of c =? 114)%N eqn:E4; [right; right; right; left; apply N.eqb_eq, byte_of_inj in E4; exact E4|].
  destruct (byte_of c =? 116)%N eqn:E5; [right; right; right; right; apply N.eqb_eq, byte_of_inj in E5; exact E5|].
  congruence.
Qed.

Lemma first_close_none_iff s : first_close s = None <-> forall j, closes_here (str_drop j s) = false.
Proof.
  split; [apply first_close_none|]. intros H.
  destruct (first_close s) as [i|] eqn:E; [|reflexivity].
  destruct (first_close_some s i E) as [K _]. rewrite H in K. discriminate.
Qed.

Lemma closes_here_spec s : closes_here s = true <->
  exists c r, s = String c ("\)" ++ r) /\ is_ws c = true /\ next_is_ws_or_end r = true.
Proof.
  split.
  - destruct s as [|c [|c1 [|c2 r]]]; cbn [closes_here]; try discriminate. intros H.
    apply andb_prop in H. destruct H as [H H4]. apply andb_prop in H. destruct H as [H H3].
    apply andb_prop in H. destruct H as [H1 H2].
    apply N.eqb_eq, byte_of_inj in H2. apply N.eqb_eq, byte_of_inj in H3. subst c1 c2.
    exists c, r. repeat split; assumption.
  - intros (c & r & -> & H1 & H2). cbn [append closes_here]. rewrite H1, H2. reflexivity.
Qed.

Lemma const_word_spec :
  const_word CNil = Some "nil" /\ const_word (CFlag true) = Some "true" /\
  const_word (CFlag false) = Some "false" /\
  (forall c w, const_word c = Some w -> c = CNil \/ c = CFlag true \/ c = CFlag false).
Proof.
  repeat (split; [reflexivity|]). intros c w H.
  destruct c as [|[]| | | | | | | | |]; cbn [const_word] in H; try discriminate; auto.
Qed.

(* a worked instance of blank material *)
Definition nl1 : string := String (ascii_of_N 10) "".

Lemma ex_blank :
  let nl := String (ascii_of_N 10) "" in
  let g := "  \ a comment" ++ nl ++ "\( one \)x \) \( two" ++ nl ++ "\)" ++ nl in
  blank g "1 +" /\
  significant (lex_string (g ++ "1 +")) = [(TLit (CInt 1), 38, 39); (TWord "+", 40, 41); (TEnd, 41, 41)] /\
  significant (lex_string (" " ++ "1 +")) = [(TLit (CInt 1), 1, 2); (TWord "+", 3, 4); (TEnd, 4, 4)].
Proof.
  cbv zeta. split; [|split; vm_compute; reflexivity].
  apply (blank_ws "  " ("\ a comment" ++ nl1 ++ "\( one \)x \) \( two" ++ nl1 ++ "\)" ++ nl1) "1 +"); [reflexivity|].
  apply (blank_line " a comment" (nl1 ++ "\( one \)x \) \( two" ++ nl1 ++ "\)" ++ nl1) "1 +");
    [reflexivity|reflexivity|reflexivity|].
  apply (blank_ws nl1 ("\( one \)x \) \( two" ++ nl1 ++ "\)" ++ nl1) "1 +"); [reflexivity|].
  apply (blank_mlc " one \)x \) " ("\( two" ++ nl1 ++ "\)" ++ nl1) "1 +" 8);
    [reflexivity|reflexivity|reflexivity|].
  apply (blank_mlc (" two" ++ nl1 ++ "\)" ++ nl1) "" "1 +" 4); [reflexivity|reflexivity|reflexivity|].
  apply blank_nil.
Qed.

(* end-to-end evaluation helpers for the examples *)
Definition z2 (a b : Z) : Z := 0%Z.
Definition fo0 : fops := fops_with z2 z2 z2 z2 z2 z2 z2.
Definition ds_of (r : res unit) : option (list cell) :=
  match r with ROk _ s => Some (ds s) | _ => None end.

(* ---------- composition, whole-text form ---------- *)

Lemma prefix_stable_string a X pre e e' :
  valid_utf8 a = true -> next_is_ws_or_end X = true ->
  lex_string a = (pre ++ [(TEnd, e, e')])%list -> last_significant pre ->
  lex_string (a ++ X) = (pre ++ lex_from X (String.length a) (String.length (a ++ X)))%list.
Proof.
  intros Hv HX Ha Hls. rewrite lex_string_from in Ha. rewrite lex_string_from.
  exact (prefix_stable X HX (String.length a) a (le_n _) 0 (String.length a) (String.length (a ++ X))
           pre e e' Hv Ha Hls).
Qed.

Lemma last_significant_snoc l y : is_blank_tok (fst (fst y)) = false -> last_significant (l ++ [y]).
Proof. intros H pre' x E. apply app_inj_tail in E. destruct E as [_ <-]. exact H. Qed.

Lemma blank_context_condition_needed :
  let nl := String (ascii_of_N 10) "" in
  blank nl "1" /\ valid_utf8 "\ c" = true /\ lex_string "\ c" = [(TComment, 0, 3); (TEnd, 3, 3)] /\
  significant (lex_string ("\ c" ++ nl ++ "1")) = [(TLit (CInt 1), 4, 5); (TEnd, 5, 5)] /\
  significant (lex_string ("\ c" ++ " " ++ "1")) = [(TEnd, 5, 5)].
Proof.
  cbv zeta. split; [|vm_compute; repeat split; reflexivity].
  apply (blank_ws nl1 "" "1" eq_refl (blank_nil "1")).
Qed.

Lemma ex_blank_in_context :
  let nl := String (ascii_of_N 10) "" in
  let a := ": sq dup *" in
  let g := " \ squares" ++ nl ++ "  \( note \) " in
  let b := "; 3 sq" in
  valid_utf8 a = true /\ blank g b /\ next_is_ws_or_end (g ++ b) = true /\
  (exists pre e e', lex_string a = (pre ++ [(TEnd, e, e')])%list /\ last_significant pre) /\
  map (fun x => fst (fst x)) (significant (lex_string (a ++ g ++ b))) =
    [TWord ":"; TWord "sq"; TWord "dup"; TWord "*"; TWord ";"; TLit (CInt 3); TWord "sq"; TEnd] /\
  map (fun x => fst (fst x)) (significant (lex_string (a ++ " " ++ b))) =
    [TWord ":"; TWord "sq"; TWord "dup"; TWord "*"; TWord ";"; TLit (CInt 3); TWord "sq"; TEnd].
Proof.
  cbv zeta. split; [reflexivity|]. split; [|split; [reflexivity|split; [|split; vm_compute; reflexivity]]].
  - apply (blank_ws " " ("\ squares" ++ nl1 ++ "  \( note \) ") "; 3 sq"); [reflexivity|].
    apply (blank_line " squares" (nl1 ++ "  \( note \) ") "; 3 sq"); [reflexivity|reflexivity|reflexivity|].
    apply (blank_ws (nl1 ++ "  ") ("\( note \) ") "; 3 sq"); [reflexivity|].
    apply (blank_mlc " note \) " "" "; 3 sq" 5); [reflexivity|reflexivity|reflexivity|].
    apply blank_nil.
  - exists ([(TWord ":", 0, 1); (TWs, 1, 2); (TWord "sq", 2, 4); (TWs, 4, 5); (TWord "dup", 5, 8); (TWs, 8, 9)]
             ++ [(TWord "*", 9, 10)])%list, 10, 10.
    split; [vm_compute; reflexivity|]. apply last_significant_snoc. reflexivity.
Qed.

(* a stand-in for the decimal-to-double oracle in the examples: knows one text *)
Definition pr0 (t : string) : option Z :=
  if String.eqb t "10.5" then Some 4622100592565682176%Z else None.
Definition is_parse_error (r : res unit) : bool :=
  match r with RErr EParse _ _ => true | _ => false end.

(* ---------- statement-shaped companions ---------- *)

Lemma int_tok_spec sg radix items a b :
  int_tok sg radix items a b =
  match nitems_digits items with
  | [] => TErr PInt a b
  | _ => let v := sgn_apply sg (digits_value (Z.of_N radix) (nitems_digits items) 0) in
         if in_i128 v then TLit (CInt v) else TErr PInt a b
  end.
Proof. reflexivity. Qed.

Lemma lex_next_bitstr_full l items rest :
  forallb bitem_ok items = true -> lrest l = "|" ++ bitems_text items ++ "|" ++ rest ->
  let p' := lpos l + List.length items + 2 in
  lex_next l = (TLit (CBits (of_bools (bitems_bits items))), mklex rest p' (lpos l) (llen l)) /\
  wf (of_bools (bitems_bits items)) /\ abs (of_bools (bitems_bits items)) = bitems_bits items.
Proof. intros Hok Hl p'. split; [exact (lex_next_bitstr l items rest Hok Hl)|exact (bitstr_value items)]. Qed.

Lemma bitem_bits_spec up d c :
  bitem_bits (BHex up d) = [N.testbit d 3; N.testbit d 2; N.testbit d 1; N.testbit d 0] /\
  bitem_bits BDot = [false] /\ bitem_bits BX = [true] /\ bitem_bits (BSpace c) = [].
Proof. repeat split. Qed.

Lemma first_close_some_iff s i : first_close s = Some i <->
  (closes_here (str_drop i s) = true /\ forall j, j < i -> closes_here (str_drop j s) = false).
Proof. split; [apply first_close_some|]. intros [H1 H2]. apply first_close_unique; assumption. Qed.

Lemma lex_from_spec :
  (forall s, lex_string s = lex_from s 0 (String.length s)) /\
  (forall f r p st n, String.length r < f -> lex_all f (mklex r p st n) = lex_from r p n).
Proof. split; [exact lex_string_from|exact lex_all_from]. Qed.

Lemma text_items_ok curly s : valid_utf8 s = true -> plain_text curly s = true ->
  forallb (sitem_ok curly) (text_items s) = true /\ sitems_text (text_items s) = s /\ sitems_value (text_items s) = s.
Proof. intros Hv Hp. exact (text_items_spec curly (String.length s) s 0 (le_n _) Hv Hp). Qed.

Lemma rmark_spec :
  rmark_text RHex = "x" /\ rmark_radix RHex = 16%N /\
  rmark_text RBin = "b" /\ rmark_radix RBin = 2%N /\
  rmark_text ROct = "o" /\ rmark_radix ROct = 8%N /\
  (forall c r, radix_mark (String c r) =
     if (byte_of c =? 98)%N then Some 2%N else if (byte_of c =? 120)%N then Some 16%N
     else if (byte_of c =? 111)%N then Some 8%N else None) /\
  radix_mark "" = None.
Proof. repeat split. Qed.
