(* TagClose2Frame.v: the stash cell R_STASH is private to open-bitstr / close-bitstr.

   1. [kst m]: the program m never changes the heap cell R_STASH; every native word except
      open-bitstr and close-bitstr is such a program ([native_fn_kst]).
   2. What open-bitstr and close-bitstr do to the stash.
   3. [stash_ok]: every stash entry carries an offset tag (the one open-bitstr wrote, whatever tags
      the suspended input carried - a user's own "offset" tag is overwritten) - an invariant of
      every native word; so close-bitstr never takes its `no tag: offset 0' branch.
   4. [srelK]: the relation "equal after stripping, stash offsets related, no doubly wrapped tag"
      is preserved by every native word outside the design's exclusion list ([native_simK]):
      a simulation that composes over sequences of words, close-bitstr included. *)
From Xeh Require Import Model.Prelude Model.Bits Model.Codec Model.Cell Model.Lexer Model.Fmt
                        Model.Vm Model.BaseN Model.Words Proofs.BitsProofs Proofs.CellProofs Proofs.CollProofs
                        Proofs.TagProofs Proofs.TagSim Proofs.TagWords Proofs.TagFresh Proofs.TagClose
                        Proofs.TagClose2.
Local Notation length := List.length.

#[local] Arguments Z.add : simpl never.
#[local] Arguments Z.sub : simpl never.
#[local] Arguments Z.mul : simpl never.
#[local] Arguments Z.ltb : simpl never.
#[local] Arguments Z.leb : simpl never.
#[local] Arguments Z.eqb : simpl never.
#[local] Arguments Z.of_nat : simpl never.
#[local] Arguments Z.to_nat : simpl never.

(* ================================================================== *)
(* 1. programs that leave the stash cell alone                          *)
(* ================================================================== *)
Definition stash_cell (s : state) : option cell := nth_error (heap s) R_STASH.

Definition kst {A} (m : M A) : Prop :=
  forall s, match m s with
            | ROk _ s' => stash_cell s' = stash_cell s
            | RErr _ _ s' => stash_cell s' = stash_cell s
            | _ => True
            end.

Lemma kst_bind {A B} (m : M A) (f : A -> M B) : kst m -> (forall a, kst (f a)) -> kst (bind m f).
Proof.
  intros Hm Hf s. unfold bind. specialize (Hm s). destruct (m s) as [a s1|k p s1| |]; auto.
  specialize (Hf a s1). destruct (f a s1); auto; congruence.
Qed.

(* the primitives other than set_var do not touch the heap at all *)
Definition kh {A} (m : M A) : Prop :=
  forall s, match m s with
            | ROk _ s' => heap s' = heap s
            | RErr _ _ s' => heap s' = heap s
            | _ => True
            end.
Lemma kh_kst {A} (m : M A) : kh m -> kst m.
Proof. intros H s. specialize (H s). unfold stash_cell. destruct (m s); auto; rewrite H; reflexivity. Qed.

Ltac kh_prim :=
  apply kh_kst;
  let s := fresh "s" in
  intro s;
  cbv beta delta [push_data pop_data swap_data rot_data over_data push_return pop_return
                  push_loop pop_loop loop_next loop_set_items push_special pop_special
                  init_local print set_ip next_ip add_rstep data_depth];
  repeat match goal with
         | |- context[match ?x with _ => _ end] =>
           match x with
           | ds _ => destruct x
           | rs _ => destruct x
           | loops _ => destruct x
           | special _ => destruct x
           | rlog _ => destruct x
           | nth_error _ _ => destruct x
           | mode_eqb _ _ => destruct x
           | limit_reached _ _ => destruct x
           | _ <? _ => destruct x
           | _ <=? _ => destruct x
           | _ =? _ => destruct x
           | ?y => is_var y; destruct y
           end; cbv beta iota zeta
         end; try reflexivity; try exact I.

Lemma kst_push_data c : kst (push_data c). Proof. kh_prim. Qed.
Lemma kst_pop_data : kst pop_data. Proof. kh_prim. Qed.
Lemma kst_swap_data : kst swap_data. Proof. kh_prim. Qed.
Lemma kst_rot_data : kst rot_data. Proof. kh_prim. Qed.
Lemma kst_over_data : kst over_data. Proof. kh_prim. Qed.
Lemma kst_push_return f : kst (push_return f). Proof. kh_prim. Qed.
Lemma kst_pop_return : kst pop_return. Proof. kh_prim. Qed.
Lemma kst_push_loop f : kst (push_loop f). Proof. kh_prim. Qed.
Lemma kst_pop_loop : kst pop_loop. Proof. kh_prim. Qed.
Lemma kst_loop_next : kst loop_next. Proof. kh_prim. Qed.
Lemma kst_loop_set_items c : kst (loop_set_items c). Proof. kh_prim. Qed.
Lemma kst_push_special p : kst (push_special p). Proof. kh_prim. Qed.
Lemma kst_pop_special : kst pop_special. Proof. kh_prim. Qed.
Lemma kst_init_local i v : kst (init_local i v). Proof. kh_prim. Qed.
Lemma kst_print m : kst (print m). Proof. kh_prim. Qed.
Lemma kst_set_ip n : kst (set_ip n). Proof. kh_prim. Qed.
Lemma kst_next_ip : kst next_ip. Proof. kh_prim. Qed.

Lemma nth_error_list_set_other : forall {A} (l : list A) i j v, i <> j ->
  nth_error (list_set l i v) j = nth_error l j.
Proof.
  induction l as [| x r IH]; destruct i, j; cbn; intros v H; auto; try congruence;
    try (apply IH; congruence).
Qed.

Lemma heap_add_rstep' : forall r s, heap (add_rstep r s) = heap s.
Proof. intros. unfold add_rstep. destruct (rlog s); reflexivity. Qed.

(* the state set_var produces *)
Lemma set_var_ok : forall a v s u s', set_var a v s = ROk u s' -> heap s' = list_set (heap s) a v.
Proof.
  intros a v s u s' H. unfold set_var in H.
  destruct (mode_eqb _ _); [discriminate|]. destruct (nth_error (heap s) a); [|discriminate].
  injection H as _ <-. rewrite heap_add_rstep'. reflexivity.
Qed.
Lemma set_var_err : forall a v s k p s', set_var a v s = RErr k p s' -> s' = s.
Proof.
  intros a v s k p s' H. unfold set_var in H.
  destruct (mode_eqb _ _); [congruence|]. destruct (nth_error (heap s) a); congruence.
Qed.

Lemma kst_set_var a v : a <> R_STASH -> kst (set_var a v).
Proof.
  intros Ha s. destruct (set_var a v s) as [u s'|k p s'| |] eqn:E; auto.
  - unfold stash_cell. rewrite (set_var_ok _ _ _ _ _ E). apply nth_error_list_set_other. exact Ha.
  - rewrite (set_var_err _ _ _ _ _ _ E). reflexivity.
Qed.

Lemma set_var_stash : forall a v s u s', a <> R_STASH -> set_var a v s = ROk u s' -> stash_cell s' = stash_cell s.
Proof. intros a v s u s' Ha E. pose proof (kst_set_var a v Ha s) as K. rewrite E in K. exact K. Qed.
Lemma off_ne : R_OFFSET <> R_STASH. Proof. discriminate. Qed.
Lemma inp_ne : R_INPUT <> R_STASH. Proof. discriminate. Qed.

Lemma kst_ret {A} (a : A) : kst (ret a). Proof. intro; reflexivity. Qed.
Lemma kst_fail {A} k p : kst (@fail A k p). Proof. intro; reflexivity. Qed.
Lemma kst_unsup {A} : kst (@unsup A). Proof. intro; exact I. Qed.
Lemma kst_panic {A} : kst (@panic A). Proof. intro; exact I. Qed.
Lemma kst_get : kst get. Proof. intro; reflexivity. Qed.
Lemma kst_set_stopping b : kst (modify (fun s => set_stopping s b)). Proof. intro; reflexivity. Qed.
Lemma kst_top_data : kst top_data.
Proof. intro s; unfold top_data. destruct (ds s); auto. destruct (_ <? _); auto. Qed.
Lemma kst_top_frame : kst top_frame.
Proof. intro s; unfold top_frame. destruct (rs s); auto. destruct (_ <? _); auto. Qed.
Lemma kst_get_var a : kst (get_var a).
Proof.
  intro s; unfold get_var. destruct (mode_eqb _ _); auto. destruct (nth_error _ _); auto.
Qed.
Lemma kst_lift {A} (o : outcome A) p : kst (lift o p).
Proof. destruct o; cbn; [apply kst_ret | apply kst_fail | apply kst_panic]. Qed.

Lemma kst_pop_n n : kst (pop_n n).
Proof.
  induction n; cbn [pop_n]; [apply kst_ret|].
  apply kst_bind; [apply kst_pop_data | auto].
Qed.
Lemma kst_push_all l : kst (push_all l).
Proof.
  induction l; cbn [push_all]; [apply kst_ret|].
  apply kst_bind; [apply kst_push_data | auto].
Qed.

Ltac head_of t := lazymatch t with ?f _ => head_of f | _ => t end.

Ltac kstv_step :=
  lazymatch goal with
  | |- kst (bind _ _) => apply kst_bind; [|intro]
  | |- kst (ret _) => apply kst_ret
  | |- kst (fail _ _) => apply kst_fail
  | |- kst unsup => apply kst_unsup
  | |- kst panic => apply kst_panic
  | |- kst get => apply kst_get
  | |- kst (modify (fun s => set_stopping s _)) => apply kst_set_stopping
  | |- kst top_data => apply kst_top_data
  | |- kst top_frame => apply kst_top_frame
  | |- kst (get_var _) => apply kst_get_var
  | |- kst (lift _ _) => apply kst_lift
  | |- kst (push_data _) => apply kst_push_data
  | |- kst pop_data => apply kst_pop_data
  | |- kst swap_data => apply kst_swap_data
  | |- kst rot_data => apply kst_rot_data
  | |- kst over_data => apply kst_over_data
  | |- kst (push_return _) => apply kst_push_return
  | |- kst pop_return => apply kst_pop_return
  | |- kst (push_loop _) => apply kst_push_loop
  | |- kst pop_loop => apply kst_pop_loop
  | |- kst loop_next => apply kst_loop_next
  | |- kst (loop_set_items _) => apply kst_loop_set_items
  | |- kst (push_special _) => apply kst_push_special
  | |- kst pop_special => apply kst_pop_special
  | |- kst (set_var _ _) => apply kst_set_var; unfold R_STASH, R_BIG, R_INPUT, R_OFFSET, R_OUTPUT, R_OUTLEN; discriminate
  | |- kst (init_local _ _) => apply kst_init_local
  | |- kst (print _) => apply kst_print
  | |- kst (set_ip _) => apply kst_set_ip
  | |- kst next_ip => apply kst_next_ip
  | |- kst (pop_n _) => apply kst_pop_n
  | |- kst (push_all _) => apply kst_push_all
  | |- kst (match ?x with _ => _ end) => destruct x
  | |- kst (let _ := _ in _) => cbv zeta
  | |- kst ((fun _ => _) _) => cbv beta
  | |- kst ?m => let h := head_of m in unfold h
  end.
Ltac kstv := repeat kstv_step.

Definition stash_word (w : string) : bool :=
  (String.eqb w "open-bitstr" || String.eqb w "close-bitstr")%bool.

Section TableKst.
  Variable fo : fops.
  Local Open Scope string_scope.

  Lemma word_table_kst : Forall (fun p => stash_word (fst p) = true \/ kst (snd p)) (word_table fo).
  Proof.
    unfold word_table.
    repeat (apply Forall_cons; [cbn [fst snd]; first [left; reflexivity | right; solve [kstv]] |]).
    apply Forall_nil.
  Qed.

  Ltac kstfin :=
    match goal with
    | H : Some _ = Some _ |- _ => injection H as <-
    end; solve [kstv].

  Lemma sized_word_kst name f : sized_word fo name = Some f -> kst f.
  Proof.
    unfold sized_word. cbv zeta beta. intros H.
    repeat match type of H with
           | (if ?b then _ else _) = _ => destruct b; [kstfin|]
           | match (if ?b then _ else _) with _ => _ end = _ => destruct b; [kstfin|]
           end.
    discriminate.
  Qed.

  (* every native word but open-bitstr / close-bitstr leaves the stash cell alone *)
  Theorem native_fn_kst name f : native_fn fo name = Some f -> stash_word name = true \/ kst f.
  Proof.
    unfold native_fn. destruct (table_find _ _) eqn:E.
    - intros [= <-].
      exact (table_find_named (fun n x => stash_word n = true \/ kst x) _ _ _ word_table_kst E).
    - intros H. right. eapply sized_word_kst; eauto.
  Qed.
End TableKst.

Lemma native_open : forall fo, native_fn fo "open-bitstr"%string = Some w_open_bitstr.
Proof. intro fo. reflexivity. Qed.

Lemma stash_word_cases : forall w, stash_word w = true ->
  w = "open-bitstr"%string \/ w = "close-bitstr"%string.
Proof.
  intros w H. unfold stash_word in H. apply Bool.orb_true_iff in H.
  destruct H as [H|H]; apply String.eqb_eq in H; auto.
Qed.

Lemma stash_vec_cell : forall s s', stash_cell s' = stash_cell s -> stash_vec s' = stash_vec s.
Proof. intros s s' H. unfold stash_vec. unfold stash_cell in H. rewrite H. reflexivity. Qed.

(* ================================================================== *)
(* 2. what open-bitstr and close-bitstr do to the stash                  *)
(* ================================================================== *)
Lemma get_var_ok : forall a s c s', get_var a s = ROk c s' -> s' = s /\ nth_error (heap s) a = Some c.
Proof.
  intros a s c s' H. unfold get_var in H. destruct (mode_eqb _ _); [discriminate|].
  destruct (nth_error (heap s) a); [|discriminate]. injection H as <- <-. auto.
Qed.
Lemma get_var_err : forall a s k p s', get_var a s = RErr k p s' -> s' = s.
Proof.
  intros a s k p s' H. unfold get_var in H. destruct (mode_eqb _ _); [congruence|].
  destruct (nth_error (heap s) a); congruence.
Qed.

Lemma m_vec_ok : forall c s v s', m_vec c s = ROk v s' -> s' = s /\ value c = CVec v.
Proof. intros c s v s' H. unfold m_vec in H. destruct (value c); unfold ret, fail in H; try discriminate. injection H as <- <-. auto. Qed.
Lemma m_vec_err : forall c s k p s', m_vec c s = RErr k p s' -> s' = s.
Proof. intros c s k p s' H. unfold m_vec in H. destruct (value c); unfold ret, fail in H; congruence. Qed.

Lemma m_bits_ok : forall c s v s', m_bits c s = ROk v s' -> s' = s.
Proof. intros c s v s' H. unfold m_bits in H. destruct (value c); unfold ret, fail in H; try discriminate. injection H as _ <-. auto. Qed.
Lemma m_bits_err : forall c s k p s', m_bits c s = RErr k p s' -> s' = s.
Proof. intros c s k p s' H. unfold m_bits in H. destruct (value c); unfold ret, fail in H; congruence. Qed.

Lemma stash_vec_set : forall s s' v,
  heap s' = list_set (heap s) R_STASH (CVec v) -> (R_STASH < length (heap s))%nat ->
  stash_vec s' = Some v.
Proof.
  intros s s' v H L. unfold stash_vec. rewrite H, nth_error_list_set by exact L. reflexivity.
Qed.

Lemma list_set_length : forall {A} (l : list A) i v, length (list_set l i v) = length l.
Proof. induction l; destruct i; cbn; auto. Qed.

(* close-bitstr drops the last stash entry (and changes nothing of the stash when it fails) *)
Lemma close_bitstr_stash : forall s,
  match w_close_bitstr s with
  | ROk _ s' => exists v e, stash_vec s = Some (v ++ [e]) /\ stash_vec s' = Some v
  | RErr _ _ s' => stash_vec s' = stash_vec s
  | _ => True
  end.
Proof.
  intro s. unfold w_close_bitstr. unfold bind at 1.
  destruct (get_var R_STASH s) as [st s0|k p s0| |] eqn:G; auto.
  2:{ apply get_var_err in G. subst. reflexivity. }
  apply get_var_ok in G. destruct G as [-> G].
  unfold bind at 1. destruct (m_vec st s) as [v s0|k p s0| |] eqn:V; auto.
  2:{ apply m_vec_err in V. subst. reflexivity. }
  apply m_vec_ok in V. destruct V as [-> V].
  assert (SV : stash_vec s = Some v). { unfold stash_vec. rewrite G, V. reflexivity. }
  destruct (rev v) as [| last r] eqn:RV; [cbn; reflexivity|].
  assert (Ev : v = rev r ++ [last]).
  { rewrite <- (rev_involutive v), RV. reflexivity. }
  unfold bind.
  destruct (set_var R_OFFSET _ s) as [u1 s1|k p s1| |] eqn:E1; auto.
  2:{ apply set_var_err in E1. subst. reflexivity. }
  pose proof (set_var_stash _ _ _ _ _ off_ne E1) as K1.
  apply set_var_ok in E1.
  destruct (set_var R_INPUT _ s1) as [u2 s2|k p s2| |] eqn:E2; auto.
  2:{ apply set_var_err in E2. subst. apply stash_vec_cell. exact K1. }
  pose proof (set_var_stash _ _ _ _ _ inp_ne E2) as K2.
  apply set_var_ok in E2.
  destruct (set_var R_STASH _ s2) as [u3 s3|k p s3| |] eqn:E3; auto.
  2:{ apply set_var_err in E3. subst. apply stash_vec_cell. congruence. }
  apply set_var_ok in E3.
  exists (rev r), last. split; [rewrite SV, Ev; reflexivity|].
  eapply stash_vec_set; [exact E3|].
  rewrite E2, E1, !list_set_length. apply nth_error_Some. unfold stash_cell in *. congruence.
Qed.

(* open-bitstr appends the old input tagged with the old offset *)
Lemma open_bitstr_stash : forall s,
  match w_open_bitstr s with
  | ROk _ s' => exists v x o, stash_vec s = Some v /\
                              nth_error (heap s) R_INPUT = Some x /\ nth_error (heap s) R_OFFSET = Some o /\
                              stash_vec s' = Some (v ++ [insert_tag x offset_lit o])
  | RErr _ _ s' => stash_vec s' = stash_vec s
  | _ => True
  end.
Proof.
  intro s. unfold w_open_bitstr.
  assert (Kpop : kst pop_data) by apply kst_pop_data.
  unfold bind at 1. specialize (Kpop s).
  destruct (pop_data s) as [c s0|k p s0| |] eqn:P; auto.
  2:{ apply stash_vec_cell. exact Kpop. }
  assert (H0 : heap s0 = heap s).
  { revert P. unfold pop_data. destruct (ds s); [discriminate|]. destruct (_ <? _); [|discriminate].
    intros [= _ <-]. rewrite heap_add_rstep'. reflexivity. }
  assert (SV0 : stash_vec s0 = stash_vec s) by (apply stash_vec_cell; exact Kpop).
  unfold bind at 1. destruct (m_bits c s0) as [b s0'|k p s0'| |] eqn:B; auto.
  2:{ apply m_bits_err in B. subst. exact SV0. }
  apply m_bits_ok in B. subst s0'.
  unfold bind at 1. destruct (get_var R_OFFSET s0) as [o s1|k p s1| |] eqn:G1; auto.
  2:{ apply get_var_err in G1. subst. exact SV0. }
  apply get_var_ok in G1. destruct G1 as [-> G1].
  unfold bind at 1. destruct (get_var R_INPUT s0) as [x s1|k p s1| |] eqn:G2; auto.
  2:{ apply get_var_err in G2. subst. exact SV0. }
  apply get_var_ok in G2. destruct G2 as [-> G2].
  unfold bind at 1.
  destruct (set_var R_OFFSET _ s0) as [u1 s1|k p s1| |] eqn:E1; auto.
  2:{ apply set_var_err in E1. subst. exact SV0. }
  pose proof (set_var_stash _ _ _ _ _ off_ne E1) as K1.
  apply set_var_ok in E1.
  unfold bind at 1.
  destruct (set_var R_INPUT _ s1) as [u2 s2|k p s2| |] eqn:E2; auto.
  2:{ apply set_var_err in E2. subst. rewrite <- SV0. apply stash_vec_cell. exact K1. }
  pose proof (set_var_stash _ _ _ _ _ inp_ne E2) as K2.
  apply set_var_ok in E2.
  assert (SV2 : stash_vec s2 = stash_vec s).
  { rewrite <- SV0. apply stash_vec_cell. congruence. }
  unfold bind at 1. destruct (get_var R_STASH s2) as [st s3|k p s3| |] eqn:G3; auto.
  2:{ apply get_var_err in G3. subst. exact SV2. }
  apply get_var_ok in G3. destruct G3 as [-> G3].
  unfold bind at 1. destruct (m_vec st s2) as [v s3|k p s3| |] eqn:V; auto.
  2:{ apply m_vec_err in V. subst. exact SV2. }
  apply m_vec_ok in V. destruct V as [-> V].
  destruct (set_var R_STASH _ s2) as [u3 s3|k p s3| |] eqn:E3; auto.
  2:{ apply set_var_err in E3. subst. exact SV2. }
  apply set_var_ok in E3.
  exists v, x, o. rewrite <- H0.
  split; [rewrite <- SV2; unfold stash_vec; rewrite G3, V; reflexivity|].
  split; [exact G2|]. split; [exact G1|].
  eapply stash_vec_set; [exact E3|]. apply nth_error_Some. congruence.
Qed.

(* the offset tag of the entry open-bitstr builds is the old offset, whatever tags the old input
   carried (a user's own "offset" tag included) *)
Lemma tagwfT_keys : forall c, tg notagtag c -> keys_tagwf (tags_or_empty c).
Proof.
  intros c H. unfold tags_or_empty. pose proof (tg_tags_list _ _ H) as G.
  unfold keys_tagwf. destruct (tags_of c); [| constructor].
  eapply Forall_impl; [| exact G]. intros kv [Hk _]. apply tagwfT_tagwf. exact Hk.
Qed.

Lemma get_offset_insert : forall x o, tg notagtag x -> get_tag (insert_tag x offset_lit o) offset_lit = Some o.
Proof.
  intros x o Hx.
  rewrite (get_insert_tag_cmp x offset_lit o offset_lit (tagwfT_keys x Hx)); [reflexivity | |];
    split; exact I.
Qed.

Lemma off_of_insert : forall x o, tg notagtag x -> off_of (insert_tag x offset_lit o) = o.
Proof. intros x o Hx. unfold off_of. rewrite get_offset_insert by exact Hx. reflexivity. Qed.

(* ================================================================== *)
(* 3. every stash entry carries an offset tag                            *)
(* ================================================================== *)
Definition has_offset (e : cell) : Prop := exists o, get_tag e offset_lit = Some o.
Definition stash_ok (s : state) : Prop := forall v, stash_vec s = Some v -> Forall has_offset v.

Lemma heap_input_tagwfT : forall s a x, tagwfT_state s -> nth_error (heap s) a = Some x -> tg notagtag x.
Proof.
  intros s a x (_ & B & _) E. rewrite Forall_forall in B. apply B. eapply nth_error_In; eauto.
Qed.

Theorem native_preserves_stash_ok : forall fo w f s,
  native_fn fo w = Some f -> tagwfT_state s -> stash_ok s ->
  match f s with
  | ROk _ s' => stash_ok s'
  | RErr _ _ s' => stash_ok s'
  | _ => True
  end.
Proof.
  intros fo w f s H HT Hs.
  destruct (native_fn_kst fo w f H) as [Hw | Hk].
  - apply stash_word_cases in Hw. destruct Hw as [-> | ->].
    + rewrite native_open in H. injection H as <-.
      pose proof (open_bitstr_stash s) as O. destruct (w_open_bitstr s); auto.
      * destruct O as (v & x & o & V & X & _ & V'). intros v' Hv'. rewrite V' in Hv'. injection Hv' as <-.
        apply Forall_app. split; [apply Hs; exact V|]. constructor; [| constructor].
        exists o. apply get_offset_insert. eapply heap_input_tagwfT; eauto.
      * intros v Hv. apply Hs. congruence.
    + rewrite native_close in H. injection H as <-.
      pose proof (close_bitstr_stash s) as C. destruct (w_close_bitstr s); auto.
      * destruct C as (v & e & V & V'). intros v' Hv'. rewrite V' in Hv'. injection Hv' as <-.
        specialize (Hs _ V). apply Forall_app in Hs. apply Hs.
      * intros v Hv. apply Hs. congruence.
  - specialize (Hk s). destruct (f s); auto; intros v Hv; apply Hs;
      rewrite <- Hv; symmetry; apply stash_vec_cell; exact Hk.
Qed.

(* under stash_ok close-bitstr restores a stored offset, never the default 0 *)
Lemma stash_ok_off_of : forall s v e, stash_ok s -> stash_vec s = Some (v ++ [e]) ->
  get_tag e offset_lit = Some (off_of e).
Proof.
  intros s v e Hs V. specialize (Hs _ V). apply Forall_app in Hs. destruct Hs as [_ Hs].
  inversion Hs as [| ? ? [o Ho] _]; subst. unfold off_of. rewrite Ho. reflexivity.
Qed.

(* ================================================================== *)
(* 4. the composable simulation                                          *)
(* ================================================================== *)
Definition stash_rel (s1 s2 : state) : Prop :=
  forall v1 v2, stash_vec s1 = Some v1 -> stash_vec s2 = Some v2 -> offs_rel v1 v2.

Definition srelK (s1 s2 : state) : Prop :=
  srel s1 s2 /\ tagwfT_state s1 /\ tagwfT_state s2 /\ stash_rel s1 s2.

Definition rrelK {A} (r1 r2 : res A) : Prop :=
  match r1, r2 with
  | ROk a s, ROk a' s' => a = a' /\ srelK s s'
  | RErr k p s, RErr k' p' s' => k = k' /\ option_map strip p = option_map strip p' /\ srelK s s'
  | RPanic, RPanic => True
  | RUnsup, RUnsup => True
  | _, _ => False
  end.

Lemma Forall2_app_inv_last : forall {A B} (R : A -> B -> Prop) l1 x1 l2 x2,
  Forall2 R (l1 ++ [x1]) (l2 ++ [x2]) -> Forall2 R l1 l2 /\ R x1 x2.
Proof.
  intros A B R l1 x1 l2 x2 H.
  assert (L : length l1 = length l2).
  { apply Forall2_length in H. rewrite !app_length in H. cbn in H. lia. }
  revert l2 H L. induction l1 as [| a r IH]; intros [| b r2] H L; try discriminate.
  - inversion H; subst. auto.
  - cbn [app] in H. inversion H; subst. destruct (IH r2) as [A1 A2]; auto.
Qed.

Lemma rrel_rrelK : forall (r1 r2 : res unit),
  rrel eq r1 r2 ->
  (forall s1' s2', res_state r1 = Some s1' -> res_state r2 = Some s2' ->
     tagwfT_state s1' /\ tagwfT_state s2' /\ stash_rel s1' s2') ->
  rrelK r1 r2.
Proof.
  intros r1 r2 R H. destruct r1, r2; cbn in *; try contradiction; auto.
  - destruct R as [-> R]. split; auto. destruct (H _ _ eq_refl eq_refl) as (A & B & C).
    split; [exact R | split; [exact A | split; [exact B | exact C]]].
  - destruct R as (-> & Ep & R). split; auto. split; auto.
    destruct (H _ _ eq_refl eq_refl) as (A & B & C).
    split; [exact R | split; [exact A | split; [exact B | exact C]]].
Qed.

Theorem native_simK : forall fo w f s1 s2,
  native_fn fo w = Some f -> ~ In w design_excluded ->
  srelK s1 s2 -> rrelK (f s1) (f s2).
Proof.
  intros fo w f s1 s2 H Hx (Hs & T1 & T2 & Ho).
  assert (R : rrel eq (f s1) (f s2)).
  { destruct (not_excluded_cases w Hx) as [-> | Hr].
    - rewrite native_close in H. injection H as <-. apply close_bitstr_rel; auto.
    - apply (native_sim fo w f H Hr). exact Hs. }
  apply rrel_rrelK; [exact R|].
  intros s1' s2' E1 E2.
  pose proof (native_preserves_tagwfT fo w f s1 H T1) as P1.
  pose proof (native_preserves_tagwfT fo w f s2 H T2) as P2.
  assert (T1' : tagwfT_state s1').
  { destruct (f s1); cbn in E1; try discriminate; injection E1 as <-; [exact P1 | apply P1]. }
  assert (T2' : tagwfT_state s2').
  { destruct (f s2); cbn in E2; try discriminate; injection E2 as <-; [exact P2 | apply P2]. }
  split; [exact T1'|]. split; [exact T2'|].
  destruct (native_fn_kst fo w f H) as [Hw | Hk].
  - apply stash_word_cases in Hw. destruct Hw as [-> | ->].
    + (* open-bitstr *)
      rewrite native_open in H. injection H as <-.
      pose proof (open_bitstr_stash s1) as O1. pose proof (open_bitstr_stash s2) as O2.
      destruct (w_open_bitstr s1) as [u1 t1|k1 p1 t1| |] eqn:F1,
               (w_open_bitstr s2) as [u2 t2|k2 p2 t2| |] eqn:F2;
        cbn in R, E1, E2; try contradiction; try discriminate;
        injection E1 as <-; injection E2 as <-.
      * destruct O1 as (v1 & x1 & o1 & V1 & X1 & Of1 & V1').
        destruct O2 as (v2 & x2 & o2 & V2 & X2 & Of2 & V2').
        intros w1 w2 W1 W2. rewrite V1' in W1. rewrite V2' in W2.
        injection W1 as <-. injection W2 as <-.
        apply Forall2_app; [apply Ho; assumption|]. constructor; [| constructor].
        rewrite (off_of_insert x1 o1 (heap_input_tagwfT s1 R_INPUT x1 T1 X1)),
                (off_of_insert x2 o2 (heap_input_tagwfT s2 R_INPUT x2 T2 X2)).
        pose proof (lrel_nth _ _ R_OFFSET (srel_heap _ _ Hs)) as N.
        rewrite Of1, Of2 in N. exact N.
      * intros w1 w2 W1 W2. apply Ho; congruence.
    + (* close-bitstr *)
      rewrite native_close in H. injection H as <-.
      pose proof (close_bitstr_stash s1) as C1. pose proof (close_bitstr_stash s2) as C2.
      destruct (w_close_bitstr s1) as [u1 t1|k1 p1 t1| |] eqn:F1,
               (w_close_bitstr s2) as [u2 t2|k2 p2 t2| |] eqn:F2;
        cbn in R, E1, E2; try contradiction; try discriminate;
        injection E1 as <-; injection E2 as <-.
      * destruct C1 as (v1 & e1 & V1 & V1'). destruct C2 as (v2 & e2 & V2 & V2').
        intros w1 w2 W1 W2. rewrite V1' in W1. rewrite V2' in W2.
        injection W1 as <-. injection W2 as <-.
        specialize (Ho _ _ V1 V2). apply Forall2_app_inv_last in Ho. apply Ho.
      * intros w1 w2 W1 W2. apply Ho; congruence.
  - pose proof (Hk s1) as K1. pose proof (Hk s2) as K2.
    intros w1 w2 W1 W2. apply Ho.
    + rewrite <- W1. symmetry. apply stash_vec_cell.
      destruct (f s1); cbn in E1; try discriminate; injection E1 as <-; exact K1.
    + rewrite <- W2. symmetry. apply stash_vec_cell.
      destruct (f s2); cbn in E2; try discriminate; injection E2 as <-; exact K2.
Qed.

(* a state and its stripped-but-for-the-stash-offsets form are related *)
Lemma tg_strip : forall T c, tg T (strip c).
Proof.
  intros T. induction c using cell_ind'; cbn [strip]; try (split; exact I); auto.
  - apply tg_vec. apply Forall_forall. intros x Hx. apply in_map_iff in Hx.
    destruct Hx as (y & <- & Hy). rewrite Forall_forall in H. apply H. exact Hy.
  - apply tg_map. apply Forall_forall. intros x Hx. apply in_map_iff in Hx.
    destruct Hx as (y & <- & Hy). rewrite Forall_forall in H. destruct (H _ Hy). split; assumption.
Qed.

Lemma tg_keep_off : forall e, tg notagtag (keep_off e).
Proof.
  intro e. unfold keep_off. destruct (get_tag e offset_lit); [| apply tg_strip].
  apply deepT_tag. split; [cbn; apply is_tag_strip|]. split; [| apply tg_strip].
  constructor; [| constructor]. split; [apply tg_offset_lit | apply tg_strip].
Qed.

Lemma tg_keep_offs : forall st, tg notagtag (keep_offs st).
Proof.
  intro st. unfold keep_offs. destruct (value st); try apply tg_strip.
  apply tg_vec. apply Forall_forall. intros x Hx. apply in_map_iff in Hx.
  destruct Hx as (e & <- & _). apply tg_keep_off.
Qed.

Lemma tagwfT_strip_state_off : forall s, tagwfT_state (strip_state_off s).
Proof.
  intro s. unfold strip_state_off, tagwfT_state, tg_state. cbn [ds heap loops set_heap strip_state].
  split; [| split].
  - apply Forall_forall. intros x Hx. apply in_map_iff in Hx. destruct Hx as (y & <- & _). apply tg_strip.
  - apply Forall_list_set; [| apply tg_keep_offs].
    apply Forall_forall. intros x Hx. apply in_map_iff in Hx. destruct Hx as (y & <- & _). apply tg_strip.
  - apply Forall_forall. intros x Hx. apply in_map_iff in Hx. destruct Hx as (y & <- & _).
    cbn. apply tg_strip.
Qed.

Theorem srelK_strip_off : forall s, tagwfT_state s -> srelK s (strip_state_off s).
Proof.
  intros s Hs. split; [apply srel_strip_off, tagwfT_state_tagwf, Hs|].
  split; [exact Hs|]. split; [apply tagwfT_strip_state_off|].
  intros v1 v2 V1 V2. rewrite (stash_vec_strip_off s v1 V1) in V2. injection V2 as <-.
  apply offs_rel_keep. apply (tagwfT_stash_off_ok s Hs). exact V1.
Qed.

Lemma rrelK_res_strip : forall (r1 r2 : res unit), rrelK r1 r2 -> res_strip r1 = res_strip r2.
Proof.
  intros r1 r2 H. destruct r1, r2; cbn in *; try contradiction; auto.
  - destruct H as [-> ((E & _) & _)]. rewrite E. reflexivity.
  - destruct H as (-> & Ep & ((E & _) & _)). rewrite E, Ep. reflexivity.
Qed.

(* ================================================================== *)
(* 5. sequences of native words                                          *)
(* ================================================================== *)
Fixpoint run_seq (fs : list (M unit)) : M unit :=
  match fs with
  | [] => ret tt
  | f :: r => f ;; run_seq r
  end.

Definition plain_native (fo : fops) (f : M unit) : Prop :=
  exists w, native_fn fo w = Some f /\ ~ In w design_excluded.

Theorem run_seq_simK : forall fo fs,
  Forall (plain_native fo) fs ->
  forall s1 s2, srelK s1 s2 -> rrelK (run_seq fs s1) (run_seq fs s2).
Proof.
  intros fo fs HF. induction HF as [| f r (w & Hw & Hx) Hr IH]; intros s1 s2 Hs; cbn [run_seq].
  - cbn. split; auto.
  - unfold bind. pose proof (native_simK fo w f s1 s2 Hw Hx Hs) as R.
    destruct (f s1) as [[] t1|k1 p1 t1| |], (f s2) as [[] t2|k2 p2 t2| |]; cbn in R; try contradiction; auto.
    apply IH. apply R.
Qed.

(* any sequence of native words outside the exclusion list - open-bitstr ... close-bitstr pairs,
   nested, interleaved with reads - commutes with stripping all tags but the stash offsets *)
Theorem run_seq_strip_commutes : forall fo fs s,
  Forall (plain_native fo) fs -> tagwfT_state s ->
  res_strip (run_seq fs s) = res_strip (run_seq fs (strip_state_off s)).
Proof.
  intros fo fs s HF Hs. apply rrelK_res_strip. eapply run_seq_simK; eauto. apply srelK_strip_off. exact Hs.
Qed.

(* with the plain strip_state the sequence open-bitstr ; close-bitstr already fails to commute *)
Definition ex_oc_state : state :=
  ex_state [CBits (mkcbs 0 8 [7%N])]
           [CInt 0; CTag [(CStr "offset", CInt 99); (CStr "zz", CInt 1)] ex_bits; CInt 8; CVec []; CNil; CInt 0].

Definition heap_of {A} (r : res A) : option (list cell) := option_map heap (res_state r).

Example ex_oc_tagwfT : tagwfT_state ex_oc_state.
Proof.
  unfold tagwfT_state, tg_state, ex_oc_state, ex_state. cbn [ds heap loops].
  repeat split; repeat constructor.
Qed.

Example ex_open_overwrites_user_offset :
  heap_of (w_open_bitstr ex_oc_state) =
  Some [CInt 0; CBits (mkcbs 0 8 [7%N]); CInt 0;
        CVec [CTag [(CStr "offset", CInt 8); (CStr "zz", CInt 1)] ex_bits]; CNil; CInt 0].
Proof. vm_compute. reflexivity. Qed.

Example ex_open_close_restores :
  heap_of (run_seq [w_open_bitstr; w_close_bitstr] ex_oc_state) =
    Some [CInt 0; ex_bits; CInt 8; CVec []; CNil; CInt 0] /\
  heap_of (run_seq [w_open_bitstr; w_close_bitstr] (strip_state_off ex_oc_state)) =
    Some [CInt 0; ex_bits; CInt 8; CVec []; CNil; CInt 0].
Proof. vm_compute. auto. Qed.

Definition ex_opened : state :=
  match w_open_bitstr ex_oc_state with ROk _ s => s | _ => ex_oc_state end.

Example ex_close_strip_variants :
  option_map (fun h => nth_error h R_OFFSET) (heap_of (w_close_bitstr ex_opened)) = Some (Some (CInt 8)) /\
  option_map (fun h => nth_error h R_OFFSET) (heap_of (w_close_bitstr (strip_state_off ex_opened))) = Some (Some (CInt 8)) /\
  option_map (fun h => nth_error h R_OFFSET) (heap_of (w_close_bitstr (strip_state ex_opened))) = Some (Some (CInt 0)) /\
  nth_error (heap (strip_state_off ex_opened)) R_STASH = Some (CVec [CTag [(CStr "offset", CInt 8)] ex_bits]).
Proof. vm_compute. auto. Qed.

Theorem native_stash_private : forall fo w f s,
  native_fn fo w = Some f -> w <> "open-bitstr"%string -> w <> "close-bitstr"%string ->
  match f s with
  | ROk _ s' => nth_error (heap s') R_STASH = nth_error (heap s) R_STASH
  | RErr _ _ s' => nth_error (heap s') R_STASH = nth_error (heap s) R_STASH
  | _ => True
  end.
Proof.
  intros fo w f s H H1 H2. destruct (native_fn_kst fo w f H) as [Hw | Hk]; [| exact (Hk s)].
  apply stash_word_cases in Hw. tauto.
Qed.

Example close_nonvacuous : forall fo,
  tagwfT_state ex_oc_state /\ stash_ok ex_oc_state /\
  native_fn fo "open-bitstr"%string = Some w_open_bitstr /\
  native_fn fo "close-bitstr"%string = Some w_close_bitstr /\
  ~ In "close-bitstr"%string design_excluded /\ ~ In "open-bitstr"%string design_excluded /\
  nth_error (heap ex_oc_state) R_INPUT =
    Some (CTag [(CStr "offset", CInt 99); (CStr "zz", CInt 1)] ex_bits) /\
  heap_of (w_open_bitstr ex_oc_state) =
    Some [CInt 0; CBits (mkcbs 0 8 [7%N]); CInt 0;
          CVec [CTag [(CStr "offset", CInt 8); (CStr "zz", CInt 1)] ex_bits]; CNil; CInt 0] /\
  tagwfT_state ex_opened /\ stash_ok ex_opened /\
  nth_error (heap (strip_state_off ex_opened)) R_STASH = Some (CVec [CTag [(CStr "offset", CInt 8)] ex_bits]) /\
  option_map (fun h => nth_error h R_OFFSET) (heap_of (w_close_bitstr ex_opened)) = Some (Some (CInt 8)) /\
  option_map (fun h => nth_error h R_OFFSET) (heap_of (w_close_bitstr (strip_state_off ex_opened))) = Some (Some (CInt 8)) /\
  option_map (fun h => nth_error h R_OFFSET) (heap_of (w_close_bitstr (strip_state ex_opened))) = Some (Some (CInt 0)) /\
  res_strip (w_close_bitstr ex_opened) = res_strip (w_close_bitstr (strip_state_off ex_opened)).
Proof.
  intro fo.
  assert (T0 : tagwfT_state ex_oc_state) by exact ex_oc_tagwfT.
  assert (S0 : stash_ok ex_oc_state).
  { intros v Hv. vm_compute in Hv. injection Hv as <-. constructor. }
  pose proof (native_preserves_tagwfT fo _ _ ex_oc_state (native_open fo) T0) as T1.
  pose proof (native_preserves_stash_ok fo _ _ ex_oc_state (native_open fo) T0 S0) as S1.
  assert (E : w_open_bitstr ex_oc_state = ROk tt ex_opened) by (vm_compute; reflexivity).
  rewrite E in T1, S1.
  destruct ex_close_strip_variants as (A & B & C & D).
  repeat (split; [first [assumption | reflexivity | exact ex_open_overwrites_user_offset
                        | (cbn; intuition discriminate)] |]).
  apply (strip_commutes_full_close_T fo "close-bitstr"%string w_close_bitstr ex_opened (native_close fo));
    [cbn; intuition discriminate | exact T1].
Qed.
