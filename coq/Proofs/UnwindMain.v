(* UnwindMain.v (C10): the build loop keeps the invariant, and [build_unwind] applied to
   any state satisfying the invariant gives back the machine in which the source was
   submitted. *)
From Xeh Require Import Model.Prelude Model.Bits Model.Codec Model.Cell Model.Lexer Model.Fmt
                        Model.Vm Model.Words Model.Build.
From Xeh Require Import Proofs.VmFrame Proofs.VmLimits Proofs.NoPanic Proofs.NoPanicBuild
                        Proofs.UnwindLists Proofs.UnwindFrame Proofs.UnwindInv Proofs.UnwindBuild.
Local Notation length := List.length.


#[local] Arguments Z.add : simpl never.
#[local] Arguments Z.sub : simpl never.
#[local] Arguments Z.mul : simpl never.
#[local] Arguments Z.ltb : simpl never.
#[local] Arguments Z.leb : simpl never.
#[local] Arguments Z.eqb : simpl never.
#[local] Arguments Z.of_nat : simpl never.
#[local] Arguments Z.to_nat : simpl never.

(* ---------- what the statement has to exclude ---------- *)
Section Watch.
  Variable fo : fops.
  Variable pr : string -> option Z.
  Variable rf : nat.
  Variable dl : nat.    (* the length of the dictionary when the source was submitted *)

  (* the word [name], looked up in [s], is a user-defined immediate word (it would run
     arbitrary code in the outer context at build time), or it is [const] about to overwrite
     a constant that existed before the source was submitted, or [endenum] whose block returns
     to a context that is not a meta context (finding E3), or a field word of an enum that is
     not pending in a meta context ([native_bad], UnwindBuild.v) *)
  Definition bad_word (s : state) (name : string) : bool :=
    match dict_entry s name with
    | Some (DFun true (FInterp _) _) => true
    | Some (DFun true (FNative w) _) => native_bad fo pr rf dl w s
    | _ => false
    end.

  (* replays the token loop of [build1] and reports whether it meets such a word *)
  Fixpoint calls_bad (fuel depth : nat) (s : state) : bool :=
    match fuel with
    | O => false
    | S f =>
      match (if mode_eqb (cmode (cx s)) MMeta && negb (has_pending_flow s) then run_m fo rf else ret tt) s with
      | ROk _ s0 =>
        match get_token pr s0 with
        | ROk (BLit v) s1 =>
          match code_emit_value v s1 with ROk _ s2 => calls_bad f depth s2 | _ => false end
        | ROk (BWord name) s1 =>
          let via_word :=
              bad_word s1 name ||
              match build_word fo pr rf f name s1 with ROk _ s2 => calls_bad f depth s2 | _ => false end in
          match top_function_flow s1 with
          | Some (_, _, ls) =>
            match rposition ls name 0 None with
            | Some i => match code_emit (OLoadLocal i) s1 with ROk _ s2 => calls_bad f depth s2 | _ => false end
            | None => via_word
            end
          | None => via_word
          end
        | _ => false
        end
      | _ => false
      end
    end.
End Watch.

Section Loop.
  Variable fo : fops.
  Variable pr : string -> option Z.
  Variable rf : nat.
  Variable b : state.
  Variable m : mode.
  Hypothesis Hm : m <> MMeta.
  Hypothesis Hdl : length (dbg b) = length (code b).

  Local Notation binv := (binv b m).
  Local Notation dl := (length (dict b)).

  Lemma build_word_inv f name t : binv t -> quiet t -> bad_word fo pr rf dl t name = false ->
    res_all binv (build_word fo pr rf f name t).
  Proof.
    intros H Q BW. unfold build_word, bind, get. unfold bad_word in BW.
    destruct (dict_entry t name) as [[c|a|imm fr len]|]; try exact H;
      try (apply (bp_code_emit b m); exact H).
    destruct imm.
    - destruct fr as [x|w]; [discriminate|]. unfold run_immediate.
      destruct (immediate_fn fo pr rf f w) as [prog|] eqn:E; [|exact I].
      pose proof (bp_immediate_fn fo pr rf b m Hm Hdl f w prog E) as X.
      apply X; [exact H|exact Q|exact BW].
    - destruct fr; apply (bp_code_emit b m); exact H.
  Qed.

  Lemma next_token_keeps : forall fuel t,
    res_all (fun t1 => cx t1 = cx t /\ flows t1 = flows t /\ code t1 = code t) (next_token pr fuel t).
  Proof.
    induction fuel as [|f IH]; intros t; cbn [next_token]; [exact I|].
    destruct (input t) as [|il rest]; [repeat split|]. cbv zeta.
    destruct (lex_next_nonws _ _) as [tk l'].
    destruct tk; try exact I; try (repeat split; fail).
    - match goal with |- context [next_token pr f ?x] => specialize (IH x); destruct (next_token pr f x) end;
        cbn [res_all] in *; auto.
    - destruct (pr text); repeat split.
  Qed.

  Lemma quiet_keeps t t1 : cx t1 = cx t -> flows t1 = flows t -> code t1 = code t -> quiet t -> quiet t1.
  Proof.
    unfold quiet, has_pending_flow, is_running, ip. intros -> -> ->. auto.
  Qed.

  Theorem build1_inv : forall fuel depth t, binv t -> calls_bad fo pr rf dl fuel depth t = false ->
    res_all binv (build1 fo pr rf fuel depth t).
  Proof.
    induction fuel as [|f IH]; intros depth t H CB; cbn [build1]; [exact I|].
    cbn [calls_bad] in CB. unfold bind at 1. unfold get. unfold bind at 1.
    (* the run that precedes the token *)
    assert (PRE : match (if mode_eqb (cmode (cx t)) MMeta && negb (has_pending_flow t)
                         then run_m fo rf else ret tt) t with
                  | ROk _ t0 => binv t0 /\ quiet t0
                  | RErr _ _ t0 => binv t0
                  | _ => True
                  end).
    { destruct (mode_eqb (cmode (cx t)) MMeta && negb (has_pending_flow t)) eqn:E.
      - apply andb_true_iff in E. destruct E as [E1 E2]. apply mode_eqb_meta in E1.
        pose proof (bpm_run_m fo rf b m Hm t H E1) as X.
        destruct (run_m fo rf t) as [u t0|k p t0| |] eqn:ER; cbn [res_all] in *; auto; [|apply X].
        split; [apply X|]. destruct u. intros _ _. eapply run_m_ok_stopped; eauto.
      - unfold ret. split; [exact H|]. intros Q1 Q2. rewrite Q1, Q2 in E. cbn in E. discriminate. }
    destruct ((if mode_eqb (cmode (cx t)) MMeta && negb (has_pending_flow t)
               then run_m fo rf else ret tt) t) as [u t0|k p t0| |]; cbn [res_all]; auto.
    destruct PRE as [H0 Q0]. unfold bind at 1.
    pose proof (bp_get_token pr b m t0 H0) as H1.
    pose proof (next_token_keeps (tok_fuel t0) t0) as K1. fold (get_token pr t0) in K1.
    destruct (get_token pr t0) as [tk t1|k p t1| |]; cbn [res_all] in *; auto.
    destruct K1 as (K1 & K2 & K3).
    pose proof (quiet_keeps _ _ K1 K2 K3 Q0) as Q1.
    destruct tk as [|name|v].
    - (* end of input *)
      unfold bind, get. destruct (negb _); [exact H1|]. destruct (has_pending_flow t1); exact H1.
    - (* a word *)
      unfold bind at 1. unfold get.
      assert (W : (bad_word fo pr rf dl t1 name ||
                   match build_word fo pr rf f name t1 with ROk _ s2 => calls_bad fo pr rf dl f depth s2 | _ => false end) = false ->
                  res_all binv ((build_word fo pr rf f name;; build1 fo pr rf f depth) t1)).
      { intros CW. apply orb_false_iff in CW. destruct CW as [C1 C2].
        pose proof (build_word_inv f name t1 H1 Q1 C1) as X. unfold bind.
        destruct (build_word fo pr rf f name t1) as [u1 t2|k p t2| |]; cbn [res_all] in *; auto. }
      cbv zeta in CB.
      destruct (top_function_flow t1) as [[[idx st] ls]|]; [|apply W; exact CB].
      destruct (rposition ls name 0 None) as [i|]; [|apply W; exact CB].
      pose proof (bp_code_emit b m (OLoadLocal i) t1 H1) as X. unfold bind.
      destruct (code_emit (OLoadLocal i) t1) as [u1 t2|k p t2| |]; cbn [res_all] in *; auto.
    - (* a literal *)
      pose proof (bp_code_emit b m (load_value_opcode v) t1 H1) as X. unfold bind.
      unfold code_emit_value in *.
      destruct (code_emit (load_value_opcode v) t1) as [u1 t2|k p t2| |]; cbn [res_all] in *; auto.
  Qed.
End Loop.

(* ---------- the unwinding ---------- *)
(* the machine: everything a later source or a later run can read, except the list of source
   texts, the instruction meter, the captured output, the reverse log, the last-token
   bookkeeping and the about-to-stop flag *)
Definition same_machine (s s' : state) : Prop :=
  input s' = input s /\ nested s' = nested s /\ cx s' = cx s /\ code s' = code s /\
  dbg s' = dbg s /\ flows s' = flows s /\ dict s' = dict s /\ rs s' = rs s /\
  loops s' = loops s /\ special s' = special s /\ heap s' = heap s /\ ds s' = ds s /\
  insn_limit s' = insn_limit s /\ heap_limit s' = heap_limit s /\ stack_limit s' = stack_limit s.

(* what a state must satisfy for a failed build to be undone exactly: no input is pending
   (true between API calls), the debug map is as long as the code, and no unresolved [late]
   stub is left in the code *)
Definition build_wf (s : state) : Prop :=
  input s = [] /\ length (dbg s) = length (code s) /\
  Forall (fun op => is_resolve op = false) (code s).

Lemma leave_contexts_chain (tmp : ctx) (base : list ctx) (depth : nat) :
  length base = S depth ->
  forall ms fuel t, cx t :: nested t = ms ++ tmp :: base -> length ms <= fuel ->
    leave_contexts fuel depth t = set_nested (set_cx t tmp) base.
Proof.
  intros Hb. induction ms as [|c ms IH]; intros fuel t E Hf; cbn [app] in E.
  - injection E as E1 E2.
    assert (R : t = set_nested (set_cx t tmp) base).
    { destruct t; cbn in *; subst; reflexivity. }
    destruct fuel as [|f]; cbn [leave_contexts]; [exact R|].
    rewrite E2, Hb, Nat.ltb_irrefl. exact R.
  - injection E as E1 E2. destruct fuel as [|f]; cbn [length] in Hf; [lia|].
    cbn [leave_contexts].
    assert (L : (S depth <? length (nested t))%nat = true).
    { apply Nat.ltb_lt. rewrite E2, app_length. cbn [length]. lia. }
    rewrite L. destruct (nested t) as [|prev rest] eqn:En.
    + destruct ms; discriminate.
    + rewrite IH; [reflexivity| |lia]. cbn [set_cx set_nested cx nested].
      rewrite E2. reflexivity.
Qed.

Section Unwind.
  Variable fo : fops.
  Variable pr : string -> option Z.
  Variable rf : nat.
  Variable b : state.
  Variable m : mode.
  Hypothesis Hwf : build_wf b.

  Theorem build_unwind_restores t : binv b m t ->
    same_machine b (build_unwind (length (nested b)) (length (input b)) (length (ds b)) (length (heap b)) t).
  Proof.
    destruct Hwf as (Hin & Hdl & Hnr).
    intros [C B]. unfold build_unwind. cbv zeta. rewrite Hin. cbn [length]. rewrite lastn_0.
    destruct C as [ms [E F]].
    rewrite (leave_contexts_chain (tmp_ctx b m) (cx b :: nested b) (length (nested b)) eq_refl ms);
      [|exact E|st_simpl; apply (f_equal (@length ctx)) in E; rewrite app_length in E; cbn [length] in E; lia].
    st_simpl. unfold tmp_ctx. cbn [ds_len cs_len rs_len fs_len ls_len ss_ptr di_len cip cmode].
    cbn [length]. rewrite (proj2 (Nat.ltb_lt _ _) (Nat.lt_succ_diag_r (length (nested b)))).
    st_simpl. destruct B as [H1 H2 H3 H4 H5 [new [H6 _]] H7 H8 H9 H10 (G1 & G2 & G3) H12].
    unfold same_machine. st_simpl. repeat split; try assumption; try reflexivity; try (symmetry; assumption).
    - apply prefix_firstn_eq. apply kprefix_prefix; assumption.
    - rewrite <- Hdl. apply prefix_firstn_eq. exact H2.
    - apply lastn_length_eq. exists new. exact H6.
    - apply prefix_firstn_eq. exact H4.
    - apply lastn_length_eq. exact H8.
    - apply lastn_length_eq. exact H9.
    - apply lastn_length_eq. exact H10.
    - apply prefix_firstn_eq. exact H5.
    - apply lastn_length_eq. exact H7.
  Qed.

  Hypothesis Hm : m <> MMeta.

  (* the state after [context_open m ;; intern_source src] satisfies the invariant *)
  Lemma binv_start src :
    exists s1, (context_open m ;; intern_source src) b = ROk tt s1 /\ binv b m s1 /\
               length (nested s1) = S (length (nested b)).
  Proof.
    destruct Hwf as (Hin & Hdl & Hnr).
    unfold bind, context_open, intern_source. cbv zeta. eexists. split; [reflexivity|].
    st_simpl. split; [|reflexivity]. split.
    - exists []. st_simpl. split; [reflexivity|constructor].
    - constructor; st_simpl; try apply kprefix_refl; try apply prefix_refl; try apply suffix_refl; try (repeat split; reflexivity); try exact Hdl;
        try (split; intro X; exact X).
      exists []. split; [reflexivity|constructor].
  Qed.

  (* MAIN: a source rejected at build time leaves the machine exactly as it was *)
  Theorem build_failure_restores fuel src s1 k p s2 :
    (context_open m ;; intern_source src) b = ROk tt s1 ->
    build1 fo pr rf fuel (length (nested s1)) s1 = RErr k p s2 ->
    calls_bad fo pr rf (length (dict b)) fuel (length (nested s1)) s1 = false ->
    exists s', build_from_source fo pr rf fuel src m b = RErr k p s' /\ same_machine b s'.
  Proof.
    intros E1 E2 CB. destruct (binv_start src) as (s1' & E1' & H1 & _).
    rewrite E1 in E1'. injection E1' as <-.
    destruct Hwf as (Hin & Hdl & Hnr).
    pose proof (build1_inv fo pr rf b m Hm Hdl fuel (length (nested s1)) s1 H1 CB) as X.
    rewrite E2 in X. cbn [res_all] in X.
    eexists. split.
    - unfold build_from_source. cbv zeta. rewrite E1, E2. reflexivity.
    - apply build_unwind_restores. exact X.
  Qed.
End Unwind.

(* ---------- without the hypothesis on [late] stubs ---------- *)
(* everything is restored except that stubs resolved by build-time execution stay resolved *)
Definition same_machine_upto_stubs (s s' : state) : Prop :=
  input s' = input s /\ nested s' = nested s /\ cx s' = cx s /\ code_keep (code s) (code s') /\
  dbg s' = dbg s /\ flows s' = flows s /\ dict s' = dict s /\ rs s' = rs s /\
  loops s' = loops s /\ special s' = special s /\ heap s' = heap s /\ ds s' = ds s /\
  insn_limit s' = insn_limit s /\ heap_limit s' = heap_limit s /\ stack_limit s' = stack_limit s.

Section Upto.
  Variable fo : fops.
  Variable pr : string -> option Z.
  Variable rf : nat.
  Variable b : state.
  Variable m : mode.
  Hypothesis Hin : input b = [].
  Hypothesis Hdl : length (dbg b) = length (code b).
  Hypothesis Hm : m <> MMeta.

  Theorem build_unwind_restores_upto t : binv b m t ->
    same_machine_upto_stubs b
      (build_unwind (length (nested b)) (length (input b)) (length (ds b)) (length (heap b)) t).
  Proof.
    intros [C B]. unfold build_unwind. cbv zeta. rewrite Hin. cbn [length]. rewrite lastn_0.
    destruct C as [ms [E F]].
    rewrite (leave_contexts_chain (tmp_ctx b m) (cx b :: nested b) (length (nested b)) eq_refl ms);
      [|exact E|st_simpl; apply (f_equal (@length ctx)) in E; rewrite app_length in E; cbn [length] in E; lia].
    st_simpl. unfold tmp_ctx. cbn [ds_len cs_len rs_len fs_len ls_len ss_ptr di_len cip cmode].
    cbn [length]. rewrite (proj2 (Nat.ltb_lt _ _) (Nat.lt_succ_diag_r (length (nested b)))).
    st_simpl. destruct B as [H1 H2 H3 H4 H5 [new [H6 _]] H7 H8 H9 H10 (G1 & G2 & G3) H12].
    unfold same_machine_upto_stubs. st_simpl.
    split; [symmetry; exact Hin|]. split; [reflexivity|]. split; [reflexivity|].
    split; [apply kprefix_firstn_keep; exact H1|].
    split; [rewrite <- Hdl; apply prefix_firstn_eq; exact H2|].
    split; [apply lastn_length_eq; exists new; exact H6|].
    split; [apply prefix_firstn_eq; exact H4|].
    split; [apply lastn_length_eq; exact H8|].
    split; [apply lastn_length_eq; exact H9|].
    split; [apply lastn_length_eq; exact H10|].
    split; [apply prefix_firstn_eq; exact H5|].
    split; [apply lastn_length_eq; exact H7|].
    repeat split; assumption.
  Qed.

  Lemma binv_start0 src :
    exists s1, (context_open m ;; intern_source src) b = ROk tt s1 /\ binv b m s1.
  Proof.
    unfold bind, context_open, intern_source. cbv zeta. eexists. split; [reflexivity|].
    st_simpl. split.
    - exists []. st_simpl. split; [reflexivity|constructor].
    - constructor; st_simpl; try apply kprefix_refl; try apply prefix_refl; try apply suffix_refl;
        try (repeat split; reflexivity); try exact Hdl; try (split; intro X; exact X).
      exists []. split; [reflexivity|constructor].
  Qed.

  Theorem build_failure_restores_upto fuel src s1 k p s2 :
    (context_open m ;; intern_source src) b = ROk tt s1 ->
    build1 fo pr rf fuel (length (nested s1)) s1 = RErr k p s2 ->
    calls_bad fo pr rf (length (dict b)) fuel (length (nested s1)) s1 = false ->
    exists s', build_from_source fo pr rf fuel src m b = RErr k p s' /\ same_machine_upto_stubs b s'.
  Proof.
    intros E1 E2 CB. destruct (binv_start0 src) as (s1' & E1' & H1).
    rewrite E1 in E1'. injection E1' as <-.
    pose proof (build1_inv fo pr rf b m Hm Hdl fuel (length (nested s1)) s1 H1 CB) as X.
    rewrite E2 in X. cbn [res_all] in X.
    eexists. split.
    - unfold build_from_source. cbv zeta. rewrite E1, E2. reflexivity.
    - apply build_unwind_restores_upto. exact X.
  Qed.
End Upto.
