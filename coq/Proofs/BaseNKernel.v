(* BaseNKernel.v: the finite kernels of the text encodings of Model/BaseN.v.
   Per-byte / per-symbol bit regrouping facts are established by exhaustive sweeps
   (at most 2^16 cases each) in arithmetic (div/mod) form and composed by [lia];
   alphabet / inverse-table consistency is swept over the 32, 64 and 85 symbols. *)
From Xeh Require Import Model.Prelude Model.BaseN.
From Coq Require Import ZifyBool ZifyNat ZifyN.
Local Ltac Zify.zify_post_hook ::= Z.div_mod_to_equations.
Local Open Scope N_scope.

#[local] Arguments N.add : simpl never.
#[local] Arguments N.sub : simpl never.
#[local] Arguments N.mul : simpl never.
#[local] Arguments N.div : simpl never.
#[local] Arguments N.modulo : simpl never.
#[local] Arguments N.eqb : simpl never.
#[local] Arguments N.ltb : simpl never.
#[local] Arguments N.leb : simpl never.
#[local] Arguments N.land : simpl never.
#[local] Arguments N.lor : simpl never.
#[local] Arguments N.shiftl : simpl never.
#[local] Arguments N.shiftr : simpl never.
#[local] Arguments N.pow : simpl never.
#[local] Arguments N.of_nat : simpl never.

(* ---------- sweeping machinery ---------- *)
Definition rangeN (n : nat) : list N := map N.of_nat (seq 0 n).

Lemma in_rangeN x n : x < N.of_nat n -> In x (rangeN n).
Proof.
  intros H. unfold rangeN. apply in_map_iff. exists (N.to_nat x). split; [lia|].
  apply in_seq. lia.
Qed.

Lemma sweep1 n (P : N -> bool) :
  forallb P (rangeN n) = true -> forall x, x < N.of_nat n -> P x = true.
Proof. intros H x Hx. rewrite forallb_forall in H. apply H, in_rangeN, Hx. Qed.

Lemma sweep2 n m (P : N -> N -> bool) :
  forallb (fun x => forallb (P x) (rangeN m)) (rangeN n) = true ->
  forall x y, x < N.of_nat n -> y < N.of_nat m -> P x y = true.
Proof.
  intros H x y Hx Hy. rewrite forallb_forall in H. specialize (H x (in_rangeN _ _ Hx)).
  rewrite forallb_forall in H. apply H, in_rangeN, Hy.
Qed.

Lemma sweep3 n m k (P : N -> N -> N -> bool) :
  forallb (fun x => forallb (fun y => forallb (P x y) (rangeN k)) (rangeN m)) (rangeN n) = true ->
  forall x y z, x < N.of_nat n -> y < N.of_nat m -> z < N.of_nat k -> P x y z = true.
Proof.
  intros H x y z Hx Hy Hz. rewrite forallb_forall in H. specialize (H x (in_rangeN _ _ Hx)).
  rewrite forallb_forall in H. specialize (H y (in_rangeN _ _ Hy)).
  rewrite forallb_forall in H. apply H, in_rangeN, Hz.
Qed.

(* ================= base64 ================= *)
Definition b64_idx3 (b0 b1 b2 : N) : list N :=
  [ N.shiftr b0 2;
    N.lor (N.shiftl (N.land b0 3) 4) (N.shiftr b1 4);
    N.lor (N.shiftl (N.land b1 15) 2) (N.shiftr b2 6);
    N.land b2 63 ].
Definition b64_idx2 (b0 b1 : N) : list N :=
  [ N.shiftr b0 2;
    N.lor (N.shiftl (N.land b0 3) 4) (N.shiftr b1 4);
    N.shiftl (N.land b1 15) 2 ].
Definition b64_idx1 (b0 : N) : list N :=
  [ N.shiftr b0 2; N.shiftl (N.land b0 3) 4 ].

Lemma b64_e0 b0 : b0 < 256 -> N.shiftr b0 2 = b0 / 4.
Proof. intros. apply (N.shiftr_div_pow2 b0 2). Qed.
Lemma b64_e1 b0 b1 : b0 < 256 -> b1 < 256 ->
  N.lor (N.shiftl (N.land b0 3) 4) (N.shiftr b1 4) = (b0 mod 4) * 16 + b1 / 16.
Proof.
  intros H0 H1. apply N.eqb_eq.
  apply (sweep2 256 256 (fun b0 b1 => N.lor (N.shiftl (N.land b0 3) 4) (N.shiftr b1 4) =? (b0 mod 4) * 16 + b1 / 16));
    [vm_compute; reflexivity | lia | lia].
Qed.
Lemma b64_e2 b1 b2 : b1 < 256 -> b2 < 256 ->
  N.lor (N.shiftl (N.land b1 15) 2) (N.shiftr b2 6) = (b1 mod 16) * 4 + b2 / 64.
Proof.
  intros H0 H1. apply N.eqb_eq.
  apply (sweep2 256 256 (fun b1 b2 => N.lor (N.shiftl (N.land b1 15) 2) (N.shiftr b2 6) =? (b1 mod 16) * 4 + b2 / 64));
    [vm_compute; reflexivity | lia | lia].
Qed.
Lemma b64_e3 b2 : b2 < 256 -> N.land b2 63 = b2 mod 64.
Proof. intros. apply (N.land_ones b2 6). Qed.
Lemma b64_e2' b1 : b1 < 256 -> N.shiftl (N.land b1 15) 2 = (b1 mod 16) * 4.
Proof.
  intros H. apply N.eqb_eq.
  apply (sweep1 256 (fun b1 => N.shiftl (N.land b1 15) 2 =? (b1 mod 16) * 4)); [vm_compute; reflexivity | lia].
Qed.
Lemma b64_e1' b0 : b0 < 256 -> N.shiftl (N.land b0 3) 4 = (b0 mod 4) * 16.
Proof.
  intros H. apply N.eqb_eq.
  apply (sweep1 256 (fun b0 => N.shiftl (N.land b0 3) 4 =? (b0 mod 4) * 16)); [vm_compute; reflexivity | lia].
Qed.

Lemma b64_d0 a b : a < 64 -> b < 64 -> b8 (N.lor (N.shiftl a 2) (N.shiftr b 4)) = a * 4 + b / 16.
Proof.
  intros H0 H1. apply N.eqb_eq.
  apply (sweep2 64 64 (fun a b => b8 (N.lor (N.shiftl a 2) (N.shiftr b 4)) =? a * 4 + b / 16));
    [vm_compute; reflexivity | lia | lia].
Qed.
Lemma b64_d1 b c : b < 64 -> c < 64 -> b8 (N.lor (N.shiftl b 4) (N.shiftr c 2)) = (b mod 16) * 16 + c / 4.
Proof.
  intros H0 H1. apply N.eqb_eq.
  apply (sweep2 64 64 (fun b c => b8 (N.lor (N.shiftl b 4) (N.shiftr c 2)) =? (b mod 16) * 16 + c / 4));
    [vm_compute; reflexivity | lia | lia].
Qed.
Lemma b64_d2 c d : c < 64 -> d < 64 -> b8 (N.lor (N.shiftl c 6) d) = (c mod 4) * 64 + d.
Proof.
  intros H0 H1. apply N.eqb_eq.
  apply (sweep2 64 64 (fun c d => b8 (N.lor (N.shiftl c 6) d) =? (c mod 4) * 64 + d));
    [vm_compute; reflexivity | lia | lia].
Qed.

(* the symbol values of a group are 6-bit numbers *)
Lemma b64_idx3_lt b0 b1 b2 : b0 < 256 -> b1 < 256 -> b2 < 256 ->
  Forall (fun v => v < 64) (b64_idx3 b0 b1 b2).
Proof.
  intros H0 H1 H2. unfold b64_idx3.
  rewrite b64_e0, b64_e1, b64_e2, b64_e3 by assumption.
  repeat constructor; lia.
Qed.
Lemma b64_idx2_lt b0 b1 : b0 < 256 -> b1 < 256 -> Forall (fun v => v < 64) (b64_idx2 b0 b1).
Proof.
  intros H0 H1. unfold b64_idx2. rewrite b64_e0, b64_e1, b64_e2' by assumption.
  repeat constructor; lia.
Qed.
Lemma b64_idx1_lt b0 : b0 < 256 -> Forall (fun v => v < 64) (b64_idx1 b0).
Proof.
  intros H0. unfold b64_idx1. rewrite b64_e0, b64_e1' by assumption.
  repeat constructor; lia.
Qed.

(* one group decodes to its three bytes; the tails to their two / one bytes *)
Definition b64_quad (a b c d : N) : list N :=
  [ b8 (N.lor (N.shiftl a 2) (N.shiftr b 4)); b8 (N.lor (N.shiftl b 4) (N.shiftr c 2)); b8 (N.lor (N.shiftl c 6) d) ].

Lemma b64_kernel3 b0 b1 b2 : b0 < 256 -> b1 < 256 -> b2 < 256 ->
  match b64_idx3 b0 b1 b2 with
  | [a; b; c; d] => b64_quad a b c d = [b0; b1; b2]
  | _ => False
  end.
Proof.
  intros H0 H1 H2. unfold b64_idx3, b64_quad.
  rewrite b64_e0, b64_e1, b64_e2, b64_e3 by assumption.
  rewrite b64_d0, b64_d1, b64_d2 by lia.
  f_equal; [lia|]. f_equal; [lia|]. f_equal; lia.
Qed.
Lemma b64_kernel2 b0 b1 : b0 < 256 -> b1 < 256 ->
  match b64_idx2 b0 b1 with
  | [a; b; c] => [ b8 (N.lor (N.shiftl a 2) (N.shiftr b 4)); b8 (N.lor (N.shiftl b 4) (N.shiftr c 2)) ] = [b0; b1]
                 /\ N.land c 3 = 0
  | _ => False
  end.
Proof.
  intros H0 H1. unfold b64_idx2.
  rewrite b64_e0, b64_e1, b64_e2' by assumption.
  rewrite b64_d0, b64_d1 by lia. split.
  - f_equal; [lia|]. f_equal; lia.
  - rewrite (N.land_ones _ 2). change (2 ^ 2) with 4. lia.
Qed.
Lemma b64_kernel1 b0 : b0 < 256 ->
  match b64_idx1 b0 with
  | [a; b] => [ b8 (N.lor (N.shiftl a 2) (N.shiftr b 4)) ] = [b0] /\ N.land b 15 = 0
  | _ => False
  end.
Proof.
  intros H0. unfold b64_idx1.
  rewrite b64_e0, b64_e1' by assumption.
  rewrite b64_d0 by lia. split.
  - f_equal; lia.
  - rewrite (N.land_ones _ 4). change (2 ^ 4) with 16. lia.
Qed.

(* alphabet / inverse consistency *)
Lemma b64_sym_alpha i : i < 64 ->
  b64_sym (nthN b64_alphabet i) = Some i /\ nthN b64_alphabet i <> 61.
Proof.
  intros H.
  assert (E : (match b64_sym (nthN b64_alphabet i) with Some j => j =? i | None => false end
               && negb (nthN b64_alphabet i =? 61)) = true).
  { apply (sweep1 64 (fun i => match b64_sym (nthN b64_alphabet i) with Some j => j =? i | None => false end
               && negb (nthN b64_alphabet i =? 61))); [vm_compute; reflexivity | lia]. }
  apply andb_prop in E. destruct E as [E1 E2].
  destruct (b64_sym (nthN b64_alphabet i)) as [j|]; [|discriminate].
  apply N.eqb_eq in E1. subst j. split; [reflexivity|].
  intro C. rewrite C in E2. discriminate.
Qed.

(* a character accepted by the decoder is a character of the alphabet *)
Lemma b64_sym_some c v : b64_sym c = Some v -> In c b64_alphabet.
Proof.
  intros H.
  destruct (N.lt_ge_cases c 128) as [L|L].
  - assert (E : (match b64_sym c with Some _ => existsb (N.eqb c) b64_alphabet | None => true end) = true).
    { apply (sweep1 128 (fun c => match b64_sym c with Some _ => existsb (N.eqb c) b64_alphabet | None => true end));
        [vm_compute; reflexivity | lia]. }
    rewrite H in E. apply existsb_exists in E. destruct E as (x & Hx & Ex).
    apply N.eqb_eq in Ex. subst x. assumption.
  - exfalso. unfold b64_sym in H.
    repeat match type of H with
           | (if ?b then _ else _) = _ => destruct b eqn:?; [ lia | ]
           end.
    discriminate.
Qed.

(* ================= base32 ================= *)
Definition b32_idx (b0 b1 b2 b3 b4 : N) : list N :=
  [ N.shiftr (N.land b0 248) 3;
    N.lor (N.shiftl (N.land b0 7) 2) (N.shiftr (N.land b1 192) 6);
    N.shiftr (N.land b1 62) 1;
    N.lor (N.shiftl (N.land b1 1) 4) (N.shiftr (N.land b2 240) 4);
    N.lor (N.shiftl (N.land b2 15) 1) (N.shiftr b3 7);
    N.shiftr (N.land b3 124) 2;
    N.lor (N.shiftl (N.land b3 3) 3) (N.shiftr (N.land b4 224) 5);
    N.land b4 31 ].

Lemma b32_chunk_idx al b0 b1 b2 b3 b4 :
  b32_chunk al b0 b1 b2 b3 b4 = map (nthN al) (b32_idx b0 b1 b2 b3 b4).
Proof. reflexivity. Qed.

Lemma b32_e0 b0 : b0 < 256 -> N.shiftr (N.land b0 248) 3 = b0 / 8.
Proof.
  intros H. apply N.eqb_eq.
  apply (sweep1 256 (fun b0 => N.shiftr (N.land b0 248) 3 =? b0 / 8)); [vm_compute; reflexivity | lia].
Qed.
Lemma b32_e1 b0 b1 : b0 < 256 -> b1 < 256 ->
  N.lor (N.shiftl (N.land b0 7) 2) (N.shiftr (N.land b1 192) 6) = (b0 mod 8) * 4 + b1 / 64.
Proof.
  intros H0 H1. apply N.eqb_eq.
  apply (sweep2 256 256 (fun b0 b1 => N.lor (N.shiftl (N.land b0 7) 2) (N.shiftr (N.land b1 192) 6) =? (b0 mod 8) * 4 + b1 / 64));
    [vm_compute; reflexivity | lia | lia].
Qed.
Lemma b32_e2 b1 : b1 < 256 -> N.shiftr (N.land b1 62) 1 = (b1 mod 64) / 2.
Proof.
  intros H. apply N.eqb_eq.
  apply (sweep1 256 (fun b1 => N.shiftr (N.land b1 62) 1 =? (b1 mod 64) / 2)); [vm_compute; reflexivity | lia].
Qed.
Lemma b32_e3 b1 b2 : b1 < 256 -> b2 < 256 ->
  N.lor (N.shiftl (N.land b1 1) 4) (N.shiftr (N.land b2 240) 4) = (b1 mod 2) * 16 + b2 / 16.
Proof.
  intros H0 H1. apply N.eqb_eq.
  apply (sweep2 256 256 (fun b1 b2 => N.lor (N.shiftl (N.land b1 1) 4) (N.shiftr (N.land b2 240) 4) =? (b1 mod 2) * 16 + b2 / 16));
    [vm_compute; reflexivity | lia | lia].
Qed.
Lemma b32_e4 b2 b3 : b2 < 256 -> b3 < 256 ->
  N.lor (N.shiftl (N.land b2 15) 1) (N.shiftr b3 7) = (b2 mod 16) * 2 + b3 / 128.
Proof.
  intros H0 H1. apply N.eqb_eq.
  apply (sweep2 256 256 (fun b2 b3 => N.lor (N.shiftl (N.land b2 15) 1) (N.shiftr b3 7) =? (b2 mod 16) * 2 + b3 / 128));
    [vm_compute; reflexivity | lia | lia].
Qed.
Lemma b32_e5 b3 : b3 < 256 -> N.shiftr (N.land b3 124) 2 = (b3 mod 128) / 4.
Proof.
  intros H. apply N.eqb_eq.
  apply (sweep1 256 (fun b3 => N.shiftr (N.land b3 124) 2 =? (b3 mod 128) / 4)); [vm_compute; reflexivity | lia].
Qed.
Lemma b32_e6 b3 b4 : b3 < 256 -> b4 < 256 ->
  N.lor (N.shiftl (N.land b3 3) 3) (N.shiftr (N.land b4 224) 5) = (b3 mod 4) * 8 + b4 / 32.
Proof.
  intros H0 H1. apply N.eqb_eq.
  apply (sweep2 256 256 (fun b3 b4 => N.lor (N.shiftl (N.land b3 3) 3) (N.shiftr (N.land b4 224) 5) =? (b3 mod 4) * 8 + b4 / 32));
    [vm_compute; reflexivity | lia | lia].
Qed.
Lemma b32_e7 b4 : b4 < 256 -> N.land b4 31 = b4 mod 32.
Proof. intros. apply (N.land_ones b4 5). Qed.

Lemma b32_d0 g0 g1 : g0 < 32 -> g1 < 32 -> b8 (N.lor (N.shiftl g0 3) (N.shiftr g1 2)) = g0 * 8 + g1 / 4.
Proof.
  intros H0 H1. apply N.eqb_eq.
  apply (sweep2 32 32 (fun g0 g1 => b8 (N.lor (N.shiftl g0 3) (N.shiftr g1 2)) =? g0 * 8 + g1 / 4));
    [vm_compute; reflexivity | lia | lia].
Qed.
Lemma b32_d1 g1 g2 g3 : g1 < 32 -> g2 < 32 -> g3 < 32 ->
  b8 (N.lor (N.lor (N.shiftl g1 6) (N.shiftl g2 1)) (N.shiftr g3 4)) = (g1 mod 4) * 64 + g2 * 2 + g3 / 16.
Proof.
  intros H0 H1 H2. apply N.eqb_eq.
  apply (sweep3 32 32 32 (fun g1 g2 g3 => b8 (N.lor (N.lor (N.shiftl g1 6) (N.shiftl g2 1)) (N.shiftr g3 4)) =? (g1 mod 4) * 64 + g2 * 2 + g3 / 16));
    [vm_compute; reflexivity | lia | lia | lia].
Qed.
Lemma b32_d2 g3 g4 : g3 < 32 -> g4 < 32 -> b8 (N.lor (N.shiftl g3 4) (N.shiftr g4 1)) = (g3 mod 16) * 16 + g4 / 2.
Proof.
  intros H0 H1. apply N.eqb_eq.
  apply (sweep2 32 32 (fun g3 g4 => b8 (N.lor (N.shiftl g3 4) (N.shiftr g4 1)) =? (g3 mod 16) * 16 + g4 / 2));
    [vm_compute; reflexivity | lia | lia].
Qed.
Lemma b32_d3 g4 g5 g6 : g4 < 32 -> g5 < 32 -> g6 < 32 ->
  b8 (N.lor (N.lor (N.shiftl g4 7) (N.shiftl g5 2)) (N.shiftr g6 3)) = (g4 mod 2) * 128 + g5 * 4 + g6 / 8.
Proof.
  intros H0 H1 H2. apply N.eqb_eq.
  apply (sweep3 32 32 32 (fun g4 g5 g6 => b8 (N.lor (N.lor (N.shiftl g4 7) (N.shiftl g5 2)) (N.shiftr g6 3)) =? (g4 mod 2) * 128 + g5 * 4 + g6 / 8));
    [vm_compute; reflexivity | lia | lia | lia].
Qed.
Lemma b32_d4 g6 g7 : g6 < 32 -> g7 < 32 -> b8 (N.lor (N.shiftl g6 5) g7) = (g6 mod 8) * 32 + g7.
Proof.
  intros H0 H1. apply N.eqb_eq.
  apply (sweep2 32 32 (fun g6 g7 => b8 (N.lor (N.shiftl g6 5) g7) =? (g6 mod 8) * 32 + g7));
    [vm_compute; reflexivity | lia | lia].
Qed.

Lemma b32_idx_lt b0 b1 b2 b3 b4 : b0 < 256 -> b1 < 256 -> b2 < 256 -> b3 < 256 -> b4 < 256 ->
  Forall (fun v => v < 32) (b32_idx b0 b1 b2 b3 b4).
Proof.
  intros H0 H1 H2 H3 H4. unfold b32_idx.
  rewrite b32_e0, b32_e1, b32_e2, b32_e3, b32_e4, b32_e5, b32_e6, b32_e7 by assumption.
  repeat constructor; lia.
Qed.

(* one 5-byte group: the eight 5-bit symbol values decode to the five bytes *)
Lemma b32_kernel b0 b1 b2 b3 b4 : b0 < 256 -> b1 < 256 -> b2 < 256 -> b3 < 256 -> b4 < 256 ->
  b32_dec_chunk (b32_idx b0 b1 b2 b3 b4) = [b0; b1; b2; b3; b4].
Proof.
  intros H0 H1 H2 H3 H4. unfold b32_dec_chunk, b32_idx. cbn [nth].
  rewrite b32_e0, b32_e1, b32_e2, b32_e3, b32_e4, b32_e5, b32_e6, b32_e7 by assumption.
  rewrite b32_d0, b32_d1, b32_d2, b32_d3, b32_d4 by lia.
  f_equal; [lia|]. f_equal; [lia|]. f_equal; [lia|]. f_equal; [lia|]. f_equal; lia.
Qed.

(* symbols of a group that only depend on zero bytes are zero: this is what makes
   the truncated-and-padded tail of the encoder decode like a full group *)
Lemma b32_idx_tail1 b0 : firstn 2 (b32_idx b0 0 0 0 0) ++ repeat 0 6 = b32_idx b0 0 0 0 0.
Proof. reflexivity. Qed.
Lemma b32_idx_tail2 b0 b1 : firstn 4 (b32_idx b0 b1 0 0 0) ++ repeat 0 4 = b32_idx b0 b1 0 0 0.
Proof. reflexivity. Qed.
Lemma b32_idx_tail3 b0 b1 b2 : firstn 5 (b32_idx b0 b1 b2 0 0) ++ repeat 0 3 = b32_idx b0 b1 b2 0 0.
Proof. reflexivity. Qed.
Lemma b32_idx_tail4 b0 b1 b2 b3 : firstn 7 (b32_idx b0 b1 b2 b3 0) ++ repeat 0 1 = b32_idx b0 b1 b2 b3 0.
Proof. reflexivity. Qed.

(* alphabets and inverse tables *)
Definition b32_al (a : b32alpha) : list N := match a with Rfc4648 => rfc_alphabet | Crockford => crock_alphabet end.
Definition b32_inv (a : b32alpha) : list N := match a with Rfc4648 => rfc_inv | Crockford => crock_inv end.

Lemma b32_sym_alpha a i : i < 32 ->
  b32_sym (b32_inv a) (nthN (b32_al a) i) = Some i /\ nthN (b32_al a) i <> 61 /\ nthN (b32_al a) i < 128.
Proof.
  intros H.
  assert (E : (match b32_sym (b32_inv a) (nthN (b32_al a) i) with Some j => j =? i | None => false end
               && negb (nthN (b32_al a) i =? 61) && (nthN (b32_al a) i <? 128)) = true).
  { destruct a.
    - apply (sweep1 32 (fun i => match b32_sym rfc_inv (nthN rfc_alphabet i) with Some j => j =? i | None => false end
               && negb (nthN rfc_alphabet i =? 61) && (nthN rfc_alphabet i <? 128))); [vm_compute; reflexivity | lia].
    - apply (sweep1 32 (fun i => match b32_sym crock_inv (nthN crock_alphabet i) with Some j => j =? i | None => false end
               && negb (nthN crock_alphabet i =? 61) && (nthN crock_alphabet i <? 128))); [vm_compute; reflexivity | lia]. }
  apply andb_prop in E. destruct E as [E E3]. apply andb_prop in E. destruct E as [E1 E2].
  destruct (b32_sym (b32_inv a) (nthN (b32_al a) i)) as [j|]; [|discriminate].
  apply N.eqb_eq in E1. subst j. split; [reflexivity|]. split.
  - intro C. rewrite C in E2. discriminate.
  - apply N.ltb_lt. assumption.
Qed.

Lemma rfc_sym_pad : b32_sym rfc_inv 61 = Some 0.
Proof. reflexivity. Qed.

(* the characters the decoders accept: the alphabet in either case, for RFC 4648 the
   padding character, for Crockford the aliases I, L (one) and O (zero) *)
Definition b32_accepts (a : b32alpha) (c : N) : Prop :=
  In (to_upper c) (b32_al a) \/
  match a with Rfc4648 => c = 61 | Crockford => In (to_upper c) [73; 76; 79] end.

Lemma b32_sym_some a c v : b32_sym (b32_inv a) c = Some v -> b32_accepts a c.
Proof.
  intros H. unfold b32_accepts.
  destruct (N.lt_ge_cases c 128) as [L|L].
  - assert (E : (match b32_sym (b32_inv a) c with
                 | Some _ => existsb (N.eqb (to_upper c)) (b32_al a)
                             || match a with Rfc4648 => c =? 61 | Crockford => existsb (N.eqb (to_upper c)) [73; 76; 79] end
                 | None => true end) = true).
    { destruct a.
      - apply (sweep1 128 (fun c => match b32_sym rfc_inv c with
                 | Some _ => existsb (N.eqb (to_upper c)) rfc_alphabet || (c =? 61)
                 | None => true end)); [vm_compute; reflexivity | lia].
      - apply (sweep1 128 (fun c => match b32_sym crock_inv c with
                 | Some _ => existsb (N.eqb (to_upper c)) crock_alphabet || existsb (N.eqb (to_upper c)) [73; 76; 79]
                 | None => true end)); [vm_compute; reflexivity | lia]. }
    rewrite H in E. apply orb_prop in E. destruct E as [E|E].
    + left. apply existsb_exists in E. destruct E as (x & Hx & Ex).
      apply N.eqb_eq in Ex. rewrite Ex. assumption.
    + right. destruct a.
      * apply N.eqb_eq. assumption.
      * apply existsb_exists in E. destruct E as (x & Hx & Ex).
        apply N.eqb_eq in Ex. rewrite Ex. assumption.
  - exfalso. unfold b32_sym, to_upper in H.
    replace ((97 <=? c) && (c <=? 122)) with false in H by lia.
    destruct (c <? 48) eqn:E1; [discriminate|].
    replace (43 <=? c - 48) with true in H by lia. discriminate.
Qed.

(* ================= z85 ================= *)
Definition z85_digits (n : N) : list N :=
  [ (n / 52200625) mod 85; (n / 614125) mod 85; (n / 7225) mod 85; (n / 85) mod 85; n mod 85 ].

Lemma z85_enc_num_digits n : z85_enc_num n = map (nthN z85_letters) (z85_digits n).
Proof. reflexivity. Qed.

Lemma z85_digits_lt n : Forall (fun v => v < 85) (z85_digits n).
Proof. unfold z85_digits. repeat constructor; apply N.mod_lt; discriminate. Qed.

Definition z85_horner (ds : list N) (acc : N) : N := fold_left (fun a d => a * 85 + d) ds acc.

Lemma z85_letter i : i < 85 ->
  32 < nthN z85_letters i /\ nthN z85_letters i < 128 /\
  nthN z85_octets (nthN z85_letters i - 32) = i /\
  (nthN z85_letters i = 35 <-> i = 84).
Proof.
  intros H.
  assert (E : ((32 <? nthN z85_letters i) && (nthN z85_letters i <? 128) &&
               (nthN z85_octets (nthN z85_letters i - 32) =? i) &&
               (Bool.eqb (nthN z85_letters i =? 35) (i =? 84))) = true).
  { apply (sweep1 85 (fun i => (32 <? nthN z85_letters i) && (nthN z85_letters i <? 128) &&
               (nthN z85_octets (nthN z85_letters i - 32) =? i) &&
               (Bool.eqb (nthN z85_letters i =? 35) (i =? 84)))); [vm_compute; reflexivity | lia]. }
  apply andb_prop in E. destruct E as [E E4]. apply andb_prop in E. destruct E as [E E3].
  apply andb_prop in E. destruct E as [E1 E2].
  apply N.ltb_lt in E1, E2. apply N.eqb_eq in E3. apply Bool.eqb_prop in E4.
  repeat split; try assumption.
  - intros C. apply N.eqb_eq. rewrite <- E4. apply N.eqb_eq. assumption.
  - intros C. apply N.eqb_eq. rewrite E4. apply N.eqb_eq. assumption.
Qed.

Lemma z85_chunk_num_letters : forall ds acc, Forall (fun v => v < 85) ds ->
  z85_chunk_num (map (nthN z85_letters) ds) acc = Some (z85_horner ds acc).
Proof.
  induction ds as [|d ds IH]; intros acc HF; [reflexivity|].
  inversion HF as [|? ? Hd HF']; subst.
  destruct (z85_letter d Hd) as (L1 & L2 & L3 & _).
  cbn [map z85_chunk_num z85_horner fold_left].
  replace ((nthN z85_letters d <=? 32) || (128 <=? nthN z85_letters d)) with false by lia.
  rewrite L3. replace (d =? 255) with false by lia. apply IH. assumption.
Qed.

(* a character the chunk decoder accepts is a letter of the alphabet *)
Lemma z85_chunk_num_in : forall l acc n c, z85_chunk_num l acc = Some n -> In c l -> In c z85_letters.
Proof.
  induction l as [|x l IH]; intros acc n c H Hin; [contradiction|].
  cbn [z85_chunk_num] in H.
  destruct ((x <=? 32) || (128 <=? x)) eqn:E1; [discriminate|].
  destruct (nthN z85_octets (x - 32) =? 255) eqn:E2; [discriminate|].
  destruct Hin as [->|Hin]; [|eapply IH; eassumption].
  assert (E : ((c <=? 32) || (128 <=? c) || (nthN z85_octets (c - 32) =? 255)
               || existsb (N.eqb c) z85_letters) = true).
  { apply (sweep1 128 (fun c => (c <=? 32) || (128 <=? c) || (nthN z85_octets (c - 32) =? 255)
               || existsb (N.eqb c) z85_letters)); [vm_compute; reflexivity | lia]. }
  rewrite E1, E2 in E. cbn [orb] in E. apply existsb_exists in E. destruct E as (y & Hy & Ey).
  apply N.eqb_eq in Ey. subst y. assumption.
Qed.

Lemma z85_horner_digits n : n < 4437053125 -> z85_horner (z85_digits n) 0 = n.
Proof.
  intros H. unfold z85_horner, z85_digits. cbn [fold_left].
  change 52200625 with (85 * (85 * (85 * 85))). change 614125 with (85 * (85 * 85)).
  change 7225 with (85 * 85).
  rewrite <- !N.div_div by discriminate. lia.
Qed.

Lemma be32_lt b0 b1 b2 b3 : b0 < 256 -> b1 < 256 -> b2 < 256 -> b3 < 256 -> be32 b0 b1 b2 b3 < 4294967296.
Proof. intros. unfold be32. lia. Qed.

Lemma be_bytes32_be32 b0 b1 b2 b3 : b0 < 256 -> b1 < 256 -> b2 < 256 -> b3 < 256 ->
  be_bytes32 (be32 b0 b1 b2 b3) = [b0; b1; b2; b3].
Proof.
  intros H0 H1 H2 H3. unfold be_bytes32, be32.
  change 16777216 with (256 * (256 * 256)). change 65536 with (256 * 256).
  rewrite <- !N.div_div by discriminate.
  f_equal; [lia|]. f_equal; [lia|]. f_equal; [lia|]. f_equal; lia.
Qed.

(* a full group: five letters that decode to the four bytes *)
Lemma z85_group_kernel n : n < 4294967296 -> z85_decode_chunk (z85_enc_num n) = Some (be_bytes32 n).
Proof.
  intros H. unfold z85_decode_chunk. rewrite z85_enc_num_digits.
  rewrite z85_chunk_num_letters by apply z85_digits_lt.
  rewrite z85_horner_digits by lia.
  replace (4294967295 <? n) with false by lia. reflexivity.
Qed.

(* the first letter of a full group is never '#' *)
Lemma z85_group_first n : n < 4294967296 -> nth 0 (z85_enc_num n) 0 <> 35.
Proof.
  intros H. rewrite z85_enc_num_digits. unfold z85_digits. cbn [map nth].
  intro C. apply z85_letter in C; [|apply N.mod_lt; discriminate]. lia.
Qed.
