(* VmLimitsRunFail.v (C14): what an instruction that fails with a limit error leaves behind.
   - instruction limit: nothing changed (first fetch), or the [late] cell resolved and the
     first fetch counted (second fetch);
   - stack limit: the state at the refused push.  The interpreter does NOT roll the
     instruction back: for instructions that only push this is the initial state with the
     meter advanced; for the others operands, vector marks, partially pushed results stay as
     they are (witnesses at the end of the file). *)
From Xeh Require Import Model.Prelude Model.Bits Model.Codec Model.Cell Model.Lexer Model.Fmt
                        Model.Vm Model.Words Model.Struct Model.Build Model.Boot.
From Xeh Require Import Proofs.VmFrame Proofs.VmLimits Proofs.StructNat Proofs.UnwindLists Proofs.UnwindFrame
                        Proofs.UnwindWitness Proofs.VmLimitsRunBase Proofs.VmLimitsRunStep.
Local Notation length := List.length.
Local Open Scope string_scope.

#[local] Arguments Z.add : simpl never.
#[local] Arguments Z.sub : simpl never.
#[local] Arguments Z.mul : simpl never.
#[local] Arguments Z.ltb : simpl never.
#[local] Arguments Z.leb : simpl never.
#[local] Arguments Z.eqb : simpl never.
#[local] Arguments Z.of_nat : simpl never.
#[local] Arguments Z.to_nat : simpl never.

(* ---------- opcodes by what they do to the data stack ---------- *)
(* instructions whose body is one [push_data] (after reads that change nothing) *)
Definition push_only (op : opcode) : bool :=
  match op with
  | OLoad _ | OLoadNil | OLoadI64 _ | OLoadF64 _ | OLoadStr _ | OLoadCell _ | OLoadLocal _ => true
  | ONative w => String.eqb w "dup" || String.eqb w "depth"
  | _ => false
  end.

(* instructions that never push *)
Definition never_pushes (op : opcode) : bool :=
  match op with
  | ONop | OCall _ | ORet | OJumpIf _ | OJumpIfNot _ | OJump _ | ODo _ | OBreak _
  | OLoop _ | OCaseOf _ | OStore _ | OInitLocal _ => true
  | _ => false
  end.

(* programs that never fail with a limit error *)
Definition P_nolim {A} (m : M A) : Prop := forall s p s', m s <> RErr ELimit p s'.

Lemma nolim_ret A (a : A) : P_nolim (ret a).
Proof. intros s p s' H. discriminate H. Qed.
Lemma nolim_fail A k q : k <> ELimit -> P_nolim (@fail A k q).
Proof. intros Hk s p s' H. injection H as -> _ _. contradiction. Qed.
Lemma nolim_unsup A : P_nolim (@unsup A).
Proof. intros s p s' H. discriminate H. Qed.
Lemma nolim_bind A B (m : M A) (f : A -> M B) : P_nolim m -> (forall a, P_nolim (f a)) -> P_nolim (bind m f).
Proof.
  intros Hm Hf s p s' H. unfold bind in H. destruct (m s) as [a s1|k q s1| |] eqn:E; try discriminate.
  - eapply Hf. exact H.
  - injection H as -> -> ->. eapply Hm. exact E.
Qed.

Ltac nolim_prim :=
  let s := fresh "s" in
  intros s ? ?; destruct_state s;
  cbv [pop_data top_data push_return pop_return top_frame
       push_loop pop_loop loop_next set_var init_local set_ip next_ip
       m_cond m_isize ret fail
       add_rstep data_depth ip set_ip_raw
       set_ds set_rs set_loops set_special set_heap set_cx set_rlog set_out set_stopping
       dict heap code dbg sources input ds rs flows loops special cx nested meter insn_limit
       heap_limit stack_limit rlog out last_tok stopping];
  break_matches; intros Hx; discriminate Hx.

Lemma nolim_pop_data : P_nolim pop_data. Proof. nolim_prim. Qed.
Lemma nolim_top_data : P_nolim top_data. Proof. nolim_prim. Qed.
Lemma nolim_push_return f : P_nolim (push_return f). Proof. nolim_prim. Qed.
Lemma nolim_pop_return : P_nolim pop_return. Proof. nolim_prim. Qed.
Lemma nolim_push_loop l : P_nolim (push_loop l). Proof. nolim_prim. Qed.
Lemma nolim_pop_loop : P_nolim pop_loop. Proof. nolim_prim. Qed.
Lemma nolim_loop_next : P_nolim loop_next. Proof. nolim_prim. Qed.
Lemma nolim_set_var a v : P_nolim (set_var a v). Proof. nolim_prim. Qed.
Lemma nolim_init_local i v : P_nolim (init_local i v). Proof. nolim_prim. Qed.
Lemma nolim_set_ip n : P_nolim (set_ip n). Proof. nolim_prim. Qed.
Lemma nolim_next_ip : P_nolim next_ip. Proof. nolim_prim. Qed.
Lemma nolim_m_cond c : P_nolim (m_cond c). Proof. nolim_prim. Qed.
Lemma nolim_m_isize c : P_nolim (m_isize c). Proof. nolim_prim. Qed.

Ltac nolim_step :=
  cbv beta zeta;
  first
    [ apply nolim_ret | apply nolim_unsup | (apply nolim_fail; discriminate)
    | apply nolim_pop_data | apply nolim_top_data | apply nolim_push_return | apply nolim_pop_return
    | apply nolim_push_loop | apply nolim_pop_loop | apply nolim_loop_next | apply nolim_set_var
    | apply nolim_init_local | apply nolim_set_ip | apply nolim_next_ip | apply nolim_m_cond
    | apply nolim_m_isize
    | lazymatch goal with
      | |- P_nolim (bind _ _) => apply nolim_bind; [ | intro ]
      | |- P_nolim (match ?x with _ => _ end) => destruct x
      | |- P_nolim do_init => unfold do_init
      end ].

Lemma exec_op_never_pushes : forall nf ip0 op s1 p s',
  never_pushes op = true -> exec_op nf ip0 op s1 <> RErr ELimit p s'.
Proof.
  intros nf ip0 op s1 p s' Hop. revert s1 p s'.
  change (P_nolim (exec_op nf ip0 op)).
  destruct op; try discriminate Hop; clear Hop; cbn [exec_op]; repeat nolim_step.
Qed.

(* ... and programs that push once, at the end *)
Lemma push_next_limit : forall c s1 p s', (push_data c ;; next_ip) s1 = RErr ELimit p s' -> s' = s1.
Proof.
  intros c s1 p s' H. unfold bind, push_data in H.
  destruct (limit_reached _ _); [injection H as _ <-; reflexivity|discriminate H].
Qed.

Lemma exec_op_load_limit : forall nf ip0 op s1 p s',
  match op with
  | OLoad _ | OLoadNil | OLoadI64 _ | OLoadF64 _ | OLoadStr _ | OLoadCell _ | OLoadLocal _ => True
  | _ => False
  end ->
  exec_op nf ip0 op s1 = RErr ELimit p s' -> s' = s1.
Proof.
  intros nf ip0 op s1 p s' Hop. destruct op; try contradiction; clear Hop; cbn [exec_op];
    try apply push_next_limit.
  - (* OLoad *) unfold bind at 1, get_var.
    destruct (mode_eqb _ _); [discriminate|]. destruct (nth_error (heap s1) a); [|discriminate].
    apply push_next_limit.
  - (* OLoadLocal *) unfold bind at 1, top_frame.
    destruct (rs s1) as [|f r]; [discriminate|]. destruct (_ <? _)%nat; [|discriminate].
    destruct (nth_error (locals f) i); [apply push_next_limit|discriminate].
Qed.

Section Frame.
  Variable fo : fops.
  Let nf := native_fn fo.

  Lemma native_dup : nf "dup" = Some dup_data.
  Proof. reflexivity. Qed.
  Lemma native_depth : nf "depth" = Some w_depth.
  Proof. reflexivity. Qed.

  Lemma exec_op_push_only_limit : forall ip0 op s1 p s',
    push_only op = true -> exec_op nf ip0 op s1 = RErr ELimit p s' -> s' = s1.
  Proof.
    intros ip0 op s1 p s' Hop Hx.
    destruct op; try discriminate Hop; try (eapply exec_op_load_limit; [|exact Hx]; exact I).
    cbn [push_only] in Hop. apply orb_true_iff in Hop. destruct Hop as [E|E]; apply String.eqb_eq in E; subst w.
    - cbn [exec_op] in Hx. rewrite native_dup in Hx. revert Hx.
      unfold dup_data, bind at 1 2, top_data.
      destruct (ds s1) as [|c r]; [cbv beta iota; intros Hx; discriminate Hx|].
      destruct (_ <? _)%nat; [|cbv beta iota; intros Hx; discriminate Hx].
      exact (push_next_limit c s1 p s').
    - cbn [exec_op] in Hx. rewrite native_depth in Hx. revert Hx.
      unfold w_depth, bind at 1 2, get.
      exact (push_next_limit (cnat (data_depth s1)) s1 p s').
  Qed.

  (* what survives a failed native word: return stack, context (so the ip) and the loop
     counters; this holds for every result of every word (StructNat.native_keeps) *)
  Lemma exec_native_limit_keeps : forall ip0 w s1 p s',
    exec_op nf ip0 (ONative w) s1 = RErr ELimit p s' ->
    rs s' = rs s1 /\ cx s' = cx s1 /\ map lkey (loops s') = map lkey (loops s1).
  Proof.
    intros ip0 w s1 p s' Hx. cbn [exec_op] in Hx.
    destruct (nf w) as [f|] eqn:E; [|discriminate].
    pose proof (native_keeps fo w f s1 E) as K. unfold bind in Hx.
    destruct (f s1) as [u x|k q x| |]; try discriminate Hx.
    injection Hx as -> -> ->. cbn [rkeeps] in K. destruct K as (K1 & K2 & K3 & _). auto.
  Qed.

  Lemma resolve_op_class : forall e,
    (exists w, resolve_op e = ONative w) \/ push_only (resolve_op e) = true \/ never_pushes (resolve_op e) = true.
  Proof.
    intros [c|a|imm [x|x] len]; cbn [resolve_op].
    - right. left. unfold load_value_opcode. destruct c; try reflexivity. destruct (in_i64 z); reflexivity.
    - right. left. reflexivity.
    - right. right. reflexivity.
    - left. eexists. reflexivity.
  Qed.

  Lemma op_class : forall op, (forall n, op <> OResolve n) ->
    (exists w, op = ONative w) \/ push_only op = true \/ never_pushes op = true.
  Proof.
    intros op Nr. destruct op; try (right; left; reflexivity); try (right; right; reflexivity).
    - exfalso. eapply Nr. reflexivity.
    - left. eexists. reflexivity.
  Qed.

  (* the state an instruction body starts from: [s] after one or two fetches *)
  Definition fetched (s s1 : state) : Prop :=
    s1 = set_meter s (meter s + 1)%Z \/
    exists name e, nth_error (code s) (ip s) = Some (OResolve name) /\ dict_entry s name = Some e /\
      s1 = set_meter (set_code (set_meter s (meter s + 1)%Z) (list_set (code s) (ip s) (resolve_op e)))
                     (meter s + 1 + 1)%Z.

  (* the frame of a failed instruction, for EVERY opcode and EVERY native word *)
  Theorem limit_failure_frame : forall s p s',
    fetch_and_run nf s = RErr ELimit p s' ->
    p = None /\ limit_cause s s' /\
    dict s' = dict s /\ dbg s' = dbg s /\ sources s' = sources s /\ input s' = input s /\
    flows s' = flows s /\ nested s' = nested s /\ last_tok s' = last_tok s /\
    insn_limit s' = insn_limit s /\ heap_limit s' = heap_limit s /\ stack_limit s' = stack_limit s /\
    cx s' = cx s /\ rs s' = rs s /\ map lkey (loops s') = map lkey (loops s) /\
    length (heap s') = length (heap s) /\ code_keep (code s) (code s') /\
    (meter s <= meter s' <= meter s + 2)%Z.
  Proof.
    intros s p s' H.
    destruct (far_limit_cause nf (native_wlx fo) s p s' H) as [Hp LC].
    pose proof (far_frame nf (native_wl fo) s) as FR. fold nf in FR. rewrite H in FR. cbn [res_all] in FR.
    destruct FR as (A1 & A2 & A3 & A4 & A5 & A6 & A7 & A8 & A9 & A10 & A11 & A12 & A13 & A14 & A15 & A16 & A17 & A18 & A19).
    destruct (far_meter_any nf (native_wlx fo) s _ s' H eq_refl) as [HM _].
    assert (K : rs s' = rs s /\ cx s' = cx s /\ map lkey (loops s') = map lkey (loops s)).
    { assert (X : forall op s1,
                  (exists w, op = ONative w) \/ push_only op = true \/ never_pushes op = true ->
                  rs s1 = rs s -> cx s1 = cx s -> loops s1 = loops s ->
                  exec_op nf (ip s) op s1 = RErr ELimit p s' ->
                  rs s' = rs s /\ cx s' = cx s /\ map lkey (loops s') = map lkey (loops s)).
      { intros op s1 Hcl E1 E2 E3 Hx. destruct Hcl as [[w ->]|[Hc|Hc]].
        - destruct (exec_native_limit_keeps _ _ _ _ _ Hx) as (K1 & K2 & K3).
          rewrite K1, K2, K3, E1, E2, E3. auto.
        - apply exec_op_push_only_limit in Hx; [|exact Hc]. subst s'. rewrite E1, E2, E3. auto.
        - exfalso. eapply exec_op_never_pushes; eauto. }
      destruct (far_cases nf s) as [(E0 & F)|[(E0 & E1 & F)|[(op & E0 & E1 & Nr & Ar & F)|[(name & E0 & E1 & E2 & F)|
                                [(name & e & E0 & E1 & E2 & E3 & F)|(name & e & E0 & E1 & E2 & E3 & F)]]]]];
        rewrite F in H; try discriminate.
      - injection H as <- <-. auto.
      - eapply X; [apply op_class; exact Nr| | | |exact H]; reflexivity.
      - injection H as <- <-. auto.
      - eapply X; [apply resolve_op_class| | | |exact H]; reflexivity. }
    destruct K as (K1 & K2 & K3).
    repeat split; try assumption; try lia; apply A18.
  Qed.

  (* instructions that only push: the failed instruction leaves the state it found, up to the
     meter (advanced by one when the failure is the stack limit, not at all when it is the
     instruction limit) *)
  Theorem push_only_failure_unchanged : forall s op p s',
    fetch_and_run nf s = RErr ELimit p s' ->
    nth_error (code s) (ip s) = Some op -> push_only op = true ->
    s' = s \/ s' = set_meter s (meter s + 1)%Z.
  Proof.
    intros s op p s' H Hop Hc.
    destruct (far_cases nf s) as [(E0 & F)|[(E0 & E1 & F)|[(op' & E0 & E1 & Nr & Ar & F)|[(name & E0 & E1 & E2 & F)|
                              [(name & e & E0 & E1 & E2 & E3 & F)|(name & e & E0 & E1 & E2 & E3 & F)]]]]];
      rewrite F in H; try discriminate;
      try (rewrite Hop in E1; injection E1 as ->; discriminate Hc).
    - injection H as <- <-. left. reflexivity.
    - rewrite Hop in E1. injection E1 as <-. right.
      eapply exec_op_push_only_limit; [exact Hc|exact H].
  Qed.

  (* instructions that never push fail with a limit error only through the meter, and then
     nothing at all has changed *)
  Theorem never_pushes_failure : forall s op p s',
    fetch_and_run nf s = RErr ELimit p s' ->
    nth_error (code s) (ip s) = Some op -> never_pushes op = true ->
    s' = s /\ exists N, insn_limit s = Some N /\ (N <= meter s)%Z.
  Proof.
    intros s op p s' H Hop Hc.
    destruct (far_cases nf s) as [(E0 & F)|[(E0 & E1 & F)|[(op' & E0 & E1 & Nr & Ar & F)|[(name & E0 & E1 & E2 & F)|
                              [(name & e & E0 & E1 & E2 & E3 & F)|(name & e & E0 & E1 & E2 & E3 & F)]]]]];
      rewrite F in H; try discriminate;
      try (rewrite Hop in E1; injection E1 as ->; discriminate Hc).
    - injection H as <- <-. split; [reflexivity|]. unfold mlim in E0.
      destruct (insn_limit s) as [N|]; [|discriminate]. exists N. split; [reflexivity|apply Z.leb_le; exact E0].
    - rewrite Hop in E1. injection E1 as <-. exfalso. eapply exec_op_never_pushes; eauto.
  Qed.
End Frame.

(* ---------- witnesses: the failed instruction is not rolled back ---------- *)
Definition lw_obs (s : state) := (ds s, special s, ip s, is_running s).
Definition lw_kind {A} (r : option (res A)) : option ekind :=
  match r with Some (RErr k _ _) => Some k | Some (ROk _ _) => None | _ => Some EOther end.
Definition lw_state {A} (r : option (res A)) : state :=
  match r with Some r => wit_state r | None => boot end.
Definition lw_nf : natives := native_fn wit_fo.

(* W1: an empty vector literal on a full stack.  [%vec-end] takes the mark of [%vec-begin] off
   the special stack, then the push of the vector is refused: the mark is gone, and when the
   limit is lifted and the machine resumed the same instruction fails with a flow error,
   while the unlimited machine builds the vector. *)
Definition w1_s0 : state := set_limits boot None None (Some 2%Z).
Definition w1_fail : res unit := wit_eval "1 2 [ ]" w1_s0.
Definition w1_resumed : option (res unit) := run lw_nf 100 (set_limits (wit_state w1_fail) None None None).

Definition w1_compiled : state := wit_state (compile wit_fo wit_pr wit_rf wit_fuel "1 2 [ ]" w1_s0).
Definition w1_before : state := match steps lw_nf 3 w1_compiled with Some s => s | None => boot end.

Theorem vec_end_not_rolled_back :
  (exists s', w1_fail = RErr ELimit None s') /\
  lw_obs (wit_state w1_fail) = ([CInt 2; CInt 1], [], 3, true) /\
  (* the failing step in isolation *)
  steps lw_nf 3 w1_compiled = Some w1_before /\
  nth_error (code w1_before) (ip w1_before) = Some (ONative "%vec-end") /\
  insn_limit w1_before = None /\ stack_limit w1_before = Some 2%Z /\
  ds w1_before = [CInt 2; CInt 1] /\ special w1_before = [2] /\
  (exists s', fetch_and_run lw_nf w1_before = RErr ELimit None s' /\
              ds s' = [CInt 2; CInt 1] /\ special s' = []) /\
  (* resuming after the limit is lifted *)
  lw_kind w1_resumed = Some EFlow /\
  (exists s', wit_eval "1 2 [ ]" boot = ROk tt s' /\ ds s' = [CVec []; CInt 2; CInt 1]).
Proof.
  split; [eexists; vm_compute; reflexivity|].
  do 7 (split; [vm_compute; reflexivity|]).
  split; [eexists; split; [vm_compute; reflexivity|split; reflexivity]|].
  split; [vm_compute; reflexivity|].
  eexists. split; [vm_compute; reflexivity|reflexivity].
Qed.

(* W2: a limit set below the current depth (the property allows this: the stack may keep the
   size it had).  [+] pops both operands, then the push of the sum is refused: the operands
   are gone; resumed without limit the machine adds the next two numbers. *)
Definition w2_s0 : state := set_limits (wit_state (wit_eval "1 2 3 4 5" boot)) None None (Some 3%Z).
Definition w2_fail : res unit := wit_eval "+" w2_s0.
Definition w2_resumed : option (res unit) := run lw_nf 100 (set_limits (wit_state w2_fail) None None None).

Theorem operands_not_restored :
  ds w2_s0 = [CInt 5; CInt 4; CInt 3; CInt 2; CInt 1] /\
  (exists s', w2_fail = RErr ELimit None s') /\
  ds (wit_state w2_fail) = [CInt 3; CInt 2; CInt 1] /\
  lw_kind w2_resumed = None /\ ds (lw_state w2_resumed) = [CInt 5; CInt 1] /\
  (exists s', wit_eval "+" (set_limits w2_s0 None None None) = ROk tt s' /\
              ds s' = [CInt 9; CInt 3; CInt 2; CInt 1]).
Proof.
  split; [vm_compute; reflexivity|]. split; [eexists; vm_compute; reflexivity|].
  split; [vm_compute; reflexivity|]. split; [vm_compute; reflexivity|]. split; [vm_compute; reflexivity|].
  eexists. split; [vm_compute; reflexivity|reflexivity].
Qed.

(* W3: [unbox] under a limit that was set above the current depth: the vector is popped, two
   of its three elements are pushed, the third is refused; the vector is lost. *)
Definition w3_s0 : state := set_limits (wit_state (wit_eval "1 [ 7 8 9 ]" boot)) None None (Some 3%Z).
Definition w3_fail : res unit := wit_eval "unbox" w3_s0.
Definition w3_resumed : option (res unit) := run lw_nf 100 (set_limits (wit_state w3_fail) None None None).

Theorem unbox_partial_push :
  ds w3_s0 = [CVec [CInt 7; CInt 8; CInt 9]; CInt 1] /\
  (exists s', w3_fail = RErr ELimit None s') /\
  ds (wit_state w3_fail) = [CInt 8; CInt 7; CInt 1] /\
  lw_kind w3_resumed = Some EType /\
  (exists s', wit_eval "unbox" (set_limits w3_s0 None None None) = ROk tt s' /\
              ds s' = [CInt 9; CInt 8; CInt 7; CInt 1]).
Proof.
  split; [vm_compute; reflexivity|]. split; [eexists; vm_compute; reflexivity|].
  split; [vm_compute; reflexivity|]. split; [vm_compute; reflexivity|].
  eexists. split; [vm_compute; reflexivity|reflexivity].
Qed.

(* W4: [foreach] over a vector on a stack with one free cell: [%foreach-init] pushes the
   length, the push of the start index is refused; the extra cell stays *)
Definition w4_s0 : state := set_limits boot None None (Some 2%Z).
Definition w4_fail : res unit := wit_eval "[ 5 6 ] foreach loop" w4_s0.
Definition w4_resumed : option (res unit) := run lw_nf 100 (set_limits (wit_state w4_fail) None None None).

Theorem foreach_init_partial_push :
  (exists s', w4_fail = RErr ELimit None s') /\
  ds (wit_state w4_fail) = [CInt 2; CVec [CInt 5; CInt 6]] /\
  lw_kind w4_resumed = Some EType /\
  (exists s', wit_eval "[ 5 6 ] foreach loop" boot = ROk tt s' /\ ds s' = []).
Proof.
  split; [eexists; vm_compute; reflexivity|]. split; [vm_compute; reflexivity|].
  split; [vm_compute; reflexivity|].
  eexists. split; [vm_compute; reflexivity|reflexivity].
Qed.

(* W5: [over] on a full stack while recording: the reverse-log entry of [over] is written
   before the push is refused, so the failed instruction leaves a longer log (stepping back
   consumes the entry without harm: the logging pop it performs is undone at once) *)
Definition w5_s0 : state :=
  set_rlog (set_limits (wit_state (wit_eval "1 2" boot)) None None (Some 2%Z)) (Some []).
Definition w5_fail : res unit := wit_eval "over" w5_s0.

Theorem over_logs_before_failing :
  (exists s', w5_fail = RErr ELimit None s') /\
  ds (wit_state w5_fail) = [CInt 2; CInt 1] /\ rlog (wit_state w5_fail) = Some [ROverData] /\
  (exists s', rnext (wit_state w5_fail) = ROk tt s' /\ ds s' = [CInt 2; CInt 1] /\ rlog s' = Some []).
Proof.
  split; [eexists; vm_compute; reflexivity|]. split; [vm_compute; reflexivity|].
  split; [vm_compute; reflexivity|].
  eexists. split; [vm_compute; reflexivity|split; reflexivity].
Qed.

(* a positive instance: a literal on a full stack fails and changes only the meter *)
Definition w6_s0 : state := set_limits boot None None (Some 2%Z).
Definition w6_fail : res unit := wit_eval "1 2 3" w6_s0.
Definition w6_resumed : option (res unit) := run lw_nf 100 (set_limits (wit_state w6_fail) None None None).

Theorem literal_failure_resumes :
  (exists s', w6_fail = RErr ELimit None s') /\
  ds (wit_state w6_fail) = [CInt 2; CInt 1] /\
  lw_kind w6_resumed = None /\ ds (lw_state w6_resumed) = [CInt 3; CInt 2; CInt 1].
Proof.
  split; [eexists; vm_compute; reflexivity|]. split; [vm_compute; reflexivity|].
  split; vm_compute; reflexivity.
Qed.
